/-
Helper lemmas for the C01 extension round: request environment (buffer pool, client disconnect,
short body), what CompareAndTouch's collision verdict means, independence of PUT from the contents
of read-only mounts, "first intact copy in mount order".
-/
import ArvVerif.Proofs.C01
namespace ArvVerif.C01
set_option linter.unusedSectionVars false

section
variable {δ β : Type} [DecidableEq δ] [DecidableEq β]

/-! ### GetBlock with the ctx.Done() checks -/

theorem getLoopEnv_ok (hash : β → δ) (h : δ) :
    ∀ (rs : List (ReadResult β)) (e : GetErr) (gone : Option Nat) (b : β),
      getLoopEnv hash h rs e gone = .ok b → hash b = h ∧ ReadResult.data b ∈ rs := by
  intro rs
  induction rs with
  | nil => intro e gone b hb; simp [getLoopEnv] at hb
  | cons r rest ih =>
    intro e gone b hb
    unfold getLoopEnv at hb
    by_cases hg : gone = some 0
    · simp [hg] at hb
    · simp only [hg, if_false] at hb
      cases r with
      | notFound =>
        have := ih _ _ b hb
        exact ⟨this.1, List.mem_cons_of_mem _ this.2⟩
      | tooLong =>
        have := ih _ _ b hb
        exact ⟨this.1, List.mem_cons_of_mem _ this.2⟩
      | data c =>
        simp only at hb
        by_cases hc : hash c = h
        · simp only [hc, if_true] at hb
          cases hb
          exact ⟨hc, List.mem_cons_self⟩
        · simp only [hc, if_false] at hb
          have := ih _ _ b hb
          exact ⟨this.1, List.mem_cons_of_mem _ this.2⟩

/-- embedding of the undisturbed result -/
def GetResult.toE : GetResult β → GetResultE β
  | .ok b => .ok b
  | .err e => .err e

theorem getLoopEnv_none (hash : β → δ) (h : δ) :
    ∀ (rs : List (ReadResult β)) (e : GetErr),
      getLoopEnv hash h rs e none = (getLoop hash h rs e).toE := by
  intro rs
  induction rs with
  | nil => intro e; simp [getLoopEnv, getLoop, GetResult.toE]
  | cons r rest ih =>
    intro e
    unfold getLoopEnv
    cases r with
    | notFound => simp [getLoop, ih]
    | tooLong => simp [getLoop, ih]
    | data c =>
      by_cases hc : hash c = h
      · simp [getLoop, hc, GetResult.toE]
      · simp [getLoop, hc, ih]

/-! ### the first intact copy in mount order -/

theorem getLoop_first (hash : β → δ) (h : δ) :
    ∀ (rs : List (ReadResult β)) (e : GetErr) (b : β),
      getLoop hash h rs e = .ok b →
      ∃ pre post, rs = pre ++ ReadResult.data b :: post ∧ hash b = h ∧
        ∀ c, ReadResult.data c ∈ pre → hash c ≠ h := by
  intro rs
  induction rs with
  | nil => intro e b hb; simp [getLoop] at hb
  | cons r rest ih =>
    intro e b hb
    have lift : ∀ (r : ReadResult β), (∀ c, r ≠ ReadResult.data c ∨ hash c ≠ h) →
        (∃ pre post, rest = pre ++ ReadResult.data b :: post ∧ hash b = h ∧
          ∀ c, ReadResult.data c ∈ pre → hash c ≠ h) →
        ∃ pre post, r :: rest = pre ++ ReadResult.data b :: post ∧ hash b = h ∧
          ∀ c, ReadResult.data c ∈ pre → hash c ≠ h := by
      intro r hr ⟨pre, post, he, hh, hp⟩
      refine ⟨r :: pre, post, by rw [he]; rfl, hh, ?_⟩
      intro c hc
      rcases List.mem_cons.mp hc with h1 | h1
      · rcases hr c with h2 | h2
        · exact absurd h1.symm h2
        · exact h2
      · exact hp c h1
    cases r with
    | notFound =>
      simp only [getLoop] at hb
      exact lift _ (fun c => .inl (by intro hc; cases hc)) (ih e b hb)
    | tooLong =>
      simp only [getLoop] at hb
      exact lift _ (fun c => .inl (by intro hc; cases hc)) (ih e b hb)
    | data d =>
      simp only [getLoop] at hb
      by_cases hd : hash d = h
      · simp only [hd, if_true] at hb
        cases hb
        exact ⟨[], rest, rfl, hd, by intro c hc; simp at hc⟩
      · simp only [hd, if_false] at hb
        refine lift _ (fun c => ?_) (ih .diskHash b hb)
        by_cases hcd : c = d
        · subst hcd; exact .inr hd
        · exact .inl (by intro hc; cases hc; exact hcd rfl)

/-! ### CompareAndTouch's collision verdict, the dead `failed` branch -/

theorem compareAndTouch_collision (hash : β → δ) (size : β → Nat) (h : δ) (body : β) :
    ∀ (vols : List (Vol δ β)),
      compareAndTouch hash size h body vols = .collision →
      ∃ v ∈ vols, v.ro = false ∧ ∃ f, v.files h = some f ∧ f ≠ body ∧ hash f = h := by
  intro vols
  induction vols with
  | nil => intro hr; simp [compareAndTouch] at hr
  | cons v rest ih =>
    intro hr
    have lift : (∃ v ∈ rest, v.ro = false ∧ ∃ f, v.files h = some f ∧ f ≠ body ∧ hash f = h) →
        ∃ v' ∈ v :: rest, v'.ro = false ∧ ∃ f, v'.files h = some f ∧ f ≠ body ∧ hash f = h := by
      rintro ⟨w, hw, hp⟩; exact ⟨w, List.mem_cons_of_mem _ hw, hp⟩
    unfold compareAndTouch at hr
    by_cases hro : v.ro = true
    · simp only [hro, if_true] at hr
      exact lift (ih hr)
    · have hro' : v.ro = false := by simpa using hro
      simp only [hro', Bool.false_eq_true, if_false] at hr
      cases hc : volCompare hash size v h body with
      | collision =>
        refine ⟨v, List.mem_cons_self, hro', ?_⟩
        unfold volCompare at hc
        cases hf : v.files h with
        | none => simp [hf] at hc
        | some f =>
          simp only [hf] at hc
          by_cases hs : size f > blockSize
          · simp [hs] at hc
          · simp only [hs, if_false] at hc
            by_cases he : f = body
            · simp [he] at hc
            · simp only [he, if_false, collisionOrCorrupt] at hc
              by_cases hh : hash f = h
              · exact ⟨f, rfl, he, hh⟩
              · simp [hh] at hc
      | same =>
        simp only [hc, volTouch, hro', Bool.not_false, if_true] at hr
        cases hr
      | notExist => simp only [hc] at hr; exact lift (ih hr)
      | tooLong => simp only [hc] at hr; exact lift (ih hr)
      | corrupt => simp only [hc] at hr; exact lift (ih hr)

/-- `Put` on a mount taken from `AllWritable()` never returns MethodDisabledError, so the loop's
`default:` branch (GenericError) is dead for Directory volumes whose only failure is FullError. -/
theorem putLoop_not_failed (h : δ) (body : β) :
    ∀ (vols : List (Vol δ β)), (match putLoop h body vols with | .failed => False | _ => True) := by
  intro vols
  induction vols with
  | nil => simp [putLoop]
  | cons v rest ih =>
    unfold putLoop
    by_cases hro : v.ro = true
    · simp only [hro, if_true]
      cases hp : putLoop h body rest <;> simp [hp] at ih ⊢
    · have hro' : v.ro = false := by simpa using hro
      simp only [hro', Bool.false_eq_true, if_false]
      by_cases hfu : v.full = true
      · have hw : volWrite v h body = (.full, v) := by simp [volWrite, hro', hfu]
        simp only [hw]
        cases hp : putLoop h body rest <;> simp [hp] at ih ⊢
      · have hfu' : v.full = false := by simpa using hfu
        have hw : volWrite v h body = (.ok, { v with files := update v.files h body }) := by
          simp [volWrite, hro', hfu']
        simp only [hw]

/-! ### PUT does not look at read-only mounts -/

/-- two mount lists that differ at most in what their read-only mounts hold -/
def RoRel (a b : Vol δ β) : Prop := a = b ∨ (a.ro = true ∧ b.ro = true)

theorem roRel_allWritable_length :
    ∀ {l l' : List (Vol δ β)}, Pointwise RoRel l l' →
      (allWritable l).length = (allWritable l').length := by
  intro l l' hp
  induction hp with
  | nil => rfl
  | cons hab _ ih =>
    rcases hab with hab | ⟨ha, hb⟩
    · subst hab; simp only [allWritable, List.filter_cons] at ih ⊢; split <;> simp [ih]
    · simp only [allWritable, List.filter_cons, ha, hb, Bool.not_true] at ih ⊢
      simpa using ih

theorem roRel_compareAndTouch (hash : β → δ) (size : β → Nat) (h : δ) (body : β) :
    ∀ {l l' : List (Vol δ β)}, Pointwise RoRel l l' →
      compareAndTouch hash size h body l = compareAndTouch hash size h body l' := by
  intro l l' hp
  induction hp with
  | nil => rfl
  | cons hab _ ih =>
    rcases hab with hab | ⟨ha, hb⟩
    · subst hab; unfold compareAndTouch; rw [ih]
    · unfold compareAndTouch; simp only [ha, hb, if_true]; exact ih

theorem roRel_nthWritable :
    ∀ {l l' : List (Vol δ β)}, Pointwise RoRel l l' → ∀ k, nthWritable l k = nthWritable l' k := by
  intro l l' hp
  induction hp with
  | nil => intro k; rfl
  | cons hab _ ih =>
    intro k
    rcases hab with hab | ⟨ha, hb⟩
    · subst hab; unfold nthWritable
      split
      · exact ih k
      · cases k with
        | zero => rfl
        | succ k => exact ih k
    · unfold nthWritable; simp only [ha, hb, if_true]; exact ih k

theorem roRel_setNthWritable (v' : Vol δ β) :
    ∀ {l l' : List (Vol δ β)}, Pointwise RoRel l l' → ∀ k,
      Pointwise RoRel (setNthWritable v' l k) (setNthWritable v' l' k) := by
  intro l l' hp
  induction hp with
  | nil => intro k; exact .nil
  | cons hab hrest ih =>
    intro k
    rcases hab with hab | ⟨ha, hb⟩
    · subst hab; unfold setNthWritable
      split
      · exact .cons (.inl rfl) (ih k)
      · cases k with
        | zero => exact .cons (.inl rfl) hrest
        | succ k => exact .cons (.inl rfl) (ih k)
    · unfold setNthWritable; simp only [ha, hb, if_true]
      exact .cons (.inr ⟨ha, hb⟩) (ih k)

/-- relation between two results of the write loop -/
def PutLoopRel : PutLoopResult δ β → PutLoopResult δ β → Prop
  | .ok r vs, .ok r' vs' => r = r' ∧ Pointwise RoRel vs vs'
  | .allFull, .allFull => True
  | .failed, .failed => True
  | _, _ => False

theorem roRel_putLoop (h : δ) (body : β) :
    ∀ {l l' : List (Vol δ β)}, Pointwise RoRel l l' →
      PutLoopRel (putLoop h body l) (putLoop h body l') := by
  intro l l' hp
  induction hp with
  | nil => simp [putLoop, PutLoopRel]
  | @cons a b l l' hab hrest ih =>
    have keep : ∀ (x y : Vol δ β), RoRel x y →
        PutLoopRel
          (match putLoop h body l with
            | .ok r vs => PutLoopResult.ok r (x :: vs) | .allFull => .allFull | .failed => .failed)
          (match putLoop h body l' with
            | .ok r vs => PutLoopResult.ok r (y :: vs) | .allFull => .allFull | .failed => .failed) := by
      intro x y hxy
      cases h1 : putLoop h body l <;> cases h2 : putLoop h body l' <;>
        simp [h1, h2, PutLoopRel] at ih ⊢
      exact ⟨ih.1, .cons hxy ih.2⟩
    rcases hab with hab | ⟨ha, hb⟩
    · subst hab
      unfold putLoop
      by_cases hro : a.ro = true
      · simp only [hro, if_true]; exact keep a a (.inl rfl)
      · have hro' : a.ro = false := by simpa using hro
        simp only [hro', Bool.false_eq_true, if_false]
        by_cases hfu : a.full = true
        · have hw : volWrite a h body = (.full, a) := by simp [volWrite, hro', hfu]
          simp only [hw]; exact keep a a (.inl rfl)
        · have hfu' : a.full = false := by simpa using hfu
          have hw : volWrite a h body = (.ok, { a with files := update a.files h body }) := by
            simp [volWrite, hro', hfu']
          simp only [hw]
          exact ⟨rfl, .cons (.inl rfl) hrest⟩
    · unfold putLoop
      simp only [ha, hb, if_true]
      exact keep a b (.inr ⟨ha, hb⟩)

end
end ArvVerif.C01

namespace ArvVerif.C01
set_option linter.unusedSectionVars false
section
variable {δ β : Type} [DecidableEq δ] [DecidableEq β]

/-- the write path ends in success or FullError, nothing else -/
theorem putViaLoop_outcome (h : δ) (body : β) (vols : List (Vol δ β)) (c : Nat) :
    (putViaLoop h body vols c).1 = .full ∨ ∃ r, (putViaLoop h body vols c).1 = .ok r := by
  unfold putViaLoop
  by_cases hn : (allWritable vols).length = 0
  · simp [hn]
  · simp only [hn, if_false]
    have := putLoop_not_failed h body vols
    cases hp : putLoop h body vols <;> simp [hp] at this ⊢

theorem putNew_outcome (h : δ) (body : β) (vols : List (Vol δ β)) (rr : Nat) :
    (putNew h body vols rr).1 = .full ∨ ∃ r, (putNew h body vols rr).1 = .ok r := by
  unfold putNew
  rcases nextWritable vols rr with ⟨ok, c⟩
  cases ok with
  | none => exact putViaLoop_outcome h body vols c
  | some k =>
    simp only
    cases nthWritable vols k with
    | none => exact putViaLoop_outcome h body vols c
    | some v =>
      simp only
      rcases volWrite v h body with ⟨wr, v'⟩
      cases wr with
      | ok => exact .inr ⟨_, rfl⟩
      | readOnly => exact putViaLoop_outcome h body vols c
      | full => exact putViaLoop_outcome h body vols c

/-- relation between two `PutBlock` results on mount lists related by `RoRel` -/
def PutResRel (a b : PutOutcome × List (Vol δ β) × Nat) : Prop :=
  a.1 = b.1 ∧ Pointwise RoRel a.2.1 b.2.1 ∧ a.2.2 = b.2.2

theorem roRel_putViaLoop (h : δ) (body : β) {l l' : List (Vol δ β)} (hp : Pointwise RoRel l l') (c : Nat) :
    PutResRel (putViaLoop h body l c) (putViaLoop h body l' c) := by
  unfold putViaLoop
  rw [roRel_allWritable_length hp]
  by_cases hn : (allWritable l').length = 0
  · simp only [hn, if_true]; exact ⟨rfl, hp, rfl⟩
  · simp only [hn, if_false]
    have := roRel_putLoop h body hp
    cases h1 : putLoop h body l <;> cases h2 : putLoop h body l' <;> simp [h1, h2, PutLoopRel] at this ⊢
    · exact ⟨by simp [this.1], this.2, rfl⟩
    · exact ⟨rfl, hp, rfl⟩
    · exact ⟨rfl, hp, rfl⟩

theorem roRel_putNew (h : δ) (body : β) {l l' : List (Vol δ β)} (hp : Pointwise RoRel l l') (rr : Nat) :
    PutResRel (putNew h body l rr) (putNew h body l' rr) := by
  unfold putNew nextWritable
  rw [roRel_allWritable_length hp]
  by_cases hn : (allWritable l').length = 0
  · simp only [hn, if_true]; exact roRel_putViaLoop h body hp rr
  · simp only [hn, if_false]
    rw [roRel_nthWritable hp]
    cases nthWritable l' ((rr + 1) % (allWritable l').length) with
    | none => exact roRel_putViaLoop h body hp _
    | some v =>
      simp only
      rcases volWrite v h body with ⟨wr, v'⟩
      cases wr with
      | ok => exact ⟨rfl, roRel_setNthWritable v' hp _, rfl⟩
      | readOnly => exact roRel_putViaLoop h body hp _
      | full => exact roRel_putViaLoop h body hp _

theorem roRel_putBlock (hash : β → δ) (size : β → Nat) (h : δ) (body : β) {l l' : List (Vol δ β)}
    (hp : Pointwise RoRel l l') (rr : Nat) :
    PutResRel (putBlock hash size l rr h body) (putBlock hash size l' rr h body) := by
  unfold putBlock
  by_cases hh : hash body = h
  · simp only [hh, ne_eq, not_true_eq_false, if_false]
    rw [roRel_compareAndTouch hash size h body hp]
    cases compareAndTouch hash size h body l' with
    | touched r => exact ⟨rfl, hp, rfl⟩
    | collision => exact ⟨rfl, hp, rfl⟩
    | miss => exact roRel_putNew h body hp rr
  · simp only [ne_eq, hh, not_false_eq_true, if_true]; exact ⟨rfl, hp, rfl⟩

end
end ArvVerif.C01
