/-
Helper lemmas for C01 (core Lean only).
-/
import ArvVerif.Model.C01
namespace ArvVerif.C01
set_option linter.unusedSectionVars false

section
variable {δ β : Type} [DecidableEq δ] [DecidableEq β]

/-! ### GetBlock -/

theorem getLoop_ok (hash : β → δ) (h : δ) :
    ∀ (rs : List (ReadResult β)) (e : GetErr) (b : β),
      getLoop hash h rs e = .ok b → hash b = h ∧ ReadResult.data b ∈ rs := by
  intro rs
  induction rs with
  | nil => intro e b hb; simp [getLoop] at hb
  | cons r rest ih =>
    intro e b hb
    cases r with
    | notFound =>
      simp only [getLoop] at hb
      have := ih e b hb
      exact ⟨this.1, List.mem_cons_of_mem _ this.2⟩
    | tooLong =>
      simp only [getLoop] at hb
      have := ih e b hb
      exact ⟨this.1, List.mem_cons_of_mem _ this.2⟩
    | data c =>
      simp only [getLoop] at hb
      by_cases hc : hash c = h
      · simp only [hc, if_true] at hb
        cases hb
        exact ⟨hc, List.mem_cons_self⟩
      · simp only [hc, if_false] at hb
        have := ih .diskHash b hb
        exact ⟨this.1, List.mem_cons_of_mem _ this.2⟩

theorem getLoop_finds (hash : β → δ) (h : δ) :
    ∀ (rs : List (ReadResult β)) (e : GetErr) (b : β),
      ReadResult.data b ∈ rs → hash b = h → ∃ b', getLoop hash h rs e = .ok b' := by
  intro rs
  induction rs with
  | nil => intro e b hb; simp at hb
  | cons r rest ih =>
    intro e b hb hh
    cases r with
    | notFound =>
      simp only [getLoop]
      rcases List.mem_cons.mp hb with h1 | h1
      · cases h1
      · exact ih e b h1 hh
    | tooLong =>
      simp only [getLoop]
      rcases List.mem_cons.mp hb with h1 | h1
      · cases h1
      · exact ih e b h1 hh
    | data c =>
      simp only [getLoop]
      by_cases hc : hash c = h
      · exact ⟨c, by simp [hc]⟩
      · simp only [hc, if_false]
        rcases List.mem_cons.mp hb with h1 | h1
        · cases h1; exact absurd hh hc
        · exact ih .diskHash b h1 hh

/-- No volume returns data: the loop ends with the error it started with. -/
theorem getLoop_nodata (hash : β → δ) (h : δ) :
    ∀ (rs : List (ReadResult β)) (e : GetErr),
      (∀ b, ReadResult.data b ∉ rs) → getLoop hash h rs e = .err e := by
  intro rs
  induction rs with
  | nil => intro e _; simp [getLoop]
  | cons r rest ih =>
    intro e hno
    have hrest : ∀ b, ReadResult.data b ∉ rest := fun b hb => hno b (List.mem_cons_of_mem _ hb)
    cases r with
    | notFound => simp only [getLoop]; exact ih e hrest
    | tooLong => simp only [getLoop]; exact ih e hrest
    | data c => exact absurd List.mem_cons_self (hno c)

/-- No data matches and a mismatch was already seen: DiskHashError. -/
theorem getLoop_nomatch_diskHash (hash : β → δ) (h : δ) :
    ∀ (rs : List (ReadResult β)),
      (∀ b, ReadResult.data b ∈ rs → hash b ≠ h) → getLoop hash h rs .diskHash = .err .diskHash := by
  intro rs
  induction rs with
  | nil => intro _; simp [getLoop]
  | cons r rest ih =>
    intro hno
    have hrest : ∀ b, ReadResult.data b ∈ rest → hash b ≠ h :=
      fun b hb => hno b (List.mem_cons_of_mem _ hb)
    cases r with
    | notFound => simp only [getLoop]; exact ih hrest
    | tooLong => simp only [getLoop]; exact ih hrest
    | data c =>
      have hc : hash c ≠ h := hno c List.mem_cons_self
      simp only [getLoop, hc, if_false]; exact ih hrest

/-- No data matches but some volume returned data: DiskHashError whatever the start error. -/
theorem getLoop_nomatch_somedata (hash : β → δ) (h : δ) :
    ∀ (rs : List (ReadResult β)) (e : GetErr),
      (∀ b, ReadResult.data b ∈ rs → hash b ≠ h) → (∃ b, ReadResult.data b ∈ rs) →
      getLoop hash h rs e = .err .diskHash := by
  intro rs
  induction rs with
  | nil => intro e _ hex; rcases hex with ⟨b, hb⟩; simp at hb
  | cons r rest ih =>
    intro e hno hex
    have hrest : ∀ b, ReadResult.data b ∈ rest → hash b ≠ h :=
      fun b hb => hno b (List.mem_cons_of_mem _ hb)
    have hex' : ∀ b, ReadResult.data b ∈ (r :: rest) → r ≠ ReadResult.data b → ReadResult.data b ∈ rest := by
      intro b hb hne
      rcases List.mem_cons.mp hb with h1 | h1
      · exact absurd h1.symm hne
      · exact h1
    cases r with
    | notFound =>
      simp only [getLoop]
      rcases hex with ⟨b, hb⟩
      exact ih e hrest ⟨b, hex' b hb (by intro hc; cases hc)⟩
    | tooLong =>
      simp only [getLoop]
      rcases hex with ⟨b, hb⟩
      exact ih e hrest ⟨b, hex' b hb (by intro hc; cases hc)⟩
    | data c =>
      have hc : hash c ≠ h := hno c List.mem_cons_self
      simp only [getLoop, hc, if_false]
      exact getLoop_nomatch_diskHash hash h rest hrest

theorem volRead_data (size : β → Nat) (v : Vol δ β) (h : δ) (b : β) :
    volRead size v h = .data b ↔ v.files h = some b ∧ size b ≤ blockSize := by
  unfold volRead
  cases hf : v.files h with
  | none => simp
  | some c =>
    by_cases hs : size c > blockSize
    · simp only [hs, if_true]
      constructor
      · intro hc; cases hc
      · intro ⟨h1, h2⟩; cases h1; omega
    · simp only [hs, if_false]
      constructor
      · intro hc; cases hc; exact ⟨rfl, by omega⟩
      · intro ⟨h1, _⟩; cases h1; rfl

theorem mem_reads (size : β → Nat) (vols : List (Vol δ β)) (h : δ) (b : β) :
    ReadResult.data b ∈ (allReadable vols).map (fun v => volRead size v h) ↔
      ∃ v ∈ vols, v.files h = some b ∧ size b ≤ blockSize := by
  simp only [allReadable, List.mem_map]
  constructor
  · rintro ⟨v, hv, hr⟩
    exact ⟨v, hv, (volRead_data size v h b).mp hr⟩
  · rintro ⟨v, hv, hr⟩
    exact ⟨v, hv, (volRead_data size v h b).mpr hr⟩

/-! ### CompareAndTouch, PutBlock -/

/-- Element-wise relation between two lists of the same length (core has no `Forall₂`). -/
inductive Pointwise {α : Type} (R : α → α → Prop) : List α → List α → Prop
  | nil : Pointwise R [] []
  | cons {a b : α} {l l' : List α} : R a b → Pointwise R l l' → Pointwise R (a :: l) (b :: l')

/-- What one `Put` may do to one mount: nothing, or — on a writable, non-full mount — replace the
file under `h` by `body`. -/
def Frame (h : δ) (body : β) (v v' : Vol δ β) : Prop :=
  v' = v ∨ (v.ro = false ∧ v.full = false ∧ v' = { v with files := update v.files h body })

theorem frame_refl (h : δ) (body : β) : ∀ (vols : List (Vol δ β)), Pointwise (Frame h body) vols vols
  | [] => .nil
  | _ :: rest => .cons (.inl rfl) (frame_refl h body rest)

theorem compareAndTouch_touched (hash : β → δ) (size : β → Nat) (h : δ) (body : β) :
    ∀ (vols : List (Vol δ β)) (r : Nat),
      compareAndTouch hash size h body vols = .touched r →
      ∃ v ∈ vols, v.ro = false ∧ v.files h = some body ∧ size body ≤ blockSize := by
  intro vols
  induction vols with
  | nil => intro r hr; simp [compareAndTouch] at hr
  | cons v rest ih =>
    intro r hr
    have lift : (∃ v ∈ rest, v.ro = false ∧ v.files h = some body ∧ size body ≤ blockSize) →
        ∃ v' ∈ v :: rest, v'.ro = false ∧ v'.files h = some body ∧ size body ≤ blockSize := by
      rintro ⟨w, hw, hp⟩; exact ⟨w, List.mem_cons_of_mem _ hw, hp⟩
    unfold compareAndTouch at hr
    by_cases hro : v.ro = true
    · simp only [hro, if_true] at hr
      exact lift (ih r hr)
    · have hro' : v.ro = false := by simpa using hro
      simp only [hro', Bool.false_eq_true, if_false] at hr
      cases hc : volCompare hash size v h body with
      | collision => simp [hc] at hr
      | same =>
        simp only [hc, volTouch, hro', Bool.not_false, if_true] at hr
        refine ⟨v, List.mem_cons_self, hro', ?_⟩
        unfold volCompare at hc
        cases hf : v.files h with
        | none => simp [hf] at hc
        | some f =>
          simp only [hf] at hc
          by_cases hs : size f > blockSize
          · simp [hs] at hc
          · simp only [hs, if_false] at hc
            by_cases he : f = body
            · subst he; exact ⟨rfl, by omega⟩
            · simp only [he, if_false, collisionOrCorrupt] at hc
              split at hc <;> cases hc
      | notExist => simp only [hc] at hr; exact lift (ih r hr)
      | tooLong => simp only [hc] at hr; exact lift (ih r hr)
      | corrupt => simp only [hc] at hr; exact lift (ih r hr)

theorem volWrite_ok (v v' : Vol δ β) (h : δ) (body : β) (hw : volWrite v h body = (.ok, v')) :
    v.ro = false ∧ v.full = false ∧ v' = { v with files := update v.files h body } := by
  cases v with
  | mk ro full repl files =>
    cases ro <;> cases full <;> simp [volWrite] at hw
    exact ⟨rfl, rfl, hw.symm⟩

theorem volWrite_fst (v : Vol δ β) (h : δ) (body : β) :
    volWrite v h body = ((volWrite v h body).1, (volWrite v h body).2) := rfl

theorem putLoop_ok (h : δ) (body : β) :
    ∀ (vols : List (Vol δ β)) (r : Nat) (vs : List (Vol δ β)),
      putLoop h body vols = .ok r vs →
      Pointwise (Frame h body) vols vs ∧ ∃ v' ∈ vs, v'.ro = false ∧ v'.files h = some body := by
  intro vols
  induction vols with
  | nil => intro r vs hp; simp [putLoop] at hp
  | cons v rest ih =>
    intro r vs hp
    -- the three "keep v, recurse" branches share this step
    have recurse : ∀ (res : PutLoopResult δ β),
        putLoop h body rest = res →
        (match res with
          | .ok r vs => PutLoopResult.ok r (v :: vs)
          | .allFull => PutLoopResult.allFull
          | .failed => PutLoopResult.failed) = PutLoopResult.ok r vs →
        Pointwise (Frame h body) (v :: rest) vs ∧ ∃ v' ∈ vs, v'.ro = false ∧ v'.files h = some body := by
      intro res hres hm
      cases res with
      | ok r' vs' =>
        simp only at hm
        cases hm
        have := ih _ _ hres
        exact ⟨.cons (.inl rfl) this.1, by
          rcases this.2 with ⟨w, hw, hp⟩; exact ⟨w, List.mem_cons_of_mem _ hw, hp⟩⟩
      | allFull => simp at hm
      | failed => simp at hm
    unfold putLoop at hp
    by_cases hro : v.ro = true
    · simp only [hro, if_true] at hp
      exact recurse _ rfl hp
    · have hro' : v.ro = false := by simpa using hro
      simp only [hro', Bool.false_eq_true, if_false] at hp
      by_cases hfu : v.full = true
      · have hw : volWrite v h body = (.full, v) := by simp [volWrite, hro', hfu]
        simp only [hw] at hp
        exact recurse _ rfl hp
      · have hfu' : v.full = false := by simpa using hfu
        have hw : volWrite v h body = (.ok, { v with files := update v.files h body }) := by
          simp [volWrite, hro', hfu']
        simp only [hw] at hp
        cases hp
        refine ⟨.cons (.inr ⟨hro', hfu', rfl⟩) (frame_refl h body rest), ?_⟩
        exact ⟨_, List.mem_cons_self, hro', by simp [update]⟩

theorem nthWritable_set (h : δ) (body : β) :
    ∀ (vols : List (Vol δ β)) (k : Nat) (v v' : Vol δ β),
      nthWritable vols k = some v → volWrite v h body = (.ok, v') →
      Pointwise (Frame h body) vols (setNthWritable v' vols k) ∧ v' ∈ setNthWritable v' vols k := by
  intro vols
  induction vols with
  | nil => intro k v v' hn; simp [nthWritable] at hn
  | cons w rest ih =>
    intro k v v' hn hw
    unfold nthWritable at hn
    unfold setNthWritable
    by_cases hro : w.ro = true
    · simp only [hro, if_true] at hn ⊢
      have := ih k v v' hn hw
      exact ⟨.cons (.inl rfl) this.1, List.mem_cons_of_mem _ this.2⟩
    · simp only [hro] at hn ⊢
      cases k with
      | zero =>
        simp only at hn ⊢
        cases hn
        have := volWrite_ok w v' h body hw
        exact ⟨.cons (.inr this) (frame_refl h body rest), List.mem_cons_self⟩
      | succ k =>
        simp only at hn ⊢
        have := ih k v v' hn hw
        exact ⟨.cons (.inl rfl) this.1, List.mem_cons_of_mem _ this.2⟩

/-- What `PutBlock` guarantees about its result, whatever branch was taken. -/
structure PutSpec (hash : β → δ) (h : δ) (body : β) (vols : List (Vol δ β))
    (res : PutOutcome × List (Vol δ β) × Nat) : Prop where
  frame : Pointwise (Frame h body) vols res.2.1
  stored : ∀ r, res.1 = .ok r → ∃ v' ∈ res.2.1, v'.ro = false ∧ v'.files h = some body
  unchanged : (∀ r, res.1 ≠ .ok r) → res.2.1 = vols

theorem putViaLoop_spec (hash : β → δ) (h : δ) (body : β) (vols : List (Vol δ β)) (c : Nat) :
    PutSpec hash h body vols (putViaLoop h body vols c) := by
  unfold putViaLoop
  by_cases hn : (allWritable vols).length = 0
  · simp only [hn, if_true]
    exact ⟨frame_refl h body vols, (by intro r hr; cases hr), fun _ => rfl⟩
  · simp only [hn, if_false]
    cases hp : putLoop h body vols with
    | ok r vs =>
      have := putLoop_ok h body vols r vs hp
      exact ⟨this.1, fun _ _ => this.2, fun hno => absurd rfl (hno r)⟩
    | allFull => exact ⟨frame_refl h body vols, (by intro r hr; cases hr), fun _ => rfl⟩
    | failed => exact ⟨frame_refl h body vols, (by intro r hr; cases hr), fun _ => rfl⟩

theorem putNew_spec (hash : β → δ) (h : δ) (body : β) (vols : List (Vol δ β)) (rr : Nat) :
    PutSpec hash h body vols (putNew h body vols rr) := by
  unfold putNew
  rcases hnw : nextWritable vols rr with ⟨ok, c⟩
  cases ok with
  | none => exact putViaLoop_spec hash h body vols c
  | some k =>
    simp only
    cases hn : nthWritable vols k with
    | none => exact putViaLoop_spec hash h body vols c
    | some v =>
      simp only
      rcases hw : volWrite v h body with ⟨wr, v'⟩
      cases wr with
      | ok =>
        have := nthWritable_set h body vols k v v' hn hw
        have hwo := volWrite_ok v v' h body hw
        exact ⟨this.1, fun _ _ => ⟨v', this.2, by
          have := hwo.2.2
          subst this; exact hwo.1, by
          have := hwo.2.2
          subst this; simp [update]⟩, fun hno => absurd rfl (hno _)⟩
      | readOnly => exact putViaLoop_spec hash h body vols c
      | full => exact putViaLoop_spec hash h body vols c

theorem putBlock_spec (hash : β → δ) (size : β → Nat) (vols : List (Vol δ β)) (rr : Nat) (h : δ)
    (body : β) : PutSpec hash h body vols (putBlock hash size vols rr h body) := by
  unfold putBlock
  by_cases hh : hash body = h
  · simp only [hh, ne_eq, not_true_eq_false, if_false]
    cases hc : compareAndTouch hash size h body vols with
    | touched r =>
      have := compareAndTouch_touched hash size h body vols r hc
      rcases this with ⟨v, hv, hro, hf, _⟩
      exact ⟨frame_refl h body vols, fun _ _ => ⟨v, hv, hro, hf⟩, fun _ => rfl⟩
    | collision => exact ⟨frame_refl h body vols, (by intro r hr; cases hr), fun _ => rfl⟩
    | miss => exact putNew_spec hash h body vols rr
  · simp only [ne_eq, hh, not_false_eq_true, if_true]
    exact ⟨frame_refl h body vols, (by intro r hr; cases hr), fun _ => rfl⟩

theorem putBlock_ok_hash (hash : β → δ) (size : β → Nat) (vols : List (Vol δ β)) (rr : Nat) (h : δ)
    (body : β) (r : Nat) (hr : (putBlock hash size vols rr h body).1 = .ok r) : hash body = h := by
  unfold putBlock at hr
  by_cases hh : hash body = h
  · exact hh
  · simp [hh] at hr

theorem forall₂_getElem? {α : Type} {R : α → α → Prop} :
    ∀ {l l' : List α}, Pointwise R l l' → ∀ (i : Nat) (a : α), l[i]? = some a →
      ∃ b, l'[i]? = some b ∧ R a b := by
  intro l l' hf
  induction hf with
  | nil => intro i a ha; simp at ha
  | cons hab _ ih =>
    intro i a ha
    cases i with
    | zero => simp at ha; cases ha; exact ⟨_, by simp, hab⟩
    | succ i => simp at ha; simpa using ih i a ha

end

/-! ### Byte level -/

section
variable {δ : Type} [DecidableEq δ]

theorem compareReaderWithBuf_spec (hash : Bytes → δ) (h : δ) (expect : Bytes) :
    ∀ (chunks : List Bytes) (done cmp : Bytes), expect = done ++ cmp →
      compareReaderWithBuf hash h expect cmp chunks =
        if chunks.flatten = cmp then .same
        else if hash (done ++ chunks.flatten) = h then .collision else .corrupt := by
  intro chunks
  induction chunks with
  | nil =>
    intro done cmp he
    have htake : expect.take (expect.length - cmp.length) = done := by
      subst he; simp
    unfold compareReaderWithBuf
    by_cases hc : cmp = []
    · subst hc; simp
    · have hl : cmp.length ≠ 0 := by
        intro h0; exact hc (List.eq_nil_of_length_eq_zero h0)
      have hne : ¬ ([] : Bytes) = cmp := fun h0 => hc h0.symm
      simp [hl, hne, collisionOrCorruptBytes, htake]
  | cons c rest ih =>
    intro done cmp he
    have htake : expect.take (expect.length - cmp.length) = done := by
      subst he; simp
    unfold compareReaderWithBuf
    by_cases hbad : c.length > cmp.length ∨ cmp.take c.length ≠ c
    · have hne : ¬ c ++ rest.flatten = cmp := by
        intro heq
        rcases hbad with hl | ht
        · have := congrArg List.length heq
          simp at this; omega
        · apply ht; rw [← heq]; simp
      simp only [hbad, if_true, collisionOrCorruptBytes, htake, List.flatten_cons,
        List.append_assoc, hne, if_false]
    · simp only [hbad, if_false]
      have hle : c.length ≤ cmp.length := by
        have : ¬ c.length > cmp.length := fun hgt => hbad (.inl hgt)
        omega
      have htk : cmp.take c.length = c :=
        Classical.byContradiction fun hne => hbad (.inr hne)
      have hsplit : cmp = c ++ cmp.drop c.length := by
        conv => lhs; rw [← List.take_append_drop c.length cmp, htk]
      have he' : expect = (done ++ c) ++ cmp.drop c.length := by
        rw [he, List.append_assoc, ← hsplit]
      rw [ih (done ++ c) (cmp.drop c.length) he']
      have hiff : (rest.flatten = cmp.drop c.length) ↔ ((c :: rest).flatten = cmp) := by
        simp only [List.flatten_cons]
        constructor
        · intro h1; rw [h1]; exact hsplit.symm
        · intro h1
          have : c ++ rest.flatten = c ++ cmp.drop c.length := by rw [h1]; exact hsplit
          exact List.append_cancel_left this
      by_cases hr : rest.flatten = cmp.drop c.length
      · simp [hr, hiff.mp hr]
      · have hr' : ¬ c ++ rest.flatten = cmp := fun hx => hr (hiff.mpr (by simpa using hx))
        simp only [hr, hr', if_false, List.flatten_cons, List.append_assoc]

end

end ArvVerif.C01
