/-
C17 — canonical container paths. A path below the output directory is *canonical* when it is clean
and none of its proper prefixes (at or below the output directory) is a symbolic link on the host:
then the host resolves it to itself (`namei_nolink`), so the copier's textual tests (mount prefix,
secret prefix, mount point lookup) speak about the file that is actually opened.
`Direct h cfg` says that every link in the host tree whose target is taken into the output
directory's mount has a canonical target: absolute targets are clean, and no target passes through
a symlinked directory. (The complement is exactly the shape of the findings F17a / F17b.)
-/
import ArvVerif.Proofs.C17_Fail
namespace ArvVerif.C17

theorem namei_nolink (h : Host) : ∀ (rel cur : Path) (cnt : Nat) (p : Path) (n : Node),
    (∀ c ∈ rel, CleanName c) →
    (∀ k, 0 < k → k < rel.length → ∀ a t, h.get (cur ++ rel.take k) ≠ some (.link a t)) →
    namei h cur rel cnt = .found p n →
    p = cur ++ rel ∧ (rel ≠ [] → h.get p = some n) ∧ (rel = [] → n = .dir) := by
  intro rel
  induction rel with
  | nil =>
    intro cur cnt p n _ _ hf
    rw [namei] at hf; simp at hf
    exact ⟨by simp [hf.1], by simp, fun _ => hf.2.symm⟩
  | cons c rest ih =>
    intro cur cnt p n hcl hnl hf
    obtain ⟨h1, h2, h3⟩ := hcl c (by simp)
    rw [namei] at hf
    simp only [h1, h2, h3, or_self, if_false] at hf
    cases hg : h.get (cur ++ [c]) with
    | none => rw [hg] at hf; cases hf
    | some node =>
      rw [hg] at hf
      cases node with
      | dir =>
        simp only at hf
        obtain ⟨hp, hne, hnil⟩ := ih (cur ++ [c]) cnt p n (fun x hx => hcl x (List.mem_cons_of_mem _ hx))
          (by
            intro k hk0 hk a t
            have := hnl (k + 1) (by omega) (by simp; omega) a t
            simpa [List.take_succ_cons, List.append_assoc] using this) hf
        refine ⟨by simpa [List.append_assoc] using hp, ?_, by simp⟩
        intro _
        by_cases hr : rest = []
        · subst hr
          have := hnil rfl
          subst this
          rw [hp]; simpa using hg
        · exact hne hr
      | link a t =>
        simp only at hf
        by_cases hr : rest = []
        · subst hr
          simp only [if_true] at hf
          simp at hf
          exact ⟨by simp [hf.1], fun _ => by rw [← hf.1, ← hf.2]; exact hg, by simp⟩
        · exfalso
          have hlen : 1 < (c :: rest).length := by
            cases rest with
            | nil => exact absurd rfl hr
            | cons _ _ => simp
          have := hnl 1 (by omega) hlen a t
          simp only [List.take_succ_cons, List.take_zero] at this
          exact this hg
      | file content =>
        simp only at hf
        by_cases hr : rest = []
        · subst hr
          simp at hf
          exact ⟨by simp [hf.1], fun _ => by rw [← hf.1, ← hf.2]; exact hg, by simp⟩
        · simp [hr] at hf
      | special =>
        simp only at hf
        by_cases hr : rest = []
        · subst hr
          simp at hf
          exact ⟨by simp [hf.1], fun _ => by rw [← hf.1, ← hf.2]; exact hg, by simp⟩
        · simp [hr] at hf

/-- sanity of the configuration: clean paths, the host output directory exists, no secret mount at
or above the output path -/
structure CfgWF (h : Host) (cfg : Cfg) : Prop where
  ctrClean : ∀ c ∈ cfg.ctrOut, CleanName c
  real : OutDirReal h cfg
  noSecretAbove : ∀ s ∈ cfg.secrets, s.isPrefixOf cfg.ctrOut = false

/-- `src` (below the output path) is clean and none of its proper prefixes is a host symlink -/
structure Canon (h : Host) (cfg : Cfg) (src : Path) : Prop where
  pre : cfg.ctrOut.isPrefixOf src = true
  clean : ∀ c ∈ src, CleanName c
  nolink : ∀ k, cfg.ctrOut.length < k → k < src.length →
    ∀ a t, h.get (cfg.hostOut ++ (src.take k).drop cfg.ctrOut.length) ≠ some (.link a t)

/-- every link of the host tree that is taken into the output mount has a canonical target -/
def Direct (h : Host) (cfg : Cfg) : Prop :=
  ∀ e ∈ h, ∀ a t, e.2 = .link a t → ∀ rel, e.1 = cfg.hostOut ++ rel →
    cfg.ctrOut.isPrefixOf (linkTarget (cfg.ctrOut ++ rel) a t) = true →
    Canon h cfg (linkTarget (cfg.ctrOut ++ rel) a t)

theorem drop_take_rel (k n : Nat) (src : Path) (hk : n ≤ k) :
    (src.take k).drop n = (src.drop n).take (k - n) := by
  rw [List.drop_take]

/-- a canonical path resolves to itself -/
theorem namei_canon (h : Host) (cfg : Cfg) (wf : CfgWF h cfg) (src : Path) (hc : Canon h cfg src)
    (p : Path) (n : Node) (hf : namei h [] (hostPath cfg src) 0 = .found p n) :
    p = hostPath cfg src ∧ (src.length ≠ cfg.ctrOut.length → h.get p = some n) ∧
    (src.length = cfg.ctrOut.length → n = .dir) := by
  obtain ⟨cnt', hcnt⟩ := namei_append h cfg.hostOut [] 0 (src.drop cfg.ctrOut.length) cfg.hostOut wf.real
  have hf' : namei h cfg.hostOut (src.drop cfg.ctrOut.length) cnt' = .found p n := by
    rw [← hcnt]; exact hf
  have hlen := prefix_length_le _ _ hc.pre
  obtain ⟨hp, hne, hnil⟩ := namei_nolink h (src.drop cfg.ctrOut.length) cfg.hostOut cnt' p n
    (fun c hcm => hc.clean c (List.mem_of_mem_drop hcm))
    (by
      intro k hk0 hk a t
      simp only [List.length_drop] at hk
      have := hc.nolink (k + cfg.ctrOut.length) (by omega) (by omega) a t
      rw [drop_take_rel _ _ _ (by omega)] at this
      simpa using this) hf'
  refine ⟨hp, ?_, ?_⟩
  · intro hl; apply hne
    intro hd
    have := congrArg List.length hd
    simp at this; omega
  · intro hl; apply hnil
    apply List.eq_nil_of_length_eq_zero; simp; omega

end ArvVerif.C17
