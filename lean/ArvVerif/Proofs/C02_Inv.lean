/-
C02 helper lemmas, part 3: the intactness invariant over histories with crashes.
-/
import ArvVerif.Proofs.C02_Write
namespace ArvVerif.C02

variable (hash : Bytes → Name)

/-! ### owners of names -/

theorem blockName_length {h : Name} (hb : isBlockName h = true) : h.length = 32 := by
  simp [isBlockName] at hb; exact hb.1

theorem owner_block {h : Name} (hb : isBlockName h = true) : owner h = some h := by
  simp [owner, hb]

theorem owner_tmp (h sfx : Name) : owner (tmpName h sfx) = none := by
  simp [owner, tmp_not_blockName, tmp_not_trashLike]

theorem owner_trashPrefixed {h : Name} (hb : isBlockName h = true) (rest : Name) :
    owner (h ++ trashInfix ++ rest) = some h := by
  have hl := blockName_length hb
  rw [List.append_assoc]
  have h1 : isBlockName (h ++ (trashInfix ++ rest)) = false := by
    simp [isBlockName, trashInfix, hl]
  have h2 : (h ++ (trashInfix ++ rest)).take 32 = h := by
    rw [List.take_append_of_le_length (by omega), List.take_of_length_le (by omega)]
  have h3 : ((h ++ (trashInfix ++ rest)).drop 32).take 7 = trashInfix := by
    rw [List.drop_append_of_le_length (by omega), List.drop_of_length_le (by omega)]
    simp [trashInfix]
  unfold owner isTrashLike
  rw [h1, h2, h3, hb]
  simp

theorem owner_trashName {h : Name} (hb : isBlockName h = true) (d : Nat) :
    owner (trashName h d) = some h := owner_trashPrefixed hb _

/-! ### steps that keep the invariant -/

def StepOk (fs : FS) : Step → Prop
  | .nop => True
  | .mkdirAll _ => True
  | .chtimes _ _ => True
  | .remove _ => True
  | .createTemp p _ => owner p.name = none
  | .append p _ => owner p.name = none
  | .rename a b => ∀ f, fs.get a = some f → ∀ h, owner b.name = some h → hash f.data = h

theorem intact_erase {fs : FS} (hi : Intact hash fs) (q : Path) : Intact hash (fs.erase q) :=
  fun e he => hi e (mem_erase he).1

theorem intact_set {fs : FS} (hi : Intact hash fs) (q : Path) (g : File)
    (hg : ∀ h, owner q.name = some h → hash g.data = h) : Intact hash (fs.set q g) := by
  intro e he
  rcases mem_set he with rfl | ⟨h1, _⟩
  · exact hg
  · exact hi e h1

theorem intact_apply {fs : FS} (hi : Intact hash fs) {s : Step} (hs : StepOk hash fs s) :
    Intact hash (s.apply fs) := by
  cases s with
  | nop => exact hi
  | mkdirAll d => simp only [Step.apply]; split <;> exact hi
  | createTemp p t =>
    exact intact_set hash hi _ _ (fun h hh => by simp [StepOk] at hs; simp [hs] at hh)
  | append p c =>
    simp only [Step.apply]; split
    · exact intact_set hash hi _ _ (fun h hh => by simp [StepOk] at hs; simp [hs] at hh)
    · exact hi
  | chtimes p t =>
    simp only [Step.apply]; split
    · rename_i f hf
      exact intact_set hash hi _ _ (fun h hh => hi _ (get_some_mem hf) h hh)
    · exact hi
  | rename a b =>
    simp only [Step.apply]; split
    · rename_i f hf
      exact intact_set hash (intact_erase hash hi _) _ _ (fun h hh => hs f hf h hh)
    · exact hi
  | remove p => exact intact_erase hash hi _

def EvsOk : FS → List Ev → Prop
  | _, [] => True
  | fs, e :: es => StepOk hash fs e.eff ∧ EvsOk (e.eff.apply fs) es

theorem evsOk_append {fs : FS} {a b : List Ev} :
    EvsOk hash fs (a ++ b) ↔ EvsOk hash fs a ∧ EvsOk hash (run fs a) b := by
  induction a generalizing fs with
  | nil => simp [EvsOk]
  | cons e es ih => simp [EvsOk, ih, and_assoc]

theorem intact_prefix {fs : FS} {evs : List Ev} (hi : Intact hash fs) (ho : EvsOk hash fs evs) (k : Nat) :
    Intact hash (run fs (evs.take k)) := by
  induction evs generalizing fs k with
  | nil => simpa using hi
  | cons e es ih =>
    cases k with
    | zero => simpa using hi
    | succ k => exact ih (intact_apply hash hi ho.1) ho.2 k

/-- steps that are fine in every state -/
def StaticOk : Step → Prop
  | .rename _ _ => False
  | .createTemp p _ => owner p.name = none
  | .append p _ => owner p.name = none
  | _ => True

theorem stepOk_of_static {s : Step} (h : StaticOk s) (fs : FS) : StepOk hash fs s := by
  cases s <;> simp_all [StaticOk, StepOk]

theorem evsOk_of_static {evs : List Ev} (h : ∀ e ∈ evs, StaticOk e.eff) (fs : FS) : EvsOk hash fs evs := by
  induction evs generalizing fs with
  | nil => trivial
  | cons e es ih =>
    exact ⟨stepOk_of_static hash (h e List.mem_cons_self) fs, ih (fun e' he' => h e' (List.mem_cons_of_mem _ he')) _⟩

/-! ### WriteBlock -/

def WBOk (w : WBIn) : Prop := isBlockName w.h = true ∧ (w.rend = .eof → hash w.chunks.flatten = w.h)

theorem static_of_local {p : Path} (hp : owner p.name = none) {s : Step} (h : LocalAt p s) : StaticOk s := by
  cases s <;> simp_all [LocalAt, StaticOk]

theorem wb_evsOk (fs : FS) (w : WBIn) (hw : WBOk hash w) : EvsOk hash fs (writeBlockEvs w).1 := by
  have hown : owner (tmpPath w.h w.sfx).name = none := owner_tmp w.h w.sfx
  rcases wb_shape w with ⟨_, hl⟩ | ⟨_, hr, _, he⟩
  · exact evsOk_of_static hash (fun e he => static_of_local hown (hl e he)) fs
  · rw [he, evsOk_append]
    refine ⟨evsOk_of_static hash (fun e he' => static_of_local hown (wbBody_local w e he')) fs, ?_, trivial⟩
    intro f hf' h hh
    rw [get_tmp_after_body fs w] at hf'
    cases hf'
    simp only [blockPath, owner_block hw.1, Option.some.injEq] at hh
    subst hh
    exact hw.2 hr

theorem attempts_evsOk (ws : List WBIn) (hws : ∀ w ∈ ws, WBOk hash w) :
    ∀ fs, EvsOk hash fs (attemptsEvs ws).1 := by
  induction ws with
  | nil => intro fs; trivial
  | cons w rest ih =>
    intro fs
    simp only [attemptsEvs]
    split
    · exact wb_evsOk hash fs w (hws w List.mem_cons_self)
    · rw [evsOk_append]
      exact ⟨wb_evsOk hash fs w (hws w List.mem_cons_self), ih (fun w' hw' => hws w' (List.mem_cons_of_mem _ hw')) _⟩

/-! ### the other operations -/

theorem touch_static (fs : FS) (h : Name) (now : Nat) (fail : Option Nat) :
    ∀ e ∈ (touchEvs fs h now fail).1, StaticOk e.eff := by
  intro e he
  unfold touchEvs at he
  split at he
  · simp at he; subst he; trivial
  · split at he <;> simp at he <;> rcases he with rfl | rfl | rfl | rfl <;> trivial

theorem run_static_nops {fs : FS} {evs : List Ev} (h : ∀ e ∈ evs, e.eff = .nop) : run fs evs = fs := by
  induction evs generalizing fs with
  | nil => rfl
  | cons e es ih =>
    rw [run_cons, h e List.mem_cons_self]
    exact ih (fun e' he' => h e' (List.mem_cons_of_mem _ he'))

theorem trash_evsOk {fs : FS} (hi : Intact hash fs) (cfg : Cfg) {h : Name} (hb : isBlockName h = true) :
    EvsOk hash fs (trashEvs fs cfg h).1 := by
  unfold trashEvs
  split
  · exact ⟨trivial, trivial⟩
  · rename_i f hf
    simp only
    split
    · exact ⟨trivial, trivial, trivial, trivial, trivial⟩
    · split
      · exact ⟨trivial, trivial, trivial, trivial, trivial, trivial⟩
      · refine ⟨trivial, trivial, trivial, trivial, ?_, trivial⟩
        intro f' hf' h' hh
        simp only [Step.apply] at hf'
        rw [hf] at hf'
        cases hf'
        simp only [trashPath, owner_trashName hb, Option.some.injEq] at hh
        subst hh
        exact hi _ (get_some_mem hf) h (owner_block hb)

theorem untrash_evsOk {fs : FS} (hi : Intact hash fs) {h : Name} (hb : isBlockName h = true) (now : Nat) :
    EvsOk hash fs (untrashEvs fs h now).1 := by
  unfold untrashEvs
  split
  · exact ⟨trivial, trivial⟩
  · rename_i n hn
    refine ⟨trivial, ?_, trivial, trivial⟩
    intro f hf h' hh
    simp only [Step.apply] at hf
    have hpre := List.find?_some hn
    simp only [List.isPrefixOf_iff_prefix] at hpre
    obtain ⟨rest, hrest⟩ := hpre
    simp only [blockPath, owner_block hb, Option.some.injEq] at hh
    subst hh
    have := hi _ (get_some_mem hf) h (by simp only; rw [← hrest]; exact owner_trashPrefixed hb rest)
    exact this

theorem emptyTrash_static (fs : FS) (now : Nat) : ∀ e ∈ emptyTrashEvs fs now, StaticOk e.eff := by
  intro e he
  obtain ⟨p, _, rfl⟩ := List.mem_map.1 he
  trivial

theorem env_stepOk {fs : FS} (hi : Intact hash fs) {s : Step} (hs : envOk s) : StepOk hash fs s := by
  cases s with
  | rename a b =>
    intro f hf h hh
    rcases hs with hs | hs
    · rw [hs] at hh; cases hh
    · rw [hs] at hh; exact hi _ (get_some_mem hf) h hh
  | _ => first | trivial | exact hs

theorem compare_nops (fs : FS) (h : Name) : ∀ e ∈ compareEvs fs h, e.eff = .nop := by
  intro e he
  unfold compareEvs at he
  split at he <;> simp at he
  · subst he; rfl
  · rcases he with rfl | rfl | rfl <;> rfl

theorem compare_static (fs : FS) (h : Name) : ∀ e ∈ compareEvs fs h, StaticOk e.eff := by
  intro e he
  rw [compare_nops fs h e he]
  trivial

theorem putCore_evsOk {fs : FS} (p : PutIn) (hb : isBlockName p.h = true) (hh : hash p.body = p.h)
    (hv : ∀ w ∈ p.attempts, w.h = p.h ∧ (w.rend = .eof → w.chunks.flatten = p.body)) :
    EvsOk hash fs (putCore hash fs p).1 := by
  have hws : ∀ w ∈ p.attempts, WBOk hash w := by
    intro w hw
    obtain ⟨h1, h2⟩ := hv w hw
    exact ⟨h1 ▸ hb, fun he => by rw [h2 he, hh, h1]⟩
  have hws' : ∀ w ∈ p.effAttempts, WBOk hash w := by
    intro w hw
    unfold PutIn.effAttempts at hw
    split at hw
    · simp at hw
    · exact hws w hw
  have hatt := attempts_evsOk hash p.effAttempts hws'
  unfold putCore
  simp only
  split
  · simp [hatt fs]
  · split
    · split
      · exact evsOk_of_static hash (touch_static fs p.h p.now p.touchFail) fs
      · rw [evsOk_append]
        exact ⟨evsOk_of_static hash (touch_static fs p.h p.now p.touchFail) fs, hatt _⟩
    · split
      · trivial
      · simp [hatt fs]

theorem put_evsOk {fs : FS} (p : PutIn) (hv : ∀ w ∈ p.attempts, w.h = p.h ∧ (w.rend = .eof → w.chunks.flatten = p.body)) :
    EvsOk hash fs (handlePut hash fs p).1 := by
  unfold handlePut
  split
  · trivial
  · rename_i hb
    split
    · trivial
    · rename_i hh
      have hb' : isBlockName p.h = true := by simpa using hb
      have hh' : hash p.body = p.h := by simpa using hh
      split
      · exact evsOk_of_static hash (compare_static fs p.h) fs
      · simp only
        rw [evsOk_append, run_static_nops (compare_nops fs p.h)]
        exact ⟨evsOk_of_static hash (compare_static fs p.h) fs, putCore_evsOk hash p hb' hh' hv⟩

theorem op_evsOk {fs : FS} (hi : Intact hash fs) (op : Op) (hv : op.valid hash) :
    EvsOk hash fs (op.evs hash fs) := by
  cases op with
  | put p => exact put_evsOk hash p hv
  | writeBlock w => exact wb_evsOk hash fs w hv
  | touch h now fail =>
    simp only [Op.evs]; split
    · exact evsOk_of_static hash (touch_static fs h now fail) fs
    · trivial
  | trash cfg h =>
    simp only [Op.evs]; split
    · rename_i hb; exact trash_evsOk hash hi cfg hb
    · trivial
  | untrash h now =>
    simp only [Op.evs]; split
    · rename_i hb; exact untrash_evsOk hash hi hb now
    · trivial
  | emptyTrash now => exact evsOk_of_static hash (emptyTrash_static fs now) fs
  | env s => exact ⟨env_stepOk hash hi hv, trivial⟩

theorem intact_reach {fs0 fs : FS} (hi : Intact hash fs0) (hr : Reach hash fs0 fs) : Intact hash fs := by
  induction hr with
  | init => exact hi
  | step op k _ hv ih => exact intact_prefix hash ih (op_evsOk hash ih op hv) k

theorem wf_reach {fs0 fs : FS} (hw : WF fs0) (hr : Reach hash fs0 fs) : WF fs := by
  induction hr with
  | init => exact hw
  | step op k _ _ ih => exact wf_run ih _

end ArvVerif.C02
