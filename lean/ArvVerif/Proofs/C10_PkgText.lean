/-
C10 — the Go manifest package on manifest *text* inside the grammar: `parseManifestStream` builds
exactly the structured stream the specification's parser builds, names are in the canonical form
`fixStreamName` leaves alone, hence (with `segmentStreams_spec`) `segment()` = `resolve`.
-/
import ArvVerif.Proofs.C10_Text
import ArvVerif.Proofs.C10_PkgSegment
namespace ArvVerif.C10

/-! ## names -/

theorem joinWith_cons_cons (sep : UInt8) (p q : Bytes) (rest : List Bytes) :
    joinWith sep (p :: q :: rest) = p ++ sep :: joinWith sep (q :: rest) := rfl

theorem joinWith_append (sep : UInt8) : ∀ (a b : List Bytes), a ≠ [] → b ≠ [] →
    joinWith sep (a ++ b) = joinWith sep a ++ sep :: joinWith sep b
  | [], _, h, _ => absurd rfl h
  | [p], b, _, hb => by
    cases b with
    | nil => exact absurd rfl hb
    | cons q rest => simp [joinWith]
  | p :: q :: rest, b, _, hb => by
    have := joinWith_append sep (q :: rest) b (by simp) hb
    simp only [List.cons_append] at this ⊢
    rw [joinWith_cons_cons, this, joinWith_cons_cons]
    simp

theorem getLast?_append_ne (a b : Bytes) (hb : b ≠ []) : (a ++ b).getLast? = b.getLast? := by
  rw [List.getLast?_append]
  cases h : b.getLast? with
  | none => exact absurd (List.getLast?_eq_none_iff.mp h) hb
  | some x => rfl

theorem joinWith_getLast (sep : UInt8) : ∀ (ps : List Bytes) (q : Bytes), ps.getLast? = some q → q ≠ [] →
    (joinWith sep ps).getLast? = q.getLast?
  | [], q, h, _ => by simp at h
  | [p], q, h, _ => by simp at h; subst h; rfl
  | p :: p' :: rest, q, h, hq => by
    have h' : (p' :: rest).getLast? = some q := by rw [List.getLast?_cons_cons] at h; exact h
    have ih := joinWith_getLast sep (p' :: rest) q h' hq
    have hne : joinWith sep (p' :: rest) ≠ [] := by
      intro he; rw [he] at ih
      exact hq (List.getLast?_eq_none_iff.mp ih.symm)
    rw [joinWith_cons_cons, getLast?_append_ne p _ (by simp)]
    cases hj : joinWith sep (p' :: rest) with
    | nil => exact absurd hj hne
    | cons y ys => rw [List.getLast?_cons_cons, ← hj]; exact ih

theorem componentsOk_mem {cs : List Bytes} (h : componentsOk cs = true) {c : Bytes} (hc : c ∈ cs) :
    c ≠ [] ∧ c ≠ [bDot] ∧ c ≠ [bDot, bDot] := by
  unfold componentsOk at h
  have := List.all_eq_true.mp h c hc
  simpa using this

theorem cleanComps_ok (r : Bool) : ∀ (cs st : List Bytes), componentsOk cs = true →
    cleanComps r cs st = st.reverse ++ cs
  | [], st, _ => by simp [cleanComps]
  | c :: cs, st, h => by
    have hc := componentsOk_mem h (List.mem_cons_self)
    have hrest : componentsOk cs = true := by
      unfold componentsOk at h ⊢
      simp only [List.all_cons, Bool.and_eq_true] at h
      exact h.2
    unfold cleanComps
    rw [if_neg (by intro h'; rcases h' with h' | h'; exact hc.1 h'; exact hc.2.1 h'), if_neg hc.2.2,
      cleanComps_ok r cs (c :: st) hrest]
    simp

/-- a stream name inside the grammar, written out -/
theorem streamName_shape (n : Bytes) (h : specStreamNameOk n = true) :
    ∃ cs, componentsOk cs = true ∧ n = joinWith bSlash ([bDot] :: cs) ∧ (∀ c ∈ cs, bSlash ∉ c) := by
  unfold specStreamNameOk at h
  cases hs : splitOn bSlash n with
  | nil => exact absurd hs (splitOn_ne_nil _ _)
  | cons first rest =>
    rw [hs] at h
    simp only [Bool.and_eq_true, beq_iff_eq] at h
    refine ⟨rest, h.2, ?_, ?_⟩
    · rw [← h.1, ← hs, joinWith_splitOn]
    · intro c hc
      exact splitOn_no_sep bSlash n c (by rw [hs]; exact List.mem_cons_of_mem _ hc)

theorem fileName_shape (n : Bytes) (h : specFileNameOk n = true) :
    ∃ cs, cs ≠ [] ∧ componentsOk cs = true ∧ n = joinWith bSlash cs ∧ (∀ c ∈ cs, bSlash ∉ c) :=
  ⟨splitOn bSlash n, splitOn_ne_nil _ _, h, (joinWith_splitOn _ _).symm, splitOn_no_sep _ _⟩

theorem streamName_prefix (n : Bytes) (h : specStreamNameOk n = true) :
    n = [bDot] ∨ [bDot, bSlash].isPrefixOf n = true := by
  obtain ⟨cs, _, hn, _⟩ := streamName_shape n h
  cases cs with
  | nil => left; rw [hn]; rfl
  | cons c rest => right; rw [hn, joinWith_cons_cons]; simp [List.isPrefixOf]

theorem streamName_noTrailingSlash (n : Bytes) (h : specStreamNameOk n = true) :
    n.getLast? ≠ some bSlash := by
  obtain ⟨cs, hok, hn, hns⟩ := streamName_shape n h
  cases hl : cs.getLast? with
  | none =>
    have : cs = [] := List.getLast?_eq_none_iff.mp hl
    subst this; rw [hn]; decide
  | some q =>
    have hq : q ∈ cs := List.mem_of_getLast? hl
    have hqne := (componentsOk_mem hok hq).1
    have hl' : ([bDot] :: cs).getLast? = some q := by
      cases cs with
      | nil => simp at hl
      | cons c rest => rw [List.getLast?_cons_cons]; exact hl
    rw [hn, joinWith_getLast bSlash _ q hl' hqne]
    intro he
    have : bSlash ∈ q := List.mem_of_getLast? he
    exact hns q hq this

/-- **names inside the grammar are in `fixStreamName`'s canonical form** -/
theorem fixStreamName_clean (sn fn : Bytes) (h1 : specStreamNameOk sn = true) (h2 : specFileNameOk fn = true) :
    fixStreamName (pathOf sn fn) = pathOf sn fn := by
  obtain ⟨cs1, ok1, hn1, ns1⟩ := streamName_shape sn h1
  obtain ⟨cs2, ne2, ok2, hn2, ns2⟩ := fileName_shape fn h2
  have hcs : componentsOk (cs1 ++ cs2) = true := by
    unfold componentsOk at *
    rw [List.all_append, ok1, ok2]; rfl
  have hns : ∀ c ∈ cs1 ++ cs2, bSlash ∉ c := by
    intro c hc
    rcases List.mem_append.mp hc with h | h
    · exact ns1 c h
    · exact ns2 c h
  have hne : cs1 ++ cs2 ≠ [] := by simp [ne2]
  have hp : pathOf sn fn = joinWith bSlash ([bDot] :: (cs1 ++ cs2)) := by
    unfold pathOf
    rw [hn1, hn2, ← List.cons_append, joinWith_append bSlash ([bDot] :: cs1) cs2 (by simp) ne2]
  have hsplit : splitOn bSlash (pathOf sn fn) = [bDot] :: (cs1 ++ cs2) := by
    rw [hp, splitOn_joinWith bSlash _ (by simp)]
    intro c hc
    rcases List.mem_cons.mp hc with rfl | hc
    · decide
    · exact hns c hc
  obtain ⟨c0, rest0, hc0⟩ : ∃ c0 rest0, cs1 ++ cs2 = c0 :: rest0 := by
    cases hh : cs1 ++ cs2 with
    | nil => exact absurd hh hne
    | cons a b => exact ⟨a, b, rfl⟩
  have hc0ok := componentsOk_mem hcs (by rw [hc0]; exact List.mem_cons_self)
  have hc0ns : bSlash ∉ c0 := hns c0 (by rw [hc0]; exact List.mem_cons_self)
  have hpeq : pathOf sn fn = bDot :: bSlash :: joinWith bSlash (cs1 ++ cs2) := by
    rw [hp, hc0, joinWith_cons_cons]; rfl
  -- path.Clean
  have hclean : pathClean (pathOf sn fn) = joinWith bSlash (cs1 ++ cs2) := by
    unfold pathClean
    rw [if_neg (by rw [hpeq]; simp)]
    have hhead : (pathOf sn fn).head? = some bDot := by rw [hpeq]; rfl
    have hroot : ((pathOf sn fn).head? = some bSlash) = False := by
      rw [hhead]; simp; decide
    simp only [hroot, decide_false, hsplit]
    have hcc : cleanComps false ([bDot] :: (cs1 ++ cs2)) [] = cs1 ++ cs2 := by
      unfold cleanComps
      rw [if_pos (Or.inr rfl), cleanComps_ok false _ [] hcs]; rfl
    rw [hcc]
    simp [hne]
  unfold fixStreamName
  rw [hclean]
  simp only []
  have hj : ∃ x xs, joinWith bSlash (cs1 ++ cs2) = x :: xs ∧ x ≠ bSlash := by
    rw [hc0]
    cases c0 with
    | nil => exact absurd rfl hc0ok.1
    | cons x xs =>
      refine ⟨x, ?_⟩
      cases rest0 with
      | nil => exact ⟨xs, rfl, fun he => hc0ns (by simp [he])⟩
      | cons r rs => exact ⟨xs ++ bSlash :: joinWith bSlash (r :: rs), rfl, fun he => hc0ns (by simp [he])⟩
  obtain ⟨x, xs, hx, hxne⟩ := hj
  have hnotdot : joinWith bSlash (cs1 ++ cs2) ≠ [bDot] := by
    rw [hc0]
    cases rest0 with
    | nil => simpa [joinWith] using hc0ok.2.1
    | cons r rs =>
      rw [joinWith_cons_cons]
      intro he
      have : (c0 ++ bSlash :: joinWith bSlash (r :: rs)).length = 1 := by rw [he]; rfl
      cases c0 with
      | nil => exact hc0ok.1 rfl
      | cons y ys => simp at this
  rw [if_neg (by rw [hx]; simpa using hxne), if_pos hnotdot, hpeq]

/-! ## tokens -/

theorem takeWhile_locators : ∀ (blocks : List Loc) (ftoks : List Bytes),
    (∀ b ∈ blocks, isGoLocator b.text = true) → (∀ t rest, ftoks = t :: rest → isGoLocator t = false) →
    (blocks.map (·.text) ++ ftoks).takeWhile isGoLocator = blocks.map (·.text) ∧
    (blocks.map (·.text) ++ ftoks).dropWhile isGoLocator = ftoks
  | [], ftoks, _, h2 => by
    cases ftoks with
    | nil => simp
    | cons t rest => simp [h2 t rest rfl]
  | b :: bs, ftoks, h1, h2 => by
    have hb := h1 b (by simp)
    obtain ⟨i1, i2⟩ := takeWhile_locators bs ftoks (fun x hx => h1 x (List.mem_cons_of_mem _ hx)) h2
    simp only [List.map_cons, List.cons_append, List.takeWhile, List.dropWhile, hb]
    exact ⟨by rw [i1], i2⟩

theorem pkgBlocks_spec : ∀ (blocks : List Loc), (∀ b ∈ blocks, specLocator b.text = some b) →
    (∀ b ∈ blocks, b.size < two63) → pkgBlocks (blocks.map (·.text)) = some blocks
  | [], _, _ => rfl
  | b :: bs, h1, h2 => by
    obtain ⟨ds, hd, hb⟩ := specLocator_go b.text b (h1 b (by simp))
    have hsz : natOfDigits ds = b.size := by rw [hb]
    simp only [List.map_cons, pkgBlocks, hd]
    rw [if_pos (by rw [hsz]; exact h2 b (by simp)),
      pkgBlocks_spec bs (fun x hx => h1 x (List.mem_cons_of_mem _ hx))
        (fun x hx => h2 x (List.mem_cons_of_mem _ hx))]
    simp only [Option.map_some, Option.some.injEq, List.cons.injEq, and_true]
    rw [hsz]

theorem pkgFileTok_spec (t : Bytes) (f : FTok) (h : specFileTok t = some f)
    (hp : f.pos < two64) (hl : f.len < two64) : pkgFileTok t = some f := by
  obtain ⟨p, l, nm, ht, hp1, hp2, hl1, hl2, _, hu, _, epos, elen⟩ := specFileTok_shape t f h
  unfold pkgFileTok
  rw [ht, splitN3_three bColon p l nm (not_mem_of_all hp2 colon_not_digit) (not_mem_of_all hl2 colon_not_digit)]
  simp only []
  rw [parseUint64_digits p hp1 hp2 (by rw [← epos]; exact hp),
    parseUint64_digits l hl1 hl2 (by rw [← elen]; exact hl)]
  simp only []
  have : pkgUnescape nm = f.name :=
    goUnescape_of_spec isDigit isOctDigit_isDigit nm.length nm f.name (Nat.le_refl _) hu
  rw [this, ← epos, ← elen]

theorem pkgFileToks_spec (sname : Bytes) (hname : specStreamNameOk sname = true) (total : Nat)
    (htot : total < two64) : ∀ (ftoks : List Bytes) (files : List FTok),
    mapOpt specFileTok ftoks = some files → (∀ f ∈ files, f.pos + f.len ≤ total) →
    pkgFileToks sname total ftoks = (files, false)
  | [], files, h, _ => by simp [mapOpt] at h; subst h; rfl
  | t :: rest, files, h, hin => by
    obtain ⟨f, fs, h1, h2, rfl⟩ := mapOpt_cons_some specFileTok t rest files h
    have hf := hin f (by simp)
    obtain ⟨_, _, _, _, _, _, _, _, _, _, hfn, _⟩ := specFileTok_shape t f h1
    have hclean := fixStreamName_clean sname f.name hname hfn
    unfold pkgFileToks
    rw [pkgFileTok_spec t f h1 (by omega) (by omega)]
    simp only []
    rw [if_neg (by omega), if_neg (by intro ⟨_, hne⟩; exact hne hclean),
      pkgFileToks_spec sname hname total htot rest fs h2 (fun x hx => hin x (List.mem_cons_of_mem _ hx))]

/-- integer-size side conditions: what `ParseInt(…, 10, 0)` / uint64 arithmetic can represent -/
def FitsGo (s : Stream) : Prop := (∀ b ∈ s.blocks, b.size < two63) ∧ streamLen s.blocks < two64

/-- **one line**: inside the grammar, `parseManifestStream` = the specification's parse, and the
stream satisfies the side conditions of `segmentStreams_spec` -/
theorem pkgParseStream_spec (line : Bytes) (s : Stream) (h : specLine line = some s) (hfit : FitsGo s) :
    pkgParseStream line = toPStream s ∧ PkgWf s ∧ line ≠ [] := by
  unfold specLine at h
  simp only [] at h
  by_cases htok : (splitOn bSpace line).all tokenBytesOk = true
  · rw [if_pos htok] at h
    cases hs : splitOn bSpace line with
    | nil => exact absurd hs (splitOn_ne_nil _ _)
    | cons nm rest =>
      rw [hs] at h htok
      simp only [] at h
      cases hu : specUnescape nm with
      | none => rw [hu] at h; cases h
      | some name =>
        rw [hu] at h
        simp only [] at h
        by_cases hname : specStreamNameOk name = true
        · rw [if_pos hname] at h
          cases hloc : specLocators rest with
          | mk blocks ftoks =>
            rw [hloc] at h
            simp only [] at h
            cases hfiles : mapOpt specFileTok ftoks with
            | none => rw [hfiles] at h; cases h
            | some files =>
              rw [hfiles] at h
              simp only [] at h
              by_cases hok : blocks ≠ [] ∧ files ≠ [] ∧
                  (files.all fun f => decide (f.pos + f.len ≤ streamLen blocks)) = true
              · rw [if_pos hok] at h
                cases h
                obtain ⟨hb1, hb2⟩ := hfit
                simp only [] at hb1 hb2
                obtain ⟨hr1, hr2, hr3⟩ := specLocators_spec rest blocks ftoks hloc
                have hinside : ∀ f ∈ files, f.pos + f.len ≤ streamLen blocks := by
                  intro f hf
                  have := List.all_eq_true.mp hok.2.2 f hf
                  simpa using this
                have hftne : ftoks ≠ [] := by
                  intro he; subst he; simp [mapOpt] at hfiles; exact hok.2.1 hfiles
                have hgo : ∀ b ∈ blocks, isGoLocator b.text = true := by
                  intro b hb
                  obtain ⟨ds, hd, _⟩ := specLocator_go b.text b (hr2 b hb)
                  unfold isGoLocator; rw [hd]; rfl
                have hnot : ∀ t r, ftoks = t :: r → isGoLocator t = false := by
                  intro t r he
                  subst he
                  obtain ⟨f, fs, hf, _, _⟩ := mapOpt_cons_some specFileTok t r files hfiles
                  exact fileTok_not_goLocator t f hf
                obtain ⟨tw, dw⟩ := takeWhile_locators blocks ftoks hgo hnot
                have hnmne : nm ≠ [] := by
                  have := List.all_eq_true.mp htok nm (by simp)
                  unfold tokenBytesOk at this
                  simp only [Bool.and_eq_true, ne_eq, decide_eq_true_eq] at this
                  intro he; subst he; simp at this
                have hline : line ≠ [] := by
                  intro he; subst he
                  simp [splitOn] at hs
                  exact hnmne hs.1
                have hpname : pkgUnescape nm = name :=
                  goUnescape_of_spec isDigit isOctDigit_isDigit nm.length nm name (Nat.le_refl _) hu
                refine ⟨?_, ?_, hline⟩
                · unfold pkgParseStream
                  rw [hs]
                  simp only [hpname]
                  have hpre : ¬ (name ≠ [bDot] ∧ ¬ ([bDot, bSlash].isPrefixOf name = true)) := by
                    rcases streamName_prefix name hname with h1 | h1
                    · intro ⟨a, _⟩; exact a h1
                    · intro ⟨_, b⟩; exact b h1
                  rw [if_neg hpre, hr1, tw, dw]
                  have hbne : blocks.map (·.text) ≠ [] := by simpa using hok.1
                  rw [if_neg hbne, pkgBlocks_spec blocks hr2 hb1]
                  simp only []
                  rw [if_neg (by omega), if_neg hftne, offsetsFrom_eq_plain blocks 0 (by omega), plainOffsets_last,
                    pkgFileToks_spec name hname (0 + streamLen blocks) (by omega) ftoks files hfiles
                      (by intro f hf; have := hinside f hf; omega)]
                  simp [toPStream, offsetsFrom_eq_plain blocks 0 (by omega)]
                · have hfn : ∀ f ∈ files, specFileNameOk f.name = true := by
                    have key : ∀ (ts : List Bytes) (fs : List FTok), mapOpt specFileTok ts = some fs →
                        ∀ f ∈ fs, specFileNameOk f.name = true := by
                      intro ts
                      induction ts with
                      | nil => intro fs h f hf; simp [mapOpt] at h; subst h; simp at hf
                      | cons t r ih =>
                        intro fs h f hf
                        obtain ⟨g, gs, hg, hgs, rfl⟩ := mapOpt_cons_some specFileTok t r fs h
                        rcases List.mem_cons.mp hf with rfl | hf
                        · obtain ⟨_, _, _, _, _, _, _, _, _, _, hokn, _⟩ := specFileTok_shape t f hg
                          exact hokn
                        · exact ih gs hgs f hf
                    exact key ftoks files hfiles
                  exact ⟨hb1, hb2, hinside, streamName_noTrailingSlash name hname,
                    fun f hf => fixStreamName_clean name f.name hname (hfn f hf)⟩
              · rw [if_neg hok] at h; cases h
        · rw [if_neg hname] at h; cases h
  · rw [if_neg htok] at h; cases h

theorem mapOpt_specLine : ∀ (lines : List Bytes) (M : Manifest), mapOpt specLine lines = some M →
    (∀ s ∈ M, FitsGo s) →
    lines.map pkgParseStream = M.map toPStream ∧ (∀ s ∈ M, PkgWf s) ∧ (∀ l ∈ lines, l ≠ [])
  | [], M, h, _ => by simp [mapOpt] at h; subst h; simp
  | l :: ls, M, h, hfit => by
    obtain ⟨s, ss, h1, h2, rfl⟩ := mapOpt_cons_some specLine l ls M h
    obtain ⟨a, b, c⟩ := pkgParseStream_spec l s h1 (hfit s (by simp))
    obtain ⟨a', b', c'⟩ := mapOpt_specLine ls ss h2 (fun x hx => hfit x (List.mem_cons_of_mem _ hx))
    refine ⟨by simp [a, a'], ?_, ?_⟩
    · intro x hx
      rcases List.mem_cons.mp hx with rfl | hx
      · exact b
      · exact b' x hx
    · intro x hx
      rcases List.mem_cons.mp hx with rfl | hx
      · exact c
      · exact c' x hx

/-- **whole text**: inside the grammar, `StreamIter` yields the specification's streams -/
theorem pkgStreams_spec (txt : Bytes) (M : Manifest) (h : parseSpec txt = some M) (hfit : ∀ s ∈ M, FitsGo s) :
    pkgStreams txt = M.map toPStream ∧ (∀ s ∈ M, PkgWf s) := by
  unfold parseSpec at h
  by_cases h0 : txt = []
  · rw [if_pos h0] at h; cases h; subst h0
    simp [pkgStreams, splitOn]
  · rw [if_neg h0] at h
    simp only [] at h
    by_cases hl : (splitOn bNL txt).getLast? = some []
    · rw [if_pos hl] at h
      obtain ⟨a, b, c⟩ := mapOpt_specLine _ M h hfit
      refine ⟨?_, b⟩
      unfold pkgStreams
      have hsplit : splitOn bNL txt = (splitOn bNL txt).dropLast ++ [[]] := by
        obtain ⟨ys, hys⟩ := List.getLast?_eq_some_iff.mp hl
        rw [hys, List.dropLast_concat]
      rw [hsplit, List.filter_append]
      have hf1 : ((splitOn bNL txt).dropLast).filter (fun x => decide (x ≠ [])) = (splitOn bNL txt).dropLast := by
        rw [List.filter_eq_self]
        intro x hx; simpa using c x hx
      rw [hf1]
      simp [a]
    · rw [if_neg hl] at h; cases h

end ArvVerif.C10
