/-
C13 helper lemmas, part 9: copy-on-write. In the heap model of memSegment (Model/C13_Cow.lean) a
buffer that was handed to a background writer is never written again: every in-place write needs
`flushing == nil`, a hand-off sets `flushing`, and `flushing` only goes back to nil together with a
fresh allocation.
-/
import ArvVerif.Model.C13_Cow
namespace ArvVerif.C13.Cow

/-- Invariant: segments do not alias; allocations exist; a segment over a shared allocation has
`flushing ≠ nil`; every shared buffer still holds the bytes it had when it was handed off. -/
structure Inv (st : State) : Prop where
  noalias : ∀ (i j : Nat) (a b : MSeg), st.segs[i]? = some a → st.segs[j]? = some b → a.ptr = b.ptr → i = j
  segptr : ∀ sg ∈ st.segs, sg.ptr < st.heap.length
  shptr : ∀ sh ∈ st.shared, sh.ptr < st.heap.length
  guard : ∀ sh ∈ st.shared, ∀ sg ∈ st.segs, sg.ptr = sh.ptr → sg.flushing ≠ none
  intact : ∀ sh ∈ st.shared, ((st.heap[sh.ptr]?).getD []).take sh.len = sh.snap

theorem getD_append_left {heap : List Bytes} {p : Nat} (more : List Bytes) (h : p < heap.length) :
    ((heap ++ more)[p]?).getD [] = (heap[p]?).getD [] := by
  rw [List.getElem?_append_left h]

theorem getD_set_ne {heap : List Bytes} {p q : Nat} (x : Bytes) (h : q ≠ p) :
    ((heap.set q x)[p]?).getD [] = (heap[p]?).getD [] := by
  rw [List.getElem?_set_ne h]

theorem zeroRange_noop (buf : Bytes) {a b : Nat} (h : b ≤ a) : zeroRange buf a b = buf := by
  unfold zeroRange
  rw [if_neg (by omega)]

/-- a segment replaced by one over a brand-new allocation -/
theorem Inv.fresh {st : State} (hinv : Inv st) {i : Nat} {sg : MSeg} (hi : st.segs[i]? = some sg)
    (newbuf : Bytes) (len cap : Nat) :
    Inv { st with heap := st.heap ++ [newbuf],
                  segs := st.segs.set i { ptr := st.heap.length, len := len, cap := cap, flushing := none } } := by
  have hlt : i < st.segs.length := by
    apply Classical.byContradiction; intro hn
    rw [List.getElem?_eq_none (by omega)] at hi; cases hi
  refine ⟨?_, ?_, ?_, ?_, ?_⟩
  · intro a b x y ha hb hp
    simp only [] at ha hb
    by_cases hai : a = i
    · by_cases hbi : b = i
      · omega
      · subst hai
        rw [List.getElem?_set_self hlt] at ha; cases ha
        rw [List.getElem?_set_ne (by omega)] at hb
        have := hinv.segptr y (List.mem_of_getElem? hb)
        simp only [] at hp; omega
    · by_cases hbi : b = i
      · subst hbi
        rw [List.getElem?_set_self hlt] at hb; cases hb
        rw [List.getElem?_set_ne (by omega)] at ha
        have := hinv.segptr x (List.mem_of_getElem? ha)
        simp only [] at hp; omega
      · rw [List.getElem?_set_ne (by omega)] at ha hb
        exact hinv.noalias a b x y ha hb hp
  · intro x hx
    simp only [List.length_append, List.length_singleton]
    rcases List.mem_or_eq_of_mem_set hx with h | h
    · have := hinv.segptr x h; omega
    · rw [h]; simp only []; omega
  · intro sh hsh
    simp only [List.length_append, List.length_singleton]
    have := hinv.shptr sh hsh; omega
  · intro sh hsh x hx hp
    rcases List.mem_or_eq_of_mem_set hx with h | h
    · exact hinv.guard sh hsh x h hp
    · rw [h] at hp
      have := hinv.shptr sh hsh
      simp only [] at hp; omega
  · intro sh hsh
    simp only []
    rw [getD_append_left _ (hinv.shptr sh hsh)]
    exact hinv.intact sh hsh

/-- One step of the foreground code / a hand-off keeps the invariant and keeps every earlier
hand-off on record. -/
theorem step_inv {st st' : State} (hinv : Inv st) (op : Op) (h : step st op = some st') :
    Inv st' ∧ ∀ sh ∈ st.shared, sh ∈ st'.shared := by
  cases op with
  | truncate i n =>
    simp only [step] at h
    cases hi : st.segs[i]? with
    | none => rw [hi] at h; cases h
    | some sg =>
      rw [hi] at h
      simp only [] at h
      have hlt : i < st.segs.length := by
        apply Classical.byContradiction; intro hn
        rw [List.getElem?_eq_none (by omega)] at hi; cases hi
      split at h
      · cases h
        exact ⟨hinv.fresh hi _ _ _, fun sh hsh => hsh⟩
      · next hc =>
        cases h
        refine ⟨⟨?_, ?_, ?_, ?_, ?_⟩, fun sh hsh => hsh⟩
        · intro a b x y ha hb hp
          simp only [] at ha hb
          have hx : ∃ x0, st.segs[a]? = some x0 ∧ x0.ptr = x.ptr := by
            by_cases hai : a = i
            · subst hai; rw [List.getElem?_set_self hlt] at ha; cases ha; exact ⟨sg, hi, rfl⟩
            · rw [List.getElem?_set_ne (by omega)] at ha; exact ⟨x, ha, rfl⟩
          have hy : ∃ y0, st.segs[b]? = some y0 ∧ y0.ptr = y.ptr := by
            by_cases hbi : b = i
            · subst hbi; rw [List.getElem?_set_self hlt] at hb; cases hb; exact ⟨sg, hi, rfl⟩
            · rw [List.getElem?_set_ne (by omega)] at hb; exact ⟨y, hb, rfl⟩
          obtain ⟨x0, hx0, hx1⟩ := hx
          obtain ⟨y0, hy0, hy1⟩ := hy
          exact hinv.noalias a b x0 y0 hx0 hy0 (by rw [hx1, hy1]; exact hp)
        · intro x hx
          simp only [List.length_set]
          rcases List.mem_or_eq_of_mem_set hx with h1 | h1
          · exact hinv.segptr x h1
          · rw [h1]; exact hinv.segptr sg (List.mem_of_getElem? hi)
        · intro sh hsh
          simp only [List.length_set]
          exact hinv.shptr sh hsh
        · intro sh hsh x hx hp
          rcases List.mem_or_eq_of_mem_set hx with h1 | h1
          · exact hinv.guard sh hsh x h1 hp
          · rw [h1] at hp ⊢
            exact hinv.guard sh hsh sg (List.mem_of_getElem? hi) hp
        · intro sh hsh
          simp only []
          by_cases hp : sg.ptr = sh.ptr
          · -- the allocation is shared: flushing ≠ nil, so the code did not grow in place
            have hfl := hinv.guard sh hsh sg (List.mem_of_getElem? hi) hp
            have hn : n ≤ sg.len := by
              apply Classical.byContradiction; intro hgt
              exact hc (Or.inr ⟨hfl, by omega⟩)
            rw [zeroRange_noop _ hn, ← hp]
            have hpl := hinv.segptr sg (List.mem_of_getElem? hi)
            rw [List.getElem?_set_self hpl]
            have := hinv.intact sh hsh
            rw [← hp] at this
            simp only [List.getElem?_eq_getElem hpl, Option.getD_some] at this ⊢
            exact this
          · rw [getD_set_ne _ hp]
            exact hinv.intact sh hsh
  | writeAt i p off =>
    simp only [step] at h
    cases hi : st.segs[i]? with
    | none => rw [hi] at h; cases h
    | some sg =>
      rw [hi] at h
      simp only [] at h
      split at h
      · cases h
      · split at h
        · cases h
          exact ⟨hinv.fresh hi _ _ _, fun sh hsh => hsh⟩
        · next hfl =>
          cases h
          have hnone : sg.flushing = none := by
            apply Classical.byContradiction; intro hne; exact hfl hne
          refine ⟨⟨hinv.noalias, ?_, ?_, hinv.guard, ?_⟩, fun sh hsh => hsh⟩
          · intro x hx; simp only [List.length_set]; exact hinv.segptr x hx
          · intro sh hsh; simp only [List.length_set]; exact hinv.shptr sh hsh
          · intro sh hsh
            simp only []
            have hp : sg.ptr ≠ sh.ptr := by
              intro hp
              exact hinv.guard sh hsh sg (List.mem_of_getElem? hi) hp hnone
            rw [getD_set_ne _ hp]
            exact hinv.intact sh hsh
  | slice i off len =>
    simp only [step] at h
    cases hi : st.segs[i]? with
    | none => rw [hi] at h; cases h
    | some sg =>
      rw [hi] at h
      simp only [] at h
      split at h
      · cases h
      · cases h
        refine ⟨⟨?_, ?_, ?_, ?_, ?_⟩, fun sh hsh => hsh⟩
        · intro a b x y ha hb hp
          simp only [] at ha hb
          by_cases hal : a < st.segs.length
          · rw [List.getElem?_append_left hal] at ha
            by_cases hbl : b < st.segs.length
            · rw [List.getElem?_append_left hbl] at hb
              exact hinv.noalias a b x y ha hb hp
            · rw [List.getElem?_append_right (by omega)] at hb
              have hb0 : b - st.segs.length = 0 := by
                apply Classical.byContradiction; intro hne
                rw [List.getElem?_eq_none (by simp; omega)] at hb; cases hb
              rw [hb0] at hb; simp only [List.getElem?_cons_zero, Option.some.injEq] at hb
              have := hinv.segptr x (List.mem_of_getElem? ha)
              rw [← hb] at hp; simp only [] at hp; omega
          · rw [List.getElem?_append_right (by omega)] at ha
            have ha0 : a - st.segs.length = 0 := by
              apply Classical.byContradiction; intro hne
              rw [List.getElem?_eq_none (by simp; omega)] at ha; cases ha
            rw [ha0] at ha; simp only [List.getElem?_cons_zero, Option.some.injEq] at ha
            by_cases hbl : b < st.segs.length
            · rw [List.getElem?_append_left hbl] at hb
              have := hinv.segptr y (List.mem_of_getElem? hb)
              rw [← ha] at hp; simp only [] at hp; omega
            · have hb1 : st.segs.length ≤ b := by omega
              rw [List.getElem?_append_right hb1] at hb
              have hb0 : b - st.segs.length = 0 := by
                apply Classical.byContradiction; intro hne
                rw [List.getElem?_eq_none (by simp; omega)] at hb; cases hb
              omega
        · intro x hx
          simp only [List.length_append, List.length_singleton]
          rcases List.mem_append.mp hx with h1 | h1
          · have := hinv.segptr x h1; omega
          · rw [List.mem_singleton] at h1; rw [h1]; simp only []; omega
        · intro sh hsh
          simp only [List.length_append, List.length_singleton]
          have := hinv.shptr sh hsh; omega
        · intro sh hsh x hx hp
          rcases List.mem_append.mp hx with h1 | h1
          · exact hinv.guard sh hsh x h1 hp
          · rw [List.mem_singleton] at h1
            rw [h1] at hp
            have := hinv.shptr sh hsh
            simp only [] at hp; omega
        · intro sh hsh
          simp only []
          rw [getD_append_left _ (hinv.shptr sh hsh)]
          exact hinv.intact sh hsh
  | handOff i tok =>
    simp only [step] at h
    cases hi : st.segs[i]? with
    | none => rw [hi] at h; cases h
    | some sg =>
      rw [hi] at h
      cases h
      have hlt : i < st.segs.length := by
        apply Classical.byContradiction; intro hn
        rw [List.getElem?_eq_none (by omega)] at hi; cases hi
      refine ⟨⟨?_, ?_, ?_, ?_, ?_⟩, fun sh hsh => List.mem_cons_of_mem _ hsh⟩
      · intro a b x y ha hb hp
        simp only [] at ha hb
        have hx : ∃ x0, st.segs[a]? = some x0 ∧ x0.ptr = x.ptr := by
          by_cases hai : a = i
          · subst hai; rw [List.getElem?_set_self hlt] at ha; cases ha; exact ⟨sg, hi, rfl⟩
          · rw [List.getElem?_set_ne (by omega)] at ha; exact ⟨x, ha, rfl⟩
        have hy : ∃ y0, st.segs[b]? = some y0 ∧ y0.ptr = y.ptr := by
          by_cases hbi : b = i
          · subst hbi; rw [List.getElem?_set_self hlt] at hb; cases hb; exact ⟨sg, hi, rfl⟩
          · rw [List.getElem?_set_ne (by omega)] at hb; exact ⟨y, hb, rfl⟩
        obtain ⟨x0, hx0, hx1⟩ := hx
        obtain ⟨y0, hy0, hy1⟩ := hy
        exact hinv.noalias a b x0 y0 hx0 hy0 (by rw [hx1, hy1]; exact hp)
      · intro x hx
        rcases List.mem_or_eq_of_mem_set hx with h1 | h1
        · exact hinv.segptr x h1
        · rw [h1]; exact hinv.segptr sg (List.mem_of_getElem? hi)
      · intro sh hsh
        rcases List.mem_cons.mp hsh with h1 | h1
        · rw [h1]; exact hinv.segptr sg (List.mem_of_getElem? hi)
        · exact hinv.shptr sh h1
      · intro sh hsh x hx hp
        obtain ⟨j, hj⟩ := List.getElem?_of_mem hx
        by_cases hji : j = i
        · subst hji
          rw [List.getElem?_set_self hlt] at hj; cases hj
          simp
        · rw [List.getElem?_set_ne (by omega)] at hj
          rcases List.mem_cons.mp hsh with h1 | h1
          · -- the new hand-off: another segment over the same allocation would alias
            rw [h1] at hp
            exact absurd (hinv.noalias j i x sg hj hi hp) hji
          · exact hinv.guard sh h1 x (List.mem_of_getElem? hj) hp
      · intro sh hsh
        rcases List.mem_cons.mp hsh with h1 | h1
        · rw [h1]; rfl
        · exact hinv.intact sh h1
  | drop i =>
    simp only [step] at h
    split at h
    · cases h
      refine ⟨⟨?_, ?_, hinv.shptr, ?_, hinv.intact⟩, fun sh hsh => hsh⟩
      · intro a b x y ha hb hp
        simp only [List.getElem?_eraseIdx] at ha hb
        have key := hinv.noalias (if a < i then a else a + 1) (if b < i then b else b + 1) x y
          (by split <;> simp_all) (by split <;> simp_all) hp
        split at key <;> split at key <;> omega
      · intro x hx; exact hinv.segptr x (List.mem_of_mem_eraseIdx hx)
      · intro sh hsh x hx hp; exact hinv.guard sh hsh x (List.mem_of_mem_eraseIdx hx) hp
    · cases h

/-- Any sequence of Truncate / WriteAt / Slice / hand-off / drop operations, on any number of
segments: every buffer ever handed to a background writer still holds, at the end, exactly the
bytes it held at hand-off. -/
theorem run_inv : ∀ (ops : List Op) {st st' : State}, Inv st → run st ops = some st' →
    Inv st' ∧ ∀ sh ∈ st.shared, sh ∈ st'.shared := by
  intro ops
  induction ops with
  | nil => intro st st' hinv h; simp only [run] at h; cases h; exact ⟨hinv, fun _ h => h⟩
  | cons op rest ih =>
    intro st st' hinv h
    simp only [run] at h
    cases hs : step st op with
    | none => rw [hs] at h; cases h
    | some st1 =>
      rw [hs] at h
      obtain ⟨h1, h2⟩ := step_inv hinv op hs
      obtain ⟨h3, h4⟩ := ih h1 h
      exact ⟨h3, fun sh hsh => h4 sh (h2 sh hsh)⟩

end ArvVerif.C13.Cow
