/-
C11 proofs, part 3: loadKeepServers' writable map contains only roots of listed services that are
not read-only; the retry predicate in closed form.
-/
import ArvVerif.Model.C11
namespace ArvVerif.C11

theorem mem_mapSet {m : RootMap} {k v : List Char} {e : List Char × List Char}
    (h : e ∈ mapSet m k v) : e ∈ m ∨ e = (k, v) := by
  unfold mapSet at h
  rw [List.mem_append, List.mem_singleton] at h
  rcases h with h | h
  · exact Or.inl (List.mem_filter.mp h).1
  · exact Or.inr h

/-- an entry of a root map is backed by a service of `l` that is not read-only -/
def Backed (l : List Svc) (e : List Char × List Char) : Prop :=
  ∃ s ∈ l, s.uuid = e.1 ∧ s.url = e.2 ∧ s.ro = false

theorem loadStep_writable (pre : List Svc) (r : Roots) (s : Svc)
    (h : ∀ e ∈ r.writable, Backed pre e) : ∀ e ∈ (loadStep r s).writable, Backed (pre ++ [s]) e := by
  intro e he
  have lift : ∀ e, Backed pre e → Backed (pre ++ [s]) e := by
    rintro e ⟨t, ht, h1⟩
    exact ⟨t, List.mem_append_left _ ht, h1⟩
  unfold loadStep at he
  split at he
  · exact lift e (h e he)
  · simp only at he
    by_cases hro : s.ro = true
    · simp only [hro, Bool.not_true, Bool.false_eq_true, if_false] at he
      exact lift e (h e he)
    · have hro' : s.ro = false := by simpa using hro
      simp only [hro', Bool.not_false, if_true] at he
      rcases mem_mapSet he with he | he
      · exact lift e (h e he)
      · exact ⟨s, List.mem_append_right _ (List.mem_singleton.mpr rfl), by rw [he], by rw [he], hro'⟩

theorem foldl_writable (l pre : List Svc) (r : Roots) (h : ∀ e ∈ r.writable, Backed pre e) :
    ∀ e ∈ (l.foldl loadStep r).writable, Backed (pre ++ l) e := by
  induction l generalizing pre r with
  | nil => simpa using h
  | cons s t ih =>
    have := ih (pre ++ [s]) (loadStep r s) (loadStep_writable pre r s h)
    simpa [List.append_assoc] using this

theorem load_writable (nd0 : Bool) (l : List Svc) : ∀ e ∈ (load nd0 l).writable, Backed l e := by
  have := foldl_writable l [] { listed := [], locals := [], writable := [], gateways := [], rps := 1, nonDisk := nd0 }
    (by intro e he; cases he)
  simpa [load] using this

theorem loadStep_core (r r' : Roots) (s : Svc) (h : r.core = r'.core) :
    (loadStep r s).core = (loadStep r' s).core := by
  simp only [Roots.core, Prod.mk.injEq] at h
  obtain ⟨h1, h2, h3, h4, h5⟩ := h
  unfold loadStep
  rw [h1]
  split
  · simp [Roots.core, h1, h2, h3, h4, h5]
  · simp [Roots.core, h2, h3, h4, h5]

theorem foldl_core (l : List Svc) (r r' : Roots) (h : r.core = r'.core) :
    (l.foldl loadStep r).core = (l.foldl loadStep r').core := by
  induction l generalizing r r' with
  | nil => exact h
  | cons s t ih => exact ih _ _ (loadStep_core r r' s h)

/-- the maps and `replicasPerService` after a load do not depend on what the client held before -/
theorem load_core (a b : Bool) (l : List Svc) : (load a l).core = (load b l).core :=
  foldl_core l _ _ rfl

theorem reload_last (nd0 : Bool) (ls : List (List Svc)) (l : List Svc) :
    (reload nd0 (ls ++ [l])).core = (load false l).core := by
  induction ls generalizing nd0 with
  | nil => exact load_core _ _ l
  | cons a t ih =>
    cases t with
    | nil => simp only [List.cons_append, List.nil_append, reload]; exact load_core _ _ l
    | cons b u => simp only [List.cons_append, reload]; exact ih _

/-- the retry condition in closed form -/
theorem retryable_iff (code : Nat) :
    retryable code = true ↔ code = 0 ∨ code = 408 ∨ code = 429 ∨ (500 ≤ code ∧ code ≠ 503) := by
  simp only [retryable, Bool.or_eq_true, Bool.and_eq_true, beq_iff_eq, decide_eq_true_eq, bne_iff_ne,
    ne_eq]
  constructor
  · rintro (((h | h) | h) | h)
    · exact Or.inl h
    · exact Or.inr (Or.inl h)
    · exact Or.inr (Or.inr (Or.inl h))
    · exact Or.inr (Or.inr (Or.inr h))
  · rintro (h | h | h | h)
    · exact Or.inl (Or.inl (Or.inl h))
    · exact Or.inl (Or.inl (Or.inr h))
    · exact Or.inl (Or.inr h)
    · exact Or.inr h

end ArvVerif.C11
