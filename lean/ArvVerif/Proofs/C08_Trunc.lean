/-
C08 helper lemmas, part 3: `truncate` (filenode.truncate) against `specTruncate`.
-/
import ArvVerif.Proofs.C08_Read
namespace ArvVerif.C08

variable {max : Nat} {hash : Bytes → Loc} {st : Store}

theorem zeros_append (a b : Nat) : zeros a ++ zeros b = zeros (a + b) := by
  simp [zeros, List.replicate_append_replicate]

theorem memTruncate_wf_new {n : Nat} (h0 : 0 < n) (hn : n ≤ max) :
    SegWF max hash st (memTruncate [] Flush.none n) := by
  refine ⟨by simp [h0], by simp [hn], ?_⟩
  intro i l h
  simp at h

theorem memTruncate_bytes (buf : Bytes) (fl : Flush) (n : Nat) :
    (memTruncate buf fl n).bytes st = buf.take n ++ zeros (n - buf.length) := rfl

theorem memTruncate_len (buf : Bytes) (fl : Flush) (n : Nat) : (memTruncate buf fl n).len = n := by
  simp only [memTruncate, Seg.len_mem, List.length_append, List.length_take, zeros_length]; omega

/-- growing a well-formed mem segment (strictly) keeps it well-formed: the flush state is reset -/
theorem memTruncate_wf_grow {buf : Bytes} {fl : Flush} {n : Nat}
    (h : SegWF max hash st (Seg.mem buf fl)) (hgt : buf.length < n) (hn : n ≤ max) :
    SegWF max hash st (memTruncate buf fl n) := by
  have hlen := memTruncate_len buf fl n
  unfold memTruncate at *
  simp only [Seg.len_mem] at hlen
  refine ⟨by omega, by omega, ?_⟩
  intro i l hfl
  by_cases hc : fl ≠ Flush.none ∧ n > buf.length
  · rw [if_pos hc] at hfl; cases hfl
  · rw [if_neg hc] at hfl
    have : fl = Flush.none := by
      apply Classical.byContradiction; intro hne; exact hc ⟨hne, hgt⟩
    rw [this] at hfl; cases hfl

/-- shrinking a well-formed mem segment to `0 < n < length` keeps it well-formed (the flush state
stays, but its recorded length no longer matches) -/
theorem memTruncate_wf_shrink {buf : Bytes} {fl : Flush} {n : Nat}
    (h : SegWF max hash st (Seg.mem buf fl)) (h0 : 0 < n) (hlt : n < buf.length) :
    SegWF max hash st (memTruncate buf fl n) := by
  have hlen := memTruncate_len buf fl n
  obtain ⟨_, hmax, hp⟩ := h
  unfold memTruncate at *
  simp only [Seg.len_mem] at hlen
  refine ⟨by omega, by omega, ?_⟩
  intro i l hfl
  rw [if_neg (by omega)] at hfl
  have := (hp i l hfl).1
  exact ⟨by omega, fun heq => by omega⟩

theorem stored_slice_wf {loc : Loc} {size off l n : Nat}
    (h : SegWF max hash st (Seg.stored loc size off l)) (h0 : 0 < n) (hn : n ≤ l) :
    SegWF max hash st ((Seg.stored loc size off l).slice 0 (some n)) := by
  obtain ⟨_, hle, b, hb, hlen⟩ := h
  simp only [Seg.slice]
  refine ⟨?_, ?_, b, hb, hlen⟩ <;> split <;> omega

theorem stored_slice_bytes {loc : Loc} {size off l n : Nat}
    (h : SegWF max hash st (Seg.stored loc size off l)) (hn : n ≤ l) :
    ((Seg.stored loc size off l).slice 0 (some n)).bytes st = ((Seg.stored loc size off l).bytes st).take n := by
  obtain ⟨_, hle, b, hb, hlen⟩ := h
  simp only [Seg.slice]
  rw [Seg.bytes_stored hb, Seg.bytes_stored hb, List.take_take]
  congr 1
  split <;> omega

theorem stored_slice_len {loc : Loc} {size off l n : Nat} (hn : n ≤ l) :
    ((Seg.stored loc size off l).slice 0 (some n)).len = n := by
  simp only [Seg.slice, Seg.len_stored]; split <;> omega

/-- the growing loop -/
theorem growLoop_spec (hmax : 1 ≤ max) :
    ∀ (fuel : Nat) (segs : List Seg) (size target : Nat),
      (∀ s ∈ segs, SegWF max hash st s) → size = sumLen segs → size ≤ target → target - size ≤ fuel →
      ∃ segs', growLoop max fuel segs size target = some (segs', target) ∧
        (∀ s ∈ segs', SegWF max hash st s) ∧ target = sumLen segs' ∧
        absSegs st segs' = absSegs st segs ++ zeros (target - size) := by
  intro fuel
  induction fuel with
  | zero =>
    intro segs size target hwf hsz hle hfuel
    have : size = target := by omega
    subst this
    refine ⟨segs, ?_, hwf, hsz, by simp⟩
    unfold growLoop; simp
  | succ fuel ih =>
    intro segs size target hwf hsz hle hfuel
    by_cases hge : size ≥ target
    · have : size = target := by omega
      subst this
      refine ⟨segs, ?_, hwf, hsz, by simp⟩
      unfold growLoop; simp
    · unfold growLoop
      rw [if_neg hge]
      simp only []
      -- the step that appends a fresh segment
      have fresh : ∀ (grow : Nat), grow = (if max < target - size then max else target - size) →
          ∃ segs', growLoop max fuel (segs ++ [memTruncate [] Flush.none grow]) (size + grow) target
              = some (segs', target) ∧
            (∀ s ∈ segs', SegWF max hash st s) ∧ target = sumLen segs' ∧
            absSegs st segs' = absSegs st segs ++ zeros (target - size) := by
        intro grow hg
        have hg1 : 0 < grow := by rw [hg]; split <;> omega
        have hg2 : grow ≤ max := by rw [hg]; split <;> omega
        have hg3 : grow ≤ target - size := by rw [hg]; split <;> omega
        obtain ⟨segs', h1, h2, h3, h4⟩ := ih (segs ++ [memTruncate [] Flush.none grow]) (size + grow) target
          (by intro s hs
              rcases List.mem_append.mp hs with h | h
              · exact hwf s h
              · simp at h; rw [h]; exact memTruncate_wf_new hg1 hg2)
          (by simp [memTruncate_len, hsz]) (by omega) (by omega)
        refine ⟨segs', h1, h2, h3, ?_⟩
        rw [h4]
        simp only [absSegs_append, absSegs_cons, absSegs_nil, memTruncate_bytes, List.take_nil,
          List.length_nil, Nat.sub_zero, List.nil_append, List.append_nil, List.append_assoc]
        congr 1
        rw [zeros_append]
        congr 1; omega
      cases hlast : segs.getLast? with
      | none => exact fresh _ rfl
      | some last =>
        cases last with
        | stored loc sz off l => exact fresh _ rfl
        | mem buf fl =>
          simp only []
          by_cases hfull : buf.length ≥ max
          · rw [if_pos hfull]; exact fresh _ rfl
          · rw [if_neg hfull]
            obtain ⟨init, hinit⟩ := List.getLast?_eq_some_iff.mp hlast
            subst hinit
            rw [List.dropLast_concat]
            have hbwf : SegWF max hash st (Seg.mem buf fl) := hwf _ (by simp)
            obtain ⟨grow, hg⟩ : ∃ g, g = (if max - buf.length < target - size then max - buf.length else target - size) :=
              ⟨_, rfl⟩
            rw [← hg]
            have hg1 : 0 < grow := by rw [hg]; split <;> omega
            have hg2 : buf.length + grow ≤ max := by rw [hg]; split <;> omega
            have hg3 : grow ≤ target - size := by rw [hg]; split <;> omega
            obtain ⟨segs', h1, h2, h3, h4⟩ := ih (init ++ [memTruncate buf fl (buf.length + grow)]) (size + grow) target
              (by intro s hs
                  rcases List.mem_append.mp hs with h | h
                  · exact hwf s (List.mem_append_left _ h)
                  · simp at h; rw [h]; exact memTruncate_wf_grow hbwf (by omega) hg2)
              (by simp [memTruncate_len, hsz]; omega) (by omega) (by omega)
            refine ⟨segs', h1, h2, h3, ?_⟩
            rw [h4]
            simp only [absSegs_append, absSegs_cons, absSegs_nil, memTruncate_bytes, Seg.bytes_mem,
              List.append_nil, List.append_assoc]
            rw [List.take_of_length_le (by omega)]
            congr 2
            rw [zeros_append]
            congr 1; omega

/-- What `filenode.truncate` does. -/
structure TruncOK (max : Nat) (hash : Bytes → Loc) (st : Store) (fn : FileNode) (n : Nat) (fn' : FileNode) : Prop where
  wf : WF max hash st fn'
  abs_eq : abs st fn' = specTruncate (abs st fn) n
  size_eq : fn'.size = n
  same : n = fn.size → fn' = fn
  bump : n ≠ fn.size → fn'.repacked = fn.repacked + 1

theorem truncate_spec {fn : FileNode} (hmax : 1 ≤ max) (hwf : WF max hash st fn) (hrep : 0 ≤ fn.repacked)
    (n : Nat) : ∃ fn', truncate max fn n = some fn' ∧ TruncOK max hash st fn n fn' := by
  have habslen := hwf.abs_length
  unfold truncate
  by_cases heq : n = fn.size
  · rw [if_pos heq]
    refine ⟨fn, rfl, hwf, ?_, heq.symm, fun _ => rfl, fun h => absurd heq h⟩
    unfold specTruncate
    rw [List.take_of_length_le (by omega), heq, ← habslen]; simp
  · rw [if_neg heq]
    by_cases hlt : n < fn.size
    · rw [if_pos hlt]
      simp only []
      -- seek in the file with the bumped counter
      have hwf1 : WF max hash st { fn with repacked := fn.repacked + 1 } := ⟨hwf.size_eq, hwf.segs⟩
      have hp : PtrOK { fn with repacked := fn.repacked + 1 } ⟨n, 0, 0, 0⟩ :=
        ⟨by simp only []; omega, fun h => by simp only [] at h; omega⟩
      obtain ⟨q, hq, hoff, _, hcase⟩ := seek_spec hwf1 hp
      rw [hq]
      simp only [] at hcase
      rcases hcase with ⟨hge, _, _⟩ | ⟨_, s, hs, hso, hsum⟩
      · omega
      · simp only []
        have hswf := hwf.segs s (mem_of_getElem? hs)
        have htakewf : ∀ x ∈ fn.segs.take q.segIdx, SegWF max hash st x :=
          fun x hx => hwf.segs x (List.mem_of_mem_take hx)
        have hX : (absSegs st (fn.segs.take q.segIdx)).length + q.segOff = n := by
          rw [absSegs_length htakewf]; exact hsum
        have hspec : specTruncate (abs st fn) n =
            absSegs st (fn.segs.take q.segIdx) ++ (s.bytes st).take q.segOff := by
          unfold specTruncate abs
          rw [show n - (absSegs st fn.segs).length = 0 by unfold abs at habslen; omega]
          simp only [zeros_zero, List.append_nil]
          rw [absSegs_split hs, ← hX, List.append_assoc, List.take_append,
            List.take_of_length_le (by omega)]
          simp only [Nat.add_sub_cancel_left]
          rw [List.take_append_of_le_length (by rw [hswf.bytes_length]; omega)]
        by_cases hso0 : q.segOff = 0
        · rw [if_pos hso0]
          refine ⟨_, rfl, ⟨⟨?_, htakewf⟩, ?_, rfl, fun h => absurd h heq, fun _ => rfl⟩⟩
          · simp only []; omega
          · rw [hspec, hso0]; simp [abs]
        · rw [if_neg hso0, hs]
          cases s with
          | mem buf fl =>
            simp only []
            have hso' : q.segOff < buf.length := hso
            refine ⟨_, rfl, ⟨⟨?_, ?_⟩, ?_, rfl, fun h => absurd h heq, fun _ => rfl⟩⟩
            · simp only [sumLen_append, sumLen_cons, sumLen_nil, memTruncate_len]; omega
            · intro x hx
              rcases List.mem_append.mp hx with h | h
              · exact htakewf x h
              · simp at h; rw [h]; exact memTruncate_wf_shrink hswf (by omega) hso'
            · rw [hspec]
              simp only [abs, absSegs_append, absSegs_cons, absSegs_nil, memTruncate_bytes, Seg.bytes_mem,
                List.append_nil]
              rw [show q.segOff - buf.length = 0 by omega]; simp
          | stored loc sz off l =>
            simp only []
            have hso' : q.segOff < l := hso
            refine ⟨_, rfl, ⟨⟨?_, ?_⟩, ?_, rfl, fun h => absurd h heq, fun _ => rfl⟩⟩
            · simp only [sumLen_append, sumLen_cons, sumLen_nil, stored_slice_len (Nat.le_of_lt hso')]; omega
            · intro x hx
              rcases List.mem_append.mp hx with h | h
              · exact htakewf x h
              · simp at h; rw [h]; exact stored_slice_wf hswf (by omega) (Nat.le_of_lt hso')
            · rw [hspec]
              simp only [abs, absSegs_append, absSegs_cons, absSegs_nil, List.append_nil]
              rw [stored_slice_bytes hswf (Nat.le_of_lt hso')]
    · rw [if_neg hlt]
      obtain ⟨segs', h1, h2, h3, h4⟩ := growLoop_spec (hash := hash) (st := st) hmax (n - fn.size) fn.segs fn.size n
        hwf.segs hwf.size_eq (by omega) (Nat.le_refl _)
      rw [h1]
      refine ⟨_, rfl, ⟨⟨h3, h2⟩, ?_, rfl, fun h => absurd h heq, fun _ => rfl⟩⟩
      unfold specTruncate abs
      simp only []
      rw [h4, List.take_of_length_le (by unfold abs at habslen; omega)]
      unfold abs at habslen; rw [habslen]

end ArvVerif.C08
