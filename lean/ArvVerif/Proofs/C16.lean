/-
C16 part A: helper lemmas about int64 wrap-around, the estimate functions and the invariant of
ChooseInstanceType's loop.
-/
import ArvVerif.Model.C16
namespace ArvVerif.C16

/-! ### int64 wrap-around is invisible when the mathematical result fits -/

theorem wrap64_of_in {x : Int} (h : inInt64 x) : wrap64 x = x := by
  unfold inInt64 at h; unfold wrap64; simp only [two63, two64] at *; omega

theorem wrap64_add_left (a b : Int) : wrap64 (wrap64 a + b) = wrap64 (a + b) := by
  unfold wrap64; simp only [two63, two64]; omega

theorem wrap64_mul100 (a : Int) : wrap64 (wrap64 a * 100) = wrap64 (a * 100) := by
  unfold wrap64; simp only [two63, two64]; omega

theorem wrap64_zero : wrap64 0 = 0 := by decide

theorem needRAM64_eq (ram keep reserve : Int) (h : inInt64 ((ram + keep + reserve) * 100)) :
    needRAM64 ram keep reserve = needRAMSpec ram keep reserve := by
  unfold needRAM64 needRAMSpec
  simp only [wrap64_add_left, wrap64_mul100, wrap64_of_in h]

theorem sum64_aux (cs : List Int) (x : Int) :
    cs.foldl (fun a c => wrap64 (a + c)) (wrap64 x) = wrap64 (cs.foldl (· + ·) x) := by
  induction cs generalizing x with
  | nil => rfl
  | cons c cs ih => simp only [List.foldl_cons, wrap64_add_left]; exact ih (x + c)

/-- summing with wrap-around in any order is the wrap of the true sum -/
theorem sum64_eq (cs : List Int) : sum64 cs = wrap64 (cs.foldl (· + ·) 0) := by
  have := sum64_aux cs 0
  rw [wrap64_zero] at this; exact this

theorem scratch64_eq (caps : List Int) (img : Int)
    (h1 : inInt64 (caps.foldl (· + ·) 0)) (h2 : inInt64 (scratchSpec caps img)) :
    scratch64 caps img = scratchSpec caps img := by
  unfold scratch64 scratchSpec at *
  simp only [sum64_eq, wrap64_of_in h1]
  exact wrap64_of_in h2

theorem imageSize64_eq (pdh : List UInt8) (h : inInt64 (imageSizeSpec pdh)) :
    imageSize64 pdh = imageSizeSpec pdh := by
  unfold imageSize64 imageSizeSpec at *
  cases hp : pdhSize? pdh with
  | none => rfl
  | some n =>
    simp only [hp] at h ⊢
    by_cases hb : two63 ≤ (n : Int)
    · simp only [hb, if_true]
    · simp only [hb, if_false] at h ⊢; exact wrap64_of_in h

/-- the tmp-capacity sum does not depend on the order in which the mounts map is iterated -/
theorem foldl_add_perm {l1 l2 : List Int} (h : l1.Perm l2) (x : Int) :
    l1.foldl (· + ·) x = l2.foldl (· + ·) x := by
  induction h generalizing x with
  | nil => rfl
  | cons a _ ih => simp only [List.foldl_cons]; exact ih _
  | swap a b l => simp only [List.foldl_cons]; congr 1; omega
  | trans _ _ ih1 ih2 => rw [ih1, ih2]

/-! ### the loop -/

/-- what one iteration does, and why -/
theorem chooseStep_cases (n : Need) (acc : Bool × IType) (x : IType) :
    (chooseStep n acc x = acc ∧
      (¬ Adequate n x ∨ (acc.1 = true ∧ x.price > acc.2.price) ∨
        (x.price = acc.2.price ∧ (x.ram < acc.2.ram ∨ x.vcpus < acc.2.vcpus)))) ∨
    (chooseStep n acc x = (true, x) ∧ Adequate n x ∧ ¬ (acc.1 = true ∧ x.price > acc.2.price) ∧
      ¬ (x.price = acc.2.price ∧ (x.ram < acc.2.ram ∨ x.vcpus < acc.2.vcpus))) := by
  unfold chooseStep Adequate
  by_cases h1 : acc.1 = true ∧ x.price > acc.2.price
  · rw [if_pos h1]; left; exact ⟨rfl, Or.inr (Or.inl h1)⟩
  · rw [if_neg h1]
    by_cases h2 : x.scratch < n.scratch
    · rw [if_pos h2]; left; exact ⟨rfl, Or.inl (by omega)⟩
    · rw [if_neg h2]
      by_cases h3 : x.ram < n.ram
      · rw [if_pos h3]; left; exact ⟨rfl, Or.inl (by omega)⟩
      · rw [if_neg h3]
        by_cases h4 : x.vcpus < n.vcpus
        · rw [if_pos h4]; left; exact ⟨rfl, Or.inl (by omega)⟩
        · rw [if_neg h4]
          by_cases h5 : x.preemptible ≠ n.preemptible
          · rw [if_pos h5]; left; exact ⟨rfl, Or.inl (fun h => h5 h.2.2.2)⟩
          · rw [if_neg h5]
            by_cases h6 : x.price = acc.2.price ∧ (x.ram < acc.2.ram ∨ x.vcpus < acc.2.vcpus)
            · rw [if_pos h6]; left; exact ⟨rfl, Or.inr (Or.inr h6)⟩
            · rw [if_neg h6]; right
              refine ⟨rfl, ⟨by omega, by omega, by omega, ?_⟩, h1, h6⟩
              exact Decidable.not_not.mp h5

/-- Invariant of the loop once the types in `S` have been seen: nothing accepted ⇒ `best` is still
the zero value and nothing seen is adequate; something accepted ⇒ `best` was seen, is adequate, is
a cheapest adequate type seen so far, and no equally cheap adequate type seen so far is strictly
better in RAM/VCPUs. -/
def Inv (n : Need) (S : IType → Prop) (acc : Bool × IType) : Prop :=
  (acc.1 = false → acc.2 = zeroType ∧ ∀ y, S y → ¬ Adequate n y) ∧
  (acc.1 = true → S acc.2 ∧ Adequate n acc.2 ∧
    (∀ y, S y → Adequate n y → acc.2.price ≤ y.price) ∧
    (∀ y, S y → Adequate n y → y.price = acc.2.price → ¬ SDom y acc.2))

theorem inv_init (n : Need) : Inv n (fun _ => False) (false, zeroType) :=
  And.intro (fun _ => ⟨rfl, fun _ h => h.elim⟩) (fun h => Bool.noConfusion h)

theorem inv_step (n : Need) (S : IType → Prop) (acc : Bool × IType) (x : IType)
    (hx : 0 ≤ x.ram ∧ 0 ≤ x.vcpus) (h : Inv n S acc) :
    Inv n (fun y => S y ∨ y = x) (chooseStep n acc x) := by
  obtain ⟨ok, best⟩ := acc
  rcases chooseStep_cases n (ok, best) x with ⟨heq, why⟩ | ⟨heq, had, hn1, hn6⟩
  · -- state unchanged
    rw [heq]
    cases ok with
    | false =>
      have h0 := h.1 rfl
      refine And.intro (fun _ => And.intro h0.1 ?_) (fun hc => Bool.noConfusion hc)
      rintro y (hy | rfl)
      · exact h0.2 y hy
      · rcases why with hna | ⟨hc, _⟩ | ⟨hp, hw⟩
        · exact hna
        · cases hc
        · -- compared with the zero-valued `best`: impossible for non-negative RAM / VCPUs
          have hz : best = zeroType := h0.1
          subst hz
          simp only [zeroType] at hw
          omega
    | true =>
      obtain ⟨hS, hA, hmin, hdom⟩ := h.2 rfl
      refine And.intro (fun hc => Bool.noConfusion hc) (fun _ => ⟨Or.inl hS, hA, ?_, ?_⟩)
      · rintro y (hy | rfl) hay
        · exact hmin y hy hay
        · rcases why with hna | ⟨_, hgt⟩ | ⟨hp, _⟩
          · exact (hna hay).elim
          · exact Int.le_of_lt hgt
          · exact Int.le_of_eq hp.symm
      · rintro y (hy | rfl) hay hpe
        · exact hdom y hy hay hpe
        · rcases why with hna | ⟨_, hgt⟩ | ⟨_, hw⟩
          · exact (hna hay).elim
          · dsimp only at hgt hpe; omega
          · unfold SDom; dsimp only at hw hpe ⊢; omega
  · -- x accepted
    rw [heq]
    refine And.intro (fun hc => Bool.noConfusion hc) (fun _ => ⟨Or.inr rfl, had, ?_, ?_⟩)
    · rintro y (hy | rfl) hay
      · cases ok with
        | false => exact ((h.1 rfl).2 y hy hay).elim
        | true =>
          obtain ⟨_, _, hmin, _⟩ := h.2 rfl
          have := hmin y hy hay
          simp only [true_and, Int.not_lt, gt_iff_lt] at hn1
          simp only at this ⊢; omega
      · exact Int.le_refl _
    · rintro y (hy | rfl) hay hpe
      · cases ok with
        | false => exact ((h.1 rfl).2 y hy hay).elim
        | true =>
          obtain ⟨_, _, hmin, hdom⟩ := h.2 rfl
          have h1 := hmin y hy hay
          simp only [true_and, Int.not_lt, gt_iff_lt] at hn1
          simp only at hpe h1 hn1 hn6
          have hpb : y.price = best.price := by omega
          have h2 := hdom y hy hay hpb
          unfold SDom at h2 ⊢
          simp only at h2 ⊢
          omega
      · unfold SDom; dsimp only; omega

theorem inv_foldl (n : Need) (l : List IType) (S : IType → Prop) (acc : Bool × IType)
    (hl : ∀ x ∈ l, 0 ≤ x.ram ∧ 0 ≤ x.vcpus) (h : Inv n S acc) :
    Inv n (fun y => S y ∨ y ∈ l) (l.foldl (chooseStep n) acc) := by
  induction l generalizing S acc with
  | nil =>
    simp only [List.foldl_nil, List.not_mem_nil, or_false]; exact h
  | cons x rest ih =>
    simp only [List.foldl_cons]
    have := ih (fun y => S y ∨ y = x) (chooseStep n acc x)
      (fun y hy => hl y (List.mem_cons_of_mem _ hy))
      (inv_step n S acc x (hl x List.mem_cons_self) h)
    have heq : (fun y => (S y ∨ y = x) ∨ y ∈ rest) = (fun y => S y ∨ y ∈ x :: rest) := by
      funext y; simp only [List.mem_cons, or_assoc]
    rw [heq] at this; exact this

/-- the loop invariant at the end of the loop -/
theorem inv_chooseLoop (n : Need) (order : List IType)
    (hl : ∀ x ∈ order, 0 ≤ x.ram ∧ 0 ≤ x.vcpus) :
    Inv n (fun y => y ∈ order) (chooseLoop n order) := by
  have := inv_foldl n order (fun _ => False) (false, zeroType) hl (inv_init n)
  simp only [false_or] at this; exact this

/-- without the non-negativity hypothesis the loop still only ever returns an adequate member of the table -/
theorem chooseLoop_sound (n : Need) (l l' : List IType) (acc : Bool × IType)
    (h : acc.1 = true → acc.2 ∈ l' ∧ Adequate n acc.2) (hsub : ∀ x ∈ l, x ∈ l') :
    (l.foldl (chooseStep n) acc).1 = true →
      (l.foldl (chooseStep n) acc).2 ∈ l' ∧ Adequate n (l.foldl (chooseStep n) acc).2 := by
  induction l generalizing acc with
  | nil => exact h
  | cons x rest ih =>
    simp only [List.foldl_cons]
    apply ih
    · rcases chooseStep_cases n acc x with ⟨heq, _⟩ | ⟨heq, had, _, _⟩
      · rw [heq]; exact h
      · rw [heq]; intro _; exact ⟨hsub x List.mem_cons_self, had⟩
    · intro y hy; exact hsub y (List.mem_cons_of_mem _ hy)

theorem chooseLoop_ok_sound (n : Need) (order : List IType) (h : (chooseLoop n order).1 = true) :
    (chooseLoop n order).2 ∈ order ∧ Adequate n (chooseLoop n order).2 :=
  chooseLoop_sound n order order (false, zeroType) (fun hc => Bool.noConfusion hc) (fun _ hx => hx) h

theorem chooseWith_ok {order avail : List IType} {reserve : Int} {c : Ctr} {it : IType}
    (h : chooseWith order avail reserve c = .ok it) :
    (chooseLoop (needOf reserve c) order).1 = true ∧ (chooseLoop (needOf reserve c) order).2 = it := by
  unfold chooseWith at h
  by_cases h0 : order.length = 0
  · rw [if_pos h0] at h; cases h
  · rw [if_neg h0] at h
    by_cases h1 : (chooseLoop (needOf reserve c) order).1 = false
    · simp only [h1, if_true] at h; cases h
    · rw [if_neg h1] at h
      injection h with h
      exact ⟨by simpa using h1, h⟩

/-! ### the error path -/

theorem leP_trans : ∀ a b c : IType, leP a b = true → leP b c = true → leP a c = true := by
  intro a b c; simp only [leP, decide_eq_true_eq]; omega

theorem leP_total : ∀ a b : IType, (leP a b || leP b a) = true := by
  intro a b; simp only [leP, Bool.or_eq_true, decide_eq_true_eq]; omega

theorem availSorted_is (table : List IType) : IsAvail table (availSorted table) := by
  refine ⟨List.mergeSort_perm _ _, ?_⟩
  have := List.pairwise_mergeSort leP_trans leP_total table
  exact this.imp (by intro a b h; simpa [leP] using h)

end ArvVerif.C16
