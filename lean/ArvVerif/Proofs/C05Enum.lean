/-
C05 helper lemmas, part 7: every list the driver's enumeration produces is a permutation of the
input (whatever the comparator), hence every outcome the executable model prints is one the
property theorems cover.
-/
import ArvVerif.Model.C05_Enum
namespace ArvVerif.C05

theorem insertions_perm (a : α) : ∀ (l : List α), ∀ r ∈ insertions a l, r.Perm (a :: l) := by
  intro l
  induction l with
  | nil => intro r hr; simp [insertions] at hr; rw [hr]
  | cons b l ih =>
    intro r hr
    unfold insertions at hr
    rcases List.mem_cons.1 hr with rfl | hr'
    · exact List.Perm.refl _
    · obtain ⟨r', hr'', rfl⟩ := List.mem_map.1 hr'
      exact ((ih r' hr'').cons b).trans (List.Perm.swap a b l)

theorem perms_perm : ∀ (l : List α), ∀ r ∈ perms l, r.Perm l := by
  intro l
  induction l with
  | nil => intro r hr; simp [perms] at hr; rw [hr]
  | cons a l ih =>
    intro r hr
    unfold perms at hr
    obtain ⟨p, hp, hr'⟩ := List.mem_flatMap.1 hr
    exact (insertions_perm a p r hr').trans ((ih p hp).cons a)

theorem filter_partition_perm (p : α → Bool) (l : List α) :
    (l.filter p ++ l.filter (fun x => !p x)).Perm l := by
  induction l with
  | nil => exact List.Perm.refl _
  | cons a l ih =>
    cases hp : p a
    · simp only [List.filter_cons, hp, Bool.false_eq_true, if_false, Bool.not_false, if_true]
      exact (List.perm_middle).trans (ih.cons a)
    · simp only [List.filter_cons, hp, if_true, Bool.not_true, Bool.false_eq_true, if_false, List.cons_append]
      exact ih.cons a

theorem minOf_mem (lt : α → α → Bool) : ∀ (l : List α) (a : α), minOf lt a l ∈ a :: l := by
  intro l
  induction l with
  | nil => intro a; simp [minOf]
  | cons b l ih =>
    intro a
    unfold minOf
    simp only [List.foldl_cons]
    have := ih (if lt b a then b else a)
    unfold minOf at this
    rcases List.mem_cons.1 this with h | h
    · rw [h]; split <;> simp
    · exact List.mem_cons_of_mem _ (List.mem_cons_of_mem _ h)

theorem sortedGroups_flatten_perm (lt : α → α → Bool) : ∀ (n : Nat) (l : List α),
    (sortedGroups lt n l).flatten.Perm l := by
  intro n
  induction n with
  | zero =>
    intro l
    unfold sortedGroups
    split
    · rename_i h
      have : l = [] := by simpa using h
      subst this; exact List.Perm.refl _
    · simp
  | succ n ih =>
    intro l
    cases l with
    | nil => exact List.Perm.refl _
    | cons a l =>
      unfold sortedGroups
      simp only [List.flatten_cons]
      refine ((List.Perm.refl _).append (ih _)).trans ?_
      have := filter_partition_perm (fun x => !lt (minOf lt a l) x) (a :: l)
      simpa using this

theorem groupProducts_perm : ∀ (gs : List (List α)), ∀ r ∈ groupProducts gs, r.Perm gs.flatten := by
  intro gs
  induction gs with
  | nil => intro r hr; simp [groupProducts] at hr; rw [hr]; exact List.Perm.refl _
  | cons g gs ih =>
    intro r hr
    unfold groupProducts at hr
    obtain ⟨p, hp, hr'⟩ := List.mem_flatMap.1 hr
    obtain ⟨q, hq, rfl⟩ := List.mem_map.1 hr'
    simp only [List.flatten_cons]
    exact (perms_perm g p hp).append (ih q hq)

/-- every enumerated sort result is a permutation of the input -/
theorem allSorted_perm (lt : α → α → Bool) (l : List α) (rs : List (List α)) (h : allSorted lt l = some rs) :
    ∀ r ∈ rs, r.Perm l := by
  unfold allSorted at h
  simp only at h
  split at h
  · cases h
  · cases h
    intro r hr
    exact (groupProducts_perm _ r hr).trans (sortedGroups_flatten_perm lt _ l)

/-- a run whose sort results are all taken from the enumeration satisfies `RunPerm` -/
theorem runPerm_of_enumerated (env : Env) (sorter : Class → List Slot → List Slot)
    (h : ∀ c l, ∃ rs, allSorted (less env c) l = some rs ∧ sorter c l ∈ rs) :
    ∀ (cs : List Class) (b : BState), RunPerm env sorter cs b := by
  intro cs
  induction cs with
  | nil => intro b; trivial
  | cons c cs ih =>
    intro b
    unfold RunPerm
    split
    · exact ih b
    · obtain ⟨rs, hrs, hmem⟩ := h c b.slots
      exact ⟨allSorted_perm _ _ rs hrs _ hmem, ih _⟩

end ArvVerif.C05
