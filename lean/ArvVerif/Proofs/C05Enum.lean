/-
C05 helper lemmas, part 7: every list the driver's enumeration produces is a permutation of the
input, hence every outcome the executable model prints is one the property theorems cover.
-/
import ArvVerif.Model.C05_Enum
namespace ArvVerif.C05

theorem insertions_perm (a : α) : ∀ (l : List α), ∀ r ∈ insertions a l, r.Perm (a :: l) := by
  intro l
  induction l with
  | nil => intro r hr; simp [insertions] at hr; rw [hr]
  | cons b l ih =>
    intro r hr
    unfold insertions at hr
    rcases List.mem_cons.1 hr with rfl | hr'
    · exact List.Perm.refl _
    · obtain ⟨r', hr'', rfl⟩ := List.mem_map.1 hr'
      exact ((ih r' hr'').cons b).trans (List.Perm.swap a b l)

theorem perms_perm : ∀ (l : List α), ∀ r ∈ perms l, r.Perm l := by
  intro l
  induction l with
  | nil => intro r hr; simp [perms] at hr; rw [hr]
  | cons a l ih =>
    intro r hr
    unfold perms at hr
    obtain ⟨p, hp, hr'⟩ := List.mem_flatMap.1 hr
    exact (insertions_perm a p r hr').trans ((ih p hp).cons a)

theorem tieGroups_flatten (lt : α → α → Bool) : ∀ (l : List α), (tieGroups lt l).flatten = l := by
  intro l
  induction l with
  | nil => rfl
  | cons a l ih =>
    unfold tieGroups
    cases hg : tieGroups lt l with
    | nil => rw [hg] at ih; simp at ih; simp [← ih]
    | cons g gs =>
      rw [hg] at ih
      cases g with
      | nil => simp only; simp at ih ⊢; exact ih
      | cons b g' =>
        simp only
        split <;> simp at ih ⊢ <;> exact ih

theorem groupProducts_perm : ∀ (gs : List (List α)), ∀ r ∈ groupProducts gs, r.Perm gs.flatten := by
  intro gs
  induction gs with
  | nil => intro r hr; simp [groupProducts] at hr; rw [hr]; exact List.Perm.refl _
  | cons g gs ih =>
    intro r hr
    unfold groupProducts at hr
    simp only [List.foldr_cons] at hr
    obtain ⟨p, hp, hr'⟩ := List.mem_flatMap.1 hr
    obtain ⟨q, hq, rfl⟩ := List.mem_map.1 hr'
    simp only [List.flatten_cons]
    exact (perms_perm g p hp).append (ih q hq)

/-- every enumerated sort result is a permutation of the input -/
theorem allSorted_perm (lt : α → α → Bool) (l : List α) (rs : List (List α)) (h : allSorted lt l = some rs) :
    ∀ r ∈ rs, r.Perm l := by
  unfold allSorted at h
  simp only at h
  split at h
  · cases h
  · cases h
    intro r hr
    have := groupProducts_perm _ r hr
    rw [tieGroups_flatten] at this
    exact this.trans (List.mergeSort_perm _ _)

/-- a run whose sort results are all taken from the enumeration satisfies `RunPerm` -/
theorem runPerm_of_enumerated (env : Env) (sorter : Class → List Slot → List Slot)
    (h : ∀ c l, ∃ rs, allSorted (less env c) l = some rs ∧ sorter c l ∈ rs) :
    ∀ (cs : List Class) (b : BState), RunPerm env sorter cs b := by
  intro cs
  induction cs with
  | nil => intro b; trivial
  | cons c cs ih =>
    intro b
    unfold RunPerm
    split
    · exact ih b
    · obtain ⟨rs, hrs, hmem⟩ := h c b.slots
      exact ⟨allSorted_perm _ _ rs hrs _ hmem, ih _⟩

end ArvVerif.C05
