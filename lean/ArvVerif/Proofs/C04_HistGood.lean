/-
C04 sequential layer: content of an acknowledged PUT. A second invariant next to `Prot`: every hash
whose PUT was acknowledged at t has, while now < t + TTL, an INTACT copy stamped ≥ t — over every
history in which `untrash` never restores a corrupt trashed file (`CleanUntrash`); no assumption about
the other copies on the server. The hypothesis is necessary: see the witness in Props/C04.lean.
-/
import ArvVerif.Proofs.C04_Hist
namespace ArvVerif.C04

/-- the hash a PUT acknowledges (a TOUCH does not look at the content) -/
def putAckOf : Op → Res → Option Hash
  | .put h true, .code 200 => some h
  | _, _ => none

def ghostStepP (g : Ghost) (now : Time) (op : Op) (r : Res) : Ghost :=
  match putAckOf op r with
  | some h => fun h' => if h' = h then some now else g h'
  | none => g

def runGP (c : Cfg) : St → Ghost → List Op → St × Ghost
  | s, g, [] => (s, g)
  | s, g, op :: ops => runGP c (step c s op).1 (ghostStepP g s.now op (step c s op).2) ops

/-- some volume holds an INTACT copy of `h` stamped at or after `t` -/
def HoldsG (vs : List Vol) (h : Hash) (t : Time) : Prop :=
  ∃ v ∈ vs, ∃ f, v.blocks h = some f ∧ t ≤ f.mtime ∧ f.good = true

def ProtG (c : Cfg) (s : St) (g : Ghost) : Prop :=
  ∀ h t, g h = some t → t ≤ s.now ∧ (s.now < t + c.ttl → HoldsG s.vols h t)

/-- every `untrash` of the history restores an intact file (on each writable volume, the trash entry
it picks — the one with the least deadline — is intact) -/
def CleanOp (s : St) : Op → Prop
  | .untrash h => ∀ v ∈ s.vols, v.ro = false → ∀ e, minEntry h v.trash = some e → e.file.good = true
  | _ => True

def CleanUntrash (c : Cfg) : St → List Op → Prop
  | _, [] => True
  | s, op :: ops => CleanOp s op ∧ CleanUntrash c (step c s op).1 ops

def KeepsG (h : Hash) (t : Time) (v v' : Vol) : Prop :=
  ∀ f, v.blocks h = some f → t ≤ f.mtime → f.good = true →
    ∃ f', v'.blocks h = some f' ∧ t ≤ f'.mtime ∧ f'.good = true

theorem keepsG_refl (h : Hash) (t : Time) (v : Vol) : KeepsG h t v v := fun f hf ht hg => ⟨f, hf, ht, hg⟩

theorem keepsG_if {h : Hash} {t : Time} {v : Vol} {p : Prop} [Decidable p] {v' : Vol}
    (hk : KeepsG h t v v') : KeepsG h t v (if p then v' else v) := by
  split
  · exact hk
  · exact keepsG_refl h t v

theorem holdsG_map {vs : List Vol} {F : Vol → Vol} {h : Hash} {t : Time}
    (hk : ∀ v ∈ vs, KeepsG h t v (F v)) (hh : HoldsG vs h t) : HoldsG (vs.map F) h t := by
  obtain ⟨v, hv, f, hf, ht, hg⟩ := hh
  obtain ⟨f', hf', ht', hg'⟩ := hk v hv f hf ht hg
  exact ⟨F v, List.mem_map_of_mem hv, f', hf', ht', hg'⟩

theorem protG_map {c : Cfg} {s : St} {g : Ghost} (hp : ProtG c s g) (F : Vol → Vol) (rr' now' : Nat)
    (hnow : s.now ≤ now')
    (hk : ∀ h t, g h = some t → s.now < t + c.ttl → ∀ v ∈ s.vols, KeepsG h t v (F v)) :
    ProtG c { vols := s.vols.map F, now := now', rr := rr' } g := by
  intro h t hg
  obtain ⟨h1, h2⟩ := hp h t hg
  exact ⟨Nat.le_trans h1 hnow,
    fun hlt => holdsG_map (hk h t hg (Nat.lt_of_le_of_lt hnow hlt)) (h2 (Nat.lt_of_le_of_lt hnow hlt))⟩

theorem protG_ack {c : Cfg} {s : St} {g : Ghost} (hp : ProtG c s g) (h : Hash) (hh : HoldsG s.vols h s.now) :
    ProtG c s (fun h' => if h' = h then some s.now else g h') := by
  intro h' t hg
  by_cases he : h' = h
  · subst he
    simp only [if_true, Option.some.injEq] at hg
    subst hg
    exact ⟨Nat.le_refl _, fun _ => hh⟩
  · simp only [he, if_false] at hg
    exact hp h' t hg

theorem keepsG_touch (h h' : Hash) (t now : Time) (v : Vol) (ht : t ≤ now) :
    KeepsG h' t v ((v.touch h now).getD v) := by
  intro f hf hft hg
  unfold Vol.touch
  split
  · exact ⟨f, hf, hft, hg⟩
  · split
    · exact ⟨f, hf, hft, hg⟩
    · rename_i f0 hf0
      by_cases he : h' = h
      · subst he
        rw [hf] at hf0
        cases hf0
        exact ⟨{ f with mtime := now }, by simp [Vol.setBlock], ht, hg⟩
      · exact ⟨f, by simpa [Vol.setBlock, he] using hf, hft, hg⟩

theorem keepsG_write (h h' : Hash) (t now : Time) (v : Vol) (ht : t ≤ now) :
    KeepsG h' t v (v.write h now) := by
  intro f hf hft hg
  by_cases he : h' = h
  · subst he
    exact ⟨{ good := true, mtime := now }, by simp [Vol.write, Vol.setBlock], ht, rfl⟩
  · exact ⟨f, by simpa [Vol.write, Vol.setBlock, he] using hf, hft, hg⟩

theorem keepsG_trashBlock (c : Cfg) (now : Time) (v : Vol) (h h' : Hash) (t : Time)
    (hlt : now < t + c.ttl) : KeepsG h' t v (Vol.trashBlock c now v h).2 := by
  intro f hf hft hg
  cases trashBlock_blocks c now v h h' with
  | inl heq => exact ⟨f, by rw [heq]; exact hf, hft, hg⟩
  | inr hx =>
    obtain ⟨he, _, _, _, f0, hf0, hold⟩ := hx
    subst he
    rw [hf] at hf0
    cases hf0
    exact absurd (Nat.lt_of_lt_of_le hlt (Nat.add_le_add_right hft _)) hold

theorem keepsG_delVol (c : Cfg) (now : Time) (v : Vol) (h h' : Hash) (t : Time)
    (hlt : now < t + c.ttl) : KeepsG h' t v (delVol c now h v) := by
  unfold delVol
  split
  · exact keepsG_refl _ _ _
  · exact keepsG_trashBlock c now v h h' t hlt

theorem keepsG_tiVol (c : Cfg) (now : Time) (v : Vol) (h h' : Hash) (req : Time) (mount : Option Nat)
    (t : Time) (hlt : now < t + c.ttl) : KeepsG h' t v (tiVol c now h req mount v) := by
  unfold tiVol
  split
  · split
    · split
      · exact keepsG_trashBlock c now v h h' t hlt
      · exact keepsG_refl _ _ _
    · exact keepsG_refl _ _ _
  · exact keepsG_refl _ _ _

theorem keepsG_sweep (c : Cfg) (now : Time) (v : Vol) (h : Hash) (t : Time) : KeepsG h t v (sweepVol c now v) := by
  intro f hf hft hg
  exact ⟨f, by rw [sweepVol_blocks]; exact hf, hft, hg⟩

theorem keepsG_untrashVol (v : Vol) (h h' : Hash) (t now : Time) (ht : t ≤ now)
    (hclean : v.ro = false → ∀ e, minEntry h v.trash = some e → e.file.good = true) :
    KeepsG h' t v (untrashVol h now v) := by
  intro f hf hft hg
  unfold untrashVol
  split
  · exact ⟨f, hf, hft, hg⟩
  · rename_i hro
    have hro' : v.ro = false := by simpa using hro
    unfold Vol.untrash
    split
    · exact ⟨f, hf, hft, hg⟩
    · rename_i e he
      simp only [Option.getD_some]
      by_cases heq : h' = h
      · subst heq
        exact ⟨{ e.file with mtime := now }, by simp [Vol.setBlock], ht, hclean hro' e he⟩
      · exact ⟨f, by simpa [Vol.setBlock, heq] using hf, hft, hg⟩

theorem holdsG_after_touch {vs : List Vol} {v : Vol} {h : Hash} {now : Time} {f : File}
    (hv : v ∈ vs) (hro : v.ro = false) (hf : v.blocks h = some f) (hg : f.good = true) :
    HoldsG (updVol vs v.id (fun w => (w.touch h now).getD w)) h now := by
  refine ⟨(v.touch h now).getD v, ?_, { f with mtime := now }, ?_, Nat.le_refl _, hg⟩
  · unfold updVol
    have := List.mem_map_of_mem (f := fun w => if w.id = v.id then (w.touch h now).getD w else w) hv
    simpa using this
  · simp [Vol.touch, hro, hf, Vol.setBlock]

theorem holdsG_after_write {vs : List Vol} {v : Vol} {h : Hash} {now : Time} (hv : v ∈ vs) :
    HoldsG (updVol vs v.id (fun w => w.write h now)) h now := by
  refine ⟨v.write h now, ?_, { good := true, mtime := now }, ?_, Nat.le_refl _, rfl⟩
  · unfold updVol
    have := List.mem_map_of_mem (f := fun w => if w.id = v.id then w.write h now else w) hv
    simpa using this
  · simp [Vol.write, Vol.setBlock]

theorem protG_step {c : Cfg} {s : St} {g : Ghost} (hp : ProtG c s g) (op : Op) (hclean : CleanOp s op) :
    ProtG c (step c s op).1 (ghostStepP g s.now op (step c s op).2) := by
  have hle : ∀ h t, g h = some t → t ≤ s.now := fun h t hg => (hp h t hg).1
  cases op with
  | put h goodBody =>
    simp only [step]
    split
    · simpa [ghostStepP, putAckOf] using hp
    · split
      · simpa [ghostStepP, putAckOf] using hp
      · rename_i hgb
        have hgb' : goodBody = true := by simpa using hgb
        subst hgb'
        split
        · rename_i id hcat
          obtain ⟨v, hvw, hid, f, hf, hgood⟩ := compareAndTouch_some hcat
          obtain ⟨hv, hro⟩ := mem_writables hvw
          subst hid
          have h1 : ProtG c { vols := s.vols.map (fun w => if w.id = v.id then (w.touch h s.now).getD w else w),
                              now := s.now, rr := s.rr } g :=
            protG_map hp _ _ _ (Nat.le_refl _) (fun h' t hg _ w _ => keepsG_if (keepsG_touch h h' t s.now w (hle h' t hg)))
          simp only [ghostStepP, putAckOf]
          exact protG_ack (s := { vols := _, now := s.now, rr := s.rr }) h1 h (holdsG_after_touch hv hro hf hgood)
        · split
          · rename_i w0 hw0
            split
            · rename_i w hw
              have hwm : w ∈ writables s.vols := pickTarget_mem (List.mem_of_getElem? hw0) hw
              obtain ⟨hv, _⟩ := mem_writables hwm
              have h1 : ProtG c { vols := s.vols.map (fun x => if x.id = w.id then x.write h s.now else x),
                                  now := s.now, rr := s.rr + 1 } g :=
                protG_map hp _ _ _ (Nat.le_refl _) (fun h' t hg _ x _ => keepsG_if (keepsG_write h h' t s.now x (hle h' t hg)))
              simp only [ghostStepP, putAckOf]
              exact protG_ack (s := { vols := _, now := s.now, rr := s.rr + 1 }) h1 h (holdsG_after_write hv)
            · simp only [ghostStepP, putAckOf]
              exact hp
          · simpa [ghostStepP, putAckOf] using hp
  | touch h =>
    simp only [step]
    split
    · simp only [ghostStepP, putAckOf]
      exact protG_map hp _ _ _ (Nat.le_refl _) (fun h' t hg _ w _ => keepsG_if (keepsG_touch h h' t s.now w (hle h' t hg)))
    · simpa [ghostStepP, putAckOf] using hp
  | get h => simpa [step, ghostStepP, putAckOf] using hp
  | delete h =>
    simp only [step]
    split
    · simpa [ghostStepP, putAckOf] using hp
    · split
      · simpa [ghostStepP, putAckOf] using hp
      · simp only [ghostStepP, putAckOf]
        exact protG_map hp _ _ _ (Nat.le_refl _) (fun h' t _ hlt v _ => keepsG_delVol c s.now v h h' t hlt)
  | trashItem h req mount =>
    simp only [step]
    split
    · simpa [ghostStepP, putAckOf] using hp
    · simp only [ghostStepP, putAckOf]
      exact protG_map hp _ _ _ (Nat.le_refl _) (fun h' t _ hlt v _ => keepsG_tiVol c s.now v h h' req mount t hlt)
  | untrash h =>
    simp only [step]
    split
    · simpa [ghostStepP, putAckOf] using hp
    · split
      · simpa [ghostStepP, putAckOf] using hp
      · simp only [ghostStepP, putAckOf]
        exact protG_map hp _ _ _ (Nat.le_add_right _ _)
          (fun h' t hg _ v hv => keepsG_untrashVol v h h' t _ (Nat.le_trans (hle h' t hg) (Nat.le_add_right _ _))
            (hclean v hv))
  | emptyTrash =>
    simp only [step, ghostStepP, putAckOf]
    exact protG_map hp _ _ _ (Nat.le_refl _) (fun h' t _ _ v _ => keepsG_sweep c s.now v h' t)
  | tick d =>
    simp only [step, ghostStepP, putAckOf]
    intro h t hg
    obtain ⟨h1, h2⟩ := hp h t hg
    exact ⟨Nat.le_trans h1 (Nat.le_add_right _ _), fun hlt => h2 (Nat.lt_of_le_of_lt (Nat.le_add_right _ _) hlt)⟩
  | unauth k => simpa [step, ghostStepP, putAckOf] using hp

theorem protG_run {c : Cfg} : ∀ (ops : List Op) (s : St) (g : Ghost), ProtG c s g → CleanUntrash c s ops →
    ProtG c (runGP c s g ops).1 (runGP c s g ops).2 := by
  intro ops
  induction ops with
  | nil => intro s g hp _; exact hp
  | cons op ops ih =>
    intro s g hp hs
    exact ih _ _ (protG_step hp op hs.1) hs.2

theorem runGP_state (c : Cfg) : ∀ (ops : List Op) (s : St) (g g' : Ghost), (runGP c s g ops).1 = (runG c s g' ops).1 := by
  intro ops
  induction ops with
  | nil => intro s g g'; rfl
  | cons op ops ih => intro s g g'; exact ih _ _ _

end ArvVerif.C04
