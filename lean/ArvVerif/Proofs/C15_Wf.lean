/-
The order on the variant `Mu` is well founded, and the generic convergence argument: a stream whose
variant never increases, in which every fair action decreases it, and in which — while the goal is
not reached — some fair action is enabled and stays enabled as long as the variant does not move,
reaches the goal, provided the stream is weakly fair.
-/
import ArvVerif.Model.C15_Live
namespace ArvVerif.C15

theorem Mu.lt_irrefl (a : Mu) : ¬ a.lt a := by
  unfold Mu.lt; omega

theorem Mu.lt_trans {a b c : Mu} (h1 : a.lt b) (h2 : b.lt c) : a.lt c := by
  unfold Mu.lt at *; omega

theorem Mu.lt_of_lt_of_le {a b c : Mu} (h1 : a.lt b) (h2 : b.le c) : a.lt c := by
  rcases h2 with h | h
  · rw [← h]; exact h1
  · exact Mu.lt_trans h1 h

theorem Mu.le_trans {a b c : Mu} (h1 : a.le b) (h2 : b.le c) : a.le c := by
  rcases h1 with h | h
  · rw [h]; exact h2
  · exact Or.inr (Mu.lt_of_lt_of_le h h2)

def Mu.tuple (a : Mu) : Nat × Nat × Nat × Nat × Nat × Nat := (a.f, a.q, a.r, a.c, a.d, a.i)

theorem Mu.lt_wf : WellFounded Mu.lt := by
  have hwf : WellFounded (fun a b : Mu => WellFoundedRelation.rel a.tuple b.tuple) :=
    InvImage.wf Mu.tuple WellFoundedRelation.wf
  refine Subrelation.wf ?_ hwf
  intro a b h
  show Prod.Lex _ _ a.tuple b.tuple
  unfold Mu.lt at h
  unfold Mu.tuple
  rcases h with h | ⟨e1, h⟩
  · exact Prod.Lex.left _ _ h
  · rw [e1]; apply Prod.Lex.right
    rcases h with h | ⟨e2, h⟩
    · exact Prod.Lex.left _ _ h
    · rw [e2]; apply Prod.Lex.right
      rcases h with h | ⟨e3, h⟩
      · exact Prod.Lex.left _ _ h
      · rw [e3]; apply Prod.Lex.right
        rcases h with h | ⟨e4, h⟩
        · exact Prod.Lex.left _ _ h
        · rw [e4]; apply Prod.Lex.right
          rcases h with h | ⟨e5, h⟩
          · exact Prod.Lex.left _ _ h
          · rw [e5]; exact Prod.Lex.right _ h

/-- The variant of a stream that never increases is below its earlier values. -/
theorem le_of_steps {σ : Type} (μ : σ → Mu) (run : Nat → σ)
    (hle : ∀ n, (μ (run (n + 1))).le (μ (run n))) (n : Nat) : ∀ k, (μ (run (n + k))).le (μ (run n)) := by
  intro k
  induction k with
  | zero => exact Or.inl rfl
  | succ k ih => exact Mu.le_trans (hle (n + k)) ih

/-- Well-founded descent: if whenever the goal is not reached the variant strictly decreases at some
later step, the goal is reached. -/
theorem reach_of_descent {σ : Type} (μ : σ → Mu) (goal : σ → Prop) (run : Nat → σ)
    (hle : ∀ n, (μ (run (n + 1))).le (μ (run n)))
    (hprog : ∀ n, ¬ goal (run n) → ∃ m, n ≤ m ∧ (μ (run (m + 1))).lt (μ (run m))) :
    ∀ n, ∃ k, n ≤ k ∧ goal (run k) := by
  have key : ∀ x : Mu, ∀ n, μ (run n) = x → ∃ k, n ≤ k ∧ goal (run k) := by
    intro x
    induction x using Mu.lt_wf.induction with
    | _ x ih =>
      intro n hn
      by_cases hg : goal (run n)
      · exact ⟨n, Nat.le_refl _, hg⟩
      · obtain ⟨m, hm, hlt⟩ := hprog n hg
        have h1 : (μ (run m)).le (μ (run n)) := by
          have := le_of_steps μ run hle n (m - n)
          rwa [Nat.add_sub_cancel' hm] at this
        have h2 : (μ (run (m + 1))).lt x := hn ▸ Mu.lt_of_lt_of_le hlt h1
        obtain ⟨k, hk, hgk⟩ := ih _ h2 (m + 1) rfl
        exact ⟨k, by omega, hgk⟩
  intro n
  exact key _ n rfl

/-- **Convergence under weak fairness.** `P k s` says that the fair action `k` is enabled at `s`
in a way that survives steps which leave the variant unchanged. -/
theorem converge_fair {σ κ : Type} (μ : σ → Mu) (goal : σ → Prop) (P : κ → σ → Prop)
    (run : Nat → σ) (lab : Nat → Option κ)
    (hle : ∀ n, (μ (run (n + 1))).le (μ (run n)))
    (hdec : ∀ n k, lab n = some k → (μ (run (n + 1))).lt (μ (run n)))
    (hP : ∀ n, ¬ goal (run n) → ∃ k, P k (run n))
    (hkeep : ∀ n k, P k (run n) → μ (run (n + 1)) = μ (run n) → P k (run (n + 1)))
    (hfair : ∀ k n, (∀ m, n ≤ m → P k (run m)) → ∃ m, n ≤ m ∧ lab m = some k) :
    ∀ n, ∃ k, n ≤ k ∧ goal (run k) := by
  apply reach_of_descent μ goal run hle
  intro n hg
  obtain ⟨k, hk⟩ := hP n hg
  apply Classical.byContradiction
  intro hno
  have hall : ∀ m, n ≤ m → μ (run (m + 1)) = μ (run m) := by
    intro m hm
    rcases hle m with h | h
    · exact h
    · exact absurd ⟨m, hm, h⟩ hno
  have hPk : ∀ d, P k (run (n + d)) := by
    intro d
    induction d with
    | zero => exact hk
    | succ d ih => exact hkeep (n + d) k ih (hall (n + d) (by omega))
  obtain ⟨m, hm, hl⟩ := hfair k n (fun m hm => by
    have := hPk (m - n)
    rwa [Nat.add_sub_cancel' hm] at this)
  exact hno ⟨m, hm, hdec m k hl⟩

end ArvVerif.C15
