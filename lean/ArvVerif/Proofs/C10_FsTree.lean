/-
C10 — `createFileAndParents` on the flat tree: for a clean path that conflicts with no path seen
so far it returns the file node of that path (creating parents), and appending the token's
segments keeps the tree equal to "every path ↦ concatenation of its contributions so far".
-/
import ArvVerif.Proofs.C10_PkgText
namespace ArvVerif.C10

/-- "./a/b" for the component list [a, b] -/
def pathOfKey (k : List Bytes) : Bytes := joinWith bSlash ([bDot] :: k)

/-- a file key made of proper path components -/
def KeyOk (k : List Bytes) : Prop := k ≠ [] ∧ componentsOk k = true ∧ ∀ c ∈ k, bSlash ∉ c

/-- contributions processed so far: (combined path, segments of one file token), in manifest order -/
abbrev Contrib := List (Bytes × List Seg)

def contribOf (done : Contrib) (p : Bytes) : List Seg := (done.filter (·.1 = p)).flatMap (·.2)

theorem contribOf_append (done : Contrib) (p q : Bytes) (segs : List Seg) :
    contribOf (done ++ [(q, segs)]) p = contribOf done p ++ (if q = p then segs else []) := by
  unfold contribOf
  rw [List.filter_append, List.flatMap_append]
  by_cases h : q = p <;> simp [h]

theorem pathOfKey_inj {k k' : List Bytes} (hk : KeyOk k) (hk' : KeyOk k') (h : pathOfKey k = pathOfKey k') : k = k' := by
  have e1 := splitOn_joinWith bSlash ([bDot] :: k) (by simp) (by
    intro p hp; rcases List.mem_cons.mp hp with rfl | hp
    · decide
    · exact hk.2.2 p hp)
  have e2 := splitOn_joinWith bSlash ([bDot] :: k') (by simp) (by
    intro p hp; rcases List.mem_cons.mp hp with rfl | hp
    · decide
    · exact hk'.2.2 p hp)
  unfold pathOfKey at h
  rw [h, e2] at e1
  exact (List.cons.inj e1).2.symm

/-- a proper prefix of a key is a directory prefix of its path -/
theorem isDirPrefix_of_key (d : List Bytes) (x : Bytes) (rest : List Bytes) :
    isDirPrefix (pathOfKey d) (pathOfKey (d ++ x :: rest)) = true := by
  unfold isDirPrefix pathOfKey
  rw [← List.cons_append, joinWith_append bSlash ([bDot] :: d) (x :: rest) (by simp) (by simp)]
  rw [List.isPrefixOf_iff_prefix]
  exact ⟨joinWith bSlash (x :: rest), by simp⟩

/-- the tree holds exactly the contributions processed so far -/
structure FsInv (done : Contrib) (t : FsTree) : Prop where
  files : ∀ e ∈ t.files, KeyOk e.1 ∧ pathOfKey e.1 ∈ done.map (·.1) ∧ e.2 = contribOf done (pathOfKey e.1)
  has : ∀ c ∈ done, ∃ e ∈ t.files, pathOfKey e.1 = c.1
  dirs : ∀ d ∈ t.dirs, d ≠ [] ∧ ∃ e ∈ t.files, ∃ x rest, e.1 = d ++ x :: rest

theorem fsInv_empty : FsInv [] ⟨[], []⟩ := ⟨by simp, by simp, by simp⟩

theorem componentsOk_cons {c : Bytes} {cs : List Bytes} (h : componentsOk (c :: cs) = true) :
    (c ≠ [] ∧ c ≠ [bDot] ∧ c ≠ [bDot, bDot]) ∧ componentsOk cs = true := by
  refine ⟨componentsOk_mem h (List.mem_cons_self), ?_⟩
  unfold componentsOk at h ⊢
  simp only [List.all_cons, Bool.and_eq_true] at h
  exact h.2

/-- the parent walk over proper components none of which (as a path from `cur`) is a file -/
theorem walkParents_spec : ∀ (cs cur : List Bytes) (t : FsTree), componentsOk cs = true →
    (∀ pre, pre ≠ [] → pre <+: cs → t.files.any (·.1 = cur ++ pre) = false) →
    ∃ t', walkParents cs cur t = some (cur ++ cs, t') ∧ t'.files = t.files ∧
      (∀ d ∈ t'.dirs, d ∈ t.dirs ∨ ∃ pre, pre ≠ [] ∧ pre <+: cs ∧ d = cur ++ pre) ∧
      (∀ d ∈ t.dirs, d ∈ t'.dirs)
  | [], cur, t, _, _ => ⟨t, by simp [walkParents], rfl, fun d hd => Or.inl hd, fun d hd => hd⟩
  | n :: rest, cur, t, hok, hnf => by
    obtain ⟨hn, hrest⟩ := componentsOk_cons hok
    have hnofile : t.files.any (·.1 = cur ++ [n]) = false := hnf [n] (by simp) ⟨rest, rfl⟩
    unfold walkParents
    rw [if_neg (by intro h; rcases h with h | h; exact hn.1 h; exact hn.2.1 h), if_neg hn.2.2]
    simp only [hnofile, Bool.false_eq_true, if_false]
    have hnf' : ∀ (t1 : FsTree), t1.files = t.files → ∀ pre, pre ≠ [] → pre <+: rest →
        t1.files.any (·.1 = (cur ++ [n]) ++ pre) = false := by
      intro t1 ht1 pre hpre hpr
      rw [ht1]
      have := hnf (n :: pre) (by simp) (by obtain ⟨s, hs⟩ := hpr; exact ⟨s, by simp [← hs]⟩)
      simpa using this
    by_cases hc : t.dirs.contains (cur ++ [n]) = true
    · rw [if_pos hc]
      obtain ⟨t', h1, h2, h3, h4⟩ := walkParents_spec rest (cur ++ [n]) t hrest (hnf' t rfl)
      refine ⟨t', by simpa using h1, h2, ?_, h4⟩
      intro d hd
      rcases h3 d hd with h | ⟨pre, hp1, hp2, hp3⟩
      · exact Or.inl h
      · right
        obtain ⟨s, hs⟩ := hp2
        exact ⟨n :: pre, by simp, ⟨s, by simp [← hs]⟩, by simp [hp3]⟩
    · rw [if_neg hc]
      obtain ⟨t', h1, h2, h3, h4⟩ := walkParents_spec rest (cur ++ [n]) { t with dirs := t.dirs ++ [cur ++ [n]] }
        hrest (hnf' _ rfl)
      refine ⟨t', by simpa using h1, h2, ?_, fun d hd => h4 d (by simp [hd])⟩
      intro d hd
      rcases h3 d hd with h | ⟨pre, hp1, hp2, hp3⟩
      · simp only [List.mem_append, List.mem_singleton] at h
        rcases h with h | h
        · exact Or.inl h
        · exact Or.inr ⟨[n], by simp, ⟨rest, rfl⟩, h⟩
      · right
        obtain ⟨s, hs⟩ := hp2
        exact ⟨n :: pre, by simp, ⟨s, by simp [← hs]⟩, by simp [hp3]⟩

theorem any_key_false_iff (fs : List (List Bytes × List Seg)) (k : List Bytes) :
    fs.any (·.1 = k) = false ↔ ∀ e ∈ fs, e.1 ≠ k := by
  rw [Bool.eq_false_iff]
  simp only [ne_eq, List.any_eq_true, decide_eq_true_eq, not_exists, not_and]

/-- **one file token on the tree** -/
theorem fs_step (done : Contrib) (t : FsTree) (hinv : FsInv done t) (k : List Bytes) (hk : KeyOk k)
    (hsplit : splitOn bSlash (pathOfKey k) = [bDot] :: k)
    (hnc : ∀ q ∈ done.map (·.1), isDirPrefix q (pathOfKey k) = false ∧ isDirPrefix (pathOfKey k) q = false) :
    ∃ t', createFileAndParents (pathOfKey k) t = (.file k, t') ∧
      ∀ segs, FsInv (done ++ [(pathOfKey k, segs)]) (appendSegs t' k segs) := by
  obtain ⟨hkne, hkok, hkns⟩ := hk
  have hlast : k = k.dropLast ++ [k.getLast hkne] := (List.dropLast_concat_getLast hkne).symm
  have hbase : ([bDot] :: k).getLastD [] = k.getLast hkne := by
    cases k with
    | nil => exact absurd rfl hkne
    | cons a b => simp [List.getLastD, List.getLast?_cons_cons, List.getLast?_eq_some_getLast]
  have hdl : ([bDot] :: k).dropLast = [bDot] :: k.dropLast := by
    cases k with
    | nil => exact absurd rfl hkne
    | cons a b => rfl
  have hokdl : componentsOk k.dropLast = true := by
    unfold componentsOk at hkok ⊢
    rw [List.all_eq_true] at hkok ⊢
    intro x hx; exact hkok x ((List.dropLast_sublist k).subset hx)
  have hbok := componentsOk_mem hkok (List.getLast_mem hkne)
  -- no proper prefix of k is a file
  have hnofile : ∀ pre, pre ≠ [] → pre <+: k.dropLast → t.files.any (·.1 = [] ++ pre) = false := by
    intro pre hpre ⟨s, hs⟩
    rw [any_key_false_iff]
    intro e he heq
    obtain ⟨_, hpd, _⟩ := hinv.files e he
    have hkk : k = pre ++ (s ++ [k.getLast hkne]) := by
      conv => lhs; rw [hlast, ← hs]
      simp
    have hne : s ++ [k.getLast hkne] ≠ [] := by simp
    obtain ⟨x, r, hxr⟩ : ∃ x r, s ++ [k.getLast hkne] = x :: r := by
      cases h : s ++ [k.getLast hkne] with
      | nil => exact absurd h hne
      | cons a b => exact ⟨a, b, rfl⟩
    have := isDirPrefix_of_key pre x r
    rw [← hxr, ← hkk] at this
    have heq' : e.1 = pre := by simpa using heq
    rw [heq'] at hpd
    have h2 := (hnc _ hpd).1
    rw [this] at h2
    exact Bool.noConfusion h2
  obtain ⟨t1, hw1, hw2, hw3, hw4⟩ := walkParents_spec k.dropLast [] t hokdl hnofile
  have hcreate : ∃ t', createFileAndParents (pathOfKey k) t = (.file k, t') ∧
      (t'.files = t.files ∧ (∃ e ∈ t.files, e.1 = k) ∨
       t'.files = t.files ++ [(k, [])] ∧ ∀ e ∈ t.files, e.1 ≠ k) ∧ t'.dirs = t1.dirs := by
    unfold createFileAndParents
    simp only [hsplit, hbase, hdl]
    have hwalk : walkParents ([bDot] :: k.dropLast) [] t = some (k.dropLast, t1) := by
      unfold walkParents
      rw [if_pos (Or.inr rfl)]
      simpa using hw1
    rw [hwalk]
    simp only []
    rw [if_neg hbok.2.1, if_neg (by intro h; rcases h with h | h; exact hbok.1 h; exact hbok.2.2 h)]
    rw [← hlast]
    -- k is not a directory
    have hnodir : t1.dirs.contains k = false := by
      rw [Bool.eq_false_iff]
      intro hc
      have hmem : k ∈ t1.dirs := List.contains_iff_mem.mp hc
      rcases hw3 k hmem with h | ⟨pre, _, ⟨s, hs⟩, hp3⟩
      · obtain ⟨_, e, he, x, r, hxr⟩ := hinv.dirs k h
        obtain ⟨_, hpd, _⟩ := hinv.files e he
        have h1 := isDirPrefix_of_key k x r
        rw [← hxr] at h1
        have h2 := (hnc _ hpd).2
        rw [h1] at h2
        exact Bool.noConfusion h2
      · have hlen : k.length = pre.length := by rw [hp3]; simp
        have : k.dropLast.length = pre.length + s.length := by rw [← hs]; simp
        have : k.dropLast.length = k.length - 1 := by simp
        have : 0 < k.length := List.length_pos_iff.mpr hkne
        omega
    rw [hnodir]
    simp only [Bool.false_eq_true, if_false]
    by_cases hex : t1.files.any (·.1 = k) = true
    · rw [if_pos hex]
      refine ⟨t1, rfl, Or.inl ⟨hw2, ?_⟩, rfl⟩
      rw [hw2] at hex
      obtain ⟨e, he, hek⟩ := List.any_eq_true.mp hex
      exact ⟨e, he, by simpa using hek⟩
    · rw [if_neg hex]
      refine ⟨_, rfl, Or.inr ⟨by simp [hw2], ?_⟩, rfl⟩
      have : t1.files.any (·.1 = k) = false := Bool.eq_false_iff.mpr hex
      rw [hw2] at this
      exact (any_key_false_iff _ _).mp this
  obtain ⟨t', hc1, hc2, hc3⟩ := hcreate
  refine ⟨t', hc1, ?_⟩
  intro segs
  have hKk : KeyOk k := ⟨hkne, hkok, hkns⟩
  -- membership in the new file list
  have hfiles' : ∀ e' ∈ (appendSegs t' k segs).files,
      ∃ e ∈ t'.files, e' = (if e.1 = k then (e.1, e.2 ++ segs) else e) := by
    intro e' he'
    unfold appendSegs at he'
    simp only [List.mem_map] at he'
    obtain ⟨e, he, rfl⟩ := he'
    exact ⟨e, he, rfl⟩
  have hmem' : ∀ e ∈ t'.files, (if e.1 = k then (e.1, e.2 ++ segs) else e) ∈ (appendSegs t' k segs).files := by
    intro e he
    unfold appendSegs
    simp only [List.mem_map]
    exact ⟨e, he, rfl⟩
  have hold : ∀ e ∈ t.files, e ∈ t'.files := by
    intro e he
    rcases hc2 with ⟨h, _⟩ | ⟨h, _⟩ <;> rw [h] <;> simp [he]
  constructor
  · -- files
    intro e' he'
    obtain ⟨e, he, rfl⟩ := hfiles' e' he'
    have hcase : e ∈ t.files ∨ (e = (k, []) ∧ ∀ x ∈ t.files, x.1 ≠ k) := by
      rcases hc2 with ⟨h, _⟩ | ⟨h, hn⟩
      · left; rw [h] at he; exact he
      · rw [h] at he
        rcases List.mem_append.mp he with he | he
        · exact Or.inl he
        · right; exact ⟨by simpa using he, hn⟩
    rcases hcase with he0 | ⟨rfl, hnone⟩
    · obtain ⟨f1, f2, f3⟩ := hinv.files e he0
      by_cases hek : e.1 = k
      · rw [if_pos hek]
        refine ⟨f1, by simp [f2], ?_⟩
        simp only []
        rw [contribOf_append, f3, hek, if_pos rfl]
      · rw [if_neg hek]
        refine ⟨f1, by simp [f2], ?_⟩
        rw [contribOf_append, f3, if_neg]
        · simp
        · intro h; exact hek (pathOfKey_inj f1 hKk h.symm)
    · rw [if_pos rfl]
      refine ⟨hKk, by simp, ?_⟩
      simp only []
      rw [contribOf_append, if_pos rfl]
      have : contribOf done (pathOfKey k) = [] := by
        unfold contribOf
        rw [List.flatMap_eq_nil_iff]
        intro c hc
        have hc' := List.mem_filter.mp hc
        obtain ⟨e, he, hpe⟩ := hinv.has c hc'.1
        have hcp : c.1 = pathOfKey k := by simpa using hc'.2
        have hKe := (hinv.files e he).1
        have : e.1 = k := pathOfKey_inj hKe hKk (by rw [hpe, hcp])
        exact absurd this (hnone e he)
      rw [this]
  · -- has
    intro c hc
    rcases List.mem_append.mp hc with hc | hc
    · obtain ⟨e, he, hpe⟩ := hinv.has c hc
      refine ⟨_, hmem' e (hold e he), ?_⟩
      by_cases hek : e.1 = k <;> simp [hek, hpe] <;> rw [← hek, hpe]
    · have hc' : c = (pathOfKey k, segs) := by simpa using hc
      subst hc'
      have hex : ∃ e ∈ t'.files, e.1 = k := by
        rcases hc2 with ⟨h, ⟨e, he, hek⟩⟩ | ⟨h, _⟩
        · exact ⟨e, by rw [h]; exact he, hek⟩
        · exact ⟨(k, []), by rw [h]; simp, rfl⟩
      obtain ⟨e, he, hek⟩ := hex
      exact ⟨_, hmem' e he, by simp [hek]⟩
  · -- dirs
    intro d hd
    have hd' : d ∈ t1.dirs := by
      have : (appendSegs t' k segs).dirs = t'.dirs := rfl
      rw [this, hc3] at hd; exact hd
    rcases hw3 d hd' with h | ⟨pre, hp1, ⟨s, hs⟩, hp3⟩
    · obtain ⟨hdne, e, he, x, r, hxr⟩ := hinv.dirs d h
      refine ⟨hdne, _, hmem' e (hold e he), x, r, ?_⟩
      by_cases hek : e.1 = k <;> simp [hek, ← hxr] <;> exact hek.symm
    · have hex : ∃ e ∈ t'.files, e.1 = k := by
        rcases hc2 with ⟨h, ⟨e, he, hek⟩⟩ | ⟨h, _⟩
        · exact ⟨e, by rw [h]; exact he, hek⟩
        · exact ⟨(k, []), by rw [h]; simp, rfl⟩
      obtain ⟨e, he, hek⟩ := hex
      have hd0 : d = pre := by simpa using hp3
      refine ⟨by rw [hd0]; exact hp1, _, hmem' e he, ?_⟩
      have hkk : k = pre ++ (s ++ [k.getLast hkne]) := by
        conv => lhs; rw [hlast, ← hs]
        simp
      obtain ⟨x, r, hxr⟩ : ∃ x r, s ++ [k.getLast hkne] = x :: r := by
        cases h : s ++ [k.getLast hkne] with
        | nil => simp at h
        | cons a b => exact ⟨a, b, rfl⟩
      refine ⟨x, r, ?_⟩
      simp only [hek, if_true]
      rw [hd0, ← hxr]; exact hkk

end ArvVerif.C10
