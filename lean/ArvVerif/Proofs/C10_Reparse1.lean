/-
C10 — towards "the text `normalizedText` renders parses back to the stream it rendered":
supporting lemmas (locators hold no delimiter; the spans of pass 2 lie inside the stream of pass 1;
`pkgBlocks` on Go locators).
-/
import ArvVerif.Proofs.C10_Decimal
namespace ArvVerif.C10

/-- a token accepted by a locator recogniser holds no byte outside hex digits, `+`, digits and hint
characters -/
theorem locator_no_byte (hex : UInt8 → Bool) (c : UInt8) (h1 : hex c = false) (h2 : c ≠ bPlus)
    (h3 : isDigit c = false) (h4 : isHintChar c = false) (t ds : Bytes)
    (h : locatorSizeDigits hex t = some ds) : c ∉ t := by
  obtain ⟨hs, tl, ht, _, hall, _, hd, htl⟩ := locatorSizeDigits_shape hex t ds h
  rw [ht]
  intro hm
  simp only [List.mem_append, List.mem_cons] at hm
  rcases hm with hm | hm | hm | hm
  · exact not_mem_of_all hall h1 hm
  · exact h2 hm
  · exact not_mem_of_all hd h3 hm
  · rcases htl with rfl | ⟨hok, _⟩
    · simp at hm
    · rcases hintsOk_chars tl _ _ hok c hm with e | e
      · exact h2 e
      · rw [h4] at e; cases e

theorem goLocator_no_space (t : Bytes) (h : isGoLocator t = true) : bSpace ∉ t ∧ bNL ∉ t := by
  unfold isGoLocator goLocatorDigits at h
  cases hd : locatorSizeDigits isAnyHex t with
  | none => rw [hd] at h; cases h
  | some ds =>
    exact ⟨locator_no_byte isAnyHex bSpace (by decide) (by decide) (by decide) (by decide) t ds hd,
      locator_no_byte isAnyHex bNL (by decide) (by decide) (by decide) (by decide) t ds hd⟩

/-- segments as `segment()` produces them: Go locators of representable size, non-empty, inside
their block -/
structure SegOk (s : Seg) : Prop where
  loc : isGoLocator s.loc = true
  size : locSize s.loc < two63
  inside : s.off + s.len ≤ locSize s.loc
  pos : 0 < s.len

theorem pkgBlocks_go : ∀ (toks : List Bytes), (∀ t ∈ toks, isGoLocator t = true ∧ locSize t < two63) →
    pkgBlocks toks = some (toks.map fun t => ⟨t, locSize t⟩)
  | [], _ => rfl
  | t :: rest, h => by
    obtain ⟨h1, h2⟩ := h t (by simp)
    unfold isGoLocator at h1
    cases hd : goLocatorDigits t with
    | none => rw [hd] at h1; cases h1
    | some ds =>
      have hsz : locSize t = natOfDigits ds := by unfold locSize; rw [hd]
      simp only [pkgBlocks, hd, List.map_cons]
      rw [if_pos (by rw [← hsz]; exact h2), pkgBlocks_go rest (fun x hx => h x (List.mem_cons_of_mem _ hx))]
      simp [hsz]

/-! ## spans lie inside the stream -/

/-- each segment's stream interval ends inside the stream of length `total` -/
def SegsBelow (tbl : List (Bytes × Nat)) (total : Nat) (segs : List Seg) : Prop :=
  ∀ s ∈ segs, tblLookup tbl (digestKey s.loc) + s.off + s.len ≤ total

theorem normSpansS_inside (tbl : List (Bytes × Nat)) (total : Nat) :
    ∀ (segs : List Seg) (cur : Option (Nat × Nat)), SegsBelow tbl total segs →
      (∀ a b, cur = some (a, b) → a ≤ b ∧ b ≤ total) →
      ∀ p ∈ normSpansS tbl segs cur, p.1 + p.2 ≤ total
  | [], none, _, _, p, hp => by simp [normSpansS] at hp
  | [], some (a, b), _, hc, p, hp => by
    simp only [normSpansS, List.mem_singleton] at hp
    subst hp
    have := hc a b rfl
    simp only []; omega
  | s :: rest, none, hb, _, p, hp => by
    simp only [normSpansS] at hp
    have hs := hb s (by simp)
    exact normSpansS_inside tbl total rest _ (fun x hx => hb x (List.mem_cons_of_mem _ hx))
      (by intro a b h; cases h; omega) p hp
  | s :: rest, some (a, b), hb, hc, p, hp => by
    have hs := hb s (by simp)
    have hab := hc a b rfl
    simp only [normSpansS] at hp
    split at hp
    · rename_i hso
      exact normSpansS_inside tbl total rest _ (fun x hx => hb x (List.mem_cons_of_mem _ hx))
        (by intro a' b' h; cases h; omega) p hp
    · rcases List.mem_cons.mp hp with rfl | hp
      · simp only []; omega
      · exact normSpansS_inside tbl total rest _ (fun x hx => hb x (List.mem_cons_of_mem _ hx))
          (by intro a' b' h; cases h; omega) p hp

/-- after pass 1 every segment of the input lies inside the stream of the listed blocks -/
theorem normBlocks_below (blk : Bytes → Bytes) (all : List Seg) (hc : DigestConsistent blk all)
    (hpos : ∀ s ∈ all, 0 < s.len) :
    let r := normBlocks all [] [] 0
    r.2.2 = streamLen (r.2.1.map fun t => ⟨t, locSize t⟩) ∧
    (∀ t ∈ r.2.1, ∃ s ∈ all, s.loc = t) ∧
    SegsBelow r.1 r.2.2 all := by
  intro r
  obtain ⟨r1, r2, r3⟩ := normBlocks_placed blk all hc all [] [] 0 (fun _ h => h) rfl (by simp) (by simp)
  have hlen : (streamBytes blk (r.2.1.map fun t => ⟨t, locSize t⟩)).length =
      streamLen (r.2.1.map fun t => ⟨t, locSize t⟩) := by
    apply streamBytes_length
    intro b hb
    obtain ⟨t, ht, rfl⟩ := List.mem_map.mp hb
    obtain ⟨s, hs, rfl⟩ := r2 t ht
    exact hc.len s hs
  refine ⟨by rw [← hlen]; exact r1.symm, r2, ?_⟩
  intro s hs
  have h := r3 s hs (Or.inr hs)
  have hl : (slice (streamBytes blk (r.2.1.map fun t => ⟨t, locSize t⟩))
      (tblLookup r.1 (digestKey s.loc)) (locSize s.loc)).length = locSize s.loc := by
    rw [h, hc.len s hs]
  unfold slice at hl
  rw [List.length_take, List.length_drop, r1] at hl
  have h1 := hc.inside s hs
  have h2 := hpos s hs
  have e : r.2.2 = (normBlocks all [] [] 0).2.2 := rfl
  rw [e]
  omega

end ArvVerif.C10
