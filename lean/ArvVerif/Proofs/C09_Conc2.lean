/-
C09 — proofs about the goroutine protocol of a synchronous flush, part 2: the contextGroup's
bookkeeping (first error wins, who may be skipped, what `Wait` returns).
-/
import ArvVerif.Proofs.C09_Conc
namespace ArvVerif.C09.Conc

open ArvVerif.C09 (Outcome)

structure EInv (s : CS) : Prop where
  /-- `cg.err` belongs to a task that has finished with an error, and the context is cancelled -/
  errSome : ∀ (i : Nat), s.cgErr = some i → s.cancelled = true ∧ ∃ (o : Outcome) (c : Bool), s.pcs[i]? = some (PC.finished o c) ∧ o ≠ Outcome.ok
  /-- as long as `cg.err` is nil every task that has finished returned nil -/
  errNone : s.cgErr = none → ∀ (j : Nat) (o : Outcome) (c : Bool), s.pcs[j]? = some (PC.finished o c) → o = Outcome.ok
  /-- a task skips its write only after the context was cancelled; it never made a channel -/
  skipC : ∀ (j : Nat) (c : Bool), (s.pcs[j]? = some (PC.returned Outcome.skip c) ∨ s.pcs[j]? = some (PC.finished Outcome.skip c)) →
    c = true ∧ s.cancelled = true
  /-- `Go` drops a func only when an error was already recorded -/
  dropC : ∀ (j : Nat), s.pcs[j]? = some PC.dropped → s.cgErr.isSome = true
  /-- the context is cancelled only by the parent or after a failed Keep write of this flush -/
  why : s.cancelled = true → s.ext = true ∨ ∃ (j : Nat) (c : Bool), s.pcs[j]? = some (PC.finished Outcome.fail c)
  /-- a cancelled parent context cancels the group's context -/
  extC : s.ext = true → s.cancelled = true

theorem EInv.init (n bg : Nat) (script : List Bool) (dflt : Bool) : EInv (init n bg script dflt) := by
  have hrep : ∀ (j : Nat) (p : PC), (List.replicate n PC.idle)[j]? = some p → p = PC.idle := by
    intro j p h
    have := List.mem_of_getElem? h
    exact (List.mem_replicate.mp this).2
  refine ⟨?_, ?_, ?_, ?_, ?_, ?_⟩
  · intro i h; cases h
  · intro _ j o c h; cases hrep j _ h
  · intro j c h; rcases h with h | h <;> cases hrep j _ h
  · intro j h; cases hrep j _ h
  · intro h; cases h
  · intro h; cases h

/-- a step that rewrites one task `p ↦ q` and leaves `cg.err`, the context and the ghost flag alone -/
theorem einv_set {s u : CS} {i : Nat} {p q : PC} (hs : EInv s) (hp : s.pcs[i]? = some p)
    (hpcs : u.pcs = s.pcs.set i q) (he : u.cgErr = s.cgErr) (hc : u.cancelled = s.cancelled) (hx : u.ext = s.ext)
    (c1 : ∀ o c, p = PC.finished o c → ∃ c', q = PC.finished o c')
    (c2 : ∀ o c, q = PC.finished o c → s.cgErr = none → o = Outcome.ok)
    (c3 : ∀ c, (q = PC.returned Outcome.skip c ∨ q = PC.finished Outcome.skip c) → c = true ∧ s.cancelled = true)
    (c4 : q = PC.dropped → s.cgErr.isSome = true) : EInv u := by
  have hget : ∀ j, u.pcs[j]? = if j = i then some q else s.pcs[j]? := by
    intro j; rw [hpcs]; exact getElem?_set' hp q j
  refine ⟨?_, ?_, ?_, ?_, ?_, by rw [hx, hc]; exact hs.extC⟩
  · intro k hk
    rw [he] at hk
    obtain ⟨h1, o, c, h2, h3⟩ := hs.errSome k hk
    refine ⟨by rw [hc]; exact h1, ?_⟩
    rw [hget]
    by_cases hki : k = i
    · subst hki
      rw [hp] at h2
      obtain ⟨c', hq⟩ := c1 o c (Option.some.inj h2)
      exact ⟨o, c', by simp [hq], h3⟩
    · exact ⟨o, c, by simp [hki, h2], h3⟩
  · intro hn j o c hj
    rw [he] at hn
    rw [hget] at hj
    by_cases hji : j = i
    · simp only [hji, if_true, Option.some.injEq] at hj
      exact c2 o c hj hn
    · simp only [hji, if_false] at hj
      exact hs.errNone hn j o c hj
  · intro j c hj
    rw [hget] at hj
    rw [hc]
    by_cases hji : j = i
    · simp only [hji, if_true, Option.some.injEq] at hj
      exact c3 c hj
    · simp only [hji, if_false] at hj
      exact hs.skipC j c hj
  · intro j hj
    rw [hget] at hj
    rw [he]
    by_cases hji : j = i
    · simp only [hji, if_true, Option.some.injEq] at hj
      exact c4 hj
    · simp only [hji, if_false] at hj
      exact hs.dropC j hj
  · intro hcu
    rw [hc] at hcu
    rw [hx]
    rcases hs.why hcu with h | ⟨j, c, hj⟩
    · exact Or.inl h
    · right
      by_cases hji : j = i
      · subst hji
        rw [hp] at hj
        obtain ⟨c', hq⟩ := c1 _ c (Option.some.inj hj)
        exact ⟨j, c', by rw [hget]; simp [hq]⟩
      · exact ⟨j, c, by rw [hget]; simp [hji, hj]⟩

theorem step_einv {cap : Nat} {s u : CS} {a : Act} (hs : EInv s) (h : step cap s a = some u) : EInv u := by
  cases a with
  | spawn i =>
    simp only [step] at h
    split at h
    · next hp =>
      cases h
      refine einv_set hs hp rfl rfl rfl rfl ?_ ?_ ?_ ?_
      · intro o c h; cases h
      · intro o c h; split at h <;> cases h
      · intro c h; rcases h with h | h <;> split at h <;> cases h
      · intro h; split at h
        · assumption
        · cases h
    · cases h
  | check i =>
    simp only [step] at h
    split at h
    · next hp =>
      cases h
      refine einv_set hs hp rfl rfl rfl rfl ?_ ?_ ?_ ?_
      · intro o c h; cases h
      · intro o c h; split at h <;> cases h
      · intro c h
        rcases h with h | h
        · split at h
          · next hc => cases h; exact ⟨rfl, hc⟩
          · cases h
        · split at h <;> cases h
      · intro h; split at h <;> cases h
    · cases h
  | acquire i =>
    simp only [step] at h
    split at h
    · next hp =>
      split at h
      · cases h
        refine einv_set hs hp rfl rfl rfl rfl ?_ ?_ ?_ ?_
        · intro o c h; cases h
        · intro o c h; cases h
        · intro c h; rcases h with h | h <;> cases h
        · intro h; cases h
      · cases h
    · cases h
  | putb i =>
    simp only [step] at h
    split at h
    · next hp =>
      cases h
      refine einv_set hs hp rfl rfl rfl rfl ?_ ?_ ?_ ?_
      · intro o c h; cases h
      · intro o c h; cases h
      · intro c h; rcases h with h | h <;> cases h
      · intro h; cases h
    · cases h
  | release i =>
    simp only [step] at h
    split at h
    · next b hp =>
      cases h
      refine einv_set hs hp rfl rfl rfl rfl ?_ ?_ ?_ ?_
      · intro o c h; cases h
      · intro o c h; cases h
      · intro c h; rcases h with h | h <;> cases h
      · intro h; cases h
    · cases h
  | ret i =>
    simp only [step] at h
    split at h
    · next b hp =>
      cases h
      refine einv_set hs hp rfl rfl rfl rfl ?_ ?_ ?_ ?_
      · intro o c h; cases h
      · intro o c h; cases h
      · intro c h
        rcases h with h | h
        · cases b <;> simp [outcomeOf] at h
        · cases h
      · intro h; cases h
    · cases h
  | closeDone i =>
    simp only [step] at h
    split at h
    · next o hp =>
      cases h
      refine einv_set hs hp rfl rfl rfl rfl ?_ ?_ ?_ ?_
      · intro o' c h; cases h
      · intro o' c h; cases h
      · intro c h
        rcases h with h | h
        · cases h
          exact ⟨rfl, (hs.skipC i false (Or.inl hp)).2⟩
        · cases h
      · intro h; cases h
    · next o hp =>
      cases h
      refine einv_set hs hp rfl rfl rfl rfl ?_ ?_ ?_ ?_
      · intro o' c h; cases h; exact ⟨true, rfl⟩
      · intro o' c h hn; cases h; exact hs.errNone hn i _ _ hp
      · intro c h
        rcases h with h | h
        · cases h
        · cases h
          exact ⟨rfl, (hs.skipC i false (Or.inr hp)).2⟩
      · intro h; cases h
    · cases h
  | finish i =>
    simp only [step] at h
    split at h
    · next o c hp =>
      split at h
      · next hcond =>
        cases h
        have hget : ∀ j, (s.pcs.set i (PC.finished o c))[j]? = if j = i then some (PC.finished o c) else s.pcs[j]? :=
          fun j => getElem?_set' hp _ j
        refine ⟨?_, ?_, ?_, ?_, ?_, fun _ => rfl⟩
        · intro k hk
          simp only [CS.setPc, Option.some.injEq] at hk
          subst hk
          exact ⟨rfl, o, c, by simp only [CS.setPc]; rw [hget]; simp, hcond.1⟩
        · intro hn; simp [CS.setPc] at hn
        · intro j c' hj
          simp only [CS.setPc] at hj ⊢
          rw [hget] at hj
          refine ⟨?_, trivial⟩
          by_cases hji : j = i
          · simp only [hji, if_true, Option.some.injEq] at hj
            rcases hj with hj | hj
            · cases hj
            · cases hj
              exact (hs.skipC i _ (Or.inl hp)).1
          · simp only [hji, if_false] at hj
            exact (hs.skipC j c' hj).1
        · intro j _; simp [CS.setPc]
        · intro _
          simp only [CS.setPc]
          cases o with
          | ok => exact absurd rfl hcond.1
          | fail => exact Or.inr ⟨i, c, by rw [hget]; simp⟩
          | skip =>
            have hc := (hs.skipC i c (Or.inl hp)).2
            rcases hs.why hc with h | ⟨j, c', hj⟩
            · exact Or.inl h
            · refine Or.inr ⟨j, c', ?_⟩
              rw [hget]
              have hji : j ≠ i := by
                intro e; subst e; rw [hp] at hj; cases hj
              simp [hji, hj]
      · next hcond =>
        cases h
        refine einv_set hs hp rfl rfl rfl rfl ?_ ?_ ?_ ?_
        · intro o' c' h; cases h
        · intro o' c' h hn
          cases h
          cases ho : o with
          | ok => rfl
          | _ => exact absurd ⟨by simp [ho], hn⟩ hcond
        · intro c' h
          rcases h with h | h
          · cases h
          · cases h
            exact hs.skipC i _ (Or.inl hp)
        · intro h; cases h
    · cases h
  | bgRelease =>
    simp only [step] at h
    split at h
    · cases h; exact ⟨hs.errSome, hs.errNone, hs.skipC, hs.dropC, hs.why, hs.extC⟩
    · cases h
  | extCancel =>
    simp only [step] at h
    split at h
    · cases h
    · cases h
      refine ⟨?_, hs.errNone, ?_, hs.dropC, fun _ => Or.inl rfl, fun _ => rfl⟩
      · intro k hk
        exact ⟨rfl, (hs.errSome k hk).2⟩
      · intro j c hj
        exact ⟨(hs.skipC j c hj).1, rfl⟩

theorem reach_einv {cap : Nat} {s u : CS} (hs : EInv s) (h : Reach cap s u) : EInv u := by
  induction h with
  | refl => exact hs
  | tail a _ hst ih => exact step_einv ih hst

/-- once recorded, `cg.err` never changes: the first error wins -/
theorem step_cgErr {cap : Nat} {s u : CS} {a : Act} {i : Nat} (h : step cap s a = some u) (he : s.cgErr = some i) :
    u.cgErr = some i := by
  cases a with
  | finish j =>
    simp only [step] at h
    split at h
    · split at h
      · next hcond => rw [hcond.2] at he; cases he
      · cases h; exact he
    · cases h
  | closeDone j => simp only [step] at h; split at h <;> cases h <;> exact he
  | bgRelease => simp only [step] at h; split at h <;> cases h; exact he
  | extCancel => simp only [step] at h; split at h <;> cases h; exact he
  | acquire j =>
    simp only [step] at h
    split at h
    · split at h <;> cases h; exact he
    · cases h
  | spawn j => simp only [step] at h; split at h <;> cases h; exact he
  | check j => simp only [step] at h; split at h <;> cases h; exact he
  | putb j => simp only [step] at h; split at h <;> cases h; exact he
  | release j => simp only [step] at h; split at h <;> cases h; exact he
  | ret j => simp only [step] at h; split at h <;> cases h; exact he

theorem reach_cgErr {cap : Nat} {s u : CS} {i : Nat} (h : Reach cap s u) (he : s.cgErr = some i) : u.cgErr = some i := by
  induction h with
  | refl => exact he
  | tail a _ hst ih => exact step_cgErr hst ih

/-! ## what `Wait` returns -/

theorem all_done_get {l : List PC} (h : l.all PC.done = true) {j : Nat} {p : PC} (hj : l[j]? = some p) : p.done = true :=
  List.all_eq_true.mp h p (List.mem_of_getElem? hj)

theorem allOutsOk_iff (l : List PC) (hdone : l.all PC.done = true) :
    (∀ o ∈ l.map PC.out, o = Outcome.ok) ↔ ∀ (j : Nat) (p : PC), l[j]? = some p → ∃ c, p = PC.finished Outcome.ok c := by
  constructor
  · intro h j p hj
    have hd := all_done_get hdone hj
    have hm : p.out ∈ l.map PC.out := List.mem_map.mpr ⟨p, List.mem_of_getElem? hj, rfl⟩
    have := h _ hm
    cases p <;> simp [PC.done] at hd
    · simp [PC.out] at this
    · next o c => simp only [PC.out] at this; subst this; exact ⟨c, rfl⟩
  · intro h o ho
    obtain ⟨p, hp, rfl⟩ := List.mem_map.mp ho
    obtain ⟨j, hj⟩ := List.getElem?_of_mem hp
    obtain ⟨c, rfl⟩ := h j p hj
    rfl

theorem step_len {cap : Nat} {s u : CS} {a : Act} (h : step cap s a = some u) : u.pcs.length = s.pcs.length := by
  cases a with
  | finish j =>
    simp only [step] at h
    split at h
    · split at h <;> cases h <;> simp [CS.setPc]
    · cases h
  | closeDone j => simp only [step] at h; split at h <;> cases h <;> simp [CS.setPc]
  | bgRelease => simp only [step] at h; split at h <;> cases h; rfl
  | extCancel => simp only [step] at h; split at h <;> cases h; rfl
  | acquire j =>
    simp only [step] at h
    split at h
    · split at h <;> cases h; simp [CS.setPc]
    · cases h
  | spawn j => simp only [step] at h; split at h <;> cases h; simp [CS.setPc]
  | check j => simp only [step] at h; split at h <;> cases h; simp [CS.setPc]
  | putb j => simp only [step] at h; split at h <;> cases h; simp [CS.setPc]
  | release j => simp only [step] at h; split at h <;> cases h; simp [CS.setPc]
  | ret j => simp only [step] at h; split at h <;> cases h; simp [CS.setPc]

theorem reach_len {cap : Nat} {s u : CS} (h : Reach cap s u) : u.pcs.length = s.pcs.length := by
  induction h with
  | refl => rfl
  | tail a _ hst ih => rw [step_len hst, ih]

theorem nHold_of_done : ∀ (l : List PC), l.all PC.done = true → nHold l = 0
  | [], _ => rfl
  | a :: l, h => by
    simp only [List.all_cons, Bool.and_eq_true] at h
    have := nHold_of_done l h.2
    have ha : a.holding = false := by cases a <;> simp [PC.done] at h <;> rfl
    simp only [nHold, sumF, List.map_cons, List.sum_cons, ha] at this ⊢
    simpa using this

theorem done_of_quiet : ∀ (l : List PC), l.all PC.quiet = true → l.all PC.done = true
  | [], _ => rfl
  | a :: l, h => by
    simp only [List.all_cons, Bool.and_eq_true] at h ⊢
    refine ⟨?_, done_of_quiet l h.2⟩
    cases a <;> simp [PC.quiet] at h <;> rfl

theorem chanClosed_of_quiet {l : List PC} (h : l.all PC.quiet = true) : ∀ p ∈ l, p.chanOpen = false := by
  intro p hp
  have := List.all_eq_true.mp h p hp
  cases p with
  | finished o c => cases c with
    | true => rfl
    | false => simp [PC.quiet] at this
  | dropped => rfl
  | _ => simp [PC.quiet] at this

end ArvVerif.C09.Conc
