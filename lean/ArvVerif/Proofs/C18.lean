/-
Helper lemmas for C18: split/join, replaceSig, PortableDataHash invariance, the receive loop.
-/
import ArvVerif.Model.C18
namespace ArvVerif.C18

/-! ### splitOn / joinWith -/

theorem splitOn_ne_nil (sep : Char) (s : Str) : splitOn sep s ≠ [] := by
  induction s with
  | nil => simp [splitOn]
  | cons c cs ih =>
    simp only [splitOn]
    split
    · simp
    · split <;> simp

theorem splitOn_cons_sep (sep : Char) (cs : Str) : splitOn sep (sep :: cs) = [] :: splitOn sep cs := by
  simp [splitOn]

theorem splitOn_cons_ne (sep c : Char) (cs : Str) (h : c ≠ sep) :
    ∃ t ts, splitOn sep cs = t :: ts ∧ splitOn sep (c :: cs) = (c :: t) :: ts := by
  cases hs : splitOn sep cs with
  | nil => exact absurd hs (splitOn_ne_nil sep cs)
  | cons t ts => exact ⟨t, ts, rfl, by simp [splitOn, h, hs]⟩

theorem joinWith_cons_cons (sep : Char) (t u : Str) (ts : List Str) :
    joinWith sep (t :: u :: ts) = t ++ sep :: joinWith sep (u :: ts) := rfl

theorem joinWith_cons_head (sep c : Char) (t : Str) (ts : List Str) :
    joinWith sep ((c :: t) :: ts) = c :: joinWith sep (t :: ts) := by
  cases ts <;> simp [joinWith]

theorem joinWith_append_head (sep : Char) (a t : Str) (ts : List Str) :
    joinWith sep ((a ++ t) :: ts) = a ++ joinWith sep (t :: ts) := by
  cases ts <;> simp [joinWith]

theorem joinWith_nil_head (sep : Char) (ts : List Str) (h : ts ≠ []) :
    joinWith sep ([] :: ts) = sep :: joinWith sep ts := by
  cases ts with
  | nil => exact absurd rfl h
  | cons u us => simp [joinWith]

/-- `strings.Join(strings.Split(s, sep), sep) == s` -/
theorem joinWith_splitOn (sep : Char) (s : Str) : joinWith sep (splitOn sep s) = s := by
  induction s with
  | nil => simp [splitOn, joinWith]
  | cons c cs ih =>
    by_cases h : c = sep
    · subst h
      rw [splitOn_cons_sep, joinWith_nil_head _ _ (splitOn_ne_nil _ _), ih]
    · obtain ⟨t, ts, h1, h2⟩ := splitOn_cons_ne sep c cs h
      rw [h2, joinWith_cons_head, ← h1, ih]

/-- no token contains the separator -/
theorem not_mem_of_mem_splitOn (sep : Char) (s : Str) : ∀ t ∈ splitOn sep s, sep ∉ t := by
  induction s with
  | nil => intro t ht; simp [splitOn] at ht; subst ht; simp
  | cons c cs ih =>
    by_cases h : c = sep
    · subst h
      rw [splitOn_cons_sep]
      intro t ht
      rcases List.mem_cons.mp ht with rfl | ht
      · simp
      · exact ih t ht
    · obtain ⟨t0, ts, h1, h2⟩ := splitOn_cons_ne sep c cs h
      rw [h2]
      intro t ht
      rcases List.mem_cons.mp ht with rfl | ht
      · have := ih t0 (by rw [h1]; simp)
        simp only [List.mem_cons, not_or]
        exact ⟨fun e => h e.symm, this⟩
      · exact ih t (by rw [h1]; exact List.mem_cons_of_mem _ ht)

/-- splitting a join of separator-free tokens gives the tokens back -/
theorem splitOn_joinWith (sep : Char) (ts : List Str) (hne : ts ≠ []) (h : ∀ t ∈ ts, sep ∉ t) :
    splitOn sep (joinWith sep ts) = ts := by
  induction ts with
  | nil => exact absurd rfl hne
  | cons t rest ih =>
    have ht : sep ∉ t := h t (by simp)
    induction t with
    | nil =>
      cases rest with
      | nil => simp [joinWith, splitOn]
      | cons u us =>
        rw [joinWith_nil_head _ _ (by simp), splitOn_cons_sep,
          ih (by simp) (fun x hx => h x (List.mem_cons_of_mem _ hx))]
    | cons c t iht =>
      have hc : c ≠ sep := fun e => ht (by simp [e])
      have ht' : sep ∉ t := fun e => ht (List.mem_cons_of_mem _ e)
      rw [joinWith_cons_head]
      have := iht (by simp) (by
        intro x hx
        rcases List.mem_cons.mp hx with rfl | hx
        · exact ht'
        · exact h x (List.mem_cons_of_mem _ hx)) ht'
      obtain ⟨t0, ts0, h1, h2⟩ := splitOn_cons_ne sep c (joinWith sep (t :: rest)) hc
      rw [h2]
      rw [this] at h1
      injection h1 with e1 e2
      rw [e1, e2]

theorem mapTail_ne_nil {α : Type} (f : α → α) (l : List α) (h : l ≠ []) : mapTail f l ≠ [] := by
  cases l <;> simp_all [mapTail]

theorem mapTail_length {α : Type} (f : α → α) (l : List α) : (mapTail f l).length = l.length := by
  cases l <;> simp [mapTail]

theorem mapTail_getElem? {α : Type} (f : α → α) (l : List α) (i : Nat) :
    (mapTail f l)[i]? = if i = 0 then l[i]? else l[i]?.map f := by
  cases l with
  | nil => simp [mapTail]
  | cons a as =>
    cases i with
    | zero => simp [mapTail]
    | succ n => simp [mapTail]

theorem mem_mapTail {α : Type} (f : α → α) (l : List α) (x : α) (hx : x ∈ mapTail f l) :
    x ∈ l.head? ∨ ∃ y ∈ l.tail, x = f y := by
  cases l with
  | nil => simp [mapTail] at hx
  | cons a as =>
    simp only [mapTail, List.mem_cons, List.mem_map] at hx
    rcases hx with rfl | ⟨y, hy, rfl⟩
    · left; simp
    · right; exact ⟨y, hy, rfl⟩

/-! ### replaceSig -/

/-- what happens to one `+`-separated hint -/
def specHint (id : Str) : Str → Str
  | [] => []
  | c :: r => if c = 'A' then 'R' :: (id ++ '-' :: r) else c :: r

theorem specHint_of_head_ne (id : Str) (h : Str) (hh : h.head? ≠ some 'A') : specHint id h = h := by
  cases h with
  | nil => rfl
  | cons c r =>
    simp only [List.head?_cons, ne_eq, Option.some.injEq] at hh
    simp [specHint, hh]

theorem head_splitOn_cons (sep d : Char) (rest : Str) :
    (splitOn sep (d :: rest)).head? = some (if d = sep then [] else d :: ((splitOn sep rest).headD [])) := by
  by_cases h : d = sep
  · subst h; simp [splitOn_cons_sep]
  · obtain ⟨t, ts, h1, h2⟩ := splitOn_cons_ne sep d rest h
    simp [h2, h1, h]

/-- `strings.Replace(tok, "+A", "+R<id>-", -1)` acts hint by hint: the part before the first `+`
and every hint that does not begin with `A` are untouched, a hint `A…` becomes `R<id>-…`. -/
theorem replaceSig_eq_hints (id t : Str) :
    replaceSig id t = joinWith '+' (mapTail (specHint id) (splitOn '+' t)) := by
  fun_induction replaceSig id t with
  | case1 => simp [splitOn, mapTail, joinWith]
  | case2 c =>
    by_cases h : c = '+'
    · subst h; simp [splitOn, mapTail, joinWith, specHint]
    · simp [splitOn, h, mapTail, joinWith]
  | case3 c d rest hcd ih =>
    obtain ⟨rfl, rfl⟩ := hcd
    rw [splitOn_cons_sep]
    obtain ⟨q0, qs, h1, h2⟩ := splitOn_cons_ne '+' 'A' rest (by decide)
    rw [h2]
    rw [h1] at ih
    simp only [mapTail, List.map_cons] at ih ⊢
    rw [joinWith_nil_head _ _ (by simp)]
    have : specHint id ('A' :: q0) = ('R' :: (id ++ ['-'])) ++ q0 := by simp [specHint]
    rw [this, joinWith_append_head, ← ih]
    simp
  | case4 c d rest hcd ih =>
    by_cases hc : c = '+'
    · subst hc
      have hd : d ≠ 'A' := fun e => hcd ⟨rfl, e⟩
      rw [splitOn_cons_sep]
      cases hs : splitOn '+' (d :: rest) with
      | nil => exact absurd hs (splitOn_ne_nil _ _)
      | cons r0 rs =>
        rw [hs] at ih
        have hr0 : specHint id r0 = r0 := by
          apply specHint_of_head_ne
          have := head_splitOn_cons '+' d rest
          rw [hs] at this
          simp only [List.head?_cons, Option.some.injEq] at this
          rw [this]
          split
          · simp
          · simp [hd]
        simp only [mapTail, List.map_cons, hr0] at ih ⊢
        rw [joinWith_nil_head _ _ (by simp), ih]
    · obtain ⟨r0, rs, h1, h2⟩ := splitOn_cons_ne '+' c (d :: rest) hc
      rw [h2]
      rw [h1] at ih
      simp only [mapTail] at ih ⊢
      rw [joinWith_cons_head, ih]

theorem replaceSig_cons_ne (id : Str) (c : Char) (tl : Str) (h : c ≠ '+') :
    replaceSig id (c :: tl) = c :: replaceSig id tl := by
  cases tl with
  | nil => simp [replaceSig]
  | cons d rest => simp [replaceSig, h]

theorem replaceSig_plus_ne (id : Str) (d : Char) (tl : Str) (h : d ≠ 'A') :
    replaceSig id ('+' :: d :: tl) = '+' :: replaceSig id (d :: tl) := by
  simp [replaceSig, h]

theorem replaceSig_append_noPlus (id p r : Str) (h : '+' ∉ p) :
    replaceSig id (p ++ r) = p ++ replaceSig id r := by
  induction p with
  | nil => rfl
  | cons c p ih =>
    have hc : c ≠ '+' := fun e => h (by simp [e])
    rw [List.cons_append, replaceSig_cons_ne _ _ _ hc, ih (fun e => h (List.mem_cons_of_mem _ e))]
    rfl

theorem replaceSig_head (id r : Str) : (replaceSig id r).head? = r.head? := by
  fun_induction replaceSig id r <;> simp_all

theorem replaceSig_mem (id t : Str) (x : Char) (hx : x ∈ replaceSig id t) :
    x ∈ t ∨ x ∈ id ∨ x = 'R' ∨ x = '-' := by
  fun_induction replaceSig id t with
  | case1 => simp at hx
  | case2 c => left; simpa using hx
  | case3 c d rest hcd ih =>
    simp only [List.mem_cons, List.mem_append] at hx
    rcases hx with h | h | h | h | h
    · left; simp [h, hcd.1]
    · right; right; left; exact h
    · right; left; exact h
    · right; right; right; exact h
    · rcases ih h with h | h
      · left; simp [h]
      · right; exact h
  | case4 c d rest hcd ih =>
    simp only [List.mem_cons] at hx
    rcases hx with h | h
    · left; simp [h]
    · rcases ih h with h | h
      · left; exact List.mem_cons_of_mem _ h
      · right; exact h

theorem mem_linePart (t : Str) (x : Char) (h : x ∈ linePart t) : x ∈ t :=
  (List.takeWhile_sublist _).subset h

theorem mem_restPart (t : Str) (x : Char) (h : x ∈ restPart t) : x ∈ t :=
  (List.dropWhile_sublist _).subset h

theorem linePart_append_restPart (t : Str) : linePart t ++ restPart t = t :=
  List.takeWhile_append_dropWhile

theorem rewriteTok_no_space (id t : Str) (hid : ' ' ∉ id) (ht : ' ' ∉ t) : ' ' ∉ rewriteTok id t := by
  unfold rewriteTok
  split
  · intro h
    rcases List.mem_append.mp h with h | h
    · rcases replaceSig_mem id _ ' ' h with h | h | h | h
      · exact ht (mem_linePart t _ h)
      · exact hid h
      · exact absurd h (by decide)
      · exact absurd h (by decide)
    · exact ht (mem_restPart t _ h)
  · exact ht

/-- The relayed text has the same space-delimited token structure: token `i` of the output is
`rewriteTok` of token `i` of the input (first token untouched). -/
theorem rewriteManifest_tokens (mt id : Str) (hid : ' ' ∉ id) :
    splitOn ' ' (rewriteManifest mt id) = mapTail (rewriteTok id) (splitOn ' ' mt) := by
  unfold rewriteManifest
  apply splitOn_joinWith
  · exact mapTail_ne_nil _ _ (splitOn_ne_nil _ _)
  · intro t ht
    rcases mem_mapTail _ _ _ ht with h | ⟨y, hy, rfl⟩
    · exact not_mem_of_mem_splitOn ' ' mt t (List.mem_of_mem_head? h)
    · exact rewriteTok_no_space id y hid (not_mem_of_mem_splitOn ' ' mt y (List.mem_of_mem_tail hy))

/-! ### PortableDataHash -/

theorem isLowerHex_ne_plus (c : Char) (h : isLowerHex c = true) : c ≠ '+' := by
  intro e; subst e; revert h; decide

theorem isDigit_ne_plus (c : Char) (h : isDigit c = true) : c ≠ '+' := by
  intro e; subst e; revert h; decide

theorem isDigit_ne_A (c : Char) (h : isDigit c = true) : c ≠ 'A' := by
  intro e; subst e; revert h; decide

theorem locPrefix_shape (t : Str) (h : locPrefix t = true) :
    ∃ hx rest, t = hx ++ '+' :: rest ∧ hx.length = 32 ∧ hx.all isLowerHex = true := by
  simp only [locPrefix, Bool.and_eq_true, beq_iff_eq] at h
  obtain ⟨⟨h1, h2⟩, h3⟩ := h
  refine ⟨t.take 32, (t.drop 32).tail, ?_, h1, h2⟩
  have : t.drop 32 = '+' :: (t.drop 32).tail := by
    cases hd : t.drop 32 with
    | nil => rw [hd] at h3; simp at h3
    | cons c r => rw [hd] at h3; simp at h3; simp [h3]
  rw [← this, List.take_append_drop]

theorem locPrefix_of_shape (hx rest : Str) (h1 : hx.length = 32) (h2 : hx.all isLowerHex = true) :
    locPrefix (hx ++ '+' :: rest) = true := by
  simp only [locPrefix, Bool.and_eq_true, beq_iff_eq]
  have ht : (hx ++ '+' :: rest).take 32 = hx := by
    rw [List.take_append_of_le_length (by omega), List.take_of_length_le (by omega)]
  have hd : (hx ++ '+' :: rest).drop 32 = '+' :: rest := by
    rw [← h1]; simp
  rw [ht, hd]
  exact ⟨⟨h1, h2⟩, rfl⟩

theorem sizedLen_of_shape (hx rest : Str) (h1 : hx.length = 32) (h2 : hx.all isLowerHex = true) :
    sizedLen (hx ++ '+' :: rest) =
      if (rest.takeWhile isDigit).length = 0 then none else some (33 + (rest.takeWhile isDigit).length) := by
  have hd : (hx ++ '+' :: rest).drop 33 = rest := by
    have : (hx ++ '+' :: rest) = (hx ++ ['+']) ++ rest := by simp
    rw [this, List.drop_left' (by simp [h1])]
  simp only [sizedLen, locPrefix_of_shape hx rest h1 h2, if_true, hd]

theorem stripTok_of_shape (hx rest : Str) (h1 : hx.length = 32) (h2 : hx.all isLowerHex = true)
    (hd : rest.takeWhile isDigit ≠ []) :
    stripTok (hx ++ '+' :: rest) = hx ++ '+' :: rest.takeWhile isDigit := by
  have hl : (rest.takeWhile isDigit).length ≠ 0 := by
    intro e; exact hd (List.length_eq_zero_iff.mp e)
  simp only [stripTok, sizedLen_of_shape hx rest h1 h2, if_neg hl]
  have : (hx ++ '+' :: rest) = (hx ++ '+' :: rest.takeWhile isDigit) ++ rest.dropWhile isDigit := by
    simp [List.takeWhile_append_dropWhile]
  rw [this, List.take_left' (by simp [h1]; omega)]

theorem takeWhile_digits_append (ds r : Str) (h1 : ∀ c ∈ ds, isDigit c = true)
    (h2 : ∀ c, r.head? = some c → isDigit c = false) :
    (ds ++ r).takeWhile isDigit = ds := by
  induction ds with
  | nil =>
    cases r with
    | nil => rfl
    | cons c r => simp [h2 c (by simp)]
  | cons d ds ih =>
    simp only [List.cons_append, List.takeWhile_cons, h1 d (by simp), if_true]
    rw [ih (fun c hc => h1 c (List.mem_cons_of_mem _ hc))]

theorem notNL_of_isLowerHex (c : Char) (h : isLowerHex c = true) : notNL c = true := by
  have : c ≠ '\n' := by intro e; subst e; revert h; decide
  simp [notNL, this]

theorem notNL_of_isDigit (c : Char) (h : isDigit c = true) : notNL c = true := by
  have : c ≠ '\n' := by intro e; subst e; revert h; decide
  simp [notNL, this]

theorem takeWhile_append_of_all {p : Char → Bool} (a b : Str) (h : ∀ c ∈ a, p c = true) :
    (a ++ b).takeWhile p = a ++ b.takeWhile p := by
  induction a with
  | nil => rfl
  | cons c a ih =>
    simp only [List.cons_append, List.takeWhile_cons, h c (by simp), if_true]
    rw [ih (fun x hx => h x (List.mem_cons_of_mem _ hx))]

theorem dropWhile_append_of_all {p : Char → Bool} (a b : Str) (h : ∀ c ∈ a, p c = true) :
    (a ++ b).dropWhile p = b.dropWhile p := by
  induction a with
  | nil => rfl
  | cons c a ih =>
    simp only [List.cons_append, List.dropWhile_cons, h c (by simp), if_true]
    exact ih (fun x hx => h x (List.mem_cons_of_mem _ hx))

theorem dropWhile_dropWhile (p : Char → Bool) (l : Str) : (l.dropWhile p).dropWhile p = l.dropWhile p := by
  induction l with
  | nil => rfl
  | cons c l ih =>
    by_cases h : p c = true
    · simp only [List.dropWhile_cons, h, if_true]; exact ih
    · simp only [List.dropWhile_cons, h]; simp [h]

/-- cutting a sized block token down to hash+size gives the same result before and after the
signature rewrite (which touches only the part of the token before its first newline) -/
theorem stripTok_rewriteTok (id t : Str) (hs : sizedLen t ≠ none) :
    stripTok (rewriteTok id t) = stripTok t := by
  have hl : locPrefix t = true := by
    unfold sizedLen at hs
    split at hs
    · assumption
    · exact absurd rfl hs
  obtain ⟨hx, rest, rfl, h1, h2⟩ := locPrefix_shape t hl
  rw [sizedLen_of_shape hx rest h1 h2] at hs
  have hd : rest.takeWhile isDigit ≠ [] := by
    intro e; rw [e] at hs; simp at hs
  have hnp : '+' ∉ hx := by
    intro hm
    exact isLowerHex_ne_plus '+' (List.all_eq_true.mp h2 _ hm) rfl
  have hxnl : ∀ c ∈ hx, notNL c = true := fun c hc => notNL_of_isLowerHex c (List.all_eq_true.mp h2 c hc)
  simp only [rewriteTok, hl, if_true]
  rw [stripTok_of_shape hx rest h1 h2 hd]
  have hsplit : rest = rest.takeWhile isDigit ++ rest.dropWhile isDigit :=
    (List.takeWhile_append_dropWhile).symm
  generalize hds : rest.takeWhile isDigit = ds at hd hsplit
  generalize hr : rest.dropWhile isDigit = r at hsplit
  have hdig : ∀ c ∈ ds, isDigit c = true := by
    intro c hc; rw [← hds] at hc; exact List.all_eq_true.mp List.all_takeWhile c hc
  have hrh : ∀ c, r.head? = some c → isDigit c = false := by
    intro c hc
    rw [← hr] at hc
    have := List.head?_dropWhile_not isDigit rest
    rw [hc] at this
    simpa using this
  cases ds with
  | nil => exact absurd rfl hd
  | cons d0 ds' =>
    have hd0 : isDigit d0 = true := hdig d0 (by simp)
    have hnp2 : '+' ∉ (d0 :: ds') := by
      intro hm; exact isDigit_ne_plus '+' (hdig _ hm) rfl
    have hdsnl : ∀ c ∈ (d0 :: ds'), notNL c = true := fun c hc => notNL_of_isDigit c (hdig c hc)
    -- shape of the line part and of the rest part
    have hpre : ∀ c ∈ hx ++ '+' :: (d0 :: ds'), notNL c = true := by
      intro c hc
      rcases List.mem_append.mp hc with h | h
      · exact hxnl c h
      · rcases List.mem_cons.mp h with rfl | h
        · decide
        · exact hdsnl c h
    have hwhole : hx ++ '+' :: rest = (hx ++ '+' :: (d0 :: ds')) ++ r := by
      rw [hsplit]; simp
    have hline : linePart (hx ++ '+' :: rest) = hx ++ '+' :: ((d0 :: ds') ++ linePart r) := by
      unfold linePart
      rw [hwhole, takeWhile_append_of_all _ _ hpre]; simp
    have hrest : restPart (hx ++ '+' :: rest) = restPart r := by
      unfold restPart
      rw [hwhole, dropWhile_append_of_all _ _ hpre]
    rw [hline, hrest, replaceSig_append_noPlus _ _ _ hnp]
    have hrs : replaceSig id ('+' :: ((d0 :: ds') ++ linePart r)) = '+' :: ((d0 :: ds') ++ replaceSig id (linePart r)) := by
      rw [List.cons_append, replaceSig_plus_ne _ _ _ (isDigit_ne_A d0 hd0)]
      rw [← List.cons_append, replaceSig_append_noPlus _ _ _ hnp2]
    rw [hrs]
    have hX : hx ++ '+' :: ((d0 :: ds') ++ replaceSig id (linePart r)) ++ restPart r
        = hx ++ '+' :: ((d0 :: ds') ++ (replaceSig id (linePart r) ++ restPart r)) := by simp
    rw [hX]
    have htw : ((d0 :: ds') ++ (replaceSig id (linePart r) ++ restPart r)).takeWhile isDigit = d0 :: ds' := by
      apply takeWhile_digits_append _ _ hdig
      intro c hc
      -- the head of (replaceSig (linePart r) ++ restPart r) is the head of r
      have hhead : (replaceSig id (linePart r) ++ restPart r).head? = r.head? := by
        cases hr' : r with
        | nil => simp [linePart, restPart, replaceSig]
        | cons c0 r0 =>
          by_cases hn : notNL c0 = true
          · have : linePart (c0 :: r0) = c0 :: linePart r0 := by simp [linePart, hn]
            rw [this]
            have hh := replaceSig_head id (c0 :: linePart r0)
            cases hrs' : replaceSig id (c0 :: linePart r0) with
            | nil => rw [hrs'] at hh; simp at hh
            | cons a as => rw [hrs'] at hh; simp at hh; simp [hh]
          · have h1' : linePart (c0 :: r0) = [] := by simp [linePart, hn]
            have h2' : restPart (c0 :: r0) = c0 :: r0 := by simp [restPart, hn]
            rw [h1', h2']; simp [replaceSig]
      rw [hhead] at hc
      exact hrh c hc
    have := stripTok_of_shape hx ((d0 :: ds') ++ (replaceSig id (linePart r) ++ restPart r)) h1 h2
    rw [htw] at this
    exact this (by simp)

/-- every block token (32 hex digits and `+`) carries a size -/
def SizedLocs (mt : Str) : Prop :=
  ∀ t ∈ (splitOn ' ' mt).tail, locPrefix t = true → sizedLen t ≠ none

theorem mapTail_mapTail_congr {α : Type} (f g : α → α) (l : List α)
    (h : ∀ x ∈ l.tail, g (f x) = g x) : mapTail g (mapTail f l) = mapTail g l := by
  cases l with
  | nil => rfl
  | cons a as =>
    simp only [mapTail, List.map_map, List.cons.injEq, true_and]
    apply List.map_congr_left
    intro x hx
    exact h x hx

theorem pdhText_rewrite (mt id : Str) (hid : ' ' ∉ id) (h : SizedLocs mt) :
    pdhText (rewriteManifest mt id) = pdhText mt := by
  unfold pdhText
  rw [rewriteManifest_tokens mt id hid, mapTail_mapTail_congr]
  intro t ht
  by_cases hl : locPrefix t = true
  · exact stripTok_rewriteTok id t (h t ht hl)
  · simp [rewriteTok, hl]

theorem pdh_rewrite (md5 : Str → Str) (mt id : Str) (hid : ' ' ∉ id) (h : SizedLocs mt) :
    pdh md5 (rewriteManifest mt id) = pdh md5 mt := by
  unfold pdh; rw [pdhText_rewrite mt id hid h]

/-! ### the receive loop -/

theorem firstAccept_mem (outs : List Outcome) (c : Coll) (h : firstAccept outs = some c) :
    Outcome.accept c ∈ outs := by
  induction outs with
  | nil => simp [firstAccept] at h
  | cons o rest ih =>
    cases o with
    | accept c' => simp [firstAccept] at h; simp [h]
    | fail s => simp only [firstAccept] at h; exact List.mem_cons_of_mem _ (ih h)

theorem firstAccept_isSome_of_mem (outs : List Outcome) (c : Coll) (h : Outcome.accept c ∈ outs) :
    ∃ c', firstAccept outs = some c' := by
  induction outs with
  | nil => simp at h
  | cons o rest ih =>
    cases o with
    | accept c' => exact ⟨c', rfl⟩
    | fail s =>
      simp only [firstAccept]
      rcases List.mem_cons.mp h with h | h
      · cases h
      · exact ih h

theorem firstAccept_none (outs : List Outcome) (h : ∀ o ∈ outs, ∃ s, o = Outcome.fail s) :
    firstAccept outs = none := by
  induction outs with
  | nil => rfl
  | cons o rest ih =>
    obtain ⟨s, rfl⟩ := h o (by simp)
    simp only [firstAccept]
    exact ih (fun o ho => h o (List.mem_cons_of_mem _ ho))

/-- an accepted outcome comes from a backend whose collection passed the hash test -/
theorem fnOutcome_accept (md5 : Str → Str) (req rid : Str) (a : Answer) (c : Coll)
    (h : fnOutcome md5 req rid a = some (.accept c)) :
    ∃ rc, a = .coll rc ∧ pdhOK md5 req rc.manifest = true ∧
      c = (if rid = [] then rc else { rc with manifest := rewriteManifest rc.manifest rid }) := by
  cases a with
  | coll rc =>
    simp only [fnOutcome] at h
    split at h
    · rename_i hok
      simp only [Option.some.injEq, Outcome.accept.injEq] at h
      exact ⟨rc, rfl, hok, h.symm⟩
    · simp at h
  | err s => simp [fnOutcome] at h
  | hang => simp [fnOutcome] at h

theorem mem_delivered (md5 : Str → Str) (req : Str) (order : List (Str × Answer)) (o : Outcome)
    (h : o ∈ delivered md5 req order) : ∃ p ∈ order, fnOutcome md5 req p.1 p.2 = some o := by
  simp only [delivered, List.mem_filterMap] at h
  exact h

end ArvVerif.C18
