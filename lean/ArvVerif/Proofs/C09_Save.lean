/-
C09 helper lemmas, part 9: `marshal9` as a whole — when it answers ok / err, what the flushed tree
looks like, where its lines come from.
-/
import ArvVerif.Proofs.C09_Main
namespace ArvVerif.C09

open ArvVerif.C08 (Seg FileNode Store SegWF AllWF StoreOK StoreExt)
open ArvVerif.C10 (bSlash bDot specLocator)

variable {max : Nat} {hash : Bytes → C08.Loc}

/-- assumptions on the locator function: no collisions, and what it returns is a locator of the
published grammar that carries the block size (`md5hex ++ "+" ++ size` in the code) -/
structure HashOK (hash : Bytes → C08.Loc) : Prop where
  inj : Function.Injective hash
  loc : ∀ b, specLocator (hash b) = some ⟨hash b, b.length⟩

/-! ### the flushed tree holds no mem segment when every write succeeded -/

theorem mem_zip_snd {α β : Type} {a : List α} {b : List β} {x : α × β} (h : x ∈ a.zip b) : x.2 ∈ b := by
  induction a generalizing b with
  | nil => simp at h
  | cons y ys ih =>
    cases b with
    | nil => simp at h
    | cons z zs =>
      simp only [List.zip_cons_cons, List.mem_cons] at h
      rcases h with rfl | h
      · simp
      · exact List.mem_cons_of_mem _ (ih h)

theorem flushDir9_no_mem (k : Keep) (d : Dir9) (hall : allOk (dirGroups max d) k = true) :
    ∀ f ∈ (flushDir9 hash max k d).2.1.files, ∀ s ∈ f.2.segs, s.isMem = false := by
  unfold flushDir9
  unfold dirGroups at hall
  by_cases he : d.isEmpty = true
  · simp only [he, if_true]
    intro f hf
    unfold Dir9.isEmpty at he
    simp only [Bool.and_eq_true] at he
    rw [List.isEmpty_iff.mp he.1] at hf; cases hf
  · simp only [he, if_false, Bool.false_eq_true] at hall ⊢
    intro f hf s hs
    simp only [Dir9.setFiles] at hf
    exact flushFilesK_no_mem (hash := hash) k _ hall f.2 (mem_zip_snd hf) s hs

theorem flushTree9_no_mem : ∀ (t : Tree9) (k : Keep), allOk (treeGroups max t) k = true →
    ∀ d ∈ (flushTree9 hash max k t).2.1, ∀ f ∈ d.files, ∀ s ∈ f.2.segs, s.isMem = false
  | [], _, _, d, hd => by simp [flushTree9] at hd
  | d0 :: rest, k, hall, d, hd => by
    unfold treeGroups at hall
    rw [allOk_add, Bool.and_eq_true] at hall
    unfold flushTree9 at hd
    simp only [List.mem_cons] at hd
    rcases hd with rfl | hd
    · exact flushDir9_no_mem (hash := hash) k d0 hall.1
    · have hs : ScriptEq (flushDir9 hash max k d0).1 (nextN (dirGroups max d0) k) := by
        unfold flushDir9 dirGroups
        by_cases he : d0.isEmpty = true
        · simp only [he, if_true]; exact ScriptEq.refl k
        · simp only [he, if_false, Bool.false_eq_true]
          unfold flushFilesK
          exact commitGroups_script _ _ _ _
      exact flushTree9_no_mem rest _ (by rw [allOk_congr _ hs]; exact hall.2) d hd

theorem emitSegs_some (name : Bytes) : ∀ (segs : List Seg) (e : Emit), (∀ s ∈ segs, s.isMem = false) →
    ∃ e', emitSegs name e segs = some e'
  | [], e, _ => ⟨e, rfl⟩
  | s :: rest, e, h => by
    unfold emitSegs
    cases s with
    | mem buf fl => have := h _ (List.mem_cons_self); simp [Seg.isMem] at this
    | stored loc size off len =>
      simp only [emitSeg]
      exact emitSegs_some name rest _ (fun x hx => h x (List.mem_cons_of_mem _ hx))

theorem emitFiles_some : ∀ (files : List (Bytes × FileNode)) (e : Emit), (∀ f ∈ files, ∀ s ∈ f.2.segs, s.isMem = false) →
    ∃ e', emitFiles e files = some e'
  | [], e, _ => ⟨e, rfl⟩
  | f :: rest, e, h => by
    unfold emitFiles
    have : ∃ e1, emitFile e f = some e1 := by
      unfold emitFile
      split
      · exact ⟨_, rfl⟩
      · exact emitSegs_some f.1 f.2.segs e (h f (by simp))
    obtain ⟨e1, h1⟩ := this
    rw [h1]
    exact emitFiles_some rest e1 (fun x hx => h x (List.mem_cons_of_mem _ hx))

theorem treeText_some : ∀ (t : Tree9), (∀ d ∈ t, ∀ f ∈ d.files, ∀ s ∈ f.2.segs, s.isMem = false) →
    ∃ txt, treeText t = some txt
  | [], _ => ⟨[], rfl⟩
  | d :: rest, h => by
    obtain ⟨b, hb⟩ := treeText_some rest (fun x hx => h x (List.mem_cons_of_mem _ hx))
    have : ∃ a, dirText d = some a := by
      unfold dirText
      split
      · exact ⟨_, rfl⟩
      · obtain ⟨e, he⟩ := emitFiles_some d.files ⟨[], 0, []⟩ (h d (by simp))
        rw [he]; exact ⟨_, rfl⟩
    obtain ⟨a, ha⟩ := this
    unfold treeText
    rw [ha, hb]
    exact ⟨_, rfl⟩

/-! ### where the segments of the flushed tree come from -/

theorem TreeKept.segs_from {st : Store} {new : Seg → Prop} : ∀ {t t' : Tree9}, TreeKept max hash st new t t' →
    ∀ d' ∈ t', ∀ f' ∈ d'.files, ∀ x ∈ f'.2.segs,
      (∃ d ∈ t, ∃ f ∈ d.files, x ∈ f.2.segs) ∨ x.isMem = true ∨ new x
  | _, _, TreeKept.nil, d', hd', _, _, _, _ => by cases hd'
  | _, _, TreeKept.cons (d := d) (d' := d0') (t := t) (t' := t') hd ht, d', hd', f', hf', x, hx => by
    rcases List.mem_cons.mp hd' with rfl | hd'
    · have hmem : f'.2 ∈ d'.files.map (·.2) := List.mem_map.mpr ⟨f', hf', rfl⟩
      rcases hd.kept.segs f'.2 hmem x hx with ⟨fn, hfn, hx'⟩ | h | h
      · obtain ⟨f, hf, rfl⟩ := List.mem_map.mp hfn
        exact Or.inl ⟨d, by simp, f, hf, hx'⟩
      · exact Or.inr (Or.inl h)
      · exact Or.inr (Or.inr h)
    · rcases TreeKept.segs_from ht d' hd' f' hf' x hx with ⟨dd, hdd, f, hf, hx'⟩ | h | h
      · exact Or.inl ⟨dd, List.mem_cons_of_mem _ hdd, f, hf, hx'⟩
      · exact Or.inr (Or.inl h)
      · exact Or.inr (Or.inr h)

theorem TreeKept.wf {st : Store} {new : Seg → Prop} : ∀ {t t' : Tree9}, TreeKept max hash st new t t' →
    TreeAllWF max hash st t'
  | _, _, TreeKept.nil, d, hd => by cases hd
  | _, _, TreeKept.cons hd ht, d, hd' => by
    rcases List.mem_cons.mp hd' with rfl | hd'
    · exact hd.kept.wf
    · exact TreeKept.wf ht d hd'

/-- paths, names and sub-directory counts pair up -/
theorem TreeKept.shape {st : Store} {new : Seg → Prop} : ∀ {t t' : Tree9}, TreeKept max hash st new t t' →
    ∀ d' ∈ t', ∃ d ∈ t, d'.path = d.path ∧ d'.nsub = d.nsub ∧ d'.files.map (·.1) = d.files.map (·.1)
  | _, _, TreeKept.nil, d', hd' => by cases hd'
  | _, _, TreeKept.cons (d := d) hd ht, d', hd' => by
    rcases List.mem_cons.mp hd' with rfl | hd'
    · exact ⟨d, by simp, hd.path, hd.nsub, hd.names⟩
    · obtain ⟨dd, hdd, h⟩ := TreeKept.shape ht d' hd'
      exact ⟨dd, List.mem_cons_of_mem _ hdd, h⟩

/-! ### where the lines come from -/

theorem treeLines_streams : ∀ (t : Tree9) (L : List Line9), treeLines t = some L → ∀ s ∈ streamsOf L,
    ∃ d ∈ t, d.isEmpty = false ∧ ∃ e, emitFiles ⟨[], 0, []⟩ d.files = some e ∧ s = streamOfEmit d.path e
  | [], L, h, s, hs => by
    simp only [treeLines, Option.some.injEq] at h; subst h; cases hs
  | d :: rest, L, h, s, hs => by
    unfold treeLines at h
    cases h1 : dirLines d with
    | none => rw [h1] at h; cases h
    | some a =>
      cases h2 : treeLines rest with
      | none => rw [h1, h2] at h; cases h
      | some b =>
        rw [h1, h2] at h
        simp only [Option.some.injEq] at h
        subst h
        rw [streamsOf_append] at hs
        rcases List.mem_append.mp hs with hs | hs
        · unfold dirLines at h1
          by_cases he : d.isEmpty = true
          · rw [if_pos he] at h1
            simp only [Option.some.injEq] at h1
            subst h1
            split at hs <;> cases hs
          · rw [if_neg he] at h1
            cases hem : emitFiles ⟨[], 0, []⟩ d.files with
            | none => rw [hem] at h1; cases h1
            | some e =>
              rw [hem] at h1
              simp only [Option.some.injEq] at h1
              subst h1
              split at hs
              · cases hs
              · simp only [streamsOf, List.mem_singleton] at hs
                exact ⟨d, by simp, by simpa using he, e, hem, hs⟩
        · obtain ⟨dd, hdd, h'⟩ := treeLines_streams rest b h2 s hs
          exact ⟨dd, List.mem_cons_of_mem _ hdd, h'⟩

theorem markersOf_append (a b : List Line9) : markersOf (a ++ b) = markersOf a ++ markersOf b := by
  induction a with
  | nil => rfl
  | cons x rest ih => cases x <;> simp [markersOf, ih]

/-- the marker lines are exactly the empty directories below the root, in order -/
theorem treeLines_markers : ∀ (t : Tree9) (L : List Line9), treeLines t = some L →
    markersOf L = (t.filter fun d => d.isEmpty && !d.path.isEmpty).map fun d => prefixOf d.path
  | [], L, h => by simp only [treeLines, Option.some.injEq] at h; subst h; rfl
  | d :: rest, L, h => by
    unfold treeLines at h
    cases h1 : dirLines d with
    | none => rw [h1] at h; cases h
    | some a =>
      cases h2 : treeLines rest with
      | none => rw [h1, h2] at h; cases h
      | some b =>
        rw [h1, h2] at h
        simp only [Option.some.injEq] at h
        subst h
        rw [markersOf_append, treeLines_markers rest b h2]
        unfold dirLines at h1
        by_cases he : d.isEmpty = true
        · rw [if_pos he] at h1
          simp only [Option.some.injEq] at h1
          subst h1
          by_cases hp : d.path.isEmpty = true
          · simp [he, hp, markersOf]
          · simp [he, hp, markersOf]
        · rw [if_neg he] at h1
          cases hem : emitFiles ⟨[], 0, []⟩ d.files with
          | none => rw [hem] at h1; cases h1
          | some e =>
            rw [hem] at h1
            simp only [Option.some.injEq] at h1
            subst h1
            have he' : d.isEmpty = false := by simpa using he
            split <;> simp [he', markersOf]

end ArvVerif.C09
