/-
C17 — `NoCollide` derived. If every mount beneath the output path is a mount point that the entry
loop skips and it and the directories above it are real host directories (`MountsReal`: what a
container that could be started looks like), then what the mounted collections contribute and what
the host walk plans never claim the same output path.
-/
import ArvVerif.Proofs.C17_Cover
set_option linter.unusedSimpArgs false
namespace ArvVerif.C17

structure MountsReal (h : Host) (cfg : Cfg) : Prop where
  /-- a mount beneath the output path is skipped by the entry loop of its parent directory -/
  skip : ∀ e ∈ cfg.mounts, ProperPrefix cfg.ctrOut e.1 → copyRegular e.2 = false → skipMount cfg e.1 = true
  /-- the mount point and every directory between it and the output directory exist on the host -/
  real : ∀ e ∈ cfg.mounts, ProperPrefix cfg.ctrOut e.1 → copyRegular e.2 = false →
    ∀ y, ProperPrefix cfg.ctrOut y → y.isPrefixOf e.1 = true → nodeAt h cfg y = some .dir

theorem prefix_split (a b : Path) (hp : a.isPrefixOf b = true) : ∃ r, b = a ++ r := by
  rw [List.isPrefixOf_iff_prefix] at hp
  obtain ⟨r, hr⟩ := hp
  exact ⟨r, hr.symm⟩

theorem shows_prefix_dir' (h : Host) (cfg : Cfg) (d r s : Path) (hr : r ≠ []) (hs : Shows h cfg (d ++ r) s) :
    ∃ s0, Shows h cfg d s0 ∧ nodeAt h cfg s0 = some .dir :=
  shows_prefix_dir h cfg d r.length r s rfl hr hs

theorem nonLink_of_dir {h : Host} {cfg : Cfg} {s : Path} (hd : nodeAt h cfg s = some .dir) : NonLink h cfg s :=
  fun ab t hn => by rw [hd] at hn; cases hn

theorem nonLink_of_file {h : Host} {cfg : Cfg} {s : Path} {c : Bytes} (hd : nodeAt h cfg s = some (.file c)) :
    NonLink h cfg s := fun ab t hn => by rw [hd] at hn; cases hn

/-- only links are shown at `d` -/
def AllLinks (h : Host) (cfg : Cfg) (d : Path) : Prop :=
  ∀ s, Shows h cfg d s → ∃ ab t, nodeAt h cfg s = some (.link ab t)

/-- A1: nothing that is not a link is shown at or below an all-links path -/
theorem allLinks_blocks (h : Host) (cfg : Cfg) (d r s : Path) (hal : AllLinks h cfg d)
    (hs : Shows h cfg (d ++ r) s) (hn : NonLink h cfg s) : False := by
  by_cases hr : r = []
  · subst hr
    obtain ⟨ab, t, hl⟩ := hal s (by simpa using hs)
    exact hn ab t hl
  · obtain ⟨s0, hs0, hd0⟩ := shows_prefix_dir' h cfg d r s hr hs
    obtain ⟨ab, t, hl⟩ := hal s0 hs0
    rw [hd0] at hl; cases hl

/-- L3: a path that shows a regular file has nothing shown below it -/
theorem file_blocks (h : Host) (cfg : Cfg) (p r s s' : Path) (c : Bytes) (hr : r ≠ [])
    (hf : Shows h cfg p s) (hfile : nodeAt h cfg s = some (.file c)) (hs : Shows h cfg (p ++ r) s') : False := by
  obtain ⟨s0, hs0, hd0⟩ := shows_prefix_dir' h cfg p r s' hr hs
  have := shows_terminal_unique h cfg p s s0 hf hs0 (nonLink_of_file hfile) (nonLink_of_dir hd0)
  rw [this, hd0] at hfile; cases hfile

theorem children_ne_of_child (h : Host) (cfg : Cfg) (s : Path) (c : Name) (n : Node)
    (hpre : cfg.ctrOut.isPrefixOf s = true) (hn : nodeAt h cfg (s ++ [c]) = some n) :
    h.children (hostPath cfg s) ≠ [] := by
  unfold nodeAt at hn
  rw [hostPath_child cfg s c hpre] at hn
  have hm := mem_of_get h _ _ (by simp) hn
  have := children_of_mem h (hostPath cfg s) c n hm
  intro h0; rw [h0] at this; cases this

/-- L4: nothing is shown at or below an entry name of an empty directory -/
theorem empty_dir_blocks (h : Host) (cfg : Cfg) (D sD : Path) (c : Name) (r s : Path)
    (hD : Shows h cfg D sD) (hdir : nodeAt h cfg sD = some .dir) (hempty : h.children (hostPath cfg sD) = [])
    (hs : Shows h cfg (D ++ [c] ++ r) s) : False := by
  -- something is shown at D ++ [c]
  have h1 : ∃ s1, Shows h cfg (D ++ [c]) s1 := by
    by_cases hr : r = []
    · subst hr; exact ⟨s, by simpa using hs⟩
    · obtain ⟨s0, hs0, _⟩ := shows_prefix_dir' h cfg (D ++ [c]) r s hr hs
      exact ⟨s0, hs0⟩
  obtain ⟨s1, hs1⟩ := h1
  obtain ⟨e, he, _⟩ := shows_entry h cfg _ _ hs1
  rcases he with ⟨hd, _⟩ | ⟨d', s0, c', hd', hsh, hdir0, _, ⟨n, hn⟩, _, _⟩
  · simp at hd
  · obtain ⟨hd1, hc⟩ := List.append_inj' hd' rfl
    simp only [List.cons.injEq, and_true] at hc
    subst hc
    rw [← hd1] at hsh
    have := shows_terminal_unique h cfg D sD s0 hD hsh (nonLink_of_dir hdir) (nonLink_of_dir hdir0)
    subst this
    exact children_ne_of_child h cfg sD c n (shows_pre h cfg _ _ hD) hn hempty

/-- the situation of a mount `mnt = x ++ rel` strictly below a jump position `x` that lies in the
output directory and is shown at `d` -/
structure BelowJump (h : Host) (cfg : Cfg) (d x mnt : Path) (m : Mount) : Prop where
  shows : Shows h cfg d x
  inOut : InOut cfg x
  mem : (mnt, m) ∈ cfg.mounts
  pre : x.isPrefixOf mnt = true
  lt : x.length < mnt.length
  notRegular : copyRegular m = false

theorem BelowJump.proper {h : Host} {cfg : Cfg} {d x mnt : Path} {m : Mount} (b : BelowJump h cfg d x mnt m) :
    ProperPrefix cfg.ctrOut mnt :=
  ⟨prefix_trans' _ _ _ (inOut_pre cfg x b.inOut) b.pre,
   Nat.lt_of_le_of_lt (prefix_length_le _ _ (inOut_pre cfg x b.inOut)) b.lt⟩

/-- a path between the jump position and the mount point is a real directory -/
theorem BelowJump.dirAt {h : Host} {cfg : Cfg} {d x mnt : Path} {m : Mount} (b : BelowJump h cfg d x mnt m)
    (mr : MountsReal h cfg) (hout : h.get cfg.hostOut = some .dir) (r1 r2 : Path) (hm : mnt = x ++ r1 ++ r2) :
    nodeAt h cfg (x ++ r1) = some .dir := by
  have hpx := inOut_pre cfg x b.inOut
  by_cases hl : (x ++ r1).length = cfg.ctrOut.length
  · have : x ++ r1 = cfg.ctrOut :=
      eq_of_prefix_of_length _ _ (isPrefixOf_append_right _ _ _ hpx) hl
    rw [this]; unfold nodeAt; rw [hostPath_out]; exact hout
  · refine mr.real (mnt, m) b.mem b.proper b.notRegular (x ++ r1) ⟨isPrefixOf_append_right _ _ _ hpx, ?_⟩ ?_
    · have := prefix_length_le _ _ (isPrefixOf_append_right cfg.ctrOut x r1 hpx); omega
    · rw [hm, List.isPrefixOf_iff_prefix]; exact List.prefix_append _ _

/-- U: between the jump position and the mount point the only non-link node shown is the real
directory itself -/
theorem BelowJump.unique {h : Host} {cfg : Cfg} {d x mnt : Path} {m : Mount} (b : BelowJump h cfg d x mnt m)
    (mr : MountsReal h cfg) (hout : h.get cfg.hostOut = some .dir) :
    ∀ (k : Nat) (r1 r2 : Path), r1.length = k → mnt = x ++ r1 ++ r2 → r2 ≠ [] →
      ∀ s, Shows h cfg (d ++ r1) s → NonLink h cfg s → s = x ++ r1 := by
  intro k
  induction k with
  | zero =>
    intro r1 r2 hk hm _ s hs hn
    have : r1 = [] := List.eq_nil_of_length_eq_zero hk
    subst this
    have hdx := b.dirAt mr hout [] r2 hm
    simp only [List.append_nil] at hdx hs ⊢
    exact shows_terminal_unique h cfg d s x hs b.shows hn (nonLink_of_dir hdx)
  | succ k ih =>
    intro r1 r2 hk hm hr2 s hs hn
    have hne : r1 ≠ [] := by intro h0; rw [h0] at hk; simp at hk
    have hdec : r1 = r1.dropLast ++ [r1.getLast hne] := (List.dropLast_concat_getLast hne).symm
    obtain ⟨e, he, hreach⟩ := shows_entry h cfg _ _ hs
    rcases he with ⟨hd, _⟩ | ⟨d', s0, c', hd', hsh, hdir0, he0, _⟩
    · exact absurd (List.append_eq_nil_iff.mp hd).2 hne
    · rw [hdec, ← List.append_assoc] at hd'
      obtain ⟨hd1, hc⟩ := List.append_inj' hd' rfl
      simp only [List.cons.injEq, and_true] at hc
      rw [← hd1] at hsh
      have hs0 := ih r1.dropLast ([r1.getLast hne] ++ r2) (by simp; omega)
        (by rw [hm]; conv => lhs; rw [hdec]
            simp [List.append_assoc]) (by simp) s0 hsh (nonLink_of_dir hdir0)
      have he1 : e = x ++ r1 := by
        rw [he0, hs0, ← hc, List.append_assoc, ← hdec]
      have hde := b.dirAt mr hout r1 r2 hm
      rw [← he1] at hde
      rw [← he1]
      exact hreach.stuck (fun ab t hl => by rw [hde] at hl; cases hl)

/-- nothing is shown at (or below) the output path of a mount point -/
theorem BelowJump.noShow {h : Host} {cfg : Cfg} {d x mnt : Path} {m : Mount} (b : BelowJump h cfg d x mnt m)
    (mr : MountsReal h cfg) (hout : h.get cfg.hostOut = some .dir) (rel r s : Path) (hm : mnt = x ++ rel)
    (hs : Shows h cfg (d ++ rel ++ r) s) : False := by
  have hrel : rel ≠ [] := by
    intro h0; have := b.lt; rw [hm, h0] at this; simp at this
  have h1 : ∃ s1, Shows h cfg (d ++ rel) s1 := by
    by_cases hr : r = []
    · subst hr; exact ⟨s, by simpa using hs⟩
    · obtain ⟨s0, hs0, _⟩ := shows_prefix_dir' h cfg (d ++ rel) r s hr hs
      exact ⟨s0, hs0⟩
  obtain ⟨s1, hs1⟩ := h1
  have hdec : rel = rel.dropLast ++ [rel.getLast hrel] := (List.dropLast_concat_getLast hrel).symm
  obtain ⟨e, he, _⟩ := shows_entry h cfg _ _ hs1
  rcases he with ⟨hd, _⟩ | ⟨d', s0, c', hd', hsh, hdir0, he0, _, _, hskip⟩
  · exact absurd (List.append_eq_nil_iff.mp hd).2 hrel
  · rw [hdec, ← List.append_assoc] at hd'
    obtain ⟨hd1, hc⟩ := List.append_inj' hd' rfl
    simp only [List.cons.injEq, and_true] at hc
    rw [← hd1] at hsh
    have hs0 := b.unique mr hout rel.dropLast.length rel.dropLast [rel.getLast hrel] rfl
      (by rw [hm]; conv => lhs; rw [hdec]
          simp [List.append_assoc]) (by simp) s0 hsh (nonLink_of_dir hdir0)
    have : s0 ++ [c'] = mnt := by
      rw [hs0, ← hc, List.append_assoc, ← hdec, hm]
    rw [this] at hskip
    rw [mr.skip (mnt, m) b.mem b.proper b.notRegular] at hskip
    cases hskip

/-! ### where a fragment comes from, and why no planned host item is on its path -/

/-- origin of a fragment path `q`: below an all-links output path, or below the output path of a
mount point under an in-output jump position -/
inductive Origin (h : Host) (cfg : Cfg) (q : Path) : Prop
  | links (d s0 : Path) : AllLinks h cfg d → Shows h cfg d s0 → d.isPrefixOf q = true → Origin h cfg q
  | mount (d x mnt rel : Path) (m : Mount) : BelowJump h cfg d x mnt m → mnt = x ++ rel →
      (d ++ rel).isPrefixOf q = true → Origin h cfg q

theorem frag_origin (h : Host) (cfg : Cfg) (hx : InOut cfg cfg.ctrOut) (f : Frag)
    (hj : ∃ d x, Jumps h cfg d x ∧ (f ∈ fragOf cfg d x ∨ (notSecret cfg x ∧ f ∈ belowFrags cfg d x))) :
    Origin h cfg f.1 := by
  obtain ⟨d, x, hjump, hf⟩ := hj
  by_cases hin : InOut cfg x
  · have hshow : Shows h cfg d x := by
      cases hjump with
      | root => exact Shows.root
      | link hsh hnode => exact Shows.link hsh hnode hin
    rcases hf with hf | ⟨_, hf⟩
    · exact absurd hin (fragOf_not_inOut cfg d x f hf)
    · obtain ⟨e, he, h1, h2, h3, h4⟩ := belowFrags_prefix cfg d x f hf
      exact Origin.mount d x e.1 (e.1.drop x.length) e.2 ⟨hshow, hin, he, h1, h2, h3⟩
        (prefix_append_drop _ _ h1).symm h4
  · cases hjump with
    | root => exact absurd hx hin
    | link hsh hnode =>
      rename_i s0 ab t
      have hal : AllLinks h cfg d := fun s hs => shows_all_links h cfg d s0 ab t hsh hnode hin s hs
      refine Origin.links d s0 hal hsh ?_
      rcases hf with hf | ⟨_, hf⟩
      · exact fragOf_prefix cfg d _ f hf
      · obtain ⟨e, _, _, _, _, h4⟩ := belowFrags_prefix cfg d _ f hf
        exact prefix_trans' _ _ _ (isPrefixOf_append d _) h4

theorem prefix_cases (a b q : Path) (ha : a.isPrefixOf q = true) (hb : b.isPrefixOf q = true) :
    (∃ r, b = a ++ r) ∨ (∃ r, r ≠ [] ∧ a = b ++ r) := by
  by_cases hl : a.length ≤ b.length
  · exact Or.inl (prefix_split a b (prefix_total a b q ha hb hl))
  · right
    obtain ⟨r, hr⟩ := prefix_split b a (prefix_total b a q hb ha (by omega))
    refine ⟨r, ?_, hr⟩
    intro h0; rw [h0] at hr; simp at hr; rw [hr] at hl; exact hl (Nat.le_refl _)

/-- a planned regular file is not on the path of a fragment -/
theorem file_vs_frag (h : Host) (cfg : Cfg) (mr : MountsReal h cfg) (hout : h.get cfg.hostOut = some .dir)
    (F s : Path) (c : Bytes) (hF : Shows h cfg F s) (hfile : nodeAt h cfg s = some (.file c))
    (q : Path) (ho : Origin h cfg q) (hp : F.isPrefixOf q = true) : False := by
  cases ho with
  | links d s0 hal hs0 hd =>
    rcases prefix_cases d F q hd hp with ⟨r, hr⟩ | ⟨r, hr, hdr⟩
    · rw [hr] at hF; exact allLinks_blocks h cfg d r s hal hF (nonLink_of_file hfile)
    · rw [hdr] at hs0; exact file_blocks h cfg F r s s0 c hr hF hfile hs0
  | mount d x mnt rel m b hm hq =>
    rcases prefix_cases (d ++ rel) F q hq hp with ⟨r, hr⟩ | ⟨r2, hr2, hQ⟩
    · rw [hr] at hF; exact b.noShow mr hout rel r s hm hF
    · -- F is a proper prefix of d ++ rel
      have hdQ : d.isPrefixOf (d ++ rel) = true := isPrefixOf_append d rel
      have hFQ : F.isPrefixOf (d ++ rel) = true := by rw [hQ]; exact isPrefixOf_append F r2
      rcases prefix_cases d F (d ++ rel) hdQ hFQ with ⟨r1, hr1⟩ | ⟨r, hr, hdr⟩
      · have hrel : rel = r1 ++ r2 := by
          rw [hr1, List.append_assoc] at hQ
          exact List.append_cancel_left hQ
        rw [hr1] at hF
        have := b.unique mr hout r1.length r1 r2 rfl (by rw [hm, hrel, List.append_assoc]) hr2 s hF
          (nonLink_of_file hfile)
        have hdir := b.dirAt mr hout r1 r2 (by rw [hm, hrel, List.append_assoc])
        rw [← this, hfile] at hdir; cases hdir
      · have hsx := b.shows
        rw [hdr] at hsx
        exact file_blocks h cfg F r s x c hr hF hfile hsx

/-- the `.keep` placeholder of an empty directory is not on the path of a fragment -/
theorem keep_vs_frag (h : Host) (cfg : Cfg) (mr : MountsReal h cfg) (hout : h.get cfg.hostOut = some .dir)
    (D sD : Path) (hD : Shows h cfg D sD) (hdir : nodeAt h cfg sD = some .dir)
    (hempty : h.children (hostPath cfg sD) = [])
    (q : Path) (ho : Origin h cfg q) (hp : (D ++ [".keep"]).isPrefixOf q = true) : False := by
  have hpre := shows_pre h cfg _ _ hD
  cases ho with
  | links d s0 hal hs0 hd =>
    rcases prefix_cases (D ++ [".keep"]) d q hp hd with ⟨r, hr⟩ | ⟨r, hr, hFr⟩
    · rw [hr] at hs0; exact empty_dir_blocks h cfg D sD ".keep" r s0 hD hdir hempty hs0
    · -- d is a proper prefix of D ++ [".keep"], hence a prefix of D
      have hne : r ≠ [] := hr
      have hdec : r = r.dropLast ++ [r.getLast hne] := (List.dropLast_concat_getLast hne).symm
      rw [hdec, ← List.append_assoc] at hFr
      obtain ⟨hDd, _⟩ := List.append_inj' hFr rfl
      rw [hDd] at hD
      exact allLinks_blocks h cfg d r.dropLast sD hal hD (nonLink_of_dir hdir)
  | mount d x mnt rel m b hm hq =>
    rcases prefix_cases (D ++ [".keep"]) (d ++ rel) q hp hq with ⟨r, hr⟩ | ⟨r, hr, hFr⟩
    · -- D ++ [".keep"] is a prefix of d ++ rel: compare with d
      have hdQ : d.isPrefixOf (d ++ rel) = true := isPrefixOf_append d rel
      have hFQ : (D ++ [".keep"]).isPrefixOf (d ++ rel) = true := by rw [hr]; exact isPrefixOf_append _ r
      rcases prefix_cases (D ++ [".keep"]) d (d ++ rel) hFQ hdQ with ⟨r', hr'⟩ | ⟨r1', hr1', hF1⟩
      · have hsx := b.shows
        rw [hr'] at hsx
        exact empty_dir_blocks h cfg D sD ".keep" r' x hD hdir hempty hsx
      · -- D ++ [".keep"] = d ++ r1', r1' ≠ []: D = d ++ r1, r1' = r1 ++ [".keep"]
        have hdec : r1' = r1'.dropLast ++ [r1'.getLast hr1'] := (List.dropLast_concat_getLast hr1').symm
        have hF1' := hF1
        rw [hdec, ← List.append_assoc] at hF1'
        obtain ⟨hDd, hk⟩ := List.append_inj' hF1' rfl
        simp only [List.cons.injEq, and_true] at hk
        have hrel : rel = r1' ++ r := by
          rw [hF1, List.append_assoc] at hr
          exact List.append_cancel_left hr
        rw [hDd] at hD
        have hsD := b.unique mr hout r1'.dropLast.length r1'.dropLast ([r1'.getLast hr1'] ++ r) rfl
          (by rw [hm, hrel]; conv => lhs; rw [hdec]
              simp [List.append_assoc]) (by simp) sD hD (nonLink_of_dir hdir)
        have hnode := b.dirAt mr hout r1' r (by rw [hm, hrel, List.append_assoc])
        have hx1 : x ++ r1' = sD ++ [".keep"] := by
          rw [hsD, hk, List.append_assoc, ← hdec]
        rw [hx1] at hnode
        exact children_ne_of_child h cfg sD ".keep" .dir hpre hnode hempty
    · -- d ++ rel is a proper prefix of D ++ [".keep"], hence a prefix of D
      have hdec : r = r.dropLast ++ [r.getLast hr] := (List.dropLast_concat_getLast hr).symm
      rw [hdec, ← List.append_assoc] at hFr
      obtain ⟨hDd, _⟩ := List.append_inj' hFr rfl
      rw [hDd] at hD
      exact b.noShow mr hout rel r.dropLast sD hm hD

/-- a planned directory is not the path of a fragment -/
theorem dir_vs_frag (h : Host) (cfg : Cfg) (mr : MountsReal h cfg) (hout : h.get cfg.hostOut = some .dir)
    (P s : Path) (hP : Shows h cfg P s) (hdir : nodeAt h cfg s = some .dir) (ho : Origin h cfg P) : False := by
  cases ho with
  | links d s0 hal _ hd =>
    obtain ⟨r, hr⟩ := prefix_split d P hd
    rw [hr] at hP; exact allLinks_blocks h cfg d r s hal hP (nonLink_of_dir hdir)
  | mount d x mnt rel m b hm hq =>
    obtain ⟨r, hr⟩ := prefix_split (d ++ rel) P hq
    rw [hr] at hP; exact b.noShow mr hout rel r s hm hP

/-- **`NoCollide` derived**: under `MountsReal` the tree loaded from the plan's fragments and the
host part of the plan never claim the same output path -/
theorem scan_nocollide (h : Host) (cfg : Cfg) (hwf : HostWF h) (wf : CfgWF h cfg)
    (hout : h.get cfg.hostOut = some .dir) (hs : supported cfg = true) (hx : InOut cfg cfg.ctrOut)
    (hdirect : Direct h cfg) (mr : MountsReal h cfg) (fuel : Nat) (plan : Plan)
    (hscan : scan h cfg fuel = .ok plan) (t0 : Tree) (hload : loadFrags [] plan.frags = some t0) :
    NoCollide t0 plan := by
  have hj := scan_sound h cfg hwf wf hout hs hdirect fuel plan hscan
  have hfj := scan_frags_sound h cfg hwf wf hout hs hdirect fuel plan hscan
  have hsh := scan_shape h cfg hwf hs wf.real fuel plan hscan
  have hcov := loadFrags_cover plan.frags t0 hload
  have horigin : ∀ f ∈ plan.frags, Origin h cfg f.1 := fun f hf => frag_origin h cfg hx f (hfj f hf)
  constructor
  · intro D hD
    cases hg : t0.get D with
    | none => exact Or.inl rfl
    | some e =>
      cases e with
      | dir => exact Or.inr rfl
      | file c =>
        exfalso
        obtain ⟨hne, s, hshow, hdir⟩ := hj.dirs D hD
        obtain ⟨f, hf, _, h2⟩ := hcov D _ hg hne
        obtain ⟨hDf, _⟩ := h2 c rfl
        have := horigin f hf
        rw [← hDf] at this
        exact dir_vs_frag h cfg mr hout D s hshow hdir this
  · intro f hf
    cases hg : t0.get f.1 with
    | none => rfl
    | some e =>
      exfalso
      obtain ⟨q, hq, hpre, _⟩ := hcov f.1 e hg (hsh.parents f hf).1
      have ho := horigin q hq
      have hfj' := hj.files f hf
      unfold FileJust at hfj'
      cases hsrc : f.2 with
      | some p =>
        rw [hsrc] at hfj'
        obtain ⟨s, c, hshow, hps, hgp⟩ := hfj'
        exact file_vs_frag h cfg mr hout f.1 s c hshow (by unfold nodeAt; rw [← hps]; exact hgp) q.1 ho hpre
      | none =>
        rw [hsrc] at hfj'
        obtain ⟨D, sD, hfd, _, hshow, hdir, hempty⟩ := hfj'
        rw [hfd] at hpre
        exact keep_vs_frag h cfg mr hout D sD hshow hdir hempty q.1 ho hpre

end ArvVerif.C17
