/-
C09 helper lemmas, part 1: `commitK` / `flushFilesK` / `flushTree9` under ANY script of outcomes.
Whatever is answered to the Keep writes, every file keeps its per-segment bytes and lengths, its
size and `repacked`; the store only grows, and exactly by the blocks that were acknowledged; the
result flag is "every outcome consumed was ok"; every stored segment of the result is an old one or
points into a block acknowledged by this flush.
-/
import ArvVerif.Proofs.C08_Flush
import ArvVerif.Model.C09
namespace ArvVerif.C09

open ArvVerif.C08 (Seg FileNode Ptr Flush Store Ref StoreOK StoreExt AllWF fileKey SegWF)

variable {max : Nat} {hash : Bytes → C08.Loc}

/-! ### setSeg -/

theorem refBuf_some {fs : List FileNode} {r : Ref} {buf : Bytes} (h : C08.refBuf fs r = some buf) :
    ∃ fn fl, fs[r.1]? = some fn ∧ fn.segs[r.2]? = some (Seg.mem buf fl) := by
  unfold C08.refBuf C08.segAt at h
  cases hf : fs[r.1]? with
  | none => simp [hf] at h
  | some fn =>
    simp only [hf] at h
    cases hs : fn.segs[r.2]? with
    | none => simp [hs] at h
    | some sg =>
      simp only [hs] at h
      cases sg with
      | stored => simp at h
      | mem b fl => simp at h; subst h; exact ⟨fn, fl, rfl, hs⟩

/-- replacing the mem segment a ref points at by a segment with the same bytes and length keeps every
file's key -/
theorem setSeg_key {st : Store} {fs : List FileNode} {r : Ref} {buf : Bytes} {s' : Seg}
    (hr : C08.refBuf fs r = some buf) (hb : s'.bytes st = buf) (hl : s'.len = buf.length) :
    (C08.setSeg fs r s').map (fileKey st) = fs.map (fileKey st) := by
  obtain ⟨fn, fl, hf, hs⟩ := refBuf_some hr
  unfold C08.setSeg
  rw [hf]
  simp only []
  rw [List.map_set]
  have hkey : fileKey st { fn with segs := fn.segs.set r.2 s' } = fileKey st fn := by
    unfold fileKey
    simp only [List.map_set, hb, hl]
    have e1 : (fn.segs.map (Seg.bytes st))[r.2]? = some buf := by simp [hs]
    have e2 : (fn.segs.map Seg.len)[r.2]? = some buf.length := by simp [hs]
    rw [C08.set_eq_self e1, C08.set_eq_self e2]
  rw [hkey]
  exact C08.set_eq_self (by simp [hf])

/-- the segments of `setSeg fs r s'` are `s'` or old ones -/
theorem mem_setSeg {fs : List FileNode} {r : Ref} {s' : Seg} {fn' : FileNode} {x : Seg}
    (h : fn' ∈ C08.setSeg fs r s') (hx : x ∈ fn'.segs) : x = s' ∨ ∃ fn ∈ fs, x ∈ fn.segs := by
  unfold C08.setSeg at h
  cases hf : fs[r.1]? with
  | none => rw [hf] at h; exact Or.inr ⟨fn', h, hx⟩
  | some fn =>
    rw [hf] at h
    simp only [] at h
    rcases List.mem_or_eq_of_mem_set h with h | h
    · exact Or.inr ⟨fn', h, hx⟩
    · rw [h] at hx
      rcases List.mem_or_eq_of_mem_set hx with hx | hx
      · exact Or.inr ⟨fn, List.mem_of_getElem? hf, hx⟩
      · exact Or.inl hx

theorem setSeg_wf {st : Store} {fs : List FileNode} {r : Ref} {s' : Seg}
    (hwf : AllWF max hash st fs) (hs : SegWF max hash st s') : AllWF max hash st (C08.setSeg fs r s') := by
  intro fn' hfn' x hx
  rcases mem_setSeg hfn' hx with rfl | ⟨fn, hfn, hx⟩
  · exact hs
  · exact hwf fn hfn x hx

/-! ### a failed commitBlock only touches flushing flags -/

/-- What a flush may do to a file list: keys kept, well-formedness kept, every segment of the result
is an old segment, an old mem segment with another flag, or (for `new`) a new stored segment. -/
structure Kept (max : Nat) (hash : Bytes → C08.Loc) (st : Store) (new : Seg → Prop)
    (fs fs' : List FileNode) : Prop where
  key : fs'.map (fileKey st) = fs.map (fileKey st)
  wf : AllWF max hash st fs'
  segs : ∀ fn' ∈ fs', ∀ x ∈ fn'.segs, (∃ fn ∈ fs, x ∈ fn.segs) ∨ x.isMem = true ∨ new x

theorem Kept.refl {st : Store} {new : Seg → Prop} {fs : List FileNode} (hwf : AllWF max hash st fs) :
    Kept max hash st new fs fs :=
  ⟨rfl, hwf, fun fn' h x hx => Or.inl ⟨fn', h, hx⟩⟩

theorem markStale_kept {st : Store} (new : Seg → Prop) : ∀ (refs : List Ref) (fs0 fs : List FileNode),
    Kept max hash st new fs0 fs → Kept max hash st new fs0 (markStale fs refs) := by
  intro refs
  unfold markStale
  induction refs with
  | nil => intro fs0 fs h; exact h
  | cons r rest ih =>
    intro fs0 fs h
    simp only [List.foldl_cons]
    cases hr : C08.refBuf fs r with
    | none => simp only []; exact ih fs0 fs h
    | some buf =>
      simp only []
      apply ih
      obtain ⟨fn, fl, hf, hs⟩ := refBuf_some hr
      have hold : SegWF max hash st (Seg.mem buf fl) := h.wf fn (List.mem_of_getElem? hf) _ (List.mem_of_getElem? hs)
      refine ⟨?_, ?_, ?_⟩
      · rw [setSeg_key hr rfl rfl]; exact h.key
      · exact setSeg_wf h.wf ⟨hold.1, hold.2.1, fun i l hh => by cases hh⟩
      · intro fn' hfn' x hx
        rcases mem_setSeg hfn' hx with rfl | ⟨fn2, hfn2, hx2⟩
        · exact Or.inr (Or.inl rfl)
        · exact h.segs fn2 hfn2 x hx2

/-! ### a successful commitBlock -/

/-- the stored segments `commitBlock` creates for `block` -/
def NewIn (hash : Bytes → C08.Loc) (block : Bytes) (x : Seg) : Prop :=
  ∃ off len, x = Seg.stored (hash block) block.length off len ∧ off + len ≤ block.length

theorem commitBlock_segs (st : Store) (files : List FileNode) (refs : List Ref) :
    ∀ fn' ∈ (C08.commitBlock hash st files refs).2, ∀ x ∈ fn'.segs,
      (∃ fn ∈ files, x ∈ fn.segs) ∨ NewIn hash (blockOf files refs) x := by
  -- generalise the fold
  have fold : ∀ (todo done : List Ref) (fs : List FileNode), refs = done ++ todo →
      (∀ fn' ∈ fs, ∀ x ∈ fn'.segs, (∃ fn ∈ files, x ∈ fn.segs) ∨ NewIn hash (blockOf files refs) x) →
      ∀ fn' ∈ (todo.foldl (fun (acc : List FileNode × Nat) (r : Ref) =>
          match C08.refBuf files r with
          | some buf => (C08.setSeg acc.1 r (Seg.stored (hash (blockOf files refs)) (blockOf files refs).length acc.2 buf.length),
              acc.2 + buf.length)
          | none => acc) (fs, (blockOf files done).length)).1,
        ∀ x ∈ fn'.segs, (∃ fn ∈ files, x ∈ fn.segs) ∨ NewIn hash (blockOf files refs) x := by
    intro todo
    induction todo with
    | nil => intro done fs _ h; exact h
    | cons r todo ih =>
      intro done fs hrefs h
      simp only [List.foldl_cons]
      have hdone : refs = (done ++ [r]) ++ todo := by rw [hrefs]; simp
      cases hrb : C08.refBuf files r with
      | none =>
        simp only []
        have := ih (done ++ [r]) fs hdone h
        simpa [blockOf, List.flatMap_append, hrb] using this
      | some buf =>
        simp only []
        have hroom : (blockOf files done).length + buf.length ≤ (blockOf files refs).length := by
          rw [hrefs]
          simp only [blockOf, List.flatMap_append, List.flatMap_cons, List.length_append, hrb, Option.getD_some]
          omega
        have := ih (done ++ [r]) (C08.setSeg fs r (Seg.stored (hash (blockOf files refs)) (blockOf files refs).length
          (blockOf files done).length buf.length)) hdone (by
            intro fn' hfn' x hx
            rcases mem_setSeg hfn' hx with rfl | ⟨fn2, hfn2, hx2⟩
            · exact Or.inr ⟨_, _, rfl, hroom⟩
            · exact h fn2 hfn2 x hx2)
        simpa [blockOf, List.flatMap_append, hrb] using this
  exact fold refs [] files rfl (fun fn' h x hx => Or.inl ⟨fn', h, hx⟩)

/-! ### commitK, any outcome -/

/-- the state of Keep as far as the theorems look at it -/
structure KeepOK (hash : Bytes → C08.Loc) (k : Keep) : Prop where
  ok : StoreOK hash k.store
  acked : ∀ b ∈ k.acked, k.store (hash b) = some b

/-- `k'` is `k` after some Keep writes: the store grew, exactly by acknowledged blocks -/
structure KeepStep (hash : Bytes → C08.Loc) (k k' : Keep) : Prop where
  ext : StoreExt k.store k'.store
  acked : ∃ more, k'.acked = k.acked ++ more
  only : ∀ l b, k'.store l = some b → k.store l = some b ∨ (b ∈ k'.acked ∧ l = hash b)

theorem KeepStep.refl (k : Keep) : KeepStep hash k k :=
  ⟨StoreExt.refl _, ⟨[], by simp⟩, fun _ _ h => Or.inl h⟩

theorem KeepStep.trans {a b c : Keep} (h1 : KeepStep hash a b) (h2 : KeepStep hash b c) : KeepStep hash a c := by
  obtain ⟨m1, e1⟩ := h1.acked
  obtain ⟨m2, e2⟩ := h2.acked
  refine ⟨h1.ext.trans h2.ext, ⟨m1 ++ m2, by rw [e2, e1]; simp⟩, ?_⟩
  intro l x hx
  rcases h2.only l x hx with h | h
  · rcases h1.only l x h with h' | ⟨h', h''⟩
    · exact Or.inl h'
    · exact Or.inr ⟨by rw [e2]; simp [h'], h''⟩
  · exact Or.inr h

theorem next_store (k : Keep) : k.next.2.store = k.store ∧ k.next.2.acked = k.acked := by
  unfold Keep.next
  cases k.script <;> simp

theorem record_step (hinj : Function.Injective hash) {k : Keep} (hk : KeepOK hash k) (b : Bytes) :
    KeepOK hash (k.record hash b) ∧ KeepStep hash k (k.record hash b) := by
  have hext := C08.Store.put_ext hinj hk.ok b
  refine ⟨⟨C08.Store.put_ok hk.ok b, ?_⟩, ⟨hext, ⟨[b], rfl⟩, ?_⟩⟩
  · intro x hx
    simp only [Keep.record, List.mem_append, List.mem_singleton] at hx
    rcases hx with hx | rfl
    · exact hext _ _ (hk.acked x hx)
    · exact C08.Store.put_get hash k.store x
  · intro l x hx
    simp only [Keep.record, C08.Store.put] at hx
    split at hx
    · next heq => cases hx; exact Or.inr ⟨by simp [Keep.record], heq⟩
    · exact Or.inl hx

/-- What one `commitBlock` does, whatever Keep answers. `new` = "stored segment inside a block that
is acknowledged in the resulting Keep". -/
def Fresh (hash : Bytes → C08.Loc) (k' : Keep) (x : Seg) : Prop :=
  ∃ block, block ∈ k'.acked ∧ NewIn hash block x

theorem Fresh.mono {k k' : Keep} (h : KeepStep hash k k') {x : Seg} (hx : Fresh hash k x) : Fresh hash k' x := by
  obtain ⟨b, hb, hn⟩ := hx
  obtain ⟨m, e⟩ := h.acked
  exact ⟨b, by rw [e]; simp [hb], hn⟩

theorem Kept.ext {st st' : Store} {new new' : Seg → Prop} {fs fs' : List FileNode}
    (h : Kept max hash st new fs fs') (he : StoreExt st st') (hwf0 : AllWF max hash st fs)
    (hn : ∀ x, new x → new' x) : Kept max hash st' new' fs fs' := by
  refine ⟨?_, fun fn hfn s hs => (h.wf fn hfn s hs).ext he, ?_⟩
  · have e1 : fs'.map (fileKey st') = fs'.map (fileKey st) :=
      List.map_congr_left (fun fn hfn => C08.fileKey_ext he (h.wf fn hfn))
    have e2 : fs.map (fileKey st') = fs.map (fileKey st) :=
      List.map_congr_left (fun fn hfn => C08.fileKey_ext he (hwf0 fn hfn))
    rw [e1, e2, h.key]
  · intro fn' hfn' x hx
    rcases h.segs fn' hfn' x hx with h1 | h1 | h1
    · exact Or.inl h1
    · exact Or.inr (Or.inl h1)
    · exact Or.inr (Or.inr (hn x h1))

theorem commitK_script (k : Keep) (files : List FileNode) (refs : List Ref) :
    (commitK hash k files refs).1.script = k.next.2.script ∧ (commitK hash k files refs).1.dflt = k.dflt ∧
    ((commitK hash k files refs).2.2 = true ↔ k.next.1 = Outcome.ok) := by
  have hdflt : k.next.2.dflt = k.dflt := by unfold Keep.next; cases k.script <;> rfl
  unfold commitK
  cases ho : k.next with
  | mk o k' =>
    have ek' : k' = k.next.2 := by rw [ho]
    subst ek'
    cases o <;> simp [Keep.record, Keep.failed, hdflt]

theorem commitK_spec (hinj : Function.Injective hash) {k : Keep} (hk : KeepOK hash k) (files : List FileNode)
    (hwf : AllWF max hash k.store files) (refs : List Ref) :
    KeepOK hash (commitK hash k files refs).1 ∧ KeepStep hash k (commitK hash k files refs).1 ∧
    Kept max hash (commitK hash k files refs).1.store (Fresh hash (commitK hash k files refs).1) files
      (commitK hash k files refs).2.1 := by
  obtain ⟨hs1, hs2⟩ := next_store k
  have hk' : KeepOK hash k.next.2 := ⟨by rw [hs1]; exact hk.ok, by rw [hs1, hs2]; exact hk.acked⟩
  have hstep0 : KeepStep hash k k.next.2 :=
    ⟨by rw [hs1]; exact StoreExt.refl _, ⟨[], by rw [hs2]; simp⟩, fun l b h => Or.inl (by rw [hs1] at h; exact h)⟩
  unfold commitK
  cases ho : k.next with
  | mk o k' =>
    have ek' : k' = k.next.2 := by rw [ho]
    subst ek'
    cases o with
    | ok =>
      simp only []
      obtain ⟨r1, r2⟩ := record_step hinj hk' (blockOf files refs)
      have hwf' : AllWF max hash k.next.2.store files := by rw [hs1]; exact hwf
      obtain ⟨c1, c2, c3, c4⟩ := C08.commitBlock_spec hinj hk'.ok files hwf' refs
      have hst : (k.next.2.record hash (blockOf files refs)).store = (C08.commitBlock hash k.next.2.store files refs).1 := by
        simp [Keep.record, C08.commitBlock, blockOf]
      refine ⟨r1, hstep0.trans r2, ⟨?_, ?_, ?_⟩⟩
      · rw [hst, c4]
        exact (List.map_congr_left (fun fn hfn => C08.fileKey_ext c1 (hwf' fn hfn))).symm
      · rw [hst]; exact c3
      · intro fn' hfn' x hx
        rcases commitBlock_segs (hash := hash) k.next.2.store files refs fn' hfn' x hx with h | h
        · exact Or.inl h
        · exact Or.inr (Or.inr ⟨blockOf files refs, by simp [Keep.record], h⟩)
    | fail =>
      simp only []
      have hst : k.next.2.failed.store = k.store := by simp [Keep.failed, hs1]
      have hac : k.next.2.failed.acked = k.acked := by simp [Keep.failed, hs2]
      refine ⟨⟨by rw [hst]; exact hk.ok, by rw [hst, hac]; exact hk.acked⟩,
        ⟨by rw [hst]; exact StoreExt.refl _, ⟨[], by rw [hac]; simp⟩, fun l b h => Or.inl (by rw [hst] at h; exact h)⟩,
        ?_⟩
      rw [hst]
      exact markStale_kept _ refs files files (Kept.refl hwf)
    | skip =>
      simp only []
      refine ⟨hk', hstep0, ?_⟩
      rw [hs1]
      exact Kept.refl hwf

/-! ### the fold over the groups of one directory, and over the directories -/

theorem Kept.trans {st st' : Store} {new new' : Seg → Prop} {a b c : List FileNode}
    (h1 : Kept max hash st new a b) (h2 : Kept max hash st' new' b c) (he : StoreExt st st')
    (hwfa : AllWF max hash st a) (hn : ∀ x, new x → new' x) : Kept max hash st' new' a c := by
  have h1' := h1.ext he hwfa hn
  refine ⟨by rw [h2.key, h1'.key], h2.wf, ?_⟩
  intro fn' hfn' x hx
  rcases h2.segs fn' hfn' x hx with ⟨fn, hfn, hx2⟩ | h | h
  · exact h1'.segs fn hfn x hx2
  · exact Or.inr (Or.inl h)
  · exact Or.inr (Or.inr h)

/-- the script entries a list of groups consumes, as a predicate on what was consumed -/
def allOk : Nat → Keep → Bool
  | 0, _ => true
  | n + 1, k => k.next.1 == Outcome.ok && allOk n k.next.2

theorem commitGroups_spec (hinj : Function.Injective hash) : ∀ (groups : List (List Ref)) (k : Keep) (files : List FileNode)
    (ok : Bool), KeepOK hash k → AllWF max hash k.store files →
    KeepOK hash (commitGroups hash groups (k, files, ok)).1 ∧
    KeepStep hash k (commitGroups hash groups (k, files, ok)).1 ∧
    Kept max hash (commitGroups hash groups (k, files, ok)).1.store
      (Fresh hash (commitGroups hash groups (k, files, ok)).1) files (commitGroups hash groups (k, files, ok)).2.1 ∧
    (commitGroups hash groups (k, files, ok)).2.2 = (ok && allOk groups.length k) := by
  intro groups
  induction groups with
  | nil =>
    intro k files ok hk hwf
    exact ⟨hk, KeepStep.refl k, Kept.refl hwf, by simp [commitGroups, allOk]⟩
  | cons g rest ih =>
    intro k files ok hk hwf
    obtain ⟨c1, c2, c3⟩ := commitK_spec (max := max) hinj hk files hwf g
    obtain ⟨c5, c6, c4⟩ := commitK_script (hash := hash) k files g
    unfold commitGroups
    simp only []
    obtain ⟨i1, i2, i3, i4⟩ := ih (commitK hash k files g).1 (commitK hash k files g).2.1
      (ok && (commitK hash k files g).2.2) c1 c3.wf
    refine ⟨i1, c2.trans i2, ?_, ?_⟩
    · exact c3.trans i3 i2.ext (fun fn hfn s hs => (hwf fn hfn s hs).ext c2.ext) (fun x hx => hx.mono i2)
    · rw [i4]
      simp only [allOk, List.length_cons]
      have hnext : allOk rest.length (commitK hash k files g).1 = allOk rest.length k.next.2 := by
        have : ∀ (n : Nat) (a b : Keep), a.script = b.script → a.dflt = b.dflt → allOk n a = allOk n b := by
          intro n
          induction n with
          | zero => intros; rfl
          | succ n ihn =>
            intro a b hs hd
            unfold allOk
            have e1 : a.next.1 = b.next.1 := by unfold Keep.next; rw [hs, hd]; cases b.script <;> rfl
            have e2 : a.next.2.script = b.next.2.script := by
              unfold Keep.next; rw [hs]; cases hb : b.script <;> simp [hs, hb]
            have e3 : a.next.2.dflt = b.next.2.dflt := by
              unfold Keep.next; rw [hs]; cases hb : b.script <;> simp [hd]
            rw [e1, ihn _ _ e2 e3]
        apply this _ _ _ c5
        have : k.next.2.dflt = k.dflt := by unfold Keep.next; cases k.script <;> rfl
        rw [this]
        exact c6
      rw [hnext]
      have hb : (commitK hash k files g).2.2 = (k.next.1 == Outcome.ok) := by
        rw [Bool.eq_iff_iff]; simp [c4]
      rw [hb, Bool.and_assoc]

/-- **dirnode.flush of one directory under any outcomes** -/
theorem flushFilesK_spec (hinj : Function.Injective hash) {k : Keep} (hk : KeepOK hash k) (files : List FileNode)
    (hwf : AllWF max hash k.store files) (short : Bool) :
    KeepOK hash (flushFilesK hash max k files short).1 ∧
    KeepStep hash k (flushFilesK hash max k files short).1 ∧
    Kept max hash (flushFilesK hash max k files short).1.store (Fresh hash (flushFilesK hash max k files short).1)
      files (flushFilesK hash max k files short).2.1 ∧
    (flushFilesK hash max k files short).2.2 = allOk (C08.flushGroups max short files).length k := by
  unfold flushFilesK
  obtain ⟨h1, h2, h3, h4⟩ := commitGroups_spec (max := max) hinj (C08.flushGroups max short files) k files true hk hwf
  exact ⟨h1, h2, h3, by rw [h4]; simp⟩

end ArvVerif.C09
