/-
C08 treeness, part 5: the state built by `loadManifest` satisfies `TreeInv`.
-/
import ArvVerif.Proofs.C08_Tree4
import ArvVerif.Proofs.C08_Load
namespace ArvVerif.C08

variable {hash : Bytes → Loc}

theorem loadDirs_tree : ∀ (comps : List String) (s : CFS) (d : Nat) (s' : CFS) (d' : Nat),
    TreeInv s → d < s.dirs.length → loadDirs s d comps = some (s', d') → TreeInv s' ∧ d' < s'.dirs.length := by
  intro comps
  induction comps with
  | nil =>
    intro s d s' d' h1 hd h2
    simp only [loadDirs, Option.some.injEq, Prod.mk.injEq] at h2
    rw [← h2.1, ← h2.2]; exact ⟨h1, hd⟩
  | cons name rest ih =>
    intro s d s' d' h1 hd h2
    unfold loadDirs at h2
    split at h2
    · exact ih _ _ _ _ h1 hd h2
    · split at h2
      · split at h2
        · cases h2
        · exact ih _ _ _ _ h1 (h1.dirs.closed d hd) h2
      · cases hc : child s.ents d name with
        | none =>
          have e : addNode (concImpl (fun _ => []) 1) s d name true =
              ({ s with dirs := s.dirs ++ [(name, d)], ents := setEnt s.ents d name (Node.dir s.dirs.length) },
               Node.dir s.dirs.length) := rfl
          rw [hc, e] at h2
          simp only [] at h2
          have ht := h1.addNode (concImpl (fun _ => []) 1) hd name true
          rw [e] at ht
          exact ih _ _ _ _ ht (by simp) h2
        | some n =>
          rw [hc] at h2
          cases n with
          | dir k =>
            obtain ⟨e, he1, he2⟩ := child_mem hc
            exact ih _ _ _ _ h1 (h1.ents e he1 k he2) h2
          | file f => cases h2

theorem loadFile_tree {s s' : CFS} {d f : Nat} {base : String} (h1 : TreeInv s) (hd : d < s.dirs.length)
    (h2 : loadFile hash s d base = some (s', f)) : TreeInv s' := by
  unfold loadFile at h2
  cases hc : child s.ents d base with
  | none =>
    rw [hc, addNode_false_eq] at h2
    simp only [Option.some.injEq, Prod.mk.injEq] at h2
    have ht := h1.addNode (concImpl hash 1) hd base false
    rw [addNode_false_eq] at ht
    rw [← h2.1]; exact ht
  | some n =>
    rw [hc] at h2
    cases n with
    | dir k => cases h2
    | file f' =>
      simp only [Option.some.injEq, Prod.mk.injEq] at h2
      rw [← h2.1]; exact h1

theorem loadTok_tree {dirname : String} {segs : List LoadSeg}
    (acc : Option (CFS × Nat × Nat)) (tok : Nat × Nat × String) (r : CFS × Nat × Nat)
    (hacc : ∀ a, acc = some a → TreeInv a.1) (hr : loadTok hash dirname segs acc tok = some r) : TreeInv r.1 := by
  unfold loadTok at hr
  cases acc with
  | none => cases hr
  | some a =>
    obtain ⟨s, segIdx, pos⟩ := a
    have hs := hacc _ rfl
    simp only [] at hr hs
    cases hd : loadDirs s 0 (splitPath (dirname ++ "/" ++ tok.2.2)).dropLast with
    | none => rw [hd] at hr; cases hr
    | some sd =>
      obtain ⟨s1, d⟩ := sd
      rw [hd] at hr
      simp only [] at hr
      obtain ⟨ht1, hd1⟩ := loadDirs_tree _ _ _ _ _ hs hs.dirs.nonempty hd
      split at hr
      · split at hr
        · simp only [Option.some.injEq] at hr; rw [← hr]; exact ht1
        · cases hr
      · split at hr
        · cases hr
        · cases hlf : loadFile hash s1 d ((splitPath (dirname ++ "/" ++ tok.2.2)).getLast?.getD "") with
          | none => rw [hlf] at hr; cases hr
          | some sf =>
            obtain ⟨s2, f⟩ := sf
            rw [hlf] at hr
            simp only [] at hr
            have ht2 := loadFile_tree ht1 hd1 hlf
            have hr := ite_none_elim hr
            cases hfile : s2.files[f]? with
            | none => rw [hfile] at hr; cases hr
            | some nc =>
              rw [hfile] at hr
              simp only [Option.some.injEq] at hr
              rw [← hr]
              exact (setFile_same ..).tree ht2

theorem loadManifest_tree (streams : List (String × List Bytes × List (Nat × Nat × String))) (s : CFS)
    (h : loadManifest hash streams = some s) : TreeInv s := by
  unfold loadManifest at h
  have hstream : ∀ (s0 s1 : CFS) (dirname : String) (blocks : List Bytes) (toks : List (Nat × Nat × String)),
      TreeInv s0 → loadStream hash s0 dirname blocks toks = some s1 → TreeInv s1 := by
    intro s0 s1 dirname blocks toks h0 h1
    unfold loadStream at h1
    simp only [] at h1
    have h1 := ite_none_elim h1
    have hfold : ∀ (toks : List (Nat × Nat × String)) (acc : Option (CFS × Nat × Nat)) (r : CFS × Nat × Nat),
        (∀ a, acc = some a → TreeInv a.1) →
        toks.foldl (loadTok hash dirname (blocks.map (fun b => (⟨hash b, b.length⟩ : LoadSeg)))) acc = some r →
        TreeInv r.1 := by
      intro toks
      induction toks with
      | nil => intro acc r hacc hr; exact hacc r hr
      | cons tok rest ih =>
        intro acc r hacc hr
        simp only [List.foldl_cons] at hr
        exact ih _ r (fun a ha => loadTok_tree acc tok a hacc ha) hr
    cases hf : toks.foldl (loadTok hash dirname (blocks.map (fun b => (⟨hash b, b.length⟩ : LoadSeg))))
        (some ({ s0 with world := blocks.foldl (fun st b => Store.put hash st b) s0.world }, 0, 0)) with
    | none => rw [hf] at h1; cases h1
    | some r =>
      rw [hf] at h1
      simp only [Option.map_some, Option.some.injEq] at h1
      rw [← h1]
      refine hfold toks _ r ?_ hf
      intro a ha
      simp only [Option.some.injEq] at ha
      rw [← ha]
      exact h0.of_same rfl rfl
  have : ∀ (streams : List (String × List Bytes × List (Nat × Nat × String))) (acc : Option CFS) (s : CFS),
      (∀ a, acc = some a → TreeInv a) →
      streams.foldl (fun acc (st : String × List Bytes × List (Nat × Nat × String)) =>
        match acc with
        | none => none
        | some s => loadStream hash s st.1 st.2.1 st.2.2) acc = some s → TreeInv s := by
    intro streams
    induction streams with
    | nil => intro acc s hacc hs; exact hacc s hs
    | cons x rest ih =>
      intro acc s hacc hs
      simp only [List.foldl_cons] at hs
      refine ih _ s ?_ hs
      intro a ha
      cases acc with
      | none => cases ha
      | some s0 => exact hstream s0 a _ _ _ (hacc s0 rfl) ha
  refine this streams _ s ?_ h
  intro a ha
  simp only [Option.some.injEq] at ha
  rw [← ha]
  exact TreeInv.init _

end ArvVerif.C08
