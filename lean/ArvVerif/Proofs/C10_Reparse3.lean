/-
C10 — a whole rendered line parses back: `parseManifestStream` of the line `normalizedText`
writes for a stream is the structured stream `normStream`.
-/
import ArvVerif.Proofs.C10_Reparse2
namespace ArvVerif.C10

/-- all segments `normalizedText` looks at, in its order -/
def allSegs (files : List (Bytes × List Seg)) : List Seg :=
  (sortBytes (files.map (·.1))).flatMap fun fn => match files.find? (·.1 = fn) with | some e => e.2 | none => []

/-- the segment list `normalizedText` uses for file name `fn` -/
def segsOfFiles (files : List (Bytes × List Seg)) (fn : Bytes) : List Seg :=
  match files.find? (·.1 = fn) with | some e => e.2 | none => []

/-- conditions under which the rendered line of a stream parses back -/
structure RenderOk (blk : Bytes → Bytes) (name : Bytes) (files : List (Bytes × List Seg)) : Prop where
  shape : name = [bDot] ∨ [bDot, bSlash].isPrefixOf name = true
  nonempty : files ≠ []
  segs : ∀ s ∈ allSegs files, SegOk s
  consistent : DigestConsistent blk (allSegs files)
  fits : streamLen (normStream name files).blocks < two64
  clean : ∀ fn ∈ files.map (·.1), fixStreamName (pathOf name fn) = pathOf name fn

theorem emptyBlockLocator_go : isGoLocator emptyBlockLocator = true ∧ locSize emptyBlockLocator = 0 := by
  constructor <;> decide +kernel

theorem sortBytes_ne_nil (l : List Bytes) (h : l ≠ []) : sortBytes l ≠ [] := by
  cases l with
  | nil => exact absurd rfl h
  | cons a r =>
    intro he
    have : a ∈ sortBytes (a :: r) := (mem_sortBytes a _).mpr (by simp)
    simp [he] at this

theorem normFileToks_ne_nil (tbl : List (Bytes × Nat)) (fn : Bytes) (segs : List Seg) :
    ∃ a l rest, normFileToks tbl fn segs = fileTokText (a : Int) (l : Int) (pkgEscape fn) :: rest := by
  unfold normFileToks
  cases segs with
  | nil => exact ⟨0, 0, [], rfl⟩
  | cons s rest =>
    -- at least one span
    have key : ∀ (ss : List Seg) (cur : Nat × Nat), normSpansS tbl ss (some cur) ≠ [] := by
      intro ss
      induction ss with
      | nil => intro cur; simp [normSpansS]
      | cons x xs ih =>
        intro cur
        simp only [normSpansS]
        split
        · exact ih _
        · simp
    have hne : normSpansS tbl (s :: rest) none ≠ [] := by
      simp only [normSpansS]; exact key rest _
    cases hsp : normSpansS tbl (s :: rest) none with
    | nil => exact absurd hsp hne
    | cons p ps => exact ⟨p.1, p.2, _, rfl⟩

/-- **one rendered line parses back** -/
theorem reparse_line (blk : Bytes → Bytes) (name : Bytes) (files : List (Bytes × List Seg))
    (h : RenderOk blk name files) :
    ∃ line, normalizedText name files = line ++ [bNL] ∧ bNL ∉ line ∧ line ≠ [] ∧
      pkgParseStream line = toPStream (normStream name files) := by
  obtain ⟨hshape, hne, hsegs, hcons, hfits, hclean⟩ := h
  have htext0 : normalizedText name files =
      joinWith bSpace (pkgEscape name ::
        (if (normBlocks ((sortBytes (files.map (·.1))).flatMap (segsOfFiles files)) [] [] 0).2.1 = [] then [emptyBlockLocator]
         else (normBlocks ((sortBytes (files.map (·.1))).flatMap (segsOfFiles files)) [] [] 0).2.1) ++
        (sortBytes (files.map (·.1))).flatMap fun fn =>
          normFileToks (normBlocks ((sortBytes (files.map (·.1))).flatMap (segsOfFiles files)) [] [] 0).1 fn
            (segsOfFiles files fn)) ++ [bNL] := normalizedText_eq name files
  have hns0 : normStream name files =
      ⟨name,
        (if (normBlocks ((sortBytes (files.map (·.1))).flatMap (segsOfFiles files)) [] [] 0).2.1 = [] then [emptyBlockLocator]
         else (normBlocks ((sortBytes (files.map (·.1))).flatMap (segsOfFiles files)) [] [] 0).2.1).map
          (fun t => ⟨t, locSize t⟩),
        (sortBytes (files.map (·.1))).flatMap fun fn =>
          normFileFToks (normBlocks ((sortBytes (files.map (·.1))).flatMap (segsOfFiles files)) [] [] 0).1 fn
            (segsOfFiles files fn)⟩ := rfl
  have hsegs : ∀ s ∈ (sortBytes (files.map (·.1))).flatMap (segsOfFiles files), SegOk s := hsegs
  have hcons : DigestConsistent blk ((sortBytes (files.map (·.1))).flatMap (segsOfFiles files)) := hcons
  rw [hns0] at hfits ⊢
  clear hns0
  simp only [] at hfits
  generalize segsOfFiles files = segsOf at *
  generalize hsorted : sortBytes (files.map (·.1)) = sorted at *
  have hso : sorted ≠ [] := by rw [← hsorted]; exact sortBytes_ne_nil _ (by simpa using hne)
  obtain ⟨b1, b2, b3⟩ := normBlocks_below blk (sorted.flatMap segsOf) hcons (fun s hs => (hsegs s hs).pos)
  generalize hr : normBlocks (sorted.flatMap segsOf) [] [] 0 = r at *
  generalize hbt0 : (if r.2.1 = [] then [emptyBlockLocator] else r.2.1) = btoks at *
  generalize hft0 : (sorted.flatMap fun fn => normFileToks r.1 fn (segsOf fn)) = ftoks at *
  have htext : normalizedText name files = joinWith bSpace (pkgEscape name :: btoks ++ ftoks) ++ [bNL] := htext0
  -- block tokens are Go locators of representable size
  have hbt : ∀ t ∈ btoks, isGoLocator t = true ∧ locSize t < two63 := by
    intro t ht
    rw [← hbt0] at ht
    by_cases he : r.2.1 = []
    · simp only [he, if_true, List.mem_singleton] at ht
      subst ht
      exact ⟨emptyBlockLocator_go.1, by rw [emptyBlockLocator_go.2]; decide⟩
    · simp only [he, if_false] at ht
      obtain ⟨s, hs, rfl⟩ := b2 t ht
      exact ⟨(hsegs s hs).loc, (hsegs s hs).size⟩
  -- no token holds a delimiter
  have hfn : ∀ t ∈ ftoks, bSpace ∉ t ∧ bNL ∉ t ∧ bColon ∈ t := by
    intro t ht
    rw [← hft0] at ht
    simp only [List.mem_flatMap] at ht
    obtain ⟨fn, _, ht⟩ := ht
    unfold normFileToks at ht
    rcases List.mem_append.mp ht with ht | ht
    · obtain ⟨p, _, rfl⟩ := List.mem_map.mp ht
      exact ⟨(fileTok_no_delim p.1 p.2 fn).1, (fileTok_no_delim p.1 p.2 fn).2, fileTok_has_colon _ _ _⟩
    · split at ht
      · simp only [List.mem_singleton] at ht
        subst ht
        have := fileTok_no_delim 0 0 fn
        exact ⟨this.1, this.2, fileTok_has_colon 0 0 _⟩
      · simp at ht
  have htoks : ∀ t ∈ pkgEscape name :: btoks ++ ftoks, bSpace ∉ t ∧ bNL ∉ t := by
    intro t ht
    simp only [List.cons_append, List.mem_cons, List.mem_append] at ht
    rcases ht with rfl | ht | ht
    · exact gt32_no_delim (pkgEscape_gt name)
    · exact goLocator_no_space t (hbt t ht).1
    · exact ⟨(hfn t ht).1, (hfn t ht).2.1⟩
  -- at least one file token, and it is not a locator
  obtain ⟨fn0, rest0, hs0⟩ : ∃ fn0 rest0, sorted = fn0 :: rest0 := by
    cases sorted with
    | nil => exact absurd rfl hso
    | cons a b => exact ⟨a, b, rfl⟩
  have hftne : ftoks ≠ [] := by
    obtain ⟨a, l, rest, hh⟩ := normFileToks_ne_nil r.1 fn0 (segsOf fn0)
    rw [← hft0]
    simp only [hs0, List.flatMap_cons, hh]
    simp
  have hnot : ∀ t rest, ftoks = t :: rest → isGoLocator t = false := by
    intro t rest he
    cases hg : isGoLocator t with
    | false => rfl
    | true => exact absurd (hfn t (by rw [he]; simp)).2.2 (goLocator_no_colon t hg)
  refine ⟨joinWith bSpace (pkgEscape name :: btoks ++ ftoks), htext, ?_, ?_, ?_⟩
  · intro hm
    rcases mem_joinWith bSpace bNL _ hm with h1 | ⟨p, hp, hc⟩
    · revert h1; decide
    · exact (htoks p hp).2 hc
  · intro he
    have := joinWith_length bSpace (pkgEscape name :: btoks ++ ftoks) (by simp)
    rw [he] at this
    simp only [List.length_nil, total_cons, List.cons_append] at this
    have : 0 < total (btoks ++ ftoks) := by
      cases hb : btoks ++ ftoks with
      | nil => simp at hb; exact absurd hb.2 hftne
      | cons x xs => simp only [total_cons]; omega
    omega
  · -- the parse
    have hsplit : splitOn bSpace (joinWith bSpace (pkgEscape name :: btoks ++ ftoks)) = pkgEscape name :: btoks ++ ftoks :=
      splitOn_joinWith bSpace _ (by simp) (fun p hp => (htoks p hp).1)
    have hun : pkgUnescape (pkgEscape name) = name :=
      goUnescape_escapeWith isDigit _ isOctDigit_isDigit (by decide) name
    have hbmap : (btoks.map fun t => (⟨t, locSize t⟩ : Loc)).map (·.text) = btoks := by
      rw [List.map_map]; exact List.map_id' _ |>.symm ▸ (by simp [Function.comp])
    obtain ⟨tw, dw⟩ := takeWhile_locators (btoks.map fun t => ⟨t, locSize t⟩) ftoks
      (by intro b hb; obtain ⟨t, ht, rfl⟩ := List.mem_map.mp hb; exact (hbt t ht).1) hnot
    rw [hbmap] at tw dw
    have hbne : btoks ≠ [] := by
      rw [← hbt0]; split <;> simp [*]
    have htotal : streamLen (btoks.map fun t => (⟨t, locSize t⟩ : Loc)) < two64 := hfits
    -- every span inside the stream
    have hin : ∀ fn ∈ sorted, ∀ p ∈ normSpansS r.1 (segsOf fn) none,
        p.1 + p.2 ≤ 0 + streamLen (btoks.map fun t => (⟨t, locSize t⟩ : Loc)) := by
      intro fn hfn' p hp
      have hbelow : SegsBelow r.1 r.2.2 (segsOf fn) := by
        intro s hs
        exact b3 s (List.mem_flatMap.mpr ⟨fn, hfn', hs⟩)
      have := normSpansS_inside r.1 r.2.2 (segsOf fn) none hbelow (by intro a b h; cases h) p hp
      have hle : r.2.2 ≤ streamLen (btoks.map fun t => (⟨t, locSize t⟩ : Loc)) := by
        rw [b1, ← hbt0]
        split
        · rename_i he; rw [he]; simp
        · exact Nat.le_refl _
      omega
    unfold pkgParseStream
    rw [hsplit, List.cons_append]
    simp only [hun]
    have hpre : ¬ (name ≠ [bDot] ∧ ¬ ([bDot, bSlash].isPrefixOf name = true)) := by
      rcases hshape with h1 | h1
      · intro ⟨a, _⟩; exact a h1
      · intro ⟨_, b⟩; exact b h1
    rw [if_neg hpre, tw, dw, if_neg hbne, pkgBlocks_go btoks hbt]
    simp only []
    rw [if_neg (by omega), if_neg hftne, offsetsFrom_eq_plain _ 0 (by omega), plainOffsets_last,
      ← hft0, pkgFileToks_files name _ r.1 segsOf (by omega) sorted
        (by intro fn hfn'; exact hclean fn (by rw [← hsorted] at hfn'; exact (mem_sortBytes fn _).mp hfn'))
        hin]
    simp [toPStream, offsetsFrom_eq_plain _ 0 (show 0 + streamLen (btoks.map fun t => (⟨t, locSize t⟩ : Loc)) < two64 by omega)]

end ArvVerif.C10
