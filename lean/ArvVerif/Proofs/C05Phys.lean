/-
C05 helper lemmas, part 3: from the per-iteration protection guarantee to the physical-device
statement (`physRepl … heldAfter ≥ min desired (physRepl … heldBefore)`) for layouts whose mounts
are pairwise `Apart`.
-/
import ArvVerif.Proofs.C05Multi
namespace ArvVerif.C05

/-! ### slot lists with the same cores -/

@[simp] theorem core_markWant (w : List Nat) (s : Slot) : core (markWant w s) = core s := by
  unfold core; simp

@[simp] theorem core_finalSlot (b : BState) (s : Slot) : core (finalSlot b s) = core s := by
  unfold core; simp

def CoreRel (l₁ l₂ : List Slot) : Prop := (l₁.map core).Perm (l₂.map core)

theorem CoreRel.refl (l : List Slot) : CoreRel l l := List.Perm.refl _
theorem CoreRel.trans {a b c : List Slot} (h₁ : CoreRel a b) (h₂ : CoreRel b c) : CoreRel a c := List.Perm.trans h₁ h₂
theorem CoreRel.symm {a b : List Slot} (h : CoreRel a b) : CoreRel b a := List.Perm.symm h

theorem coreRel_of_perm {l₁ l₂ : List Slot} (h : l₁.Perm l₂) : CoreRel l₁ l₂ := h.map core

theorem coreRel_map_markWant (w : List Nat) (l : List Slot) : CoreRel (l.map (markWant w)) l := by
  unfold CoreRel
  rw [List.map_map]
  have : (core ∘ markWant w) = core := by funext s; simp
  rw [this]

theorem coreRel_finalWant (b : BState) : CoreRel (finalWant b) b.slots := by
  unfold CoreRel finalWant
  rw [List.map_map]
  have : (core ∘ finalSlot b) = core := by funext s; simp
  rw [this]

theorem classIter_coreRel (env : Env) (c : Class) {sorted : List Slot} {b : BState}
    (h : sorted.Perm b.slots) : CoreRel (classIter env c sorted b).slots b.slots := by
  rw [classIter_slots]
  exact (coreRel_map_markWant _ _).trans (coreRel_of_perm h)

theorem runClasses_coreRel (env : Env) (sorter : Class → List Slot → List Slot) :
    ∀ (cs : List Class) (b : BState), RunOK env sorter cs b → CoreRel (runClasses env sorter cs b).slots b.slots := by
  intro cs
  induction cs with
  | nil => intro b _; exact CoreRel.refl _
  | cons c cs ih =>
    intro b hok
    unfold runClasses
    unfold RunOK at hok
    by_cases hd : env.desired c = 0
    · simp only [hd, if_true] at hok ⊢; exact ih b hok
    · simp only [hd, if_false] at hok ⊢
      exact (ih _ hok.2).trans (classIter_coreRel env c hok.1.1)

theorem coreRel_mnt_perm {l₁ l₂ : List Slot} (h : CoreRel l₁ l₂) : (l₁.map (·.mnt)).Perm (l₂.map (·.mnt)) := by
  have := h.map Prod.fst
  simpa [List.map_map, Function.comp_def, core] using this

/-- sums of terms that look only at the core are the same on core-related lists -/
theorem ssum_coreRel (f : Mount × Option Int → Nat) {l₁ l₂ : List Slot} (h : CoreRel l₁ l₂) :
    ssum (fun s => f (core s)) l₁ = ssum (fun s => f (core s)) l₂ := by
  have := (h.map f).sum_nat
  simpa [ssum, List.map_map, Function.comp_def] using this

def protC (c : Class) (u : List Int) (p : Mount × Option Int) : Nat :=
  match p.2 with
  | some t => if inClass c p.1 && u.contains t then p.1.repl else 0
  | none => 0

theorem protTerm_eq (c : Class) (u : List Int) : protTerm c u = fun s => protC c u (core s) := rfl

theorem protSum_coreRel (c : Class) (u : List Int) {l₁ l₂ : List Slot} (h : CoreRel l₁ l₂) :
    ssum (protTerm c u) l₁ = ssum (protTerm c u) l₂ := by
  rw [protTerm_eq]; exact ssum_coreRel _ h

theorem haveSum_coreRel (c : Class) {l₁ l₂ : List Slot} (h : CoreRel l₁ l₂) :
    ssum (haveTerm c) l₁ = ssum (haveTerm c) l₂ :=
  ssum_coreRel (fun p => if p.2.isSome && inClass c p.1 then p.1.repl else 0) h

theorem allProt_coreRel (c : Class) (u : List Int) {l₁ l₂ : List Slot} (h : CoreRel l₁ l₂)
    (ha : AllProt c u l₁) : AllProt c u l₂ := by
  intro s hs hc t ht
  have : core s ∈ l₁.map core := h.mem_iff.2 (List.mem_map.2 ⟨s, hs, rfl⟩)
  obtain ⟨s', hs', e⟩ := List.mem_map.1 this
  have e1 : s'.mnt = s.mnt := congrArg Prod.fst e
  have e2 : s'.repl = s.repl := congrArg Prod.snd e
  exact ha s' hs' (by rw [e1]; exact hc) t (by rw [e2]; exact ht)

theorem allProt_mono (c : Class) {u u' : List Int} (h : ∀ t ∈ u, t ∈ u') {l : List Slot} (ha : AllProt c u l) :
    AllProt c u' l := fun s hs hc t ht => h t (ha s hs hc t ht)

/-- the protection guarantee of class `c` at some point of the run -/
def Prot (env : Env) (c : Class) (u : List Int) (l : List Slot) : Prop :=
  env.desired c ≤ ssum (protTerm c u) l ∨ AllProt c u l

theorem Prot.transport {env : Env} {c : Class} {u u' : List Int} {l l' : List Slot}
    (hp : Prot env c u l) (hu : ∀ t ∈ u, t ∈ u') (hl : CoreRel l l') : Prot env c u' l' := by
  rcases hp with h | h
  · left
    have h1 : ssum (protTerm c u) l ≤ ssum (protTerm c u') l := ssum_le _ _ _ (fun s _ => protTerm_mono c hu s)
    rw [protSum_coreRel c u' hl] at h1
    omega
  · right
    exact allProt_coreRel c u' hl (allProt_mono c hu h)

theorem apart_pairwise_of_perm {l₁ l₂ : List Mount} (h : l₁.Perm l₂) (hp : l₂.Pairwise Apart) : l₁.Pairwise Apart :=
  (h.pairwise_iff (fun {_ _} hab => Apart.symm hab)).2 hp

/-- If a condition `G` on the slot list (stable under reordering and `want` updates) makes every
iteration for `c` protect the class, then every class of the loop with desired > 0 ends up
protected. -/
theorem runClasses_prot_of (env : Env) (sorter : Class → List Slot → List Slot) (c : Class)
    (G : List Slot → Prop) (hG : ∀ l l', CoreRel l l' → G l' → G l)
    (hiter : ∀ (S : List Slot) (b : BState), S.Pairwise (fun a b => less env c b a = false) → G S →
      Prot env c (classIter env c S b).utd S) :
    ∀ (cs : List Class) (b : BState), RunOK env sorter cs b → G b.slots →
      c ∈ cs → env.desired c ≠ 0 →
      Prot env c (runClasses env sorter cs b).utd (runClasses env sorter cs b).slots := by
  intro cs
  induction cs with
  | nil => intro b _ _ hm; cases hm
  | cons c0 cs ih =>
    intro b hok hg hm hd
    unfold RunOK at hok
    by_cases hd0 : env.desired c0 = 0
    · have hrun : runClasses env sorter (c0 :: cs) b = runClasses env sorter cs b := by
        conv => lhs; unfold runClasses
        simp [hd0]
      simp only [hd0, if_true] at hok
      rw [hrun]
      rcases List.mem_cons.1 hm with rfl | hm'
      · exact absurd hd0 hd
      · exact ih b hok hg hm' hd
    · have hrun : runClasses env sorter (c0 :: cs) b =
          runClasses env sorter cs (classIter env c0 (sorter c0 b.slots) b) := by
        conv => lhs; unfold runClasses
        simp [hd0]
      simp only [hd0, if_false] at hok
      rw [hrun]
      have hS := hok.1
      have hgS : G (sorter c0 b.slots) := hG _ _ (coreRel_of_perm hS.1) hg
      have hg1 : G (classIter env c0 (sorter c0 b.slots) b).slots := hG _ _ (classIter_coreRel env c0 hS.1) hg
      rcases List.mem_cons.1 hm with rfl | hm'
      · have h0 := hiter (sorter c b.slots) b hS.2 hgS
        have hrel : CoreRel (sorter c b.slots)
            (runClasses env sorter cs (classIter env c (sorter c b.slots) b)).slots := by
          have r1 := runClasses_coreRel env sorter cs _ hok.2
          have r2 := classIter_coreRel env c (b := b) hS.1
          exact ((r1.trans r2).trans (coreRel_of_perm hS.1).symm).symm
        exact Prot.transport (env := env) h0 (fun t ht => runClasses_utd_mono env sorter cs _ t ht) hrel
      · exact ih _ hok.2 hg1 hm' hd

/-- one mount per server, no shared device -/
theorem runClasses_prot (env : Env) (sorter : Class → List Slot → List Slot) (c : Class)
    (cs : List Class) (b : BState) (hok : RunOK env sorter cs b) (hap : (b.slots.map (·.mnt)).Pairwise Apart)
    (hc : c ∈ cs) (hd : env.desired c ≠ 0) :
    Prot env c (runClasses env sorter cs b).utd (runClasses env sorter cs b).slots :=
  runClasses_prot_of env sorter c (fun l => (l.map (·.mnt)).Pairwise Apart)
    (fun _ _ hrel h => apart_pairwise_of_perm (coreRel_mnt_perm hrel) h)
    (fun S b hs hg => classIter_protects env c S b hs hg) cs b hok hap hc hd

theorem mem_of_coreRel {l l' : List Slot} (h : CoreRel l l') {s : Slot} (hs : s ∈ l) :
    ∃ s' ∈ l', s'.mnt = s.mnt ∧ s'.repl = s.repl := by
  have : core s ∈ l'.map core := h.mem_iff.1 (List.mem_map.2 ⟨s, hs, rfl⟩)
  obtain ⟨s', hs', e⟩ := List.mem_map.1 this
  exact ⟨s', hs', congrArg Prod.fst e, congrArg Prod.snd e⟩

/-- distinct mounts, no shared device, every replica on an in-class mount -/
theorem runClasses_prot_inclass (env : Env) (sorter : Class → List Slot → List Slot) (c : Class)
    (cs : List Class) (b : BState) (hok : RunOK env sorter cs b)
    (hid : IdsDistinct b.slots) (hdev : DevsDistinct b.slots)
    (hall : ∀ s ∈ b.slots, s.repl.isSome = true → inClass c s.mnt = true)
    (hc : c ∈ cs) (hd : env.desired c ≠ 0) :
    Prot env c (runClasses env sorter cs b).utd (runClasses env sorter cs b).slots :=
  runClasses_prot_of env sorter c
    (fun l => IdsDistinct l ∧ DevsDistinct l ∧ ∀ s ∈ l, s.repl.isSome = true → inClass c s.mnt = true)
    (fun l l' hrel h => by
      refine ⟨?_, ?_, ?_⟩
      · exact ((coreRel_mnt_perm hrel).pairwise_iff (fun {_ _} hab => fun e => hab e.symm)).2 h.1
      · have hsym : ∀ {a b : Mount}, (a.dev = b.dev → a.dev = 0) → (b.dev = a.dev → b.dev = 0) :=
          fun {a b} hab e => by rw [e]; exact hab e.symm
        exact ((coreRel_mnt_perm hrel).pairwise_iff (R := fun (a b : Mount) => a.dev = b.dev → a.dev = 0) hsym).2 h.2.1
      · intro s hs hr
        obtain ⟨s', hs', e1, e2⟩ := mem_of_coreRel hrel hs
        rw [← e1]; exact h.2.2 s' hs' (by rw [e2]; exact hr))
    (fun S b _ hg => classIter_protects_inclass env c S b hg.1 hg.2.1 hg.2.2) cs b hok ⟨hid, hdev, hall⟩ hc hd

/-- different mount objects that are not views of one device (servers may coincide) -/
def DevApart (a b : Mount) : Prop := a.id ≠ b.id ∧ (a.dev = b.dev → a.dev = 0)

theorem DevApart.symm {a b : Mount} (h : DevApart a b) : DevApart b a :=
  ⟨fun e => h.1 e.symm, fun e => by rw [e]; exact h.2 e.symm⟩

theorem Apart.toDev {a b : Mount} (h : Apart a b) : DevApart a b := ⟨h.1, h.2.2⟩

theorem devApart_pairwise_of_perm {l₁ l₂ : List Mount} (h : l₁.Perm l₂) (hp : l₂.Pairwise DevApart) :
    l₁.Pairwise DevApart :=
  (h.pairwise_iff (fun {_ _} hab => DevApart.symm hab)).2 hp

/-! ### the physical-device reading of a result -/

theorem sameDevice_not_apart {a b : Mount} (h : sameDevice a b = true) : ¬ DevApart a b := by
  intro hab
  unfold sameDevice at h
  by_cases h0 : a.dev = 0
  · simp only [h0, if_true, beq_iff_eq] at h
    exact hab.1 h
  · simp only [h0, if_false, beq_iff_eq] at h
    exact h0 (hab.2 h)

theorem sameDevice_not_apart' {a b : Mount} (h : sameDevice a b = true) : ¬ DevApart b a :=
  fun hba => sameDevice_not_apart h hba.symm

theorem sameDevice_self (a : Mount) : sameDevice a a = true := by
  unfold sameDevice; split <;> simp

theorem distinctDevices_of_apart : ∀ (l : List Mount), l.Pairwise DevApart → distinctDevices l = l := by
  intro l
  induction l with
  | nil => intro _; rfl
  | cons a l ih =>
    intro h
    have h' := List.pairwise_cons.1 h
    unfold distinctDevices
    rw [ih h'.2]
    have : l.any (sameDevice a) = false := by
      rw [List.any_eq_false]
      intro b hb hsd
      exact sameDevice_not_apart hsd (h'.1 b hb)
    simp [this]

theorem sum_filter_map_eq_ssum (c : Class) (q : Slot → Bool) : ∀ (L : List Slot),
    ((((L.filter q).map (·.mnt)).filter (inClass c)).map (·.repl)).sum =
      ssum (fun s => if q s && inClass c s.mnt then s.mnt.repl else 0) L := by
  intro L
  induction L with
  | nil => rfl
  | cons a L ih =>
    rw [ssum_cons, ← ih]
    cases hq : q a
    · simp [hq]
    · cases hc : inClass c a.mnt
      · simp [hq, hc]
      · simp [hq, hc]

/-- in-class replication that survives the trash list -/
def keptTerm (env : Env) (reps : List Replica) (c : Class) (s : Slot) : Nat :=
  if (s.repl.isSome && !(change env reps s).isTrash) && inClass c s.mnt then s.mnt.repl else 0

section
variable (env : Env) (reps : List Replica)

theorem heldBefore_eq (F : List Slot) (b : BState) :
    (Result.heldBefore { changes := F.map (fun s => (s, change env reps s)), final := b }) =
      (F.filter (fun s => s.repl.isSome)).map (·.mnt) := by
  unfold Result.heldBefore
  simp only [List.filter_map, List.map_map]
  rfl

theorem trashedMounts_mem (F : List Slot) (b : BState) (m : Mount) :
    m ∈ (Result.trashedMounts { changes := F.map (fun s => (s, change env reps s)), final := b }) ↔
      ∃ s ∈ F, (change env reps s).isTrash = true ∧ s.mnt = m := by
  unfold Result.trashedMounts
  simp only [List.mem_map, List.mem_filter]
  constructor
  · rintro ⟨p, ⟨⟨s0, hs0, rfl⟩, ht⟩, rfl⟩
    exact ⟨s0, hs0, ht, rfl⟩
  · rintro ⟨s, hs, ht, rfl⟩
    exact ⟨(s, change env reps s), ⟨⟨s, hs, rfl⟩, ht⟩, rfl⟩

/-- with pairwise-apart mounts, a mount is hit by the trash list iff its own slot is trashed -/
theorem trashed_any_iff (F : List Slot) (b : BState) (hap : (F.map (·.mnt)).Pairwise DevApart) (s : Slot) (hs : s ∈ F) :
    (Result.trashedMounts { changes := F.map (fun s => (s, change env reps s)), final := b }).any (sameDevice s.mnt) =
      (change env reps s).isTrash := by
  cases ht : (change env reps s).isTrash
  · rw [List.any_eq_false]
    intro m hm hsd
    obtain ⟨s', hs', ht', rfl⟩ := (trashedMounts_mem env reps F b m).1 hm
    have : s = s' := eq_of_pairwise_map (fun (x : Slot) => x.mnt) DevApart F hap s hs s' hs'
      (sameDevice_not_apart hsd) (sameDevice_not_apart' hsd)
    rw [this, ht'] at ht; cases ht
  · rw [List.any_eq_true]
    exact ⟨s.mnt, (trashedMounts_mem env reps F b s.mnt).2 ⟨s, hs, ht, rfl⟩, sameDevice_self _⟩

theorem heldAfter_eq (F : List Slot) (b : BState) (hap : (F.map (·.mnt)).Pairwise DevApart) :
    (Result.heldAfter { changes := F.map (fun s => (s, change env reps s)), final := b }) =
      (F.filter (fun s => s.repl.isSome && !(change env reps s).isTrash)).map (·.mnt) := by
  unfold Result.heldAfter
  rw [heldBefore_eq]
  rw [List.filter_map, List.filter_filter]
  congr 1
  apply List.filter_congr
  intro s hs
  simp only [Function.comp]
  rw [trashed_any_iff env reps F b hap s hs]
  cases s.repl.isSome <;> cases (change env reps s).isTrash <;> rfl

theorem physRepl_before (c : Class) (F : List Slot) (b : BState) (hap : (F.map (·.mnt)).Pairwise DevApart) :
    physRepl c (Result.heldBefore { changes := F.map (fun s => (s, change env reps s)), final := b }) =
      ssum (haveTerm c) F := by
  rw [heldBefore_eq]
  unfold physRepl
  rw [distinctDevices_of_apart _ (hap.sublist ((List.filter_sublist).map _))]
  rw [sum_filter_map_eq_ssum]
  rfl

theorem physRepl_after (c : Class) (F : List Slot) (b : BState) (hap : (F.map (·.mnt)).Pairwise DevApart) :
    physRepl c (Result.heldAfter { changes := F.map (fun s => (s, change env reps s)), final := b }) =
      ssum (keptTerm env reps c) F := by
  rw [heldAfter_eq env reps F b hap]
  unfold physRepl
  rw [distinctDevices_of_apart _ (hap.sublist ((List.filter_sublist).map _))]
  rw [sum_filter_map_eq_ssum]
  rfl

end

/-- a replica whose mtime is in unsafeToDelete is not trashed -/
theorem protTerm_le_kept (env : Env) (reps : List Replica) (c : Class) (b : BState) :
    ∀ s ∈ finalWant b, protTerm c b.utd s ≤ keptTerm env reps c s := by
  intro s hs
  unfold finalWant at hs
  obtain ⟨s0, _, rfl⟩ := List.mem_map.1 hs
  cases hr : (finalSlot b s0).repl with
  | none => rw [protTerm_none c _ _ hr]; exact Nat.zero_le _
  | some t =>
    rw [protTerm_some c _ _ t hr]
    cases hc : inClass c (finalSlot b s0).mnt
    · simp
    · cases hu : b.utd.contains t
      · simp
      · -- want is set, hence no trash
        have hw : (finalSlot b s0).want = true := by
          have hr0 : s0.repl = some t := by simpa using hr
          unfold finalSlot
          rw [hr0]
          simp only [hu, Bool.or_true, if_true]
        have hnt : (change env reps (finalSlot b s0)).isTrash = false := by
          cases hch : change env reps (finalSlot b s0) with
          | trash t' =>
            have := (change_trash hch).2.1
            rw [hw] at this; cases this
          | _ => rfl
        have h1 : (finalSlot b s0).repl.isSome = true := by rw [hr]; rfl
        unfold keptTerm
        rw [h1, hnt, hc]
        simp

/-- The central accounting step. -/
theorem safe_of_prot (env : Env) (reps : List Replica) (c : Class) (b : BState)
    (hp : Prot env c b.utd b.slots) :
    min (env.desired c) (ssum (haveTerm c) (finalWant b)) ≤ ssum (keptTerm env reps c) (finalWant b) := by
  have hrel := (coreRel_finalWant b).symm
  have hp' : Prot env c b.utd (finalWant b) := Prot.transport hp (fun _ h => h) hrel
  have hle : ssum (protTerm c b.utd) (finalWant b) ≤ ssum (keptTerm env reps c) (finalWant b) :=
    ssum_le _ _ _ (protTerm_le_kept env reps c b)
  rcases hp' with h | h
  · have := Nat.min_le_left (env.desired c) (ssum (haveTerm c) (finalWant b))
    omega
  · have e : ssum (protTerm c b.utd) (finalWant b) = ssum (haveTerm c) (finalWant b) :=
      ssum_congr _ _ _ (protTerm_of_allProt c b.utd _ h)
    have := Nat.min_le_right (env.desired c) (ssum (haveTerm c) (finalWant b))
    omega

theorem initSlots_mnt (mounts : List Mount) (reps : List Replica) :
    (initSlots mounts reps).map (·.mnt) = mounts := by
  induction mounts with
  | nil => rfl
  | cons m l ih =>
    unfold initSlots at ih ⊢
    simp only [List.map_cons, List.map_map] at ih ⊢
    rw [ih]

/-- from the protection guarantee at the end of the class loop to the physical statement -/
theorem trash_safe_of_prot (env : Env) (classes : List Class) (sorter : Class → List Slot → List Slot)
    (mounts : List Mount) (reps : List Replica)
    (hok : BalanceOK env classes sorter mounts reps) (hap : mounts.Pairwise DevApart) (c : Class)
    (hprot : Prot env c (balanceBlock env classes sorter mounts reps).final.utd
      (balanceBlock env classes sorter mounts reps).final.slots) :
    min (env.desired c) (physRepl c (balanceBlock env classes sorter mounts reps).heldBefore) ≤
      physRepl c (balanceBlock env classes sorter mounts reps).heldAfter := by
  unfold BalanceOK at hok
  have hap0 : ((initSlots mounts reps).map (·.mnt)).Pairwise DevApart := by rw [initSlots_mnt]; exact hap
  have hrel := runClasses_coreRel env sorter classes _ hok
  show min (env.desired c) (physRepl c (Result.heldBefore
      { changes := (finalWant _).map (fun s => (s, change env reps s)), final := _ })) ≤
    physRepl c (Result.heldAfter { changes := (finalWant _).map (fun s => (s, change env reps s)), final := _ })
  have hapF : ((finalWant (runClasses env sorter classes
      { slots := initSlots mounts reps, utd := [], underrep := false })).map (·.mnt)).Pairwise DevApart :=
    devApart_pairwise_of_perm (coreRel_mnt_perm ((coreRel_finalWant _).trans hrel)) hap0
  rw [physRepl_before env reps c _ _ hapF, physRepl_after env reps c _ _ hapF]
  exact safe_of_prot env reps c _ hprot

/-- one mount per server and no shared device -/
theorem trash_safe_of_apart (env : Env) (classes : List Class) (sorter : Class → List Slot → List Slot)
    (mounts : List Mount) (reps : List Replica)
    (hok : BalanceOK env classes sorter mounts reps) (hap : mounts.Pairwise Apart)
    (c : Class) (hc : c ∈ classes) (hd : env.desired c ≠ 0) :
    min (env.desired c) (physRepl c (balanceBlock env classes sorter mounts reps).heldBefore) ≤
      physRepl c (balanceBlock env classes sorter mounts reps).heldAfter := by
  apply trash_safe_of_prot env classes sorter mounts reps hok (hap.imp Apart.toDev) c
  have hap0 : ((initSlots mounts reps).map (·.mnt)).Pairwise Apart := by rw [initSlots_mnt]; exact hap
  exact runClasses_prot env sorter c classes _ hok hap0 hc hd

/-- no shared device and every replica on a mount of the class (any number of mounts per server) -/
theorem trash_safe_of_inclass (env : Env) (classes : List Class) (sorter : Class → List Slot → List Slot)
    (mounts : List Mount) (reps : List Replica)
    (hok : BalanceOK env classes sorter mounts reps) (hap : mounts.Pairwise DevApart)
    (c : Class) (hc : c ∈ classes) (hd : env.desired c ≠ 0)
    (hall : ∀ m ∈ mounts, (replicaOn reps m.id).isSome = true → inClass c m = true) :
    min (env.desired c) (physRepl c (balanceBlock env classes sorter mounts reps).heldBefore) ≤
      physRepl c (balanceBlock env classes sorter mounts reps).heldAfter := by
  apply trash_safe_of_prot env classes sorter mounts reps hok hap c
  have hmnt := initSlots_mnt mounts reps
  apply runClasses_prot_inclass env sorter c classes _ hok
  · show ((initSlots mounts reps).map (·.mnt)).Pairwise (fun a b => a.id ≠ b.id)
    rw [hmnt]; exact hap.imp (fun h => h.1)
  · show ((initSlots mounts reps).map (·.mnt)).Pairwise (fun a b => a.dev = b.dev → a.dev = 0)
    rw [hmnt]; exact hap.imp (fun h => h.2)
  · intro s hs hr
    have := mem_initSlots hs
    exact hall s.mnt this.1 (by rw [← this.2.1]; exact hr)
  · exact hc
  · exact hd

end ArvVerif.C05
