/-
C05 helper lemmas, part 4: from the guarantee at the end of the class loop to the physical-device
statements — trash safety and the soundness of the under-replication test.
-/
import ArvVerif.Proofs.C05Inv
namespace ArvVerif.C05

section
variable (env : Env) (reps : List Replica)

/-- mounts on which a slot list shows a replica -/
def heldOf (l : List Slot) : List Mount := (l.filter (fun s => s.repl.isSome)).map (·.mnt)

theorem mem_heldOf {l : List Slot} {m : Mount} : m ∈ heldOf l ↔ ∃ s ∈ l, s.mnt = m ∧ s.repl.isSome = true := by
  unfold heldOf
  simp only [List.mem_map, List.mem_filter]
  constructor
  · rintro ⟨s, ⟨hs, hr⟩, rfl⟩; exact ⟨s, hs, rfl, hr⟩
  · rintro ⟨s, hs, rfl, hr⟩; exact ⟨s, ⟨hs, hr⟩, rfl⟩

theorem heldOf_coreRel {l l' : List Slot} (h : CoreRel l l') (m : Mount) : m ∈ heldOf l ↔ m ∈ heldOf l' := by
  rw [mem_heldOf, mem_heldOf]
  constructor
  · rintro ⟨s, hs, e1, e2⟩
    obtain ⟨s', hs', f1, f2⟩ := mem_of_coreRel h hs
    exact ⟨s', hs', f1.trans e1, by rw [f2]; exact e2⟩
  · rintro ⟨s, hs, e1, e2⟩
    obtain ⟨s', hs', f1, f2⟩ := mem_of_coreRel h.symm hs
    exact ⟨s', hs', f1.trans e1, by rw [f2]; exact e2⟩

theorem heldBefore_eq (F : List Slot) (b : BState) (lf : Bool) :
    (Result.heldBefore { changes := F.map (fun s => (s, change env reps s)), final := b, lost := lf }) = heldOf F := by
  unfold Result.heldBefore heldOf
  simp only [List.filter_map, List.map_map]
  rfl

theorem trashedMounts_mem (F : List Slot) (b : BState) (lf : Bool) (m : Mount) :
    m ∈ (Result.trashedMounts { changes := F.map (fun s => (s, change env reps s)), final := b, lost := lf }) ↔
      ∃ s ∈ F, (change env reps s).isTrash = true ∧ s.mnt = m := by
  unfold Result.trashedMounts
  simp only [List.mem_map, List.mem_filter]
  constructor
  · rintro ⟨p, ⟨⟨s0, hs0, rfl⟩, ht⟩, rfl⟩
    exact ⟨s0, hs0, ht, rfl⟩
  · rintro ⟨s, hs, ht, rfl⟩
    exact ⟨(s, change env reps s), ⟨⟨s, hs, rfl⟩, ht⟩, rfl⟩

theorem mem_heldAfter (F : List Slot) (b : BState) (lf : Bool) (m : Mount) :
    m ∈ (Result.heldAfter { changes := F.map (fun s => (s, change env reps s)), final := b, lost := lf }) ↔
      m ∈ heldOf F ∧ ∀ s ∈ F, (change env reps s).isTrash = true → devKey m ≠ devKey s.mnt := by
  unfold Result.heldAfter
  rw [List.mem_filter, heldBefore_eq]
  constructor
  · rintro ⟨h1, h2⟩
    refine ⟨h1, fun s hs ht hk => ?_⟩
    have : (Result.trashedMounts { changes := F.map (fun s => (s, change env reps s)), final := b, lost := lf }).any
        (sameDevice m) = true := by
      rw [List.any_eq_true]
      exact ⟨s.mnt, (trashedMounts_mem env reps F b lf s.mnt).2 ⟨s, hs, ht, rfl⟩, (sameDevice_iff _ _).2 hk⟩
    rw [this] at h2; cases h2
  · rintro ⟨h1, h2⟩
    refine ⟨h1, ?_⟩
    rw [Bool.not_eq_true', List.any_eq_false]
    intro m' hm' hsd
    obtain ⟨s, hs, ht, rfl⟩ := (trashedMounts_mem env reps F b lf m').1 hm'
    exact h2 s hs ht ((sameDevice_iff _ _).1 hsd)

theorem isTrash_want {s : Slot} (h : (change env reps s).isTrash = true) : s.want = false ∧ s.repl.isSome = true := by
  cases hc : change env reps s with
  | trash t =>
    have := change_trash hc
    exact ⟨this.2.1, by rw [this.1]; rfl⟩
  | lost => rw [hc] at h; cases h
  | pull src => rw [hc] at h; cases h
  | stay => rw [hc] at h; cases h
  | none => rw [hc] at h; cases h

end

/-- at the very end a replica whose mtime is unsafe to delete is wanted -/
theorem kept_final (b : BState) : ∀ s ∈ finalWant b, Kept b.utd s → ∀ t, s.repl = some t → s.want = true := by
  intro s hs hk t ht
  rcases hk t ht with h | h
  · exact h
  · unfold finalWant at hs
    obtain ⟨s0, _, rfl⟩ := List.mem_map.1 hs
    have hr0 : s0.repl = some t := by simpa using ht
    unfold finalSlot
    rw [hr0]
    have : b.utd.contains t = true := List.contains_iff_mem.2 h
    simp only [this, Bool.or_true, if_true]

/-- `range blk.Desired` finds a wanted class with property `p` iff there is one -/
theorem wantsSome_iff (env : Env) (p : Class → Bool) :
    env.wantsSome p = true ↔ ∃ c, env.desired c ≠ 0 ∧ p c = true := by
  unfold Env.wantsSome
  rw [List.any_eq_true]
  constructor
  · rintro ⟨e, _, he⟩
    simp only [Bool.and_eq_true, decide_eq_true_eq] at he
    exact ⟨e.1, he.1, he.2⟩
  · rintro ⟨c, hd, hp⟩
    have hl : lookupD env.desiredMap c ≠ none := by
      intro hn
      apply hd
      unfold Env.desired
      rw [hn]; rfl
    unfold lookupD at hl
    cases hf : env.desiredMap.find? (fun q => q.1 == c) with
    | none => rw [hf] at hl; exact absurd rfl hl
    | some e =>
      have hmem := List.mem_of_find?_eq_some hf
      have hec : e.1 = c := by simpa using List.find?_some hf
      refine ⟨e, hmem, ?_⟩
      rw [hec]
      simp [hd, hp]

/-- when no replica-holding slot of the final list is unwanted, nothing is trashed and the
replication of every class is what it was -/
theorem safe_of_all_wanted (env : Env) (reps : List Replica) (c : Class) (d : Nat) (mounts : List Mount)
    (hkc : KeyConsistent c mounts) (F : List Slot) (b : BState) (lf : Bool)
    (hmemF : ∀ s ∈ F, s.mnt ∈ mounts)
    (hw : ∀ s ∈ F, ∀ t, s.repl = some t → s.want = true) :
    min d (physRepl c (Result.heldBefore { changes := F.map (fun s => (s, change env reps s)), final := b, lost := lf })) ≤
      physRepl c (Result.heldAfter { changes := F.map (fun s => (s, change env reps s)), final := b, lost := lf }) := by
  have hno : ∀ s ∈ F, (change env reps s).isTrash = false := by
    intro s hs
    cases ht : (change env reps s).isTrash with
    | false => rfl
    | true =>
      have hwt := isTrash_want env reps ht
      cases hr : s.repl with
      | none => rw [hr] at hwt; cases hwt.2
      | some t =>
        have := hw s hs t hr
        rw [hwt.1] at this; cases this
  have heq : ∀ m, m ∈ (Result.heldBefore
        { changes := F.map (fun s => (s, change env reps s)), final := b, lost := lf }) ↔
      m ∈ (Result.heldAfter { changes := F.map (fun s => (s, change env reps s)), final := b, lost := lf }) := by
    intro m
    rw [heldBefore_eq, mem_heldAfter]
    constructor
    · intro h
      exact ⟨h, fun s hs ht => by rw [hno s hs] at ht; cases ht⟩
    · intro h; exact h.1
  have hkc' : KeyConsistent c (Result.heldBefore
      { changes := F.map (fun s => (s, change env reps s)), final := b, lost := lf }) := by
    apply hkc.sub
    intro m hm
    rw [heldBefore_eq] at hm
    obtain ⟨s, hs, e1, _⟩ := mem_heldOf.1 hm
    rw [← e1]; exact hmemF s hs
  rw [← physRepl_congr c _ _ hkc' heq]
  exact Nat.min_le_right _ _

/-- The central accounting step: a class guarantee at the end of the loop gives the physical
statement for the result. -/
theorem trash_safe_of_guar (env : Env) (classes : List Class) (sorter : Class → List Slot → List Slot)
    (mounts : List Mount) (reps : List Replica)
    (hok : BalancePerm env classes sorter mounts reps) (hid : DistinctIds mounts) (hcons : DeviceConsistent mounts)
    (c : Class)
    (hg : Guar c (env.desired c) (balanceBlock env classes sorter mounts reps).final.utd
      (balanceBlock env classes sorter mounts reps).final.slots) :
    min (env.desired c) (physRepl c (balanceBlock env classes sorter mounts reps).heldBefore) ≤
      physRepl c (balanceBlock env classes sorter mounts reps).heldAfter := by
  unfold BalancePerm at hok
  generalize hb : (balanceBlock env classes sorter mounts reps).final = b at hg
  have hbdef : b = runClasses env sorter classes (initState env classes mounts reps) := by
    rw [← hb]; rfl
  have hres : balanceBlock env classes sorter mounts reps =
      { changes := (finalWant b).map (fun s => (s, change env reps s)), final := b,
        lost := lostFlag env reps ((finalWant b).map (fun s => (s, change env reps s))) } := by
    rw [hbdef]; rfl
  rw [hres]
  generalize lostFlag env reps ((finalWant b).map (fun s => (s, change env reps s))) = lf
  -- the guarantee on the final slot list
  have hgF : Guar c (env.desired c) b.utd (finalWant b) := hg.transport (fun _ h => h) (evolves_finalWant b)
  -- mounts of the final list are mounts of the layout
  have hrelF : CoreRel (finalWant b) (initSlots mounts reps) := by
    rw [hbdef]; exact (coreRel_finalWant _).trans (runClasses_coreRel env sorter classes _ hok)
  have hmemF : ∀ s ∈ finalWant b, s.mnt ∈ mounts := by
    intro s hs
    have : s.mnt ∈ (finalWant b).map (·.mnt) := List.mem_map.2 ⟨s, hs, rfl⟩
    have := (coreRel_mnt_perm hrelF).mem_iff.1 this
    rwa [initSlots_mnt] at this
  have hkc : KeyConsistent c mounts := keyConsistent_of c hid hcons
  rcases hgF with ⟨Cm, hnd, hsum, hC⟩ | hall
  · -- the counted devices survive
    have hsub : ∀ m ∈ Cm, m ∈ (Result.heldAfter
        { changes := (finalWant b).map (fun s => (s, change env reps s)), final := b, lost := lf }) ∧
        inClass c m = true := by
      intro m hm
      obtain ⟨a1, ⟨s, hs, e1, e2⟩, a3⟩ := hC m hm
      refine ⟨(mem_heldAfter env reps _ b lf m).2 ⟨mem_heldOf.2 ⟨s, hs, e1, e2⟩, ?_⟩, a1⟩
      intro s' hs' ht hk
      have hw := isTrash_want env reps ht
      cases hr : s'.repl with
      | none => rw [hr] at hw; cases hw.2
      | some t =>
        have := kept_final b s' hs' (a3 s' hs' hk.symm) t hr
        rw [hw.1] at this; cases this
    have hkc' : KeyConsistent c (Result.heldAfter
        { changes := (finalWant b).map (fun s => (s, change env reps s)), final := b, lost := lf }) := by
      apply hkc.sub
      intro m hm
      obtain ⟨s, hs, e1, _⟩ := mem_heldOf.1 ((mem_heldAfter env reps _ b lf m).1 hm).1
      rw [← e1]; exact hmemF s hs
    have := physRepl_ge c _ hkc' Cm hsub hnd
    have h2 := Nat.min_le_left (env.desired c) (physRepl c (Result.heldBefore
      { changes := (finalWant b).map (fun s => (s, change env reps s)), final := b, lost := lf }))
    omega
  · -- nothing is trashed at all
    exact safe_of_all_wanted env reps c (env.desired c) mounts hkc (finalWant b) b lf hmemF
      (fun s hs t hr => kept_final b s hs (hall s hs) t hr)

/-- the same when the under-replication flag is set at the end (every replica is then wanted) -/
theorem trash_safe_of_underrep (env : Env) (classes : List Class) (sorter : Class → List Slot → List Slot)
    (mounts : List Mount) (reps : List Replica)
    (hok : BalancePerm env classes sorter mounts reps) (hid : DistinctIds mounts) (hcons : DeviceConsistent mounts)
    (c : Class) (hu : (balanceBlock env classes sorter mounts reps).final.underrep = true) :
    min (env.desired c) (physRepl c (balanceBlock env classes sorter mounts reps).heldBefore) ≤
      physRepl c (balanceBlock env classes sorter mounts reps).heldAfter := by
  unfold BalancePerm at hok
  generalize hb : (balanceBlock env classes sorter mounts reps).final = b at hu
  have hbdef : b = runClasses env sorter classes (initState env classes mounts reps) := by
    rw [← hb]; rfl
  have hres : balanceBlock env classes sorter mounts reps =
      { changes := (finalWant b).map (fun s => (s, change env reps s)), final := b,
        lost := lostFlag env reps ((finalWant b).map (fun s => (s, change env reps s))) } := by
    rw [hbdef]; rfl
  rw [hres]
  have hrelF : CoreRel (finalWant b) (initSlots mounts reps) := by
    rw [hbdef]; exact (coreRel_finalWant _).trans (runClasses_coreRel env sorter classes _ hok)
  have hmemF : ∀ s ∈ finalWant b, s.mnt ∈ mounts := by
    intro s hs
    have : s.mnt ∈ (finalWant b).map (·.mnt) := List.mem_map.2 ⟨s, hs, rfl⟩
    have := (coreRel_mnt_perm hrelF).mem_iff.1 this
    rwa [initSlots_mnt] at this
  apply safe_of_all_wanted env reps c (env.desired c) mounts (keyConsistent_of c hid hcons) (finalWant b) b _ hmemF
  intro s hs t ht
  unfold finalWant at hs
  obtain ⟨s0, _, rfl⟩ := List.mem_map.1 hs
  have hr0 : s0.repl = some t := by simpa using ht
  unfold finalSlot
  rw [hr0]
  simp only [hu, Bool.true_or, if_true]

/-- the flag is set from the start when the block is wanted in a class that no mount offers -/
theorem underrep_of_unoffered (env : Env) (classes : List Class) (sorter : Class → List Slot → List Slot)
    (mounts : List Mount) (reps : List Replica) (c : Class) (hc : c ∉ classes) (hd : env.desired c ≠ 0) :
    (balanceBlock env classes sorter mounts reps).final.underrep = true := by
  apply runClasses_underrep_mono
  show env.wantsSome (fun c => !classes.contains c) = true
  rw [wantsSome_iff]
  exact ⟨c, hd, by simpa using hc⟩

/-! ### the under-replication test counts physical devices -/

theorem countedSafe_sub (c : Class) : ∀ (l : List Slot) (seen : List Dev), ∀ k ∈ countedSafe c l seen,
    (∃ s ∈ l, s.mnt = k ∧ s.repl.isSome = true) ∧ inClass c k = true ∧ seen.contains k.dev = false := by
  intro l
  induction l with
  | nil => intro seen k hk; cases hk
  | cons s l ih =>
    intro seen k hk
    unfold countedSafe at hk
    by_cases h : (s.repl.isNone || !inClass c s.mnt || seen.contains s.mnt.dev) = true
    · rw [if_pos h] at hk
      obtain ⟨⟨s', hs', e⟩, a2, a3⟩ := ih seen k hk
      exact ⟨⟨s', List.mem_cons_of_mem _ hs', e⟩, a2, a3⟩
    · rw [if_neg h] at hk
      have h' := Bool.eq_false_iff.mpr h
      simp only [Bool.or_eq_false_iff, Bool.not_eq_false'] at h'
      rcases List.mem_cons.1 hk with rfl | hk'
      · refine ⟨⟨s, List.mem_cons_self .., rfl, ?_⟩, h'.1.2, h'.2⟩
        cases hr : s.repl with
        | none => rw [hr] at h'; simp at h'
        | some t => rfl
      · obtain ⟨⟨s', hs', e⟩, a2, a3⟩ := ih _ k hk'
        refine ⟨⟨s', List.mem_cons_of_mem _ hs', e⟩, a2, ?_⟩
        cases hc : seen.contains k.dev with
        | false => rfl
        | true =>
          have : (if s.mnt.dev != 0 then s.mnt.dev :: seen else seen).contains k.dev = true := by
            split
            · exact contains_cons_of _ hc
            · exact hc
          rw [this] at a3; cases a3

theorem countedSafe_nodup (c : Class) : ∀ (l : List Slot) (seen : List Dev), IdsDistinct l →
    ((countedSafe c l seen).map devKey).Nodup := by
  intro l
  induction l with
  | nil => intro _ _; exact List.nodup_nil
  | cons s l ih =>
    intro seen hid
    have hid' := List.pairwise_cons.1 (show (s.mnt :: l.map (·.mnt)).Pairwise (fun a b => a.id ≠ b.id) from hid)
    unfold countedSafe
    by_cases h : (s.repl.isNone || !inClass c s.mnt || seen.contains s.mnt.dev) = true
    · rw [if_pos h]; exact ih seen hid'.2
    · rw [if_neg h]
      simp only [List.map_cons]
      refine List.nodup_cons.2 ⟨?_, ih _ hid'.2⟩
      intro hmem
      obtain ⟨k, hk, hkey⟩ := List.mem_map.1 hmem
      obtain ⟨⟨s', hs', e, _⟩, _, a3⟩ := countedSafe_sub c l _ k hk
      rcases (devKey_eq_iff k s.mnt).1 hkey with ⟨_, _, hidd⟩ | ⟨h0, hd⟩
      · exact hid'.1 s'.mnt (List.mem_map.2 ⟨s', hs', rfl⟩) (by rw [e]; exact hidd.symm)
      · have hne : (s.mnt.dev != 0) = true := by rw [← hd]; simpa using h0
        rw [if_pos hne, hd, contains_cons_self'] at a3
        cases a3

theorem countedSafe_cover (c : Class) : ∀ (l : List Slot) (seen : List Dev), ∀ s ∈ l,
    s.repl.isSome = true → inClass c s.mnt = true →
    seen.contains s.mnt.dev = true ∨ ∃ k ∈ countedSafe c l seen, devKey k = devKey s.mnt := by
  intro l
  induction l with
  | nil => intro _ s hs; cases hs
  | cons s0 l ih =>
    intro seen s hs hr hin
    unfold countedSafe
    by_cases h : (s0.repl.isNone || !inClass c s0.mnt || seen.contains s0.mnt.dev) = true
    · rw [if_pos h]
      rcases List.mem_cons.1 hs with rfl | hs'
      · left
        cases hrr : s.repl with
        | none => rw [hrr] at hr; cases hr
        | some t =>
          rw [hrr, hin] at h
          simpa using h
      · exact ih seen s hs' hr hin
    · rw [if_neg h]
      rcases List.mem_cons.1 hs with rfl | hs'
      · right; exact ⟨s.mnt, List.mem_cons_self .., rfl⟩
      · rcases ih (if s0.mnt.dev != 0 then s0.mnt.dev :: seen else seen) s hs' hr hin with h1 | ⟨k, hk, hkey⟩
        · by_cases hne : (s0.mnt.dev != 0) = true
          · rw [if_pos hne, List.contains_cons, Bool.or_eq_true] at h1
            rcases h1 with h1 | h1
            · right
              refine ⟨s0.mnt, List.mem_cons_self .., ?_⟩
              have e : s.mnt.dev = s0.mnt.dev := by simpa using h1
              have h0 : s0.mnt.dev ≠ 0 := by simpa using hne
              rw [devKey_named h0, devKey_named (by rw [e]; exact h0), e]
            · left; exact h1
          · rw [if_neg hne] at h1; left; exact h1
        · right; exact ⟨k, List.mem_cons_of_mem _ hk, hkey⟩

/-- what the `safe` loop sums is the physical replication of the class -/
theorem countedSafe_sum (c : Class) (l : List Slot) (hid : IdsDistinct l) (hkc : KeyConsistent c (heldOf l)) :
    ((countedSafe c l []).map (·.repl)).sum = physRepl c (heldOf l) := by
  have hsub : ∀ k ∈ countedSafe c l [], k ∈ heldOf l ∧ inClass c k = true := by
    intro k hk
    obtain ⟨⟨s, hs, e1, e2⟩, a2, _⟩ := countedSafe_sub c l [] k hk
    exact ⟨mem_heldOf.2 ⟨s, hs, e1, e2⟩, a2⟩
  apply Nat.le_antisymm
  · exact physRepl_ge c _ hkc _ hsub (countedSafe_nodup c l [] hid)
  · apply physRepl_le c _ hkc _ (fun k hk => (hsub k hk).1)
    intro m hm hin
    obtain ⟨s, hs, e1, e2⟩ := mem_heldOf.1 hm
    rcases countedSafe_cover c l [] s hs e2 (by rw [e1]; exact hin) with h | ⟨k, hk, hkey⟩
    · simp at h
    · exact ⟨k, hk, by rw [hkey, e1]⟩

/-- if the physical replication of some class of the loop is below desired, the flag is set -/
theorem underrep_of_phys (env : Env) (classes : List Class) (sorter : Class → List Slot → List Slot)
    (mounts : List Mount) (reps : List Replica)
    (hok : BalancePerm env classes sorter mounts reps) (hid : DistinctIds mounts) (hcons : DeviceConsistent mounts)
    (c : Class) (hc : c ∈ classes) (hd : env.desired c ≠ 0)
    (hu : physRepl c (heldOf (initSlots mounts reps)) < env.desired c) :
    (balanceBlock env classes sorter mounts reps).final.underrep = true := by
  unfold BalancePerm at hok
  apply runClasses_underrep env sorter c classes _ hok hc hd
  intro l hl0
  have hl : CoreRel l (initSlots mounts reps) := hl0
  have hmnt : (l.map (·.mnt)).Perm mounts := by
    have := coreRel_mnt_perm hl
    rwa [initSlots_mnt] at this
  have hidl : IdsDistinct l := distinctIds_of_perm hmnt hid
  have hkc : KeyConsistent c (heldOf l) := by
    apply (keyConsistent_of c hid hcons).sub
    intro m hm
    obtain ⟨s, hs, e1, _⟩ := mem_heldOf.1 hm
    exact hmnt.mem_iff.1 (List.mem_map.2 ⟨s, hs, e1⟩)
  rw [safeCount_lt, Nat.zero_add, countedSafe_sum c l hidl hkc,
    physRepl_congr c (heldOf l) (heldOf (initSlots mounts reps)) hkc (heldOf_coreRel hl)]
  exact hu

end ArvVerif.C05
