/-
Lemmas about the periodic loops (Model/C15_Tick.lean): a ticker-driven loop never stalls, its runs
are at most `max (handler duration) (tick gap)` apart, the ends of its runs are again a wake-up
stream, every time window contains a run; and the step from "the loop keeps looking at the guard of
kind `k`" to weak fairness of `k`.
-/
import ArvVerif.Model.C15_Tick
import ArvVerif.Model.C15_Live
namespace ArvVerif.C15

/-! ### wake-up streams -/

theorem mono_of_step {s : Nat → Nat} (h : ∀ i, s i ≤ s (i + 1)) : ∀ {i j}, i ≤ j → s i ≤ s j := by
  intro i j hij
  obtain ⟨d, rfl⟩ := Nat.exists_eq_add_of_le hij
  induction d with
  | zero => exact Nat.le_refl _
  | succ d ih => exact Nat.le_trans (ih (Nat.le_add_right _ _)) (h (i + d))

theorem ge_index_of_strict {s : Nat → Nat} (h : ∀ i, s i < s (i + 1)) : ∀ i, s 0 + i ≤ s i := by
  intro i
  induction i with
  | zero => exact Nat.le_refl _
  | succ i ih => have := h i; omega

/-- strictly increasing ⇒ a wake-up stream -/
theorem ticks_of_strict {s : Nat → Nat} (h : ∀ i, s i < s (i + 1)) :
    (∀ i, s i ≤ s (i + 1)) ∧ ∀ T, ∃ i, T < s i :=
  ⟨fun i => Nat.le_of_lt (h i), fun T => ⟨T + 1, by have := ge_index_of_strict h (T + 1); omega⟩⟩

theorem periodic_ticks {p : Nat} (hp : 0 < p) : Ticks (periodic p) := by
  intro i
  show (i + 1) * p < (i + 1 + 1) * p
  rw [Nat.succ_mul (i + 1) p]
  omega

theorem periodic_gap (p : Nat) : GapLe (periodic p) p := by
  intro i
  show (i + 1 + 1) * p ≤ (i + 1) * p + p
  rw [Nat.succ_mul (i + 1) p]
  exact Nat.le_refl _

/-- least index with a property that holds somewhere -/
theorem least_index (P : Nat → Prop) : ∀ n, P n → ∃ i, i ≤ n ∧ P i ∧ ∀ i', i' < i → ¬ P i' := by
  intro n
  induction n using Nat.strongRecOn with
  | _ n ih =>
    intro hn
    by_cases h : ∃ m, m < n ∧ P m
    · obtain ⟨m, hm, hpm⟩ := h
      obtain ⟨i, hi, hpi, hmin⟩ := ih m hm hpm
      exact ⟨i, by omega, hpi, hmin⟩
    · exact ⟨n, Nat.le_refl _, hn, fun i' hi' hp => h ⟨i', hi', hp⟩⟩

/-- **A loop never waits for ever**: whatever the time, a first later wake-up exists. -/
theorem exists_firstAfter {ticks : Nat → Nat} (hm : ∀ i, ticks i ≤ ticks (i + 1)) (hu : ∀ T, ∃ i, T < ticks i)
    (x : Nat) : ∃ t, FirstAfter ticks x t := by
  obtain ⟨n, hn⟩ := hu x
  obtain ⟨i, _, hi, hmin⟩ := least_index (fun i => x < ticks i) n hn
  refine ⟨ticks i, ⟨i, rfl⟩, hi, fun i' hi' => ?_⟩
  by_cases h : i' < i
  · exact absurd hi' (hmin i' h)
  · exact mono_of_step hm (by omega)

/-- the first wake-up after `x` comes within one gap -/
theorem firstAfter_le {ticks : Nat → Nat} {G x t : Nat} (hg : GapLe ticks G) (h0 : ticks 0 ≤ x)
    (hf : FirstAfter ticks x t) : t ≤ x + G := by
  obtain ⟨⟨n, hn⟩, hx, hmin⟩ := hf
  obtain ⟨i, _, hi, himin⟩ := least_index (fun i => x < ticks i) n (by show x < ticks n; omega)
  have ht : t ≤ ticks i := hmin i hi
  cases i with
  | zero => have : x < ticks 0 := hi; omega
  | succ k =>
    have hk : ¬ x < ticks k := himin k (Nat.lt_succ_self k)
    have := hg k
    omega

/-! ### a loop driven by a wake-up stream -/

section driven
variable {ticks start dur : Nat → Nat}

theorem driven_strict (h : Driven ticks start dur) (j : Nat) : start j < start (j + 1) := by
  obtain ⟨t, hf, he⟩ := h.2 j
  have := hf.2.1
  rw [he]; omega

theorem driven_after_handler (h : Driven ticks start dur) (j : Nat) : start j + dur j ≤ start (j + 1) := by
  obtain ⟨t, _, he⟩ := h.2 j
  rw [he]; omega

theorem driven_ge_first (h : Driven ticks start dur) (j : Nat) : ticks 0 ≤ start j := by
  induction j with
  | zero => rw [h.1]; exact Nat.le_refl _
  | succ j ih => have := driven_strict h j; omega

/-- **The runs of a loop are at most `max (handler duration) (wake-up gap)` apart** — a slow handler
delays the next run only by its own duration (the tick that arrived meanwhile waits in the buffer), a
fast one waits for the next tick. -/
theorem driven_gap {G : Nat} (hg : GapLe ticks G) (h : Driven ticks start dur) (j : Nat) :
    start (j + 1) ≤ start j + max (dur j) G := by
  obtain ⟨t, hf, he⟩ := h.2 j
  have := firstAfter_le hg (driven_ge_first h j) hf
  rw [he]; omega

/-- the moments the handler returns form a wake-up stream again … -/
theorem ends_stream (h : Driven ticks start dur) :
    (∀ i, ends start dur i ≤ ends start dur (i + 1)) ∧ ∀ T, ∃ i, T < ends start dur i := by
  refine ⟨fun i => ?_, fun T => ?_⟩
  · have := driven_after_handler h i
    show start i + dur i ≤ start (i + 1) + dur (i + 1)
    omega
  · obtain ⟨i, hi⟩ := (ticks_of_strict (driven_strict h)).2 T
    exact ⟨i, by show T < start i + dur i; omega⟩

/-- … whose gaps are bounded when the handler's duration is -/
theorem ends_gap {G D : Nat} (hg : GapLe ticks G) (h : Driven ticks start dur) (hd : ∀ j, dur j ≤ D) :
    GapLe (ends start dur) (G + D) := by
  intro i
  have h1 := driven_gap hg h i
  have h2 := hd (i + 1)
  have h3 := hd i
  show start (i + 1) + dur (i + 1) ≤ start i + dur i + (G + D)
  omega

end driven

theorem timer_strict {p : Nat} (hp : 0 < p) {start dur : Nat → Nat} (h : TimerDriven p start dur) (j : Nat) :
    start j < start (j + 1) := by
  rw [h j]; omega

/-! ### every window contains a run -/

/-- a strictly increasing sequence with steps of at most `W` meets every window of length `W`
that begins after its first element -/
theorem window {s : Nat → Nat} {W : Nat} (hs : ∀ j, s j < s (j + 1)) (hw : ∀ j, s (j + 1) ≤ s j + W)
    (x : Nat) (hx : s 0 ≤ x) : ∃ j, x < s j ∧ s j ≤ x + W := by
  obtain ⟨n, hn⟩ := (ticks_of_strict hs).2 x
  obtain ⟨i, _, hi, himin⟩ := least_index (fun i => x < s i) n hn
  cases i with
  | zero => have : x < s 0 := hi; omega
  | succ k =>
    have hk : ¬ x < s k := himin k (Nat.lt_succ_self k)
    have := hw k
    exact ⟨k + 1, hi, by omega⟩

/-! ### from looks to weak fairness -/

/-- Weak fairness of `k` says no more and no less than: again and again there is a step at which
`k` is taken if its guard holds. -/
theorem fair_iff_looks (run : Nat → LState) (act : Nat → Act) (k : Kind) :
    (∀ n, (∀ m, n ≤ m → Enabled k (run m)) → ∃ m, n ≤ m ∧ act m = .fair k) ↔
    (∀ n, ∃ m, n ≤ m ∧ (Enabled k (run m) → act m = .fair k)) := by
  constructor
  · intro h n
    by_cases hall : ∀ m, n ≤ m → Enabled k (run m)
    · obtain ⟨m, hm, ha⟩ := h n hall
      exact ⟨m, hm, fun _ => ha⟩
    · have : ∃ m, n ≤ m ∧ ¬ Enabled k (run m) := by
        apply Classical.byContradiction
        intro hne
        exact hall (fun m hm => Classical.byContradiction (fun hn => hne ⟨m, hm, hn⟩))
      obtain ⟨m, hm, hn⟩ := this
      exact ⟨m, hm, fun he => absurd he hn⟩
  · intro h n hall
    obtain ⟨m, hm, hi⟩ := h n
    exact ⟨m, hm, hi (hall m hm)⟩

/-- The handler runs of a loop embedded in a timed execution: `looks j` is the step at which run
`j` examines the guard of `k` (and takes the step if it holds); it happens no earlier than the run
begins. With monotone time, the looks go on for ever. -/
theorem looks_unbounded {time start looks : Nat → Nat}
    (htime : ∀ n, time n ≤ time (n + 1)) (hs : ∀ j, start j < start (j + 1))
    (hl : ∀ j, start j ≤ time (looks j)) (n : Nat) : ∃ j, n < looks j := by
  obtain ⟨j, hj⟩ := (ticks_of_strict hs).2 (time n)
  refine ⟨j, ?_⟩
  apply Classical.byContradiction
  intro hle
  have : time (looks j) ≤ time n := mono_of_step htime (by omega)
  have := hl j
  omega

end ArvVerif.C15
