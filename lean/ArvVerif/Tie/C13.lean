/-
Tie for C13: source facts regenerated from /repo on every run (Gen/FactsC13.lean) equal what the
models in Model/C13.lean (atomic steps, guards of the completions), Model/C13_Cow.lean (memSegment
over a heap) and Model/C13_Lock.lean (lock acquisition scripts) were written against. An edit to a
guard, to the order PutB / throttle.Release / Lock, to the copy-on-write conditions or to the order
in which Rename / Flush / MarshalManifest take their locks breaks one of these `rfl`s; the
differential run then decides whether behaviour changed.
-/
import ArvVerif.Gen.FactsC13
import ArvVerif.Model.C13
import ArvVerif.Model.C13_Cow
import ArvVerif.Model.C13_Lock
namespace ArvVerif.Tie.C13
open ArvVerif.Facts.C13

/-- default number of throttle slots; the free-running mode runs with 1-4, the deterministic mode with a large value so that no foreground step blocks -/
theorem tie_concurrentWriters : concurrentWriters = 4 := rfl

/-- pruneMemSegments: which segments are handed off (mem, full, flushing == nil) and the three guards of the goroutine tail — token, PutB error, index/identity/length (Model.C13 completeRef with plen = some _; tokenizeFrom) -/
theorem tie_pruneConds : pruneConds =
  ["if !ok || seg.Len() < maxBlockSize || seg.flushing != nil",
   "if seg.flushing != done",
   "if err != nil",
   "if len(fn.segments) <= idx || fn.segments[idx] != seg || len(seg.buf) != len(buf)"] := rfl

/-- pruneMemSegments: throttle.Acquire before the goroutine; in the goroutine PutB, throttle.Release, THEN fn.Lock and the guards under the lock (the completion is one atomic step) -/
theorem tie_pruneSkeleton : pruneSkeleton =
  ["for {",
   "if !ok || seg.Len() < maxBlockSize || seg.flushing != nil {",
   "continue",
   "}",
   "call make => done",
   "call fn.fs.throttle().Acquire",
   "call fn.fs.throttle",
   "go",
   "func {",
   "defer",
   "call close",
   "call fn.FS().PutB => locator,_,err",
   "call fn.fs.throttle().Release",
   "call fn.fs.throttle",
   "call fn.Lock",
   "defer",
   "call fn.Unlock",
   "if seg.flushing != done {",
   "return",
   "}",
   "if err != nil {",
   "return",
   "}",
   "if len(fn.segments) <= idx || fn.segments[idx] != seg || len(seg.buf) != len(buf) {",
   "return",
   "}",
   "}",
   "}"] := rfl

/-- pruneMemSegments: captured idx and buf, seg.flushing = done, and the stored segment that replaces (offset 0, size = length = len(buf)) -/
theorem tie_pruneAssigns : pruneAssigns =
  ["idx, buf := idx, seg.buf",
   "done := make(chan struct{})",
   "seg.flushing = done",
   "fn.segments[idx] = storedSegment{ kc: fn.FS(), locator: locator, size: len(buf), offset: 0, length: len(buf), }"] := rfl

/-- waitPrune: collects the channels under the file lock, waits without it (Model.C13 save: every unfinished group completes first) -/
theorem tie_waitPruneSkeleton : waitPruneSkeleton =
  ["call fn.Lock",
   "for {",
   "if ok && seg.flushing != nil {",
   "}",
   "}",
   "call fn.Unlock",
   "for {",
   "}"] := rfl

/-- commitBlock: give up in async mode when an earlier flush is unfinished; the async tail's guards — index in range, segment identity, flushing token (Model.C13 startGroup / completeRef with plen = none) -/
theorem tie_commitConds : commitConds =
  ["if len(refs) == 0",
   "if err != nil",
   "if !sync && seg.flushingUnfinished()",
   "if len(refs) == 1",
   "if block == nil",
   "if err != nil",
   "if !sync",
   "if len(ref.fn.segments) <= ref.idx",
   "if !ok || seg != segs[idx]",
   "if seg.flushing != done",
   "if !sync",
   "if sync"] := rfl

/-- commitBlock: marking loop, throttle.Acquire, goroutine: PutB, Release, on error return; per ref (async) Lock, guards, Unlock -/
theorem tie_commitSkeleton : commitSkeleton =
  ["if len(refs) == 0 {",
   "return",
   "}",
   "if err != nil {",
   "return",
   "}",
   "for {",
   "call seg.flushingUnfinished",
   "if !sync && seg.flushingUnfinished() {",
   "call close",
   "return",
   "}",
   "if len(refs) == 1 {",
   "} else {",
   "if block == nil {",
   "} else {",
   "}",
   "}",
   "}",
   "call dn.fs.throttle().Acquire",
   "call dn.fs.throttle",
   "go",
   "func {",
   "defer",
   "call close",
   "defer",
   "call close",
   "call dn.fs.PutB => locator,_,err",
   "call dn.fs.throttle().Release",
   "call dn.fs.throttle",
   "if err != nil {",
   "return",
   "}",
   "for {",
   "if !sync {",
   "call ref.fn.Lock",
   "if len(ref.fn.segments) <= ref.idx {",
   "call ref.fn.Unlock",
   "continue",
   "} else {",
   "if !ok || seg != segs[idx] {",
   "call ref.fn.Unlock",
   "continue",
   "} else {",
   "if seg.flushing != done {",
   "call ref.fn.Unlock",
   "continue",
   "}",
   "}",
   "}",
   "}",
   "if !sync {",
   "call ref.fn.Unlock",
   "}",
   "}",
   "}",
   "if sync {",
   "return",
   "}",
   "return"] := rfl

/-- commitBlock: seg.flushing = done for every ref, block = concatenation, offsets; the stored segment uses offsets[idx] and the CURRENT len(data) -/
theorem tie_commitAssigns : commitAssigns =
  ["segs := make([]*memSegment, 0, len(refs))",
   "offsets := make([]int, 0, len(refs))",
   "seg.flushing = done",
   "offsets = append(offsets, len(block))",
   "block = seg.buf",
   "block = append(make([]byte, 0, bufsize), seg.buf...)",
   "block = append(block, seg.buf...)",
   "segs = append(segs, seg)",
   "blocksize := len(block)",
   "data := ref.fn.segments[ref.idx].(*memSegment).buf",
   "ref.fn.segments[ref.idx] = storedSegment{ kc: dn.fs, locator: locator, size: blocksize, offset: offsets[idx], length: len(data), }"] := rfl

/-- memSegment.flushingUnfinished: nil → false; closed → reset to nil, false; else true (Model.C13 isOpenMark / tokOpen) -/
theorem tie_flushingUnfinishedText : flushingUnfinishedText = "{ if me.flushing == nil { return false } select { case <-me.flushing: me.flushing = nil return false default: return true } }" := rfl

/-- memSegment.Truncate: new buffer iff n > cap || (flushing != nil && n > len); in-place reslice + zero fill otherwise (Model.C13_Cow step truncate; C08 memTruncate) -/
theorem tie_memTruncateText : memTruncateText = "{ if n > cap(me.buf) || (me.flushing != nil && n > len(me.buf)) { newsize := 1024 for newsize < n { newsize = newsize << 2 } newbuf := make([]byte, n, newsize) copy(newbuf, me.buf) me.buf, me.flushing = newbuf, nil } else { oldlen := len(me.buf) me.buf = me.buf[:n] for i := oldlen; i < n; i++ { me.buf[i] = 0 } } }" := rfl

/-- memSegment.WriteAt: overflow panic; copy to a new buffer and reset flushing when flushing != nil; then copy in place (Model.C13_Cow step writeAt; C08 memWriteAt) -/
theorem tie_memWriteAtText : memWriteAtText = "{ if off+len(p) > len(me.buf) { panic(\"overflowed segment\") } if me.flushing != nil { me.buf, me.flushing = append([]byte(nil), me.buf...), nil } copy(me.buf[off:], p) }" := rfl

/-- memSegment.Slice: a fresh buffer and a fresh memSegment with flushing nil (Model.C13_Cow step slice) -/
theorem tie_memSliceText : memSliceText = "{ if length < 0 { length = len(me.buf) - off } buf := make([]byte, length) copy(buf, me.buf[off:]) return &memSegment{buf: buf} }" := rfl

/-- collectionFileSystem.Flush: lock the directory, then its children in sortedNames order, then dn.flush (Model.C13_Lock flushScript; Model.C13 doFlushAsync) -/
theorem tie_flushSkeleton : flushSkeleton =
  ["call rlookup => node,err",
   "if err != nil {",
   "return",
   "}",
   "if !ok {",
   "return",
   "}",
   "call dn.Lock",
   "defer",
   "call dn.Unlock",
   "call dn.sortedNames => names",
   "if path != \"\" {",
   "for {",
   "if ok {",
   "}",
   "}",
   "}",
   "for {",
   "call child.Lock",
   "defer",
   "call child.Unlock",
   "}",
   "call dn.flush",
   "return"] := rfl

/-- MarshalManifest: root lock, then dirnode.marshalManifest -/
theorem tie_marshalSkeleton : marshalSkeleton =
  ["call fs.fileSystem.root.Lock",
   "defer",
   "call fs.fileSystem.root.Unlock",
   "call fs.fileSystem.root.(*dirnode).marshalManifest",
   "return"] := rfl

/-- dirnode.marshalManifest: sortedNames, waitPrune on file children (momentary child lock under the parent), lock all children, recurse / flush(sync) in goroutines -/
theorem tie_dirMarshalSkeleton : dirMarshalSkeleton =
  ["defer",
   "if len(dn.inodes) == 0 {",
   "if prefix == \".\" {",
   "return",
   "}",
   "return",
   "}",
   "call dn.sortedNames => names",
   "for {",
   "if ok {",
   "call fn.waitPrune",
   "}",
   "}",
   "for {",
   "call node.Lock",
   "defer",
   "call node.Unlock",
   "case {",
   "}",
   "case {",
   "}",
   "case {",
   "}",
   "}",
   "for {",
   "call cg.Go",
   "func {",
   "return",
   "}",
   "}",
   "call cg.Go",
   "func {",
   "call dn.flush => err",
   "if err != nil {",
   "return",
   "}",
   "for {",
   "if len(node.segments) == 0 {",
   "continue",
   "}",
   "for {",
   "case {",
   "if len(blocks) > 0 && blocks[len(blocks)-1] == seg.locator {",
   "} else {",
   "}",
   "if prev >= 0 && fileparts[prev].name == name && fileparts[prev].offset+fileparts[prev].length == next.offset {",
   "} else {",
   "}",
   "}",
   "case {",
   "}",
   "}",
   "}",
   "for {",
   "}",
   "if len(filetokens) == 0 {",
   "return",
   "} else {",
   "if len(blocks) == 0 {",
   "}",
   "}",
   "return",
   "}",
   "call cg.Wait => err",
   "return"] := rfl

/-- dirnode.flush: for a child directory lock the grandchildren in sorted order before recursing in a goroutine; commitBlock calls via goCommit -/
theorem tie_dirFlushSkeleton : dirFlushSkeleton =
  ["defer",
   "func {",
   "call cg.Go",
   "func {",
   "call dn.commitBlock",
   "return",
   "}",
   "}",
   "for {",
   "case {",
   "call node.sortedNames => grandchildNames",
   "for {",
   "call grandchild.Lock",
   "defer",
   "call grandchild.Unlock",
   "}",
   "call cg.Go",
   "func {",
   "call node.flush",
   "return",
   "}",
   "}",
   "case {",
   "for {",
   "case {",
   "if !ok {",
   "if err != nil {",
   "return",
   "}",
   "}",
   "}",
   "case {",
   "if seg.Len() > maxBlockSize/2 {",
   "call goCommit",
   "continue",
   "}",
   "if pendingLen+seg.Len() > maxBlockSize {",
   "call goCommit",
   "}",
   "}",
   "case {",
   "}",
   "}",
   "}",
   "}",
   "if opts.shortBlocks {",
   "call goCommit",
   "}",
   "call cg.Wait",
   "return"] := rfl

/-- Rename: fs-wide mutex first (cfs.locker().Lock), needLock walk via node.Parent(), locks taken from the end of needLock skipping locked ones, then Child/SetParent of the moved inode (Model.C13_Lock renameScript) -/
theorem tie_renameSkeleton : renameSkeleton =
  ["if oldname == \"\" || oldname == \".\" || oldname == \"..\" {",
   "return",
   "}",
   "call fs.openFile => olddirf,err",
   "if err != nil {",
   "return",
   "}",
   "defer",
   "if newname == \".\" || newname == \"..\" {",
   "return",
   "} else {",
   "if newname == \"\" {",
   "}",
   "}",
   "call fs.openFile => newdirf,err",
   "if err != nil {",
   "return",
   "}",
   "defer",
   "call cfs.locker().Lock",
   "call cfs.locker",
   "defer",
   "call cfs.locker().Unlock",
   "call cfs.locker",
   "if cfs != newdirf.inode.FS() {",
   "return",
   "}",
   "for {",
   "call node.Parent",
   "call node.Parent().FS",
   "call node.Parent",
   "for {",
   "call node.Parent => node",
   "}",
   "}",
   "for {",
   "if !locked[n] {",
   "call n.Lock",
   "defer",
   "call n.Unlock",
   "}",
   "}",
   "call olddirf.inode.Child => _,err",
   "func {",
   "if oldinode == nil {",
   "return",
   "}",
   "if locked[oldinode] {",
   "return",
   "}",
   "if oldinode.FS() != cfs && newdirf.inode != olddirf.inode {",
   "return",
   "}",
   "call newdirf.inode.Child => accepted,err",
   "func {",
   "if existing != nil && existing.IsDir() {",
   "return",
   "}",
   "return",
   "}",
   "if err != nil {",
   "return",
   "}",
   "call accepted.SetParent",
   "if newdirf.inode == olddirf.inode && newname == oldname {",
   "return",
   "}",
   "return",
   "}",
   "return"] := rfl

/-- Rename: the needLock loop bounds, the locked[oldinode] check that the moved inode is not one of the locked ancestors, and (fix 100856b) the renamed-onto-itself test -/
theorem tie_renameConds : renameConds =
  ["if oldname == \"\" || oldname == \".\" || oldname == \"..\"",
   "if err != nil",
   "if newname == \".\" || newname == \"..\"",
   "if newname == \"\"",
   "if err != nil",
   "if cfs != newdirf.inode.FS()",
   "for node.Parent() != node && node.Parent().FS() == node.FS()",
   "for i >= 0",
   "if !locked[n]",
   "if oldinode == nil",
   "if locked[oldinode]",
   "if oldinode.FS() != cfs && newdirf.inode != olddirf.inode",
   "if existing != nil && existing.IsDir()",
   "if err != nil",
   "if newdirf.inode == olddirf.inode && newname == oldname"] := rfl

/-- dirnode.sortedNames: children in name order (kids d of the lock model, sortedFiles of C08) -/
theorem tie_sortedNamesText : sortedNamesText = "{ names := make([]string, 0, len(dn.inodes)) for name := range dn.inodes { names = append(names, name) } sort.Strings(names) return names }" := rfl

/-- throttle.Acquire = send on the buffered channel -/
theorem tie_throttleAcquireText : throttleAcquireText = "{ t.c <- struct{}{} }" := rfl

/-- throttle.Release = receive from it -/
theorem tie_throttleReleaseText : throttleReleaseText = "{ <-t.c }" := rfl

/-- newThrottle(n): capacity n bounds concurrent background writers (free mode oracle: max concurrent PutB <= throttle) -/
theorem tie_newThrottleText : newThrottleText = "{ return &throttle{c: make(chan struct{}, n)} }" := rfl

/-- filehandle.Write holds the inode's write lock around O_APPEND repositioning and inode.Write (one atomic step: Model.C13 doWrite) -/
theorem tie_handleWriteSkeleton : handleWriteSkeleton =
  ["if !f.writable {",
   "return",
   "}",
   "call f.inode.Lock",
   "defer",
   "call f.inode.Unlock",
   "if ok && f.append {",
   "}",
   "call f.inode.Write => n,f.ptr,err",
   "return"] := rfl

/-- filehandle.Read holds the read lock around inode.Read -/
theorem tie_handleReadSkeleton : handleReadSkeleton =
  ["if !f.readable {",
   "return",
   "}",
   "call f.inode.RLock",
   "defer",
   "call f.inode.RUnlock",
   "call f.inode.Read => n,f.ptr,err",
   "return"] := rfl

/-- filenode.Truncate holds the write lock around truncate -/
theorem tie_nodeTruncateSkeleton : nodeTruncateSkeleton =
  ["call fn.Lock",
   "defer",
   "call fn.Unlock",
   "call fn.truncate",
   "return"] := rfl

/-- contextGroup.Wait waits for EVERY started func (`cg.wg.Wait()` comes first, unconditionally)
before it returns the first error: dirnode.flush / marshalManifest therefore do not return — and do
not release the file locks — while one of their sync-mode commitBlock goroutines, which replace
segments without re-locking or re-validating, is still running. This is what makes MarshalManifest
one atomic step (Model.C13 `Ev.save`). -/
theorem tie_cgWaitText : cgWaitText = "{ cg.wg.Wait() cg.mtx.Lock() defer cg.mtx.Unlock() if cg.err != nil { return cg.err } return cg.ctx.Err() }" := rfl

/-- contextGroup.Go: every func is counted in the WaitGroup before its goroutine starts; the first
error cancels the context (later commitBlock calls return at their `ctx.Err()` check) -/
theorem tie_cgGoText : cgGoText = "{ cg.mtx.Lock() defer cg.mtx.Unlock() if cg.err != nil { return } cg.wg.Add(1) go func() { defer cg.wg.Done() err := f() cg.mtx.Lock() defer cg.mtx.Unlock() if err != nil && cg.err == nil { cg.err = err cg.cancel() } }() }" := rfl

/-- the two guards of the async commitBlock tail and the three of pruneMemSegments that the model's
single token test stands for are all present, in this order -/
theorem tie_guard_order :
    pruneConds.drop 1 = ["if seg.flushing != done", "if err != nil",
      "if len(fn.segments) <= idx || fn.segments[idx] != seg || len(seg.buf) != len(buf)"] ∧
    (commitConds.drop 7).take 3 = ["if len(ref.fn.segments) <= ref.idx", "if !ok || seg != segs[idx]",
      "if seg.flushing != done"] := by decide

/-- in both goroutines the throttle slot is released after PutB and BEFORE the file lock is taken, so
a writer blocked in Acquire while holding a file lock is always released by a PutB returning -/
theorem tie_release_before_lock :
    (pruneSkeleton.dropWhile (· != "call fn.FS().PutB => locator,_,err")).take 4 =
      ["call fn.FS().PutB => locator,_,err", "call fn.fs.throttle().Release", "call fn.fs.throttle", "call fn.Lock"] ∧
    (commitSkeleton.dropWhile (· != "call dn.fs.PutB => locator,_,err")).take 3 =
      ["call dn.fs.PutB => locator,_,err", "call dn.fs.throttle().Release", "call dn.fs.throttle"] := by decide

/-! ### lock calls of the handle operations that Model/C13_RW.lean's scripts stand for -/

/-- filehandle.Seek touches the inode through ONE call, `f.inode.Size()`, and takes no lock itself:
its script is `RW.seekScript` = one read lock, taken and released inside Size (a Seek that held a
read lock around `Size()` would be `RW.reentrantSeekScript`, which deadlocks against a pending
writer: `RW.reentrant_read_cycle`) -/
theorem tie_handleSeekCalls :
    handleSeekSkeleton.filter (fun t => t.toList.take 4 == ['c', 'a', 'l', 'l']) = ["call f.inode.Size => size"] := by decide

/-- filenode.Size: read lock around the field access -/
theorem tie_nodeSizeSkeleton : nodeSizeSkeleton =
  ["call fn.RLock", "defer", "call fn.RUnlock", "call fn.fileinfo.Size", "return"] := rfl

/-- filenode.FileInfo (filehandle.Stat, Readdir of the parent): read lock -/
theorem tie_nodeFileInfoSkeleton : nodeFileInfoSkeleton = ["call fn.RLock", "defer", "call fn.RUnlock", "return"] := rfl

/-- filehandle.Stat / Truncate take no lock themselves (`RW.statScript`, `RW.writeScript`) -/
theorem tie_handleStatSkeleton : handleStatSkeleton = ["call f.inode.FileInfo", "return"] := rfl
theorem tie_handleTruncateSkeleton : handleTruncateSkeleton = ["call f.inode.Truncate", "return"] := rfl

end ArvVerif.Tie.C13
