/- Tie for C13 (being built) -/
import ArvVerif.Gen.FactsC13
import ArvVerif.Model.C13
namespace ArvVerif.Tie.C13
open ArvVerif.Facts.C13

theorem tie_concurrentWriters : concurrentWriters = 4 := rfl

end ArvVerif.Tie.C13
