/-
C19 tie facts, keepstore part: the regenerated source facts about keepstore's remote GET path
(services/keepstore/proxy_remote.go, handlers.go), keepclient and arvadosclient, equated with what
Model/C19_Keep.lean assumes.
-/
import ArvVerif.Gen.FactsC19
import ArvVerif.Model.C19_Keep
namespace ArvVerif.Tie.C19
open ArvVerif.Facts.C19 ArvVerif.C19

/-! ### remoteClient: how a remote's keep client is built -/

/-- the only string literal of `remoteClient` is the placeholder token of the `arvados.Client` the
remote's keep client is built from (`AuthToken: "xxx"`): nothing of the caller's request goes into
the client that does service discovery at the remote's API endpoint -/
theorem tie_keepPlaceholder :
    keepClientStrings = ["xxx"] ∧ (keepClientStrings.getD 0 "").toList = placeholderToken := by decide

/-- every assignment of `remoteClient`: the cached client comes from the map or from
`MakeKeepClient(arvadosclient.New(c))`; the caller's token is written to COPIES only
(`accopy`, `kccopy`), and the copy that is returned holds the result of `SaltToken(token, remoteID)` -/
theorem tie_keepClientAssigns : keepClientAssigns =
    ["kc, ok := rp.clients[remoteID]",
     "ac, err := arvadosclient.New(c)",
     "kc, err = keepclient.MakeKeepClient(ac)",
     "accopy := *kc.Arvados",
     "accopy.ApiToken = token",
     "kccopy := *kc",
     "kccopy.Arvados = &accopy",
     "token, err := auth.SaltToken(token, remoteID)",
     "kccopy.Arvados.ApiToken = token"] := by decide

/-- `MakeKeepClient` = `New` (reads the discovery document) + `discoverServices` (reads the keep
service list): the two requests of `keepClientFor` -/
theorem tie_makeKeepClient : makeKeepClientText = "{ kc := New(arv) return kc, kc.discoverServices() }" := rfl

/-- `arvadosclient.CallRaw` (both of those requests) sends `Authorization: OAuth2 <ApiToken>` -/
theorem tie_callRawAuth : callRawStrings.contains "OAuth2 %s" = true ∧ callRawStrings.contains "Authorization" = true := by
  decide

/-! ### GetAPIToken -/

theorem tie_keepAuthRe : keepAuthRe = "^(OAuth2|Bearer)\\s+(.*)" := rfl

/-- first header value only (`auth[0]`), submatch 2, otherwise the empty string -/
theorem tie_getAPIToken : getAPITokenConds = ["if ok", "if match != nil"] ∧
    getAPITokenReturns = ["match[2]", "\"\""] := by decide

/-! ### remoteProxy.Get: locator rewriting -/

/-- every assignment of `Get` to the token, the chosen client and the locator parts: the token is
read once from the request, the remote id is `part[1:6]`, the last `+R` hint's client wins, the
`+R` hint becomes `"A" + part[7:]`, every other part that is not dropped is kept as it is -/
theorem tie_keepGetAssigns : keepGetAssigns =
    ["token := GetAPIToken(r)",
     "remoteID := part[1:6]",
     "remoteClient = kc",
     "part = \"A\" + part[7:]",
     "parts = append(parts, part)",
     "locator := strings.Join(parts, \"+\")"] := by decide

/-! ### keepclient: where a block request goes and what it carries -/

/-- `getSortedRoots`: a 7-character `+K@xxxxx` part puts `https://keep.xxxxx.arvadosapi.com` in
front of the client's own services (`isProxyHint`, `proxyHints`; the F19d mechanism) -/
theorem tie_sortedRoots :
    sortedRootsConds = ["if len(hint) < 7 || hint[0:2] != \"K@\"", "if len(hint) == 7", "if len(hint) == 29", "if ok"] ∧
    sortedRootsStrings = ["+", "K@", "https://keep.", ".arvadosapi.com"] ∧
    (sortedRootsStrings.getD 1 "").toList = sKAt := by decide

/-- `getOrHead`: the empty-block short cut and `Authorization: OAuth2 <ApiToken>` on every request
that has no Authorization header yet (keepstore passes no header) -/
theorem tie_getOrHead :
    getOrHeadConds.take 1 = ["if strings.HasPrefix(locator, \"d41d8cd98f00b204e9800998ecf8427e+0\")"] ∧
    (getOrHeadStrings.getD 0 "").toList = emptyBlockPrefix ∧
    getOrHeadConds.contains "if req.Header.Get(\"Authorization\") == \"\"" = true ∧
    (getOrHeadStrings.getD 8 "").toList = sOAuth2sp := by decide

end ArvVerif.Tie.C19
