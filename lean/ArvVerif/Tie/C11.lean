/-
Tie for C11: source facts regenerated from /repo on every run (Gen/FactsC11.lean) equal what the
model was written against. An edit to the loop conditions of putReplicas (including the retry
status predicate), its two returns, uploadToKeepServer's branches / limits / scan format, the
header names, BLOCKSIZE, the entry points' size check, or loadKeepServers' branches breaks one of
these `rfl`s.
-/
import ArvVerif.Gen.FactsC11
import ArvVerif.Model.C11
namespace ArvVerif.Tie.C11
open ArvVerif.Facts.C11

/-- the control skeleton of putReplicas: the drain loop of the deferred goroutine, the
replicasPerThread default (`Cfg.rpt`), the three nested loops (`run`/`step`/`startUploads`), the
error exit, the wait, the 200 test (`receive`) and the retry predicate (`retryable`). -/
theorem tie_putReplicasConds : putReplicasConds =
    ["for active > 0",
     "if replicasPerThread < 1",
     "for retriesRemaining > 0",
     "for replicasTodo > 0",
     "for active*replicasPerThread < replicasTodo",
     "if nextServer < len(sv)",
     "if active == 0 && retriesRemaining == 0",
     "if active > 0",
     "if status.statusCode == 200",
     "if len(msg) > 100",
     "if status.statusCode == 0 || status.statusCode == 408 || status.statusCode == 429 || (status.statusCode >= 500 && status.statusCode != 503)"] := rfl

/-- the retry status predicate, as the last condition of putReplicas (`Model.C11.retryable`) -/
theorem tie_retryPredicate : putReplicasConds.getLast? =
    some "if status.statusCode == 0 || status.statusCode == 408 || status.statusCode == 429 || (status.statusCode >= 500 && status.statusCode != 503)" := rfl

/-- the InsufficientReplicas exit is guarded by "nothing in flight and no retries left" and by
nothing else (`startUploads`' `none` branch; `FailAt` in the proofs) -/
theorem tie_errorExit : putReplicasConds.getD 6 "" = "if active == 0 && retriesRemaining == 0" := rfl

/-- the model's `retryable` is that predicate -/
theorem tie_retryable (code : Nat) : ArvVerif.C11.retryable code =
    (code == 0 || code == 408 || code == 429 || (decide (code ≥ 500) && code != 503)) := rfl

/-- the only methods of the client that putReplicas calls: the request id, the writable roots and
the uploader — no call that reads or writes anything remembered from earlier Puts (`putSeq`) -/
theorem tie_putReplicasClientCalls : putReplicasKcCalls =
    ["kc.getRequestID", "kc.WritableLocalRoots", "kc.uploadToKeepServer"] := rfl

/-- the only two returns: the InsufficientReplicasError and the nil-error return (`Res`) -/
theorem tie_putReplicasReturns : putReplicasReturns =
    ["locator, replicasDone, InsufficientReplicasError(errors.New(msg))",
     "locator, replicasDone, nil"] := rfl

/-- uploadToKeepServer's branches (`Model.C11.upload`) -/
theorem tie_uploadConds : uploadConds =
    ["if err != nil",
     "if expectedLength > 0",
     "if len(kc.StorageClasses) > 0",
     "if err != nil",
     "if xr != \"\"",
     "if err2 != nil && err2 != io.EOF",
     "if resp.StatusCode == http.StatusOK",
     "if resp.StatusCode >= 300 && response == \"\""] := rfl

/-- what uploadToKeepServer calls, debug output and error-text calls aside: it builds the request,
does it, reads the replica header and the body — and does not inspect the error of a failed
exchange (`Http.connErr` is one outcome whatever the error's kind; status 0 in `upload`) -/
theorem tie_uploadCalls :
    uploadCalls.filter (fun c => c != "DebugPrintf" && c != "err.Error" && c != "err2.Error") =
    ["fmt.Sprintf", "http.NewRequest", "ioutil.NopCloser", "req.Header.Add", "req.Header.Add",
     "req.Header.Add", "req.Header.Add", "fmt.Sprint", "len", "req.Header.Add", "strings.Join",
     "kc.httpClient().Do", "kc.httpClient", "resp.Header.Get", "fmt.Sscanf", "resp.Body.Close",
     "io.Copy", "ioutil.ReadAll", "strings.TrimSpace", "string", "errors.New"] := by decide

/-- default replica count 1, body limit 4096 (`bodyLimit`), status-text substitution from 300 -/
theorem tie_uploadInts : uploadInts = [0, 0, 0, 0, 0, 0, 1, 4096, 300] := rfl

theorem tie_bodyLimit : uploadInts.getD 7 0 = (ArvVerif.C11.bodyLimit : Int) := rfl

/-- the replica header is scanned with "%d" (`parseRep`) -/
theorem tie_scanFormat : uploadStrings.getD 13 "" = "%d" := rfl

theorem tie_headerStored : xKeepReplicasStored = "X-Keep-Replicas-Stored" := rfl
theorem tie_headerDesired : xKeepDesiredReplicas = "X-Keep-Desired-Replicas" := rfl

theorem tie_blockSize : blockSize = ArvVerif.C11.blockSize := rfl

/-- PutHR's size check (`putHR`) and what the entry points pass on (`putHB`, `putB`) -/
theorem tie_putHRConds : putHRConds = ["if dataBytes > 0", "if dataBytes > BLOCKSIZE"] := rfl

theorem tie_putHRReturns : putHRReturns =
    ["\"\", 0, ErrOversizeBlock", "kc.putReplicas(hash, buf.NewReader, dataBytes)"] := rfl

theorem tie_putHBReturns : putHBReturns =
    ["bytes.NewBuffer(buf)", "kc.putReplicas(hash, newReader, int64(len(buf)))"] := rfl

theorem tie_putB : putBText =
    "{ hash := fmt.Sprintf(\"%x\", md5.Sum(buffer)) return kc.PutHB(hash, buffer) }" := rfl

/-- PutHR's stream path (`bufferEnd`, `putHRWire`): a buffer, one copier through the hash-checking
reader, `CloseWithError` with the copier's result, then `putReplicas` with readers of that buffer -/
theorem tie_putHRCalls : putHRCalls =
    ["asyncbuf.NewBuffer", "io.Copy", "buf.CloseWithError", "kc.putReplicas"] := rfl

/-- HashCheckingReader: bytes are passed through; at EOF the hex MD5 is compared with `Check` and
`BadChecksum` replaces EOF on mismatch; other errors pass unchanged (`bufferEnd`) -/
theorem tie_hashCheckRead : hashCheckReadText =
    "{ n, err = hcr.Reader.Read(p) if n > 0 { hcr.Hash.Write(p[:n]) } if err == io.EOF { sum := hcr.Hash.Sum(nil) if fmt.Sprintf(\"%x\", sum) != hcr.Check { err = BadChecksum } } return n, err }" := rfl

theorem tie_hashCheckWriteTo : hashCheckWriteToConds =
    ["if ok", "if err != nil", "if fmt.Sprintf(\"%x\", sum) != hcr.Check"] ∧
    hashCheckWriteToReturns = ["written, err", "written, BadChecksum", "written, nil"] := ⟨rfl, rfl⟩

/-- asyncbuf: a reader returns buffered bytes first, then the buffer's final error
(EOF after `CloseWithError(nil)`, the given error otherwise), and blocks in between -/
theorem tie_asyncReader : asyncReaderConds =
    ["case r.read < r.b.data.Len()", "case r.b.err != nil || len(p) == 0", "default"] ∧
    asyncReaderReturns = ["n, nil", "0, err"] := ⟨rfl, rfl⟩

/-- asyncbuf `CloseWithError` (`AOp.close`): nil means io.EOF; under the lock, wakes the readers.
(The assignment itself is exercised by the `abuf` correspondence cases.) -/
theorem tie_closeWithError : closeWithErrorConds = ["if err == nil"] ∧
    closeWithErrorCalls = ["b.cond.Broadcast", "b.cond.L.Lock", "b.cond.L.Unlock"] ∧
    closeWithErrorReturns = ["nil"] ∧ asyncCloseReturns = ["b.CloseWithError(nil)"] := ⟨rfl, rfl, rfl, rfl⟩

/-- asyncbuf `Write` (`AOp.write`): refused with the close error once closed, appended otherwise;
under the lock, wakes the readers -/
theorem tie_asyncWrite : asyncWriteConds = ["if b.err != nil"] ∧
    asyncWriteReturns = ["0, b.err", "b.data.Write(p)"] ∧
    asyncWriteCalls = ["b.cond.Broadcast", "b.cond.L.Lock", "b.cond.L.Unlock", "b.data.Write"] :=
  ⟨rfl, rfl, rfl⟩

/-- asyncbuf `Read` waits on the condition variable in its default case and copies from the
reader's own offset; `NewReader` makes a reader with offset 0 on the same buffer -/
theorem tie_asyncReaderCalls : asyncReaderCalls =
    ["r.b.cond.L.Lock", "r.b.data.Len", "r.b.data.Bytes", "r.b.cond.L.Unlock", "copy", "len",
     "r.b.cond.L.Unlock", "r.b.cond.Wait"] ∧
    asyncNewReaderReturns = ["&reader{b: b}"] := ⟨rfl, rfl⟩

/-- discoverServices (`discoverURIs`, `discoverAPI`): nothing when discovery is disabled; the
KeepServiceURIs override; otherwise the cached list goes to loadKeepServers -/
theorem tie_discover : discoverConds =
    ["if kc.disableDiscovery", "if kc.Arvados.KeepServiceURIs != nil", "if !ok"] ∧
    discoverCalls = ["kc.setServiceRoots", "kc.loadKeepServers"] := ⟨rfl, rfl⟩

/-- the made-up uuids of the KeepServiceURIs override (`uriUuid`) -/
theorem tie_uriUuid : discoverStrings.getD 0 "" = "00000-bi6l4-%015d" ∧
    ArvVerif.C11.uriUuid 7 = "00000-bi6l4-000000000000007".toList := ⟨rfl, by decide⟩

/-- the API call that fetches the list: GET keep_services/accessible -/
theorem tie_poll : pollCalls = ["ent.arv.Call"] ∧
    pollStrings.take 4 = ["GET", "keep_services", "", "accessible"] := ⟨rfl, rfl⟩

/-- loadKeepServers' branches (`loadStep`): scheme, duplicate URL, read-only, disk type twice -/
theorem tie_loadConds : loadConds =
    ["if service.SSL",
     "if listed[url]",
     "if service.ReadOnly == false",
     "if service.SvcType != \"disk\"",
     "if service.SvcType != \"disk\""] := rfl

/-- the writable map is filled under the read-only test alone (`loadStep`), whatever the type -/
theorem tie_writableGuard : loadConds.getD 2 "" = "if service.ReadOnly == false" := rfl

/-- loadKeepServers builds four fresh maps from the list, formats the URLs and installs the result;
it calls nothing else — in particular it does not consult what the client held before
(`reload`, `C11_reload_last_wins`) -/
theorem tie_loadRebuilds : loadAllCalls =
    ["make", "make", "make", "make", "fmt.Sprintf", "kc.setServiceRoots"] ∧ loadInts = [1, 0] :=
  ⟨rfl, rfl⟩

theorem tie_loadStrings : loadStrings = ["http", "https", "%s://%s:%d", "disk", "disk"] := rfl

theorem tie_loadCalls : loadCalls = ["kc.setServiceRoots"] := rfl

end ArvVerif.Tie.C11
