/-
Tie for C08: source facts regenerated from /repo on every run (Gen/FactsC08.lean) equal what the
model in Model/C08.lean and Model/C08_FS.lean was written against: the branch structure of
filenode.seek/Read/truncate/Write/pruneMemSegments, memSegment/storedSegment primitives, dirnode.flush,
filehandle.*, openFile/Mkdir/Rename/remove/rlookup/treenode.Child, and the default maxBlockSize.
An edit to any of these conditions or to the order of the error returns breaks one of these `rfl`s
(the differential check then decides whether behaviour changed).
-/
import ArvVerif.Gen.FactsC08
import ArvVerif.Model.C08_FS
namespace ArvVerif.Tie.C08
open ArvVerif.Facts.C08

/-- production block size limit 64 MiB; the theorems hold for every `max ≥ 1`, the smoke cases of the check run at this value -/
theorem tie_maxBlockSize : maxBlockSize =
    67108864 := rfl

/-- filenode.seek: EOF test, fast path on equal `repacked` with the fell-off-the-end correction, recomputing loop (Model.C08.seek / locate) -/
theorem tie_seekConds : seekConds =
    ["if ptr.off < 0",
    "if ptr.off >= fn.fileinfo.size",
    "if ptr.repacked == fn.repacked",
    "if ptr.segmentOff >= fn.segments[ptr.segmentIdx].Len()",
    "if ptr.off >= fn.fileinfo.size",
    "for off < ptr.off",
    "if off+segLen > ptr.off"] := rfl

/-- filenode.Read: EOF at segmentIdx ≥ len, advance, normalise at segment end, clear EOF when not the last segment (Model.C08.readAt) -/
theorem tie_readConds : readConds =
    ["if ptr.off < 0",
    "if ptr.segmentIdx >= len(fn.segments)",
    "if n > 0",
    "if ptr.segmentOff == fn.segments[ptr.segmentIdx].Len()",
    "if ptr.segmentIdx < len(fn.segments) && err == io.EOF"] := rfl

/-- filenode.truncate: no-op on equal size, shrink via seek with segmentOff = 0 / mem / stored cases, grow loop with `>= maxBlockSize` and `maxgrow` (Model.C08.truncate / growLoop) -/
theorem tie_truncateConds : truncateConds =
    ["if size == fn.fileinfo.size",
    "if size < fn.fileinfo.size",
    "for i < len(fn.segments)",
    "if ok",
    "if ptr.segmentOff == 0",
    "case *memSegment",
    "default",
    "for size > fn.fileinfo.size",
    "if len(fn.segments) == 0",
    "if !ok || seg.Len() >= maxBlockSize",
    "if maxgrow < grow"] := rfl

/-- filenode.Write: implicit truncate beyond EOF, the loop, cando ≤ maxBlockSize, curWritable / prevAppendable, split (two or three pieces), fit, cangrow, EOF / drop / shrink of cur, grow prev or insert, prune at `>= maxBlockSize`, normalise (Model.C08.restructure / restrSplit / restrShift / curFate / overwrite) -/
theorem tie_writeConds : writeConds =
    ["if startPtr.off > fn.fileinfo.size",
    "if err != nil",
    "if ptr.off < 0",
    "for len(p) > 0 && err == nil",
    "if len(cando) > maxBlockSize",
    "if cur < len(fn.segments)",
    "if prev >= 0 && fn.segments[prev].Len() < maxBlockSize",
    "if ptr.segmentOff > 0 && !curWritable",
    "if max <= len(cando)",
    "if curWritable",
    "if fit < len(cando)",
    "if prevAppendable",
    "if cangrow < len(cando)",
    "if cur == len(fn.segments)",
    "if el <= len(cando)",
    "if prevAppendable",
    "if cur < len(fn.segments)",
    "if ptr.segmentOff >= maxBlockSize",
    "if fn.segments[ptr.segmentIdx].Len() == ptr.segmentOff"] := rfl

/-- order of the segment operations inside the loop body of filenode.Write -/
theorem tie_writeCalls : writeCalls =
    ["fn.truncate",
    "fn.seek",
    "fn.segments[prev].Len",
    "fn.segments[cur].Len",
    "fn.segments[cur+2].Slice",
    "seg.Truncate",
    "fn.segments[prev].Slice",
    "fn.segments[cur].Len",
    "fn.segments[prev].Len",
    "fn.segments[cur].Len",
    "fn.segments[cur].Slice",
    "fn.segments[prev].Len",
    "fn.segments[prev].(*memSegment).Truncate",
    "seg.Truncate",
    "fn.segments[ptr.segmentIdx].(*memSegment).WriteAt",
    "fn.pruneMemSegments",
    "fn.segments[ptr.segmentIdx].Len"] := rfl

/-- pruneMemSegments: which segments are flushed and when the goroutine gives up (Model.C08.pruneSegs / settleSegs) -/
theorem tie_pruneConds : pruneConds =
    ["if !ok || seg.Len() < maxBlockSize || seg.flushing != nil",
    "if seg.flushing != done",
    "if err != nil",
    "if len(fn.segments) <= idx || fn.segments[idx] != seg || len(seg.buf) != len(buf)"] := rfl

/-- memSegment.Truncate: reallocation (and flushing reset) condition (Model.C08.memTruncate) -/
theorem tie_memTruncateConds : memTruncateConds =
    ["if n > cap(me.buf) || (me.flushing != nil && n > len(me.buf))",
    "for newsize < n",
    "for i < n"] := rfl

/-- memSegment.WriteAt: overflow panic, copy-on-write of a buffer shared with a flush (Model.C08.memWriteAt) -/
theorem tie_memWriteAtText : memWriteAtText =
    "{ if off+len(p) > len(me.buf) { panic(\"overflowed segment\") } if me.flushing != nil { me.buf, me.flushing = append([]byte(nil), me.buf...), nil } copy(me.buf[off:], p) }" := rfl

/-- storedSegment.Slice (Model.C08.Seg.slice) -/
theorem tie_storedSliceText : storedSliceText =
    "{ se.offset += n se.length -= n if size >= 0 && se.length > size { se.length = size } return se }" := rfl

/-- dirnode.flush: `> maxBlockSize/2` alone, packing up to maxBlockSize, shortBlocks (Model.C08.flushGroups) -/
theorem tie_flushConds : flushConds =
    ["case *dirnode",
    "case *filenode",
    "case storedSegment",
    "if !ok",
    "if err != nil",
    "case *memSegment",
    "if seg.Len() > maxBlockSize/2",
    "if pendingLen+seg.Len() > maxBlockSize",
    "default",
    "if opts.shortBlocks"] := rfl

/-- filehandle.Write: writable check, O_APPEND repositioning for filenodes (Model.C08_FS.step / concImpl.write) -/
theorem tie_handleWriteConds : handleWriteConds =
    ["if !f.writable",
    "if ok && f.append"] := rfl

/-- filehandle.Read: readable check -/
theorem tie_handleReadConds : handleReadConds =
    ["if !f.readable"] := rfl

/-- filehandle.Seek: whence cases, negative offset, invalidate on change (Model.C08_FS.step / Ptr.seekTo) -/
theorem tie_handleSeekConds : handleSeekConds =
    ["switch whence",
    "case io.SeekStart",
    "case io.SeekCurrent",
    "case io.SeekEnd",
    "if ptr.off < 0",
    "if ptr.off != f.ptr.off"] := rfl

/-- filehandle.Truncate does not check the open mode -/
theorem tie_handleTruncateText : handleTruncateText =
    "{ return f.inode.Truncate(size) }" := rfl

/-- openFile: O_SYNC, parent lookup, access mode switch, directory shortcuts, create / O_EXCL / O_TRUNC order (Model.C08_FS.openFile) -/
theorem tie_openFileConds : openFileConds =
    ["if flag&os.O_SYNC != 0",
    "if err != nil",
    "switch flag & (os.O_RDWR | os.O_RDONLY | os.O_WRONLY)",
    "case os.O_RDWR",
    "case os.O_RDONLY",
    "case os.O_WRONLY",
    "default",
    "if !writable && parent.IsDir()",
    "switch name",
    "case \".\"",
    "case \"\"",
    "case \"..\"",
    "if createMode",
    "if err != nil",
    "if n == nil",
    "if !createMode",
    "if err != nil",
    "if err != nil",
    "if n == nil",
    "if flag&os.O_EXCL != 0",
    "if flag&os.O_TRUNC != 0",
    "if !writable",
    "if n.IsDir()",
    "if err != nil"] := rfl

/-- openFile: error values in order -/
theorem tie_openFileReturns : openFileReturns =
    ["nil, ErrSyncNotSupported",
    "nil, err",
    "nil, fmt.Errorf(\"invalid flags 0x%x\", flag)",
    "&filehandle{inode: parent}, nil",
    "&filehandle{inode: parent.Parent()}, nil",
    "nil, err",
    "nil, os.ErrNotExist",
    "",
    "",
    "nil, err",
    "nil, ErrInvalidArgument",
    "nil, ErrFileExists",
    "nil, fmt.Errorf(\"invalid flag O_TRUNC in read-only mode\")",
    "nil, fmt.Errorf(\"invalid flag O_TRUNC when opening directory\")",
    "nil, err",
    "&filehandle{ inode: n, append: flag&os.O_APPEND != 0, readable: readable, writable: writable, }, nil"] := rfl

/-- Mkdir (Model.C08_FS.doMkdir) -/
theorem tie_mkdirConds : mkdirConds =
    ["if err != nil",
    "if err != nil",
    "if child != nil",
    "if err != nil"] := rfl

/-- Rename: name checks, ancestor locking, moved-into-itself, existing directory target, same-entry test (Model.C08_FS.doRename) -/
theorem tie_renameConds : renameConds =
    ["if oldname == \"\" || oldname == \".\" || oldname == \"..\"",
    "if err != nil",
    "if newname == \".\" || newname == \"..\"",
    "if newname == \"\"",
    "if err != nil",
    "if cfs != newdirf.inode.FS()",
    "for node.Parent() != node && node.Parent().FS() == node.FS()",
    "for i >= 0",
    "if !locked[n]",
    "if oldinode == nil",
    "if locked[oldinode]",
    "if oldinode.FS() != cfs && newdirf.inode != olddirf.inode",
    "if existing != nil && existing.IsDir()",
    "if err != nil",
    "if newdirf.inode == olddirf.inode && newname == oldname"] := rfl

/-- Rename: error values in order; `oldinode, nil` keeps the entry when renamed onto itself (fix 100856b), the final `nil, nil` deletes the old entry -/
theorem tie_renameReturns : renameReturns =
    ["ErrInvalidArgument",
    "fmt.Errorf(\"%q: %s\", olddir, err)",
    "ErrInvalidArgument",
    "fmt.Errorf(\"%q: %s\", newdir, err)",
    "ErrInvalidArgument",
    "oldinode, os.ErrNotExist",
    "oldinode, ErrInvalidArgument",
    "oldinode, ErrInvalidArgument",
    "existing, ErrIsDirectory",
    "oldinode, nil",
    "oldinode, err",
    "oldinode, nil",
    "nil, nil",
    "err"] := rfl

/-- remove (Model.C08_FS.doRemove) -/
theorem tie_removeConds : removeConds =
    ["if name == \"\" || name == \".\" || name == \"..\"",
    "if err != nil",
    "if node == nil",
    "if !recursive && node.IsDir() && node.Size() > 0"] := rfl

/-- remove: error values in order -/
theorem tie_removeReturns : removeReturns =
    ["ErrInvalidArgument",
    "err",
    "nil, os.ErrNotExist",
    "node, ErrDirectoryNotEmpty",
    "nil, nil",
    "err"] := rfl

/-- rlookup path rules (Model.C08_FS.walk) -/
theorem tie_rlookupConds : rlookupConds =
    ["if node.IsDir()",
    "if name == \".\" || name == \"\"",
    "if name == \"..\"",
    "if node == nil || err != nil",
    "if node == nil && err == nil"] := rfl

/-- treenode.Child: special names, replace semantics (delete on nil) -/
theorem tie_treenodeChildConds : treenodeChildConds =
    ["if name == \"\" || name == \".\" || name == \"..\"",
    "if replace == nil",
    "if err != nil",
    "if newchild == nil",
    "if newchild != child"] := rfl

/-- the production limit satisfies the hypothesis `1 ≤ max` of every C08 theorem -/
theorem tie_maxBlockSize_pos : (1 : Int) ≤ maxBlockSize := by decide

end ArvVerif.Tie.C08
