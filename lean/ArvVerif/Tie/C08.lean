/-
Tie for C08: source facts regenerated from /repo on every run (Gen/FactsC08.lean) equal what the
model in Model/C08.lean and Model/C08_FS.lean was written against: the branch structure of
filenode.seek/Read/truncate/Write/pruneMemSegments, memSegment/storedSegment primitives, dirnode.flush,
filehandle.*, openFile/Mkdir/Rename/remove/rlookup/treenode.Child, and the default maxBlockSize.
An edit to any of these conditions or to the order of the error returns breaks one of these `rfl`s
(the differential check then decides whether behaviour changed).
-/
import ArvVerif.Gen.FactsC08
import ArvVerif.Model.C08_FS
namespace ArvVerif.Tie.C08
open ArvVerif.Facts.C08

/-- production block size limit 64 MiB; the theorems hold for every `max ≥ 1`, the smoke cases of the check run at this value -/
theorem tie_maxBlockSize : maxBlockSize =
    67108864 := rfl

/-- filenode.seek: EOF test, fast path on equal `repacked` with the fell-off-the-end correction, recomputing loop (Model.C08.seek / locate) -/
theorem tie_seekConds : seekConds =
    ["if ptr.off < 0",
    "if ptr.off >= fn.fileinfo.size",
    "if ptr.repacked == fn.repacked",
    "if ptr.segmentOff >= fn.segments[ptr.segmentIdx].Len()",
    "if ptr.off >= fn.fileinfo.size",
    "for off < ptr.off",
    "if off+segLen > ptr.off"] := rfl

/-- filenode.Read: EOF at segmentIdx ≥ len, advance, normalise at segment end, clear EOF when not the last segment (Model.C08.readAt) -/
theorem tie_readConds : readConds =
    ["if ptr.off < 0",
    "if ptr.segmentIdx >= len(fn.segments)",
    "if n > 0",
    "if ptr.segmentOff == fn.segments[ptr.segmentIdx].Len()",
    "if ptr.segmentIdx < len(fn.segments) && err == io.EOF"] := rfl

/-- filenode.truncate: no-op on equal size, shrink via seek with segmentOff = 0 / mem / stored cases, grow loop with `>= maxBlockSize` and `maxgrow` (Model.C08.truncate / growLoop) -/
theorem tie_truncateConds : truncateConds =
    ["if size == fn.fileinfo.size",
    "if size < fn.fileinfo.size",
    "for i < len(fn.segments)",
    "if ok",
    "if ptr.segmentOff == 0",
    "case *memSegment",
    "default",
    "for size > fn.fileinfo.size",
    "if len(fn.segments) == 0",
    "if !ok || seg.Len() >= maxBlockSize",
    "if maxgrow < grow"] := rfl

/-- filenode.Write: implicit truncate beyond EOF, the loop, cando ≤ maxBlockSize, curWritable / prevAppendable, split (two or three pieces), fit, cangrow, EOF / drop / shrink of cur, grow prev or insert, prune at `>= maxBlockSize`, normalise (Model.C08.restructure / restrSplit / restrShift / curFate / overwrite) -/
theorem tie_writeConds : writeConds =
    ["if startPtr.off > fn.fileinfo.size",
    "if err != nil",
    "if ptr.off < 0",
    "for len(p) > 0 && err == nil",
    "if len(cando) > maxBlockSize",
    "if cur < len(fn.segments)",
    "if prev >= 0 && fn.segments[prev].Len() < maxBlockSize",
    "if ptr.segmentOff > 0 && !curWritable",
    "if max <= len(cando)",
    "if curWritable",
    "if fit < len(cando)",
    "if prevAppendable",
    "if cangrow < len(cando)",
    "if cur == len(fn.segments)",
    "if el <= len(cando)",
    "if prevAppendable",
    "if cur < len(fn.segments)",
    "if ptr.segmentOff >= maxBlockSize",
    "if fn.segments[ptr.segmentIdx].Len() == ptr.segmentOff"] := rfl

/-- order of the segment operations inside the loop body of filenode.Write -/
theorem tie_writeCalls : writeCalls =
    ["fn.truncate",
    "fn.seek",
    "fn.segments[prev].Len",
    "fn.segments[cur].Len",
    "fn.segments[cur+2].Slice",
    "seg.Truncate",
    "fn.segments[prev].Slice",
    "fn.segments[cur].Len",
    "fn.segments[prev].Len",
    "fn.segments[cur].Len",
    "fn.segments[cur].Slice",
    "fn.segments[prev].Len",
    "fn.segments[prev].(*memSegment).Truncate",
    "seg.Truncate",
    "fn.segments[ptr.segmentIdx].(*memSegment).WriteAt",
    "fn.pruneMemSegments",
    "fn.segments[ptr.segmentIdx].Len"] := rfl

/-- pruneMemSegments: which segments are flushed and when the goroutine gives up (Model.C08.pruneSegs / settleSegs) -/
theorem tie_pruneConds : pruneConds =
    ["if !ok || seg.Len() < maxBlockSize || seg.flushing != nil",
    "if seg.flushing != done",
    "if err != nil",
    "if len(fn.segments) <= idx || fn.segments[idx] != seg || len(seg.buf) != len(buf)"] := rfl

/-- memSegment.Truncate: reallocation (and flushing reset) condition (Model.C08.memTruncate) -/
theorem tie_memTruncateConds : memTruncateConds =
    ["if n > cap(me.buf) || (me.flushing != nil && n > len(me.buf))",
    "for newsize < n",
    "for i < n"] := rfl

/-- memSegment.WriteAt: overflow panic, copy-on-write of a buffer shared with a flush (Model.C08.memWriteAt) -/
theorem tie_memWriteAtText : memWriteAtText =
    "{ if off+len(p) > len(me.buf) { panic(\"overflowed segment\") } if me.flushing != nil { me.buf, me.flushing = append([]byte(nil), me.buf...), nil } copy(me.buf[off:], p) }" := rfl

/-- storedSegment.Slice (Model.C08.Seg.slice) -/
theorem tie_storedSliceText : storedSliceText =
    "{ se.offset += n se.length -= n if size >= 0 && se.length > size { se.length = size } return se }" := rfl

/-- dirnode.flush: `> maxBlockSize/2` alone, packing up to maxBlockSize, shortBlocks (Model.C08.flushGroups) -/
theorem tie_flushConds : flushConds =
    ["case *dirnode",
    "case *filenode",
    "case storedSegment",
    "if !ok",
    "if err != nil",
    "case *memSegment",
    "if seg.Len() > maxBlockSize/2",
    "if pendingLen+seg.Len() > maxBlockSize",
    "default",
    "if opts.shortBlocks"] := rfl

/-- filehandle.Write: writable check, O_APPEND repositioning for filenodes (Model.C08_FS.step / concImpl.write) -/
theorem tie_handleWriteConds : handleWriteConds =
    ["if !f.writable",
    "if ok && f.append"] := rfl

/-- filehandle.Read: readable check -/
theorem tie_handleReadConds : handleReadConds =
    ["if !f.readable"] := rfl

/-- filehandle.Seek: whence cases, negative offset, invalidate on change (Model.C08_FS.step / Ptr.seekTo) -/
theorem tie_handleSeekConds : handleSeekConds =
    ["switch whence",
    "case io.SeekStart",
    "case io.SeekCurrent",
    "case io.SeekEnd",
    "if ptr.off < 0",
    "if ptr.off != f.ptr.off"] := rfl

/-- filehandle.Truncate does not check the open mode -/
theorem tie_handleTruncateText : handleTruncateText =
    "{ return f.inode.Truncate(size) }" := rfl

/-- openFile: O_SYNC, parent lookup, access mode switch, directory shortcuts, create / O_EXCL / O_TRUNC order (Model.C08_FS.openFile) -/
theorem tie_openFileConds : openFileConds =
    ["if flag&os.O_SYNC != 0",
    "if err != nil",
    "switch flag & (os.O_RDWR | os.O_RDONLY | os.O_WRONLY)",
    "case os.O_RDWR",
    "case os.O_RDONLY",
    "case os.O_WRONLY",
    "default",
    "if !writable && parent.IsDir()",
    "switch name",
    "case \".\"",
    "case \"\"",
    "case \"..\"",
    "if createMode",
    "if err != nil",
    "if n == nil",
    "if !createMode",
    "if err != nil",
    "if err != nil",
    "if n == nil",
    "if flag&os.O_EXCL != 0",
    "if flag&os.O_TRUNC != 0",
    "if !writable",
    "if n.IsDir()",
    "if err != nil"] := rfl

/-- openFile: error values in order -/
theorem tie_openFileReturns : openFileReturns =
    ["nil, ErrSyncNotSupported",
    "nil, err",
    "nil, fmt.Errorf(\"invalid flags 0x%x\", flag)",
    "&filehandle{inode: parent}, nil",
    "&filehandle{inode: parent.Parent()}, nil",
    "nil, err",
    "nil, os.ErrNotExist",
    "",
    "",
    "nil, err",
    "nil, ErrInvalidArgument",
    "nil, ErrFileExists",
    "nil, fmt.Errorf(\"invalid flag O_TRUNC in read-only mode\")",
    "nil, fmt.Errorf(\"invalid flag O_TRUNC when opening directory\")",
    "nil, err",
    "&filehandle{ inode: n, append: flag&os.O_APPEND != 0, readable: readable, writable: writable, }, nil"] := rfl

/-- Mkdir (Model.C08_FS.doMkdir) -/
theorem tie_mkdirConds : mkdirConds =
    ["if err != nil",
    "if err != nil",
    "if child != nil",
    "if err != nil"] := rfl

/-- Rename: name checks, ancestor locking, moved-into-itself, existing directory target, same-entry test (Model.C08_FS.doRename) -/
theorem tie_renameConds : renameConds =
    ["if oldname == \"\" || oldname == \".\" || oldname == \"..\"",
    "if err != nil",
    "if newname == \".\" || newname == \"..\"",
    "if newname == \"\"",
    "if err != nil",
    "if cfs != newdirf.inode.FS()",
    "for node.Parent() != node && node.Parent().FS() == node.FS()",
    "for i >= 0",
    "if !locked[n]",
    "if oldinode == nil",
    "if locked[oldinode]",
    "if oldinode.FS() != cfs && newdirf.inode != olddirf.inode",
    "if existing != nil && existing.IsDir()",
    "if err != nil",
    "if newdirf.inode == olddirf.inode && newname == oldname"] := rfl

/-- Rename: error values in order; `oldinode, nil` keeps the entry when renamed onto itself (fix 100856b), the final `nil, nil` deletes the old entry -/
theorem tie_renameReturns : renameReturns =
    ["ErrInvalidArgument",
    "fmt.Errorf(\"%q: %s\", olddir, err)",
    "ErrInvalidArgument",
    "fmt.Errorf(\"%q: %s\", newdir, err)",
    "ErrInvalidArgument",
    "oldinode, os.ErrNotExist",
    "oldinode, ErrInvalidArgument",
    "oldinode, ErrInvalidArgument",
    "existing, ErrIsDirectory",
    "oldinode, nil",
    "oldinode, err",
    "oldinode, nil",
    "nil, nil",
    "err"] := rfl

/-- remove (Model.C08_FS.doRemove) -/
theorem tie_removeConds : removeConds =
    ["if name == \"\" || name == \".\" || name == \"..\"",
    "if err != nil",
    "if node == nil",
    "if !recursive && node.IsDir() && node.Size() > 0"] := rfl

/-- remove: error values in order -/
theorem tie_removeReturns : removeReturns =
    ["ErrInvalidArgument",
    "err",
    "nil, os.ErrNotExist",
    "node, ErrDirectoryNotEmpty",
    "nil, nil",
    "err"] := rfl

/-- rlookup path rules (Model.C08_FS.walk) -/
theorem tie_rlookupConds : rlookupConds =
    ["if node.IsDir()",
    "if name == \".\" || name == \"\"",
    "if name == \"..\"",
    "if node == nil || err != nil",
    "if node == nil && err == nil"] := rfl

/-- treenode.Child: special names, replace semantics (delete on nil) -/
theorem tie_treenodeChildConds : treenodeChildConds =
    ["if name == \"\" || name == \".\" || name == \"..\"",
    "if replace == nil",
    "if err != nil",
    "if newchild == nil",
    "if newchild != child"] := rfl

/-- commitBlock: early return on an unfinished flush (async), block assembly, and the async revalidation (index, segment identity, flushing channel) (Model.C08.commitBlock / flushFiles; ASYNC cases) -/
theorem tie_commitBlockConds : commitBlockConds =
    ["if len(refs) == 0",
    "if err != nil",
    "if !sync && seg.flushingUnfinished()",
    "if len(refs) == 1",
    "if block == nil",
    "if err != nil",
    "if !sync",
    "if len(ref.fn.segments) <= ref.idx",
    "if !ok || seg != segs[idx]",
    "if seg.flushing != done",
    "if !sync",
    "if sync"] := rfl

/-- commitBlock: offsets recorded at assembly time, length taken from the segment's CURRENT buffer at completion time (`length: len(data)`) — the class of seeded change C08-b -/
theorem tie_commitBlockAssigns : commitBlockAssigns =
    ["offsets := make([]int, 0, len(refs))",
    "seg.flushing = done",
    "offsets = append(offsets, len(block))",
    "block = seg.buf",
    "block = append(make([]byte, 0, bufsize), seg.buf...)",
    "block = append(block, seg.buf...)",
    "blocksize := len(block)",
    "ref.fn.segments[ref.idx] = storedSegment{ kc: dn.fs, locator: locator, size: blocksize, offset: offsets[idx], length: len(data), }"] := rfl

/-- memSegment.flushingUnfinished: a closed channel is reset to nil (Model.C08 Flush.stale) -/
theorem tie_commitBlockStored : commitBlockStored =
    "{ if me.flushing == nil { return false } select { case <-me.flushing: me.flushing = nil return false default: return true } }" := rfl

/-- pruneMemSegments: snapshot of idx/buf, flushing channel, replacement by a whole-block stored segment (Model.C08.pruneSegs / settleSegs) -/
theorem tie_pruneAssigns : pruneAssigns =
    ["idx, buf := idx, seg.buf",
    "seg.flushing = done",
    "fn.segments[idx] = storedSegment{ kc: fn.FS(), locator: locator, size: len(buf), offset: 0, length: len(buf), }"] := rfl

/-- filenode.Write: every assignment to the segment list, the pointer, the size, cando and the repacked counters, in order (Model.C08.restructure / overwrite) — the class of seeded change C08-a / mutation M2 -/
theorem tie_writeAssigns : writeAssigns =
    ["cando := p",
    "cando = cando[:maxBlockSize]",
    "cando = cando[:max]",
    "fn.segments = append(fn.segments, nil)",
    "fn.segments = append(fn.segments, nil, nil)",
    "fn.segments[cur+2] = fn.segments[cur+2].Slice(ptr.segmentOff+len(cando), -1)",
    "fn.segments[cur] = seg",
    "fn.segments[prev] = fn.segments[prev].Slice(0, ptr.segmentOff)",
    "ptr.segmentIdx++",
    "ptr.segmentOff = 0",
    "fn.repacked++",
    "ptr.repacked++",
    "cando = cando[:fit]",
    "cando = cando[:cangrow]",
    "fn.fileinfo.size += int64(len(cando))",
    "cando = cando[:el]",
    "fn.segments = fn.segments[:len(fn.segments)-1]",
    "fn.segments[cur] = fn.segments[cur].Slice(len(cando), -1)",
    "ptr.segmentIdx--",
    "ptr.segmentOff = fn.segments[prev].Len()",
    "ptr.repacked++",
    "fn.repacked++",
    "fn.segments = append(fn.segments, nil)",
    "ptr.repacked++",
    "fn.repacked++",
    "fn.segments[cur] = seg",
    "ptr.off += int64(len(cando))",
    "ptr.segmentOff += len(cando)",
    "ptr.segmentOff = 0",
    "ptr.segmentIdx++"] := rfl

/-- filenode.truncate: repacked bump, cuts, size updates (Model.C08.truncate / growLoop) -/
theorem tie_truncateAssigns : truncateAssigns =
    ["fn.repacked++",
    "fn.segments = fn.segments[:ptr.segmentIdx]",
    "fn.segments = fn.segments[:ptr.segmentIdx+1]",
    "fn.segments[ptr.segmentIdx] = seg.Slice(0, ptr.segmentOff)",
    "fn.fileinfo.size = size",
    "grow := size - fn.fileinfo.size",
    "fn.segments = append(fn.segments, seg)",
    "fn.segments = append(fn.segments, seg)",
    "grow = maxgrow",
    "fn.fileinfo.size += grow"] := rfl

/-- filenode.seek: pointer updates (Model.C08.seek / locate) -/
theorem tie_seekAssigns : seekAssigns =
    ["ptr.segmentIdx = len(fn.segments)",
    "ptr.segmentOff = 0",
    "ptr.repacked = fn.repacked",
    "ptr.segmentIdx++",
    "ptr.segmentOff = 0",
    "ptr.repacked = fn.repacked",
    "ptr.segmentIdx, ptr.segmentOff = len(fn.segments), 0",
    "ptr.segmentIdx, ptr.segmentOff = 0, 0",
    "ptr.segmentIdx++",
    "ptr.segmentOff = int(ptr.off - off)"] := rfl

/-- filenode.Read: pointer/err updates (Model.C08.readAt) -/
theorem tie_readAssigns : readAssigns =
    ["err = ErrNegativeOffset",
    "err = io.EOF",
    "ptr.off += int64(n)",
    "ptr.segmentOff += n",
    "ptr.segmentIdx++",
    "ptr.segmentOff = 0",
    "err = nil"] := rfl

/-- memSegment.ReadAt (Model.C08.Seg.readAt) -/
theorem tie_memReadAtText : memReadAtText =
    "{ if off > int64(me.Len()) { err = io.EOF return } n = copy(p, me.buf[int(off):]) if n < len(p) { err = io.EOF } return }" := rfl

/-- storedSegment.ReadAt (Model.C08.Seg.readAt) -/
theorem tie_storedReadAtConds : storedReadAtConds =
    ["if off > int64(se.length)",
    "if len(p) > maxlen",
    "if err == nil"] := rfl

/-- memSegment.Slice (Model.C08.Seg.slice) -/
theorem tie_memSliceText : memSliceText =
    "{ if length < 0 { length = len(me.buf) - off } buf := make([]byte, length) copy(buf, me.buf[off:]) return &memSegment{buf: buf} }" := rfl

/-- collectionFileSystem.Flush: not-a-directory, non-recursive for path != "" (Model.C08_FS.doFlush) -/
theorem tie_flushFsConds : flushFsConds =
    ["if err != nil",
    "if !ok",
    "if path != \"\"",
    "if ok"] := rfl

/-- collectionFileSystem.newNode: name check, perm.IsDir (Model.C08_FS.addNode) -/
theorem tie_newNodeConds : newNodeConds =
    ["if name == \"\" || name == \".\" || name == \"..\"",
    "if perm.IsDir()"] := rfl

/-- filehandle.Write: the O_APPEND pointer (Model.C08.appendPtr) -/
theorem tie_handleWriteAssigns : handleWriteAssigns =
    ["f.ptr = filenodePtr{ off: fn.fileinfo.size, segmentIdx: len(fn.segments), segmentOff: 0, repacked: fn.repacked, }"] := rfl

/-- filehandle.Seek: offset arithmetic and invalidation stamp -1 (Model.C08.Ptr.seekTo) -/
theorem tie_handleSeekAssigns : handleSeekAssigns =
    ["ptr.off = off",
    "ptr.off += off",
    "ptr.off = size + off",
    "f.ptr = ptr",
    "f.ptr.repacked = -1"] := rfl

/-- filehandle.Readdir (count <= 0: Model.C08_FS.step Op.hreaddir; count > 0: Model.C08_Ext.stepX) -/
theorem tie_handleReaddirConds : handleReaddirConds =
    ["if !f.inode.IsDir()",
    "if count <= 0",
    "if f.unreaddirs == nil",
    "if err != nil",
    "if len(f.unreaddirs) == 0",
    "if count > len(f.unreaddirs)"] := rfl

/-- fileSystem.Stat = rlookup + FileInfo (Model.C08_FS.step Op.stat) -/
theorem tie_statText : statText =
    "{ node, err := rlookup(fs.root, name) if err != nil { return nil, err } return node.FileInfo(), nil }" := rfl

/-- fileSystem.RemoveAll: trailing slashes trimmed, ErrNotExist becomes nil (Model.C08_FS.doRemove) -/
theorem tie_removeAllText : removeAllText =
    "{ err := fs.remove(strings.TrimRight(name, \"/\"), true) if os.IsNotExist(err) { err = nil } return err }" := rfl

/-- fileSystem.Remove: trailing slashes trimmed -/
theorem tie_removeText : removeText =
    "{ return fs.remove(strings.TrimRight(name, \"/\"), false) }" := rfl

/-- fileSystem.Create = O_CREATE|O_RDWR|O_TRUNC (Model.C08_FS.step Op.create) -/
theorem tie_createText : createText =
    "{ return fs.OpenFile(name, os.O_CREATE|os.O_RDWR|os.O_TRUNC, 0) }" := rfl

/-- treenode.FileInfo: a directory's size is its number of entries (Model.C08_FS.dirSize) -/
theorem tie_treenodeFileInfoText : treenodeFileInfoText =
    "{ n.Lock() defer n.Unlock() n.fileinfo.size = int64(len(n.inodes)) return n.fileinfo }" := rfl

/-- nullnode.Child: lookup below a file is ErrNotADirectory (Model.C08_FS.walk) -/
theorem tie_nullnodeChildText : nullnodeChildText =
    "{ return nil, ErrNotADirectory }" := rfl

/-! ### third extension pass: paged Readdir, Size(), MemorySize(), memSegment.Truncate statements -/

/-- filehandle.Readdir: snapshot on the first paged call, `count` capped at what is left, the page is the
front of the snapshot and the snapshot loses it (Model.C08_Ext.pageStep / stepX) -/
theorem tie_handleReaddirAssigns : handleReaddirAssigns =
    ["f.unreaddirs, err = f.inode.Readdir()",
    "count = len(f.unreaddirs)",
    "ret := f.unreaddirs[:count]",
    "f.unreaddirs = f.unreaddirs[count:]"] := rfl

/-- filehandle.Readdir: results in order — not a directory, whole listing, snapshot error, EOF, a page -/
theorem tie_handleReaddirReturns : handleReaddirReturns =
    ["nil, ErrInvalidOperation",
    "f.inode.Readdir()",
    "nil, err",
    "nil, io.EOF",
    "ret, nil"] := rfl

/-- treenode.Readdir: one FileInfo per entry of the map (Model.C08_Ext.entriesList) -/
theorem tie_treenodeReaddirAssigns : treenodeReaddirAssigns =
    ["fi = make([]os.FileInfo, 0, len(n.inodes))",
    "fi = append(fi, inode.FileInfo())"] := rfl

/-- collectionFileSystem.Size = TreeSize of the root: file sizes plus subdirectories, recursively
(Model.C08_Ext.fsSize / treeSum) -/
theorem tie_fsSizeText : fsSizeText = "{ return fs.fileSystem.root.(*dirnode).TreeSize() }" := rfl
theorem tie_treeSizeAssigns : treeSizeAssigns =
    ["bytes += i.Size()",
    "bytes += i.TreeSize()"] := rfl

/-- dirnode.MemorySize: lengths of memSegments, recursively (Model.C08_Ext.memSize / memOf) -/
theorem tie_memorySizeAssigns : memorySizeAssigns =
    ["size += node.MemorySize()",
    "size += int64(seg.Len())"] := rfl

/-- memSegment.Truncate, statement by statement (Model.C08_Ext.capTruncate / newCap): initial capacity
1024, growth x4, fresh buffer resets `flushing`; in place: reslice and zero the reclaimed part -/
theorem tie_memTruncateAssigns : memTruncateAssigns =
    ["newsize := 1024",
    "newsize = newsize << 2",
    "newbuf := make([]byte, n, newsize)",
    "me.buf, me.flushing = newbuf, nil",
    "oldlen := len(me.buf)",
    "me.buf = me.buf[:n]",
    "me.buf[i] = 0"] := rfl

/-- the production limit satisfies the hypothesis `1 ≤ max` of every C08 theorem -/
theorem tie_maxBlockSize_pos : (1 : Int) ≤ maxBlockSize := by decide

end ArvVerif.Tie.C08
