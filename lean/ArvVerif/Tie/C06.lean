/-
Tie for C06: source facts regenerated from /repo on every run (Gen/FactsC06.lean) equal what the
models were written against. An edit to the paging conditions, filters or assignments, to the index
readers' loop, to GetIndex's suffix test, to handleIndex's error path, or to the error guards of
Balancer.Run / GetCurrentState / CheckSanityLate breaks one of these theorems.
-/
import ArvVerif.Gen.FactsC06
import ArvVerif.Model.C06
import ArvVerif.Model.C06_Index
import ArvVerif.Model.C06_Run
import ArvVerif.Model.C06_GCSShape
namespace ArvVerif.Tie.C06
open ArvVerif.Facts.C06 ArvVerif.C06

/-! ### (a) EachCollection -/

/-- The loop's conditions, in source order: the page-size default (`effLimit`), the overlap-skip rule
(`skip`), the four-way hand-over chain (`advance`) and the final count test (`finalCheck`). -/
theorem tie_eachCollection_conds : eachCollectionConds =
  ["if progress == nil",
   "if err != nil",
   "if limit <= 0",
   "if err != nil",
   "if last.ModifiedAt == coll.ModifiedAt && last.UUID >= coll.UUID",
   "if err != nil",
   "if len(page.Items) == 0 && !gettingExactTimestamp",
   "if last.ModifiedAt.IsZero()",
   "if len(page.Items) > 0 && last.ModifiedAt == filterTime",
   "if gettingExactTimestamp",
   "if err != nil",
   "if callCount < checkCount"] := rfl

/-- Filter attributes and operators of each mode in source order — `=`/`>` (exact timestamp with uuid
cursor, `Filt.eq`), `>` (`Filt.gt`), `>=`/`!=` (`Filt.ge`), `<=` (final count) — the order string,
`count=none`, and the selected fields. -/
theorem tie_eachCollection_strings : eachCollectionStrings =
  ["modified_at, uuid",
   "none",
   "uuid",
   "unsigned_manifest_text",
   "modified_at",
   "portable_data_hash",
   "replication_desired",
   "storage_classes_desired",
   "GET",
   "arvados/v1/collections",
   "BUG: Last collection on the page (%s) has no modified_at timestamp; cannot make progress",
   "modified_at",
   "=",
   "uuid",
   ">",
   "modified_at",
   ">",
   "modified_at",
   ">=",
   "uuid",
   "!=",
   "modified_at",
   "<=",
   "Retrieved %d collections with modtime <= T=%q, but server now reports there are %d collections with modtime <= T"] := rfl

/-- The state updates: `callCount++` and `last = coll` per callback, `filterTime` only in `>=` mode. -/
theorem tie_eachCollection_assigns : eachCollectionAssigns =
  ["limit := pageSize",
   "limit = 1<<31 - 1",
   "callCount := 0",
   "gettingExactTimestamp := false",
   "callCount++",
   "last = coll",
   "gettingExactTimestamp = true",
   "gettingExactTimestamp = false",
   "filterTime = last.ModifiedAt"] := rfl

/-- Every error is returned (request error ×3 sites + callback error, BUG, count mismatch). -/
theorem tie_eachCollection_returns : eachCollectionReturns =
  ["err",
   "err",
   "err",
   "fmt.Errorf(\"BUG: Last collection on the page (%s) has no modified_at timestamp; cannot make progress\", last.UUID)",
   "err",
   "fmt.Errorf(\"Retrieved %d collections with modtime <= T=%q, but server now reports there are %d collections with modtime <= T\", callCount, filterTime, checkCount)",
   "nil"] := rfl

theorem tie_eachCollection_ints : eachCollectionInts = [0, 1, 31, 1, 0, 0, 0] := rfl

/-- `limit = 1<<31 - 1` when `pageSize <= 0` -/
theorem tie_effLimit : effLimit 0 = 1 <<< 31 - 1 ∧ effLimit (-3) = 1 <<< 31 - 1 ∧ effLimit 7 = 7 := by decide

/-- the count requests: `count=exact` (with `limit=0`) -/
theorem tie_countCollections_strings : countCollectionsStrings =
  ["exact",
   "GET",
   "arvados/v1/collections"] := rfl

/-- `arvados.Client.DoAndDecode`, the helper under every API request of the sweep: a 200 response is
decoded with `json.Unmarshal` whenever the caller wants a result (an empty or cut-short body is then a
decode error — the model's "request k fails"); every non-200, non-redirect status is an error. -/
theorem tie_doAndDecode_conds : doAndDecodeConds =
  ["if err != nil",
   "if err != nil",
   "case resp.StatusCode == http.StatusOK && dst == nil",
   "case resp.StatusCode == http.StatusOK",
   "case isRedirectStatus(resp.StatusCode) && dst == nil",
   "case isRedirectStatus(resp.StatusCode)",
   "if err != nil",
   "default"] := rfl

theorem tie_doAndDecode_returns : doAndDecodeReturns =
  ["err",
   "err",
   "nil",
   "json.Unmarshal(buf, dst)",
   "nil",
   "err",
   "json.Unmarshal(buf, dst)",
   "newTransactionError(req, resp, buf)"] := rfl

/-! ### (b) index readers and producer -/

/-- `KeepService.index`: status test, scanner loop, `sawEOF` tests, field count, legacy-seconds fix,
final `!sawEOF` (`ksLoop`, `parseLine`, `fixMtime`). -/
theorem tie_ksIndex_conds : ksIndexConds =
  ["if err != nil",
   "if err != nil",
   "if resp.StatusCode != 200",
   "for scanner.Scan()",
   "if scanner.Err() != nil",
   "if sawEOF",
   "if line == \"\"",
   "if len(fields) != 2",
   "if err != nil",
   "if mtime < 1e12",
   "if err != nil",
   "if !sawEOF"] := rfl

theorem tie_ksIndex_assigns : ksIndexAssigns =
  ["sawEOF := false",
   "sawEOF = true",
   "mtime, err := strconv.ParseInt(fields[1], 10, 64)",
   "mtime = mtime * 1e9"] := rfl

/-- a `bufio.Scanner` with the default split function (`ScanLines`: no call to `scanner.Split`),
`strings.Split`, `strconv.ParseInt` -/
theorem tie_ksIndex_calls : ksIndexCalls =
  ["bufio.NewScanner",
   "scanner.Scan",
   "scanner.Err",
   "scanner.Text",
   "strings.Split",
   "strconv.ParseInt",
   "scanner.Err"] := rfl

theorem tie_ksIndex_strings : ksIndexStrings =
  ["GET",
   "NewRequestWithContext(%v): %v",
   "Do(%v): %v",
   "%v: %d %v",
   "Index response contained non-terminal blank line",
   "",
   " ",
   "Malformed index line %q: %d fields",
   "Malformed index line %q: mtime: %v",
   "Error scanning index response: %v",
   "Index response had no EOF marker"] := rfl

/-- `GetIndex`: the completeness test (`getIndex`) -/
theorem tie_getIndex_conds : getIndexConds =
  ["if url == \"\"",
   "if prefix != \"\"",
   "if err != nil",
   "if err != nil",
   "if resp.StatusCode != http.StatusOK",
   "if err != nil",
   "if !bytes.Equal(respBody, []byte(\"\\n\")) && !bytes.HasSuffix(respBody, []byte(\"\\n\\n\"))"] := rfl

/-- … and what it returns: every failure is an error, success strips the last byte. -/
theorem tie_getIndex_returns : getIndexReturns =
  ["nil, ErrNoSuchKeepServer",
   "nil, err",
   "nil, err",
   "nil, fmt.Errorf(\"Got http status code: %d\", resp.StatusCode)",
   "nil, err",
   "nil, ErrIncompleteIndex",
   "bytes.NewReader(respBody[0 : len(respBody)-1]), nil"] := rfl

/-- `handleIndex`: `IndexTo` is called in a loop, its error is followed by `return`, and the single
`resp.Write` (the terminating newline) comes after the loop, outside every condition
(`handleIndex`). -/
theorem tie_handleIndex_steps : stepsOf handleIndexSkeleton =
    [⟨"http.Error".toList, false, false, ["!rtr.isSystemAuth(GetAPIToken(req))".toList]⟩,
     ⟨"http.Error".toList, false, false, ["mnt == nil".toList, "!uuid == \"\"".toList]⟩,
     ⟨"v.IndexTo".toList, true, true, ["for".toList]⟩,
     ⟨"resp.Write".toList, false, false, []⟩] := by decide +kernel

/-! ### (c) Balancer.Run, GetCurrentState, CheckSanityLate -/

/-- The guard list extracted from the current `Balancer.Run` is the model's `runSteps`. -/
theorem tie_run_steps : stepsOf ArvVerif.Facts.C06.runSkeleton = runSteps := by decide +kernel

/-- `ClearTrashLists` empties every change set and calls `CommitTrash` (so the trash requests it
sends are empty lists). -/
theorem tie_clearTrashLists : clearTrashListsText =
  "{ for _, srv := range bal.KeepServices { srv.ChangeSet = &ChangeSet{} } return bal.CommitTrash(ctx, c) }" := rfl

theorem tie_commitPulls : commitPullsCalls = ["bal.commitAsync",    "srv.CommitPulls"] := rfl
theorem tie_commitTrash : commitTrashCalls = ["bal.commitAsync",    "srv.CommitTrash"] := rfl

/-! `GetCurrentState` — structural ties (they replace the former literal of the whole skeleton, which
broke on any harmless rewrite of the device-table loops or of the logging): `GCS.shapeOf` cuts the
regenerated skeleton into prologue / goroutine bodies / epilogue (`call len` tokens dropped). -/

/-- The three goroutine literals, in source order, are exactly the index worker, the collection
processor and the collection scanner the small-step model `Model/C06_GCS.lean` describes: error →
non-blocking offer to `errs`, `cancel()`, return; `len(errs) > 0` tests; drain loop; `close(collQ)`. -/
theorem tie_getCurrentState_goroutines :
    (GCS.shapeOf getCurrentStateSkeleton).bodies = [GCS.workerBody, GCS.processorBody, GCS.scannerBody] := by
  decide +kernel

/-- Outside the goroutines, from the first `go` on: the two further `wg.Add`, `wg.Wait`, then
`if len(errs) > 0 { return <-errs }` and `return nil` — nothing else. -/
theorem tie_getCurrentState_epilogue : (GCS.shapeOf getCurrentStateSkeleton).epi = GCS.epilogue := by
  decide +kernel

/-- Before the first goroutine: the discovery-document request is followed by `if err != nil { return }`
(`getCurrentStateFails`), and no goroutine is started, waited for, nor `collQ` closed there. -/
theorem tie_getCurrentState_prologue :
    GCS.hasBlock GCS.ddGuard (GCS.shapeOf getCurrentStateSkeleton).pro = true ∧
    ((GCS.shapeOf getCurrentStateSkeleton).pro.filter
      (fun t => t == "go" || t == "call wg.Wait" || t == "call close")) = [] := by
  decide +kernel

/-- `CheckSanityLate` (`checkSanityLateFails`) -/
theorem tie_checkSanityLate_conds : checkSanityLateConds =
  ["if bal.errors != nil",
   "if bal.collScanned == 0",
   "if desired > 0",
   "if !anyDesired",
   "if dr < 1"] := rfl

theorem tie_checkSanityLate_returns : checkSanityLateReturns =
  ["fmt.Errorf(\"cannot proceed safely after deferred errors\")",
   "fmt.Errorf(\"received zero collections\")",
   "fmt.Errorf(\"zero blocks have desired replication>0\")",
   "fmt.Errorf(\"Default replication (%d) is less than 1\", dr)",
   "nil"] := rfl

end ArvVerif.Tie.C06
