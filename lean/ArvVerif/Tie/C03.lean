/-
Tie for C03: source facts regenerated from /repo on every run (Gen/FactsC03.lean) equal what the
model (Model/C03.lean, Model/C03_Conc.lean) was written against. An edit to the comparison in
HashCheckingReader, the Content-Length rule or retry rule of getOrHead, the cache's refetch
condition / read-then-close sequence, or storedSegment.ReadAt's bounds breaks one of these.
-/
import ArvVerif.Gen.FactsC03
import ArvVerif.Model.C03
namespace ArvVerif.Tie.C03
open ArvVerif.Facts.C03

theorem tie_blockSize : blockSize = (ArvVerif.C03.blockSize : Int) := by decide
theorem tie_defaultMaxBlocks : defaultMaxBlocks = (ArvVerif.C03.defaultMaxBlocks : Int) := by decide

/-- Read: hash what was read, and on io.EOF compare `%x` of the sum with Check; mismatch → BadChecksum
(Model.endErr / hcrRead). -/
theorem tie_hcrRead :
    hcrReadConds = ["if n > 0", "if err == io.EOF", "if fmt.Sprintf(\"%x\", sum) != hcr.Check"] ∧
    hcrReadAssigns = ["n, err = hcr.Reader.Read(p)", "sum := hcr.Hash.Sum(nil)", "err = BadChecksum"] ∧
    hcrReadReturns = ["n, err"] := ⟨rfl, rfl, rfl⟩

/-- WriteTo: copy to dest and hash, return a copy error, else compare (Model.writeTo). -/
theorem tie_hcrWriteTo :
    hcrWriteToSkeleton =
      ["if ok {", "call writeto.WriteTo => written,err", "call io.MultiWriter", "} else {",
       "call io.Copy => written,err", "call io.MultiWriter", "}", "if err != nil {", "return", "}",
       "call hcr.Hash.Sum => sum", "if fmt.Sprintf(\"%x\", sum) != hcr.Check {", "return", "}", "return"] ∧
    hcrWriteToReturns = ["written, err", "written, BadChecksum", "written, nil"] := ⟨rfl, rfl⟩

/-- Close: drain into the hash, close, copy error first, close error second, then compare
(Model.closeR). -/
theorem tie_hcrClose :
    hcrCloseSkeleton =
      ["call io.Copy => _,err", "if ok {", "call closer.Close => closeErr", "if err == nil {", "}", "}",
       "if err != nil {", "return", "}", "call hcr.Hash.Sum",
       "if fmt.Sprintf(\"%x\", hcr.Hash.Sum(nil)) != hcr.Check {", "return", "}", "return"] ∧
    hcrCloseAssigns = ["_, err = io.Copy(hcr.Hash, hcr.Reader)", "closer, ok := hcr.Reader.(io.Closer)",
       "closeErr := closer.Close()", "err = closeErr"] ∧
    hcrCloseReturns = ["err", "BadChecksum", "nil"] := ⟨rfl, rfl, rfl⟩

/-- getOrHead's decisions, in source order (Model.getOrHead / rounds / tryServers / accept200). -/
theorem tie_getOrHeadConds : getOrHeadConds =
    ["if strings.HasPrefix(locator, \"d41d8cd98f00b204e9800998ecf8427e+0\")",
     "if len(parts) < 2", "if err != nil", "for triesRemaining > 0", "if err != nil",
     "if req.Header.Get(\"Authorization\") == \"\"", "if req.Header.Get(\"X-Request-Id\") == \"\"",
     "if err != nil", "if resp.StatusCode != http.StatusOK",
     "if resp.StatusCode == 408 || resp.StatusCode == 429 || resp.StatusCode >= 500",
     "if resp.StatusCode == 404", "if expectLength < 0", "if resp.ContentLength < 0",
     "if resp.ContentLength >= 0 && expectLength != resp.ContentLength", "if method == \"GET\"",
     "if count404 == numServers"] := rfl

/-- the retry predicate the model uses is the one in that condition -/
theorem tie_retryable (c : Nat) :
    ArvVerif.C03.retryable c = true ↔ (c = 408 ∨ c = 429 ∨ c ≥ 500) := by
  simp [ArvVerif.C03.retryable, or_assoc]

/-- the empty-block shortcut literal -/
theorem tie_emptyLocator :
    (getOrHeadStrings.head?.getD "").toList = ArvVerif.C03.emptyLocator := by decide

/-- bookkeeping of the retry rounds: tries = 1 + Retries, the next round tries the retry list,
404s are counted against the initial number of servers, expectLength comes from the hint or from
the Content-Length. -/
theorem tie_getOrHeadAssigns : getOrHeadAssigns =
    ["expectLength = -1", "expectLength = -1", "expectLength = n", "triesRemaining := 1 + kc.Retries",
     "serversToTry := kc.getSortedRoots(locator)", "numServers := len(serversToTry)", "count404 := 0",
     "triesRemaining--", "retryList = nil", "retryList = append(retryList, host)",
     "retryList = append(retryList, host)", "count404++", "expectLength = resp.ContentLength",
     "serversToTry = retryList"] := rfl

/-- every successful GET body is wrapped in a HashCheckingReader checking against locator[0:32] -/
theorem tie_getOrHeadReader :
    getOrHeadReturns.getD 3 "" =
      "HashCheckingReader{ Reader: resp.Body, Hash: md5.New(), Check: locator[0:32], }, expectLength, url, resp.Header, nil" ∧
    getOrHeadReturns.length = 6 ∧
    getOrHeadReaderCalls = ["strings.HasPrefix", "strings.SplitN", "strconv.ParseInt", "kc.getSortedRoots", "md5.New"] ∧
    getCalls = ["kc.getOrHead"] ∧ readAtCalls = ["kc.cache().ReadAt", "kc.cache"] := ⟨rfl, rfl, rfl, rfl, rfl⟩

/-- BlockCache.Get: key, buffer size, refetch condition `!ok || b.err != nil`, ReadFull then Close,
first error wins, outcome stored (Model.fetchBody / fetch, Model.C03_Conc.apply). -/
theorem tie_cacheGet :
    cacheGetConds = ["if len(parts) >= 2", "if err == nil && datasize >= 0", "if c.cache == nil",
      "if !ok || b.err != nil", "if err == nil && (size < 0 || size > int64(bufsize))", "if err == nil",
      "if err == nil"] ∧
    cacheGetCalls = ["strings.SplitN", "strconv.ParseInt", "make", "make", "kc.Get", "rdr.Close", "make",
      "io.ReadFull", "rdr.Close", "close", "c.Sweep"] ∧
    cacheGetAssigns = ["cacheKey := locator[:32]", "bufsize := BLOCKSIZE",
      "datasize, err := strconv.ParseInt(parts[1], 10, 32)", "bufsize = int(datasize)",
      "c.cache = make(map[string]*cacheBlock)", "c.cache[cacheKey] = b",
      "err = fmt.Errorf(\"error reading %q: size %d exceeds buffer size %d\", locator, size, bufsize)",
      "data = make([]byte, size, bufsize)", "_, err = io.ReadFull(rdr, data)", "err2 := rdr.Close()",
      "err = err2", "b.data, b.err = data, err"] := ⟨rfl, rfl, rfl⟩

/-- BlockCache.ReadAt (Model.readAtEntry) and Sweep (Model.sweep). -/
theorem tie_cacheReadAt :
    cacheReadAtConds = ["if err != nil", "if off > len(buf)"] ∧
    cacheReadAtReturns = ["0, err", "0, io.ErrUnexpectedEOF", "copy(p, buf[off:]), nil"] ∧
    sweepConds = ["if max == 0", "if len(c.cache) <= max", "if !b.lastUse.After(threshold)"] := ⟨rfl, rfl, rfl⟩

/-- storedSegment.ReadAt (Model.segReadAt). -/
theorem tie_segReadAt : segReadAtText =
    "{ if off > int64(se.length) { return 0, io.EOF } maxlen := se.length - int(off) if len(p) > maxlen { p = p[:maxlen] n, err = se.kc.ReadAt(se.locator, p, int(off)+se.offset) if err == nil { err = io.EOF } return } return se.kc.ReadAt(se.locator, p, int(off)+se.offset) }" := rfl

/-- CollectionFileReader opens the file through the collection filesystem backed by this client. -/
theorem tie_collectionFileReader : collectionFileReaderCalls =
    ["(&arvados.Collection{ManifestText: mText}).FileSystem", "fs.OpenFile"] := rfl

/-- Sweep only deletes map entries (Model.sweep / Model.C03_Conc `sweep`): nothing of an evicted
block is kept or handed on. -/
theorem tie_sweepText : sweepText =
    "{ max := c.MaxBlocks if max == 0 { max = defaultMaxBlocks } c.mtx.Lock() defer c.mtx.Unlock() if len(c.cache) <= max { return } lru := make([]time.Time, 0, len(c.cache)) for _, b := range c.cache { lru = append(lru, b.lastUse) } sort.Sort(sort.Reverse(timeSlice(lru))) threshold := lru[max] for loc, b := range c.cache { if !b.lastUse.After(threshold) { delete(c.cache, loc) } } }" := rfl

/-- The write path does not touch the block cache (the model's cache changes only in Get's fetch,
Sweep and Clear): PutB and PutHB call nothing but the hash and putReplicas. -/
theorem tie_writesBypassCache :
    putBCalls = ["fmt.Sprintf", "md5.Sum", "kc.PutHB"] ∧
    putHBCalls = ["bytes.NewBuffer", "kc.putReplicas", "int64", "len"] ∧
    clearAssigns = ["c.cache = nil"] := ⟨rfl, rfl, rfl⟩

/-- filenode.Read (Model.fileRead): seek, EOF past the last segment, one segment read, pointer
advance, EOF at a segment end that is not the file end becomes nil. -/
theorem tie_filenodeRead : filenodeReadText =
    "{ ptr = fn.seek(startPtr) if ptr.off < 0 { err = ErrNegativeOffset return } if ptr.segmentIdx >= len(fn.segments) { err = io.EOF return } n, err = fn.segments[ptr.segmentIdx].ReadAt(p, int64(ptr.segmentOff)) if n > 0 { ptr.off += int64(n) ptr.segmentOff += n if ptr.segmentOff == fn.segments[ptr.segmentIdx].Len() { ptr.segmentIdx++ ptr.segmentOff = 0 if ptr.segmentIdx < len(fn.segments) && err == io.EOF { err = nil } } } return }" := rfl

/-- filenode.seek (Model.seek / locate) and filehandle.Seek (Model.fileSeek / fileSeekW: the three
whences, a negative target is refused with the old offset, a changed offset — and nothing else — marks
the pointer stale, `repacked = -1`; the segment position is never adjusted by Seek). -/
theorem tie_filenodeSeek :
    filenodeSeekConds = ["if ptr.off < 0", "if ptr.off >= fn.fileinfo.size", "if ptr.repacked == fn.repacked",
      "if ptr.segmentOff >= fn.segments[ptr.segmentIdx].Len()", "if ptr.off >= fn.fileinfo.size",
      "for off < ptr.off", "if off+segLen > ptr.off"] ∧
    filehandleReadCalls = ["f.inode.RLock", "f.inode.RUnlock", "f.inode.Read"] ∧
    filehandleSeekAssigns = ["size := f.inode.Size()", "ptr := f.ptr", "ptr.off = off", "ptr.off += off",
      "ptr.off = size + off", "f.ptr = ptr", "f.ptr.repacked = -1"] ∧
    filehandleSeekConds = ["switch whence", "case io.SeekStart", "case io.SeekCurrent", "case io.SeekEnd",
      "if ptr.off < 0", "if ptr.off != f.ptr.off"] ∧
    filehandleSeekReturns = ["f.ptr.off, ErrNegativeOffset", "f.ptr.off, nil"] := ⟨rfl, rfl, rfl, rfl, rfl⟩

/-- loadManifest's stream-offset → block-segment loop (Model.walkBlocks / loadTokensN): these
conditions occur, in this order (other parse conditions of loadManifest belong to C10). -/
theorem tie_loadManifestWalk :
    (["if pos > offset", "for segIdx < len(segments)", "if next <= offset || seg.Len() == 0",
      "if pos >= offset+length", "if pos < offset", "if pos+int64(blkOff+blkLen) > offset+length",
      "if blkLen > 0", "if next > offset+length",
      "if segIdx == len(segments) && pos < offset+length"].isSublist loadManifestConds) = true := by decide

end ArvVerif.Tie.C03
