/-
Tie for C14: source facts regenerated from /repo on every run (Gen/FactsC14.lean) equal what the
models (Model/C14.lean L1, Model/C14_Pool.lean L2, Model/C14_Proto.lean L3) were written against.
An edit to a branch condition, to the order of the pool/queue calls of a pass, or to the
bookkeeping statements of the pool breaks one of these `rfl`s.
-/
import ArvVerif.Gen.FactsC14
import ArvVerif.Model.C14
namespace ArvVerif.Tie.C14
open ArvVerif.Facts.C14

/-! ### L1: scheduler pass -/

/-- Branch structure of `runQueue` in source order = the tests of `C14.iter` / `C14.startAttempt`
(skip if running or priority < 1; Queued: quota test, lingering-process test; Locked: worker
accounting, quota, create, dontstart, lingering-process test, start) and of the overquota tail
(`overquotaUnlocks`, `shutdownTypes`). -/
theorem tie_runQueue_conds : runQueueConds =
    ["if running || ctr.Priority < 1",
     "switch ctr.State",
     "case arvados.ContainerStateQueued",
     "if unalloc[it] < 1 && sch.pool.AtQuota()",
     "if sch.pool.KillContainer(ctr.UUID, \"about to lock\")",
     "case arvados.ContainerStateLocked",
     "if unalloc[it] > 0",
     "if sch.pool.AtQuota()",
     "if sch.pool.Create(it)",
     "if dontstart[it]",
     "if sch.pool.KillContainer(ctr.UUID, \"about to start\")",
     "if sch.pool.StartContainer(it, ctr)",
     "if len(overquota) > 0",
     "if ctr.State == arvados.ContainerStateLocked",
     "if err != nil",
     "if n < 1"] := rfl

/-- Pool/queue calls of `runQueue` in source order: snapshots first (`Entries`, sort, `Running`,
`Unallocated`), then exactly the calls `C14.Call` enumerates. -/
theorem tie_runQueue_calls : runQueueCalls =
    ["sch.queue.Entries", "sort.Slice", "sch.pool.Running", "sch.pool.Unallocated",
     "sch.pool.AtQuota", "sch.pool.KillContainer", "sch.lockContainer",
     "sch.pool.AtQuota", "sch.queue.Unlock", "sch.pool.Create",
     "sch.pool.KillContainer", "sch.pool.StartContainer",
     "sch.queue.Unlock", "sch.pool.Shutdown"] := rfl

/-- `lockContainer`: latch, then `Get` and the still-Queued test, then `Lock`, then `Get`
(`C14.asyncEffect … .lock`). -/
theorem tie_lockContainer : lockContainerConds =
    ["if !sch.uuidLock(uuid, \"lock\")",
     "if !ok || ctr.State != arvados.ContainerStateQueued",
     "if err != nil", "if !ok", "if ctr.State != arvados.ContainerStateLocked"] ∧
    lockContainerCalls =
    ["sch.uuidLock", "sch.uuidUnlock", "sch.queue.Get", "sch.queue.Lock", "sch.queue.Get"] := ⟨rfl, rfl⟩

/-- `uuidLock` refuses iff an operation is registered (`C14.uuidLock`); `uuidUnlock` deletes the
entry (`C14.uuidUnlock`). -/
theorem tie_latch : uuidLockConds = ["if locked"] ∧
    uuidUnlockText = "{ sch.mtx.Lock() defer sch.mtx.Unlock() delete(sch.uuidOp, uuid) }" := ⟨rfl, rfl⟩

/-- Branch structure of `sync` in source order = `C14.syncEntry` (and `C14.syncTable`). -/
theorem tie_sync_conds : syncConds =
    ["switch ent.Container.State",
     "case arvados.ContainerStateRunning",
     "if !running",
     "if !anyUnknownWorkers",
     "if !exited.IsZero() && qUpdated.After(exited)",
     "if ent.Container.Priority == 0",
     "case arvados.ContainerStateComplete",
     "case arvados.ContainerStateCancelled",
     "if running",
     "case arvados.ContainerStateQueued",
     "if running",
     "if ent.Container.Priority == 0",
     "case arvados.ContainerStateLocked",
     "if running && !exited.IsZero() && qUpdated.After(exited)",
     "if running && exited.IsZero() && ent.Container.Priority == 0",
     "if !running && ent.Container.Priority == 0",
     "default",
     "if !known"] := rfl

/-- The actions of `sync` in source order = the right-hand sides of `C14.syncEntry`:
cancel, cancel, kill | kill, Forget | kill, Forget | requeue, kill, requeue | (log) | kill. -/
theorem tie_sync_calls : syncCalls =
    ["sch.pool.CountWorkers", "sch.pool.Running", "sch.queue.Entries",
     "sch.cancel", "sch.cancel", "sch.kill",
     "sch.kill", "sch.queue.Forget",
     "sch.kill", "sch.queue.Forget",
     "sch.requeue", "sch.kill", "sch.requeue",
     "sch.kill"] := rfl

/-- `cancel`, `kill`, `requeue`: latch first, then the calls of `C14.asyncEffect`. -/
theorem tie_async_ops :
    cancelCalls = ["sch.uuidLock", "sch.uuidUnlock", "sch.queue.Cancel"] ∧
    killCalls = ["sch.uuidLock", "sch.uuidUnlock", "sch.pool.KillContainer", "sch.pool.ForgetContainer"] ∧
    requeueCalls = ["sch.uuidLock", "sch.uuidUnlock", "sch.queue.Unlock"] :=
  ⟨rfl, rfl, rfl⟩

/-- The scheduler finishes `fixStaleLocks` before the first `runQueue`/`sync` (L3: phase
`recovering` precedes `scheduling`); `fixStaleLocks` loops while a worker is Unknown, collects
Locked containers that are not in `Running()`, returns when there are none, and unlocks the
collected ones when the loop ends (all workers known, or timeout — assumption A1). -/
theorem tie_fixStaleLocks :
    schedRunCalls = ["sch.fixStaleLocks", "sch.runQueue", "sch.sync"] ∧
    fixStaleLocksConds =
      ["for sch.pool.CountWorkers()[worker.StateUnknown] > 0",
       "if ent.Container.State != arvados.ContainerStateLocked",
       "if running", "if len(stale) == 0", "if err != nil"] ∧
    fixStaleLocksCalls =
      ["sch.pool.Subscribe", "sch.pool.Unsubscribe", "sch.pool.CountWorkers", "sch.pool.Running",
       "sch.queue.Entries", "sch.queue.Unlock"] := ⟨rfl, rfl, rfl⟩

/-! ### L2: pool bookkeeping -/

/-- `Pool.StartContainer`: candidates are exactly the workers of the right type that are Idle
with IdleBehavior run; the latest `busy` wins (`C14.Pool.startable`, `startCandidates`). -/
theorem tie_pool_StartContainer : startContainerPoolConds =
    ["if w.instType == it && w.state == StateIdle && w.idleBehavior == IdleBehaviorRun",
     "if wkr == nil || w.busy.After(wkr.busy)",
     "if wkr == nil"] := rfl

/-- `Pool.Running`: running and starting keys of every worker with zero time, then the `exited`
entries (`C14.Pool.runningView`, `runningKeys`). -/
theorem tie_pool_Running : runningPoolText =
    "{ wp.setupOnce.Do(wp.setup) wp.mtx.Lock() defer wp.mtx.Unlock() r := map[string]time.Time{} for _, wkr := range wp.workers { for uuid := range wkr.running { r[uuid] = time.Time{} } for uuid := range wkr.starting { r[uuid] = time.Time{} } } for uuid, exited := range wp.exited { r[uuid] = exited } return r }" := rfl

/-- `KillContainer` looks in `running`, then `starting` (`C14.Pool.killContainer`);
`ForgetContainer` deletes an existing `exited` entry (`C14.Pool.forget`). -/
theorem tie_pool_Kill_Forget :
    killContainerConds = ["if rr == nil", "if rr != nil"] ∧ forgetContainerConds = ["if ok"] := ⟨rfl, rfl⟩

/-- `worker.startContainer`: runner into `starting`, state Running (`C14.Worker.accept`); the
goroutine calls `rr.Start()`, then under the lock — unless its runner has left `starting`
(fix 18910db) — deletes from `starting` and sets `running` (`C14.Worker.startDone`). -/
theorem tie_worker_startContainer :
    startContainerWorkerConds = ["if wkr.state != StateRunning", "if wkr.wp.mTimeFromQueueToCrunchRun != nil",
                                 "if wkr.starting[ctr.UUID] != rr"] ∧
    startContainerWorkerCalls = ["newRemoteRunner", "rr.Start", "wkr.mtx.Lock", "wkr.mtx.Unlock", "delete"] :=
  ⟨rfl, rfl⟩

/-- `worker.closeRunner` (`C14.Worker.closeRunner`): nothing without a runner; delete from
`running`, stamp `updated`, record `wp.exited`, Running → Idle when nothing is left. -/
theorem tie_worker_closeRunner : closeRunnerText =
    "{ rr := wkr.running[uuid] if rr == nil { return } wkr.logger.WithField(\"ContainerUUID\", uuid).Info(\"crunch-run process ended\") delete(wkr.running, uuid) rr.Close() now := time.Now() wkr.updated = now wkr.wp.exited[uuid] = now if wkr.state == StateRunning && len(wkr.running)+len(wkr.starting) == 0 { wkr.state = StateIdle } }" := rfl

/-- `worker.updateRunning` (`C14.Worker.adoptAlive`, `closeDead`). -/
theorem tie_worker_updateRunning :
    updateRunningConds = ["if ok", "if ok", "if !alive[uuid]"] ∧
    updateRunningCalls = ["delete", "newRemoteRunner", "wkr.closeRunner"] := ⟨rfl, rfl⟩

/-- `worker.probeAndUpdate`: the tests of `C14.Worker.drainStep`, `probeFailed`, `applyFailed`,
the stale-probe guard `updated != wkr.updated`, and `applyFresh`, in source order. -/
theorem tie_worker_probeAndUpdate : probeAndUpdateConds =
    ["switch initialState", "case StateShutdown", "case StateIdle", "case StateRunning",
     "case StateUnknown", "case StateBooting", "default",
     "if !booted", "if !booted", "if booted",
     "if booted || wkr.state == StateUnknown",
     "if reportedBroken && wkr.idleBehavior == IdleBehaviorRun",
     "if !ok || (!booted && len(ctrUUIDs) == 0 && len(wkr.running) == 0)",
     "if wkr.state == StateShutdown && wkr.updated.After(updated)",
     "if wkr.shutdownIfBroken(dur)",
     "if !booted",
     "if updated != wkr.updated",
     "if len(ctrUUIDs) > 0",
     "if len(wkr.running) > 0",
     "if booted && (wkr.state == StateUnknown || wkr.state == StateBooting)",
     "if wkr.state == StateBooting",
     "if !changed",
     "if wkr.state == StateUnknown && changed",
     "if wkr.state == StateIdle && len(wkr.starting)+len(wkr.running) > 0",
     "if wkr.state == StateRunning && len(wkr.starting)+len(wkr.running) == 0",
     "if booted && (initialState == StateUnknown || initialState == StateBooting)"] := rfl

/-- … with three critical sections (begin, after the boot probe, apply) and the probes between. -/
theorem tie_worker_probeAndUpdate_calls : probeAndUpdateCalls =
    ["wkr.mtx.Lock", "wkr.mtx.Unlock", "wkr.probeBooted", "wkr.mtx.Lock", "wkr.mtx.Unlock",
     "wkr.probeRunning", "wkr.mtx.Lock", "wkr.mtx.Unlock",
     "wkr.setIdleBehavior", "wkr.shutdownIfBroken", "wkr.updateRunning"] := rfl

/-- `Pool.sync` (`C14.Pool.sync`): update/add listed instances, retry shutdown, drop workers not
updated after the threshold. -/
theorem tie_pool_sync :
    poolSyncConds =
      ["if !ok", "if isNew",
       "if wkr.state == StateShutdown && time.Since(wkr.destroyed) > wp.timeoutShutdown",
       "if wkr.updated.After(threshold)",
       "if wp.mDisappearances != nil",
       "if wp.mTimeFromShutdownToGone != nil && !wkr.destroyed.IsZero()",
       "if !wp.loaded", "if notify"] ∧
    poolSyncCalls = ["wp.updateWorker", "wkr.shutdown", "delete", "wkr.Close"] := ⟨rfl, rfl⟩

/-- `container.Queue.Update` keeps local lock/unlock/cancel results that arrive during a poll
(`dontupdate`), as the L3 cache model assumes (`updateWithResp` marks the uuid). -/
theorem tie_queue_dontupdate :
    queueUpdateConds = ["if err != nil", "if dontupdate", "if !ok", "if dontupdate", "if !stillpresent"] ∧
    updateWithRespConds = ["if cq.dontupdate != nil", "if !ok"] := ⟨rfl, rfl⟩

/-- `Queue.poll`: three list stages (mine, available, missing — each a `fetchAll`), deletion only
for a batch the API does not know; `fetchAll` pages until an empty page and — because its
`len(params.Order) == 1` test is never true for the string "uuid" — by offset (the `lq` driver's
executable mirror); `Forget` drops only finished or on-hold entries. -/
theorem tie_queue_poll :
    queuePollCalls = ["cq.fetchAll", "cq.fetchAll", "cq.fetchAll", "cq.delEnt"] ∧
    fetchAllConds = ["if err != nil", "if len(list.Items) == 0",
                     "if len(params.Order) == 1 && params.Order == \"uuid\""] ∧
    queueForgetConds = ["if ctr.State == arvados.ContainerStateComplete || ctr.State == arvados.ContainerStateCancelled || (ctr.State == arvados.ContainerStateQueued && ctr.Priority == 0)"] :=
  ⟨rfl, rfl, rfl⟩

/-! ### statement structure: `go`/`defer`, order of assignments (kinds `skeleton_in_func`, `assigns_in_func`) -/

/-- `Scheduler.run`: the first queue update, the polling goroutine, then `fixStaleLocks` called *synchronously* (no `go`/`defer` in front of it) before the loop of `runQueue`; `sync` (L3: phase `recovering` strictly precedes `scheduling`; seed C14-d moved the call into a goroutine). -/
theorem tie_sched_run_skeleton : schedRunSkeleton =
  ["defer",
   "call sch.queue.Update => err",
   "for {",
   "if d < time.Second {",
   "}",
   "call sch.queue.Update => err",
   "}",
   "defer",
   "go",
   "func {",
   "for {",
   "call sch.queue.Update => err",
   "if err != nil {",
   "}",
   "}",
   "}",
   "call sch.fixStaleLocks",
   "call sch.pool.Subscribe => poolNotify",
   "defer",
   "call sch.queue.Subscribe => queueNotify",
   "defer",
   "for {",
   "call sch.runQueue",
   "call sch.sync",
   "case {",
   "return",
   "}",
   "case {",
   "}",
   "case {",
   "}",
   "case {",
   "}",
   "}"] := rfl

/-- `runQueue`: only `lockContainer` is launched with `go`; `KillContainer`, `StartContainer`, `Unlock`, `Create`, `Shutdown` are synchronous calls in this order inside the branches (`C14.iter`). -/
theorem tie_runQueue_skeleton : runQueueSkeleton =
  ["call sch.queue.Entries => unsorted,_",
   "for {",
   "}",
   "func {",
   "return",
   "}",
   "call sch.pool.Running => running",
   "call sch.pool.Unallocated => unalloc",
   "for {",
   "if running || ctr.Priority < 1 {",
   "continue",
   "}",
   "case {",
   "call sch.pool.AtQuota",
   "if unalloc[it] < 1 && sch.pool.AtQuota() {",
   "break",
   "}",
   "call sch.pool.KillContainer",
   "if sch.pool.KillContainer(ctr.UUID, \"about to lock\") {",
   "continue",
   "}",
   "go",
   "call sch.lockContainer",
   "}",
   "case {",
   "if unalloc[it] > 0 {",
   "} else {",
   "call sch.pool.AtQuota",
   "if sch.pool.AtQuota() {",
   "call sch.queue.Unlock",
   "break",
   "} else {",
   "call sch.pool.Create",
   "if sch.pool.Create(it) {",
   "} else {",
   "continue",
   "}",
   "}",
   "}",
   "if dontstart[it] {",
   "} else {",
   "call sch.pool.KillContainer",
   "if sch.pool.KillContainer(ctr.UUID, \"about to start\") {",
   "} else {",
   "call sch.pool.StartContainer",
   "if sch.pool.StartContainer(it, ctr) {",
   "} else {",
   "}",
   "}",
   "}",
   "}",
   "}",
   "if len(overquota) > 0 {",
   "for {",
   "if ctr.State == arvados.ContainerStateLocked {",
   "call sch.queue.Unlock => err",
   "if err != nil {",
   "}",
   "}",
   "}",
   "for {",
   "if n < 1 {",
   "continue",
   "}",
   "call sch.pool.Shutdown",
   "}",
   "}"] := rfl

/-- `sync`: every `cancel`/`kill`/`requeue` is launched with `go` (hence the latch), `Forget` is synchronous (`C14.syncEntry`). -/
theorem tie_sync_skeleton : syncSkeleton =
  ["call sch.pool.CountWorkers",
   "call sch.pool.Running => running",
   "call sch.queue.Entries => qEntries,qUpdated",
   "for {",
   "case {",
   "if !running {",
   "if !anyUnknownWorkers {",
   "go",
   "call sch.cancel",
   "}",
   "} else {",
   "if !exited.IsZero() && qUpdated.After(exited) {",
   "go",
   "call sch.cancel",
   "} else {",
   "if ent.Container.Priority == 0 {",
   "go",
   "call sch.kill",
   "}",
   "}",
   "}",
   "}",
   "case {",
   "if running {",
   "go",
   "call sch.kill",
   "} else {",
   "call sch.queue.Forget",
   "}",
   "}",
   "case {",
   "if running {",
   "go",
   "call sch.kill",
   "} else {",
   "if ent.Container.Priority == 0 {",
   "call sch.queue.Forget",
   "}",
   "}",
   "}",
   "case {",
   "if running && !exited.IsZero() && qUpdated.After(exited) {",
   "go",
   "call sch.requeue",
   "} else {",
   "if running && exited.IsZero() && ent.Container.Priority == 0 {",
   "go",
   "call sch.kill",
   "} else {",
   "if !running && ent.Container.Priority == 0 {",
   "go",
   "call sch.requeue",
   "}",
   "}",
   "}",
   "}",
   "case {",
   "}",
   "}",
   "for {",
   "if !known {",
   "go",
   "call sch.kill",
   "}",
   "}"] := rfl

/-- `lockContainer`: `uuidLock` first, `uuidUnlock` deferred, `Get` → still-Queued test → `Lock` → `Get`. -/
theorem tie_lockContainer_skeleton : lockContainerSkeleton =
  ["call sch.uuidLock",
   "if !sch.uuidLock(uuid, \"lock\") {",
   "return",
   "}",
   "defer",
   "call sch.uuidUnlock",
   "call sch.queue.Get => ctr,ok",
   "if !ok || ctr.State != arvados.ContainerStateQueued {",
   "return",
   "}",
   "call sch.queue.Lock => err",
   "if err != nil {",
   "return",
   "}",
   "call sch.queue.Get => ctr,ok",
   "if !ok {",
   "} else {",
   "if ctr.State != arvados.ContainerStateLocked {",
   "}",
   "}"] := rfl

/-- `kill`: latch, deferred release, `KillContainer` then `ForgetContainer`. -/
theorem tie_kill_skeleton : killSkeleton =
  ["call sch.uuidLock",
   "if !sch.uuidLock(uuid, \"kill\") {",
   "return",
   "}",
   "defer",
   "call sch.uuidUnlock",
   "call sch.pool.KillContainer",
   "call sch.pool.ForgetContainer"] := rfl

/-- `fixStaleLocks`: loop while a worker is Unknown; collect Locked ∧ not running; return when none; after the loop unlock the collected ones (`C14.fixStaleLocks`). -/
theorem tie_fixStaleLocks_skeleton : fixStaleLocksSkeleton =
  ["defer",
   "call sch.pool.CountWorkers",
   "for {",
   "call sch.pool.Running => running",
   "call sch.queue.Entries => qEntries,_",
   "for {",
   "if ent.Container.State != arvados.ContainerStateLocked {",
   "continue",
   "}",
   "if running {",
   "continue",
   "}",
   "}",
   "if len(stale) == 0 {",
   "return",
   "}",
   "case {",
   "}",
   "case {",
   "break",
   "}",
   "}",
   "for {",
   "call sch.queue.Unlock => err",
   "if err != nil {",
   "}",
   "}"] := rfl

/-- `worker.startContainer`: the completion runs in a goroutine after `rr.Start()`, under the lock, and returns early when its runner has left `starting`. -/
theorem tie_worker_startContainer_skeleton : startContainerWorkerSkeleton =
  ["call newRemoteRunner => rr",
   "if wkr.state != StateRunning {",
   "go",
   "}",
   "go",
   "func {",
   "call rr.Start",
   "if wkr.wp.mTimeFromQueueToCrunchRun != nil {",
   "}",
   "call wkr.mtx.Lock",
   "defer",
   "call wkr.mtx.Unlock",
   "if wkr.starting[ctr.UUID] != rr {",
   "return",
   "}",
   "call delete",
   "}"] := rfl

/-- … `starting[uuid] = rr; state = Running` synchronously (`Worker.accept`), and only then, in the closure, `updated = busy = now; running[uuid] = rr` (`Worker.startDone`): the stale-probe guard depends on `updated` being stamped *there* (seed C14-b, mutation M7). -/
theorem tie_worker_startContainer_assigns : startContainerWorkerAssigns =
  ["wkr.starting[ctr.UUID] = rr",
   "wkr.state = StateRunning",
   "wkr.updated = now",
   "wkr.busy = now",
   "wkr.running[ctr.UUID] = rr",
   "wkr.lastUUID = ctr.UUID"] := rfl

/-- `closeRunner` stamps `updated`, records `exited`, may go Idle. -/
theorem tie_worker_closeRunner_assigns : closeRunnerAssigns =
  ["wkr.updated = now",
   "wkr.wp.exited[uuid] = now",
   "wkr.state = StateIdle"] := rfl

/-- `shutdown` stamps `updated` and sets Shutdown (`Worker.shutdown`). -/
theorem tie_worker_shutdown_assigns : shutdownAssigns =
  ["wkr.updated = now",
   "wkr.destroyed = now",
   "wkr.state = StateShutdown"] := rfl

/-- `probeAndUpdate` reads `updated` and the state at its beginning and stamps `updated` only at the very end of a result that was used (`Worker.applyFresh`). -/
theorem tie_worker_probeAndUpdate_assigns : probeAndUpdateAssigns =
  ["updated := wkr.updated",
   "initialState := wkr.state",
   "wkr.probed = updateTime",
   "wkr.busy = updateTime",
   "wkr.lastUUID = ctrUUIDs[0]",
   "wkr.busy = updateTime",
   "wkr.state = StateIdle",
   "wkr.state = StateRunning",
   "wkr.state = StateIdle",
   "wkr.updated = updateTime"] := rfl

/-- `probeAndUpdate`: three critical sections around the two remote probes; the last one is deferred-unlocked and contains drain, the failed-probe branch, the stale guard, `updateRunning` and the state fix-up, in this order. -/
theorem tie_worker_probeAndUpdate_skeleton : probeAndUpdateSkeleton =
  ["call wkr.mtx.Lock",
   "call wkr.mtx.Unlock",
   "case {",
   "return",
   "}",
   "case {",
   "}",
   "case {",
   "}",
   "case {",
   "}",
   "if !booted {",
   "call wkr.probeBooted => booted,stderr",
   "if !booted {",
   "call wkr.mtx.Lock",
   "call wkr.mtx.Unlock",
   "}",
   "if booted {",
   "}",
   "}",
   "if booted || wkr.state == StateUnknown {",
   "call wkr.probeRunning => ctrUUIDs,reportedBroken,ok",
   "}",
   "call wkr.mtx.Lock",
   "defer",
   "call wkr.mtx.Unlock",
   "if reportedBroken && wkr.idleBehavior == IdleBehaviorRun {",
   "call wkr.setIdleBehavior",
   "}",
   "if !ok || (!booted && len(ctrUUIDs) == 0 && len(wkr.running) == 0) {",
   "if wkr.state == StateShutdown && wkr.updated.After(updated) {",
   "return",
   "}",
   "call wkr.shutdownIfBroken",
   "if wkr.shutdownIfBroken(dur) {",
   "if !booted {",
   "}",
   "}",
   "return",
   "}",
   "if updated != wkr.updated {",
   "return",
   "}",
   "if len(ctrUUIDs) > 0 {",
   "} else {",
   "if len(wkr.running) > 0 {",
   "}",
   "}",
   "call wkr.updateRunning => changed",
   "if booted && (wkr.state == StateUnknown || wkr.state == StateBooting) {",
   "if wkr.state == StateBooting {",
   "}",
   "}",
   "if !changed {",
   "return",
   "}",
   "if wkr.state == StateUnknown && changed {",
   "}",
   "if wkr.state == StateIdle && len(wkr.starting)+len(wkr.running) > 0 {",
   "} else {",
   "if wkr.state == StateRunning && len(wkr.starting)+len(wkr.running) == 0 {",
   "}",
   "}",
   "if booted && (initialState == StateUnknown || initialState == StateBooting) {",
   "}",
   "go"] := rfl

/-- `updateWorker` stamps `updated` of a listed worker (so `Pool.sync` keeps it) or adds a new one. -/
theorem tie_pool_updateWorker_assigns : updateWorkerAssigns =
  ["wkr.updated = time.Now()",
   "wp.workers[id] = wkr"] := rfl

/-- `Queue.Update`: `dontupdate` reset under the lock, `poll()` without the lock, merge under the lock skipping `dontupdate` entries (`QStep.pollBegin/pollRead/pollEnd`). -/
theorem tie_queue_update_skeleton : queueUpdateSkeleton =
  ["call cq.mtx.Lock",
   "call cq.mtx.Unlock",
   "call cq.poll => next,err",
   "if err != nil {",
   "return",
   "}",
   "call cq.mtx.Lock",
   "defer",
   "call cq.mtx.Unlock",
   "for {",
   "if dontupdate {",
   "continue",
   "}",
   "if !ok {",
   "call cq.addEnt",
   "} else {",
   "}",
   "}",
   "for {",
   "if dontupdate {",
   "continue",
   "} else {",
   "if !stillpresent {",
   "call cq.delEnt",
   "}",
   "}",
   "}",
   "return"] := rfl

/-- `dontupdate` is created at the beginning of `Update` and cleared only after the merge (seed C14-c cleared it at the end of `poll`). -/
theorem tie_queue_update_assigns : queueUpdateAssigns =
  ["cq.dontupdate = map[string]struct{}{}",
   "cq.current[uuid] = cur",
   "cq.dontupdate = nil",
   "cq.updated = updateStarted"] := rfl

/-- `poll` itself never touches `dontupdate` or the cache entries (apart from `delEnt` of unknown uuids). -/
theorem tie_queue_poll_assigns : queuePollAssigns =
  ["cq.auth = auth"] := rfl

/-- `poll`: mine, available, then the missing ones in batches. -/
theorem tie_queue_poll_skeleton : queuePollSkeleton =
  ["call cq.mtx.Lock",
   "call cq.mtx.Unlock",
   "if auth == nil {",
   "if err != nil {",
   "return",
   "}",
   "call cq.mtx.Lock",
   "call cq.mtx.Unlock",
   "}",
   "func {",
   "for {",
   "if next[upd.UUID] == nil {",
   "}",
   "}",
   "}",
   "call cq.fetchAll => mine,err",
   "if err != nil {",
   "return",
   "}",
   "call cq.fetchAll => avail,err",
   "if err != nil {",
   "return",
   "}",
   "call cq.mtx.Lock",
   "for {",
   "if next[uuid] == nil && ent.Container.State != arvados.ContainerStateCancelled && ent.Container.State != arvados.ContainerStateComplete {",
   "}",
   "}",
   "call cq.mtx.Unlock",
   "for {",
   "for {",
   "if len(batch) == 20 {",
   "break",
   "}",
   "}",
   "call cq.fetchAll => ended,err",
   "if err != nil {",
   "return",
   "}",
   "if len(ended) == 0 {",
   "for {",
   "call cq.mtx.Lock",
   "call cq.delEnt",
   "call cq.mtx.Unlock",
   "}",
   "continue",
   "}",
   "for {",
   "if !ok {",
   "return",
   "}",
   "}",
   "}",
   "return"] := rfl

/-- `updateWithResp` marks `dontupdate` and overwrites the cached entry. -/
theorem tie_queue_updateWithResp_assigns : updateWithRespAssigns =
  ["cq.dontupdate[uuid] = struct{}{}",
   "cq.current[uuid] = ent"] := rfl

/-- `getInstancesAndSync`: throttle check, `Instances()`, and on *any* error `return` before `wp.sync` (`C14.Pool.getInstancesAndSync`, `C14_failed_listing_drops_nothing`; seed C14-e let a rate-limit error fall through to `sync(threshold, nil)`). -/
theorem tie_pool_getInstancesAndSync : getInstancesAndSyncSkeleton =
  ["call wp.instanceSet.throttleInstances.Error => err",
   "if err != nil {",
   "return",
   "}",
   "call wp.instanceSet.Instances => instances,err",
   "if err != nil {",
   "call wp.instanceSet.throttleInstances.CheckRateLimitError",
   "return",
   "}",
   "call wp.sync",
   "return"] := rfl

/-- `runSync` reaches `Pool.sync` only through `getInstancesAndSync`. -/
theorem tie_pool_runSync : runSyncSkeleton =
  ["for {",
   "case {",
   "call wp.getInstancesAndSync => err",
   "if err != nil {",
   "}",
   "}",
   "case {",
   "return",
   "}",
   "}"] := rfl

/-- `probeRunning`: one pass over all lines of the answer, classifying each (`C14.ProbeLine`, `parseProbe`); no `break`/`return` inside the loop (`C14_probe_reads_every_line`; seed C14-f stopped reading at "broken"). -/
theorem tie_worker_probeRunning : probeRunningSkeleton =
  ["if u != \"root\" {",
   "}",
   "call wkr.executor.Execute => stdout,stderr,err",
   "if err != nil {",
   "return",
   "}",
   "call strings.Split",
   "for {",
   "if s == \"\" {",
   "} else {",
   "if s == \"broken\" {",
   "} else {",
   "call strings.Split => toks",
   "if len(toks) == 1 {",
   "} else {",
   "if toks[1] == \"stale\" {",
   "}",
   "}",
   "}",
   "}",
   "}",
   "defer",
   "if !staleRunLock {",
   "} else {",
   "if wkr.staleRunLockSince.IsZero() {",
   "} else {",
   "if dur > wkr.wp.timeoutStaleRunLock {",
   "}",
   "}",
   "}",
   "return"] := rfl

end ArvVerif.Tie.C14
