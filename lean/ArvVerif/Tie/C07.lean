/-
Tie for C07: source facts regenerated from /repo on every run (Gen/FactsC07.lean) equal what the
model was written against. An edit to a regexp, a format string, the order of checks in
VerifySignature / handleGET, keepstore's error mapping or handlePUT's signing breaks one of these.
-/
import ArvVerif.Gen.FactsC07
import ArvVerif.Model.C07
namespace ArvVerif.Tie.C07
open ArvVerif.Facts.C07

/-- the literal `Model.C07.matchSigned` was written for (groups 1, 6, 7 = hash, signature, expiry) -/
theorem tie_signedLocatorRe : signedLocatorRe =
    "^([[:xdigit:]]{32})(\\+[0-9]+)?((\\+[B-Z][A-Za-z0-9@_-]*)*)(\\+A([[:xdigit:]]{40})@([[:xdigit:]]{8}))((\\+[B-Z][A-Za-z0-9@_-]*)*)$" := rfl

/-- `Model.C07.isBlockToken` -/
theorem tie_mBlkRe : mBlkRe = "^[0-9a-f]{32}.*" := rfl

/-- `Model.C07.stripPerm` -/
theorem tie_mPermHintRe : mPermHintRe = "\\+A[^+]*" := rfl

/-- `Model.C07.sigMessage` / `makePermSignature` / `hexOfDigest`: hash@token@expiry@ttl, `%x` -/
theorem tie_makePermSignature : makePermSignatureText =
    "{ hmac := hmac.New(sha1.New, permissionSecret) hmac.Write([]byte(blobHash)) hmac.Write([]byte(\"@\")) hmac.Write([]byte(apiToken)) hmac.Write([]byte(\"@\")) hmac.Write([]byte(expiry)) hmac.Write([]byte(\"@\")) hmac.Write([]byte(blobSignatureTTL)) digest := hmac.Sum(nil) return fmt.Sprintf(\"%x\", digest) }" := rfl

/-- `Model.C07.mapFields` (tokenizer `\S+`) and the replacement "" of `stripPerm` -/
theorem tie_signManifestStrings : signManifestStrings = ["\\S+", ""] := rfl

/-- `Model.C07.signToken`: tokens matching mBlkRe are stripped of permission hints and signed,
all others are returned as they are -/
theorem tie_signManifestSkeleton : signManifestSkeleton =
    ["call regexp.MustCompile(`\\S+`).ReplaceAllStringFunc", "call regexp.MustCompile", "func {",
     "call mBlkRe.MatchString", "if mBlkRe.MatchString(tok) {", "call SignLocator",
     "call mPermHintRe.ReplaceAllString", "return", "}", "return", "}", "return"] := rfl

/-- `Model.C07.signLocator`: split on "+", `%08x`, "+A", "@"; TTL in base 16 -/
theorem tie_signLocatorStrings : signLocatorStrings = ["", "+", "%08x", "+A", "@"] := rfl
theorem tie_signLocatorInts : signLocatorInts = [0, 0, 16] := rfl
theorem tie_signLocatorConds : signLocatorConds =
    ["if len(permissionSecret) == 0 || apiToken == \"\""] := rfl
theorem tie_signLocatorReturns : signLocatorReturns =
    ["blobLocator",
     "blobLocator + \"+A\" + makePermSignature(blobHash, apiToken, timestampHex, blobSignatureTTLHex, permissionSecret) + \"@\" + timestampHex"] := rfl

/-- `Model.C07.verifySignature`: match → missing; parse → invalid; expiry before now → expired;
signature comparison → invalid; nil — in this order -/
theorem tie_verifySkeleton : verifySkeleton =
    ["call SignedLocatorRe.FindStringSubmatch => matches", "if matches == nil {", "return", "}",
     "call parseHexTimestamp => expiryTime,err", "if err != nil {", "return", "} else {",
     "call expiryTime.Before", "call time.Now", "if expiryTime.Before(time.Now()) {", "return", "}", "}",
     "call strconv.FormatInt => blobSignatureTTLHex", "call makePermSignature",
     "if signatureHex != makePermSignature(blobHash, apiToken, expiryHex, blobSignatureTTLHex, permissionSecret) {",
     "return", "}", "return"] := rfl

/-- groups 1, 6, 7 and base 16 -/
theorem tie_verifyAssigns : verifyAssigns =
    ["matches := SignedLocatorRe.FindStringSubmatch(signedLocator)", "blobHash := matches[1]",
     "signatureHex := matches[6]", "expiryHex := matches[7]",
     "expiryTime, err := parseHexTimestamp(expiryHex)",
     "blobSignatureTTLHex := strconv.FormatInt(int64(blobSignatureTTL.Seconds()), 16)"] := rfl
theorem tie_verifyInts : verifyInts = [1, 6, 7, 16] := rfl

/-- `Model.C07.parseHexTimestamp` -/
theorem tie_parseHexTimestamp : parseHexTimestampText =
    "{ if tsInt, e := strconv.ParseInt(timestampHex, 16, 0); e == nil { ts = time.Unix(tsInt, 0) } else { err = e } return ts, err }" := rfl

/-- `Model.C07.ksVerify` (expired → ExpiredError, any other error → PermissionError) -/
theorem tie_ksVerify : ksVerifyText =
    "{ err := keepclient.VerifySignature(signedLocator, apiToken, cluster.Collections.BlobSigningTTL.Duration(), []byte(cluster.Collections.BlobSigningKey)) if err == keepclient.ErrSignatureExpired { return ExpiredError } else if err != nil { return PermissionError } return nil }" := rfl

theorem tie_ksSign : ksSignText =
    "{ return keepclient.SignLocator(blobLocator, apiToken, expiry, cluster.Collections.BlobSigningTTL.Duration(), []byte(cluster.Collections.BlobSigningKey)) }" := rfl

/-- `Model.C07.handleGET`: remote-hint bypass, then the signature gate, then the volume read -/
theorem tie_handleGETSkeleton : handleGETSkeleton =
    ["defer", "call strings.Contains", "call strings.Contains",
     "if strings.Contains(locator, \"+R\") && !strings.Contains(locator, \"+A\") {",
     "call rtr.remoteProxy.Get", "return", "}",
     "if rtr.cluster.Collections.BlobSigning {", "call VerifySignature => err", "call GetAPIToken",
     "if err != nil {", "call http.Error", "return", "}", "}",
     "if err != nil {", "call http.Error", "return", "}", "defer",
     "call GetBlock => size,err", "if err != nil {", "if ok {", "}", "call http.Error", "return", "}"] := rfl

theorem tie_handleGETStrings : handleGETStrings.take 3 = ["+R", "+A", "hash"] := rfl

/-- `Model.C07.putReply` -/
theorem tie_handlePUTSign : handlePUTSignAssigns =
    ["returnHash := fmt.Sprintf(\"%s+%d\", hash, req.ContentLength)", "apiToken := GetAPIToken(req)",
     "expiry := time.Now().Add(rtr.cluster.Collections.BlobSigningTTL.Duration())",
     "returnHash = SignLocator(rtr.cluster, returnHash, apiToken, expiry)"] := rfl
theorem tie_handlePUTCond : handlePUTConds.getLast? =
    some "if rtr.cluster.Collections.BlobSigningKey != \"\" && apiToken != \"\"" := rfl

/-- `Model.C07.routeHash`: the two GET routes are the first two registered -/
theorem tie_routes : routerStrings.take 6 =
    ["/{hash:[0-9a-f]{32}}", "GET", "HEAD", "/{hash:[0-9a-f]{32}}+{hints}", "GET", "HEAD"] := rfl

/-- sdk/go/keepclient/perms.go is nothing but re-exports of the arvados functions, regexp and
error values (the kc driver also checks identity at run time) -/
theorem tie_keepclientPerms : keepclientPerms =
    ["ErrSignatureExpired = arvados.ErrSignatureExpired", "ErrSignatureInvalid = arvados.ErrSignatureInvalid",
     "ErrSignatureMissing = arvados.ErrSignatureMissing", "SignLocator         = arvados.SignLocator",
     "SignedLocatorRe     = arvados.SignedLocatorRe", "VerifySignature     = arvados.VerifySignature"] := rfl

/-- `Model.C07.getAPIToken` -/
theorem tie_authRe : authRe = "^(OAuth2|Bearer)\\s+(.*)" := rfl
theorem tie_getAPIToken : getAPITokenText =
    "{ if auth, ok := req.Header[\"Authorization\"]; ok { if match := authRe.FindStringSubmatch(auth[0]); match != nil { return match[2] } } return \"\" }" := rfl

/-- `Model.C07.serveGET`: a plain `mux.NewRouter()` (path cleaning on, decoded path matched, no
strict-slash, no middleware), unmatched requests answered by BadRequestHandler = 400 -/
theorem tie_routerSetup : routerCalls = ["mux.NewRouter"] ∧
    routerAssigns = ["rtr.NotFoundHandler = http.HandlerFunc(BadRequestHandler)"] ∧
    badRequestText = "{ http.Error(w, BadRequestError.Error(), BadRequestError.HTTPCode) }" := ⟨rfl, rfl, rfl⟩

/-- the status codes the model and `ksVerify` use -/
theorem tie_keepErrors : keepErrors =
    ["BadRequestError     = &KeepError{400, \"Bad Request\"}", "PermissionError     = &KeepError{403, \"Forbidden\"}",
     "ExpiredError        = &KeepError{401, \"Expired permission signature\"}",
     "NotFoundError       = &KeepError{404, \"Not Found\"}"] := rfl

/-- keepstore refuses to start with BlobSigning on and an empty key (so `ksVerify` never runs
with key = "" in a started keepstore) -/
theorem tie_setupKeyGuard : (setupConds.drop 2).take 2 =
    ["if h.Cluster.Collections.BlobSigningKey != \"\"", "if h.Cluster.Collections.BlobSigning"] := rfl

/-- the only caller of SignManifest outside tests: guarded by BlobSigning only, the key is passed
as configured (possibly empty: then `C07_sign_token_block` says signatures are dropped, none added) -/
theorem tie_recoverSign : recoverSign =
    ["if rcvr.cluster.Collections.BlobSigning {", "key := []byte(rcvr.cluster.Collections.BlobSigningKey)",
     "coll.ManifestText = arvados.SignManifest(coll.ManifestText, rcvr.client.AuthToken, blobsigexp, blobsigttl, key)"] := rfl

/-- blob.rb lines the transcription `Model.C07.Ref` was made from -/
theorem tie_rbGenerateSignature : rbGenerateSignature =
    ["OpenSSL::HMAC.hexdigest('sha1', key,", "[blob_hash,", "api_token,", "timestamp,",
     "blob_signature_ttl].join('@'))"] := rfl
theorem tie_rbSignLocator : rbSignLocator =
    ["blob_hash = blob_locator.split('+').first", "timestamp_hex = timestamp.to_s(16)",
     "blob_signature_ttl = Rails.configuration.Collections.BlobSigningTTL.to_i.to_s(16)",
     "blob_locator + '+A' + signature + '@' + timestamp_hex",
     "blob_signature_ttl = Rails.configuration.Collections.BlobSigningTTL.to_i.to_s(16)"] := rfl
theorem tie_rbVerify : rbVerify =
    ["unless timestamp =~ /^[\\da-f]+$/", "if timestamp.to_i(16) < (opts[:now] or db_current_time.to_i)",
     "if my_signature != given_signature"] := rfl

/-- `Model.C07.remoteProxyGet`: the proxy's own control flow contains no GetBlock / PutBlock /
volume-manager call (the filter asked for them; none is present): token check, optional local
caching writer, the loop over the parts, remoteClient.Get, status mapping -/
theorem tie_remoteGetSkeleton : remoteGetSkeleton =
    ["call GetAPIToken => token", "if token == \"\" {", "call http.Error", "return", "}",
     "call strings.SplitN", "if strings.SplitN(r.Header.Get(\"X-Keep-Signature\"), \",\", 2)[0] == \"local\" {",
     "call getBufferWithContext => buf,err", "if err != nil {", "call http.Error", "return", "}", "defer", "defer", "}",
     "call strings.Split", "for {", "case {", "}", "call strings.HasPrefix", "case {", "continue", "}", "case {",
     "if !ok {", "call http.Error", "return", "}", "call rp.remoteClient => kc,err",
     "if err == auth.ErrObsoleteToken {", "call http.Error", "return", "} else {", "if err != nil {", "call http.Error",
     "return", "}", "}", "}", "}", "if remoteClient == nil {", "call http.Error", "return", "}",
     "call strings.Join => locator", "call remoteClient.Get => rdr,_,_,err", "case {", "defer", "call io.Copy", "}",
     "case {", "call http.Error", "}", "case {", "call http.Error", "}"] := rfl

/-- `Model.C07.remoteParts`: the three cases of the loop and the exits -/
theorem tie_remoteGetConds : remoteGetConds =
    ["if token == \"\"", "if strings.SplitN(r.Header.Get(\"X-Keep-Signature\"), \",\", 2)[0] == \"local\"",
     "if err != nil", "case i == 0", "case strings.HasPrefix(part, \"A\")",
     "case len(part) > 7 && part[0] == 'R' && part[6] == '-'", "if !ok", "if err == auth.ErrObsoleteToken",
     "if err != nil", "if remoteClient == nil", "case nil", "case *keepclient.ErrNotFound", "default"] := rfl

/-- `Model.C07.saltToken` / `isObsoleteToken` -/
theorem tie_saltToken : saltTokenText =
    "{ parts := strings.Split(token, \"/\") if len(parts) < 3 || parts[0] != \"v2\" { if reObsoleteToken.MatchString(token) { return \"\", ErrObsoleteToken } return \"\", ErrTokenFormat } uuid := parts[1] secret := parts[2] if len(secret) != 40 { hmac := hmac.New(sha1.New, []byte(secret)) io.WriteString(hmac, remote) secret = fmt.Sprintf(\"%x\", hmac.Sum(nil)) return \"v2/\" + uuid + \"/\" + secret, nil } else if strings.HasPrefix(uuid, remote) { return token, nil } else { return \"\", ErrSalted } }" := rfl
theorem tie_reObsoleteToken : reObsoleteToken = "^[0-9a-z]{41,}$" := rfl

/-- `Model.C07.RemoteReply` / `remoteRequests`: which answers of a remote Keep service keepclient's
`getOrHead` tries again (`Temporary()`), which count as "not found", which end the Get with another
error (the size-hint check) -/
theorem tie_kcGetConds : kcGetConds =
    ["if strings.HasPrefix(locator, \"d41d8cd98f00b204e9800998ecf8427e+0\")", "if len(parts) < 2", "if err != nil",
     "for triesRemaining > 0", "if err != nil", "if req.Header.Get(\"Authorization\") == \"\"",
     "if req.Header.Get(\"X-Request-Id\") == \"\"", "if err != nil", "if resp.StatusCode != http.StatusOK",
     "if resp.StatusCode == 408 || resp.StatusCode == 429 || resp.StatusCode >= 500", "if resp.StatusCode == 404",
     "if expectLength < 0", "if resp.ContentLength < 0",
     "if resp.ContentLength >= 0 && expectLength != resp.ContentLength", "if method == \"GET\"",
     "if count404 == numServers"] := rfl

/-- `Model.C07_Ruby` `Ref.verifySignature`: the nested splits, the nil test and the arguments of
`generate_signature` in blob.rb `verify_signature!` (first line: the same call in `sign_locator`) -/
theorem tie_rbVerifyParse : rbVerifyParse =
    ["generate_signature((opts[:key] or Rails.configuration.Collections.BlobSigningKey),",
     "blob_hash = signed_blob_locator.split('+').first",
     "given_signature, timestamp = signed_blob_locator.",
     "split('+A').last.", "split('+').first.", "split('@')", "if !timestamp", "my_signature =",
     "generate_signature((opts[:key] or Rails.configuration.Collections.BlobSigningKey),",
     "blob_hash, opts[:api_token], timestamp, blob_signature_ttl)"] := rfl

end ArvVerif.Tie.C07
