/-
Tie for C10: source facts regenerated from /repo on every run (Gen/FactsC10.lean) equal the
literals the codec models (Model/C10_Go.lean, C10_Fs.lean, C10_Py.lean) were written against. An
edit to one of the regular expressions, to the binary searches, to the clipping conditions of the
three range mappers, to the escape predicates or to PortableDataHash breaks one of these `rfl`s.
-/
import ArvVerif.Gen.FactsC10
import ArvVerif.Model.C10_Py
import ArvVerif.Model.C10_Digest
import ArvVerif.Model.C10_PyReplace
namespace ArvVerif.Tie.C10
open ArvVerif.Facts.C10

/-- `UnescapeName`: Model `pkgUnescape = goUnescape isDigit` (digit class `[0-9]`, alternatives in this order). -/
theorem tie_escapeSeq : escapeSeq = "\\\\([0-9]{3}|\\\\)" := rfl

/-- `blockdigest.LocatorPattern`: Model `isGoLocator` / `locatorSizeDigits isAnyHex`. -/
theorem tie_locatorPattern : locatorPattern = "^[0-9a-fA-F]{32}\\+[0-9]+(\\+[A-Z][A-Za-z0-9@_-]*)*$" := rfl

/-- `manifestUnescape`: Model `fsUnescape = goUnescape isOctDigit`. -/
theorem tie_manifestEscapeSeq : manifestEscapeSeq = "\\\\([0-7]{3}|\\\\)" := rfl

/-- `manifestEscape`: Model `fsEscapePred` (`c ≤ 32`, `:`, `\\`; `\s` ⊂ `\000-\040`). -/
theorem tie_manifestEscapedChar : manifestEscapedChar = "[\\000-\\040:\\s\\\\]" := rfl

/-- `PortableDataHash`: Model `blkPrefixLen`. -/
theorem tie_blkRe : blkRe = "^ [0-9a-f]{32}\\+\\d+" := rfl

/-- `PortableDataHash`: Model `pdhScan` (optional space + maximal run of non-space bytes). -/
theorem tie_tokRe : tokRe = " ?[^ ]*" := rfl

/-- `firstBlock` after fix 584d30b: Model `fbLoop goRightNew` / `firstBlock` (move right iff `rangeStart >= blockEnd`). -/
theorem tie_firstBlockText : firstBlockText = "{ hi := len(offsets) - 1 var lo int i := ((hi + lo) / 2) blockStart := offsets[i] blockEnd := offsets[i+1] for !(rangeStart >= blockStart && rangeStart < blockEnd) { if lo == i { return -1 } if rangeStart >= blockEnd { lo = i } else { hi = i } i = ((hi + lo) / 2) blockStart = offsets[i] blockEnd = offsets[i+1] } return i }" := rfl

/-- `EscapeName` after fix d559316: Model `pkgEscapePred`. -/
theorem tie_escapeNameConds : escapeNameConds = 
    ["if c <= 32 || c == '\\\\'"] := rfl

/-- `EscapeName` output format: Model `octDigits`. -/
theorem tie_escapeNameStrings : escapeNameStrings = 
    ["\\%03o"] := rfl

/-- `unescapeSeq`: `\\\\` → `\\`, else `ParseUint(seq[1:], 8, 8)` or unchanged: Model `goUnescapeAux`. -/
theorem tie_unescapeSeqText : unescapeSeqText = "{ if seq == `\\\\` { return `\\` } i, err := strconv.ParseUint(seq[1:], 8, 8) if err != nil { return seq } return string([]byte{byte(i)}) }" := rfl

/-- `sendFileSegmentIterByName`: Model `sendByName` / `sendTok` / `sendLoop`, tests in this order. -/
theorem tie_sendConds : sendConds = 
    ["if s.StreamName+\"/\"+name != target",
     "if wantLen == 0",
     "if i == -1",
     "for i < len(s.Blocks)",
     "if blockEnd <= wantPos",
     "if blockPos >= wantPos+wantLen",
     "if blockPos < wantPos",
     "if blockEnd > wantPos+wantLen"] := rfl

/-- the zero-length marker locator and the two panics (`Res.panic`). -/
theorem tie_sendStrings : sendStrings = 
    ["/",
     "d41d8cd98f00b204e9800998ecf8427e+0",
     "File segment %v extends past end of stream",
     "Block end %v comes before start of file segment %v"] := rfl

/-- `parseManifestStream` after fixes 4f92334, b1a09e4, 2fef6b9, c203269: Model `pkgParseStream` / `pkgFileToks` (non-wrapping range test, canonical-path test for every token but the zero-length `.` marker, stream-length overflow test). -/
theorem tie_parseStreamConds : parseStreamConds = 
    ["if m.StreamName != \".\" && !strings.HasPrefix(m.StreamName, \"./\")",
     "for i < len(tokens)",
     "if !blockdigest.IsBlockLocator(tokens[i])",
     "if len(m.Blocks) == 0",
     "if err != nil",
     "if streamoffset+uint64(bl.Size) < streamoffset",
     "if len(fileTokens) == 0",
     "if err != nil",
     "if pft.SegPos > streamoffset || pft.SegLen > streamoffset-pft.SegPos",
   "if !(pft.SegLen == 0 && pft.Name == \".\") && fixStreamName(m.StreamName+\"/\"+pft.Name) != m.StreamName+\"/\"+pft.Name"] := rfl

/-- `parseFileStreamSegment`: Model `pkgFileTok`. -/
theorem tie_parseFileTokConds : parseFileTokConds = 
    ["if len(parts) != 3",
     "if err != nil",
     "if err != nil"] := rfl

/-- `parseFileStreamSegment` uses SplitN / ParseUint×2 / UnescapeName. -/
theorem tie_parseFileTokCalls : parseFileTokCalls = 
    ["strings.SplitN",
     "strconv.ParseUint",
     "strconv.ParseUint",
     "UnescapeName"] := rfl

/-- `segment()`: Model `segmentStreams` / `segmentStream` / `keepPositive`. -/
theorem tie_segmentConds : segmentConds = 
    ["if stream.Err != nil",
     "if strings.HasSuffix(sn, \"/\")",
     "if files[streamname] == nil",
     "if !currentStreamfiles[path]",
     "if seg.Len > 0"] := rfl

/-- `normalizedText`: Model `normBlocks` / `normSpans` / `normalizedText`. -/
theorem tie_normalizedTextConds : normalizedTextConds = 
    ["if !ok",
     "if len(streamTokens) == 1",
     "if spanStart == -1",
     "if streamoffset == spanEnd",
     "if spanStart != -1",
     "if len(stream[streamfile]) == 0"] := rfl

/-- `normalizedText` literals: empty-block locator, token formats. -/
theorem tie_normalizedTextStrings : normalizedTextStrings = 
    ["d41d8cd98f00b204e9800998ecf8427e+0",
     "%d:%d:%s",
     "%d:%d:%s",
     "0:0:%s",
     " ",
     "\n"] := rfl

/-- `manifestTextForPath`: Model `manifestTextForPath`. -/
theorem tie_textForPathConds : textForPathConds = 
    ["if strings.HasSuffix(relocate, \"/\")",
     "if ok",
     "if okfile",
     "if relocateFilename == \"\"",
     "if strings.HasSuffix(relocate, \"/\")",
     "if strings.HasPrefix(k, prefix) || k == srcpath"] := rfl

/-- `fixStreamName`: Model `fixStreamName` over `pathClean`. -/
theorem tie_fixStreamNameText : fixStreamNameText = "{ sn = path.Clean(sn) if strings.HasPrefix(sn, \"/\") { sn = \".\" + sn } else if sn != \".\" { sn = \"./\" + sn } return sn }" := rfl

/-- `loadManifest` after fixes c99b8a5 (`if blkLen > 0`) and 499e88b (`offset+length < offset`): Model `fsLoad` / `fsToken` / `fsLoop`. -/
theorem tie_loadManifestConds : loadManifestConds = 
    ["if streams[len(streams)-1] != \"\"",
     "if i == 0",
     "if !strings.Contains(token, \":\")",
     "if anyFileTokens",
     "if len(toks) < 2",
     "if err != nil || length < 0",
     "if len(segments) == 0",
     "if len(toks) != 3",
     "if err != nil || offset < 0",
     "if err != nil || length < 0 || offset+length < offset",
     "if fnode == nil && err == nil && length == 0",
     "if err != nil || (fnode == nil && length != 0)",
     "if pos > offset",
     "for segIdx < len(segments)",
     "if next <= offset || seg.Len() == 0",
     "if pos >= offset+length",
     "if pos < offset",
     "if pos+int64(blkOff+blkLen) > offset+length",
     "if blkLen > 0",
     "if next > offset+length",
     "if segIdx == len(segments) && pos < offset+length",
     "if !anyFileTokens",
     "if len(segments) == 0",
     "if dirname == \"\""] := rfl

/-- `loadManifest` parsing calls: Model `fsLocator`, `fsToken`. -/
theorem tie_loadManifestCalls : loadManifestCalls = 
    ["strings.Split",
     "strings.Split",
     "manifestUnescape",
     "strings.Contains",
     "strings.SplitN",
     "strconv.ParseInt",
     "strings.SplitN",
     "strconv.ParseInt",
     "strconv.ParseInt",
     "manifestUnescape",
     "dn.createFileAndParents",
     "fnode.appendSegment"] := rfl

/-- `loadManifest` integer literals (ParseInt base/bit sizes 10/32, 10/64, SplitN limits 3). -/
theorem tie_loadManifestInts : loadManifestInts = 
    [1, 1, 1, 0, 0, 3, 2, 1, 10, 32, 0, 0, 0, 3, 3, 0, 10, 64, 0, 1, 10, 64, 0, 2, 0, 0, 0, 0, 0, 0, 0] := rfl

/-- `createFileAndParents`: Model `walkParents` / `createFileAndParents`. -/
theorem tie_createFileConds : createFileConds = 
    ["switch name",
     "case \"\"",
     "case \".\"",
     "case \"..\"",
     "if node == dn",
     "if child == nil",
     "if err != nil",
     "if !child.IsDir()",
     "if err != nil",
     "if basename == \".\"",
     "if !permittedName(basename)",
     "case nil",
     "if err != nil",
     "case *filenode",
     "case *dirnode",
     "default"] := rfl

/-- `permittedName`: Model `createFileAndParents` basename test. -/
theorem tie_permittedNameText : permittedNameText = "{ return name != \"\" && name != \".\" && name != \"..\" && !strings.Contains(name, \"/\") }" := rfl

/-- `manifestEscapeFunc`: Model `octDigits`. -/
theorem tie_manifestEscapeFuncText : manifestEscapeFuncText = "{ return fmt.Sprintf(\"\\\\%03o\", byte(seq[0])) }" := rfl

/-- `manifestUnescapeFunc`: Model `goUnescapeAux`. -/
theorem tie_manifestUnescapeFuncText : manifestUnescapeFuncText = "{ if seq == `\\\\` { return `\\` } i, err := strconv.ParseUint(seq[1:], 8, 8) if err != nil { return seq } return string([]byte{byte(i)}) }" := rfl

/-- `PortableDataHash`: Model `portableDataHash` / `pdhScan`. -/
theorem tie_pdhText : pdhText = "{ h := md5.New() size := 0 _ = tokRe.ReplaceAllFunc([]byte(mt), func(tok []byte) []byte { if m := blkRe.Find(tok); m != nil { tok = m } n, err := h.Write(tok) if err != nil { panic(err) } size += n return nil }) return fmt.Sprintf(\"%x+%d\", h.Sum(nil), size) }" := rfl

/-- `SizedDigests`: Model `sizedDigests` / `sizedDigestsLine`. -/
theorem tie_sizedDigestsConds : sizedDigestsConds = 
    ["if manifestText == \"\"",
     "if manifestText == \"\" && c.PortableDataHash != \"d41d8cd98f00b204e9800998ecf8427e+0\"",
     "for scanner.Scan()",
     "if len(tokens) < 3",
     "if !blockdigest.LocatorPattern.MatchString(token)",
     "if i >= 0"] := rfl

/-- `SizedDigests` literals (`< 3` tokens, `token[33:]`). -/
theorem tie_sizedDigestsInts : sizedDigestsInts = 
    [1048576, 3, 1, 33, 0, 33] := rfl

/-- Python `first_block` after fix 9f993b5: Model `pyFbLoop goRightNew` (`hi = len`, move right iff `range_start >= block_end`). -/
theorem tie_pyFirstBlockLines : pyFirstBlockLines = 
    ["hi = len(data_locators)",
     "lo = 0",
     "i = (hi + lo) // 2",
     "block_end = block_start + block_size",
     "while not (range_start >= block_start and range_start < block_end):",
     "if lo == i:",
     "return None",
     "if range_start >= block_end:",
     "lo = i",
     "hi = i",
     "i = (hi + lo) // 2",
     "block_end = block_start + block_size",
     "return i",
     "i = first_block(data_locators, range_start)",
     "block_end = block_start + block_size",
     "i = first_block(data_locators, new_range_start)"] := rfl

/-- Python `locators_and_ranges`: Model `pyLocatorsAndRanges` / `pyLrLoop` (four cases in this order). -/
theorem tie_pyLrConds : pyLrConds = 
    ["if range_start >= block_end:",
     "if range_size == 0:",
     "i = first_block(data_locators, range_start)",
     "if i is None:",
     "while i < len(data_locators) and len(resp) != limit:",
     "if range_end <= block_start:",
     "if range_start >= block_start and range_end <= block_end:",
     "resp.append(LocatorAndRange(dl.locator, block_size, dl.segment_offset + (range_start - block_start), range_size))",
     "elif range_start >= block_start and range_end > block_end:",
     "resp.append(LocatorAndRange(dl.locator, block_size, dl.segment_offset + (range_start - block_start), block_end - range_start))",
     "elif range_start < block_start and range_end > block_end:",
     "resp.append(LocatorAndRange(dl.locator, block_size, dl.segment_offset, block_size))",
     "elif range_start < block_start and range_end <= block_end:",
     "resp.append(LocatorAndRange(dl.locator, block_size, dl.segment_offset, range_end - block_start))",
     "i = first_block(data_locators, new_range_start)",
     "if i is None:"] := rfl

/-- Python `escape`: Model `pyEscape`. -/
theorem tie_pyEscapeLines : pyEscapeLines = 
    ["path = re.sub('\\\\\\\\', lambda m: '\\\\134', path)",
     "path = re.sub('[:\\000-\\040]', lambda m: \"\\\\%03o\" % ord(m.group(0)), path)"] := rfl

/-- Python `normalize_stream`: Model `pyNormBlocks` / `pyNormSpans`. -/
theorem tie_pyNormalizeLines : pyNormalizeLines = 
    ["if segment.locator not in blocks:",
     "streamoffset += segment.block_size",
     "if len(stream_tokens) == 1:",
     "streamoffset = blocks[segment.locator] + segment.segment_offset",
     "if streamoffset == current_span[1]:",
     "if not stream[streamfile]:"] := rfl

/-- `loadManifest`: the stream cursor (`pos`, `segIdx`) and `anyFileTokens` are declared, and `segments`
is reset, *inside* the per-stream loop (gofmt indentation of exactly two tabs is part of the
pattern): Model `fsLine` starts every line from `⟨dirname, [], false, 0, 0⟩`. -/
theorem tie_loadManifestCursorDecls : loadManifestCursorDecls =
    ["var anyFileTokens bool", "var pos int64", "var segIdx int", "segments = segments[:0]"] := rfl

/-- `sendFileSegmentIterByName`: the segment arithmetic (Model `sendLoop`: `len0`, `off`, `len1`, `len2`) and the zero-length marker. -/
theorem tie_sendArith : sendArith =
    ["ch <- &FileSegment{Locator: \"d41d8cd98f00b204e9800998ecf8427e+0\", Offset: 0, Len: 0}",
     "Locator: s.Blocks[i],",
     "Offset:  0,",
     "Len:     int(blockEnd - blockPos),",
     "fseg.Offset = int(wantPos - blockPos)",
     "fseg.Len -= fseg.Offset",
     "fseg.Len = int(wantPos+wantLen-blockPos) - fseg.Offset",
     "ch <- &fseg"] := rfl

/-- `loadManifest`: the cursor and clipping arithmetic (Model `fsLoop`: `next`, `blkOff`, `blkLen0`, `blkLen`; rewind; the stored segment's fields). -/
theorem tie_loadManifestArith : loadManifestArith =
    ["offset:  0,",
     "locator: token,",
     "size:    int(length),",
     "offset:  0,",
     "length:  int(length),",
     "segIdx, pos = 0, 0",
     "next := pos + int64(seg.Len())",
     "pos = next",
     "blkOff = int(offset - pos)",
     "blkLen := seg.Len() - blkOff",
     "blkLen = int(offset + length - pos - int64(blkOff))",
     "locator: seg.locator,",
     "size:    seg.size,",
     "offset:  blkOff,",
     "length:  blkLen,",
     "pos = next"] := rfl

/-- `parseManifestStream` offsets and `normalizedText` span arithmetic (Model `offsetsFrom`, `normBlocks`, `normSpans`). -/
theorem tie_normalizedTextArith : normalizedTextArith =
    ["streamoffset += uint64(bl.Size)",
     "blocks[b.Digest] = streamoffset",
     "streamoffset += int64(b.Size)",
     "streamoffset = blocks[b.Digest] + int64(segment.Offset)",
     "spanStart = streamoffset",
     "spanEnd = streamoffset + int64(segment.Len)",
     "spanEnd += int64(segment.Len)",
     "spanStart = streamoffset",
     "spanEnd = streamoffset + int64(segment.Len)"] := rfl

/-- `EscapeName` works on the *bytes* of the name (`[]byte(s)`), byte by byte: Model `escapeWith` over
`Bytes`. (Iterating runes instead would turn ill-formed UTF-8 into U+FFFD: seeded change C10-e.) -/
theorem tie_escapeNameText : escapeNameText =
    "{ raw := []byte(s) escaped := make([]byte, 0, len(s)) for _, c := range raw { if c <= 32 || c == '\\\\' { oct := fmt.Sprintf(\"\\\\%03o\", c) escaped = append(escaped, []byte(oct)...) } else { escaped = append(escaped, c) } } return string(escaped) }" := rfl

/-! Model-side readings of the tied literals (so that the model constants are pinned too). -/

theorem tie_model_pkgEscapePred (c : UInt8) : ArvVerif.C10.pkgEscapePred c = (decide (c ≤ 32) || c == 92) := rfl
theorem tie_model_fsEscapePred (c : UInt8) :
    ArvVerif.C10.fsEscapePred c = (decide (c ≤ 32) || c == 58 || c == 92) := rfl
theorem tie_model_goRight (bs be s : Nat) : ArvVerif.C10.goRightNew bs be s = decide (be ≤ s) := rfl
theorem tie_model_emptyLocator :
    ArvVerif.C10.emptyBlockLocator = ArvVerif.C10.str (sendStrings.getD 1 "") := rfl
theorem tie_model_emptyLocator_norm :
    ArvVerif.C10.emptyBlockLocator = ArvVerif.C10.str (normalizedTextStrings.getD 0 "") := rfl

/-! ## blockdigest.go (third extension pass): Model/C10_Digest.lean -/

/-- `FromString`: Model `digestFromString` (length 32, two `ParseUint(·, 16, 64)` halves of 16 characters). -/
theorem tie_fromStringConds : fromStringConds = ["if len(s) != 32", "if err != nil", "if err != nil"] := rfl
theorem tie_fromStringCalls : fromStringCalls = ["strconv.ParseUint", "strconv.ParseUint"] := rfl
theorem tie_fromStringInts : fromStringInts = [32, 16, 16, 64, 16, 16, 64] := rfl

/-- `BlockDigest.String`: Model `digestString` = `hexPad 16 H ++ hexPad 16 L`. -/
theorem tie_digestStringReturns : digestStringReturns = ["fmt.Sprintf(\"%016x%016x\", d.H, d.L)"] := rfl

/-- `IsBlockLocator`: Model `isBlockLocator = isGoLocator` (the pattern itself: `tie_locatorPattern`). -/
theorem tie_isBlockLocatorReturns : isBlockLocatorReturns = ["LocatorPattern.MatchString(s)"] := rfl

/-- `blockdigest.ParseBlockLocator`: Model `parseBlockLocator` (pattern test, split on `+`, `FromString(tokens[0])`,
`ParseInt(tokens[1], 10, 0)`, `Hints = tokens[2:]`). -/
theorem tie_bdParseLocConds : bdParseLocConds = ["if !LocatorPattern.MatchString(s)", "if err != nil", "if err != nil"] := rfl
theorem tie_bdParseLocCalls : bdParseLocCalls =
    ["LocatorPattern.MatchString", "strings.Split", "FromString", "strconv.ParseInt", "int"] := rfl
theorem tie_bdParseLocInts : bdParseLocInts = [0, 1, 10, 0, 2] := rfl
theorem tie_bdParseLocAssigns : bdParseLocAssigns =
    ["tokens := strings.Split(s, \"+\")",
     "blockDigest, err = FromString(tokens[0])",
     "blockSize, err = strconv.ParseInt(tokens[1], 10, 0)",
     "b.Digest = blockDigest",
     "b.Size = int(blockSize)",
     "b.Hints = tokens[2:]"] := rfl

/-- `manifest.ParseBlockLocator` is the same function (Model: the same `parseBlockLocator`). -/
theorem tie_pkgParseLocConds : pkgParseLocConds =
    ["if !blockdigest.LocatorPattern.MatchString(s)", "if err != nil", "if err != nil"] := rfl
theorem tie_pkgParseLocCalls : pkgParseLocCalls =
    ["blockdigest.LocatorPattern.MatchString", "strings.Split", "blockdigest.FromString", "strconv.ParseInt", "int"] := rfl
theorem tie_pkgParseLocInts : pkgParseLocInts = [0, 1, 10, 0, 2] := rfl
theorem tie_pkgParseLocAssigns : pkgParseLocAssigns =
    ["tokens := strings.Split(s, \"+\")",
     "blockDigest, err = blockdigest.FromString(tokens[0])",
     "blockSize, err = strconv.ParseInt(tokens[1], 10, 0)",
     "b.Digest = blockDigest",
     "b.Size = int(blockSize)",
     "b.Hints = tokens[2:]"] := rfl

/-! ## replace_range (third extension pass): Model/C10_PyReplace.lean -/

/-- `replace_range`: the early exits, the append / extend-last test, the binary search call and the five range
tests of the loop: Model `pyReplaceRange` / `rrLoop`. -/
theorem tie_pyReplaceConds : pyReplaceConds =
  ["if new_range_size == 0:",
     "if len(data_locators) == 0:",
     "if (last.range_start+last.range_size) == new_range_start:",
     "if last.locator == new_locator and (last.segment_offset+last.range_size) == new_segment_offset:",
     "i = first_block(data_locators, new_range_start)",
     "while i < len(data_locators):",
     "if new_range_end <= old_segment_start:",
     "if old_segment_start <= new_range_start and new_range_end <= old_segment_end:",
     "if (new_range_start-old_segment_start) > 0:",
     "if (old_segment_end-new_range_end) > 0:",
     "elif old_segment_start <= new_range_start and new_range_end > old_segment_end:",
     "elif new_range_start < old_segment_start and new_range_end >= old_segment_end:",
     "elif new_range_start < old_segment_start and new_range_end < old_segment_end:"] := rfl

/-- the list edits of `replace_range` (and the index steps; the first `i += 1` is `locators_and_ranges`'): Model
`rrLoop`'s pieces ⟨loc, start, size, segment_offset⟩. -/
theorem tie_pyReplaceEdits : pyReplaceEdits =
  ["i += 1",
     "new_range_end = new_range_start + new_range_size",
     "data_locators.append(Range(new_locator, new_range_start, new_range_size, new_segment_offset))",
     "last.range_size += new_range_size",
     "data_locators.append(Range(new_locator, new_range_start, new_range_size, new_segment_offset))",
     "old_segment_start = dl.range_start",
     "old_segment_end = old_segment_start + dl.range_size",
     "data_locators[i] = Range(dl.locator, old_segment_start, (new_range_start-old_segment_start), dl.segment_offset)",
     "data_locators.insert(i+1, Range(new_locator, new_range_start, new_range_size, new_segment_offset))",
     "data_locators[i] = Range(new_locator, new_range_start, new_range_size, new_segment_offset)",
     "i -= 1",
     "data_locators.insert(i+2, Range(dl.locator, new_range_end, (old_segment_end-new_range_end), dl.segment_offset + (new_range_start-old_segment_start) + new_range_size))",
     "data_locators[i] = Range(dl.locator, old_segment_start, (new_range_start-old_segment_start), dl.segment_offset)",
     "data_locators.insert(i+1, Range(new_locator, new_range_start, new_range_size, new_segment_offset))",
     "i += 1",
     "del data_locators[i]",
     "i -= 1",
     "data_locators[i] = Range(dl.locator, new_range_end, (old_segment_end-new_range_end), dl.segment_offset + (new_range_end-old_segment_start))",
     "i += 1"] := rfl

end ArvVerif.Tie.C10
