/-
Tie for C12: source facts regenerated from /repo on every run (Gen/FactsC12.lean) equal what the
model was written against. An edit to the weight function, the comparison, the hint rules or the
call sites' use of the sorter breaks one of these `rfl`s.
-/
import ArvVerif.Gen.FactsC12
import ArvVerif.Model.C12
namespace ArvVerif.Tie.C12
open ArvVerif.Facts.C12

/-- getWeight: md5(hash ++ uuid[12:]) for 27-character uuids, md5(hash ++ uuid) otherwise
(Model.C12.weight / uuidSuffix). -/
theorem tie_getWeight : getWeightText =
    "{ if len(uuid) == 27 { return Md5String(hash + uuid[12:]) } return Md5String(hash + uuid) }" := rfl

/-- Less: descending by weight (Model.C12.geW). -/
theorem tie_less : lessText = "{ return rs.weight[rs.order[j]] < rs.weight[rs.order[i]] }" := rfl

/-- getSortedRoots' hint classification (Model.C12.classifyHint). -/
theorem tie_hintConds : sortedRootsConds =
    ["if len(hint) < 7 || hint[0:2] != \"K@\"", "if len(hint) == 7", "if len(hint) == 29", "if ok"] := rfl

theorem tie_hintStrings : sortedRootsStrings = ["+", "K@", "https://keep.", ".arvadosapi.com"] := rfl

/-- the proxy URL literal pieces are the ones Model.C12.proxyURL uses -/
theorem tie_proxyURL (c : List Char) :
    ArvVerif.C12.proxyURL c = (sortedRootsStrings.getD 2 "").toList ++ c ++ (sortedRootsStrings.getD 3 "").toList := rfl

/-- read path: sorter over LocalRoots and the first 32 characters of the locator, after hints -/
theorem tie_readSite : sortedRootsCalls =
    ["kc.GatewayRoots", "NewRootSorter(kc.LocalRoots(), locator[0:32]).GetSortedRoots", "NewRootSorter",
     "kc.LocalRoots"] := rfl

/-- write path: the same sorter over WritableLocalRoots -/
theorem tie_writeSite : putReplicasSorterCalls =
    ["NewRootSorter(kc.WritableLocalRoots(), hash).GetSortedRoots", "NewRootSorter", "kc.WritableLocalRoots"] := rfl

/-- keep-balance: the same sorter over the service uuids and the first 32 characters of the block id -/
theorem tie_balanceSite : balanceSorterCalls =
    ["keepclient.NewRootSorter(bal.serviceRoots, string(blkid[:32])).GetSortedRoots", "keepclient.NewRootSorter"] := rfl

/-- keep-balance: the ranking lives in `srvRendezvous`, a map allocated by each `balanceBlock` call
and read by the slot comparator; `balanceBlock` assigns to nothing reachable from the shared
`Balancer`, `KeepService` or `KeepMount` objects (Model.C12 `Task.rank` is a field of the task, not
of the shared state — the hypothesis `C12_sweep_any_schedule` rests on, cf. `C12_shared_rank_breaks`). -/
theorem tie_rankIsLocal : balanceRankAssigns =
    ["uuids := keepclient.NewRootSorter(bal.serviceRoots, string(blkid[:32])).GetSortedRoots()",
     "srvRendezvous := make(map[*KeepService]int, len(uuids))",
     "srvRendezvous[srv] = i",
     "orderi, orderj := srvRendezvous[si.mnt.KeepService], srvRendezvous[sj.mnt.KeepService]"] := rfl

/-- the long-lived per-server object has no field in which a per-block value could be kept -/
theorem tie_keepServiceFields : keepServiceFields = ["arvados.KeepService", "mounts []*KeepMount", "*ChangeSet"] := rfl

/-- ComputeChangeSets: `workers` goroutines, each calling `bal.balanceBlock` for the blocks it
receives (Model.C12 `sweepRun`: any interleaving of the calls' steps). -/
theorem tie_changeSetsSkeleton : changeSetsSkeleton =
    ["defer", "call bal.time(\"changeset_compute\", \"wall clock time to compute changesets\")", "call bal.time",
     "call bal.setupLookupTables", "call runtime.GOMAXPROCS => workers",
     "go", "func {", "call bal.BlockStateMap.Apply", "func {", "}", "}",
     "go", "func {", "for {", "go", "func {", "for {", "call bal.balanceBlock", "}", "}", "}", "}",
     "call bal.collectStatistics"] := rfl

/-- Python SDK `_service_weight`: md5(data_hash + service_uuid[-15:]) (Model.C12_Py `pyWeight` / `pyUuidSuffix`). -/
theorem tie_pyWeight : pyWeightLines =
    ["return hashlib.md5((data_hash + service_uuid[-15:]).encode()).hexdigest()"] := rfl

/-- Python SDK `weighted_service_roots`, hint loop (Model.C12_Py `pyHintRoots`, `pyProxyURL`). -/
theorem tie_pyHints : pyHintLines =
    ["if hint.startswith('K@'):", "if len(hint) == 7:",
     "\"https://keep.{}.arvadosapi.com/\".format(hint[2:]))",
     "elif len(hint) == 29:", "svc = self._gateway_services.get(hint[2:])"] := rfl

/-- Python SDK: stable descending sort of the keep / writable services by `_service_weight` of the
locator's md5sum and the service uuid (Model.C12_Py `pyOrder`). -/
theorem tie_pySort : pySortLines =
    ["use_services = self._keep_services", "use_services = self._writable_services", "reverse=True,",
     "key=lambda svc: self._service_weight(locator.md5sum, svc['uuid']))])"] := rfl

/-- The documented rule (doc/architecture/keep-clients.html.textile.liquid): the one paragraph that
states the weight and the sort, verbatim. `C12_doc` is the model's statement of it. -/
theorem tie_docRule : docRuleLines =
    ["Each @keep_service@ resource has an assigned uuid.  To determine priority assignments of blocks to servers, for each keep service compute the MD5 sum of the string concatenation of the block locator (hex-coded hash part only) and service uuid, then sort this list in descending order.  Blocks are preferentially placed on servers with the highest weight."] := rfl

end ArvVerif.Tie.C12
