/-
Tie for C12: source facts regenerated from /repo on every run (Gen/FactsC12.lean) equal what the
model was written against. An edit to the weight function, the comparison, the hint rules or the
call sites' use of the sorter breaks one of these `rfl`s.
-/
import ArvVerif.Gen.FactsC12
import ArvVerif.Model.C12
namespace ArvVerif.Tie.C12
open ArvVerif.Facts.C12

/-- getWeight: md5(hash ++ uuid[12:]) for 27-character uuids, md5(hash ++ uuid) otherwise
(Model.C12.weight / uuidSuffix). -/
theorem tie_getWeight : getWeightText =
    "{ if len(uuid) == 27 { return Md5String(hash + uuid[12:]) } return Md5String(hash + uuid) }" := rfl

/-- Less: descending by weight (Model.C12.geW). -/
theorem tie_less : lessText = "{ return rs.weight[rs.order[j]] < rs.weight[rs.order[i]] }" := rfl

/-- getSortedRoots' hint classification (Model.C12.classifyHint). -/
theorem tie_hintConds : sortedRootsConds =
    ["if len(hint) < 7 || hint[0:2] != \"K@\"", "if len(hint) == 7", "if len(hint) == 29", "if ok"] := rfl

theorem tie_hintStrings : sortedRootsStrings = ["+", "K@", "https://keep.", ".arvadosapi.com"] := rfl

/-- the proxy URL literal pieces are the ones Model.C12.proxyURL uses -/
theorem tie_proxyURL (c : List Char) :
    ArvVerif.C12.proxyURL c = (sortedRootsStrings.getD 2 "").toList ++ c ++ (sortedRootsStrings.getD 3 "").toList := rfl

/-- read path: sorter over LocalRoots and the first 32 characters of the locator, after hints -/
theorem tie_readSite : sortedRootsCalls =
    ["kc.GatewayRoots", "NewRootSorter(kc.LocalRoots(), locator[0:32]).GetSortedRoots", "NewRootSorter",
     "kc.LocalRoots"] := rfl

/-- write path: the same sorter over WritableLocalRoots -/
theorem tie_writeSite : putReplicasSorterCalls =
    ["NewRootSorter(kc.WritableLocalRoots(), hash).GetSortedRoots", "NewRootSorter", "kc.WritableLocalRoots"] := rfl

/-- keep-balance: the same sorter over the service uuids and the first 32 characters of the block id -/
theorem tie_balanceSite : balanceSorterCalls =
    ["keepclient.NewRootSorter(bal.serviceRoots, string(blkid[:32])).GetSortedRoots", "keepclient.NewRootSorter"] := rfl

end ArvVerif.Tie.C12
