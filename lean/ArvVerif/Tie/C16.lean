/-
Tie for C16: source facts regenerated from /repo on every run (Gen/FactsC16.lean) equal what the
model was written against.
-/
import ArvVerif.Gen.FactsC16
import ArvVerif.Model.C16
import ArvVerif.Model.C16_RunQueue
import ArvVerif.Model.C16_Pool
namespace ArvVerif.Tie.C16
open ArvVerif.Facts.C16

/-- `var discountConfiguredRAMPercent = 5` is the model's constant -/
theorem tie_discount : discountConfiguredRAMPercent = ArvVerif.C16.discountConfiguredRAMPercent := rfl

/-- the divisor of the needRAM formula is 95 -/
theorem tie_divisor : 100 - discountConfiguredRAMPercent = 95 := by decide

/-- the regexp `Model.C16.pdhSize?` was written for -/
theorem tie_pdhRegexp : pdhRegexp = "^[0-9a-f]{32}\\+(\\d+)$" := rfl

/-- estimateDockerImageSize (Model.C16.imageSize64 / imageSizeOfLen) -/
theorem tie_estimateDockerImageSize : estimateDockerImageSizeText =
    "{ m := pdhRegexp.FindStringSubmatch(collectionPDH) if m == nil { return 0 } n, err := strconv.ParseInt(m[1], 10, 64) if err != nil || n < 122 { return 0 } return ((n - 80) / 42) * (64 * 1024 * 1024) }" := rfl

/-- its integer literals are the ones in `imageSizeOfLen` / `mib64` -/
theorem tie_estimateInts : estimateDockerImageSizeInts = [0, 1, 10, 64, 122, 0, 80, 42, 64, 1024, 1024] := rfl

theorem tie_mib64 : ArvVerif.C16.mib64 =
    estimateDockerImageSizeInts.getD 8 0 * estimateDockerImageSizeInts.getD 9 0 * estimateDockerImageSizeInts.getD 10 0 := by
  decide

/-- EstimateScratchSpace (Model.C16.scratch64 / tmpCaps) -/
theorem tie_estimateScratchSpace : estimateScratchSpaceText =
    "{ for _, m := range ctr.Mounts { if m.Kind == \"tmp\" { needScratch += m.Capacity } } dockerImageSize := estimateDockerImageSize(ctr.ContainerImage) if needScratch < dockerImageSize { needScratch = dockerImageSize } needScratch += dockerImageSize return }" := rfl

theorem tie_tmpKind : estimateScratchStrings.map String.toList =
    [ArvVerif.C16.tmpKind.map (fun b => Char.ofNat b.toNat)] := by decide

/-- the needRAM formula and the accept branch of the loop (Model.C16.needRAM64 / chooseStep) -/
theorem tie_chooseAssigns : chooseAssigns =
    ["err = ErrInstanceTypesNotConfigured",
     "needScratch := EstimateScratchSpace(ctr)",
     "needVCPUs := ctr.RuntimeConstraints.VCPUs",
     "needRAM := ctr.RuntimeConstraints.RAM + ctr.RuntimeConstraints.KeepCacheRAM",
     "needRAM += int64(cc.Containers.ReserveExtraRAM)",
     "needRAM = (needRAM * 100) / int64(100-discountConfiguredRAMPercent)",
     "ok := false",
     "best = it",
     "ok = true",
     "err = ConstraintsNotSatisfiableError{ errors.New(\"constraints not satisfiable by any configured instance type\"), availableTypes, }"] := rfl

theorem tie_chooseInts : chooseInts = [0, 100, 100, 0] := rfl

/-- the filter-and-minimise switch, in source order (Model.C16.chooseStep / chooseWith) -/
theorem tie_chooseConds : chooseConds =
    ["if len(cc.InstanceTypes) == 0",
     "case ok && it.Price > best.Price",
     "case int64(it.Scratch) < needScratch",
     "case int64(it.RAM) < needRAM",
     "case it.VCPUs < needVCPUs",
     "case it.Preemptible != ctr.SchedulingParameters.Preemptible",
     "case it.Price == best.Price && (it.RAM < best.RAM || it.VCPUs < best.VCPUs)",
     "default",
     "if !ok"] := rfl

/-- the error path sorts the available types by ascending price (Model.C16.IsAvail) -/
theorem tie_chooseReturns : chooseReturns = ["", "availableTypes[a].Price < availableTypes[b].Price", "", ""] := rfl

theorem tie_chooseCalls : chooseCalls =
    ["len", "EstimateScratchSpace", "int64", "int64", "int64", "int64", "make", "len", "append", "sort.Slice",
     "errors.New"] := rfl

/-- runQueue's branch structure, in source order (Model.C16_RunQueue stepEnt / stepQueued / stepLocked /
tryStart / finish) -/
theorem tie_runQueueConds : runQueueConds =
    ["if running || ctr.Priority < 1",
     "switch ctr.State",
     "case arvados.ContainerStateQueued",
     "if unalloc[it] < 1 && sch.pool.AtQuota()",
     "if sch.pool.KillContainer(ctr.UUID, \"about to lock\")",
     "case arvados.ContainerStateLocked",
     "if unalloc[it] > 0",
     "if sch.pool.AtQuota()",
     "if sch.pool.Create(it)",
     "if dontstart[it]",
     "if sch.pool.KillContainer(ctr.UUID, \"about to start\")",
     "if sch.pool.StartContainer(it, ctr)",
     "if len(overquota) > 0",
     "if ctr.State == arvados.ContainerStateLocked",
     "if err != nil",
     "if n < 1"] := rfl

/-- the calls on pool and queue, in source order -/
theorem tie_runQueueCalls : runQueueCalls =
    ["sch.queue.Entries", "sort.Slice", "sch.pool.Running", "sch.pool.Unallocated", "sch.pool.AtQuota",
     "sch.pool.KillContainer", "sch.lockContainer", "sch.pool.AtQuota", "sch.queue.Unlock", "sch.pool.Create",
     "sch.pool.KillContainer", "sch.pool.StartContainer", "sch.queue.Unlock", "sch.pool.Shutdown"] := rfl

/-- the local bookkeeping: `unalloc[it]--` (twice), `dontstart[it] = true`, `overquota = sorted[i:]` (twice) -/
theorem tie_runQueueAssigns : runQueueAssigns =
    ["sorted := make([]container.QueueEnt, 0, len(unsorted))",
     "sorted = append(sorted, ent)",
     "running := sch.pool.Running()",
     "unalloc := sch.pool.Unallocated()",
     "dontstart := map[arvados.InstanceType]bool{}",
     "ctr, it := ctr.Container, ctr.InstanceType",
     "overquota = sorted[i:]",
     "unalloc[it]--",
     "unalloc[it]--",
     "overquota = sorted[i:]",
     "dontstart[it] = true",
     "ctr := ctr.Container"] := rfl

/-- descending priority (Model.C16_RunQueue.IsSorted) -/
theorem tie_runQueueSort : runQueueReturns = ["sorted[i].Container.Priority > sorted[j].Container.Priority"] := rfl

theorem tie_runQueueInts : runQueueInts = [0, 1, 1, 0, 1, 0, 1] := rfl

/-- lockContainer: uuidLock, then the cached state must still be Queued, then queue.Lock
(Model.C16_RunQueue.lockContainerCalls) -/
theorem tie_lockContainerConds : lockContainerConds =
    ["if !sch.uuidLock(uuid, \"lock\")",
     "if !ok || ctr.State != arvados.ContainerStateQueued",
     "if err != nil",
     "if !ok",
     "if ctr.State != arvados.ContainerStateLocked"] := rfl

theorem tie_lockContainerCalls : lockContainerCalls =
    ["sch.uuidLock", "sch.uuidUnlock", "sch.queue.Get", "sch.queue.Lock", "sch.queue.Get"] := rfl

/-- uuidLock refuses exactly when an operation on the uuid is in progress -/
theorem tie_uuidLock : uuidLockConds = ["if locked"] ∧ uuidLockReturns = ["false", "true"] := ⟨rfl, rfl⟩

/-- the real pool's Create: fails at quota, when throttled, or when MaxConcurrentInstanceCreateOps
creates are in flight (which also throttles) — the conditions behind `CreateMonotone` and the stub's
`created < canCreate` -/
theorem tie_poolCreate : poolCreateConds =
    ["if wp.loadRunnerData() != nil",
     "if time.Now().Before(wp.atQuotaUntil) || wp.instanceSet.throttleCreate.Error() != nil",
     "if wp.maxConcurrentInstanceCreateOps > 0 && len(wp.creating) >= wp.maxConcurrentInstanceCreateOps",
     "if err != nil",
     "if ok && err.IsQuotaError()"] ∧
    poolCreateReturns = ["false", "false", "false", "", "true"] := ⟨rfl, rfl⟩

/-- what `RQ.realPool.create` (Model/C16_Pool.lean) was written against: within `Create` the only
synchronous change of the blocking state is `wp.creating[secret] = …` (an entry is `delete`d, and
`atQuotaUntil` set, only in the goroutine that waits for the cloud's answer); the throttle is consulted
with `Error()` and set with `ErrorUntil(…, time.Now().Add(5*time.Second), …)`; `throttle.Error` drops an
error once `time.Now().After(thr.until)` -/
theorem tie_poolCreateThrottle :
    poolCreateAssigns =
      ["wp.creating[secret] = createCall{time: now, instanceType: it}",
       "wp.atQuotaErr = err",
       "wp.atQuotaUntil = time.Now().Add(quotaErrorTTL)"] ∧
    poolCreateThrottleCalls =
      ["time.Now().Before", "time.Now", "wp.instanceSet.throttleCreate.Error",
       "wp.instanceSet.throttleCreate.ErrorUntil", "time.Now().Add", "time.Now", "time.Now", "delete",
       "time.Now().Add", "time.Now", "time.AfterFunc", "wp.instanceSet.throttleCreate.CheckRateLimitError"] ∧
    poolCreateInts = [0, 5] ∧ (5 : Nat) * 1000 = ArvVerif.C16.RQ.createOpsHoldoff ∧
    throttleErrorConds = ["if thr.err != nil && time.Now().After(thr.until)"] ∧
    throttleErrorAssigns = ["thr.err = nil"] ∧ throttleErrorReturns = ["thr.err"] ∧
    throttleErrorUntilAssigns = ["thr.err, thr.until = err, until"] := ⟨rfl, rfl, rfl, rfl, rfl, rfl, rfl, rfl⟩

/-- AtQuota is a time window -/
theorem tie_poolAtQuota : poolAtQuotaReturns = ["time.Now().Before(wp.atQuotaUntil)"] := rfl

/-- StartContainer succeeds iff an idle worker of the type exists (stub mode `byIdle`) -/
theorem tie_poolStart : poolStartConds =
    ["if w.instType == it && w.state == StateIdle && w.idleBehavior == IdleBehaviorRun",
     "if wkr == nil || w.busy.After(wkr.busy)",
     "if wkr == nil"] ∧ poolStartReturns = ["false", "true"] := ⟨rfl, rfl⟩

/-- Unallocated counts idle + booting + unknown workers without containers, plus creates in flight -/
theorem tie_poolUnallocated : poolUnallocConds =
    ["if !ok || t.After(cc.time)",
     "if wkr.state == StateShutdown || wkr.state == StateRunning || wkr.idleBehavior != IdleBehaviorRun || len(wkr.running) > 0",
     "if wkr.state == StateUnknown && creating[it] > 0 && wkr.appeared.After(oldestCreate[it])"] := rfl

/-! container.Queue (Model.C16_Queue) -/

/-- addEnt: a chooser error for a Queued or Locked container ⇒ cancel task, not added (Q.addEnt) -/
theorem tie_queueAddEnt : queueAddEntConds =
    ["if err != nil && (ctr.State == arvados.ContainerStateQueued || ctr.State == arvados.ContainerStateLocked)",
     "if ctr.State == arvados.ContainerStateQueued",
     "if err != nil",
     "if err == nil",
     "if latest.State == arvados.ContainerStateCancelled",
     "if err != nil",
     "if err != nil"] ∧
    queueAddEntAssigns =
    ["it, err := cq.chooseType(&ctr)",
     "cq.current[uuid] = QueueEnt{Container: ctr, InstanceType: it}"] := ⟨rfl, rfl⟩

/-- Update: dontupdate is created before poll() and dropped only after the poll result has been
applied (Q.beginUpdate / Q.applyPoll) -/
theorem tie_queueUpdate : queueUpdateConds =
    ["if err != nil", "if dontupdate", "if !ok", "if dontupdate", "if !stillpresent"] ∧
    queueUpdateAssigns =
    ["cq.dontupdate = map[string]struct{}{}",
     "next, err := cq.poll()",
     "cur.Container = *ctr",
     "cq.current[uuid] = cur",
     "cq.dontupdate = nil",
     "cq.updated = updateStarted"] ∧
    queueUpdateCalls =
    ["cq.mtx.Lock", "cq.mtx.Unlock", "cq.poll", "cq.mtx.Lock", "cq.mtx.Unlock", "cq.addEnt", "cq.delEnt",
     "cq.notify"] := ⟨rfl, rfl, rfl⟩

/-- poll() itself does not touch dontupdate -/
theorem tie_queuePoll : queuePollAssigns = ["cq.auth = auth"] := rfl

/-- updateWithResp (Q.localResp) -/
theorem tie_queueResp : queueRespConds = ["if cq.dontupdate != nil", "if !ok"] ∧
    queueRespAssigns =
    ["cq.dontupdate[uuid] = struct{}{}",
     "ent.Container.State, ent.Container.Priority, ent.Container.LockedByUUID = resp.State, resp.Priority, resp.LockedByUUID",
     "cq.current[uuid] = ent"] := ⟨rfl, rfl⟩

/-- the dispatcher's type chooser is ChooseInstanceType over the cluster configuration -/
theorem tie_typeChooser : dispTypeChooserReturns = ["ChooseInstanceType(disp.Cluster, ctr)"] := rfl

/-- ... and nothing else: one call, no assignment (no state kept between calls: the queue model's
chooser is a function of the container's constraint vector, `Q.addEnt`) -/
theorem tie_typeChooserPure : dispTypeChooserCalls = ["ChooseInstanceType"] ∧ dispTypeChooserAssigns = [] :=
  ⟨rfl, rfl⟩

/-- poll(): three list requests, each selecting `selectParam`, which names the sizing attributes
runtime_constraints, container_image, mounts, scheduling_parameters (`Q.pollResult` =
`Q.pollResultSel true true true`: every polled record carries the container's constraint vector) -/
theorem tie_queuePollSelect : queuePollSelectLines =
    ["selectParam := []string{\"uuid\", \"state\", \"priority\", \"runtime_constraints\", \"container_image\", \"mounts\", \"scheduling_parameters\", \"created_at\"}",
     "Select:  selectParam,",
     "Select:  selectParam,",
     "Select:  selectParam,"] ∧
    queuePollCalls = ["cq.fetchAll", "cq.fetchAll", "cq.fetchAll"] := ⟨rfl, rfl⟩

end ArvVerif.Tie.C16
