/-
Tie for C19: source facts regenerated from /repo on every run (Gen/FactsC19.lean) equal what the
model was written against. An edit to SaltToken, to the token discovery, to the content-type
literals, to the provider's switch, to saltAuthToken's branch structure or to keepstore's use of
SaltToken breaks one of these.
-/
import ArvVerif.Gen.FactsC19
import ArvVerif.Model.C19
namespace ArvVerif.Tie.C19
open ArvVerif.Facts.C19
open ArvVerif.C19

/-! ### auth.SaltToken -/

/-- the legacy-token pattern `isObsolete` was written for -/
theorem tie_reObsoleteToken : reObsoleteToken = "^[0-9a-z]{41,}$" := by decide

/-- the integer literals of SaltToken: `len(parts) < 3`, indexes 0, 1, 2 and the salt length 40 -/
theorem tie_saltInts : saltInts = [3, 0, 1, 2, 40] := by decide

/-- the length constant of the model is the last integer literal of SaltToken -/
theorem tie_saltLen : saltInts.getLast? = some (Int.ofNat saltLen) := by decide

theorem tie_saltConds : saltConds =
    ["if len(parts) < 3 || parts[0] != \"v2\"",
     "if reObsoleteToken.MatchString(token)",
     "if len(secret) != 40",
     "if strings.HasPrefix(uuid, remote)"] := by decide

theorem tie_saltReturns : saltReturns =
    ["\"\", ErrObsoleteToken",
     "\"\", ErrTokenFormat",
     "\"v2/\" + uuid + \"/\" + secret, nil",
     "token, nil",
     "\"\", ErrSalted"] := by decide

/-- separator, version word and the pieces of the result are the model's constants -/
theorem tie_saltStrings :
    saltStrings = ["/", "v2", "", "", "%x", "v2/", "/", ""] ∧
    (saltStrings.getD 0 "").toList = sSlash ∧ (saltStrings.getD 1 "").toList = sV2 ∧
    (saltStrings.getD 5 "").toList = sV2Slash := by decide

/-- the whole function, including the argument order of the MAC: key = secret (`hmac.New(sha1.New,
[]byte(secret))`), message = remote (`io.WriteString(hmac, remote)`), output `%x` -/
theorem tie_saltText : saltText =
    "{ parts := strings.Split(token, \"/\") if len(parts) < 3 || parts[0] != \"v2\" { if reObsoleteToken.MatchString(token) { return \"\", ErrObsoleteToken } return \"\", ErrTokenFormat } uuid := parts[1] secret := parts[2] if len(secret) != 40 { hmac := hmac.New(sha1.New, []byte(secret)) io.WriteString(hmac, remote) secret = fmt.Sprintf(\"%x\", hmac.Sum(nil)) return \"v2/\" + uuid + \"/\" + secret, nil } else if strings.HasPrefix(uuid, remote) { return token, nil } else { return \"\", ErrSalted } }" := rfl

/-! ### token discovery (sdk/go/auth/auth.go) -/

/-- order: Authorization OAuth2/Bearer, Basic, query string, cookie (`requestTokens`) -/
theorem tie_loadCalls : loadCalls =
    ["strings.SplitN", "r.BasicAuth", "url.ParseQuery", "a.loadTokenFromCookie"] := by decide

theorem tie_loadConds : loadConds =
    ["if len(toks) == 2 && (toks[0] == \"OAuth2\" || toks[0] == \"Bearer\")", "if ok", "if ok"] := by
  decide

theorem tie_loadStrings :
    loadStrings = ["Authorization", " ", "OAuth2", "Bearer", "api_token"] ∧
    (loadStrings.getD 2 "").toList = sOAuth2 ∧ (loadStrings.getD 3 "").toList = sBearerWord ∧
    (loadStrings.getD 4 "").toList = apiTokenKey := by decide

theorem tie_cookieName : cookieStrings = ["arvados_api_token"] := by decide

/-- `LoadTokensFromHTTPRequestBody` reads the body only for exactly the model's `formCT`, takes
the first `api_token` value and ignores an empty one -/
theorem tie_loadBody :
    loadBodyConds = ["if r.Header.Get(\"Content-Type\") != \"application/x-www-form-urlencoded\"",
                     "if err != nil", "if t != \"\""] ∧
    loadBodyStrings = ["Content-Type", "application/x-www-form-urlencoded", "api_token", ""] ∧
    (loadBodyStrings.getD 1 "").toList = formCT ∧
    (loadBodyStrings.getD 2 "").toList = apiTokenKey := by decide

/-! ### Handler.saltAuthToken (lib/controller/federation.go) -/

/-- The media type `saltAuthToken` looks for is the model's `formCT`, the same literal the body
loader of sdk/go/auth uses. (The misspelt literal `application/x-www-form-encoded` of finding F7
breaks exactly this.) -/
theorem tie_formCT_same : legacyStrings.getD 2 "" = loadBodyStrings.getD 1 "" := by decide

theorem tie_formCT_legacy : (legacyStrings.getD 2 "").toList = formCT := by decide

/-- the separators that end the media type are the ones `mediaTypeOf` cuts at -/
theorem tie_mediaTypeSeparators : (legacyStrings.getD 1 "").toList = [';', ','] := by decide

theorem tie_legacyStrings : legacyStrings =
    ["Content-Type", ";,", "application/x-www-form-urlencoded", "api_token", "", "api_token",
     "saltAuthToken: cluster %s token %s remote %s", "Authorization", "Cookie", "Authorization",
     "Bearer ", "arvados_api_token", "api_token", "api_token"] ∧
    (legacyStrings.getD 10 "").toList = sBearer ∧
    (legacyStrings.getD 3 "").toList = apiTokenKey ∧
    legacyStrings.getD 11 "" = cookieStrings.getD 0 "" := by decide

/-- branch structure: media type of the body (no "no token found yet" guard, no method test),
parse error ⇒ return, first non-empty api_token, no token ⇒ forward as is, local lookup for
legacy/format errors, header rebuild without Authorization and Cookie, cookies other than
arvados_api_token re-added, query string stripped -/
theorem tie_legacyConds : legacyConds =
    ["if i >= 0",
     "if strings.ToLower(strings.TrimSpace(ct)) == \"application/x-www-form-urlencoded\" && updatedReq.Body != nil",
     "if err != nil",
     "if err != nil",
     "if t != \"\"",
     "if len(creds.Tokens) == 0",
     "if err == auth.ErrObsoleteToken || err == auth.ErrTokenFormat",
     "if err != nil",
     "if !ok || strings.HasPrefix(currentUser.UUID, remote)",
     "if err != nil",
     "if err != nil",
     "if k != \"Authorization\" && k != \"Cookie\"",
     "if cookie.Name != \"arvados_api_token\"",
     "if err != nil",
     "if ok"] := by decide

/-- discovery, media type, body (first api_token, delete, re-encode), salt, local lookup, second
salt, header rebuild, cookies, query-string stripping — in this order -/
theorem tie_legacyCalls : legacyCalls =
    ["creds.LoadTokensFromHTTPRequest", "strings.IndexAny", "strings.ToLower", "strings.TrimSpace",
     "url.ParseQuery", "form.Get", "form.Del", "form.Encode", "auth.SaltToken", "h.validateAPItoken",
     "strings.HasPrefix", "auth.SaltToken", "updatedReq.Header.Set", "req.Cookies",
     "updatedReq.AddCookie", "url.ParseQuery"] := by decide

/-- `validateAPItoken`: v2 prefix split, no row ⇒ not ok, uuid mismatch ⇒ not ok (`resolveLocal`) -/
theorem tie_validateConds : validateConds =
    ["if err != nil", "if strings.HasPrefix(token, \"v2/\")", "if err == sql.ErrNoRows",
     "if err != nil", "if uuid != \"\" && user.Authorization.UUID != uuid", "if err != nil"] := by
  decide

/-- `TokenV2` is `tokenV2` -/
theorem tie_tokenV2 : tokenV2Text = "{ return \"v2/\" + aca.UUID + \"/\" + aca.APIToken }" := by
  decide

/-- the two assignments that can index out of range: `uuid = sp[1]`, `token = sp[2]` after
`strings.Split(token, "/")` under the `v2/` prefix test (`legacyToken`, `C19_legacy_panic`) -/
theorem tie_validateAssigns : validateAssigns =
    ["sp := strings.Split(token, \"/\")", "uuid = sp[1]", "token = sp[2]"] := by decide

/-! ### forwarding layers: remoteClusterRequest and proxy.Do (`remoteClusterRequest`, `proxyDo`) -/

/-- the hop-by-hop headers `proxy.Do` drops are the model's `dropHeaders` -/
theorem tie_dropHeaders : dropHeaderNames.map String.toList = dropHeaders := by decide

/-- unknown remote ⇒ 404 before anything else; the outgoing URL takes Path, RawPath and RawQuery
from the REBUILT request (`saltedReq`), not from the incoming one; the rebuilt request is what
`proxy.Do` gets -/
theorem tie_remoteClusterRequest : remoteClusterRequestText =
    "{ remote, ok := h.Cluster.RemoteClusters[remoteID] if !ok { return nil, HTTPError{fmt.Sprintf(\"no proxy available for cluster %v\", remoteID), http.StatusNotFound} } scheme := remote.Scheme if scheme == \"\" { scheme = \"https\" } saltedReq, err := h.saltAuthToken(req, remoteID) if err != nil { return nil, err } urlOut := &url.URL{ Scheme: scheme, Host: remote.Host, Path: saltedReq.URL.Path, RawPath: saltedReq.URL.RawPath, RawQuery: saltedReq.URL.RawQuery, } client := h.secureClient if remote.Insecure { client = h.insecureClient } return h.proxy.Do(saltedReq, urlOut, client) }" := rfl

/-- `proxy.Do`: header copy minus `dropHeaders`, X-Forwarded-For / X-Forwarded-Proto / Via, and a
new request made of Method, the given URL, Host, these headers and the Body of the rebuilt request —
nothing else of the incoming request is consulted -/
theorem tie_proxyDo : proxyDoText =
    "{ hdrOut := http.Header{} for k, v := range reqIn.Header { if !dropHeaders[k] { hdrOut[k] = v } } xff := reqIn.RemoteAddr if xffIn := reqIn.Header.Get(\"X-Forwarded-For\"); xffIn != \"\" { xff = xffIn + \",\" + xff } hdrOut.Set(\"X-Forwarded-For\", xff) if hdrOut.Get(\"X-Forwarded-Proto\") == \"\" { hdrOut.Set(\"X-Forwarded-Proto\", reqIn.URL.Scheme) } hdrOut.Add(\"Via\", reqIn.Proto+\" arvados-controller\") reqOut := (&http.Request{ Method: reqIn.Method, URL: urlOut, Host: reqIn.Host, Header: hdrOut, Body: reqIn.Body, }).WithContext(reqIn.Context()) return client.Do(reqOut) }" := rfl

/-! ### rpc.Conn token placement (`rpcAuthorization`, `rpcReaderTokens`) -/

/-- the only statements of `requestAndDecode` that touch the token list: first token ⇒
`Authorization: Bearer`, none ⇒ `Bearer -`, the rest ⇒ `reader_tokens` -/
theorem tie_rpcTokenAssigns : rpcTokenAssigns =
    ["tokens, err := conn.tokenProvider(ctx)",
     "ctx = arvados.ContextWithAuthorization(ctx, \"Bearer \"+tokens[0])",
     "ctx = arvados.ContextWithAuthorization(ctx, \"Bearer -\")",
     "params[\"reader_tokens\"] = tokens[1:]"] := by decide

theorem tie_rpcConds : rpcConds =
    ["if err != nil", "if len(tokens) > 0", "if err != nil", "if err != nil",
     "if ok && ep.AttrsKey != \"\"", "if ok", "if err == nil && limit < 0", "if ok", "if ok2",
     "if strings.HasSuffix(k, \"_at\")",
     "if ok3 && (strings.HasPrefix(v, \"0001-01-01T00:00:00\") || v == \"\")",
     "if len(tokens) > 1", "if strings.Contains(ep.Path, \"/{uuid}\")"] := by decide

theorem tie_rpcStrings : (rpcStrings.getD 0 "").toList = sBearer ∧
    (rpcStrings.getD 1 "").toList = sBearer ++ ['-'] ∧ rpcStrings.getD 13 "" = "reader_tokens" := by decide

/-! ### saltedTokenProvider (lib/controller/federation/conn.go) -/

/-- `federation.New`: every remote cluster that is proxied (and is not the cluster itself) gets an
`rpc.Conn` whose token provider is `saltedTokenProvider(local, id)` for ITS OWN id -/
theorem tie_fedNew : fedNewText =
    "{ local := localdb.NewConn(cluster) remotes := map[string]backend{} for id, remote := range cluster.RemoteClusters { if !remote.Proxy || id == cluster.ClusterID { continue } conn := rpc.NewConn(id, &url.URL{Scheme: remote.Scheme, Host: remote.Host}, remote.Insecure, saltedTokenProvider(local, id)) conn.SendHeader = http.Header{\"Via\": {\"HTTP/1.1 arvados-controller\"}} remotes[id] = conn } return &Conn{ cluster: cluster, local: local, remotes: remotes, } }" := rfl

theorem tie_providerConds : providerConds =
    ["if !ok", "switch err", "case nil", "case auth.ErrSalted", "case auth.ErrTokenFormat",
     "case auth.ErrObsoleteToken", "if errStatus(err) == http.StatusUnauthorized", "if err != nil",
     "if strings.HasPrefix(aca.UUID, remoteID)", "if err != nil", "default"] := by decide

/-- every statement of the provider that writes `tokens` or `incoming`: the result list is only
ever appended to (it starts as the nil slice of `var tokens []string`, never as a slice of the
caller's credentials), and `incoming` is only read — the provider has no effect on the request
context (`provSeq` is a plain `map`) -/
theorem tie_providerTokenAssigns : providerTokenAssigns =
    ["incoming, ok := auth.FromContext(ctx)",
     "tokens = append(tokens, salted)",
     "tokens = append(tokens, token)",
     "tokens = append(tokens, token)",
     "tokens = append(tokens, token)",
     "tokens = append(tokens, token)",
     "tokens = append(tokens, salted)"] := by decide

theorem tie_providerCalls : providerCalls =
    ["auth.FromContext", "auth.SaltToken", "local.APIClientAuthorizationCurrent", "errStatus",
     "strings.HasPrefix", "auth.SaltToken"] := by decide

/-! ### keepstore (services/keepstore/proxy_remote.go) -/

/-- `remoteClient` salts exactly once -/
theorem tie_keepCalls : keepCalls = ["auth.SaltToken"] := by decide

/-- `remoteClient` touches no state of the proxy other than the per-remote client map (under the
mutex) and calls SaltToken unconditionally, after the client lookup: its answer depends on
(remote, token) only — `keepSeq` is a plain `map`. A token cache keyed by anything would show up
here as further `rp.` calls or conditions. -/
theorem tie_keepClientStateless :
    keepClientCalls = ["rp.mtx.Lock", "rp.mtx.Unlock", "rp.mtx.Lock", "rp.mtx.Unlock", "auth.SaltToken"] ∧
    keepClientConds = ["if !ok", "if err != nil", "if err != nil", "if rp.clients == nil", "if err != nil"] ∧
    keepClientReturns = ["nil, err", "nil, err", "nil, err", "&kccopy, nil"] := by decide

/-- `Get`: ErrObsoleteToken ⇒ 400, any other error ⇒ 500, before any remote request (`keepGet`) -/
theorem tie_keepGetConds : keepGetConds =
    ["if token == \"\"",
     "if strings.SplitN(r.Header.Get(\"X-Keep-Signature\"), \",\", 2)[0] == \"local\"",
     "if err != nil", "case i == 0", "case strings.HasPrefix(part, \"A\")",
     "case len(part) > 7 && part[0] == 'R' && part[6] == '-'", "if !ok",
     "if err == auth.ErrObsoleteToken", "if err != nil", "if remoteClient == nil", "case nil",
     "case *keepclient.ErrNotFound", "default"] := by decide

end ArvVerif.Tie.C19
