/-
Tie for C04: source facts regenerated from /repo on every run (Gen/FactsC04.lean) equal what the
models were written against. Each fact is the ordered control/call skeleton, the conditions or the
literals of one anchored function; an edit that reorders the lock/stat/rename calls, drops the flock
or the mtime re-check, flips a TTL/deadline comparison, changes the trash name format or the handler
logic breaks one of these `rfl`s. The second group ties the micro-step labels of the interleaving
model to the call names in those skeletons (the same labels are compared with the verifPoint ids
observed at run time by the correspondence check).
-/
import ArvVerif.Gen.FactsC04
import ArvVerif.Model.C04
import ArvVerif.Model.C04_Race
namespace ArvVerif.Tie.C04
open ArvVerif.Facts.C04

/-- Touch: open BY PATH, Serialize lock, flock on the opened inode, Chtimes BY PATH, deferred unlockfile/unlock/Close (Race.stepP tOpen..tChtimes; Vol.touch) -/
theorem tie_touchSkeleton : touchSkeleton =
  ["if v.volume.ReadOnly {",
   "return",
   "}",
   "call v.os.OpenFile => f,err",
   "if err != nil {",
   "return",
   "}",
   "defer",
   "call f.Close",
   "call v.lock => err",
   "if err != nil {",
   "return",
   "}",
   "defer",
   "call v.unlock",
   "call v.lockfile => e",
   "if e != nil {",
   "return",
   "}",
   "defer",
   "call v.unlockfile",
   "call v.os.stats.TickOps",
   "call v.os.stats.Tick",
   "call os.Chtimes => err",
   "call v.os.stats.TickErr",
   "return"] := rfl

/-- Trash: ReadOnly/BlobTrash guard, Serialize lock FIRST, open, flock, Stat BY PATH, TTL comparison, Remove when lifetime 0 else Rename (Race.stepT dLock..dRename; Vol.trashBlock) -/
theorem tie_trashSkeleton : trashSkeleton =
  ["if v.volume.ReadOnly || !v.cluster.Collections.BlobTrash {",
   "return",
   "}",
   "call v.lock => err",
   "if err != nil {",
   "return",
   "}",
   "defer",
   "call v.unlock",
   "call v.os.OpenFile => f,err",
   "if err != nil {",
   "return",
   "}",
   "defer",
   "call f.Close",
   "call v.lockfile => e",
   "if e != nil {",
   "return",
   "}",
   "defer",
   "call v.unlockfile",
   "call v.os.Stat => fi,err",
   "if err != nil {",
   "return",
   "} else {",
   "call time.Since",
   "if time.Since(fi.ModTime()) < v.cluster.Collections.BlobSigningTTL.Duration() {",
   "return",
   "}",
   "}",
   "if v.cluster.Collections.BlobTrashLifetime == 0 {",
   "call v.os.Remove",
   "return",
   "}",
   "call v.os.Rename",
   "return"] := rfl

/-- `time.Since(mtime) < BlobSigningTTL` keeps the block (C04.young: now < mtime + ttl); lifetime == 0 deletes -/
theorem tie_trashConds : trashConds =
  ["if v.volume.ReadOnly || !v.cluster.Collections.BlobTrash",
   "if err != nil",
   "if err != nil",
   "if e != nil",
   "if err != nil",
   "if time.Since(fi.ModTime()) < v.cluster.Collections.BlobSigningTTL.Duration()",
   "if v.cluster.Collections.BlobTrashLifetime == 0"] := rfl

/-- trash name format <path>.trash.<deadline> (TrashEnt) -/
theorem tie_trashStrings : trashStrings =
  ["%v.trash.%d"] := rfl

/-- Trash returns nil when the block is too young (counted as deleted by handleDELETE: delHit), deadline = Now().Add(lifetime).Unix() (deadlineOf: whole seconds) -/
theorem tie_trashReturns : trashReturns =
  ["MethodDisabledError",
   "err",
   "err",
   "e",
   "err",
   "nil",
   "v.os.Remove(p)",
   "v.os.Rename(p, fmt.Sprintf(\"%v.trash.%d\", p, time.Now().Add(v.cluster.Collections.BlobTrashLifetime.Duration()).Unix()))"] := rfl

/-- WriteBlock: IsFull, MkdirAll, TempFile, Serialize lock, Copy, Close, Chtimes(tmp), Rename(tmp, path) — and NO lockfile (finding F4; Race.stepP wMkdir..wRename) -/
theorem tie_writeBlockCalls : writeBlockCalls =
  ["v.IsFull",
   "os.MkdirAll",
   "v.os.TempFile",
   "v.lock",
   "v.unlock",
   "io.Copy",
   "v.os.stats.TickOutBytes",
   "tmpfile.Close",
   "v.os.Remove",
   "tmpfile.Close",
   "v.os.Remove",
   "v.os.stats.TickOps",
   "v.os.stats.Tick",
   "os.Chtimes",
   "v.os.Remove",
   "v.os.Rename",
   "v.os.Remove"] := rfl

/-- Untrash: ReadDir (name order), first name with prefix <loc>.trash. is renamed onto the block path — no existence check, no timestamp refresh (finding F04a; Vol.untrash, minEntry) -/
theorem tie_untrashSkeleton : untrashSkeleton =
  ["if v.volume.ReadOnly {",
   "return",
   "}",
   "call v.os.stats.TickOps",
   "call v.os.stats.Tick",
   "call ioutil.ReadDir => files,err",
   "if err != nil {",
   "return",
   "}",
   "if len(files) == 0 {",
   "return",
   "}",
   "for {",
   "call strings.HasPrefix",
   "if strings.HasPrefix(f.Name(), prefix) {",
   "call v.os.Rename => err",
   "if err == nil {",
   "break",
   "}",
   "}",
   "}",
   "if foundTrash == false {",
   "return",
   "}",
   "return"] := rfl

/-- prefix used by Untrash -/
theorem tie_untrashStrings : untrashStrings =
  ["readdir",
   "%v.trash."] := rfl

/-- EmptyTrash: no-op when BlobDeleteConcurrency < 1; keeps entries with deadline > Now().Unix() (Vol.emptyTrash) -/
theorem tie_emptyTrashConds : emptyTrashConds =
  ["if v.cluster.Collections.BlobDeleteConcurrency < 1",
   "if info.Mode().IsDir()",
   "if len(matches) != 3",
   "if err != nil",
   "if deadline > time.Now().Unix()",
   "if err != nil",
   "for i < v.cluster.Collections.BlobDeleteConcurrency",
   "if err != nil",
   "if !info.Mode().IsDir()",
   "if path == v.Root || blockDirRe.MatchString(info.Name())",
   "if err != nil"] := rfl

/-- EmptyTrash removes only paths matching unixTrashLocRegexp -/
theorem tie_emptyTrashCalls : emptyTrashCalls =
  ["unixTrashLocRegexp.FindStringSubmatch",
   "strconv.ParseInt",
   "v.os.Remove"] := rfl

/-- only <32 hex>.trash.<digits> names are trash entries; a block file name never matches -/
theorem tie_trashLocRe : trashLocRe =
  "/([0-9a-f]{32})\\.trash\\.(\\d+)$" := rfl

/-- Mtime = Stat by path (Race.stepT iMtime) -/
theorem tie_mtimeCalls : mtimeCalls =
  ["v.blockPath",
   "v.os.Stat",
   "fi.ModTime"] := rfl

/-- getFunc (Compare/Get): Serialize lock, Open, read (Race.stepP cLock, cOpen, cRead) -/
theorem tie_getFuncSkeleton : getFuncSkeleton =
  ["call v.lock => err",
   "if err != nil {",
   "return",
   "}",
   "defer",
   "call v.unlock",
   "call v.os.Open => f,err",
   "if err != nil {",
   "return",
   "}",
   "defer",
   "call f.Close",
   "call fn",
   "return"] := rfl

/-- TrashItem: skip when request mtime younger than TTL; mount lookup; skip on Mtime error; skip unless stored mtime == requested (ns); BlobTrash (C04.step trashItem, tiVol) -/
theorem tie_trashItemConds : trashItemConds =
  ["if time.Since(reqMtime) < cluster.Collections.BlobSigningTTL.Duration()",
   "if uuid == \"\"",
   "if mnt == nil",
   "if err != nil",
   "if trashRequest.BlockMtime != mtime.UnixNano()",
   "if !cluster.Collections.BlobTrash",
   "if err != nil"] := rfl

/-- TrashItem: AllWritable or Lookup(uuid, needWrite=true); Mtime; Trash -/
theorem tie_trashItemCalls : trashItemCalls =
  ["time.Since",
   "time.Since",
   "volmgr.AllWritable",
   "volmgr.Lookup",
   "volume.Mtime",
   "mtime.UnixNano",
   "mtime.UnixNano",
   "volume.Trash"] := rfl

/-- handleDELETE: 403 without system token, 405 when BlobTrash off, nil => copies_deleted, IsNotExist => skip, 404 when nothing found (C04.step delete) -/
theorem tie_deleteConds : deleteConds =
  ["if tok == \"\" || !rtr.canDelete(tok)",
   "if !rtr.cluster.Collections.BlobTrash",
   "if err == nil",
   "if os.IsNotExist(err)",
   "if result.Deleted == 0 && result.Failed == 0",
   "if err != nil"] := rfl

/-- handleDELETE trashes on AllWritable only -/
theorem tie_deleteCalls : deleteCalls =
  ["rtr.canDelete",
   "rtr.volmgr.AllWritable",
   "vol.Trash",
   "os.IsNotExist"] := rfl

/-- handleTOUCH: 401, 404 when no writable volume, first success wins, IsNotExist => 404 (C04.step touch) -/
theorem tie_touchHandlerConds : touchHandlerConds =
  ["if !rtr.isSystemAuth(GetAPIToken(req))",
   "if len(vols) == 0",
   "if err == nil",
   "case err == nil",
   "case os.IsNotExist(err)",
   "default"] := rfl

/-- handleTOUCH touches AllWritable in order -/
theorem tie_touchHandlerCalls : touchHandlerCalls =
  ["rtr.isSystemAuth",
   "rtr.volmgr.AllWritable",
   "mnt.Touch"] := rfl

/-- handleUntrash: 401, 404 when no writable volume or all not-found, else 200 (C04.step untrash) -/
theorem tie_untrashHandlerConds : untrashHandlerConds =
  ["if !rtr.isSystemAuth(GetAPIToken(req))",
   "if len(rtr.volmgr.AllWritable()) == 0",
   "if os.IsNotExist(err)",
   "if err != nil",
   "if numNotFound == len(rtr.volmgr.AllWritable())",
   "if len(failedOn) == len(rtr.volmgr.AllWritable())",
   "if len(failedOn) > 0"] := rfl

/-- handleUntrash untrashes on AllWritable -/
theorem tie_untrashHandlerCalls : untrashHandlerCalls =
  ["rtr.isSystemAuth",
   "rtr.volmgr.AllWritable",
   "rtr.volmgr.AllWritable",
   "vol.Untrash",
   "rtr.volmgr.AllWritable",
   "rtr.volmgr.AllWritable"] := rfl

/-- PutBlock: CompareAndTouch success/collision returns; otherwise NextWritable().Put, then every writable volume (C04.step put; Race.pFail) -/
theorem tie_putBlockSkeleton : putBlockSkeleton =
  ["if blockhash != hash {",
   "return",
   "}",
   "call CompareAndTouch => n,err",
   "if err == nil || err == CollisionError {",
   "return",
   "} else {",
   "if ctx.Err() != nil {",
   "return",
   "}",
   "}",
   "call volmgr.NextWritable => mnt",
   "if mnt != nil {",
   "call mnt.Put => err",
   "if err != nil {",
   "} else {",
   "return",
   "}",
   "}",
   "if ctx.Err() != nil {",
   "return",
   "}",
   "call volmgr.AllWritable => writables",
   "if len(writables) == 0 {",
   "return",
   "}",
   "for {",
   "call vol.Put => err",
   "if ctx.Err() != nil {",
   "return",
   "}",
   "case {",
   "return",
   "}",
   "case {",
   "continue",
   "}",
   "case {",
   "}",
   "}",
   "if allFull {",
   "return",
   "}",
   "return"] := rfl

/-- CompareAndTouch: per writable mount Compare; IsNotExist/other error => next; Touch error => next; both ok => done (compareAndTouch) -/
theorem tie_catSkeleton : catSkeleton =
  ["call volmgr.AllWritable",
   "for {",
   "call mnt.Compare => err",
   "if ctx.Err() != nil {",
   "return",
   "} else {",
   "if err == CollisionError {",
   "return",
   "} else {",
   "call os.IsNotExist",
   "if os.IsNotExist(err) {",
   "continue",
   "} else {",
   "if err != nil {",
   "continue",
   "}",
   "}",
   "}",
   "}",
   "call mnt.Touch => err",
   "if err != nil {",
   "continue",
   "}",
   "return",
   "}",
   "return"] := rfl

/-- the sweep runs EmptyTrash on the mounts it is given (command.go passes volmgr.writables: sweepVol skips read-only volumes) -/
theorem tie_emptyTrashLoopText : emptyTrashLoopText =
  "{ for range time.NewTicker(interval).C { for _, v := range mounts { v.EmptyTrash() } } }" := rfl

/-- round robin: counter+1 mod #writables (C04.step put: rr) -/
theorem tie_nextWritableText : nextWritableText =
  "{ if len(vm.writables) == 0 { return nil } i := atomic.AddUint32(&vm.counter, 1) return vm.writables[i%uint32(len(vm.writables))] }" := rfl

/-- Lookup(uuid, needWrite) refuses read-only mounts (tiSelected) -/
theorem tie_lookupText : lookupText =
  "{ if mnt, ok := vm.mountMap[uuid]; ok && (!needWrite || !mnt.ReadOnly) { return mnt } return nil }" := rfl

open ArvVerif.C04.Race in
/-- Touch's micro-steps carry the names of the calls of `touchSkeleton`, in that order -/
theorem tie_labels_touch : [PPC.tOpen, .tLock, .tFlock, .tChtimes].map labelP =
    ["Touch:v.os.OpenFile", "Touch:v.lock", "Touch:v.lockfile", "Touch:os.Chtimes"] := rfl

open ArvVerif.C04.Race in
/-- Trash's micro-steps: `trashSkeleton` order (lock, open, flock, stat, then Remove | Rename); TrashItem first calls Mtime -/
theorem tie_labels_trash : [TPC.iMtime, .dLock, .dOpen, .dFlock, .dStat, .dRemove, .dRename].map labelT =
    ["Mtime:v.os.Stat", "Trash:v.lock", "Trash:v.os.OpenFile", "Trash:v.lockfile", "Trash:v.os.Stat",
     "Trash:v.os.Remove", "Trash:v.os.Rename"] := rfl

open ArvVerif.C04.Race in
/-- Compare (stat + getFunc) and WriteBlock micro-steps: `getFuncSkeleton`, `writeBlockCalls` order -/
theorem tie_labels_put : [PPC.cStat, .cLock, .cOpen, .cRead, .wMkdir, .wTemp, .wLock, .wCopy, .wClose, .wChtimes, .wRename].map labelP =
    ["stat:v.os.Stat", "getFunc:v.lock", "getFunc:v.os.Open", "getFunc:ioutil.NopCloser",
     "WriteBlock:os.MkdirAll", "WriteBlock:v.os.TempFile", "WriteBlock:v.lock", "WriteBlock:io.Copy",
     "WriteBlock:tmpfile.Close", "WriteBlock:os.Chtimes", "WriteBlock:v.os.Rename"] := rfl

/-- the TTL comparison of the model is the one in `trashConds` / `trashItemConds`: keep iff now - mtime < TTL -/
theorem tie_young (c : ArvVerif.C04.Cfg) (now m : Nat) : ArvVerif.C04.young c now m = decide (now < m + c.ttl) := rfl

/-- the sweep condition of the model is the one in `emptyTrashConds`: an entry stays iff deadline > now (seconds) -/
theorem tie_sweep (c : ArvVerif.C04.Cfg) (now : Nat) (v : ArvVerif.C04.Vol) (h : ¬ c.conc < 1) :
    (v.emptyTrash c now).trash = v.trash.filter (fun e => decide (e.deadline > now / c.res)) := by
  simp [ArvVerif.C04.Vol.emptyTrash, h]

end ArvVerif.Tie.C04
