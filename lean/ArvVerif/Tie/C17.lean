/-
Tie for C17: source facts regenerated from /repo on every run (Gen/FactsC17.lean) equal what the
model (Model/C17.lean) was written against. An edit to the symlink limit, to the conditions or the
call structure of `Copy` / `walkMount` / `walkMountsBelow` / `walkHostFS` / `copyRegularFiles`, or to
the way paths are joined breaks one of these `rfl`s.
-/
import ArvVerif.Gen.FactsC17
import ArvVerif.Model.C17
namespace ArvVerif.Tie.C17
open ArvVerif.Facts.C17

/-- `const limitFollowSymlinks = 10` -/
theorem tie_limit : limitFollowSymlinks = (ArvVerif.C17.limitFollowSymlinks : Int) := rfl

/-- `Copy` starts the scan with the limit: `scan` calls `walk` with `limitFollowSymlinks + 1` follows -/
theorem tie_copy_assigns : copyAssigns =
    ["err := cp.walkMount(\"\", cp.ctrOutputDir, limitFollowSymlinks, true)",
     "fs, err := (&arvados.Collection{ManifestText: cp.manifest}).FileSystem(cp.client, cp.keepClient)",
     "err = fs.Mkdir(d, 0777)",
     "dir, _ := filepath.Split(f.dst)",
     "err := fs.Flush(\"/\"+lastparentdir, dir != lastparentdir)",
     "unflushed = 0",
     "lastparentdir = dir",
     "unflushed += n"] := rfl

/-- `Copy`: scan, load the extracted manifest, `Mkdir` every planned directory, copy every planned
file (flushing per directory), marshal (`runPlan`). -/
theorem tie_copy_calls : copyCalls =
    ["cp.walkMount", "fs.Mkdir", "fs.Flush", "cp.copyFile", "fs.MarshalManifest"] := rfl

/-- `os.ErrExist` from `Mkdir` is not an error (`mkdir`); the flush policy -/
theorem tie_copy_conds : copyConds =
    ["if err != nil", "if err != nil", "if err != nil && err != os.ErrExist",
     "if dir != lastparentdir || unflushed > keepclient.BLOCKSIZE", "if err != nil", "if err != nil"] := rfl

/-- `copyFile` opens the destination without truncation or `O_EXCL` (`copyFile`) -/
theorem tie_copyFile_open : copyFileOpen =
    ["dst, err := fs.OpenFile(f.dst, os.O_CREATE|os.O_WRONLY, 0666)",
     "src, err := os.Open(f.src)",
     "n, err := io.Copy(dst, src)"] := rfl

theorem tie_copyFile_skeleton : copyFileSkeleton =
    ["call fs.OpenFile => dst,err", "if err != nil {", "return", "}",
     "call os.Open => src,err", "if err != nil {", "call dst.Close", "return", "}", "defer",
     "call io.Copy => n,err", "if err != nil {", "call dst.Close", "return", "}",
     "call dst.Close", "return"] := rfl

/-- `walkMount`: the two prefix loops, "not in any mount", the kind switch (`walk … (.mount …)`) -/
theorem tie_walkMount_conds : walkMountConds =
    ["if len(root) > len(srcRoot) && strings.HasPrefix(src+\"/\", root+\"/\")",
     "if len(root) > len(srcRoot) && strings.HasPrefix(src+\"/\", root+\"/\")",
     "if srcRoot == \"\"",
     "case srcMount.ExcludeFromOutput",
     "case srcMount.Kind == \"tmp\"",
     "case srcMount.Kind != \"collection\"",
     "case !srcMount.Writable",
     "if err != nil", "default", "if err != nil", "if err != nil", "if err != nil",
     "if walkMountsBelow"] := rfl

theorem tie_walkMount_returns : walkMountReturns =
    ["nil",
     "fmt.Errorf(\"cannot output file %q: not in any mount\", src)",
     "cp.walkHostFS(dest, src, maxSymlinks, walkMountsBelow)",
     "fmt.Errorf(\"%q: unsupported mount %q in output (kind is %q)\", src, srcRoot, srcMount.Kind)",
     "err", "err", "err", "err",
     "cp.walkMountsBelow(dest, src, maxSymlinks)",
     "nil"] := rfl

/-- the path inside the collection is `Join(".", mount.Path, src[len(srcRoot):])` (`cleanRel`) and
the extracted text is appended to `cp.manifest` (`Plan.frags`) -/
theorem tie_walkMount_assigns : walkMountJoin =
    ["srcRoot, srcMount = root, mnt",
     "srcRelPath := filepath.Join(\".\", srcMount.Path, src[len(srcRoot):])",
     "cp.manifest += mft.Extract(srcRelPath, dest).Text",
     "cp.manifest += mft.Extract(srcRelPath, dest).Text"] := rfl

/-- `walkMountsBelow` (as fixed by f009595): the caller's budget capped at `belowMaxSymlinks`
(`min n (belowMaxSymlinks + 1)` in the model's `n = maxSymlinks + 1`), proper-prefix test,
`copyRegularFiles`, and the capped budget handed to `walkMount` -/
theorem tie_below_conds : walkMountsBelowConds =
    ["if maxSymlinks > 0", "if !strings.HasPrefix(mnt, src+\"/\")", "if cp.copyRegularFiles(mntinfo)",
     "if err != nil"] := rfl

theorem tie_below_call : walkMountsBelowArgs =
    ["maxSymlinks = 0", "err := cp.walkMount(dest+mnt[len(src):], mnt, maxSymlinks, false)"] := rfl

theorem tie_below_ints : walkMountsBelowInts =
    [(ArvVerif.C17.belowMaxSymlinks : Int), (ArvVerif.C17.belowMaxSymlinks : Int)] := rfl

/-- both callers hand over their own budget: `walkMount` (above, `tie_walkMount_returns`) and `walkHostFS` -/
theorem tie_walkHostFS_below_call : walkHostFSErrAssigns.head? =
    some "err := cp.walkMountsBelow(dest, src, maxSymlinks)" := rfl

/-- `walkHostFS`: conditions in source order (`walk … (.host …)` and `(.children …)`) -/
theorem tie_walkHostFS_conds : walkHostFSConds =
    ["if includeMounts", "if err != nil", "if err != nil",
     "if fi.Mode()&os.ModeSymlink != 0", "if maxSymlinks < 0", "if err != nil",
     "if !strings.HasPrefix(target, \"/\")",
     "if fi.Mode().IsDir()", "if dest != \"\"", "if err != nil", "if err != nil",
     "if len(names) == 0", "if dest != \"\"",
     "if isSecret", "if isMount && !cp.copyRegularFiles(mntinfo)", "if err != nil",
     "if fi.Mode().IsRegular()"] := rfl

/-- relative targets are joined to the link's directory and cleaned, absolute ones are used as
written; children are `dest/name`, `src/name`; an empty directory becomes `dest/.keep` from
`os.DevNull` -/
theorem tie_walkHostFS_assigns : walkHostFSAssigns =
    ["hostsrc := cp.hostOutputDir + src[len(cp.ctrOutputDir):]",
     "target, err := os.Readlink(hostsrc)",
     "target = filepath.Join(filepath.Dir(src), target)",
     "cp.dirs = append(cp.dirs, dest)",
     "cp.files = append(cp.files, filetodo{ src: os.DevNull, dst: dest + \"/.keep\", })",
     "dest, src := dest+\"/\"+name, src+\"/\"+name",
     "cp.files = append(cp.files, filetodo{ src: hostsrc, dst: dest, size: fi.Size(), })"] := rfl

theorem tie_walkHostFS_returns : walkHostFSReturns =
    ["err",
     "fmt.Errorf(\"lstat %q: %s\", src, err)",
     "errTooManySymlinks",
     "fmt.Errorf(\"readlink %q: %s\", src, err)",
     "cp.walkMount(dest, target, maxSymlinks-1, true)",
     "fmt.Errorf(\"open %q: %s\", src, err)",
     "fmt.Errorf(\"readdirnames %q: %s\", src, err)",
     "nil", "err", "nil", "nil",
     "fmt.Errorf(\"Unsupported file type (mode %o) in output dir: %q\", fi.Mode(), src)"] := rfl

/-- order of the steps of `walkHostFS`: mounts below first, then `Lstat`, symlink / directory
(sorted names, recursive call without mounts) / regular file / anything else is an error -/
theorem tie_walkHostFS_skeleton : walkHostFSSkeleton =
    ["if includeMounts {", "call cp.walkMountsBelow => err", "if err != nil {", "return", "}", "}",
     "call os.Lstat => fi,err", "if err != nil {", "return", "}",
     "if fi.Mode()&os.ModeSymlink != 0 {", "if maxSymlinks < 0 {", "return", "}",
     "call os.Readlink => target,err", "if err != nil {", "return", "}",
     "if !strings.HasPrefix(target, \"/\") {", "call filepath.Join => target", "call filepath.Dir", "}",
     "call cp.walkMount", "return", "}",
     "if fi.Mode().IsDir() {", "if dest != \"\" {", "}",
     "call os.Open => dir,err", "if err != nil {", "return", "}",
     "call dir.Readdirnames => names,err", "if err != nil {", "return", "}",
     "if len(names) == 0 {", "if dest != \"\" {", "}", "return", "}",
     "call sort.Strings", "for {", "if isSecret {", "continue", "}",
     "if isMount && !cp.copyRegularFiles(mntinfo) {", "continue", "}",
     "call cp.walkHostFS => err", "if err != nil {", "return", "}", "}", "return", "}",
     "if fi.Mode().IsRegular() {", "return", "}", "return"] := rfl

/-- `copyRegularFiles` (`copyRegular`) -/
theorem tie_copyRegular : copyRegularFilesText =
    "{ return m.Kind == \"text\" || m.Kind == \"json\" || (m.Kind == \"collection\" && m.Writable) }" := rfl

/-- the model's `copyRegular` is that predicate -/
theorem tie_copyRegular_model (m : ArvVerif.C17.Mount) :
    ArvVerif.C17.copyRegular m = (m.kind = "text" || m.kind = "json" || (m.kind = "collection" && m.writable)) := rfl

/-! ### code of other packages on the copier's path (also tied by C10 / C08) -/

/-- `manifest.Extract` (`manifestTextForPath`): single-file case first, then every stream equal to
`srcpath` or below `srcpath + "/"` — the component boundary that `extract` models as `isPrefixOf`
on component lists — relocated to `relocate + k[len(srcpath):]` -/
theorem tie_extract_conds : extractConds =
    ["if strings.HasSuffix(relocate, \"/\")", "if ok", "if okfile", "if relocateFilename == \"\"",
     "if strings.HasSuffix(relocate, \"/\")", "if strings.HasPrefix(k, prefix) || k == srcpath"] := rfl

theorem tie_extract_assigns : extractAssigns =
    ["relocate = fixStreamName(relocate) + suffix",
     "streamname, filename := splitPath(srcpath)",
     "relocateStream, relocateFilename := splitPath(relocate)",
     "relocateFilename = filename",
     "prefix := srcpath + \"/\"",
     "relocate = relocate[0 : len(relocate)-1]",
     "manifest := \"\"",
     "manifest += m[k].normalizedText(relocate + k[len(srcpath):])"] := rfl

/-- names travel through the manifest text unchanged (the model keeps names abstract): both
escapers escape the backslash -/
theorem tie_escapeName : escapeNameConds = ["if c <= 32 || c == '\\\\'"] := rfl

theorem tie_manifestEscape : manifestEscapeText =
    "{ return manifestEscapedChar.ReplaceAllStringFunc(s, manifestEscapeFunc) }" := rfl

theorem tie_manifestEscapedChar : manifestEscapedChar = "[\\000-\\040:\\s\\\\]" := rfl

/-- the collection filesystem's `Mkdir` reports an existing entry with the bare sentinel
`os.ErrExist`, which is what `Copy` compares with by identity (`tie_copy_conds`:
`err != nil && err != os.ErrExist`; the model's `mkdir` tolerates an existing entry) -/
theorem tie_fs_mkdir_returns : fsMkdirReturns = ["err", "err", "os.ErrExist", "", "", "err"] := rfl

/-- `commitBlock` (behind `Flush` / `MarshalManifest`): the background goroutine gives its Keep
writer slot back right after `PutB`, before it waits for the file locks that an asynchronous
`Flush` still holds (the model assumes `Flush`/`MarshalManifest` return) -/
theorem tie_commitBlock_slot : (commitBlockSkeleton.drop 17).take 9 =
    ["call dn.fs.throttle().Acquire", "call dn.fs.throttle", "go", "func {", "defer", "defer",
     "call dn.fs.PutB => locator,_,err", "call dn.fs.throttle().Release", "call dn.fs.throttle"] := rfl

end ArvVerif.Tie.C17
