/-
Tie for C05: source facts regenerated from /repo on every run (Gen/FactsC05.lean) equal what the
model in Model/C05.lean was written against. The branch conditions of balanceBlock (comparator
order, trySlot's three tests, the two passes, the `safe` loop, the wantDev loop, the final
underreplicated/unsafeToDelete test and the trash/lost/pull/stay switch, in source order), of
cleanupMounts, setupLookupTables and computeBlockState, the text of rendezvousLess, and the
JSON field names / field sources of Trash and Pull. An edit to any of them breaks an `rfl` here.
-/
import ArvVerif.Gen.FactsC05
import ArvVerif.Model.C05
import ArvVerif.Model.C05_Run
namespace ArvVerif.Tie.C05
open ArvVerif.Facts.C05

/-- every `if`/`for`/`case` condition of balanceBlock, in source order. Model counterparts:
`replicaOn`; `runClasses` (desired == 0); `less` (four key tests); `trySlot`, `protectStep`,
`wantStep`; `pass1`/`pass2`; `classIter` (underrep / `safeCount` / `wantDevMtimes`); `finalWant`;
`change`; `lostFlag`. The list is that of the code after the fix: commits for F1 (protDev, safeDev,
protDev in the multi-server loop), F2 (in-class test before counting), F12 (lost after the loop) and F05a (classes without a mount
table make the block under-replicated; lost ranges over blk.Desired). -/
theorem tie_balanceConds : balanceConds =
  ["if blk.Replicas[r].KeepMount == mnt",
   "if desired > 0 && bal.mountsByClass[class] == nil",
   "if desired == 0",
   "if classi != classj",
   "if si.want != sj.want",
   "if orderi != orderj",
   "if repli != replj",
   "if wantMnt[slot.mnt] || wantDev[slot.mnt.DeviceID]",
   "if replProt < desired && slot.repl != nil && !protMnt[slot.mnt]",
   "if bal.mountsByClass[class][slot.mnt] && !protDev[slot.mnt.DeviceID]",
   "if slot.mnt.DeviceID != \"\"",
   "if replWant < desired && (slot.repl != nil || !slot.mnt.ReadOnly)",
   "if slot.mnt.DeviceID != \"\"",
   "for i < len(slots) && !done",
   "if !wantSrv[slots[i].mnt.KeepService]",
   "for i < len(slots) && !done",
   "if !underreplicated",
   "if slot.repl == nil || !bal.mountsByClass[class][slot.mnt] || safeDev[slot.mnt.DeviceID]",
   "if slot.mnt.DeviceID != \"\"",
   "if safe >= desired",
   "if slot.repl != nil && (wantDev[slot.mnt.DeviceID] || protDev[slot.mnt.DeviceID])",
   "if slot.repl != nil && (underreplicated || unsafeToDelete[slot.repl.Mtime])",
   "case !slot.want && slot.repl != nil && slot.repl.Mtime < bal.MinMtime",
   "case slot.repl == nil && slot.want && len(blk.Replicas) == 0",
   "case slot.repl == nil && slot.want && !slot.mnt.ReadOnly",
   "case slot.repl != nil",
   "default",
   "if bal.Dumper != nil",
   "if slot.repl != nil",
   "if !lost && len(blk.Replicas) == 0",
   "if desired > 0",
   "if bal.Dumper != nil"] := rfl

/-- what each comparator branch and trySlot return (`less`, `trySlot`) -/
theorem tie_balanceReturns : balanceReturns =
  ["bal.mountsByClass[class][si.mnt]",
   "si.want",
   "orderi < orderj",
   "repli",
   "rendezvousLess(si.mnt.DeviceID, sj.mnt.DeviceID, blkid)",
   "false",
   "replProt >= desired && replWant >= desired",
   "balanceResult{ blk: blk, blkid: blkid, lost: lost, blockState: blockState, classState: classState, }"] := rfl

/-- the rendezvous order of servers is C12's sorter on the first 32 characters of the block id; one
sort per class; trySlot is called from exactly two loops; trash and pull are appended to the change
set of the slot's own service -/
theorem tie_balanceCalls : balanceCalls =
  ["keepclient.NewRootSorter(bal.serviceRoots, string(blkid[:32])).GetSortedRoots",
   "keepclient.NewRootSorter",
   "sort.Slice",
   "rendezvousLess",
   "trySlot",
   "trySlot",
   "computeBlockState",
   "computeBlockState",
   "slot.mnt.KeepService.AddTrash",
   "slot.mnt.KeepService.AddPull"] := rfl

/-- cleanupMounts (`rwDevs`, `cleanupMounts`, `fixRepl`) -/
theorem tie_cleanupConds : cleanupConds =
  ["if !mnt.ReadOnly && mnt.DeviceID != \"\"",
   "if mnt.ReadOnly && rwdev[mnt.DeviceID] != nil",
   "if mnt.Replication <= 0"] := rfl

/-- setupLookupTables (`effMount`, `classesOf`): a mount without classes goes to "default"; a class
seen for the first time is appended to `bal.classes`; the classes are sorted at the end. (The
read-only propagation is tied by `tie_setupAssigns`.) -/
theorem tie_setupConds : setupConds = ["if len(mnt.StorageClasses) == 0", "if mbc == nil"] := rfl
theorem tie_setupCalls : setupCalls = ["append", "sort.Strings"] := rfl
theorem tie_setupStrings : setupStrings = ["default", "default"] := rfl

/-- rendezvousLess: md5(hash ++ device id) compared bytewise (the driver's `devLess`) -/
theorem tie_rendezvousLess : rendezvousLessText =
  "{ a := md5.Sum([]byte(string(blkid[:32]) + i)) b := md5.Sum([]byte(string(blkid[:32]) + j)) return bytes.Compare(a[:], b[:]) < 0 }" := rfl

/-- computeBlockState (`computeBlockState`) -/
theorem tie_computeConds : computeConds =
  ["if onlyCount != nil && !onlyCount[slot.mnt]",
   "if countedDev[slot.mnt.DeviceID]",
   "case slot.repl != nil && slot.want",
   "case slot.repl != nil && !slot.want",
   "case slot.repl == nil && slot.want && have > 0",
   "if slot.mnt.DeviceID != \"\"",
   "if repl < needRepl"] := rfl

/-- the JSON field names of a trash request are the model's `trashFields` -/
theorem tie_trashFields :
    trashJSONStrings = ArvVerif.C05.trashFields.map (fun f => "json:\"" ++ f ++ "\"") := by decide

/-- the JSON field names of a pull request are the model's `pullFields` -/
theorem tie_pullFields :
    pullJSONStrings = ArvVerif.C05.pullFields.map (fun f => "json:\"" ++ f ++ "\"") := by decide

/-- the model's JSON rendering uses exactly these keys, in this order -/
theorem tie_trashJSON :
    (ArvVerif.C05.TrashReq.json ⟨['h'], 7, ['u']⟩) =
      "{" ++ ",".intercalate (List.zipWith (fun k v => "\"" ++ k ++ "\":" ++ v)
        ArvVerif.C05.trashFields ["\"h\"", "7", "\"u\""]) ++ "}" := by decide

theorem tie_pullJSON :
    (ArvVerif.C05.PullReq.json ⟨['h'], [['s']], ['u']⟩) =
      "{" ++ ",".intercalate (List.zipWith (fun k v => "\"" ++ k ++ "\":" ++ v)
        ArvVerif.C05.pullFields ["\"h\"", "[\"s\"]", "\"u\""]) ++ "}" := by decide

/-- field sources of a trash request: bare hash, the slot's observed mtime, the mount's UUID
(`trashReq`) -/
theorem tie_trashSources : trashJSONReturns =
  ["json.Marshal(KeepstoreTrashRequest{ Locator: string(t.SizedDigest[:32]), BlockMtime: t.Mtime, MountUUID: t.From.KeepMount.UUID, })"] := rfl

/-- field sources of a pull request (`pullReq`) -/
theorem tie_pullSources : pullJSONReturns =
  ["json.Marshal(KeepstorePullRequest{ Locator: string(p.SizedDigest[:32]), Servers: []string{p.From.URLBase()}, MountUUID: p.To.KeepMount.UUID, })"] := rfl

/-- every assignment of balanceBlock to its bookkeeping (slot construction with the initial `want`,
the replica attached to a slot, unsafeToDelete, the want/prot maps and counters, done, the safe loop,
underreplicated, the final want, lost), in source order. Model counterparts: `initSlots`,
`replicaOn`, `protectStep`, `wantStep`, `trySlot`, `pass1`/`pass2`, `safeCount`, `classIter`,
`finalSlot`, `lostFlag`. -/
theorem tie_balanceAssigns : balanceAssigns =
  ["slots := make([]slot, 0, bal.mounts)",
   "repl = &blk.Replicas[r]",
   "slots = append(slots, slot{ mnt: mnt, repl: repl, want: repl != nil && mnt.ReadOnly, })",
   "underreplicated := false",
   "underreplicated = true",
   "repli, replj := si.repl != nil, sj.repl != nil",
   "replWant := 0",
   "replProt := 0",
   "unsafeToDelete[slot.repl.Mtime] = true",
   "protMnt[slot.mnt] = true",
   "replProt += slot.mnt.Replication",
   "protDev[slot.mnt.DeviceID] = true",
   "slots[i].want = true",
   "wantSrv[slot.mnt.KeepService] = true",
   "wantMnt[slot.mnt] = true",
   "wantDev[slot.mnt.DeviceID] = true",
   "replWant += slot.mnt.Replication",
   "done := false",
   "done = trySlot(i)",
   "done = trySlot(i)",
   "safe := 0",
   "safeDev := map[string]bool{}",
   "safeDev[slot.mnt.DeviceID] = true",
   "safe += slot.mnt.Replication",
   "underreplicated = safe < desired",
   "unsafeToDelete[slot.repl.Mtime] = true",
   "slots[i].want = true",
   "lost = true",
   "lost = true"] := rfl

/-- setupLookupTables: default class table, read-only propagation from the service, class tables -/
theorem tie_setupAssigns : setupAssigns =
  ["bal.classes = defaultClasses",
   "bal.mountsByClass = map[string]map[*KeepMount]bool{\"default\": {}}",
   "mnt.ReadOnly = mnt.ReadOnly || srv.ReadOnly",
   "bal.mountsByClass[\"default\"][mnt] = true",
   "bal.classes = append(bal.classes, class)",
   "bal.mountsByClass[class] = map[*KeepMount]bool{mnt: true}",
   "mbc[mnt] = true"] := rfl

/-- cleanupMounts: rwdev, the kept mounts, replication forced to 1 -/
theorem tie_cleanupAssigns : cleanupAssigns =
  ["rwdev := map[string]*KeepService{}",
   "rwdev[mnt.DeviceID] = srv",
   "dedup = append(dedup, mnt)",
   "srv.mounts = dedup",
   "mnt.Replication = 1"] := rfl

/-- block_state.go `increaseDesired` (Model `increaseDesired`, `raiseDesired`): references are
tracked only while the block has no replica; no class listed = default; a class's desired level is
only ever raised -/
theorem tie_increaseConds : increaseConds =
  ["if pdh != \"\" && len(bs.Replicas) == 0",
   "if bs.Refs == nil",
   "if len(classes) == 0",
   "if bs.Desired == nil",
   "if !ok || d < n"] := rfl

theorem tie_increaseAssigns : increaseAssigns =
  ["bs.Refs = map[string]bool{}",
   "bs.Refs[pdh] = true",
   "bs.RefCount++",
   "classes = defaultClasses",
   "bs.Desired = map[string]int{class: n}",
   "d, ok := bs.Desired[class]",
   "bs.Desired[class] = n"] := rfl

/-- `addReplica` (Model `addReplica`): append, forget the references -/
theorem tie_addReplicaAssigns : addReplicaAssigns =
  ["bs.Replicas = append(bs.Replicas, r)", "bs.Refs = nil"] := rfl

/-- ComputeChangeSets: lookup tables, then balanceBlock for every block of the map, then the
statistics (the `cs` driver op runs exactly this) -/
theorem tie_computeCalls : computeCalls =
  ["bal.time(\"changeset_compute\", \"wall clock time to compute changesets\")",
   "bal.time",
   "bal.setupLookupTables",
   "bal.BlockStateMap.Apply",
   "bal.balanceBlock",
   "bal.collectStatistics"] := rfl

/-! ## the sweep around balanceBlock (Model/C05_Run.lean) -/

/-- sdk/go/arvados `KeepService.index`: the one place where an index timestamp is rescaled — below
1e12 it is taken to be in seconds and multiplied by 1e9 (Model `normMtime`, `secondsThreshold`,
`nsPerSecond`); the test sits between the ParseInt error check and the end-of-response checks. -/
theorem tie_indexMtime :
    indexAssigns = ["mtime, err := strconv.ParseInt(fields[1], 10, 64)", "mtime = mtime * 1e9"] ∧
    indexConds.filter (fun c => c != "if err != nil" && c != "if sawEOF" && c != "if !sawEOF" && c != "if line == \"\"" &&
        c != "for scanner.Scan()" && c != "if scanner.Err() != nil" && c != "if resp.StatusCode != 200") =
      ["if len(fields) != 2", "if mtime < 1e12"] ∧
    ArvVerif.C05.secondsThreshold = 10 ^ 12 ∧ ArvVerif.C05.nsPerSecond = 10 ^ 9 := by
  refine ⟨rfl, by decide, by decide, by decide⟩

/-- collection.go `EachCollection`: the attributes it selects are the model's `selectedAttrs`, and
whether `storage_classes_desired` is among the string literals of the function is the model's
`selClassesNow` (true since the fix: commit for F05b; before it keep-balance was never told the classes). -/
theorem tie_select :
    (ArvVerif.C05.selectedAttrs.all fun a => eachCollectionStrings.contains a) = true ∧
    eachCollectionStrings.contains "storage_classes_desired" = ArvVerif.C05.selClassesNow := by
  refine ⟨by decide, by decide⟩

/-- `GetCurrentState`: MinMtime = now − TTL (nanoseconds); default replication from the discovery
document; the equivMount bookkeeping (first mount seen for a non-blank device represents it, every
mount is appended to its representative's list — Model `delivered`'s `rep`); one IndexMount per
list, AddReplicas for every mount of the list; collections go through addCollection. -/
theorem tie_getState :
    getStateAssigns =
      ["bal.DefaultReplication = dd.DefaultCollectionReplication",
       "bal.MinMtime = time.Now().UnixNano() - dd.BlobSignatureTTL*1e9",
       "equivMount := map[*KeepMount][]*KeepMount{}",
       "equiv := deviceMount[mnt.DeviceID]",
       "equiv = mnt",
       "deviceMount[mnt.DeviceID] = equiv",
       "equivMount[equiv] = append(equivMount[equiv], mnt)"] ∧
    getStateCalls = ["mounts[0].KeepService.IndexMount", "bal.BlockStateMap.AddReplicas", "bal.addCollection",
      "EachCollection"] ∧
    getStateConds.filter (fun c => c != "if err != nil" && c != "if len(errs) > 0" && c != "if err != nil || len(errs) > 0") =
      ["if equiv == nil", "if mnt.DeviceID != \"\""] := by
  refine ⟨rfl, rfl, by decide⟩

/-- `addCollection` (Model `collOp`): replication_desired or the cluster default; the pdh is passed on
only when a lost-blocks file is written; one IncreaseDesired for the blocks of the manifest. -/
theorem tie_addCollection :
    addCollectionAssigns =
      ["blkids, err := coll.SizedDigests()", "repl := bal.DefaultReplication", "repl = *coll.ReplicationDesired",
       "pdh := \"\"", "pdh = coll.PortableDataHash"] ∧
    addCollectionConds = ["if err != nil", "if coll.ReplicationDesired != nil", "if bal.LostBlocksFile != \"\""] ∧
    addCollectionCalls = ["coll.SizedDigests", "bal.BlockStateMap.IncreaseDesired"] := by
  refine ⟨rfl, rfl, rfl⟩

/-- `Run`: the commit options guard ClearTrashLists, CommitPulls and CommitTrash (Model `clearCount`,
`sentList`), in this order; `CheckSanityLate` (Model `sanityLate`) tests collections scanned, any
desired > 0, default replication ≥ 1 in this order; what is PUT is the service's own change set. -/
theorem tie_run :
    runConds.filter (fun c => c != "if err != nil" && c != "if lbFile != nil" && c != "if bal.LostBlocksFile != \"\"" &&
        c != "if runOptions.SafeRendezvousState != \"\"") =
      ["if runOptions.CommitTrash && rs != runOptions.SafeRendezvousState", "if runOptions.CommitPulls",
       "if runOptions.CommitTrash"] ∧
    sanityLateConds = ["if bal.errors != nil", "if bal.collScanned == 0", "if desired > 0", "if !anyDesired", "if dr < 1"] ∧
    commitTrashReturns = ["srv.put(ctx, c, \"trash\", srv.ChangeSet.Trashes)"] ∧
    commitPullsReturns = ["srv.put(ctx, c, \"pull\", srv.ChangeSet.Pulls)"] := by
  refine ⟨by decide, rfl, rfl, rfl⟩

end ArvVerif.Tie.C05
