/-
C15 tie: the regenerated source facts (Gen/FactsC15.lean, extracted from the current /repo tree on
every run) equal what the response model (Model/C15.lean) assumes. Each theorem names the model
definition it pins down. A change of a threshold, of a comparison's strictness, of a guard or of the
order of the calls breaks the corresponding `rfl`/`decide`.
-/
import ArvVerif.Gen.FactsC15
import ArvVerif.Model.C15
import ArvVerif.Model.C15_Glue
import ArvVerif.Model.C15_Tick
namespace ArvVerif.Tie.C15
open ArvVerif.Facts.C15

/-- `shutdownIfBroken`: Hold never; threshold by state; `dur < threshold` keeps the worker (so
`dur ≥ threshold` shuts it down) — `C15.shutdownIfBroken`, `C15.brokenThreshold`. -/
theorem shutdownIfBroken_conds : shutdownIfBrokenConds =
    ["if wkr.idleBehavior == IdleBehaviorHold",
     "if wkr.state == StateUnknown || wkr.state == StateBooting",
     "if dur < threshold"] := rfl

theorem shutdownIfBroken_thresholds : shutdownIfBrokenAssigns =
    ["label, threshold := \"\", wkr.wp.timeoutProbe",
     "label, threshold = \"new \", wkr.wp.timeoutBooting"] := rfl

theorem shutdownIfBroken_skeleton : shutdownIfBrokenSkeleton =
    ["if wkr.idleBehavior == IdleBehaviorHold {", "return", "}",
     "if wkr.state == StateUnknown || wkr.state == StateBooting {", "}",
     "if dur < threshold {", "return", "}",
     "call wkr.shutdown", "return"] := rfl

/-- `eligibleForShutdown` (C14 `Worker.eligibleForShutdown` with `C15.idleTimedOut`): the
comparison with timeoutIdle is `>=`. -/
theorem eligible_conds : eligibleConds =
    ["if wkr.idleBehavior == IdleBehaviorHold", "switch wkr.state", "case StateBooting", "case StateIdle",
     "case StateRunning", "if !draining", "if !rr.givenup", "if !rr.givenup", "default"] := rfl

theorem eligible_returns : eligibleReturns =
    ["false", "draining", "draining || time.Since(wkr.busy) >= wkr.wp.timeoutIdle",
     "false", "false", "false", "true", "false"] := rfl

/-- `shutdownIfIdle` = `if eligibleForShutdown() { shutdown() }`. -/
theorem shutdownIfIdle_skeleton : shutdownIfIdleSkeleton =
    ["call wkr.eligibleForShutdown", "if !wkr.eligibleForShutdown() {", "return", "}",
     "call wkr.shutdown", "return"] := rfl

/-- `setIdleBehavior` stores the behaviour and then calls `shutdownIfIdle` (C14
`Worker.setIdleBehavior`). -/
theorem setIdleBehavior_shape :
    setIdleBehaviorAssigns = ["wkr.idleBehavior = idleBehavior"] ∧
    setIdleBehaviorCalls = ["wkr.saveTags", "wkr.shutdownIfIdle"] := ⟨rfl, rfl⟩

/-- `shutdown()` stamps `updated` and `destroyed`, sets StateShutdown and calls `Destroy` (the
driver's `d=` count; `C15.poolSync`'s second component). -/
theorem shutdown_shape :
    shutdownAssigns = ["wkr.updated = now", "wkr.destroyed = now", "wkr.state = StateShutdown"] ∧
    shutdownCalls = ["wkr.instance.Destroy"] := ⟨rfl, rfl⟩

/-- `onUnkillable`: nothing for Hold, else `setIdleBehavior(Drain)` — `C15.onUnkillable`. -/
theorem onUnkillable_shape :
    onUnkillableConds = ["if wkr.idleBehavior == IdleBehaviorHold"] ∧
    onUnkillableSkeleton = ["defer", "if wkr.idleBehavior == IdleBehaviorHold {", "return", "}",
                            "call wkr.setIdleBehavior"] := ⟨rfl, rfl⟩

/-- `onKilled` → `closeRunner` (the `sigOk` branch of `C15.killRun`). -/
theorem onKilled_calls : onKilledCalls = ["wkr.closeRunner"] := rfl

/-- The guards of `probeAndUpdate` that `C15.mkProbe` and C14's `Worker.probeApply` encode. -/
theorem probeAndUpdate_guards :
    "case StateShutdown" ∈ probeAndUpdateConds ∧
    "if booted || wkr.state == StateUnknown" ∈ probeAndUpdateConds ∧
    "if reportedBroken && wkr.idleBehavior == IdleBehaviorRun" ∈ probeAndUpdateConds ∧
    "if !ok || (!booted && len(ctrUUIDs) == 0 && len(wkr.running) == 0)" ∈ probeAndUpdateConds ∧
    "if wkr.state == StateShutdown && wkr.updated.After(updated)" ∈ probeAndUpdateConds ∧
    "if wkr.shutdownIfBroken(dur)" ∈ probeAndUpdateConds ∧
    "if updated != wkr.updated" ∈ probeAndUpdateConds := by decide

/-- Order inside `probeAndUpdate`: boot probe, run probe, drain on "broken", then the failed-probe
branch with `shutdownIfBroken`, then `updateRunning`. -/
theorem probeAndUpdate_call_order :
    probeAndUpdateSkeleton.filter (fun s => (["call wkr.probeBooted => booted,stderr", "call wkr.probeRunning => ctrUUIDs,reportedBroken,ok",
     "call wkr.setIdleBehavior", "call wkr.shutdownIfBroken", "call wkr.updateRunning => changed"] : List String).contains s) =
    ["call wkr.probeBooted => booted,stderr", "call wkr.probeRunning => ctrUUIDs,reportedBroken,ok",
     "call wkr.setIdleBehavior", "call wkr.shutdownIfBroken", "call wkr.updateRunning => changed"] := by decide

/-- `probeRunning`: the "broken" and "stale" lines and the strict `dur > timeoutStaleRunLock` —
`C15.staleBroken`, `C15.staleAfter`. -/
theorem probeRunning_conds : probeRunningConds =
    ["if u != \"root\"", "if err != nil", "if s == \"\"", "if s == \"broken\"", "if len(toks) == 1",
     "if toks[1] == \"stale\"", "if !staleRunLock", "if wkr.staleRunLockSince.IsZero()",
     "if dur > wkr.wp.timeoutStaleRunLock"] := rfl

theorem probeRunning_command : " --list" ∈ probeRunningStrings ∧ "broken" ∈ probeRunningStrings ∧
    "stale" ∈ probeRunningStrings := by decide

/-- `runProbes`: a worker is skipped when already Shutdown or when `shutdownIfIdle()` fires,
otherwise probed — `C15.probeTick`. -/
theorem runProbes_shape :
    runProbesConds = ["if maxPPS < 1", "if wkr.state == StateShutdown || wkr.shutdownIfIdle()", "if !ok"] ∧
    runProbesCalls = ["wkr.shutdownIfIdle", "wkr.ProbeAndUpdate"] := ⟨rfl, rfl⟩

/-- `runSync` lists the instances and re-arms its timer. -/
theorem runSync_calls : runSyncCalls = ["wp.getInstancesAndSync", "timer.Reset"] := rfl

/-- `Pool.sync`: the retry is for an *existing* worker in StateShutdown whose `destroyed` stamp is
strictly older than timeoutShutdown; a worker survives iff updated after the threshold —
`C15.syncStep`, `C15.retryOf`, `C15.poolSync`. -/
theorem poolSync_conds : poolSyncConds =
    ["if !ok", "if isNew",
     "if wkr.state == StateShutdown && time.Since(wkr.destroyed) > wp.timeoutShutdown",
     "if wkr.updated.After(threshold)", "if wp.mDisappearances != nil",
     "if wp.mTimeFromShutdownToGone != nil && !wkr.destroyed.IsZero()", "if !wp.loaded", "if notify"] := rfl

theorem poolSync_retry_shape :
    poolSyncSkeleton.take 13 =
    ["defer", "for {", "if !ok {", "continue", "}", "call wp.updateWorker => wkr,isNew", "if isNew {",
     "} else {", "if wkr.state == StateShutdown && time.Since(wkr.destroyed) > wp.timeoutShutdown {",
     "call wkr.shutdown", "}", "}", "}"] := by decide

/-- `StartContainer` considers only Idle workers in run mode of the requested type. -/
theorem startContainer_conds : startContainerPoolConds =
    ["if w.instType == it && w.state == StateIdle && w.idleBehavior == IdleBehaviorRun",
     "if wkr == nil || w.busy.After(wkr.busy)", "if wkr == nil"] := rfl

/-- `remoteRunner.Kill`: second call is a no-op; per tick: closed → return; strictly after the TERM
deadline → `givenup = true; onUnkillable`; otherwise SIGTERM — `C15.killRun`. -/
theorem kill_shape :
    killConds = ["if rr.stopping", "case rr.isClosed()", "case time.Now().After(termDeadline)", "default"] ∧
    killAssigns = ["rr.stopping = true", "termDeadline := time.Now().Add(rr.timeoutTERM)",
                   "t := time.NewTicker(rr.timeoutSignal)", "rr.givenup = true"] ∧
    killSkeleton = ["if rr.stopping {", "return", "}", "go", "func {",
                    "call time.Now().Add => termDeadline", "call time.NewTicker => t", "defer", "for {",
                    "call rr.isClosed", "case {", "return", "}",
                    "call time.Now().After", "case {", "call rr.onUnkillable", "return", "}",
                    "case {", "call rr.kill", "}", "}", "}"] := ⟨rfl, rfl, rfl⟩

/-- `kill(sig)`: `onKilled` only when the remote command succeeded. -/
theorem killCmd_skeleton : killCmdSkeleton =
    ["if rr.remoteUser != \"root\" {", "}", "call rr.executor.Execute => stdout,stderr,err",
     "if err != nil {", "return", "}", "call rr.onKilled"] := rfl

/-- `fixStaleLocks`: loop while a worker is Unknown; `stale` recomputed per iteration from Locked
entries not in `Running()`; return when empty; wait for pool notification or timeout; unlock the
last `stale` — `C15.fslRun`, `C14.staleLocks`. -/
theorem fixStaleLocks_shape :
    fixStaleLocksConds = ["for sch.pool.CountWorkers()[worker.StateUnknown] > 0",
                          "if ent.Container.State != arvados.ContainerStateLocked", "if running",
                          "if len(stale) == 0", "if err != nil"] ∧
    fixStaleLocksAssigns = ["stale = nil", "stale = append(stale, uuid)"] ∧
    fixStaleLocksSkeleton.filter (fun s => (["call sch.pool.Subscribe => wp", "call sch.pool.Unsubscribe", "call time.NewTimer => timeout",
       "call sch.pool.CountWorkers", "call sch.pool.Running => running",
       "call sch.queue.Entries => qEntries,_", "call sch.queue.Unlock => err"] : List String).contains s) =
    ["call sch.pool.Subscribe => wp", "call sch.pool.Unsubscribe", "call time.NewTimer => timeout",
       "call sch.pool.CountWorkers", "call sch.pool.Running => running",
       "call sch.queue.Entries => qEntries,_", "call sch.queue.Unlock => err"] := ⟨rfl, rfl, by decide⟩

/-- `uuidLock` re-arms the scheduler's wake-up timer exactly in the refused branch —
`C15.asyncEffectW`. -/
theorem uuidLock_wakeup : uuidLockSkeleton =
    ["defer", "if locked {", "call sch.wakeup.Reset", "return", "}", "return"] := rfl

/-- The scheduler's main loop: queue polled by a ticker goroutine; `fixStaleLocks` once; then
`runQueue; sync` on every queue/pool notification or wake-up (the fair actions of P2). -/
theorem schedRun_calls :
    schedRunSkeleton.filter (fun s => (["call sch.queue.Update => err", "call sch.queue.Update => err", "call time.NewTicker => poll",
     "call sch.queue.Update => err", "call sch.fixStaleLocks", "call sch.pool.Subscribe => poolNotify",
     "call sch.queue.Subscribe => queueNotify", "call sch.runQueue", "call sch.sync"] : List String).contains s) =
    ["call sch.queue.Update => err", "call sch.queue.Update => err", "call time.NewTicker => poll",
     "call sch.queue.Update => err", "call sch.fixStaleLocks", "call sch.pool.Subscribe => poolNotify",
     "call sch.queue.Subscribe => queueNotify", "call sch.runQueue", "call sch.sync"] := by decide

/-- `sync`'s guards for the two "process died" responses: cancel a Running container that is on
no worker only when no worker is Unknown; requeue a Locked one whose process exited before the
last queue update (C14 `syncEntry`). -/
theorem sync_response_guards :
    "if !anyUnknownWorkers" ∈ syncConds ∧
    "if !exited.IsZero() && qUpdated.After(exited)" ∈ syncConds ∧
    "if running && !exited.IsZero() && qUpdated.After(exited)" ∈ syncConds := by decide

/-- `cancel` / `requeue`: latch, then the queue call. -/
theorem cancel_requeue_shape :
    cancelSkeleton = ["call sch.uuidLock", "if !sch.uuidLock(uuid, \"cancel\") {", "return", "}", "defer",
                      "call sch.uuidUnlock", "call sch.queue.Cancel => err", "if err != nil {", "}"] ∧
    requeueSkeleton = ["call sch.uuidLock", "if !sch.uuidLock(uuid, \"requeue\") {", "return", "}", "defer",
                       "call sch.uuidUnlock", "call sch.queue.Unlock => err", "if err != nil {", "}"] := ⟨rfl, rfl⟩

/-- `Pool.Create`: refused at quota or while throttled; the background goroutine registers the
deletion of the pending entry (`defer delete(wp.creating, secret)`) directly after the cloud call
returns — before any error is looked at — so every outcome removes it; a quota error sets
`atQuotaUntil`; success calls `updateWorker` — `C15.CPool.call`, `C15.CPool.ret`. -/
theorem create_skeleton : createSkeleton =
    ["if wp.loadRunnerData() != nil {", "return", "}", "defer",
     "call time.Now().Before", "call wp.instanceSet.throttleCreate.Error",
     "if time.Now().Before(wp.atQuotaUntil) || wp.instanceSet.throttleCreate.Error() != nil {", "return", "}",
     "if wp.maxConcurrentInstanceCreateOps > 0 && len(wp.creating) >= wp.maxConcurrentInstanceCreateOps {",
     "call wp.instanceSet.throttleCreate.ErrorUntil", "return", "}",
     "go", "func {", "defer", "call wp.notify", "call wp.instanceSet.Create => inst,err",
     "defer", "defer", "call delete",
     "if err != nil {", "if ok && err.IsQuotaError() {", "call time.AfterFunc", "}",
     "call wp.instanceSet.throttleCreate.CheckRateLimitError", "return", "}",
     "call wp.updateWorker", "}", "return"] := rfl

theorem create_assigns : createAssigns =
    ["wp.creating[secret] = createCall{time: now, instanceType: it}", "wp.atQuotaErr = err",
     "wp.atQuotaUntil = time.Now().Add(quotaErrorTTL)"] := rfl

/-- `Unallocated` skips Shutdown, Running, non-run-mode and busy workers and adds the pending
Create calls — `C15.CPool.unallocated`, `Inst.unallocReal` of the liveness system. -/
theorem unallocated_conds : unallocatedConds =
    ["if !ok || t.After(cc.time)",
     "if wkr.state == StateShutdown || wkr.state == StateRunning || wkr.idleBehavior != IdleBehaviorRun || len(wkr.running) > 0",
     "if wkr.state == StateUnknown && creating[it] > 0 && wkr.appeared.After(oldestCreate[it])"] := rfl

/-- `shutdown()` has no guard: calling it again on a worker that is already in StateShutdown issues
another `Destroy` (this is how `Pool.sync` retries). -/
theorem shutdown_unguarded : shutdownSkeleton =
    ["go", "go", "func {", "call wkr.instance.Destroy => err", "if err != nil {", "return", "}", "}"] := rfl

/-- `startContainer`'s completion closure is guarded: it leaves alone a runner that is no longer the one
in `wkr.starting` (adopted or dropped meanwhile) — `C15.RW.startDone`; fix of finding F15a. -/
theorem startContainer_closure_guarded :
    startContainerConds = ["if wkr.state != StateRunning", "if wkr.wp.mTimeFromQueueToCrunchRun != nil",
                           "if wkr.starting[ctr.UUID] != rr"] ∧
    startContainerAssigns = ["wkr.starting[ctr.UUID] = rr", "wkr.state = StateRunning", "wkr.updated = now",
                             "wkr.busy = now", "wkr.running[ctr.UUID] = rr", "wkr.lastUUID = ctr.UUID"] := ⟨rfl, rfl⟩

/-- `runSync`: after `getInstancesAndSync()` — failed or not; the `if err != nil` block only logs, it has
no `continue`/`return` — the timer is re-armed: `C15.runSyncIter`. `getInstancesAndSync` fails while the
list throttle holds off or when `Instances()` fails, otherwise runs `Pool.sync`. -/
theorem runSync_skeleton :
    runSyncSkeleton = ["call time.NewTimer => timer", "for {", "case {", "call wp.getInstancesAndSync => err",
                       "if err != nil {", "}", "call timer.Reset", "}", "case {", "return", "}", "}"] ∧
    getInstancesAndSyncSkeleton =
      ["call wp.instanceSet.throttleInstances.Error => err", "if err != nil {", "return", "}",
       "call wp.instanceSet.Instances => instances,err", "if err != nil {",
       "call wp.instanceSet.throttleInstances.CheckRateLimitError", "return", "}", "call wp.sync", "return"] :=
  ⟨rfl, rfl⟩

/-- `reportSSHConnected` returns at once when the instance has no worker in the pool (fix of finding
F15b; `C15.reportSSHConnected`). -/
theorem reportSSHConnected_guarded : reportSSHConnectedConds =
    ["if wkr == nil", "if wkr.state != StateBooting || !wkr.firstSSHConnection.IsZero()",
     "if wp.mTimeToSSH != nil"] := rfl

/-- `saveTags` merges the two managed tags into the instance's own tag map (`tags[k] = v`) and writes
that whole map back (`SetTags(tags)`), only when something differs — `C15.saveTags`. -/
theorem saveTags_shape :
    saveTagsAssigns = ["tags := instance.Tags()",
      "update := cloud.InstanceTags{ wkr.wp.tagKeyPrefix + tagKeyInstanceType: wkr.instType.Name, wkr.wp.tagKeyPrefix + tagKeyIdleBehavior: string(wkr.idleBehavior), }",
      "save := false", "tags[k] = v", "save = true"] ∧
    saveTagsConds = ["if tags[k] != v", "if save", "if err != nil"] ∧
    setTagsLines = ["err := instance.SetTags(tags)"] := ⟨rfl, rfl, rfl⟩

/-- `worker.Close()`: `defer wkr.executor.Close()` is registered first, before the mutex is taken and
`defer wkr.mtx.Unlock()`, so it runs last, after the unlock — `C15.workerClose`. -/
theorem workerClose_shape :
    workerCloseCalls = ["wkr.executor.Close", "wkr.mtx.Lock", "wkr.mtx.Unlock", "rr.Close", "rr.Close"] ∧
    workerCloseSkeleton = ["defer", "call wkr.executor.Close", "call wkr.mtx.Lock", "defer",
                           "call wkr.mtx.Unlock", "for {", "}", "for {", "}"] := ⟨rfl, rfl⟩

/-- The quota back-off is a fixed minute (why quota scenarios get a longer deadline). -/
theorem quota_ttl : "quotaErrorTTL = time.Minute" ∈ poolTimeConsts := by decide

/-- `probeRunning` classifies the lines as C14's `parseProbe` does (used by `C15.probeOfLines`): the only
thing ever appended to `running` is a whole single-token line; a `"<uuid> stale"` line sets the stale-run-lock
flag and nothing else (`C15_resp_dead_process_detected`, `C15_resp_stale_not_adopted`; seeded change C15-g also
counted it as running). -/
theorem probeRunning_assigns : probeRunningAssigns =
    ["ok = true", "staleRunLock := false", "reportsBroken = true", "running = append(running, s)",
     "staleRunLock = true", "wkr.staleRunLockSince = time.Time{}", "wkr.staleRunLockSince = time.Now()",
     "reportsBroken = true"] := rfl

theorem probeRunning_skeleton : probeRunningSkeleton =
    ["if u != \"root\" {", "}", "if err != nil {", "return", "}",
     "call strings.Split", "for {",
     "if s == \"\" {", "} else {", "if s == \"broken\" {", "} else {",
     "call strings.Split => toks", "if len(toks) == 1 {", "call append => running", "} else {",
     "if toks[1] == \"stale\" {", "}", "}", "}", "}", "}",
     "defer",
     "if !staleRunLock {", "} else {", "if wkr.staleRunLockSince.IsZero() {", "} else {",
     "if dur > wkr.wp.timeoutStaleRunLock {", "}", "}", "}", "return"] := rfl

/-- Every goroutine body releases the latch on every path: `defer sch.uuidUnlock(uuid)` is the statement
directly after the refused-latch return, before any other return (`C15.runBody`, `C15_resp_latch_released`;
seeded change C15-h released it by hand after `queue.Lock` and missed the early return). `cancel` and `requeue`
are pinned by `cancel_requeue_shape`. -/
theorem lockContainer_skeleton : lockContainerSkeleton =
    ["call sch.uuidLock", "if !sch.uuidLock(uuid, \"lock\") {", "return", "}",
     "defer", "call sch.uuidUnlock",
     "call sch.queue.Get => ctr,ok", "if !ok || ctr.State != arvados.ContainerStateQueued {", "return", "}",
     "call sch.queue.Lock => err", "if err != nil {", "return", "}",
     "call sch.queue.Get => ctr,ok", "if !ok {", "} else {",
     "if ctr.State != arvados.ContainerStateLocked {", "}", "}"] := rfl

theorem kill_skeleton : killSchedSkeleton =
    ["call sch.uuidLock", "if !sch.uuidLock(uuid, \"kill\") {", "return", "}",
     "defer", "call sch.uuidUnlock", "call sch.pool.KillContainer", "call sch.pool.ForgetContainer"] := rfl

/-- `uuidUnlock` deletes the entry (C14 `uuidUnlock`). -/
theorem uuidUnlock_deletes : uuidUnlockCalls = ["delete"] := rfl

/-- `Pool.runProbes` is the loop `for range probeticker.C { … }` over a `time.Ticker` (`C15.Driven` over
`C15.periodic`): first `shutdownIfIdle` of every worker, then a probe of every worker not shut down; the only
way out is `wp.stop`. -/
theorem runProbes_skeleton : runProbesSkeleton =
    ["if maxPPS < 1 {", "}", "call time.NewTicker => limitticker", "defer",
     "call time.NewTicker => probeticker", "defer",
     "for {",
     "for {", "call wkr.shutdownIfIdle", "if wkr.state == StateShutdown || wkr.shutdownIfIdle() {", "continue", "}", "}",
     "for {", "if !ok {", "continue", "}", "go", "call wkr.ProbeAndUpdate",
     "case {", "return", "}", "case {", "}", "}",
     "}"] := rfl

/-- `Scheduler.run` (`C15.schedRun`, `C15_no_pass_before_recovery`): first queue update (retried until it
succeeds), the poll goroutine `for range poll.C { queue.Update() }` over a ticker, `fixStaleLocks`, the two
subscriptions, then for ever `runQueue; sync; select` — the only `return` is the stop case. -/
theorem schedRun_skeleton : schedRunSkeleton =
    ["defer", "call sch.queue.Update => err", "for {", "if d < time.Second {", "}", "call sch.queue.Update => err", "}",
     "call time.NewTicker => poll", "defer",
     "go", "func {", "for {", "call sch.queue.Update => err", "if err != nil {", "}", "}", "}",
     "call sch.fixStaleLocks",
     "call sch.pool.Subscribe => poolNotify", "defer", "call sch.queue.Subscribe => queueNotify", "defer",
     "for {", "call sch.runQueue", "call sch.sync",
     "case {", "return", "}", "case {", "}", "case {", "}", "case {", "}", "}"] := rfl

/-- `dispatcher.run` (`C15.dispRun`, `C15_shutdown_order`): the deferred calls are registered in the order
close(stopped), instanceSet.Stop, pool.Stop, … sched.Stop — so they run scheduler first, `stopped` last. -/
theorem dispRun_skeleton : dispRunSkeleton =
    ["defer", "call close", "defer", "call disp.instanceSet.Stop", "defer", "call disp.pool.Stop",
     "if staleLockTimeout == 0 {", "}", "if pollInterval <= 0 {", "}",
     "call scheduler.New => sched", "call sched.Start", "defer", "call sched.Stop"] := rfl

end ArvVerif.Tie.C15
