/-
Tie for C02: source facts regenerated from the /repo working tree on every run (Gen/FactsC02.lean)
equal what the model was written against. The ordered FS-call skeletons are tied twice: here
(translator `calls_in_func` / `skeleton_in_func`) and at run time (the instrumenter's points.json is
sent to the model driver as a `points` case and every observed point sequence is compared with the
model's).
-/
import ArvVerif.Gen.FactsC02
import ArvVerif.Model.C02
namespace ArvVerif.Tie.C02
open ArvVerif.Facts.C02 ArvVerif.C02

/-- IndexTo lists only names matching this pattern (Model.isBlockName: exactly 32 characters, all of [0-9a-f]) -/
theorem tie_blockFileRe : blockFileRe =
  "^[0-9a-f]{32}$" := rfl

/-- IndexTo / EmptyTrash descend only into directories matching this pattern (Model.isBlockDir) -/
theorem tie_blockDirRe : blockDirRe =
  "^[0-9a-f]+$" := rfl

/-- EmptyTrash's trash-name pattern (Model.isTrashName: 32 hex, ".trash.", one or more decimal digits, to the end) -/
theorem tie_trashLocRe : trashLocRe =
  "/([0-9a-f]{32})\\.trash\\.(\\d+)$" := rfl

/-- control skeleton of WriteBlock: every filesystem call, the `if err != nil { … Remove …; return }` block after each, the final `return` (Model.writeBlockEvs is written against exactly this) -/
theorem tie_writeBlockSkel : writeBlockSkel =
  ["if v.volume.ReadOnly {",
   "return",
   "}",
   "call v.IsFull",
   "if v.IsFull() {",
   "return",
   "}",
   "call os.MkdirAll => err",
   "if err != nil {",
   "return",
   "}",
   "call v.os.TempFile => tmpfile,tmperr",
   "if tmperr != nil {",
   "return",
   "}",
   "call v.lock => err",
   "if err != nil {",
   "return",
   "}",
   "defer",
   "call v.unlock",
   "call io.Copy => n,err",
   "call v.os.stats.TickOutBytes",
   "if err != nil {",
   "call tmpfile.Close",
   "call v.os.Remove",
   "call tmpfile.Name",
   "return",
   "}",
   "call tmpfile.Close => err",
   "if err != nil {",
   "call tmpfile.Name",
   "call v.os.Remove",
   "call tmpfile.Name",
   "return",
   "}",
   "call v.os.stats.TickOps",
   "call v.os.stats.Tick",
   "call os.Chtimes => err",
   "call tmpfile.Name",
   "if err != nil {",
   "call tmpfile.Name",
   "call v.os.Remove",
   "call tmpfile.Name",
   "return",
   "}",
   "call v.os.OpenFile => oldf,err",
   "if err == nil {",
   "defer",
   "call v.lockfile => err",
   "if err != nil {",
   "call v.os.Remove",
   "call tmpfile.Name",
   "return",
   "}",
   "defer",
   "call v.unlockfile",
   "}",
   "call v.os.Rename => err",
   "call tmpfile.Name",
   "if err != nil {",
   "call tmpfile.Name",
   "call v.os.Remove",
   "call tmpfile.Name",
   "return",
   "}",
   "return"] := rfl

/-- what WriteBlock returns on each path: nil only at the very end -/
theorem tie_writeBlockReturns : writeBlockReturns =
  ["MethodDisabledError",
   "FullError",
   "fmt.Errorf(\"error creating directory %s: %s\", bdir, err)",
   "fmt.Errorf(\"TempFile(%s, tmp%s) failed: %s\", bdir, loc, tmperr)",
   "err",
   "err",
   "err",
   "err",
   "fmt.Errorf(\"error locking %s: %s\", bpath, err)",
   "err",
   "nil"] := rfl

/-- the temp file is created in the block's directory under the name "tmp"+loc+<random suffix>; the block path is blockPath(loc) (Model.tmpName / tmpPath / blockPath) -/
theorem tie_writeBlockTemp : writeBlockTemp =
  ["bdir := v.blockDir(loc)",
   "tmpfile, tmperr := v.os.TempFile(bdir, \"tmp\"+loc)",
   "bpath := v.blockPath(loc)"] := rfl

/-- control skeleton of Trash (Model.trashEvs) -/
theorem tie_trashSkel : trashSkel =
  ["if v.volume.ReadOnly || !v.cluster.Collections.BlobTrash {",
   "return",
   "}",
   "call v.lock => err",
   "if err != nil {",
   "return",
   "}",
   "defer",
   "call v.unlock",
   "call v.os.OpenFile => f,err",
   "if err != nil {",
   "return",
   "}",
   "defer",
   "call v.lockfile => e",
   "if e != nil {",
   "return",
   "}",
   "defer",
   "call v.unlockfile",
   "call v.os.Stat => fi,err",
   "if err != nil {",
   "return",
   "} else {",
   "call time.Since",
   "if time.Since(fi.ModTime()) < v.cluster.Collections.BlobSigningTTL.Duration() {",
   "return",
   "}",
   "}",
   "if v.cluster.Collections.BlobTrashLifetime == 0 {",
   "call v.os.Remove",
   "return",
   "}",
   "call v.os.Rename",
   "return"] := rfl

/-- the trash name format (Model.trashName) -/
theorem tie_trashStrings : trashStrings =
  ["%v.trash.%d"] := rfl

/-- Untrash's prefix test (Model.isTrashLike / untrashEvs) -/
theorem tie_untrashStrings : untrashStrings =
  ["readdir",
   "%v.trash.",
   "utimes",
   "Untrash(%s): block restored, but updating its timestamp failed"] := rfl

/-- Untrash renames the first entry with that prefix and stops at the first success (Model.untrashEvs) -/
theorem tie_untrashConds : untrashConds =
  ["if v.volume.ReadOnly",
   "if err != nil",
   "if len(files) == 0",
   "if strings.HasPrefix(f.Name(), prefix)",
   "if err == nil",
   "if tserr != nil",
   "if foundTrash == false"] := rfl

/-- EmptyTrash: regexp must match with 2 groups, deadline must have passed, walk descends into hex-named directories only (Model.emptyTrashVictims) -/
theorem tie_emptyTrashConds : emptyTrashConds =
  ["if v.cluster.Collections.BlobDeleteConcurrency < 1",
   "if info.Mode().IsDir()",
   "if len(matches) != 3",
   "if err != nil",
   "if deadline > time.Now().Unix()",
   "if err != nil",
   "for i < v.cluster.Collections.BlobDeleteConcurrency",
   "if err != nil",
   "if !info.Mode().IsDir()",
   "if path == v.Root || blockDirRe.MatchString(info.Name())",
   "if err != nil"] := rfl

/-- IndexTo's filters (Model.index) -/
theorem tie_indexConds : indexConds =
  ["if err != nil",
   "if err == io.EOF",
   "if err != nil",
   "if !strings.HasPrefix(names[0], prefix) && !strings.HasPrefix(prefix, names[0])",
   "if !blockDirRe.MatchString(names[0])",
   "if err != nil",
   "if err == io.EOF",
   "if err != nil",
   "if !strings.HasPrefix(name, prefix)",
   "if !blockFileRe.MatchString(name)",
   "if err != nil"] := rfl

/-- blockDir = <root>/<loc[0:3]> (Model.blockDir) -/
theorem tie_blockDirText : blockDirText =
  "{ return filepath.Join(v.Root, loc[0:3]) }" := rfl

/-- blockPath = blockDir/<loc> (Model.blockPath) -/
theorem tie_blockPathText : blockPathText =
  "{ return filepath.Join(v.blockDir(loc), loc) }" := rfl

/-- GET reads blockPath(loc) (Model.getBlock) -/
theorem tie_readBlockCalls : readBlockCalls =
  ["v.blockPath",
   "v.stat",
   "v.translateError",
   "v.getFunc"] := rfl

/-- putWithPipe, structural facts instead of the whole text (Model.PStep: the pipe is closed with the error
chosen by the first select; that error is nil only when it came from copyErr or putErr):
every assignment to `err` (the three select branches, then the final `<-putErr`) … -/
theorem tie_putWithPipeErrAssigns : putWithPipeErrAssigns =
  ["err = <-copyErr", "err = <-putErr", "err = ctx.Err()", "err = <-putErr"] := rfl

/-- … the pipe writer is closed in exactly one place, with that `err` (`PStep.close`; a plain `pipew.Close()` or
`CloseWithError(nil)` would make the writer see EOF after a prefix) … -/
theorem tie_pipeWriterCloseLines : pipeWriterCloseLines = ["go pipew.CloseWithError(err)"] := rfl

/-- … and what putWithPipe returns: the first select's error, the context's error, or WriteBlock's result;
its only `if` is `err != nil` (the control skeleton below fixes the order of all of these). -/
theorem tie_putWithPipeReturns : putWithPipeReturns = ["err", "ctx.Err()", "err"] ∧
    putWithPipeConds = ["if err != nil"] := ⟨rfl, rfl⟩

/-- putWithPipe's skeleton -/
theorem tie_putWithPipeSkel : putWithPipeSkel =
  ["call io.Pipe => piper,pipew",
   "go",
   "func {",
   "call io.Copy => _,err",
   "}",
   "go",
   "func {",
   "call bw.WriteBlock",
   "}",
   "case {",
   "}",
   "case {",
   "}",
   "call ctx.Done",
   "case {",
   "call ctx.Err => err",
   "}",
   "go",
   "call pipew.CloseWithError",
   "go",
   "call io.Copy",
   "if err != nil {",
   "return",
   "}",
   "call ctx.Done",
   "case {",
   "call ctx.Err",
   "return",
   "}",
   "case {",
   "return",
   "}"] := rfl

/-- handlePUT: every error path returns before resp.Write; PutBlock is called before the reply; the buffer goes back to the pool exactly once on every path (Model.handlePut) -/
theorem tie_handlePutSkel : handlePutSkel =
  ["defer",
   "if req.ContentLength == -1 {",
   "call http.Error",
   "return",
   "}",
   "if req.ContentLength > BlockSize {",
   "call http.Error",
   "return",
   "}",
   "if len(rtr.volmgr.AllWritable()) == 0 {",
   "call http.Error",
   "return",
   "}",
   "call getBufferWithContext => buf,err",
   "if err != nil {",
   "call http.Error",
   "return",
   "}",
   "call io.ReadFull => _,err",
   "if err != nil {",
   "call http.Error",
   "call bufs.Put",
   "return",
   "}",
   "call PutBlock => replication,err",
   "call bufs.Put",
   "if err != nil {",
   "if ok {",
   "}",
   "call http.Error",
   "return",
   "}",
   "if rtr.cluster.Collections.BlobSigningKey != \"\" && apiToken != \"\" {",
   "}",
   "call resp.Write"] := rfl

/-- PutBlock: checksum, CompareAndTouch, NextWritable().Put, then every writable volume (Model.handlePut / attemptsEvs) -/
theorem tie_putBlockSkel : putBlockSkel =
  ["call md5.Sum",
   "if blockhash != hash {",
   "return",
   "}",
   "call CompareAndTouch => n,err",
   "if err == nil || err == CollisionError {",
   "return",
   "} else {",
   "if ctx.Err() != nil {",
   "return",
   "}",
   "}",
   "call volmgr.NextWritable => mnt",
   "if mnt != nil {",
   "call mnt.Put => err",
   "if err != nil {",
   "} else {",
   "return",
   "}",
   "}",
   "if ctx.Err() != nil {",
   "return",
   "}",
   "call volmgr.AllWritable => writables",
   "if len(writables) == 0 {",
   "return",
   "}",
   "for {",
   "call vol.Put => err",
   "if ctx.Err() != nil {",
   "return",
   "}",
   "case {",
   "return",
   "}",
   "case {",
   "continue",
   "}",
   "case {",
   "}",
   "}",
   "if allFull {",
   "return",
   "}",
   "return"] := rfl

/-- UnixVolume.Put goes through putWithPipe -/
theorem tie_unixPutText : unixPutText =
  "{ return putWithPipe(ctx, loc, block, v) }" := rfl

/-- calls that only tick statistics counters; they are excluded from instrumentation (-exclude) -/
def statsCalls : List String :=
  ["v.os.stats.TickOutBytes", "v.os.stats.TickOps", "v.os.stats.Tick", "v.os.stats.TickErr"]

def fsCalls (l : List String) : List String := l.filter (fun c => !statsCalls.contains c)

/-- The ordered FS-call skeleton of WriteBlock — MkdirAll, TempFile, io.Copy, [Close, Remove],
Close, [Remove], Chtimes, [Remove], OpenFile(bpath), lockfile, [Remove], unlockfile, Rename, [Remove] — is the list the model numbers its points by. -/
theorem tie_writeBlockCalls : fsCalls writeBlockCalls = skeleton .writeBlock := by decide
theorem tie_touchCalls : fsCalls touchCalls = skeleton .touch := by decide
theorem tie_trashCalls : fsCalls trashCalls = skeleton .trash := by decide
theorem tie_untrashCalls : fsCalls untrashCalls = skeleton .untrash := by decide
theorem tie_emptyTrashCalls :
    emptyTrashCalls = ["unixTrashLocRegexp.FindStringSubmatch", "v.os.Remove", "blockDirRe.MatchString"] ∧
    fsCalls (emptyTrashCalls.filter (fun c => c == "v.os.Remove")) = skeleton .emptyTrash := by decide

/-- UnixVolume.Compare, whole text (tiny function): stat, then read-and-compare under getFunc;
nothing else — in particular no call that changes the volume (Model.compareEvs: no-effect events) -/
theorem tie_compareText : compareText =
  "{ path := v.blockPath(loc) if _, err := v.stat(path); err != nil { return v.translateError(err) } return v.getFunc(ctx, path, func(rdr io.Reader) error { return compareReaderWithBuf(ctx, rdr, expect, loc[:32]) }) }" := rfl

/-- CompareAndTouch: the context is checked right after Compare, before anything else is done with
its result; Touch only after a nil Compare (Model.handlePut `compareCancelled`, Model.putCore) -/
theorem tie_compareAndTouchSkel : compareAndTouchSkel =
  ["for {",
   "call mnt.Compare => err",
   "call ctx.Err",
   "if ctx.Err() != nil {",
   "call ctx.Err",
   "return",
   "} else {",
   "if err == CollisionError {",
   "return",
   "} else {",
   "call os.IsNotExist",
   "if os.IsNotExist(err) {",
   "continue",
   "} else {",
   "if err != nil {",
   "continue",
   "}",
   "}",
   "}",
   "}",
   "call mnt.Touch => err",
   "if err != nil {",
   "continue",
   "}",
   "return",
   "}",
   "return"] := rfl

theorem tie_getFuncCalls : fsCalls getFuncCalls = skeleton .getFunc := by decide
theorem tie_statCalls : fsCalls statCalls = skeleton .stat := by decide

/-- osWithStats.TempFile, whole text (tiny function): the temp file is created by ioutil.TempFile,
i.e. O_EXCL with a random suffix, so two writers never share a temp file (the `sfx ≠` hypothesis
of C02_concurrent_writes_atomic; Model.createTemp) -/
theorem tie_tempFileText : tempFileText =
  "{ o.stats.TickOps(\"create\") o.stats.Tick(&o.stats.CreateOps) f, err := ioutil.TempFile(dir, base) o.stats.TickErr(err) return f, err }" := rfl

/-- compareReaderWithBuf: a match is reported only at EOF with nothing left to compare; more bytes
than expected, or EOF before all expected bytes, go to collisionOrCorrupt (Model.putCore: Touch only
when the stored bytes EQUAL the request body) -/
theorem tie_compareBufConds : compareBufConds =
  ["if bufLen > len(expect) && len(expect) > 0",
   "if n > len(cmp) || bytes.Compare(cmp[:n], buf[:n]) != 0",
   "if err == io.EOF",
   "if len(cmp) != 0",
   "if err != nil"] := rfl
theorem tie_compareBufReturns : compareBufReturns =
  ["ctx.Err()",
   "collisionOrCorrupt(hash, expect[:len(expect)-len(cmp)], buf[:n], rdr)",
   "collisionOrCorrupt(hash, expect[:len(expect)-len(cmp)], nil, nil)",
   "nil",
   "err"] := rfl

/-- the literals the model's names are built from -/
theorem tie_tmpPrefix : tmpPrefix = "tmp".toList := by decide
theorem tie_trashInfix : trashInfix = ".trash.".toList := by decide

/-- PUT, GET, TOUCH, DELETE and untrash are only routed for 32-hex hashes (Model.handlePut's
`isBlockName` guard, `Op.evs`) -/
theorem tie_routes : routes.take 10 =
    ["/{hash:[0-9a-f]{32}}", "GET", "HEAD", "/{hash:[0-9a-f]{32}}+{hints}", "GET", "HEAD",
     "/{hash:[0-9a-f]{32}}", "PUT", "/{hash:[0-9a-f]{32}}", "DELETE"] ∧
    routes.contains "/untrash/{hash:[0-9a-f]{32}}" = true ∧
    (routes.drop 16).take 2 = ["/{hash:[0-9a-f]{32}}", "TOUCH"] := by decide

/-! ### several volumes (Model/C02_MV.lean) -/

/-- `writables` = the mounts that are not ReadOnly; every mount is readable; all three lists in the
same (mount) order (Model.MVCfg.writables) -/
theorem tie_mkVolMgr :
    mkVolMgrAppends = ["vm.mounts = append(vm.mounts, mnt)", "vm.readables = append(vm.readables, mnt)",
      "vm.writables = append(vm.writables, mnt)"] ∧
    mkVolMgrConds.getLast? = some "if !mnt.KeepMount.ReadOnly" := by decide

/-- NextWritable: round robin over `writables` (Model.putBlockMV: `ws[next % ws.length]?`, nil when empty) -/
theorem tie_nextWritableText : nextWritableText =
  "{ if len(vm.writables) == 0 { return nil } i := atomic.AddUint32(&vm.counter, 1) return vm.writables[i%uint32(len(vm.writables))] }" := rfl

theorem tie_allWritableReadable : allWritableText = "{ return vm.writables }" ∧ allReadableText = "{ return vm.readables }" :=
  ⟨rfl, rfl⟩

/-- GetBlock: every readable volume in order; an error or a checksum mismatch ⇒ next volume; the first
good copy is returned (Model.getBlockOver) -/
theorem tie_getBlockSkel : getBlockSkel =
  ["call volmgr.AllReadable", "for {", "call vol.Get => size,err", "case {", "return", "}", "case {", "}",
   "if err != nil {", "if !os.IsNotExist(err) {", "}", "if err == VolumeBusyError {", "}", "continue", "}",
   "call md5.Sum", "if filehash != hash {", "continue", "}", "if errorToCaller == DiskHashError {", "}",
   "return", "}", "return"] := by decide

/-- GET /index: IndexTo of every readable mount, one after the other (Model.indexMV) -/
theorem tie_handleIndexSkel : handleIndexSkel =
  ["if !rtr.isSystemAuth(GetAPIToken(req)) {", "return", "}", "if prefix == \"\" {", "}", "if uuid == \"\" {",
   "call rtr.volmgr.AllReadable => vols", "} else {", "call rtr.volmgr.Lookup => mnt", "if mnt == nil {", "return",
   "} else {", "}", "}", "for {", "call v.IndexTo => err", "if err != nil {", "return", "}", "}"] := by decide

end ArvVerif.Tie.C02
