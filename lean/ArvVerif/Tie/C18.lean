/-
Tie for C18: source facts regenerated from /repo on every run (Gen/FactsC18.lean) equal what the
model (Model/C18.lean) was written against. An edit to one of the regexps, to the `+A` → `+R<id>-`
replacement, to the acceptance test of CollectionGet, to the local-then-remotes loop, to
rewriteSignatures' scan/compare skeleton or to the fan-out's use of it breaks one of these.
-/
import ArvVerif.Gen.FactsC18
import ArvVerif.Model.C18
namespace ArvVerif.Tie.C18
open ArvVerif.Facts.C18

/-- rewriteManifest: the token regexp (Model: `locPrefix`, `linePart` of the space-delimited tokens
after the first; `[^ \\n]` since fix d80c6cd)
and the literal pieces of the replacement (Model: `replaceSig`). -/
theorem tie_rewriteManifest_literals :
    rewriteManifestStrings = [" [0-9a-f]{32}\\+[^ \\n]*", "+A", "+R", "-"] := rfl

theorem tie_rewriteManifest_calls : rewriteManifestCalls =
    ["regexp.MustCompile(` [0-9a-f]{32}\\+[^ \\n]*`).ReplaceAllStringFunc", "regexp.MustCompile", "strings.Replace"] := rfl

/-- the model's replacement of one `+A` is built from exactly these literals -/
theorem tie_replacement (id : List Char) :
    ArvVerif.C18.replaceSig id (rewriteManifestStrings.getD 1 "").toList =
      (rewriteManifestStrings.getD 2 "").toList ++ id ++ (rewriteManifestStrings.getD 3 "").toList := by
  simp [rewriteManifestStrings, ArvVerif.C18.replaceSig]

/-- PortableDataHash: token and block regexps (Model: `pdhText`, `sizedLen`, `stripTok`), the
output format (Model: `pdh`), and the call skeleton. -/
theorem tie_tokRe : tokRe = " ?[^ ]*" := rfl
theorem tie_blkRe : blkRe = "^ [0-9a-f]{32}\\+\\d+" := rfl
theorem tie_pdh_format : pdhStrings = ["%x+%d"] := rfl
theorem tie_pdh_skeleton : pdhCalls = ["md5.New", "tokRe.ReplaceAllFunc", "blkRe.Find", "h.Write"]
    ∧ pdhConds = ["if m != nil", "if err != nil"] := ⟨rfl, rfl⟩

/-- SignedLocatorRe (Model: `parseSigned`, `isHintPart`, `isSigPart`). -/
theorem tie_signedLocatorRe : signedLocatorRe =
    "^([[:xdigit:]]{32})(\\+[0-9]+)?((\\+[B-Z][A-Za-z0-9@_-]*)*)(\\+A([[:xdigit:]]{40})@([[:xdigit:]]{8}))((\\+[B-Z][A-Za-z0-9@_-]*)*)$" := rfl

/-- the signature part the model accepts has the length the regexp demands: A + 40 + @ + 8 -/
theorem tie_sigPart_length : ArvVerif.C18.isSigPart
    ("A0123456789abcdefABCDEF0123456789abcdef01@5e0000aF".toList) = true := by decide

/-- Conn.CollectionGet: branch on a 27-character id, rewrite by-UUID answers of other clusters,
hash test `pdh != UUID && !HasPrefix(UUID, pdh+"+")`, rewrite only for remote answers
(Model: `collectionGet`, `getByUUID`, `fnOutcome`, `pdhOK`). -/
theorem tie_collectionGet_conds : collectionGetConds =
    ["if len(options.UUID) == 27",
     "if err == nil && options.UUID[:5] != conn.cluster.ClusterID",
     "if err != nil",
     "if pdh != options.UUID && !strings.HasPrefix(options.UUID, pdh+\"+\")",
     "if remoteID != \"\"",
     "if err != nil"] := rfl

theorem tie_collectionGet_calls : collectionGetCalls =
    ["conn.chooseBackend(options.UUID).CollectionGet", "conn.chooseBackend", "rewriteManifest",
     "conn.tryLocalThenRemotes", "be.CollectionGet", "arvados.PortableDataHash", "httpErrorf", "rewriteManifest"] := rfl

theorem tie_collectionGet_ints : collectionGetInts = [27, 5, 5, 1] := rfl

/-- The closure of CollectionGet shares nothing with the closures of the other backends or with
the caller except the one-slot channel `first`: every assignment in the function (targets other
than `err…`) is to a variable declared inside the closure or before the fan-out starts, the
rewrite with the answering remote's own id sits inside the closure *before* the `select` that
offers the collection, and what is returned is what was taken from `first`
(Model: `fnOutcome` rewrites with `rid` before `firstAccept`; `collectionGetAnyOrder`). -/
theorem tie_collectionGet_assigns : collectionGetAssigns =
    ["c, err := conn.chooseBackend(options.UUID).CollectionGet(ctx, options)",
     "c.ManifestText = rewriteManifest(c.ManifestText, options.UUID[:5])",
     "first := make(chan arvados.Collection, 1)",
     "remoteOpts := options",
     "remoteOpts.ForwardedFor = conn.cluster.ClusterID + \"-\" + options.ForwardedFor",
     "c, err := be.CollectionGet(ctx, remoteOpts)",
     "pdh := arvados.PortableDataHash(c.ManifestText)",
     "c.ManifestText = rewriteManifest(c.ManifestText, remoteID)"] := rfl

theorem tie_collectionGet_skeleton : collectionGetSkeleton =
    ["if len(options.UUID) == 27 {",
     "call conn.chooseBackend(options.UUID).CollectionGet => c,err", "call conn.chooseBackend",
     "if err == nil && options.UUID[:5] != conn.cluster.ClusterID {", "call rewriteManifest => c.ManifestText", "}",
     "return", "}",
     "call conn.tryLocalThenRemotes => err",
     "func {",
     "call be.CollectionGet => c,err", "if err != nil {", "return", "}",
     "call arvados.PortableDataHash => pdh",
     "if pdh != options.UUID && !strings.HasPrefix(options.UUID, pdh+\"+\") {", "return", "}",
     "if remoteID != \"\" {", "call rewriteManifest => c.ManifestText", "}",
     "case {", "return", "}", "case {", "return", "}",
     "}",
     "if err != nil {", "return", "}",
     "return"] := rfl

theorem tie_collectionGet_returns : collectionGetReturns =
    ["c, err", "err", "err", "nil", "nil", "arvados.Collection{}, err", "<-first, nil"] := rfl

/-- tryLocalThenRemotes: local first; return unless 404 and not forwarded; one result per remote;
first nil wins; 404 only if all were 404, else 502 (Model: `getByPDH`, `recvLoop`). -/
theorem tie_try_conds : tryConds =
    ["if err == nil || errStatus(err) != http.StatusNotFound || forwardedFor != \"\"",
     "for i < cap(errchan)", "if err == nil", "if all404"] := rfl

theorem tie_try_returns : tryReturns =
    ["err", "nil", "notFoundError{}", "httpErrorf(http.StatusBadGateway, \"errors: %v\", errs)"] := rfl

theorem tie_try_assigns : tryAssigns =
    ["ctx, cancel := context.WithCancel(ctx)", "errchan := make(chan error, len(conn.remotes))",
     "all404 := true", "all404 = all404 && errStatus(err) == http.StatusNotFound"] := rfl

/-- federation.Conn holds the cluster configuration and its backends and nothing else: no cache,
no memory of earlier answers (Model: `collectionGetSeq` = every request answered like the first) -/
theorem tie_conn_fields : connFields =
    ["cluster *arvados.Cluster", "local backend", "remotes map[string]backend"] := rfl

/-- chooseBackend (Model: `chooseBackend`) and errStatus (Model: `cancelledStatus` = 500 for
errors without an HTTP status). -/
theorem tie_chooseBackend : chooseBackendConds =
    ["if len(id) == 27", "if len(id) != 5", "if id == conn.cluster.ClusterID", "if ok"] := rfl

theorem tie_errStatus : errStatusText =
    "{ if httpErr, ok := err.(interface{ HTTPStatus() int }); ok { return httpErr.HTTPStatus() } return http.StatusInternalServerError }" := rfl

/-- legacy rewriteSignatures: guards in order (Model: `rewriteSignatures`, `legacyScan`), the
output and hash formats (Model: `Signed.rewritten`, `Signed.hashSize`), the submatch indices. -/
theorem tie_legacy_conds : legacyConds =
    ["if requestError != nil", "if resp.StatusCode != http.StatusOK", "if err != nil", "for scanner.Scan()",
     "if len(tokens) < 3", "if err != nil", "if err != nil", "if m != nil", "if err != nil", "if err != nil",
     "if err != nil", "if err != nil", "if expectHash == \"\"", "if expectHash != col.PortableDataHash",
     "if computedHash != expectHash", "if err != nil"] := rfl

theorem tie_legacy_strings : legacyStrings =
    [" ", "Invalid stream (<3 tokens): %q", "Error updating manifest: %v", " ", "Error updating manifest: %v",
     "%s%s%s+R%s-%s%s", "Error updating manifest: %v", "%s%s", "Error updating manifest: %v",
     "Error updating manifest: %v", "\n", "Error updating manifest: %v", "",
     "portable_data_hash %q on returned record did not match expected hash %q ", "%x+%v",
     "Computed manifest_text hash %q did not match expected hash %q", "Content-Length", "%v"] := rfl

theorem tie_legacy_ints : legacyInts = [0, 0, 1048576, 3, 0, 1, 1, 2, 3, 5, 2, 8, 1, 2] := rfl

theorem tie_legacy_calls : legacyCalls =
    ["md5.New", "io.MultiWriter", "bufio.NewScanner", "strings.Split", "mw.Write", "mw.Write",
     "keepclient.SignedLocatorRe.FindStringSubmatch", "fmt.Fprintf", "fmt.Fprintf", "mw.Write", "mw.Write"] := rfl

/-- legacy fan-out: local first, 404 filtered, every remote's 200 goes through rewriteSignatures
before it can be forwarded; 404 only if every collected error is an HTTP 404
(Model: `legacyFanOut`, `legacyOutcome`). -/
theorem tie_fanout_calls : fanoutCalls =
    ["h.handler.localClusterRequest", "filterLocalClusterResponse", "h.handler.proxy.ForwardResponse",
     "h.handler.remoteClusterRequest", "rewriteSignatures", "h.handler.proxy.ForwardResponse"] := rfl

theorem tie_fanout_conds : fanoutConds =
    ["if effectiveMethod != \"GET\"", "if len(m) != 2", "if newResp != nil || err != nil",
     "if remoteID == h.handler.Cluster.ClusterID", "if remoteID == \"*\"", "if resp != nil && !wasSuccess",
     "if err != nil", "if resp.StatusCode != http.StatusOK", "if err != nil", "for len(errorChan) > 0",
     "if !ok || httperr.Code != http.StatusNotFound"] := rfl

/-- the expected hash handed to rewriteSignatures is the one taken from the request path, the
error code starts at 404 and only ever becomes 502 (Model: `legacyFetchByPDH`, `legacyFanOut`) -/
theorem tie_fanout_assigns : fanoutAssigns =
    ["sharedContext, cancelFunc := context.WithCancel(req.Context())", "pdh := m[1]",
     "success := make(chan *http.Response)",
     "errorChan := make(chan error, len(h.handler.Cluster.RemoteClusters))", "wasSuccess := false",
     "newResponse, err := rewriteSignatures(remote, pdh, resp, nil)", "wasSuccess = true",
     "errorCode := http.StatusNotFound", "errorCode = http.StatusBadGateway"] := rfl

theorem tie_fanout_returns : fanoutReturns =
    ["false", "false", "true", "", "", "", "", "", "true", "true", "true"] := rfl

/-- legacy by-UUID delegate: GET only, a UUID present, prefix `uuid[0:5]` not the own cluster; then
the remote's response goes through `rewriteSignatures(<prefix>, "", …)` (no expected hash) and is
forwarded; an unconfigured prefix is an HTTPError 404 from `remoteClusterRequest`
(Model: `legacyFetchByUUID`). -/
theorem tie_byUUID_skeleton : byUUIDSkeleton =
    ["if effectiveMethod != \"GET\" {", "return", "}",
     "if uuid != \"\" {",
     "if *clusterID != \"\" && *clusterID != h.handler.Cluster.ClusterID {",
     "call h.handler.remoteClusterRequest => resp,err",
     "call rewriteSignatures => newResponse,err",
     "call h.handler.proxy.ForwardResponse",
     "return", "}", "}", "return"] := rfl

theorem tie_byUUID_assigns : byUUIDAssigns =
    ["*clusterID = uuid[0:5]",
     "resp, err := h.handler.remoteClusterRequest(*clusterID, req)",
     "newResponse, err := rewriteSignatures(*clusterID, \"\", resp, err)"] ∧ byUUIDInts = [0, 5] := ⟨rfl, rfl⟩

theorem tie_remoteRequest : remoteRequestConds = ["if !ok", "if scheme == \"\"", "if err != nil", "if remote.Insecure"]
    ∧ remoteRequestReturns =
      ["nil, HTTPError{fmt.Sprintf(\"no proxy available for cluster %v\", remoteID), http.StatusNotFound}",
       "nil, err", "h.proxy.Do(saltedReq, urlOut, client)"] := ⟨rfl, rfl⟩

theorem tie_filterLocal : filterLocalText =
    "{ if requestError != nil { return resp, requestError } if resp.StatusCode == http.StatusNotFound { return nil, nil } return resp, nil }" := rfl

theorem tie_collectionsByPDHRe : collectionsByPDHRe = "^/arvados/v1/collections/([0-9a-fA-F]{32}\\+[0-9]+)+$" := rfl

end ArvVerif.Tie.C18
