/-
Tie for C09: source facts regenerated from /repo on every run (Gen/FactsC09.lean) equal what the
model in Model/C09.lean / C09_FS.lean was written against: the literals, branch conditions,
bookkeeping assignments and control skeleton of dirnode.marshalManifest, dirnode.flush,
dirnode.commitBlock (PutB error returned before any segment is replaced), filenode.pruneMemSegments
(failure leaves the mem segment), contextGroup.Go/Wait (first error wins and cancels), the throttle,
sortedNames, Sync, and the escape regexps. An edit to any of these breaks one of the `rfl`s below
(the differential check then decides whether behaviour changed).
-/
import ArvVerif.Gen.FactsC09
import ArvVerif.Model.C09_FS
namespace ArvVerif.Tie.C09
open ArvVerif.Facts.C09

/-- production block size limit (the theorems hold for every `max`; smoke cases run at this value) -/
theorem tie_maxBlockSize : maxBlockSize =
    67108864 := rfl

/-- throttle capacity: at most 4 Keep writes in flight (the model's script order is the start order when the capacity is 1, which is what cases with a failure script use) -/
theorem tie_concurrentWriters : concurrentWriters =
    4 := rfl

/-- `manifestEscape`: Model `C10.fsEscapePred` (`c ≤ 32`, `:`, `\\`); 0x7f is NOT in the class (finding F9a) -/
theorem tie_manifestEscapedChar : manifestEscapedChar =
    "[\\000-\\040:\\s\\\\]" := rfl

/-- `manifestUnescape`: Model `C10.fsUnescape` -/
theorem tie_manifestEscapeSeq : manifestEscapeSeq =
    "\\\\([0-7]{3}|\\\\)" := rfl

/-- `\\%03o` of the byte: Model `C10.octDigits` -/
theorem tie_manifestEscapeFuncText : manifestEscapeFuncText =
    "{ return fmt.Sprintf(\"\\\\%03o\", byte(seq[0])) }" := rfl

/-- marshalManifest: empty directory / root test, the three inode cases, empty file, re-use of the last block, merge of contiguous parts of the same name, no tokens ⇒ no line, no blocks ⇒ the empty-block locator (Model `dirText`, `emitSeg`, `emitFile`, `lineOf`) -/
theorem tie_marshalConds : marshalConds =
    ["if len(dn.inodes) == 0",
    "if prefix == \".\"",
    "if ok",
    "case *dirnode",
    "case *filenode",
    "default",
    "if err != nil",
    "if len(node.segments) == 0",
    "case storedSegment",
    "if len(blocks) > 0 && blocks[len(blocks)-1] == seg.locator",
    "if prev >= 0 && fileparts[prev].name == name && fileparts[prev].offset+fileparts[prev].length == next.offset",
    "default",
    "if len(filetokens) == 0",
    "if len(blocks) == 0"] := rfl

/-- the literals of marshalManifest: marker stream, the empty-block locator, token format, separators -/
theorem tie_marshalStrings : marshalStrings =
    [".",
    "",
    " d41d8cd98f00b204e9800998ecf8427e+0 0:0:\\056\n",
    "can't marshal inode type %T",
    "",
    "/",
    "can't marshal segment type %T",
    "%d:%d:%s",
    "d41d8cd98f00b204e9800998ecf8427e+0",
    " ",
    " ",
    " ",
    " ",
    "\n",
    ""] := rfl

/-- the bookkeeping of the stream builder: `streamLen -= size` on a repeated locator, offset = streamLen + seg.offset, `length += next.length` on a merge, `streamLen += size` (Model `emitSeg`) -/
theorem tie_marshalAssigns : marshalAssigns =
    ["rootdir := \"\"",
    "fileparts = append(fileparts, filepart{name: name})",
    "streamLen -= int64(seg.size)",
    "blocks = append(blocks, seg.locator)",
    "next := filepart{ name: name, offset: streamLen + int64(seg.offset), length: int64(seg.length), }",
    "fileparts[prev].length += next.length",
    "fileparts = append(fileparts, next)",
    "streamLen += int64(seg.size)",
    "blocks = []string{\"d41d8cd98f00b204e9800998ecf8427e+0\"}",
    "rootdir = manifestEscape(prefix) + \" \" + strings.Join(blocks, \" \") + \" \" + strings.Join(filetokens, \" \") + \"\\n\""] := rfl

/-- control skeleton of marshalManifest: early return for an empty directory BEFORE any flush, waitPrune, one `cg.Go` per subdirectory, one for the own files which first calls `dn.flush` and returns its error, `cg.Wait` decides the returned error (Model `flushDir9`, `marshal9`) -/
theorem tie_marshalSkeleton : marshalSkeleton =
    ["defer",
    "if len(dn.inodes) == 0 {",
    "if prefix == \".\" {",
    "return",
    "}",
    "call manifestEscape",
    "return",
    "}",
    "call dn.sortedNames => names",
    "for {",
    "if ok {",
    "call fn.waitPrune",
    "}",
    "}",
    "for {",
    "defer",
    "case {",
    "}",
    "case {",
    "}",
    "case {",
    "}",
    "}",
    "for {",
    "call cg.Go",
    "func {",
    "return",
    "}",
    "}",
    "call cg.Go",
    "func {",
    "call dn.flush => err",
    "if err != nil {",
    "return",
    "}",
    "for {",
    "if len(node.segments) == 0 {",
    "continue",
    "}",
    "for {",
    "case {",
    "if len(blocks) > 0 && blocks[len(blocks)-1] == seg.locator {",
    "} else {",
    "}",
    "if prev >= 0 && fileparts[prev].name == name && fileparts[prev].offset+fileparts[prev].length == next.offset {",
    "} else {",
    "}",
    "}",
    "case {",
    "}",
    "}",
    "}",
    "for {",
    "call manifestEscape",
    "}",
    "if len(filetokens) == 0 {",
    "return",
    "} else {",
    "if len(blocks) == 0 {",
    "}",
    "}",
    "call manifestEscape",
    "return",
    "}",
    "call cg.Wait => err",
    "return"] := rfl

/-- dirnode.flush: stored segments get their local locator, a mem segment longer than maxBlockSize/2 is committed alone, smaller ones are packed while they fit, the last group only with shortBlocks (Model `C08.flushGroups`) -/
theorem tie_flushConds : flushConds =
    ["case *dirnode",
    "case *filenode",
    "case storedSegment",
    "if !ok",
    "if err != nil",
    "case *memSegment",
    "if seg.Len() > maxBlockSize/2",
    "if pendingLen+seg.Len() > maxBlockSize",
    "default",
    "if opts.shortBlocks"] := rfl

/-- control skeleton of dirnode.flush: every group goes through `cg.Go(commitBlock)`, the result is `cg.Wait()` -/
theorem tie_flushSkeleton : flushSkeleton =
    ["defer",
    "func {",
    "call cg.Go",
    "func {",
    "call dn.commitBlock",
    "return",
    "}",
    "}",
    "for {",
    "case {",
    "for {",
    "defer",
    "}",
    "call cg.Go",
    "func {",
    "call node.flush",
    "return",
    "}",
    "}",
    "case {",
    "for {",
    "case {",
    "if !ok {",
    "call dn.fs.LocalLocator => loc,err",
    "if err != nil {",
    "return",
    "}",
    "}",
    "}",
    "case {",
    "if seg.Len() > maxBlockSize/2 {",
    "call goCommit",
    "continue",
    "}",
    "if pendingLen+seg.Len() > maxBlockSize {",
    "call goCommit",
    "}",
    "}",
    "case {",
    "}",
    "}",
    "}",
    "}",
    "if opts.shortBlocks {",
    "call goCommit",
    "}",
    "call cg.Wait",
    "return"] := rfl

/-- dirnode.commitBlock: nothing for no refs, context check first, async-only checks, `if err != nil` right after PutB, `if sync { return <-errs }` -/
theorem tie_commitConds : commitConds =
    ["if len(refs) == 0",
    "if err != nil",
    "if !sync && seg.flushingUnfinished()",
    "if len(refs) == 1",
    "if block == nil",
    "if err != nil",
    "if !sync",
    "if len(ref.fn.segments) <= ref.idx",
    "if !ok || seg != segs[idx]",
    "if seg.flushing != done",
    "if !sync",
    "if sync"] := rfl

/-- control skeleton of commitBlock: `ctx.Err` → return; throttle; PutB; on error `return` BEFORE the loop that replaces segments (Model `commitK`: `fail` leaves the mem segments, `skip` = the ctx.Err return) -/
theorem tie_commitSkeleton : commitSkeleton =
    ["if len(refs) == 0 {",
    "return",
    "}",
    "call ctx.Err => err",
    "if err != nil {",
    "return",
    "}",
    "for {",
    "call seg.flushingUnfinished",
    "if !sync && seg.flushingUnfinished() {",
    "call close",
    "return",
    "}",
    "if len(refs) == 1 {",
    "} else {",
    "if block == nil {",
    "} else {",
    "}",
    "}",
    "}",
    "call dn.fs.throttle().Acquire",
    "call dn.fs.throttle",
    "go",
    "func {",
    "defer",
    "call close",
    "defer",
    "call close",
    "call dn.fs.PutB => locator,_,err",
    "call dn.fs.throttle().Release",
    "call dn.fs.throttle",
    "if err != nil {",
    "return",
    "}",
    "for {",
    "if !sync {",
    "if len(ref.fn.segments) <= ref.idx {",
    "continue",
    "} else {",
    "if !ok || seg != segs[idx] {",
    "continue",
    "} else {",
    "if seg.flushing != done {",
    "continue",
    "}",
    "}",
    "}",
    "}",
    "call atomic.AddInt64",
    "if !sync {",
    "}",
    "}",
    "}",
    "if sync {",
    "return",
    "}",
    "return"] := rfl

/-- commitBlock: `seg.flushing = done` for every ref before the write (Model `markStale` on failure), the block is the concatenation of the buffers, the stored segment is (locator, blocksize, offsets[idx], len(data)) (Model `C08.commitBlock`) -/
theorem tie_commitAssigns : commitAssigns =
    ["offsets := make([]int, 0, len(refs))",
    "seg.flushing = done",
    "offsets = append(offsets, len(block))",
    "block = seg.buf",
    "block = append(make([]byte, 0, bufsize), seg.buf...)",
    "block = append(block, seg.buf...)",
    "blocksize := len(block)",
    "errs := make(chan error, 1)",
    "ref.fn.segments[ref.idx] = storedSegment{ kc: dn.fs, locator: locator, size: blocksize, offset: offsets[idx], length: len(data), }"] := rfl

/-- pruneMemSegments: only full mem segments without a flushing channel; the goroutine gives up when the buffer was replaced, when PutB failed, or when the segment moved/resized (Model `pruneSegsK`, `C08.settleSegs`) -/
theorem tie_pruneConds : pruneConds =
    ["if !ok || seg.Len() < maxBlockSize || seg.flushing != nil",
    "if seg.flushing != done",
    "if err != nil",
    "if len(fn.segments) <= idx || fn.segments[idx] != seg || len(seg.buf) != len(buf)"] := rfl

/-- control skeleton of pruneMemSegments: throttle.Acquire by the WRITER before `go`, PutB, Release, then the file lock; `if err != nil { return }` leaves the mem segment in place -/
theorem tie_pruneSkeleton : pruneSkeleton =
    ["for {",
    "if !ok || seg.Len() < maxBlockSize || seg.flushing != nil {",
    "continue",
    "}",
    "call fn.fs.throttle().Acquire",
    "call fn.fs.throttle",
    "go",
    "func {",
    "defer",
    "call close",
    "call fn.FS().PutB => locator,_,err",
    "call fn.FS",
    "call fn.fs.throttle().Release",
    "call fn.fs.throttle",
    "call fn.Lock",
    "defer",
    "if seg.flushing != done {",
    "return",
    "}",
    "if err != nil {",
    "return",
    "}",
    "if len(fn.segments) <= idx || fn.segments[idx] != seg || len(seg.buf) != len(buf) {",
    "return",
    "}",
    "call fn.FS",
    "}",
    "}"] := rfl

/-- contextGroup.Go: no new func once an error is recorded; the first error is recorded and cancels the context -/
theorem tie_cgGoSkeleton : cgGoSkeleton =
    ["defer",
    "if cg.err != nil {",
    "return",
    "}",
    "call cg.wg.Add",
    "go",
    "func {",
    "defer",
    "call cg.wg.Done",
    "call f => err",
    "defer",
    "if err != nil && cg.err == nil {",
    "call cg.cancel",
    "}",
    "}"] := rfl

/-- contextGroup.Go conditions -/
theorem tie_cgGoConds : cgGoConds =
    ["if cg.err != nil",
    "if err != nil && cg.err == nil"] := rfl

/-- contextGroup.Wait returns the first recorded error, else the context's -/
theorem tie_cgWaitReturns : cgWaitReturns =
    ["cg.err",
    "cg.ctx.Err()"] := rfl

/-- contextGroup.Wait is a barrier: it waits (unconditionally, first thing) for EVERY func started with Go — also
after the context was cancelled — before it looks at the error. The model's save (`flushFilesK`/`marshal9`) lets every
started Keep write of the save finish (commit or fail) before the save returns; sync-mode commitBlock replaces segments
without re-validation because of exactly this. -/
theorem tie_cgWaitSkeleton : cgWaitSkeleton =
    ["call cg.wg.Wait",
    "call cg.mtx.Lock",
    "defer",
    "call cg.mtx.Unlock",
    "if cg.err != nil {",
    "return",
    "}",
    "call cg.ctx.Err",
    "return"] := rfl

/-- throttle = buffered channel -/
theorem tie_throttleAcquireText : throttleAcquireText =
    "{ t.c <- struct{}{} }" := rfl

/-- throttle = buffered channel -/
theorem tie_throttleReleaseText : throttleReleaseText =
    "{ <-t.c }" := rfl

/-- names in byte order (`sort.Strings`): Model `C08.sortedFiles` / `sortedDirs` (insertion sort on distinct keys) -/
theorem tie_sortedNamesText : sortedNamesText =
    "{ names := make([]string, 0, len(dn.inodes)) for name := range dn.inodes { names = append(names, name) } sort.Strings(names) return names }" := rfl

/-- Sync = MarshalManifest(".") then the collection update with that text -/
theorem tie_syncCalls : syncCalls =
    ["fs.MarshalManifest",
    "fs.RequestAndDecode"] := rfl

/-- Flush(path) with a non-empty path flushes the files of that directory only -/
theorem tie_flushOptsStrings : flushOptsStrings =
    ["names := dn.sortedNames()",
    "names = filenames"] := rfl

/-! ### the loader (every saved text is read back through it) -/

/-- loadManifest: trailing newline, stream name first, locator vs file token by `:`, ParseInt checks (incl. the `offset+length < offset` wrap test), the `.` marker special case (`fnode == nil && err == nil && length == 0`), rewind `pos > offset`, the range loop with its skip / stop / clip tests, `next > offset+length` break, past-the-end error, the three per-line errors (Model: `C10.fsLoad`, which C09 uses to reload every saved text and which `C09_marker_line_loads` / `C09_marshal_fsLoad_partial` are about) -/
theorem tie_loadManifestConds : loadManifestConds =
    ["if streams[len(streams)-1] != \"\"",
    "if i == 0",
    "if !strings.Contains(token, \":\")",
    "if anyFileTokens",
    "if len(toks) < 2",
    "if err != nil || length < 0",
    "if len(segments) == 0",
    "if len(toks) != 3",
    "if err != nil || offset < 0",
    "if err != nil || length < 0 || offset+length < offset",
    "if fnode == nil && err == nil && length == 0",
    "if err != nil || (fnode == nil && length != 0)",
    "if pos > offset",
    "for segIdx < len(segments)",
    "if next <= offset || seg.Len() == 0",
    "if pos >= offset+length",
    "if pos < offset",
    "if pos+int64(blkOff+blkLen) > offset+length",
    "if blkLen > 0",
    "if next > offset+length",
    "if segIdx == len(segments) && pos < offset+length",
    "if !anyFileTokens",
    "if len(segments) == 0",
    "if dirname == \"\""] := rfl

/-- loadManifest bookkeeping: the cursor (`segIdx, pos = 0, 0`; `pos = next` on skip and after a fully used block, NOT before the break), block offset/length clipping -/
theorem tie_loadManifestAssigns : loadManifestAssigns =
    ["segments := []storedSegment{}",
    "segments = segments[:0]",
    "dirname = manifestUnescape(token)",
    "segments = append(segments, storedSegment{ locator: token, size: int(length), offset: 0, length: int(length), })",
    "anyFileTokens = true",
    "segIdx, pos = 0, 0",
    "segIdx++",
    "next := pos + int64(seg.Len())",
    "pos = next",
    "blkOff = int(offset - pos)",
    "blkLen := seg.Len() - blkOff",
    "blkLen = int(offset + length - pos - int64(blkOff))",
    "pos = next"] := rfl

/-- createFileAndParents: `""`/`.` skipped, `..` only below the root, missing parents created, a file in the way is an error, basename `.` = directory marker (returns nil, nil), permittedName, existing file re-used, directory in the way is an error (Model: `C10.createFileAndParents` / `walkParents`) -/
theorem tie_createFileConds : createFileConds =
    ["switch name",
    "case \"\"",
    "case \".\"",
    "case \"..\"",
    "if node == dn",
    "if child == nil",
    "if err != nil",
    "if !child.IsDir()",
    "if err != nil",
    "if basename == \".\"",
    "if !permittedName(basename)",
    "case nil",
    "if err != nil",
    "case *filenode",
    "case *dirnode",
    "default"] := rfl

/-- createFileAndParents return values in source order -/
theorem tie_createFileReturns : createFileReturns =
    ["nil, ErrInvalidArgument",
    "nil, err",
    "child, nil",
    "child, ErrFileExists",
    "child, nil",
    "",
    "",
    "",
    "nil, err",
    "child, nil",
    "child, nil",
    "child, ErrIsDirectory",
    "child, ErrInvalidArgument",
    ""] := rfl

/-- Collection.FileSystem: throttle of concurrentWriters, loadManifest on the fresh root, backdateTree -/
theorem tie_fileSystemCalls : fileSystemCalls =
    ["newThrottle",
    "root.loadManifest",
    "backdateTree"] := rfl

/-! ### the model's constants are the source's literals -/

/-- the empty-block locator the model writes for a stream without data -/
theorem tie_model_emptyLoc : ArvVerif.C09.emptyLoc = ArvVerif.C10.str (marshalStrings.getD 8 "") := rfl

/-- the empty-directory marker: what the model appends to the escaped stream name -/
theorem tie_model_marker :
    ArvVerif.C10.bSpace :: (ArvVerif.C09.emptyLoc ++ ArvVerif.C10.bSpace :: (ArvVerif.C09.markerTok ++ [ArvVerif.C10.bNL])) =
      ArvVerif.C10.str (marshalStrings.getD 2 "") := by decide +kernel

/-- the escape predicate the model uses is the regexp's class -/
theorem tie_model_escapePred (c : UInt8) :
    ArvVerif.C10.fsEscapePred c = (decide (c ≤ 32) || c == 58 || c == 92) := rfl

/-- DEL is not escaped (finding F9a) -/
theorem tie_model_del_not_escaped : ArvVerif.C10.fsEscapePred 127 = false := by decide

/-! ### the protocol facts Model/C09_Conc.lean relies on, as path properties of the regenerated skeletons
(weaker than the exact skeleton ties above — they survive harmless rewrites — and they name what matters) -/

/-- the entries strictly between the first `a` and the next `b` -/
def between (l : List String) (a b : String) : List String :=
  ((l.dropWhile (· != a)).drop 1).takeWhile (· != b)

/-- the entries after the first `a` -/
def after (l : List String) (a : String) : List String := (l.dropWhile (· != a)).drop 1

/-- `commitBlock`: the context is checked once, before anything is marked (Model `check`: spawned → waiting | skip,
and no second check after `Acquire`); no path leaves between `Acquire` and the start of the goroutine (Model
`acquire`: waiting → writing only — otherwise a marked segment would keep an open channel or a slot would leak);
the goroutine's first statements defer `close(done)` then `close(errs)` (Model `closeDone` always enabled after
`ret`); `Release` directly follows `PutB`, before the error test (Model `release`: answered b → released b for
both b); the only return of the goroutine before the replacement loop is the error return. -/
theorem tie_commit_paths :
    (commitSkeleton.filter (· == "call ctx.Err => err")).length = 1 ∧
    "call ctx.Err => err" ∉ after commitSkeleton "call dn.fs.throttle().Acquire" ∧
    "return" ∉ between commitSkeleton "call dn.fs.throttle().Acquire" "go" ∧
    (after commitSkeleton "go").take 5 = ["func {", "defer", "call close", "defer", "call close"] ∧
    between commitSkeleton "call dn.fs.PutB => locator,_,err" "call dn.fs.throttle().Release" = [] ∧
    (between commitSkeleton "call dn.fs.throttle().Release" "for {").filter (· == "return") = ["return"] ∧
    (commitSkeleton.filter (· == "call dn.fs.throttle().Acquire")).length = 1 ∧
    (commitSkeleton.filter (· == "call dn.fs.throttle().Release")).length = 1 := by decide +kernel

/-- `pruneMemSegments` (the background writers `bg` of the model): the writer takes the slot before `go`; no path
leaves between `Acquire` and `go`; the goroutine defers `close(done)` first; it gives the slot back right after
PutB and BEFORE it asks for the file lock (a save holds that lock while it waits for a slot: the other order
deadlocks — Model `bgRelease` needs nothing) -/
theorem tie_prune_paths :
    "return" ∉ between pruneSkeleton "call fn.fs.throttle().Acquire" "go" ∧
    (after pruneSkeleton "go").take 3 = ["func {", "defer", "call close"] ∧
    "return" ∉ between pruneSkeleton "call fn.FS().PutB => locator,_,err" "call fn.fs.throttle().Release" ∧
    "call fn.Lock" ∉ between pruneSkeleton "go" "call fn.fs.throttle().Release" ∧
    "call fn.Lock" ∈ after pruneSkeleton "call fn.fs.throttle().Release" ∧
    (pruneSkeleton.filter (· == "call fn.fs.throttle().Acquire")).length = 1 ∧
    (pruneSkeleton.filter (· == "call fn.fs.throttle().Release")).length = 1 := by decide +kernel

/-- `contextGroup`: `Go` tests `cg.err` before `wg.Add` and `go` (Model `spawn`: dropped | spawned); inside the
goroutine `wg.Done` is deferred before `f` runs and the error test comes after `f` (Model `finish`); `Wait` starts
with `wg.Wait` (Model `wait`: enabled only when every task is done) -/
theorem tie_cg_paths :
    (cgGoSkeleton.takeWhile (· != "call cg.wg.Add")).filter (· == "if cg.err != nil {") = ["if cg.err != nil {"] ∧
    between cgGoSkeleton "call cg.wg.Add" "call f => err" = ["go", "func {", "defer", "call cg.wg.Done"] ∧
    "call cg.cancel" ∈ after cgGoSkeleton "if err != nil && cg.err == nil {" ∧
    cgWaitSkeleton.head? = some "call cg.wg.Wait" := by decide +kernel

end ArvVerif.Tie.C09
