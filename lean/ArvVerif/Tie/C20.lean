/-
Tie for C20: source facts regenerated from /repo on every run (Gen/FactsC20.lean) equal what the
model (Model/C20.lean) was written against. An edit to a rejection rule, the grouping, the loop
(batch rebuild, progress test, zero-items stop, error propagation), the merge callback in any of
the six generated_*List functions, or chooseBackend breaks one of these.
-/
import ArvVerif.Gen.FactsC20
import ArvVerif.Model.C20
namespace ArvVerif.Tie.C20
open ArvVerif.Facts.C20

/-- Every condition of splitListRequest in source order: pass-through test (`plan`), the filter
classification (`classifyFilter`), intersection (`scanFilters`), the 27-character rule and prefix
grouping (`wellFormed`, `groups`), the empty / local-only shortcuts and the four rejection rules
(`plan`), backend selection (`backendFor`), select rewrite (`remoteOpts`), the loop with batch
rebuild, progress test and zero-items stop (`clusterLoop`), first-error collection (`run`). -/
theorem tie_splitConds : splitConds =
    ["if opts.BypassFederation || opts.ForwardedFor != \"\"",
     "if f.Attr != \"uuid\"",
     "if f.Operator == \"=\"",
     "if ok",
     "if f.Operator == \"in\"",
     "if ok",
     "if ok",
     "if ok",
     "if matchAllFilters == nil",
     "if !matchThisFilter[uuid]",
     "if matchAllFilters == nil",
     "if len(uuid) != 27",
     "if todoByRemote[uuid[:5]] == nil",
     "if len(todoByRemote) == 0",
     "if len(todoByRemote) == 1 && todoByRemote[conn.cluster.ClusterID] != nil",
     "if cannotSplit",
     "if opts.Count != \"none\"",
     "if opts.Limit >= 0 || opts.Offset != 0 || len(opts.Order) > 0",
     "if nUUIDs > max",
     "if clusterID == conn.cluster.ClusterID",
     "if backend == nil",
     "if remoteOpts.Select != nil",
     "for len(todo) > 0",
     "if len(batch) > len(todo)",
     "if err != nil",
     "if ok",
     "if len(done) == 0",
     "if !progress",
     "if err != nil && firstErr == nil"] := rfl

/-- Control skeleton of splitListRequest: where `fn` (the backend call + merge callback) is called,
where errors are produced, which branches return, break or continue. In particular: every
rejection returns before the goroutines are started; inside the loop the error test follows the
call directly and returns; `delete` happens only for uuids still in todo and any other returned
uuid produces an error and returns (fix d542fa4, `accepts`); zero items breaks, no progress returns
an error. -/
theorem tie_splitSkeleton : splitSkeleton =
    ["if opts.BypassFederation || opts.ForwardedFor != \"\" {", "call fn => _,err", "return", "}",
     "for {",
     "if f.Attr != \"uuid\" {", "continue", "}",
     "if f.Operator == \"=\" {", "if ok {", "} else {", "call httpErrorf", "return", "}",
     "} else {",
     "if f.Operator == \"in\" {", "if ok {", "for {", "if ok {", "}", "}", "} else {", "if ok {", "for {", "}",
     "} else {", "call httpErrorf", "return", "}", "}",
     "} else {", "continue", "}", "}",
     "if matchAllFilters == nil {", "} else {", "for {", "if !matchThisFilter[uuid] {", "call delete", "}", "}", "}",
     "}",
     "if matchAllFilters == nil {", "call fn => _,err", "return", "}",
     "for {", "if len(uuid) != 27 {", "} else {", "if todoByRemote[uuid[:5]] == nil {", "}", "}", "}",
     "if len(todoByRemote) == 0 {", "return", "}",
     "if len(todoByRemote) == 1 && todoByRemote[conn.cluster.ClusterID] != nil {", "call fn => _,err", "return", "}",
     "if cannotSplit {", "call httpErrorf", "return", "}",
     "if opts.Count != \"none\" {", "call httpErrorf", "return", "}",
     "if opts.Limit >= 0 || opts.Offset != 0 || len(opts.Order) > 0 {", "call httpErrorf", "return", "}",
     "if nUUIDs > max {", "call httpErrorf", "return", "}",
     "defer", "call cancel",
     "for {", "go", "func {",
     "for {", "}",
     "if clusterID == conn.cluster.ClusterID {", "} else {", "if backend == nil {", "call httpErrorf", "return", "}", "}",
     "if remoteOpts.Select != nil {", "}",
     "for {",
     "if len(batch) > len(todo) {", "for {", "}", "}",
     "call fn => done,err",
     "if err != nil {", "call httpErrorf", "return", "}",
     "for {", "if ok {", "call delete", "} else {", "call httpErrorf", "return", "}", "}",
     "if len(done) == 0 {", "break", "} else {", "if !progress {", "call httpErrorf", "return", "}", "}",
     "}", "}", "}",
     "for {", "if err != nil && firstErr == nil {", "call cancel", "}", "}",
     "return"] := rfl

/-- What is returned where: pass-through returns the callback's error; the two operand-type errors
and the four rejection rules return 400 (`statusBadRequest`); no well-formed uuid returns nil; the
end returns the first error. -/
theorem tie_splitReturns : splitReturns =
    ["err",
     "httpErrorf(http.StatusBadRequest, \"invalid operand type %T for filter %q\", f.Operand, f)",
     "httpErrorf(http.StatusBadRequest, \"invalid operand type %T in filter %q\", f.Operand, f)",
     "err",
     "nil",
     "err",
     "httpErrorf(http.StatusBadRequest, \"cannot execute federated list query: each filter must be either 'uuid = ...' or 'uuid in [...]'\")",
     "httpErrorf(http.StatusBadRequest, \"cannot execute federated list query unless count==\\\"none\\\"\")",
     "httpErrorf(http.StatusBadRequest, \"cannot execute federated list query with limit, offset, or order parameter\")",
     "httpErrorf(http.StatusBadRequest, \"cannot execute federated list query because number of UUIDs (%d) exceeds page size limit %d\", nUUIDs, max)",
     "", "", "", "",
     "firstErr"] := rfl

/-- What each goroutine reports: 404 (`statusNotFound`) for a cluster without proxy, 502
(`statusBadGateway`) for a backend error, for a returned item that is not (or no longer) wanted and
for a no-progress answer, nil at the end. -/
theorem tie_splitSends : splitSends =
    ["errs <- httpErrorf(http.StatusNotFound, \"cannot execute federated list query: no proxy available for cluster %q\", clusterID)",
     "errs <- httpErrorf(http.StatusBadGateway, \"%s\", err.Error())",
     "errs <- httpErrorf(http.StatusBadGateway, \"cannot execute federated list query: cluster %q returned item %q which was not requested or was already returned\", clusterID, uuid)",
     "errs <- httpErrorf(http.StatusBadGateway, \"cannot make progress in federated list query: cluster %q returned %d items but none had the requested UUIDs\", clusterID, len(done))",
     "errs <- nil"] := rfl

theorem tie_httpErrorf : httpErrorfText = "{ return httpserver.ErrorWithStatus(fmt.Errorf(format, args...), code) }" := rfl

/-- State updates: cannotSplit, the per-filter set and the intersection start, grouping by
`uuid[:5]` with the uuid counter, batch = all of todo / rebuilt from todo, local vs remotes map,
"uuid" prepended to a non-nil select, the batch filter `uuid in batch` replacing all filters, the
progress flag, first error kept. -/
theorem tie_splitAssigns : splitAssigns =
    ["cannotSplit := false",
     "matchThisFilter := map[string]bool{}",
     "cannotSplit = true",
     "matchThisFilter[uuid] = true",
     "matchThisFilter[uuid] = true",
     "matchThisFilter[uuid] = true",
     "cannotSplit = true",
     "matchAllFilters = matchThisFilter",
     "nUUIDs := 0",
     "todoByRemote := map[string]map[string]bool{}",
     "todoByRemote[uuid[:5]] = map[string]bool{}",
     "todoByRemote[uuid[:5]][uuid] = true",
     "nUUIDs++",
     "batch := make([]string, 0, len(todo))",
     "batch = append(batch, uuid)",
     "backend = conn.local",
     "backend = conn.remotes[clusterID]",
     "remoteOpts := opts",
     "remoteOpts.Select = append([]string{\"uuid\"}, remoteOpts.Select...)",
     "batch = batch[:0]",
     "batch = append(batch, uuid)",
     "remoteOpts.Filters = []arvados.Filter{{\"uuid\", \"in\", batch}}",
     "progress := false",
     "progress = true",
     "firstErr = err"] := rfl

/-- the integer literals: uuid length and prefix length are the model's -/
theorem tie_splitInts : splitInts =
    [0, (ArvVerif.C20.uuidLen : Int), (ArvVerif.C20.prefixLen : Int), (ArvVerif.C20.prefixLen : Int),
     (ArvVerif.C20.prefixLen : Int), 0, 1, 0, 0, 0, 0, 0, 0, 0] := by decide

/-- the string literals the model's `sUuid`, `sEq`, `sIn`, `sNone` stand for -/
theorem tie_splitStrings :
    splitStrings.take 3 = ["", String.ofList ArvVerif.C20.sUuid, String.ofList ArvVerif.C20.sEq] ∧
    splitStrings[4]? = some (String.ofList ArvVerif.C20.sIn) ∧
    splitStrings[7]? = some (String.ofList ArvVerif.C20.sNone) ∧
    splitStrings.drop 12 = [String.ofList ArvVerif.C20.sUuid, String.ofList ArvVerif.C20.sUuid,
      String.ofList ArvVerif.C20.sIn, "%s",
      "cannot execute federated list query: cluster %q returned item %q which was not requested or was already returned",
      "cannot make progress in federated list query: cluster %q returned %d items but none had the requested UUIDs"] := by
  decide

/-! ### the merge callback, identical in all six generated_*List functions -/

/-- Skeleton of generated_<T>List (`forwarded`, the merge in `run` / `mergePages`): backend call,
error returned before anything is merged, merge under the mutex (`merged = cl` for the first
non-empty page, append + needSort for later non-empty ones), uuids of all returned items handed
back to splitListRequest, final sort only if needSort. -/
def mergeSkeletonFor (ty : String) : List String :=
  ["call needSort.Store",
   "call conn.splitListRequest => err",
   "func {",
   "call backend." ++ ty ++ "List => cl,err",
   "if err != nil {", "return", "}",
   "call mtx.Lock", "defer", "call mtx.Unlock",
   "if len(merged.Items) == 0 {", "} else {", "if len(cl.Items) > 0 {",
   "call append => merged.Items", "call needSort.Store", "}", "}",
   "for {", "call append => uuids", "}",
   "return", "}",
   "call needSort.Load",
   "if needSort.Load().(bool) {", "call sort.Slice", "func {", "return", "}", "}",
   "if merged.Items == nil {", "}",
   "return"]

def mergeAssignsFor (ty : String) : List String :=
  ["options.ForwardedFor = conn.cluster.ClusterID + \"-\" + options.ForwardedFor",
   "cl, err := backend." ++ ty ++ "List(ctx, options)",
   "merged = cl",
   "merged.Items = append(merged.Items, cl.Items...)",
   "uuids := make([]string, 0, len(cl.Items))",
   "uuids = append(uuids, item.UUID)",
   "mi, mj := merged.Items[i].ModifiedAt, merged.Items[j].ModifiedAt",
   "merged.Items = []arvados." ++ ty ++ "{}"]

/-- Return values of generated_<T>List: the callback returns the backend's error before merging and
otherwise the uuids of all returned items; the sort comparator is `mj.Before(mi)` with
`mi, mj := …[i].ModifiedAt, …[j].ModifiedAt`, i.e. "modified_at desc" (`tsGe`); the function returns
the merged list together with splitListRequest's error. -/
def mergeReturns : List String := ["nil, err", "uuids, nil", "mj.Before(mi)", "merged, err"]

theorem tie_mergeReturns : collReturns = mergeReturns ∧ ctrReturns = mergeReturns ∧ crReturns = mergeReturns ∧
    grpReturns = mergeReturns ∧ specReturns = mergeReturns ∧ userReturns = mergeReturns := by decide

theorem tie_coll : collSkeleton = mergeSkeletonFor "Collection" ∧ collAssigns = mergeAssignsFor "Collection" ∧
    collEntry = ["conn.generated_CollectionList(ctx, options)"] := by decide
theorem tie_ctr : ctrSkeleton = mergeSkeletonFor "Container" ∧ ctrAssigns = mergeAssignsFor "Container" ∧
    ctrEntry = ["conn.generated_ContainerList(ctx, options)"] := by decide
theorem tie_cr : crSkeleton = mergeSkeletonFor "ContainerRequest" ∧ crAssigns = mergeAssignsFor "ContainerRequest" ∧
    crEntry = ["conn.generated_ContainerRequestList(ctx, options)"] := by decide
theorem tie_grp : grpSkeleton = mergeSkeletonFor "Group" ∧ grpAssigns = mergeAssignsFor "Group" ∧
    grpEntry = ["conn.generated_GroupList(ctx, options)"] := by decide
theorem tie_spec : specSkeleton = mergeSkeletonFor "Specimen" ∧ specAssigns = mergeAssignsFor "Specimen" ∧
    specEntry = ["conn.generated_SpecimenList(ctx, options)"] := by decide
/-- UserList reaches generated_UserList unless a different LoginCluster is configured (the drivers
leave Login.LoginCluster empty). -/
theorem tie_user : userSkeleton = mergeSkeletonFor "User" ∧ userAssigns = mergeAssignsFor "User" ∧
    userEntry = ["resp, err", "arvados.UserList{}, err", "resp, nil", "conn.generated_UserList(ctx, options)"] ∧
    userListConds = ["if id != \"\" && id != conn.cluster.ClusterID && !options.BypassFederation",
      "if err != nil", "if err != nil"] := by decide

/-- conn.go UserList / batchUpdateUsers (`userListDetour`, `runUserList`): the detour condition, the
single call to chooseBackend(LoginCluster), the prefix test, "update only if there is something to
update", errors returned. -/
theorem tie_userListDetour :
    userListCalls = ["conn.chooseBackend(id).UserList", "conn.chooseBackend", "conn.batchUpdateUsers",
      "conn.generated_UserList"] ∧
    batchUpdateCalls = ["strings.HasPrefix", "conn.local.UserBatchUpdate"] ∧
    batchUpdateConds = ["if !strings.HasPrefix(user.UUID, id)", "if user.ModifiedAt.IsZero()",
      "if user.CreatedAt.IsZero()", "if err != nil", "if err != nil", "if len(options.Select) > 0",
      "if ok && userAttrsCachedFromLoginCluster[k]", "if !userAttrsCachedFromLoginCluster[k]",
      "if len(batchOpts.Updates) > 0", "if err != nil"] := by decide

/-! ### the transport under the `hlist` correspondence op (not modelled, only tied and exercised)

`arvados.Client` sends GET parameters of ≥ 1000 encoded bytes as a POST form with
X-Http-Method-Override; the controller router parses the form *before* it rewrites the method (Go's
ParseForm ignores the body of a GET). The `hlist` generator stream is built around that threshold. -/

theorem tie_clientPostThreshold : clientInts = [1000] ∧
    clientConds = ["if ok", "if c.APIHost == \"\"", "if c.loadedFromEnv", "if err != nil", "if urlValues == nil",
      "if body != nil || ((method == \"GET\" || method == \"HEAD\") && len(urlValues.Encode()) < 1000)",
      "if err != nil", "if err != nil", "if (method == \"GET\" || method == \"HEAD\") && body != nil"] := by decide

theorem tie_routerMethodOverride : routerServeSkeleton =
    ["case {", "}", "case {", "}",
     "if r.Method == \"OPTIONS\" {", "return", "}",
     "if r.Method == \"POST\" {",
     "call r.ParseForm",
     "call r.FormValue => m",
     "if m != \"\" {", "} else {", "call r.Header.Get => m", "if m != \"\" {", "}", "}", "}",
     "call rtr.mux.ServeHTTP"] := by decide

/-! ### conn.go chooseBackend (`ArvVerif.C20.chooseBackend`) -/

theorem tie_chooseBackend :
    chooseConds = ["if len(id) == 27", "if len(id) != 5", "if id == conn.cluster.ClusterID", "if ok"] ∧
    chooseReturns = ["conn.local", "conn.local", "be", "conn.local"] := by decide

/-! ### inventory (third extension pass): which list methods exist and what `ListOptions` holds -/

/-- generated.go holds exactly the five copies of the template (`generated_CollectionList` in list.go),
made by generate.go from that template for exactly these type names; conn.go has exactly six `…List`
methods, one per modelled kind (each tied to its `generated_…List` by `tie_coll` … `tie_user`). A new
list method, or a generated copy for a further type, breaks this tie. -/
theorem tie_listInventory :
    generatedFuncs =
      ["func (conn *Conn) generated_ContainerList(ctx context.Context, options arvados.ListOptions) (arvados.ContainerList, error) {",
       "func (conn *Conn) generated_ContainerRequestList(ctx context.Context, options arvados.ListOptions) (arvados.ContainerRequestList, error) {",
       "func (conn *Conn) generated_GroupList(ctx context.Context, options arvados.ListOptions) (arvados.GroupList, error) {",
       "func (conn *Conn) generated_SpecimenList(ctx context.Context, options arvados.ListOptions) (arvados.SpecimenList, error) {",
       "func (conn *Conn) generated_UserList(ctx context.Context, options arvados.ListOptions) (arvados.UserList, error) {"] ∧
    connListMethods =
      ["func (conn *Conn) CollectionList(ctx context.Context, options arvados.ListOptions) (arvados.CollectionList, error) {",
       "func (conn *Conn) ContainerList(ctx context.Context, options arvados.ListOptions) (arvados.ContainerList, error) {",
       "func (conn *Conn) ContainerRequestList(ctx context.Context, options arvados.ListOptions) (arvados.ContainerRequestList, error) {",
       "func (conn *Conn) GroupList(ctx context.Context, options arvados.ListOptions) (arvados.GroupList, error) {",
       "func (conn *Conn) SpecimenList(ctx context.Context, options arvados.ListOptions) (arvados.SpecimenList, error) {",
       "func (conn *Conn) UserList(ctx context.Context, options arvados.ListOptions) (arvados.UserList, error) {"] ∧
    generateTypes =
      ["orig := regexp.MustCompile(`(?ms)\\nfunc [^\\n]*generated_CollectionList\\(.*?\\n}\\n`).Find(buf)",
       "for _, t := range []string{\"Container\", \"ContainerRequest\", \"Group\", \"Specimen\", \"User\"} {"] :=
  ⟨rfl, rfl, rfl⟩

/-- every field of `arvados.ListOptions`: Filters, Count, Limit, Offset, Order, BypassFederation,
ForwardedFor are read by `plan`; Select is rewritten by `remoteOpts`; ClusterID, Where, Distinct,
IncludeTrash, IncludeOldVersions, Include are carried by the model's `Opts` and forwarded untouched
(`C20_options_forwarded`). A further option breaks this tie. -/
theorem tie_listOptionsFields : listOptionsFields =
    ["ClusterID string", "Select []string", "Filters []Filter", "Where map[string]interface{}", "Limit int64",
     "Offset int64", "Order []string", "Distinct bool", "Count string", "IncludeTrash bool",
     "IncludeOldVersions bool", "BypassFederation bool", "ForwardedFor string", "Include string"] := rfl

end ArvVerif.Tie.C20
