/-
Tie for C14, runner part: source facts of lib/dispatchcloud/worker/runner.go and of the worker
callbacks it drives = what Model/C14_Runner.lean was written against.
-/
import ArvVerif.Gen.FactsC14
import ArvVerif.Model.C14_Runner
namespace ArvVerif.Tie.C14
open ArvVerif.Facts.C14

/-- `remoteRunner.Start()` has no result: its only `return` is bare, after logging the error of
the start command. The caller cannot (and must not) conclude from a failed command that no process
exists — `Worker.startDone` takes no outcome (seed C14-h made `Start` return a bool and freed the
worker at once when it was false). -/
theorem tie_runner_Start_returns_nothing : runnerStartReturns = [""] := rfl

theorem tie_runner_Start : runnerStartSkeleton =
  ["for {",
   "}",
   "if rr.remoteUser != \"root\" {",
   "}",
   "call rr.executor.Execute => stdout,stderr,err",
   "if err != nil {",
   "return",
   "}"] := rfl

/-- `Kill`: nothing when already stopping (`Runner.kill`); otherwise one goroutine whose loop
tests, in this order, closed → return, deadline → `onUnkillable` and return, default → `rr.kill`
(`Runner.tickAct`, `Worker.killTick`). The loop never calls `Close` or `onKilled` itself. -/
theorem tie_runner_Kill : runnerKillSkeleton =
  ["if rr.stopping {",
   "return",
   "}",
   "go",
   "func {",
   "defer",
   "for {",
   "call rr.isClosed",
   "case {",
   "return",
   "}",
   "case {",
   "call rr.onUnkillable",
   "return",
   "}",
   "case {",
   "call rr.kill",
   "}",
   "}",
   "}"] := rfl

theorem tie_runner_Kill_conds : runnerKillConds =
  ["if rr.stopping",
   "case rr.isClosed()",
   "case time.Now().After(termDeadline)",
   "default"] := rfl

/-- the only flags `Kill` sets: `stopping` before the loop, `givenup` in the deadline branch -/
theorem tie_runner_Kill_assigns : runnerKillAssigns =
  ["rr.stopping = true",
   "rr.givenup = true"] := rfl

/-- `rr.kill(sig)`: `onKilled` is called only when `crunch-run --kill` returned without error
(`killOk` of `Worker.killTick`; truthful kill is the guard of L3 `Step.killed`). -/
theorem tie_runner_signal : runnerSignalSkeleton =
  ["if rr.remoteUser != \"root\" {",
   "}",
   "call rr.executor.Execute => stdout,stderr,err",
   "if err != nil {",
   "return",
   "}",
   "call rr.onKilled"] := rfl

theorem tie_runner_Close : runnerCloseCalls = ["close"] := rfl

/-- `onKilled` = `closeRunner` under the lock (`Worker.onKilled`) -/
theorem tie_worker_onKilled : onKilledCalls =
  ["wkr.mtx.Lock",
   "wkr.mtx.Unlock",
   "wkr.closeRunner",
   "wkr.wp.notify"] := rfl

/-- `onUnkillable`: held worker untouched, otherwise `setIdleBehavior(Drain)` (`Worker.onUnkillable`);
it neither closes a runner nor shuts the worker down directly. -/
theorem tie_worker_onUnkillable : onUnkillableSkeleton =
  ["defer",
   "if wkr.idleBehavior == IdleBehaviorHold {",
   "return",
   "}",
   "call wkr.setIdleBehavior"] := rfl

theorem tie_worker_onUnkillable_conds : onUnkillableConds =
  ["if wkr.idleBehavior == IdleBehaviorHold"] := rfl

/-- `eligibleForShutdown` (`Worker.eligibleForShutdown`): never on hold; Booting: draining; Idle:
draining or idle timeout; Running: draining and every runner in `running` and in `starting` has
given up; any other state: no. -/
theorem tie_worker_eligibleForShutdown : eligibleForShutdownConds =
  ["if wkr.idleBehavior == IdleBehaviorHold",
   "switch wkr.state",
   "case StateBooting",
   "case StateIdle",
   "case StateRunning",
   "if !draining",
   "if !rr.givenup",
   "if !rr.givenup",
   "default"] ∧ eligibleForShutdownReturns =
  ["false",
   "draining",
   "draining || time.Since(wkr.busy) >= wkr.wp.timeoutIdle",
   "false",
   "false",
   "false",
   "true",
   "false"] := ⟨rfl, rfl⟩

end ArvVerif.Tie.C14
