/-
Tie for C01: source facts regenerated from /repo on every run (Gen/FactsC01.lean) equal what the
model was written against. An edit that drops or reorders the digest checks, turns the `continue`
after a mismatch into a return, changes the order of the early exits of handlePUT, the comparison
loop of collision.go, the stat bound, the read-only/full guards of WriteBlock/Touch or the
round-robin choice breaks one of these `rfl`s.
-/
import ArvVerif.Gen.FactsC01
import ArvVerif.Model.C01
namespace ArvVerif.Tie.C01
open ArvVerif.Facts.C01

/-- keepstore.go BlockSize = Model.C01.blockSize (the stat bound, the GET buffer, the PUT limit) -/
theorem tie_blockSize : blockSize = (ArvVerif.C01.blockSize : Int) := by decide

/-- GetBlock: error → next volume; the MD5 of what was read is compared with the requested hash (`filehash != hash`) on every volume (Model.C01.getLoop) -/
theorem tie_getBlockConds : getBlockConds =
  ["if err != nil",
   "if !os.IsNotExist(err)",
   "if err == VolumeBusyError",
   "if filehash != hash",
   "if errorToCaller == DiskHashError"] := rfl

/-- GetBlock returns only after a client disconnect, on a digest match (`size, nil`) or after the loop (`0, errorToCaller`): a mismatch does not return (it `continue`s) -/
theorem tie_getBlockReturns : getBlockReturns =
  ["0, ErrClientDisconnect",
   "size, nil",
   "0, errorToCaller"] := rfl

/-- GetBlock iterates AllReadable(), reads with vol.Get and hashes with md5.Sum -/
theorem tie_getBlockCalls : getBlockCalls =
  ["volmgr.AllReadable",
   "vol.Get",
   "md5.Sum"] := rfl

/-- PutBlock: the digest check comes first; CompareAndTouch result nil/CollisionError ends it; NextWritable; loop over writables with nil / FullError / other (Model.C01.putBlock, putNew, putViaLoop, putLoop) -/
theorem tie_putBlockConds : putBlockConds =
  ["if blockhash != hash",
   "if err == nil || err == CollisionError",
   "if ctx.Err() != nil",
   "if mnt != nil",
   "if err != nil",
   "if ctx.Err() != nil",
   "if len(writables) == 0",
   "if ctx.Err() != nil",
   "switch err",
   "case nil",
   "case FullError",
   "default",
   "if allFull"] := rfl

/-- PutBlock call order: md5.Sum before CompareAndTouch before NextWritable/Put before AllWritable/Put -/
theorem tie_putBlockCalls : putBlockCalls =
  ["md5.Sum",
   "CompareAndTouch",
   "volmgr.NextWritable",
   "mnt.Put",
   "volmgr.AllWritable",
   "vol.Put"] := rfl

/-- PutBlock outcomes: RequestHashError, CompareAndTouch's (n, err), Replication of the mount written, FullError, GenericError (Model.C01.PutOutcome) -/
theorem tie_putBlockReturns : putBlockReturns =
  ["0, RequestHashError",
   "n, err",
   "0, ErrClientDisconnect",
   "mnt.Replication, nil",
   "0, ErrClientDisconnect",
   "0, FullError",
   "0, ErrClientDisconnect",
   "vol.Replication, nil",
   "0, FullError",
   "0, GenericError"] := rfl

/-- CompareAndTouch: CollisionError stops, IsNotExist and other errors continue, Touch error continues (Model.C01.compareAndTouch) -/
theorem tie_catConds : catConds =
  ["if ctx.Err() != nil",
   "if err == CollisionError",
   "if os.IsNotExist(err)",
   "if err != nil",
   "if err != nil"] := rfl

/-- CompareAndTouch iterates AllWritable(), Compare then Touch -/
theorem tie_catCalls : catCalls =
  ["volmgr.AllWritable",
   "mnt.Compare",
   "mnt.Touch"] := rfl

/-- CompareAndTouch returns the collision, the mount's Replication, or bestErr -/
theorem tie_catReturns : catReturns =
  ["0, ctx.Err()",
   "0, err",
   "mnt.Replication, nil",
   "0, bestErr"] := rfl

/-- handleGET: remote proxy only for +R hints, signature check only with BlobSigning, then buffer, GetBlock, KeepError code -/
theorem tie_handleGetConds : handleGetConds =
  ["if strings.Contains(locator, \"+R\") && !strings.Contains(locator, \"+A\")",
   "if rtr.cluster.Collections.BlobSigning",
   "if err != nil",
   "if err != nil",
   "if err != nil",
   "if ok"] := rfl

/-- handleGET: GetBlock, then Content-Length = size and the buffer prefix as body (Model.C01.handleGet) -/
theorem tie_handleGetCalls : handleGetCalls =
  ["http.Error",
   "getBufferWithContext",
   "http.Error",
   "GetBlock",
   "http.Error",
   "resp.Header().Set",
   "resp.Header().Set",
   "resp.Write"] := rfl

/-- handlePUT: 411 without Content-Length, 413 above BlockSize, 503 without writable mounts, before the body is read (Model.C01.handlePut) -/
theorem tie_handlePutConds : handlePutConds =
  ["if req.ContentLength == -1",
   "if req.ContentLength > BlockSize",
   "if len(rtr.volmgr.AllWritable()) == 0",
   "if err != nil",
   "if err != nil",
   "if err != nil",
   "if ok",
   "if rtr.cluster.Collections.BlobSigningKey != \"\" && apiToken != \"\""] := rfl

/-- handlePUT: AllWritable check, io.ReadFull of the body, PutBlock -/
theorem tie_handlePutCalls : handlePutCalls =
  ["http.Error",
   "http.Error",
   "rtr.volmgr.AllWritable",
   "http.Error",
   "http.Error",
   "io.ReadFull",
   "http.Error",
   "PutBlock",
   "http.Error"] := rfl

/-- compareReaderWithBuf: buffer = min(1<<20, len(expect)); mismatch test `n > len(cmp) || cmp[:n] != buf[:n]`; EOF with/without remaining expected bytes (Model.C01.compareReaderWithBuf) -/
theorem tie_compareConds : compareConds =
  ["if bufLen > len(expect) && len(expect) > 0",
   "if n > len(cmp) || bytes.Compare(cmp[:n], buf[:n]) != 0",
   "if err == io.EOF",
   "if len(cmp) != 0",
   "if err != nil"] := rfl

/-- compareReaderWithBuf returns collisionOrCorrupt(matched prefix, current chunk, rest of reader), collisionOrCorrupt(matched prefix) at early EOF, nil, or a read error -/
theorem tie_compareReturns : compareReturns =
  ["ctx.Err()",
   "collisionOrCorrupt(hash, expect[:len(expect)-len(cmp)], buf[:n], rdr)",
   "collisionOrCorrupt(hash, expect[:len(expect)-len(cmp)], nil, nil)",
   "nil",
   "err"] := rfl

/-- collisionOrCorrupt: digest of everything = expected → CollisionError else DiskHashError (Model.C01.collisionOrCorruptBytes) -/
theorem tie_collisionConds : collisionConds =
  ["if fmt.Sprintf(\"%x\", h.Sum(nil)) == expectMD5",
   "if buf2 != nil",
   "for rdr != nil && err == nil",
   "if rdr != nil && err != io.EOF"] := rfl

/-- UnixVolume.stat: size > BlockSize → TooLongError (Model.C01.volStat) -/
theorem tie_statConds : statConds =
  ["if err == nil",
   "if stat.Size() < 0",
   "if stat.Size() > BlockSize"] := rfl

/-- ReadBlock: stat error → translateError; bytes copied ≠ stat size → ErrUnexpectedEOF -/
theorem tie_readBlockConds : readBlockConds =
  ["if err != nil",
   "if err == nil && n != stat.Size()"] := rfl

/-- WriteBlock: ReadOnly → MethodDisabledError, IsFull → FullError, then only I/O error exits — MkdirAll, TempFile, copy, close, Chtimes, flock of the file being replaced (`if err == nil` = such a file exists), rename (Model.C01.volWrite) -/
theorem tie_writeBlockConds : writeBlockConds =
  ["if v.volume.ReadOnly",
   "if v.IsFull()",
   "if err != nil",
   "if tmperr != nil",
   "if err != nil",
   "if err != nil",
   "if err != nil",
   "if err != nil",
   "if err == nil",
   "if err != nil",
   "if err != nil"] := rfl

/-- WriteBlock returns (since fix 7e105eb the flock of an existing file at the block path is taken
before the rename; a lock failure is one more I/O-error exit that leaves the block path unchanged) -/
theorem tie_writeBlockReturns : writeBlockReturns =
  ["MethodDisabledError",
   "FullError",
   "fmt.Errorf(\"error creating directory %s: %s\", bdir, err)",
   "fmt.Errorf(\"TempFile(%s, tmp%s) failed: %s\", bdir, loc, tmperr)",
   "err",
   "err",
   "err",
   "err",
   "fmt.Errorf(\"error locking %s: %s\", bpath, err)",
   "err",
   "nil"] := rfl

/-- Touch: refused on a read-only volume (Model.C01.volTouch) -/
theorem tie_touchConds : touchConds =
  ["if v.volume.ReadOnly",
   "if err != nil",
   "if err != nil",
   "if e != nil"] := rfl

/-- UnixVolume.Compare: stat (+translateError) then compareReaderWithBuf (Model.C01.volCompare) -/
theorem tie_compareVolCalls : compareVolCalls =
  ["v.stat",
   "v.translateError",
   "compareReaderWithBuf"] := rfl

/-- getWithPipe maps EOF / ErrUnexpectedEOF of the bounded read to success (Model.C01.readFull) -/
theorem tie_getWithPipeConds : getWithPipeConds =
  ["if err == io.EOF || err == io.ErrUnexpectedEOF"] := rfl

/-- getWithPipe: ReadBlock into the pipe, io.ReadFull into the buffer -/
theorem tie_getWithPipeCalls : getWithPipeCalls =
  ["br.ReadBlock",
   "io.ReadFull"] := rfl

/-- NextWritable: nil without writables, else writables[++counter % len] (Model.C01.nextWritable) -/
theorem tie_nextWritableText : nextWritableText =
  "{ if len(vm.writables) == 0 { return nil } i := atomic.AddUint32(&vm.counter, 1) return vm.writables[i%uint32(len(vm.writables))] }" := rfl

/-- AllReadable = readables (every mount, Model.C01.allReadable) -/
theorem tie_allReadableText : allReadableText =
  "{ return vm.readables }" := rfl

/-- AllWritable = writables (Model.C01.allWritable) -/
theorem tie_allWritableText : allWritableText =
  "{ return vm.writables }" := rfl

/-- makeRRVolumeManager: Replication < 1 → 1 (Model.C01.effRepl); every mount is readable; writable iff not ReadOnly -/
theorem tie_mkVolMgrConds : mkVolMgrConds =
  ["if !ok && len(cfgvol.AccessViaHosts) > 0",
   "if !ok",
   "if err != nil",
   "if len(sc) == 0",
   "if repl < 1",
   "if !mnt.KeepMount.ReadOnly"] := rfl

/-! ### HTTP codes of the KeepError values (composite literals in keepstore.go) -/

/-- the `var (...)` block of KeepError values, line by line -/
theorem tie_keepErrorLines : keepErrorLines =
  ["BadRequestError     = &KeepError{400, \"Bad Request\"}",
   "UnauthorizedError   = &KeepError{401, \"Unauthorized\"}",
   "CollisionError      = &KeepError{500, \"Collision\"}",
   "RequestHashError    = &KeepError{422, \"Hash mismatch in request\"}",
   "PermissionError     = &KeepError{403, \"Forbidden\"}",
   "DiskHashError       = &KeepError{500, \"Hash mismatch in stored data\"}",
   "ExpiredError        = &KeepError{401, \"Expired permission signature\"}",
   "NotFoundError       = &KeepError{404, \"Not Found\"}",
   "VolumeBusyError     = &KeepError{503, \"Volume backend busy\"}",
   "GenericError        = &KeepError{500, \"Fail\"}",
   "FullError           = &KeepError{503, \"Full\"}",
   "SizeRequiredError   = &KeepError{411, \"Missing Content-Length\"}",
   "TooLongError        = &KeepError{413, \"Block is too large\"}",
   "MethodDisabledError = &KeepError{405, \"Method disabled\"}",
   "ErrNotImplemented   = &KeepError{500, \"Unsupported configuration\"}",
   "ErrClientDisconnect = &KeepError{503, \"Client disconnected\"}"] := rfl

open ArvVerif.C01 in
/-- the status codes the model answers with are the codes of the KeepError values the handlers
return: each line of the block is `<name> = &KeepError{` ++ the model's code ++ `, "<message>"}`.
GetBlock: NotFoundError / DiskHashError; PutBlock: RequestHashError / CollisionError / FullError /
GenericError; handlePUT: SizeRequiredError / TooLongError; ErrClientDisconnect. -/
theorem tie_keepErrorCodes :
    keepErrorLines[7]? = some ("NotFoundError       = &KeepError{" ++ Nat.repr (getErrStatus .notFound) ++ ", \"Not Found\"}") ∧
    keepErrorLines[5]? = some ("DiskHashError       = &KeepError{" ++ Nat.repr (getErrStatus .diskHash) ++ ", \"Hash mismatch in stored data\"}") ∧
    keepErrorLines[3]? = some ("RequestHashError    = &KeepError{" ++ Nat.repr (putStatus .requestHash) ++ ", \"Hash mismatch in request\"}") ∧
    keepErrorLines[2]? = some ("CollisionError      = &KeepError{" ++ Nat.repr (putStatus .collision) ++ ", \"Collision\"}") ∧
    keepErrorLines[10]? = some ("FullError           = &KeepError{" ++ Nat.repr (putStatus .full) ++ ", \"Full\"}") ∧
    keepErrorLines[9]? = some ("GenericError        = &KeepError{" ++ Nat.repr (putStatus .generic) ++ ", \"Fail\"}") ∧
    keepErrorLines[11]? = some ("SizeRequiredError   = &KeepError{" ++
      Nat.repr (handlePut (fun (b : Nat) => b) (fun _ => 0) ([] : List (Vol Nat Nat)) 0 0 0 false).1.status ++
      ", \"Missing Content-Length\"}") ∧
    keepErrorLines[12]? = some ("TooLongError        = &KeepError{" ++
      Nat.repr (handlePut (fun (b : Nat) => b) (fun _ => ArvVerif.C01.blockSize + 1) ([] : List (Vol Nat Nat)) 0 0 0 true).1.status ++
      ", \"Block is too large\"}") ∧
    keepErrorLines[15]? = some ("ErrClientDisconnect = &KeepError{" ++
      Nat.repr (handleGetEnv (fun (b : Nat) => b) (fun _ => 0) ⟨true, some 0⟩ [(⟨false, false, 1, fun _ => none⟩ : Vol Nat Nat)] 0).status ++
      ", \"Client disconnected\"}") :=
  ⟨rfl, rfl, rfl, rfl, rfl, rfl, rfl, rfl, rfl⟩

/-- the literal codes in the model's handlePut / handlePutEnv / handleGetEnv early exits -/
theorem tie_handlerLiteralCodes :
    (ArvVerif.C01.handlePut (fun (b : Nat) => b) (fun _ => 0) ([] : List (ArvVerif.C01.Vol Nat Nat)) 0 0 0 false).1.status = 411 ∧
    (ArvVerif.C01.handlePut (fun (b : Nat) => b) (fun _ => ArvVerif.C01.blockSize + 1) ([] : List (ArvVerif.C01.Vol Nat Nat)) 0 0 0 true).1.status = 413 ∧
    (ArvVerif.C01.handlePut (fun (b : Nat) => b) (fun _ => 0) ([] : List (ArvVerif.C01.Vol Nat Nat)) 0 0 0 true).1.status = 503 ∧
    (ArvVerif.C01.handleGetEnv (fun (b : Nat) => b) (fun _ => 0) ⟨false, none⟩ ([] : List (ArvVerif.C01.Vol Nat Nat)) 0).status = 503 := by
  decide

/-- handlePUT answers a short body with the literal 500 and a missing buffer with
http.StatusServiceUnavailable (Model.C01.handlePutEnv) -/
theorem tie_handlePutInts : handlePutInts = [1, 0, 500] := rfl

/-- getBufferWithContext: a buffer, or ErrClientDisconnect when ctx ends first (Model.C01.GetEnv.bufOk) -/
theorem tie_getBufferReturns : getBufferReturns = ["buf, nil", "nil, ErrClientDisconnect"] := rfl

/-- the model's NextWritable on two writable mounts alternates starting with the second (counter
starts at 0 and is incremented before use), as the source text above prescribes -/
theorem tie_nextWritable_model :
    (ArvVerif.C01.nextWritable ([⟨false, false, 1, fun _ => none⟩, ⟨false, false, 1, fun _ => none⟩] :
      List (ArvVerif.C01.Vol Nat Nat)) 0) = (some 1, 1) := by decide

/-- handlers.go keeps no per-block state between requests: its package-level variables are the node
status, its lock and two regexps (premise of Model/C01_History.lean: the answer to a request is a function
of the current mount contents, not of earlier reads) -/
theorem tie_handlersPackageVars : handlersPackageVars =
  ["var st NodeStatus",
   "var stLock sync.Mutex",
   "var validLocatorRe = regexp.MustCompile(`^[0-9a-f]{32}$`)",
   "var authRe = regexp.MustCompile(`^(OAuth2|Bearer)\\s+(.*)`)"] := rfl

end ArvVerif.Tie.C01
