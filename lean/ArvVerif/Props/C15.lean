/-
C15 — every runnable container reaches a final state; idle instances are released.
Part (i): the *response* theorems. No fairness and no environment assumption: in every snapshot /
(state, timer) configuration the periodic dispatcher action does what the property needs. Timers
are explicit elapsed durations compared with `Timeouts` with the strictness of the Go code.
The models are C14's L1/L2 (imported) and Model/C15.lean; the differential driver runs the real
functions in the same configurations. Convergence (ii) and restart (iii): Props/C15_Live.lean.
-/
import ArvVerif.Proofs.C15
import ArvVerif.Props.C14_L2
namespace ArvVerif.C15
open ArvVerif.C14

/-! ### scheduler: `sync` -/

/-- **Running container whose process vanished ⇒ cancel.** If the queue shows a container Running,
`Running()` does not report it and no worker is Unknown, the pass spawns `cancel` for it; so it
does when the pool recorded the process's exit before the last queue update. The goroutine calls
`queue.Cancel` — unless another operation on the container holds the latch, in which case it does
nothing and the scheduler's wake-up timer is armed so that the next pass retries. -/
theorem C15_resp_cancel (anyUnknown : Bool) (qUpdated : Nat) (entries : List Ent) (runKeys : List Uuid)
    (rv : Uuid → RunView) (e : Ent) (he : e ∈ entries) (hs : e.state = .running)
    (hr : (rv e.uuid = none ∧ anyUnknown = false) ∨ ∃ t, rv e.uuid = some (some t) ∧ t < qUpdated) :
    SyncAct.goCancel e.uuid ∈ syncPass anyUnknown qUpdated entries runKeys rv ∧
    (∀ st, asyncEffectW false st .cancel e.uuid = ([.queueCancel e.uuid], false)) ∧
    (∀ st, asyncEffectW true st .cancel e.uuid = ([], true)) := by
  refine ⟨?_, fun _ => rfl, fun _ => rfl⟩
  unfold syncPass
  refine List.mem_append_left _ (List.mem_filterMap.mpr ⟨e, he, ?_⟩)
  rcases hr with ⟨h1, h2⟩ | ⟨t, h1, h2⟩
  · simp [syncEntry, hs, h1, h2]
  · simp [syncEntry, hs, h1, exitedBefore, h2]

example : SyncAct.goCancel 1 ∈ syncPass false 5 [⟨1, .running, 1, 1⟩] [] (fun _ => none) := by decide

/-- … and with an Unknown worker around the pass does *not* cancel (the process may be on it). -/
theorem C15_resp_cancel_waits (qUpdated : Nat) (rv : RunView) (e : Ent) (hs : e.state = .running) (hr : rv = none) :
    syncEntry true qUpdated rv e = none := by
  simp [syncEntry, hs, hr]

/-- **Locked container whose process exited ⇒ requeue** (`queue.Unlock`), whatever its priority,
once the queue has been updated after the exit was recorded. -/
theorem C15_resp_requeue (anyUnknown : Bool) (qUpdated : Nat) (entries : List Ent) (runKeys : List Uuid)
    (rv : Uuid → RunView) (e : Ent) (he : e ∈ entries) (hs : e.state = .locked) (t : Nat)
    (hr : rv e.uuid = some (some t)) (ht : t < qUpdated) :
    SyncAct.goRequeue e.uuid ∈ syncPass anyUnknown qUpdated entries runKeys rv ∧
    (∀ st, asyncEffectW false st .requeue e.uuid = ([.queueUnlock e.uuid], false)) ∧
    (∀ st, asyncEffectW true st .requeue e.uuid = ([], true)) := by
  refine ⟨?_, fun _ => rfl, fun _ => rfl⟩
  unfold syncPass
  refine List.mem_append_left _ (List.mem_filterMap.mpr ⟨e, he, ?_⟩)
  simp [syncEntry, hs, hr, exitedBefore, ht]

example : SyncAct.goRequeue 1 ∈ syncPass true 5 [⟨1, .locked, 3, 1⟩] [1] (fun _ => some (some 2)) := by decide

/-! ### scheduler: `fixStaleLocks` -/

/-- **fixStaleLocks returns** as soon as it looks at a pool without Unknown workers, or its timeout
fires (it also returns when it finds no stale lock). -/
theorem C15_resp_stale_returns (script : List (FslSnap × Wake)) (stale : List Uuid)
    (h : ∃ x ∈ script, x.1.anyUnknown = false ∨ x.2 = .timeout) : (fslRun script stale).isSome = true :=
  fslRun_terminates script stale h

/-- **Stale lock ⇒ unlocked.** A container that is Locked and not reported by `Running()` every
time fixStaleLocks looks while some worker is Unknown is among those it unlocks when it stops
waiting (no Unknown worker left, or timeout) after at least one look. -/
theorem C15_resp_stale_unlock (script : List (FslSnap × Wake)) (us : List Uuid) (u : Uuid)
    (hall : ∀ x ∈ script, x.1.anyUnknown = true → u ∈ staleLocks x.1.entries x.1.running)
    (hfirst : ∃ x, script.head? = some x ∧ x.1.anyUnknown = true)
    (h : fslRun script [] = some us) : u ∈ us :=
  fslRun_persistent u script [] us hall (Or.inr hfirst) h

/-- On timeout exactly the stale locks of that moment are released. -/
theorem C15_resp_stale_timeout (s : FslSnap) (rest : List (FslSnap × Wake)) (stale : List Uuid)
    (h : s.anyUnknown = true) :
    fslRun ((s, .timeout) :: rest) stale = some (staleLocks s.entries s.running) := by
  unfold fslRun
  simp only [h, Bool.not_true, Bool.false_eq_true, if_false]
  split
  · rename_i he
    rw [List.isEmpty_iff] at he
    rw [he]
  · rfl

/-- With no Unknown worker at the outset nothing is unlocked: inherited locks are then used by
`runQueue` (a Locked container that is not running is started). -/
theorem C15_resp_stale_none (s : FslSnap) (wk : Wake) (rest : List (FslSnap × Wake)) (h : s.anyUnknown = false) :
    fslRun ((s, wk) :: rest) [] = some [] := by
  simp [fslRun, h]

example : fslRun [(⟨true, [⟨1, .locked, 1, 1⟩], fun _ => false⟩, .notify),
                  (⟨false, [⟨1, .locked, 1, 1⟩], fun _ => false⟩, .notify)] [] = some [1] := by decide

/-! ### worker: boot / probe timeouts -/

/-- **Failed probes past the timeout ⇒ shutdown.** A worker that is not held, whose probe fails
(`crunch-run --list` did not succeed, or nothing booted, nothing seen, nothing tracked) and whose
last success lies `timeoutBooting` (Unknown/Booting) resp. `timeoutProbe` (Idle/Running) or more
before the start of this probe is shut down by this very probe (`Destroy` issued). -/
theorem C15_resp_probe_timeout (w : Worker) (T : Timeouts) (gu : List Uuid) (pi : ProbeIn) (now : Nat)
    (hs : w.state ≠ .shutdown) (hh : w.idleB ≠ .hold)
    (hf : (w.drainStep (mkProbe w T gu pi) now).probeFailed (mkProbe w T gu pi) = true)
    (ht : brokenThreshold w T ≤ pi.dur) :
    (probeAndUpdate w T gu pi now).1.state = .shutdown := by
  unfold probeAndUpdate
  have : (w.state == .shutdown) = false := by simpa using hs
  simp only [this, Bool.false_eq_true, if_false]
  exact probeApply_timeout w _ now hh hf (by simp [mkProbe, ht])

/-- Booting worker that never boots: shut down once `timeoutBooting` has passed. -/
theorem C15_resp_boot_timeout (w : Worker) (T : Timeouts) (gu : List Uuid) (pi : ProbeIn) (now : Nat)
    (hs : w.state = .booting) (hh : w.idleB ≠ .hold) (hb : pi.bootOk = false) (ht : T.booting ≤ pi.dur) :
    (probeAndUpdate w T gu pi now).1.state = .shutdown := by
  apply C15_resp_probe_timeout w T gu pi now (by rw [hs]; decide) hh
  · have hnb : (mkProbe w T gu pi).ok = false := by simp [mkProbe, hs, hb]
    simp [Worker.probeFailed, hnb]
  · simpa [brokenThreshold, hs] using ht

/-- Unreachable / broken instance (the run probe fails) in service: shut down once `timeoutProbe`
has passed. -/
theorem C15_resp_unreachable_timeout (w : Worker) (T : Timeouts) (gu : List Uuid) (pi : ProbeIn) (now : Nat)
    (hs : w.state = .idle ∨ w.state = .running) (hh : w.idleB ≠ .hold) (hl : pi.listOk = false)
    (ht : T.probe ≤ pi.dur) :
    (probeAndUpdate w T gu pi now).1.state = .shutdown := by
  apply C15_resp_probe_timeout w T gu pi now (by rcases hs with h | h <;> (rw [h]; decide)) hh
  · have hnb : (mkProbe w T gu pi).ok = false := by simp [mkProbe, hl]
    simp [Worker.probeFailed, hnb]
  · rcases hs with h | h <;> simpa [brokenThreshold, h] using ht

example : (probeAndUpdate ⟨1, 1, .booting, .run, [], [], 500, 500, 500⟩ ⟨60, 60, 180, 60, 60, 60⟩ []
    ⟨false, false, [], false, false, none, 60⟩ 1000).1.state = .shutdown := by decide
example : (probeAndUpdate ⟨1, 1, .booting, .run, [], [], 500, 500, 500⟩ ⟨60, 60, 180, 60, 60, 60⟩ []
    ⟨false, false, [], false, false, none, 59⟩ 1000).1.state = .booting := by decide

/-- `shutdownIfBroken` in isolation, both directions: shutdown iff not held and `dur ≥ threshold`. -/
theorem C15_resp_shutdownIfBroken (w : Worker) (T : Timeouts) (dur now : Nat) :
    ((shutdownIfBroken w T dur now).2 = true ↔ w.idleB ≠ .hold ∧ brokenThreshold w T ≤ dur) ∧
    ((shutdownIfBroken w T dur now).2 = true → (shutdownIfBroken w T dur now).1.state = .shutdown) ∧
    ((shutdownIfBroken w T dur now).2 = false → (shutdownIfBroken w T dur now).1 = w) := by
  unfold shutdownIfBroken
  by_cases h1 : w.idleB = .hold
  · simp [h1]
  · have : (w.idleB == .hold) = false := by simpa using h1
    simp only [this, Bool.false_eq_true, if_false]
    by_cases h2 : dur < brokenThreshold w T
    · simp [h2, h1] <;> omega
    · simp [h2, h1] <;> omega

/-! ### worker: broken ⇒ drain, drain ⇒ shutdown, idle timeout -/

/-- **"broken" reported with IdleBehavior run ⇒ drain.** Also when the report comes from stale run
locks seen for longer than `timeoutStaleRunLock`. -/
theorem C15_resp_broken_drain (w : Worker) (T : Timeouts) (gu : List Uuid) (pi : ProbeIn) (now : Nat)
    (hs : w.state ≠ .shutdown) (hb : w.idleB = .run) (hp : (mkProbe w T gu pi).broken = true) :
    (probeAndUpdate w T gu pi now).1.idleB = .drain := by
  unfold probeAndUpdate
  have : (w.state == .shutdown) = false := by simpa using hs
  simp only [this, Bool.false_eq_true, if_false]
  rw [probeApply_idleB]
  simp [hp, hb]

/-- When the probe of an instance in service answers, the report is believed. -/
theorem C15_resp_broken_report (w : Worker) (T : Timeouts) (gu : List Uuid) (pi : ProbeIn)
    (hs : w.state = .idle ∨ w.state = .running ∨ w.state = .unknown) (hl : pi.listOk = true)
    (hb : pi.saysBroken = true ∨ (pi.staleLine = true ∧ ∃ d, pi.staleFor = some d ∧ T.staleRunLock < d)) :
    (mkProbe w T gu pi).broken = true := by
  have hran : (((w.state == .idle || w.state == .running) || pi.bootOk) || w.state == .unknown) = true := by
    rcases hs with h | h | h <;> simp [h]
  rcases hb with h | ⟨h1, d, h2, h3⟩
  · simp [mkProbe, hran, hl, h]
  · simp [mkProbe, hran, hl, staleBroken, h1, h2, h3]

example : (probeAndUpdate ⟨1, 1, .running, .run, [], [4], 500, 500, 500⟩ ⟨60, 60, 180, 60, 60, 60⟩ []
    ⟨true, true, [4], true, false, none, 0⟩ 1000).1.idleB = .drain := by decide

/-- **Draining worker with no live runner ⇒ shutdown** at its next turn in `runProbes`: Booting or
Idle at once, Running once every remaining runner has given up. (A held worker never; a worker
still Unknown not before its first successful probe.) -/
theorem C15_resp_drain_shutdown (w : Worker) (T : Timeouts) (gu : List Uuid) (sinceBusy now : Nat)
    (hd : w.idleB = .drain)
    (hs : w.state = .booting ∨ w.state = .idle ∨ (w.state = .running ∧ allGivenUp w gu = true)) :
    (probeTick w T gu sinceBusy now).1.state = .shutdown ∧ (probeTick w T gu sinceBusy now).2 = false := by
  unfold probeTick Worker.eligibleForShutdown
  rcases hs with h | h | ⟨h, hg⟩
  · simp [h, hd]
  · simp [h, hd]
  · simp [h, hd, hg]

/-- **Idle worker past timeoutIdle ⇒ shutdown** (run mode; `≥`). -/
theorem C15_resp_idle_timeout (w : Worker) (T : Timeouts) (gu : List Uuid) (sinceBusy now : Nat)
    (hs : w.state = .idle) (hb : w.idleB = .run) (ht : T.idle ≤ sinceBusy) :
    (probeTick w T gu sinceBusy now).1.state = .shutdown ∧ (probeTick w T gu sinceBusy now).2 = false := by
  unfold probeTick Worker.eligibleForShutdown idleTimedOut
  simp [hs, hb, ht]

/-- … and only then: a run-mode worker that is busy, booting, unknown, or idle for less than
`timeoutIdle` is left alone and probed; a held worker is never shut down here. -/
theorem C15_resp_no_early_shutdown (w : Worker) (T : Timeouts) (gu : List Uuid) (sinceBusy now : Nat)
    (h : w.idleB = .hold ∨ (w.idleB = .run ∧ (w.state ≠ .idle ∨ sinceBusy < T.idle))) :
    (probeTick w T gu sinceBusy now).1 = w := by
  unfold probeTick Worker.eligibleForShutdown idleTimedOut
  rcases h with h | ⟨h, h' | h'⟩
  · simp only [h, beq_self_eq_true, if_true]
    split <;> rfl
  · cases hst : w.state <;> simp_all
  · have hn : ¬ T.idle ≤ sinceBusy := by omega
    cases hst : w.state <;> simp [h, hn]

example : (probeTick ⟨1, 1, .idle, .run, [], [], 0, 0, 0⟩ ⟨60, 60, 180, 60, 60, 60⟩ [] 60 1000).1.state = .shutdown := by
  decide
example : (probeTick ⟨1, 1, .running, .drain, [], [3], 0, 0, 0⟩ ⟨60, 60, 180, 60, 60, 60⟩ [3] 0 1000).1.state = .shutdown := by
  decide

/-! ### pool: Destroy retried -/

/-- **Shutdown worker still listed after timeoutShutdown ⇒ Destroy re-issued**, and the worker is
kept (in StateShutdown) for the next sync. For any instance list in which the instance occurs
(ids of the listed instances pairwise distinct, as they are keys of the cloud's list). -/
theorem C15_resp_destroy_retry (p : Pool) (threshold now : Nat) (listed : List Pool.Listed)
    (T : Timeouts) (sinceDestroyed : Nat → Nat) (l : Pool.Listed) (w : Worker)
    (hl : l ∈ listed) (hd : listed.Pairwise (fun a b => a.id ≠ b.id))
    (hf : p.find l.id = some w) (hs : w.state = .shutdown) (ht : T.shutdown < sinceDestroyed l.id)
    (hnow : threshold < now) :
    l.id ∈ (poolSync p threshold listed (retryOf T sinceDestroyed) now).2 ∧
    ∃ w' ∈ (poolSync p threshold listed (retryOf T sinceDestroyed) now).1.workers,
      w'.id = l.id ∧ w'.state = .shutdown := by
  have hr : retryOf T sinceDestroyed l.id = true := by simp [retryOf, ht]
  -- split the list at l
  obtain ⟨pre, post, rfl⟩ := List.append_of_mem hl
  have hpre : ∀ x ∈ pre, x.id ≠ l.id := by
    intro x hx
    have := List.pairwise_append.mp hd
    exact this.2.2 x hx l List.mem_cons_self
  have hpost : ∀ x ∈ post, x.id ≠ l.id := by
    intro x hx
    have := (List.pairwise_append.mp hd).2.1
    exact fun e => (List.rel_of_pairwise_cons this hx) e.symm
  -- before l: its worker is untouched
  have h1 : ∀ (xs : List Pool.Listed) (acc : Pool × List Nat), (∀ x ∈ xs, x.id ≠ l.id) →
      (xs.foldl (syncStep (retryOf T sinceDestroyed) now) acc).1.find l.id = acc.1.find l.id := by
    intro xs
    induction xs with
    | nil => intro acc _; rfl
    | cons x rest ih =>
      intro acc hx
      rw [List.foldl_cons, ih _ (fun y hy => hx y (List.mem_cons_of_mem _ hy))]
      exact syncStep_other _ _ _ _ _ (hx x List.mem_cons_self)
  unfold poolSync
  dsimp only
  rw [List.foldl_append, List.foldl_cons]
  have hfind := (h1 pre (p, []) hpre).trans hf
  obtain ⟨hin, w', hw', hst', hup'⟩ := syncStep_retry (retryOf T sinceDestroyed) now _ l w hfind hs hr
  refine ⟨fold_mono _ _ post _ _ hin, w', ?_, ?_, hst'⟩
  · have h2 := (h1 post _ hpost).trans hw'
    have hmem : w' ∈ (post.foldl (syncStep (retryOf T sinceDestroyed) now)
        (syncStep (retryOf T sinceDestroyed) now
          (pre.foldl (syncStep (retryOf T sinceDestroyed) now) (p, [])) l)).1.workers := by
      unfold Pool.find at h2
      exact List.mem_of_find?_eq_some h2
    exact List.mem_filter.mpr ⟨hmem, by simp [hup', hnow]⟩
  · exact find_eq_some_id hw'

example : (poolSync ⟨[⟨1, 1, .shutdown, .run, [], [], 100, 100, 100⟩], []⟩ 500
    [⟨1, 1, none, false⟩] (retryOf ⟨60, 60, 180, 60, 60, 60⟩ (fun _ => 120)) 1000).2 = [1] := by decide
example : (poolSync ⟨[⟨1, 1, .shutdown, .run, [], [], 100, 100, 100⟩], []⟩ 500
    [⟨1, 1, none, false⟩] (retryOf ⟨60, 60, 180, 60, 60, 60⟩ (fun _ => 60)) 1000).2 = [] := by decide

/-- The pool that `poolSync` leaves is exactly C14's `Pool.sync` (so C14's L2 theorems apply). -/
theorem C15_poolSync_is_C14_sync (p : Pool) (threshold : Nat) (listed : List Pool.Listed) (retry : Nat → Bool)
    (now : Nat) : (poolSync p threshold listed retry now).1 = p.sync threshold listed retry now :=
  poolSync_fst p threshold listed retry now

/-! ### pool: a Create call that has returned is no longer pending -/

/-- **Create settles.** Whatever the cloud answers — instance, quota error, rate-limit error, other
error — the call leaves `wp.creating` when it returns, so `Unallocated()` counts it afterwards only
if a worker was really added; a quota error switches `Create` off until quotaErrorTTL has passed and
a rate-limit error until its retry time, and in both cases later calls are refused without being
registered. -/
theorem C15_resp_create_settles (p : CPool) (r : CreateRes) (h : 0 < p.creating) :
    (p.ret r).creating = p.creating - 1 ∧
    (p.ret r).unallocated = p.unallocated - (if r = .ok then 0 else 1) ∧
    (r = .quota → (p.ret r).atQuota = true) ∧ (r = .rateLimit → (p.ret r).throttled = true) ∧
    ((p.ret r).atQuota = true ∨ (p.ret r).throttled = true → (p.ret r).call = none) := by
  refine ⟨rfl, ?_, ?_, ?_, ?_⟩
  · unfold CPool.ret CPool.unallocated
    cases r <;> simp <;> omega
  · intro e; simp [CPool.ret, e]
  · intro e; simp [CPool.ret, e]
  · intro hq
    unfold CPool.call
    rcases hq with hq | hq <;> simp [hq]

/-- After any sequence of completed `Create` calls (and back-off expiries) nothing is pending and
`Unallocated()` is exactly the number of workers that were added. -/
theorem C15_resp_create_no_phantom (script : List (Option CreateRes)) (p : CPool) (h : p.creating = 0) :
    let q := script.foldl (fun p s => match s with
      | some r => (p.create r).1
      | none => { p with atQuota := false, throttled := false }) p
    q.creating = 0 ∧ q.unallocated = q.booting := by
  induction script generalizing p with
  | nil => exact ⟨h, by simp [CPool.unallocated, h]⟩
  | cons s rest ih =>
    simp only [List.foldl_cons]
    apply ih
    cases s with
    | none => exact h
    | some r =>
      show (p.create r).1.creating = 0
      unfold CPool.create CPool.call
      by_cases hc : (p.atQuota || p.throttled) = true
      · simp [hc, h]
      · simp [hc, h, CPool.ret]

example : ((⟨0, 0, false, false⟩ : CPool).create .quota).1 = ⟨0, 0, true, false⟩ := by decide
example : ((⟨0, 0, false, false⟩ : CPool).create .ok).1.unallocated = 1 := by decide

/-! ### pool: the sync loop keeps going -/

/-- **Every iteration of `runSync` re-arms its timer**, whether the listing succeeded or failed (cloud
error, rate limit, throttle hold-off): as many re-arms as listings, each listing directly followed by
one, so the loop is never left waiting on a dead timer. -/
theorem C15_resp_sync_rearmed (rs : List ListRes) :
    (runSync rs).count .rearm = rs.length ∧
    (∀ pre post r, runSync rs = pre ++ .list r :: post → ∃ post', post = .rearm :: post') ∧
    (rs ≠ [] → (runSync rs).getLast? = some .rearm) := by
  induction rs with
  | nil =>
    refine ⟨rfl, ?_, fun h => absurd rfl h⟩
    intro pre post r h
    cases pre <;> simp [runSync] at h
  | cons x rest ih =>
    obtain ⟨h1, h2, h3⟩ := ih
    have hc : runSync (x :: rest) = .list x :: .rearm :: runSync rest := by simp [runSync, runSyncIter]
    refine ⟨?_, ?_, ?_⟩
    · rw [hc]; simp [List.count_cons, h1]
    · intro pre post r h
      rw [hc] at h
      cases pre with
      | nil =>
        simp only [List.nil_append, List.cons.injEq] at h
        exact ⟨runSync rest, h.2.symm⟩
      | cons a pre' =>
        simp only [List.cons_append, List.cons.injEq] at h
        cases pre' with
        | nil => simp at h
        | cons b pre'' =>
          simp only [List.cons_append, List.cons.injEq] at h
          exact h2 pre'' post r h.2.2
    · intro _
      rw [hc]
      by_cases hr : rest = []
      · subst hr; rfl
      · have := h3 hr
        rw [List.getLast?_cons_cons, List.getLast?_cons]
        cases hl : (runSync rest).getLast? with
        | none => rw [hl] at this; cases this
        | some y => rw [hl] at this; simpa using this

example : runSync [.err, .ok] = [.list .err, .rearm, .list .ok, .rearm] := by decide

/-! ### worker: tags are merged, the executor is closed outside the pool mutex -/

theorem Tags.get_set_same (t : Tags) (k v : String) : (t.set k v).get k = some v := by
  induction t with
  | nil => simp [Tags.set, Tags.get]
  | cons p rest ih =>
    unfold Tags.set
    by_cases h : (p.1 == k) = true
    · simp [h, Tags.get]
    · simp only [h, Bool.false_eq_true, if_false]
      unfold Tags.get at ih ⊢
      simp only [List.find?_cons, h]
      exact ih

theorem Tags.get_set_other (t : Tags) (k k' v : String) (hne : k' ≠ k) : (t.set k v).get k' = t.get k' := by
  induction t with
  | nil =>
    have : (k == k') = false := by simpa using fun e => hne e.symm
    simp [Tags.set, Tags.get, this]
  | cons p rest ih =>
    unfold Tags.set
    by_cases h : (p.1 == k) = true
    · have hk : p.1 = k := by simpa using h
      have h1 : (k == k') = false := by simpa using fun e => hne e.symm
      have h2 : (p.1 == k') = false := by rw [hk]; exact h1
      simp [h, Tags.get, List.find?_cons, h1, h2]
    · simp only [h, Bool.false_eq_true, if_false]
      unfold Tags.get at ih ⊢
      simp only [List.find?_cons]
      cases hp : (p.1 == k') with
      | true => rfl
      | false => exact ih

/-- **saveTags keeps every other tag.** Whenever it writes, the set it writes carries the worker's
instance type and idle behaviour and, unchanged, every other tag the instance had — in particular
the InstanceSetID tag by which the pool finds its instances again. -/
theorem C15_resp_saveTags_merges (tags t' : Tags) (kType kIdle itName ib : String) (hk : kType ≠ kIdle)
    (h : saveTags tags kType kIdle itName ib = some t') :
    t'.get kType = some itName ∧ t'.get kIdle = some ib ∧
    ∀ k, k ≠ kType → k ≠ kIdle → t'.get k = tags.get k := by
  unfold saveTags at h
  split at h
  · cases h
  · simp only [Option.some.injEq] at h
    subst h
    refine ⟨?_, Tags.get_set_same _ _ _, ?_⟩
    · rw [Tags.get_set_other _ _ _ _ hk]; exact Tags.get_set_same _ _ _
    · intro k h1 h2
      rw [Tags.get_set_other _ _ _ _ h2, Tags.get_set_other _ _ _ _ h1]

/-- … and it writes nothing only when both are already there. -/
theorem C15_resp_saveTags_none (tags : Tags) (kType kIdle itName ib : String)
    (h : saveTags tags kType kIdle itName ib = none) :
    tags.get kType = some itName ∧ tags.get kIdle = some ib := by
  unfold saveTags at h
  split at h
  · rename_i hc
    simpa using hc
  · cases h

example : saveTags [("InstanceSetID", "s"), ("IdleBehavior", "run"), ("InstanceType", "t")] "InstanceType" "IdleBehavior"
    "t" "drain" = some [("InstanceSetID", "s"), ("IdleBehavior", "drain"), ("InstanceType", "t")] := by decide

/-- **`worker.Close()` closes the executor only after releasing the pool mutex.** -/
theorem C15_resp_close_outside_lock :
    ∃ pre post, workerClose = pre ++ .unlock :: post ∧ CloseEv.executorClose ∈ post ∧
      CloseEv.executorClose ∉ pre ∧ CloseEv.lock ∈ pre :=
  ⟨[.lock, .abandonRunners], [.executorClose], rfl, by decide, by decide, by decide⟩

/-! ### runner: Kill gives up -/

/-- **Unkillable process past timeoutTERM ⇒ worker set to drain.** The Kill goroutine ends as soon
as a tick comes strictly after the TERM deadline (if not before: runner closed); if no kill command
ever succeeds and the runner stays tracked it ends by giving up; giving up marks the runner
`givenup` and sets the worker to drain — a held worker is left alone — and a worker all of whose
runners have given up is shut down in the same step. -/
theorem C15_resp_unkillable (T : Timeouts) (u : Uuid) (now : Nat) (script : List KTick) (s : KState)
    (hexp : ∃ t ∈ script, T.term < t.elapsed) :
    (killRun T u now script s).2 ≠ .waiting ∧
    (tracked s.w u = true → (∀ t ∈ script, t.sigOk = false) → (killRun T u now script s).2 = .gaveUp) ∧
    (∀ s', killRun T u now script s = (s', .gaveUp) →
      u ∈ s'.gu ∧ (s.w.idleB = .hold → s'.w.idleB = .hold) ∧ (s.w.idleB ≠ .hold → s'.w.idleB = .drain)) :=
  ⟨killRun_terminates T u now script s hexp,
   fun htr hall => killRun_unkillable T u now script s htr hall hexp,
   fun s' h => killRun_gaveUp T u now script s s' h⟩

/-- `onUnkillable`: drain unless held; shutdown at once when every runner has given up. -/
theorem C15_resp_onUnkillable (w : Worker) (gu : List Uuid) (now : Nat) :
    (w.idleB = .hold → onUnkillable w gu now = w) ∧
    (w.idleB ≠ .hold → (onUnkillable w gu now).idleB = .drain) ∧
    (w.idleB ≠ .hold → w.state = .running → allGivenUp w gu = true → (onUnkillable w gu now).state = .shutdown) := by
  unfold onUnkillable
  refine ⟨fun h => by simp [h], fun h => ?_, fun h hs hg => ?_⟩
  · have : (w.idleB == .hold) = false := by simpa using h
    simp only [this, Bool.false_eq_true, if_false]
    exact (Worker.setIdleBehavior_spec w .drain false _ now).2.2.1
  · have : (w.idleB == .hold) = false := by simpa using h
    simp only [this, Bool.false_eq_true, if_false]
    simp [Worker.setIdleBehavior, Worker.shutdownIfIdle, Worker.eligibleForShutdown, hs, hg, Worker.shutdown]

example : (killRun ⟨60, 60, 180, 60, 60, 60⟩ 3 1000 [⟨1, false⟩, ⟨2, false⟩, ⟨61, false⟩]
    ⟨⟨1, 1, .running, .run, [], [3], 0, 0, 0⟩, [], []⟩).2 = .gaveUp := by decide
example : (killRun ⟨60, 60, 180, 60, 60, 60⟩ 3 1000 [⟨1, false⟩, ⟨60, false⟩]
    ⟨⟨1, 1, .running, .run, [], [3], 0, 0, 0⟩, [], []⟩).2 = .waiting := by decide

/-! ### no work for bad workers -/

/-- **A draining, held, booting, unknown, running or shut-down worker never receives
`StartContainer`**: the chosen worker is Idle in run mode (C14 L2 `C14_start_needs_idle_run`,
restated by contraposition). -/
theorem C15_resp_no_start_on_bad (p p' : Pool) (hwf : p.WF) (it : IType) (u : Uuid) (w : Worker)
    (hw : w ∈ p.workers) (hbad : w.idleB ≠ .run ∨ w.state ≠ .idle)
    (h : p.startContainer it u w.id = some p') : False := by
  obtain ⟨w', hw', hid, _, hst, hib, _⟩ := C14_start_needs_idle_run p p' hwf it u w.id h
  have : w' = w := by
    have h1 := Pool.find_of_mem hwf hw'
    have h2 := Pool.find_of_mem hwf hw
    rw [hid] at h1
    rw [h1] at h2
    exact Option.some.inj h2
  subst this
  rcases hbad with hb | hb
  · exact hb hib
  · exact hb hst

example : Pool.startCandidates ⟨[⟨1, 1, .idle, .drain, [], [], 0, 0, 0⟩, ⟨2, 1, .booting, .run, [], [], 0, 0, 0⟩,
    ⟨3, 1, .idle, .hold, [], [], 0, 0, 0⟩, ⟨4, 1, .shutdown, .run, [], [], 0, 0, 0⟩,
    ⟨5, 1, .unknown, .run, [], [], 0, 0, 0⟩], []⟩ 1 = [] := by decide

end ArvVerif.C15
