/-
C09 — property theorem `C09_load_marshal_preserves`: loading any valid manifest and saving it
unchanged preserves every file's content (and needs no Keep write at all).
-/
import ArvVerif.Proofs.C09_Load
import ArvVerif.Proofs.C09_Glue
import ArvVerif.Proofs.C09_Group
import ArvVerif.Props.C09
namespace ArvVerif.C09

open ArvVerif.C08 (Seg FileNode Store SegWF AllWF StoreOK StoreExt)
open ArvVerif.C10 (bSlash bDot specLocator)

variable {max : Nat} {hash : Bytes → C08.Loc}

theorem flushTree9_stored (k : Keep) : ∀ (t : Tree9), (∀ d ∈ t, ∀ f ∈ d.files, ∀ s ∈ f.2.segs, s.isMem = false) →
    flushTree9 hash max k t = (k, t, true)
  | [], _ => rfl
  | d :: rest, h => by
    unfold flushTree9
    have hd : flushDir9 hash max k d = (k, d, true) := by
      unfold flushDir9
      split
      · rfl
      · unfold flushFilesK
        rw [flushGroups_stored max true _ (by
          intro fn hfn s hs
          obtain ⟨f, hf, rfl⟩ := List.mem_map.mp hfn
          exact h d (by simp) f hf s hs)]
        simp only [commitGroups, Dir9.setFiles, zip_fst_snd]
    rw [hd]
    simp only []
    rw [flushTree9_stored k rest (fun x hx => h x (List.mem_cons_of_mem _ hx))]
    rfl

theorem treeLines_some : ∀ (t : Tree9), (∀ d ∈ t, ∀ f ∈ d.files, ∀ s ∈ f.2.segs, s.isMem = false) →
    ∃ L, treeLines t = some L
  | [], _ => ⟨[], rfl⟩
  | d :: rest, h => by
    obtain ⟨b, hb⟩ := treeLines_some rest (fun x hx => h x (List.mem_cons_of_mem _ hx))
    have : ∃ a, dirLines d = some a := by
      unfold dirLines
      split
      · exact ⟨_, rfl⟩
      · obtain ⟨e, he⟩ := emitFiles_some d.files ⟨[], 0, []⟩ (h d (by simp))
        rw [he]; exact ⟨_, rfl⟩
    obtain ⟨a, ha⟩ := this
    unfold treeLines
    rw [ha, hb]
    exact ⟨_, rfl⟩

/-- **Load, then save unchanged.** Let `txt` be any text inside the published grammar whose sizes
the loader can represent and in which no path is both file and directory; let Keep hold its blocks
(with the sizes the locators state). Then (for ANY locator function `hash`) `loadManifest` succeeds, and for every tree that holds
exactly the loaded files (directories with proper, pairwise distinct names; the glue that arranges
the loader's files into directories is exercised by the differential check):
* saving succeeds whatever the Keep script says — no Keep write is attempted, Keep and tree are
  unchanged;
* the saved manifest, read as the format document says, assigns to the path of every file exactly the
  bytes the ORIGINAL manifest assigns to it, and the tree has a file for every path of the original
  manifest and no other (so content and total size are preserved file by file);
* if no name holds 0x7f the saved text is inside the grammar and parses to those lines;
* the tree satisfies `SaveOK` over this Keep (so every other C09 theorem applies to it). -/
theorem C09_load_marshal_preserves (txt : Bytes) (M : C10.Manifest)
    (hvalid : C10.parseSpec txt = some M) (hfit : ∀ s ∈ M, C10.FitsFs s) (htree : C10.TreeConsistent M)
    (k : Keep) (hk : KeepOK hash k)
    (hblocks : ∀ s ∈ M, ∀ b ∈ s.blocks, ∃ x, k.store b.text = some x ∧ x.length = b.size)
    (size : Bytes → Nat) (hsize : ∀ s ∈ M, ∀ b ∈ s.blocks, size b.text = b.size) :
    ∃ tr, C10.fsLoad txt = some tr ∧
      ∀ (t : Tree9), Represents size tr t → (dirPaths t).Nodup → (∀ d ∈ t, (d.files.map (·.1)).Nodup) →
        (∀ d ∈ t, ∀ c ∈ d.path, NameOK c) →
        ∃ txt' L', marshal9 hash max k t = (k, t, MRes.ok txt') ∧ treeLines t = some L' ∧
          (∀ d ∈ t, ∀ f ∈ d.files,
            C10.pathOf (prefixOf d.path) f.1 ∈ C10.pathsOf M ∧
            C08.abs k.store f.2 = C10.fileContent (blkOf k.store) M (C10.pathOf (prefixOf d.path) f.1) ∧
            C10.fileContent (blkOf k.store) (streamsOf L') (C10.pathOf (prefixOf d.path) f.1) =
              C10.fileContent (blkOf k.store) M (C10.pathOf (prefixOf d.path) f.1)) ∧
          (∀ p ∈ C10.pathsOf M, ∃ d ∈ t, ∃ f ∈ d.files, p = C10.pathOf (prefixOf d.path) f.1) ∧
          (NoDel t → parse9 txt' = some L') ∧ SaveOK max hash k t := by
  obtain ⟨tr, hload, hinv⟩ := fsLoad_inv txt M hvalid hfit htree
  refine ⟨tr, hload, ?_⟩
  intro t hrep hpn hnn hdirs
  have hlocs := parseSpec_blocks txt M hvalid
  have hblk : ∀ s ∈ M, ∀ b ∈ s.blocks, (blkOf k.store b.text).length = b.size := by
    intro s hs b hb
    obtain ⟨x, hx, hl⟩ := hblocks s hs b hb
    simp [blkOf, hx, hl]
  -- every file of the tree: key, segments, content
  have hfile : ∀ d ∈ t, ∀ f ∈ d.files,
      C10.KeyOk (d.path ++ [f.1]) ∧
      C10.pathOf (prefixOf d.path) f.1 ∈ C10.pathsOf M ∧
      f.2.segs = (C10.resolve M (C10.pathOf (prefixOf d.path) f.1)).map (segOf size) := by
    intro d hd f hf
    obtain ⟨e, he, hkey, hsegs⟩ := hrep.files d hd f hf
    obtain ⟨hko, hin, heq⟩ := hinv.files e he
    have hp : C10.pathOfKey e.1 = C10.pathOf (prefixOf d.path) f.1 := by
      rw [hkey, pathOf_prefixOf]; rfl
    refine ⟨by rw [← hkey]; exact hko, ?_, ?_⟩
    · rw [← hp]
      simp only [C10.manifestContribs, C10.contribsOf, List.map_flatMap, List.map_map, List.mem_flatMap, List.mem_map,
        Function.comp] at hin
      obtain ⟨s, hs, ft, hft, hq⟩ := hin
      rw [← hq]
      unfold C10.pathsOf
      rw [List.mem_eraseDups, List.mem_flatMap]
      exact ⟨s, hs, List.mem_map.mpr ⟨ft, hft, rfl⟩⟩
    · rw [hsegs, heq, C10.contribOf_manifest, hp]
  have hstored : ∀ d ∈ t, ∀ f ∈ d.files, ∀ s ∈ f.2.segs, s.isMem = false := by
    intro d hd f hf s hs
    rw [(hfile d hd f hf).2.2] at hs
    obtain ⟨sg, _, rfl⟩ := List.mem_map.mp hs
    rfl
  have hnames : ∀ d ∈ t, ∀ f ∈ d.files, NameOK f.1 := by
    intro d hd f hf
    obtain ⟨_, hok, hns⟩ := (hfile d hd f hf).1
    have hm : f.1 ∈ d.path ++ [f.1] := by simp
    have := C10.componentsOk_mem hok hm
    exact ⟨this.1, this.2.1, this.2.2, hns f.1 hm⟩
  have hsegwf : ∀ d ∈ t, ∀ f ∈ d.files, ∀ s ∈ f.2.segs, SegWF max hash k.store s ∧
      ∀ loc sz off len, s = Seg.stored loc sz off len → specLocator loc = some ⟨loc, sz⟩ := by
    intro d hd f hf s hs
    rw [(hfile d hd f hf).2.2] at hs
    obtain ⟨sg, hsg, rfl⟩ := List.mem_map.mp hs
    obtain ⟨s0, hs0, b, hb, h1, h2, h3⟩ := resolve_inside M _ sg hsg
    obtain ⟨x, hx, hxl⟩ := hblocks s0 hs0 b hb
    have hsz : size sg.loc = b.size := by rw [h1]; exact hsize s0 hs0 b hb
    constructor
    · exact ⟨h3, by rw [hsz]; exact h2, x, by rw [h1]; exact hx, by rw [hsz]; exact hxl⟩
    · intro loc sz off len heq
      simp only [segOf, Seg.stored.injEq] at heq
      obtain ⟨e1, e2, _, _⟩ := heq
      rw [← e1, ← e2, hsz, h1]
      exact hlocs s0 hs0 b hb
  have hok : SaveOK max hash k t :=
    ⟨hk, fun d hd fn hfn s hs => by
        obtain ⟨f, hf, rfl⟩ := List.mem_map.mp hfn
        exact (hsegwf d hd f hf s hs).1,
      hpn, hnn, hdirs, hnames,
      fun d hd f hf loc sz off len hs => (hsegwf d hd f hf _ hs).2 loc sz off len rfl⟩
  obtain ⟨L', hL'⟩ := treeLines_some t hstored
  obtain ⟨txt', htxt'⟩ := treeText_some t hstored
  have hrun : marshal9 hash max k t = (k, t, MRes.ok txt') := by
    unfold marshal9
    simp only [flushTree9_stored (hash := hash) (max := max) k t hstored, if_true, htxt']
  refine ⟨txt', L', hrun, hL', ?_, ?_, ?_, hok⟩
  · intro d hd f hf
    obtain ⟨_, hin, hsegs⟩ := hfile d hd f hf
    have habs : C08.abs k.store f.2 = C10.fileContent (blkOf k.store) M (C10.pathOf (prefixOf d.path) f.1) := by
      unfold C08.abs
      rw [hsegs, absSegs_segOf size _ (by
        intro sg hsg
        obtain ⟨s0, hs0, b, hb, h1, _, _⟩ := resolve_inside M _ sg hsg
        obtain ⟨x, hx, _⟩ := hblocks s0 hs0 b hb
        exact ⟨x, by rw [h1]; exact hx⟩)]
      exact C10.resolve_bytes (blkOf k.store) M _ hblk
    refine ⟨hin, habs, ?_⟩
    rw [← habs]
    exact treeLines_content (max := max) (hash := hash) t L' hok.shape
      (fun d hd f hf s hs => (hsegwf d hd f hf s hs).1) hL' d hd f hf
  · intro p hp
    -- the loader made a file for every path of the manifest, and the tree holds every loaded file
    unfold C10.pathsOf at hp
    rw [List.mem_eraseDups, List.mem_flatMap] at hp
    obtain ⟨s, hs, hp⟩ := hp
    obtain ⟨ft, hft, rfl⟩ := List.mem_map.mp hp
    obtain ⟨e, he, hpe⟩ := hinv.has (C10.pathOf s.name ft.name, C10.resolveTok s.blocks 0 ft.pos ft.len)
      (List.mem_flatMap.mpr ⟨s, hs, List.mem_map.mpr ⟨ft, hft, rfl⟩⟩)
    obtain ⟨d, hd, f, hf, hkey⟩ := hrep.all e he
    refine ⟨d, hd, f, hf, ?_⟩
    rw [pathOf_prefixOf, ← hkey]
    exact hpe.symm
  · intro hnd
    obtain ⟨L, h1, h2⟩ := treeText_parse9 t (hok.treeOK hnd) txt' htxt'
    rw [h1] at hL'
    cases hL'
    exact h2

/-- **Load, then save unchanged — with the glue hypotheses decided by execution.** The model driver
builds C08's directory/handle layer from the loader's flat image (`fsOfTree`), extracts the directory
list it marshals (`treeOf`) and evaluates `glueOK` on it after every load (`loadFSChecked`; a failed
check is printed as `load=glue`, which never agrees with the implementation). Whenever that check
passes, all conclusions of `C09_load_marshal_preserves` hold for the very list the driver marshals —
no hypothesis about the glue is left; and the loader's size function is `sizeOfLoc` (what
`fsLocator` reads from the locator). -/
theorem C09_load_marshal_checked (txt : Bytes) (M : C10.Manifest)
    (hvalid : C10.parseSpec txt = some M) (hfit : ∀ s ∈ M, C10.FitsFs s) (htree : C10.TreeConsistent M)
    (k : Keep) (hk : KeepOK hash k)
    (hblocks : ∀ s ∈ M, ∀ b ∈ s.blocks, ∃ x, k.store b.text = some x ∧ x.length = b.size) :
    (∃ r, loadFSChecked k txt = some r) ∧
      ∀ s, loadFSChecked k txt = some (some s) →
        ∃ txt' L', marshal9 hash max k (treeOf s) = (k, treeOf s, MRes.ok txt') ∧ treeLines (treeOf s) = some L' ∧
          (∀ d ∈ treeOf s, ∀ f ∈ d.files,
            C10.pathOf (prefixOf d.path) f.1 ∈ C10.pathsOf M ∧
            C08.abs k.store f.2 = C10.fileContent (blkOf k.store) M (C10.pathOf (prefixOf d.path) f.1) ∧
            C10.fileContent (blkOf k.store) (streamsOf L') (C10.pathOf (prefixOf d.path) f.1) =
              C10.fileContent (blkOf k.store) M (C10.pathOf (prefixOf d.path) f.1)) ∧
          (∀ p ∈ C10.pathsOf M, ∃ d ∈ treeOf s, ∃ f ∈ d.files, p = C10.pathOf (prefixOf d.path) f.1) ∧
          (NoDel (treeOf s) → parse9 txt' = some L') ∧ SaveOK max hash k (treeOf s) := by
  have hsize : ∀ s ∈ M, ∀ b ∈ s.blocks, sizeOfLoc b.text = b.size := by
    intro s hs b hb
    have h1 := parseSpec_blocks txt M hvalid s hs b hb
    have h2 : b.size < C10.two31 := (hfit s hs).1 b hb
    unfold sizeOfLoc
    rw [(C10.fsLocator_spec b.text b h1 h2).1]
  obtain ⟨tr, hload, hmain⟩ := C09_load_marshal_preserves (max := max) (hash := hash) txt M hvalid hfit htree k hk hblocks
    sizeOfLoc hsize
  constructor
  · unfold loadFSChecked; rw [hload]; exact ⟨_, rfl⟩
  · intro s hs
    unfold loadFSChecked at hs
    rw [hload] at hs
    simp only [Option.map_some, Option.some.injEq] at hs
    split at hs
    · next hg =>
      simp only [Option.some.injEq] at hs
      subst hs
      obtain ⟨g1, g2, g3, g4⟩ := glueOK_sound sizeOfLoc tr _ hg
      exact hmain _ g1 g2 g3 g4
    · cases hs

/-- **Load, then save unchanged — no side condition.** For every text inside the published grammar whose
sizes the loader can represent, in which no path is both file and directory and whose blocks Keep holds:
`loadManifest` succeeds, and for the directory list of the loaded tree (`groupTree`: the root and the
loader's directories, each with the loader's files directly in it — `C09_loader_tree_wellformed` and
`C09_loader_makes_ancestors` show it satisfies every hypothesis on the list) saving succeeds whatever Keep
would answer, attempts no write, and the saved text assigns to every path of the original manifest, and to
no other, exactly the original bytes. (The model driver marshals `treeOf (fsOfTree …)`, C08's tables built
from the same loaded tree; that this list also satisfies the hypotheses is decided per executed case by
`glueOK`, see `C09_load_marshal_checked`.) -/
theorem C09_load_marshal_total (txt : Bytes) (M : C10.Manifest)
    (hvalid : C10.parseSpec txt = some M) (hfit : ∀ s ∈ M, C10.FitsFs s) (htree : C10.TreeConsistent M)
    (k : Keep) (hk : KeepOK hash k)
    (hblocks : ∀ s ∈ M, ∀ b ∈ s.blocks, ∃ x, k.store b.text = some x ∧ x.length = b.size) :
    ∃ tr txt' L', C10.fsLoad txt = some tr ∧
      marshal9 hash max k (groupTree tr) = (k, groupTree tr, MRes.ok txt') ∧ treeLines (groupTree tr) = some L' ∧
      (∀ d ∈ groupTree tr, ∀ f ∈ d.files,
        C10.pathOf (prefixOf d.path) f.1 ∈ C10.pathsOf M ∧
        C08.abs k.store f.2 = C10.fileContent (blkOf k.store) M (C10.pathOf (prefixOf d.path) f.1) ∧
        C10.fileContent (blkOf k.store) (streamsOf L') (C10.pathOf (prefixOf d.path) f.1) =
          C10.fileContent (blkOf k.store) M (C10.pathOf (prefixOf d.path) f.1)) ∧
      (∀ p ∈ C10.pathsOf M, ∃ d ∈ groupTree tr, ∃ f ∈ d.files, p = C10.pathOf (prefixOf d.path) f.1) ∧
      (NoDel (groupTree tr) → parse9 txt' = some L') ∧ SaveOK max hash k (groupTree tr) := by
  have hsize : ∀ s ∈ M, ∀ b ∈ s.blocks, sizeOfLoc b.text = b.size := by
    intro s hs b hb
    have h1 := parseSpec_blocks txt M hvalid s hs b hb
    have h2 : b.size < C10.two31 := (hfit s hs).1 b hb
    unfold sizeOfLoc
    rw [(C10.fsLocator_spec b.text b h1 h2).1]
  obtain ⟨tr, hload, hmain⟩ := C09_load_marshal_preserves (max := max) (hash := hash) txt M hvalid hfit htree k hk hblocks
    sizeOfLoc hsize
  obtain ⟨g1, g2, g3, g4⟩ := groupTree_ok tr (fsLoad_wf txt tr hload) (fsLoad_cover txt tr hload)
  obtain ⟨txt', L', r⟩ := hmain _ g1 g2 g3 g4
  exact ⟨tr, txt', L', hload, r⟩

/-! ## non-vacuity -/

def exLoc : Bytes := C10.str "aaaaaaaaaaaaaaaaaaaaaaaaaaaaaaaa+3"
def exTxt : Bytes := C10.str ". aaaaaaaaaaaaaaaaaaaaaaaaaaaaaaaa+3 aaaaaaaaaaaaaaaaaaaaaaaaaaaaaaaa+3 1:4:a 0:0:b\n"
def exM : C10.Manifest := [⟨[46], [⟨exLoc, 3⟩, ⟨exLoc, 3⟩], [⟨1, 4, [97]⟩, ⟨0, 0, [98]⟩]⟩]
/-- Keep holding the one block of the text -/
def exKeepL : Keep := ⟨fun l => if l = exLoc then some [7, 8, 9] else none, [], [], Outcome.fail, 0, 0⟩

/-- a valid text: one block listed twice, a file spanning both copies, an empty file -/
example : C10.parseSpec exTxt = some exM := by decide +kernel
example : ∀ s ∈ exM, C10.FitsFs s := by
  intro s hs; simp only [exM, List.mem_singleton] at hs; subst hs
  exact ⟨by intro b hb; simp at hb; rcases hb with rfl | rfl <;> decide, by decide⟩
example : C10.TreeConsistent exM := by decide +kernel
example : KeepOK (fun _ => exLoc) exKeepL :=
  ⟨fun l b h => by simp only [exKeepL] at h; split at h <;> simp_all, fun b hb => (by cases hb)⟩
/-- what the loader builds from it -/
example : (C10.fsLoad exTxt).map (fun t => (t.dirs, t.files)) =
    some ([], [([[97]], [⟨exLoc, 1, 2⟩, ⟨exLoc, 0, 2⟩]), ([[98]], [])]) := by decide +kernel
/-- a tree holding exactly those files -/
example : Represents (fun _ => 3) ⟨[], [([[97]], [⟨exLoc, 1, 2⟩, ⟨exLoc, 0, 2⟩]), ([[98]], [])]⟩
    [⟨[], [([97], ⟨[Seg.stored exLoc 3 1 2, Seg.stored exLoc 3 0 2], 4, 0⟩), ([98], FileNode.empty)], 0⟩] := by
  constructor
  · intro d hd f hf
    simp only [List.mem_singleton] at hd; subst hd
    simp only [List.mem_cons, List.not_mem_nil, or_false] at hf
    rcases hf with rfl | rfl
    · exact ⟨_, List.mem_cons_self, rfl, rfl⟩
    · exact ⟨_, List.mem_cons_of_mem _ List.mem_cons_self, rfl, rfl⟩
  · intro e he
    simp only [List.mem_cons, List.not_mem_nil, or_false] at he
    rcases he with rfl | rfl
    · exact ⟨_, List.mem_cons_self, _, List.mem_cons_self, rfl⟩
    · exact ⟨_, List.mem_cons_self, _, List.mem_cons_of_mem _ List.mem_cons_self, rfl⟩
/-- saving it although every Keep write would fail: `. a…a+3 1:2:a 0:2:a 0:0:b` (the adjacent identical
locator is listed once, the two parts of `a` are not contiguous and stay apart) -/
example : (marshal9 (fun _ => exLoc) 4 exKeepL
    [⟨[], [([97], ⟨[Seg.stored exLoc 3 1 2, Seg.stored exLoc 3 0 2], 4, 0⟩), ([98], FileNode.empty)], 0⟩]).2.2 =
    MRes.ok (C10.str ". aaaaaaaaaaaaaaaaaaaaaaaaaaaaaaaa+3 1:2:a 0:2:a 0:0:b\n") := by decide +kernel

/-- the glue check passes on that text (the driver's own path: loader, `fsOfTree`, `treeOf`), and the
list it yields is the one of the example above -/
example : (match loadFSChecked exKeepL exTxt with
    | some (some s) => (treeOf s).map (fun d => (d.path, d.files.map (·.1), d.nsub))
    | _ => []) = [([], [[97], [98]], 0)] := by decide +kernel

/-- the check is not trivially true: a list lacking the loaded file `b`, and a list whose file `a` has
its two segments swapped, are both rejected -/
example : glueOK (fun _ => 3) ⟨[], [([[97]], [⟨exLoc, 1, 2⟩, ⟨exLoc, 0, 2⟩]), ([[98]], [])]⟩
    [⟨[], [([97], ⟨[Seg.stored exLoc 3 1 2, Seg.stored exLoc 3 0 2], 4, 0⟩)], 0⟩] = false := by decide +kernel
example : glueOK (fun _ => 3) ⟨[], [([[97]], [⟨exLoc, 1, 2⟩, ⟨exLoc, 0, 2⟩]), ([[98]], [])]⟩
    [⟨[], [([97], ⟨[Seg.stored exLoc 3 0 2, Seg.stored exLoc 3 1 2], 4, 0⟩), ([98], FileNode.empty)], 0⟩] = false := by
  decide +kernel

/-- the canonical list of the example text is the list of the examples above -/
example : (match C10.fsLoad exTxt with
    | some tr => (groupTree tr).map (fun d => (d.path, d.files.map (·.1), d.nsub))
    | none => []) = [([], [[97], [98]], 0)] := by decide +kernel

end ArvVerif.C09
