/-
C14: theorems that link the layers.

* L1 on a `Running()` snapshot with exit times (`RunSnap`): a pass never starts or locks a
  container that is a key of the snapshot, whatever its time value — in particular not one whose
  crunch-run has exited so recently that the pool still keeps the "exited at T" placeholder.
* L1 ∘ L2: a pass fed with the real pool's `Running()` (`Pool.snapshot`) starts a container only
  if no worker tracks it (starting/running) and the pool has no exit placeholder for it.
* L2 on reachable pools: `C14_start_needs_idle_run` without the well-formedness hypothesis.
* The outcome of the start command plays no part: after `startContainer` and its completion
  closure the container is in `running` of a Running worker.
-/
import ArvVerif.Props.C14
import ArvVerif.Props.C14_L2
import ArvVerif.Proofs.C14_WF
namespace ArvVerif.C14

theorem snapKeys_false {snap : RunSnap} {u : Uuid} (h : snapKeys snap u = false) : ∀ x, (u, x) ∉ snap := by
  intro x hx
  have : snapKeys snap u = true := by
    unfold snapKeys
    exact List.any_eq_true.mpr ⟨(u, x), hx, by simp⟩
  rw [h] at this
  cases this

/-- **A container with an exit placeholder is not started.** Whatever time value `Running()`
reports for a container — zero (live) or the time its crunch-run exited — a pass makes no
`StartContainer` call for it. (The placeholder is what keeps a container that has just run from
being started again before its final state has reached the queue cache.) -/
theorem C14_no_start_for_exited (entries sorted : List Ent) (hord : IsPriorityOrder entries sorted)
    (snap : RunSnap) (un : Unalloc) (script : List Bool) (t : IType) (u : Uuid) (a : Bool)
    (h : Call.start t u a ∈ runQueue sorted (snapKeys snap) un script) :
    ∀ x, (u, x) ∉ snap := by
  obtain ⟨⟨e, _, _, _, _, _, hr⟩, _⟩ := C14_start_only_locked entries sorted hord _ un script t u a h
  exact snapKeys_false hr

/-- … and no `go lockContainer` either. -/
theorem C14_no_lock_for_exited (entries sorted : List Ent) (hord : IsPriorityOrder entries sorted)
    (snap : RunSnap) (un : Unalloc) (script : List Bool) (u : Uuid)
    (h : Call.goLock u ∈ runQueue sorted (snapKeys snap) un script) :
    ∀ x, (u, x) ∉ snap := by
  obtain ⟨⟨e, _, _, _, _, hr⟩, _⟩ := C14_lock_only_queued entries sorted hord _ un script u h
  exact snapKeys_false hr

/-- non-vacuity: with the placeholder nothing is started, without it the container is -/
example : runQueue [⟨7, .locked, 5, 1⟩] (snapKeys [(7, some 3)]) [(1, 1)] [false, true] = [] := by decide
example : Call.start 1 7 true ∈ runQueue [⟨7, .locked, 5, 1⟩] (snapKeys [(8, some 3)]) [(1, 1)] [false, true] := by
  decide

theorem snapKeys_snapshot (p : Pool) (u : Uuid) : snapKeys p.snapshot u = true ↔ u ∈ p.runningKeys := by
  unfold snapKeys Pool.snapshot
  rw [List.any_eq_true]
  constructor
  · rintro ⟨⟨a, v⟩, hm, he⟩
    simp only [beq_iff_eq] at he
    obtain ⟨k, hk, hkv⟩ := List.mem_filterMap.mp hm
    cases hv : p.runningView k with
    | none => rw [hv] at hkv; cases hkv
    | some v' =>
      rw [hv] at hkv
      simp only [Option.map_some, Option.some.injEq, Prod.mk.injEq] at hkv
      rw [← he, ← hkv.1]; exact hk
  · intro hu
    have hs := ((C14_running_view p u).2.1).mp hu
    cases hv : p.runningView u with
    | none => rw [hv] at hs; cases hs
    | some v =>
      refine ⟨(u, v), List.mem_filterMap.mpr ⟨u, hu, by rw [hv]; rfl⟩, by simp⟩

/-- **L1 ∘ L2.** A pass that reads the pool's own `Running()` makes a `StartContainer(t, u)` call
only if, in that pool, no worker has `u` in `starting` or `running` and there is no exit
placeholder for `u` — and `u` is Locked with priority ≥ 1 in the queue snapshot. -/
theorem C14_pass_on_pool_snapshot (p : Pool) (entries sorted : List Ent) (hord : IsPriorityOrder entries sorted)
    (un : Unalloc) (script : List Bool) (t : IType) (u : Uuid) (a : Bool)
    (h : Call.start t u a ∈ runQueue sorted (snapKeys p.snapshot) un script) :
    (∀ w ∈ p.workers, u ∉ w.starting ∧ u ∉ w.running) ∧ (∀ x, (u, x) ∉ p.exited) ∧
    (∃ e ∈ entries, e.uuid = u ∧ e.itype = t ∧ e.state = .locked ∧ 1 ≤ e.prio) := by
  obtain ⟨⟨e, he, h1, h2, h3, h4, hr⟩, _⟩ := C14_start_only_locked entries sorted hord _ un script t u a h
  have hnk : u ∉ p.runningKeys := by
    intro hk
    have := (snapKeys_snapshot p u).mpr hk
    rw [hr] at this; cases this
  have hv := C14_running_view p u
  have hnone : ¬ ((∃ w ∈ p.workers, u ∈ w.starting ∨ u ∈ w.running) ∨ (∃ t, (u, t) ∈ p.exited)) := by
    intro hc
    exact hnk (hv.2.1.mpr (hv.1.mpr hc))
  refine ⟨fun w hw => ⟨fun hs => hnone (Or.inl ⟨w, hw, Or.inl hs⟩), fun hs => hnone (Or.inl ⟨w, hw, Or.inr hs⟩)⟩,
    fun x hx => hnone (Or.inr ⟨x, hx⟩), e, he, h1, h2, h3, h4⟩

example : Call.start 1 7 true ∈ runQueue [⟨7, .locked, 5, 1⟩]
    (snapKeys (Pool.snapshot ⟨[⟨1, 1, .idle, .run, [], [], 0, 0, 0⟩], [(8, 4)]⟩)) [(1, 1)] [false, true] := by decide

/-- **Start needs an idle worker in run mode — on every reachable pool.** The pools reachable from
the empty pool by any sequence of pool operations have distinct worker ids (`Pool.WF_of_reachable`),
so `C14_start_needs_idle_run` holds for them without a well-formedness hypothesis. -/
theorem C14_start_needs_idle_run_reachable (p p' : Pool) (hr : p.Reachable) (it : IType) (u : Uuid) (wid : Nat)
    (h : p.startContainer it u wid = some p') :
    ∃ w ∈ p.workers, w.id = wid ∧ w.itype = it ∧ w.state = .idle ∧ w.idleB = .run ∧
      (∀ x ∈ p.workers, x.busy ≤ w.busy ∨ ¬(x.itype = it ∧ x.state = .idle ∧ x.idleB = .run)) ∧
      p' = p.put (w.accept u) ∧ (w.accept u).state = .running ∧ u ∈ (w.accept u).starting :=
  C14_start_needs_idle_run p p' (Pool.WF_of_reachable hr) it u wid h

/-- Every pool operation keeps the worker ids distinct; every reachable pool is well-formed. -/
theorem C14_pool_ops_preserve_wf (p : Pool) (h : p.WF) (op : PoolOp) : (p.apply op).WF := Pool.WF_apply h op

theorem C14_reachable_pool_wf (p : Pool) (h : p.Reachable) : p.WF := Pool.WF_of_reachable h

/-- non-vacuity: a reachable pool with two workers, one of which accepts a container -/
example : Pool.Reachable
    (((Pool.empty.apply (.sync 0 [⟨1, 1, none, false⟩, ⟨2, 1, none, true⟩] (fun _ => false) 5)).apply
      (.probeApply 1 ⟨5, true, true, false, [], false, false⟩ 6)).apply (.start 1 7 1)) :=
  .step _ (.step _ (.step _ .init))
example : ((((Pool.empty.apply (.sync 0 [⟨1, 1, none, false⟩, ⟨2, 1, none, true⟩] (fun _ => false) 5)).apply
      (.probeApply 1 ⟨5, true, true, false, [], false, false⟩ 6)).apply (.start 1 7 1)).workers.map
        (fun w => (w.id, w.state, w.starting))) = [(1, .running, [7]), (2, .booting, [])] := by decide

/-- **The start command's outcome plays no part.** `remoteRunner.Start()` returns nothing, so the
completion closure is the same whether `crunch-run --detach` reported success or an error: the
container is then in `running` of a worker in state Running — it stays a key of `Running()` and
`KillContainer` finds it — until a probe that began after this moment, or a successful kill,
says the process is gone (`C14_fresh_probe_applied`, `C14_stale_probe_ignored`). -/
theorem C14_start_outcome_not_consulted (w : Worker) (u : Uuid) (now : Nat) :
    u ∈ ((w.accept u).startDone u now).running ∧ ((w.accept u).startDone u now).state = .running ∧
    ((w.accept u).startDone u now).updated = now := by
  refine ⟨?_, by simp, ?_⟩
  · rw [Worker.startDone_running]; exact Or.inr ⟨rfl, by simp⟩
  · rw [Worker.startDone_updated]; simp

end ArvVerif.C14
