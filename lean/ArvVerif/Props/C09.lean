/-
C09 — saved manifests reproduce the tree and reference only blocks that were stored.
Property theorems (helpers are in Proofs/C09_*.lean).

Setting. `marshal9 hash max k t` is the model of `MarshalManifest(".")` on the directory list `t`
(marshal order) with Keep `k = {store, acked, script}`: every block group the synchronous flush hands
to `commitBlock` consumes one outcome of the script — `ok` (PutB succeeded: stored, acknowledged,
segments replaced), `fail` (PutB returned an error: nothing replaced, error returned) or `skip` (the
context group had already been cancelled by a failing sibling: PutB not even called). The theorems
hold for EVERY script, so for every goroutine interleaving of the real code, every failure position
and every cancellation pattern; for every `max`; for every locator function satisfying `HashOK`
(collision-free, returns grammar locators carrying the block length); for every tree satisfying
`SaveOK` (distinct directories, distinct names, proper names, well-formed segments whose stored
blocks are in Keep, stored locators that are grammar locators carrying the block size).
`NoDel` (no name holds byte 0x7f) is needed only where the TEXT must be inside the grammar (F9a).
-/
import ArvVerif.Proofs.C09_Example
namespace ArvVerif.C09

open ArvVerif.C08 (Seg FileNode Store SegWF AllWF StoreOK StoreExt)
open ArvVerif.C10 (bSlash bDot bColon specLocator)

variable {max : Nat} {hash : Bytes → C08.Loc}

/-! ## C09_escape_roundtrip -/

/-- **Escape round trip, every byte string**: `manifestUnescape (manifestEscape s) = s`, the
specification's `\ooo` reader reads it back as well, and the escaped form holds no space, newline,
other control byte ≤ 0x20 or raw colon (so it can never be mistaken for a token boundary or a
`pos:len:name` separator). -/
theorem C09_escape_roundtrip (s : Bytes) :
    C10.fsUnescape (C10.fsEscape s) = s ∧ C10.specUnescape (C10.fsEscape s) = some s ∧
    (∀ x ∈ C10.fsEscape s, 32 < x ∧ x ≠ bColon) := by
  refine ⟨C10.goUnescape_escapeWith C10.isOctDigit _ (fun _ h => h) (by decide) s,
    C10.specUnescape_escapeWith _ (by decide) s, ?_⟩
  intro x hx
  refine ⟨C10.escapeWith_no_delim C10.fsEscapePred (fun c hc => by simp [C10.fsEscapePred, hc]) s x hx, ?_⟩
  rcases escapeWith_mem _ s x hx with rfl | h | ⟨_, h⟩
  · decide
  · intro hc; subst hc; revert h; decide
  · intro hc; subst hc; revert h; decide

/-! ## the hypotheses on a tree about to be saved -/

structure SaveOK (max : Nat) (hash : Bytes → C08.Loc) (k : Keep) (t : Tree9) : Prop where
  keep : KeepOK hash k
  wf : TreeAllWF max hash k.store t
  paths_nodup : (dirPaths t).Nodup
  names_nodup : ∀ d ∈ t, (d.files.map (·.1)).Nodup
  paths : ∀ d ∈ t, ∀ c ∈ d.path, NameOK c
  names : ∀ d ∈ t, ∀ f ∈ d.files, NameOK f.1
  locs : ∀ d ∈ t, ∀ f ∈ d.files, ∀ loc size off len, Seg.stored loc size off len ∈ f.2.segs →
    specLocator loc = some ⟨loc, size⟩

/-- no directory or file name holds the byte 0x7f -/
def NoDel (t : Tree9) : Prop := ∀ d ∈ t, (∀ c ∈ d.path, (127 : UInt8) ∉ c) ∧ ∀ f ∈ d.files, (127 : UInt8) ∉ f.1

theorem SaveOK.shape {k : Keep} {t : Tree9} (h : SaveOK max hash k t) : TreeShape t :=
  ⟨h.paths_nodup, h.names_nodup, fun d hd => ⟨fun c hc => (h.paths d hd c hc).2.2.2, fun f hf => (h.names d hd f hf).2.2.2⟩⟩

theorem SaveOK.treeOK {k : Keep} {t : Tree9} (h : SaveOK max hash k t) (hnd : NoDel t) : TreeOK max hash k.store t :=
  fun d hd => ⟨fun c hc => ⟨h.paths d hd c hc, (hnd d hd).1 c hc⟩, fun f hf => ⟨h.names d hd f hf, (hnd d hd).2 f hf⟩,
    fun f hf => h.wf d hd f.2 (List.mem_map.mpr ⟨f, hf, rfl⟩), h.locs d hd⟩

theorem marshal9_ok_of {k : Keep} {t : Tree9} {txt : Bytes} (h1 : (flushTree9 hash max k t).2.2 = true)
    (h2 : treeText (flushTree9 hash max k t).2.1 = some txt) : (marshal9 hash max k t).2.2 = MRes.ok txt := by
  unfold marshal9
  simp only []
  rw [h1, if_pos rfl, h2]

/-- the pieces of a run of `marshal9` -/
theorem marshal9_run (hh : HashOK hash) {k : Keep} {t : Tree9} (hok : SaveOK max hash k t) :
    SaveOK max hash (marshal9 hash max k t).1 (marshal9 hash max k t).2.1 ∧
    KeepStep hash k (marshal9 hash max k t).1 ∧
    TreeKept max hash (marshal9 hash max k t).1.store (Fresh hash (marshal9 hash max k t).1) t (marshal9 hash max k t).2.1 ∧
    ((marshal9 hash max k t).2.2 = MRes.err ↔ allOk (treeGroups max t) k = false) ∧
    (∀ txt, (marshal9 hash max k t).2.2 = MRes.ok txt → treeText (marshal9 hash max k t).2.1 = some txt) ∧
    (NoDel t → NoDel (marshal9 hash max k t).2.1) := by
  obtain ⟨f1, f2, f3, f4, _⟩ := flushTree9_spec (max := max) hh.inj t k hok.keep hok.wf
  have hfst : (marshal9 hash max k t).1 = (flushTree9 hash max k t).1 := by
    unfold marshal9; simp only []; split
    · split <;> rfl
    · rfl
  have hsnd : (marshal9 hash max k t).2.1 = (flushTree9 hash max k t).2.1 := by
    unfold marshal9; simp only []; split
    · split <;> rfl
    · rfl
  rw [hfst, hsnd]
  have hshape := TreeKept.shape f3
  have hpaths : dirPaths (flushTree9 hash max k t).2.1 = dirPaths t :=
    (TreeKept.abs_eq f3 f2.ext hok.wf).2.1
  refine ⟨⟨f1, TreeKept.wf f3, by rw [hpaths]; exact hok.paths_nodup, ?_, ?_, ?_, ?_⟩, f2, f3, ?_, ?_, ?_⟩
  · intro d' hd'
    obtain ⟨d, hd, _, _, e3⟩ := hshape d' hd'
    rw [e3]; exact hok.names_nodup d hd
  · intro d' hd' c hc
    obtain ⟨d, hd, e1, _, _⟩ := hshape d' hd'
    rw [e1] at hc; exact hok.paths d hd c hc
  · intro d' hd' f' hf'
    obtain ⟨d, hd, _, _, e3⟩ := hshape d' hd'
    have : f'.1 ∈ d.files.map (·.1) := by rw [← e3]; exact List.mem_map.mpr ⟨f', hf', rfl⟩
    obtain ⟨f, hf, hn⟩ := List.mem_map.mp this
    rw [← hn]; exact hok.names d hd f hf
  · intro d' hd' f' hf' loc size off len hseg
    rcases TreeKept.segs_from f3 d' hd' f' hf' _ hseg with ⟨d, hd, f, hf, hx⟩ | h | ⟨block, _, o, l, hx, _⟩
    · exact hok.locs d hd f hf loc size off len hx
    · simp [Seg.isMem] at h
    · cases hx
      exact hh.loc block
  · unfold marshal9
    simp only []
    rw [f4]
    cases hall : allOk (treeGroups max t) k
    · simp
    · simp only [if_true]
      split <;> simp
  · intro txt h
    unfold marshal9 at h
    simp only [] at h
    split at h
    · split at h
      · next htxt => simp only [MRes.ok.injEq] at h; rw [← h]; exact htxt
      · cases h
    · cases h
  · intro hnd d' hd'
    obtain ⟨d, hd, e1, _, e3⟩ := hshape d' hd'
    refine ⟨by rw [e1]; exact (hnd d hd).1, ?_⟩
    intro f' hf'
    have : f'.1 ∈ d.files.map (·.1) := by rw [← e3]; exact List.mem_map.mpr ⟨f', hf', rfl⟩
    obtain ⟨f, hf, hn⟩ := List.mem_map.mp this
    rw [← hn]; exact (hnd d hd).2 f hf

/-! ## C09_marshal_valid -/

/-- **The saved text is inside the grammar.** Whenever `MarshalManifest` succeeds on a tree none of
whose names holds 0x7f, the text is valid under the published grammar (with the empty-directory
marker), and it parses to exactly the lines the stream builder computed for the flushed tree. -/
theorem C09_marshal_valid (hh : HashOK hash) {k : Keep} {t : Tree9} (hok : SaveOK max hash k t) (hnd : NoDel t)
    {txt : Bytes} (h : (marshal9 hash max k t).2.2 = MRes.ok txt) :
    ValidManifest9 txt ∧ ∃ L, treeLines (marshal9 hash max k t).2.1 = some L ∧ parse9 txt = some L := by
  obtain ⟨r1, _, _, _, r5, r6⟩ := marshal9_run (max := max) hh hok
  obtain ⟨L, h1, h2⟩ := treeText_parse9 _ (r1.treeOK (r6 hnd)) txt (r5 txt h)
  exact ⟨by unfold ValidManifest9; rw [h2]; rfl, L, h1, h2⟩

/-- the full statement, without the 0x7f restriction … -/
def C09_marshal_valid_Full : Prop :=
  ∀ (max : Nat) (hash : Bytes → C08.Loc), HashOK hash → ∀ (k : Keep) (t : Tree9), SaveOK max hash k t →
    ∀ txt, (marshal9 hash max k t).2.2 = MRes.ok txt → ValidManifest9 txt

/-- an empty Keep -/
def exKeep0 : Keep := ⟨fun _ => none, [], [], Outcome.ok, 0, 0⟩

/-- the witness of finding F9a: a root directory holding one empty file named `a\x7f` -/
def exTreeDel : Tree9 := [⟨[], [([97, 127], FileNode.empty)], 0⟩]

theorem exTreeDel_ok : SaveOK 4 exHash exKeep0 exTreeDel := by
  refine ⟨⟨fun l b h => (by cases h), fun b hb => (by cases hb)⟩, ?_, by decide, ?_, ?_, ?_, ?_⟩
  · intro d hd fn hfn s hs
    simp only [exTreeDel, List.mem_singleton] at hd
    subst hd
    simp only [List.map_cons, List.map_nil, List.mem_singleton] at hfn
    subst hfn
    cases hs
  · intro d hd; simp only [exTreeDel, List.mem_singleton] at hd; subst hd; decide
  · intro d hd c hc; simp only [exTreeDel, List.mem_singleton] at hd; subst hd; cases hc
  · intro d hd f hf
    simp only [exTreeDel, List.mem_singleton] at hd; subst hd
    simp only [List.mem_singleton] at hf; subst hf
    exact ⟨by decide, by decide, by decide, by decide⟩
  · intro d hd f hf loc size off len hs
    simp only [exTreeDel, List.mem_singleton] at hd; subst hd
    simp only [List.mem_singleton] at hf; subst hf
    cases hs

/-- … **is false of the code (finding F9a)**: `manifestEscape` leaves 0x7f unescaped, so the saved
text `. d41d8cd98f00b204e9800998ecf8427e+0 0:0:a\x7f` holds a raw control code. -/
theorem C09_marshal_valid_full_fails : ¬ C09_marshal_valid_Full := by
  intro hfull
  have h := hfull 4 exHash exHash_ok exKeep0 exTreeDel exTreeDel_ok
    (C10.str ". d41d8cd98f00b204e9800998ecf8427e+0 0:0:a\x7f\n") (by decide +kernel)
  revert h
  decide +kernel

/-! ## C09_marshal_load_roundtrip -/

/-- **Reading the saved text back yields the same tree.** Whenever `MarshalManifest` succeeds, the
text parses (grammar + marker) to lines `L` such that
* the tree still has the directories, names and bytes it had before the save (a save changes
  nothing visible), and its total size;
* read as the manifest-format document says (`C10.fileContent`: for every file token with the
  combined path, in order of appearance, the bytes pos…pos+size of the concatenated blocks of its
  stream, block contents taken from Keep), every file of the tree gets exactly its bytes;
* the text has no token for anything that is not a file of the tree;
* the marker streams are exactly the empty directories below the root, in tree order
  (every non-empty directory either has a stream of its own or is a prefix of its subdirectories'
  stream names). -/
theorem C09_marshal_load_roundtrip (hh : HashOK hash) {k : Keep} {t : Tree9} (hok : SaveOK max hash k t) (hnd : NoDel t)
    {txt : Bytes} (h : (marshal9 hash max k t).2.2 = MRes.ok txt) :
    ∃ L, parse9 txt = some L ∧
      (absTree (marshal9 hash max k t).1.store (marshal9 hash max k t).2.1 = absTree k.store t ∧
       dirPaths (marshal9 hash max k t).2.1 = dirPaths t ∧
       (marshal9 hash max k t).2.1.map (·.nsub) = t.map (·.nsub) ∧
       treeSize (marshal9 hash max k t).2.1 = treeSize t) ∧
      (∀ d ∈ (marshal9 hash max k t).2.1, ∀ f ∈ d.files,
        C10.fileContent (blkOf (marshal9 hash max k t).1.store) (streamsOf L) (C10.pathOf (prefixOf d.path) f.1) =
          C08.abs (marshal9 hash max k t).1.store f.2) ∧
      (∀ s ∈ streamsOf L, ∀ ft ∈ s.files, ∃ d ∈ (marshal9 hash max k t).2.1, ∃ f ∈ d.files,
        s.name = prefixOf d.path ∧ ft.name = f.1) ∧
      markersOf L = ((marshal9 hash max k t).2.1.filter fun d => d.isEmpty && !d.path.isEmpty).map fun d => prefixOf d.path := by
  obtain ⟨r1, r2, r3, _, r5, r6⟩ := marshal9_run (max := max) hh hok
  obtain ⟨_, L, h1, h2⟩ := C09_marshal_valid hh hok hnd h
  obtain ⟨a1, a2, a3, a4⟩ := TreeKept.abs_eq r3 r2.ext hok.wf
  refine ⟨L, h2, ⟨a1, a2, a4, a3⟩, ?_, ?_, treeLines_markers _ L h1⟩
  · exact treeLines_content (max := max) (hash := hash) _ L r1.shape
      (fun d hd f hf => r1.wf d hd f.2 (List.mem_map.mpr ⟨f, hf, rfl⟩)) h1
  · intro s hs ft hft
    obtain ⟨d, hd, _, e, hem, rfl⟩ := treeLines_streams _ L h1 s hs
    simp only [streamOfEmit, List.mem_map, List.mem_reverse] at hft
    obtain ⟨p, hp, rfl⟩ := hft
    obtain ⟨_, _, _, h4⟩ := emitFiles_spec (max := max) (hash := hash) d.files _ e (einv_init _)
      (fun f hf => r1.wf d hd f.2 (List.mem_map.mpr ⟨f, hf, rfl⟩)) hem
    rcases h4 p hp with ⟨f, hf, hn⟩ | h'
    · exact ⟨d, hd, f, hf, rfl, hn⟩
    · cases h'

/-! ## C09_locators_accounted -/

/-- **Every locator is accounted for, every file part lies inside its stream.** In the text of a
successful save every block locator of every stream
* is the placeholder `d41d8cd98f00b204e9800998ecf8427e+0` of a stream without data, or
* was already referenced by a stored segment of the tree before this save (by induction over the
  history: it came from the manifest the filesystem was loaded from, or from an earlier
  acknowledged write — see `C09_accounted_invariant`), or
* is the locator of a block that Keep ACKNOWLEDGED (`PutB` answered ok), Keep holds exactly those
  bytes under it, and its size field is the block's length;
and every file token `pos:len:name` lies inside its stream. -/
theorem C09_locators_accounted (hh : HashOK hash) {k : Keep} {t : Tree9} (hok : SaveOK max hash k t) (hnd : NoDel t)
    {txt : Bytes} (h : (marshal9 hash max k t).2.2 = MRes.ok txt) :
    ∃ L, parse9 txt = some L ∧ ∀ s ∈ streamsOf L,
      (∀ b ∈ s.blocks,
        b = ⟨emptyLoc, 0⟩ ∨
        (∃ d ∈ t, ∃ f ∈ d.files, ∃ off len, Seg.stored b.text b.size off len ∈ f.2.segs) ∨
        (∃ block ∈ (marshal9 hash max k t).1.acked, hash block = b.text ∧
          (marshal9 hash max k t).1.store b.text = some block ∧ block.length = b.size)) ∧
      (∀ ft ∈ s.files, ft.pos + ft.len ≤ C10.streamLen s.blocks) := by
  obtain ⟨r1, r2, r3, _, r5, r6⟩ := marshal9_run (max := max) hh hok
  obtain ⟨_, L, h1, h2⟩ := C09_marshal_valid hh hok hnd h
  refine ⟨L, h2, ?_⟩
  intro s hs
  obtain ⟨d, hd, _, e, hem, rfl⟩ := treeLines_streams _ L h1 s hs
  obtain ⟨hinv, _, hblocks, _⟩ := emitFiles_spec (max := max) (hash := hash) d.files _ e (einv_init _)
    (fun f hf => r1.wf d hd f.2 (List.mem_map.mpr ⟨f, hf, rfl⟩)) hem
  constructor
  · intro b hb
    simp only [streamOfEmit] at hb
    by_cases hbe : e.blocksRev.isEmpty = true
    · rw [if_pos hbe] at hb
      simp only [List.mem_singleton] at hb
      exact Or.inl hb
    · rw [if_neg hbe] at hb
      rcases hblocks b (List.mem_reverse.mp hb) with h' | ⟨f, hf, off, len, hseg⟩
      · cases h'
      · right
        rcases TreeKept.segs_from r3 d hd f hf _ hseg with ⟨d0, hd0, f0, hf0, hx⟩ | h' | ⟨block, hblk, o, l, hx, _⟩
        · exact Or.inl ⟨d0, hd0, f0, hf0, off, len, hx⟩
        · simp [Seg.isMem] at h'
        · right
          simp only [Seg.stored.injEq] at hx
          exact ⟨block, hblk, hx.1.symm, by rw [hx.1]; exact r1.keep.acked block hblk, hx.2.1.symm⟩
  · intro ft hft
    simp only [streamOfEmit, List.mem_map, List.mem_reverse] at hft
    obtain ⟨p, hp, rfl⟩ := hft
    have hb := hinv.parts p hp
    simp only [streamOfEmit]
    by_cases hbe : e.blocksRev.isEmpty = true
    · rw [if_pos hbe]
      have h0 : e.len = 0 := by rw [hinv.len, List.isEmpty_iff.mp hbe]; rfl
      simp [C10.streamLen]; omega
    · rw [if_neg hbe, ← hinv.len]; exact hb

/-- a stored segment is accounted for: its locator is one of `orig` (the manifest the filesystem was
loaded from) or the locator of an acknowledged block that Keep holds under it -/
def SegAcc (hash : Bytes → C08.Loc) (orig : Bytes → Prop) (k : Keep) : Seg → Prop
  | Seg.mem .. => True
  | Seg.stored loc _ _ _ => orig loc ∨ ∃ block ∈ k.acked, hash block = loc ∧ k.store loc = some block

/-- **Accounting is an invariant of saving**, whatever Keep answers and whether or not the save
succeeds: if every stored segment of the tree is accounted for before, so is every one after. -/
theorem C09_accounted_invariant (hh : HashOK hash) {k : Keep} {t : Tree9} (hok : SaveOK max hash k t)
    (orig : Bytes → Prop) (hacc : ∀ d ∈ t, ∀ f ∈ d.files, ∀ s ∈ f.2.segs, SegAcc hash orig k s) :
    ∀ d ∈ (marshal9 hash max k t).2.1, ∀ f ∈ d.files, ∀ s ∈ f.2.segs, SegAcc hash orig (marshal9 hash max k t).1 s := by
  obtain ⟨r1, r2, r3, _, _, _⟩ := marshal9_run (max := max) hh hok
  intro d hd f hf s hs
  cases s with
  | mem => trivial
  | stored loc size off len =>
    rcases TreeKept.segs_from r3 d hd f hf _ hs with ⟨d0, hd0, f0, hf0, hx⟩ | h' | ⟨block, hblk, o, l, hx, _⟩
    · rcases hacc d0 hd0 f0 hf0 _ hx with h1 | ⟨block, hb, e1, e2⟩
      · exact Or.inl h1
      · obtain ⟨more, hm⟩ := r2.acked
        exact Or.inr ⟨block, by rw [hm]; simp [hb], e1, r2.ext _ _ e2⟩
    · simp [Seg.isMem] at h'
    · simp only [Seg.stored.injEq] at hx
      exact Or.inr ⟨block, hblk, hx.1.symm, by rw [hx.1]; exact r1.keep.acked block hblk⟩

/-! ## C09_failure_keeps_data -/

/-- **A failing Keep write fails the save and loses nothing; a later save succeeds.** For every
script of outcomes (every failure position, every cancellation pattern):
1. the save returns the error exactly when one of the outcomes its block groups consume is not `ok`
   (in particular: any failing required write ⇒ error; all writes ok ⇒ no error);
2. whatever happened, the tree afterwards has the same directories, names, bytes and size, is still
   well-formed over the new Keep (every stored segment's block is held by Keep — so everything is
   still readable), and Keep grew by acknowledged blocks only;
3. a later save on the resulting tree with any Keep that holds at least those blocks and answers ok
   from then on succeeds (returns a text, neither an error nor the "can't marshal" panic). -/
theorem C09_failure_keeps_data (hh : HashOK hash) {k : Keep} {t : Tree9} (hok : SaveOK max hash k t) :
    ((marshal9 hash max k t).2.2 = MRes.err ↔ allOk (treeGroups max t) k = false) ∧
    (absTree (marshal9 hash max k t).1.store (marshal9 hash max k t).2.1 = absTree k.store t ∧
     dirPaths (marshal9 hash max k t).2.1 = dirPaths t ∧ treeSize (marshal9 hash max k t).2.1 = treeSize t ∧
     SaveOK max hash (marshal9 hash max k t).1 (marshal9 hash max k t).2.1 ∧
     KeepStep hash k (marshal9 hash max k t).1) ∧
    (∀ k2 : Keep, KeepOK hash k2 → StoreExt (marshal9 hash max k t).1.store k2.store → (∀ n, allOk n k2 = true) →
      ∃ txt, (marshal9 hash max k2 (marshal9 hash max k t).2.1).2.2 = MRes.ok txt) := by
  obtain ⟨r1, r2, r3, r4, _, _⟩ := marshal9_run (max := max) hh hok
  obtain ⟨a1, a2, a3, _⟩ := TreeKept.abs_eq r3 r2.ext hok.wf
  refine ⟨r4, ⟨a1, a2, a3, r1, r2⟩, ?_⟩
  intro k2 hk2 hext hall
  have hwf2 : TreeAllWF max hash k2.store (marshal9 hash max k t).2.1 :=
    fun d hd fn hfn s hs => (r1.wf d hd fn hfn s hs).ext hext
  have hnomem := flushTree9_no_mem (hash := hash) (max := max) (marshal9 hash max k t).2.1 k2 (hall _)
  obtain ⟨txt, htxt⟩ := treeText_some _ hnomem
  obtain ⟨_, _, _, f4, _⟩ := flushTree9_spec (max := max) hh.inj (marshal9 hash max k t).2.1 k2 hk2 hwf2
  exact ⟨txt, marshal9_ok_of (by rw [f4, hall]) htxt⟩

/-! ## non-vacuity: the hypotheses are satisfiable by a non-trivial instance -/

/-- `HashOK` is satisfiable -/
example : HashOK exHash := exHash_ok

/-- a tree with a root file `a` of two buffered segments (3 + 1 bytes, `max = 4`), an empty directory
`e` and a directory `d` holding an empty file `x y` (a name that needs escaping) -/
def exTree : Tree9 :=
  [⟨[], [([97], ⟨[Seg.mem [1, 2, 3] C08.Flush.none, Seg.mem [4] C08.Flush.none], 4, 0⟩)], 2⟩,
   ⟨[[100]], [([120, 32, 121], FileNode.empty)], 0⟩,
   ⟨[[101]], [], 0⟩]

theorem exTree_ok : SaveOK 4 exHash exKeep0 exTree := by
  refine ⟨⟨fun l b h => (by cases h), fun b hb => (by cases hb)⟩, ?_, by decide, ?_, ?_, ?_, ?_⟩
  · intro d hd fn hfn s hs
    simp only [exTree, List.mem_cons, List.not_mem_nil, or_false] at hd
    rcases hd with rfl | rfl | rfl
    · simp only [List.map_cons, List.map_nil, List.mem_singleton] at hfn
      subst hfn
      simp only [List.mem_cons, List.not_mem_nil, or_false] at hs
      rcases hs with rfl | rfl
      · exact ⟨by decide, by decide, fun i l h => by cases h⟩
      · exact ⟨by decide, by decide, fun i l h => by cases h⟩
    · simp only [List.map_cons, List.map_nil, List.mem_singleton] at hfn
      subst hfn; cases hs
    · cases hfn
  · intro d hd
    simp only [exTree, List.mem_cons, List.not_mem_nil, or_false] at hd
    rcases hd with rfl | rfl | rfl <;> decide
  · intro d hd c hc
    simp only [exTree, List.mem_cons, List.not_mem_nil, or_false] at hd
    rcases hd with rfl | rfl | rfl
    · cases hc
    · simp only [List.mem_singleton] at hc; subst hc; exact ⟨by decide, by decide, by decide, by decide⟩
    · simp only [List.mem_singleton] at hc; subst hc; exact ⟨by decide, by decide, by decide, by decide⟩
  · intro d hd f hf
    simp only [exTree, List.mem_cons, List.not_mem_nil, or_false] at hd
    rcases hd with rfl | rfl | rfl
    · simp only [List.mem_singleton] at hf; subst hf; exact ⟨by decide, by decide, by decide, by decide⟩
    · simp only [List.mem_singleton] at hf; subst hf; exact ⟨by decide, by decide, by decide, by decide⟩
    · cases hf
  · intro d hd f hf loc size off len hs
    simp only [exTree, List.mem_cons, List.not_mem_nil, or_false] at hd
    rcases hd with rfl | rfl | rfl
    · simp only [List.mem_singleton] at hf; subst hf
      simp only [List.mem_cons, List.not_mem_nil, or_false] at hs
      rcases hs with hs | hs <;> cases hs
    · simp only [List.mem_singleton] at hf; subst hf; cases hs
    · cases hf

example : NoDel exTree := by
  intro d hd
  simp only [exTree, List.mem_cons, List.not_mem_nil, or_false] at hd
  rcases hd with rfl | rfl | rfl <;> decide

/-- Running the model on that instance with all writes ok: the two small segments are packed into one
block, the file part is merged into `0:4:a`, `x y` is escaped, the empty directory gets its marker. -/
example : ∃ txt, (marshal9 exHash 4 exKeep0 exTree).2.2 = MRes.ok txt ∧
    (C10.splitOn C10.bNL txt).length = 4 ∧ ValidManifest9 txt := by
  refine ⟨_, rfl, ?_, ?_⟩ <;> decide +kernel

/-- … and with a script whose first outcome is `fail`: the save fails (hypothesis of
`C09_failure_keeps_data`'s interesting direction) -/
example : (marshal9 exHash 4 { exKeep0 with script := [Outcome.fail] } exTree).2.2 = MRes.err := by decide +kernel

/-- the hypotheses of part 3 of `C09_failure_keeps_data` are satisfiable: a Keep that answers ok for ever -/
example : ∀ n, allOk n exKeep0 = true := by
  intro n
  induction n with
  | zero => rfl
  | succ n ih => exact (by unfold allOk; simp only [exKeep0, Keep.next]; exact ih)

end ArvVerif.C09
