/-
C15, finding F15a: the dispatcher can kill itself. Runner objects of one worker
(Model/C15_O1.lean): `accept` (StartContainer), `probe` (a fresh successful probe), `startDone` (the
completion closure of `startContainer`). `none` = `rr.Close()` on a closed runner = process panic.
-/
import ArvVerif.Proofs.C15_O1
namespace ArvVerif.C15
open ArvVerif.C14

/-- what C15 needs of the pool: no interleaving of starts, probes and start completions makes the
dispatcher panic -/
def C15_no_self_crash_Full : Prop := ∀ ops : List RWOp, (RW.fresh.run ops).isSome = true

/-- **It does not hold** of the current code: start a container; a probe adopts its process while
`crunch-run --detach` is still outstanding; the next probe finds it gone and closes the runner; the
start command returns and the closure puts the closed runner back; the next probe closes it again. -/
theorem C15_no_self_crash_full_fails : ¬ C15_no_self_crash_Full := by
  intro h
  have := h [.accept 7, .probe [7], .probe [], .startDone 7, .probe []]
  revert this
  decide

/-- every start completion finds its runner still in `starting` (C14's A3 in the form the code can
check) -/
def completesInStarting (w : RW) : List RWOp → Bool
  | [] => true
  | op :: rest =>
    (match op with
     | .startDone u => (match lookup w.pending u with
        | none => true
        | some r => lookup w.starting u == some r)
     | _ => true) &&
    match w.step op with
    | none => true
    | some w1 => completesInStarting w1 rest

theorem startDone_eq_fixed (w : RW) (u : Uuid)
    (h : (match lookup w.pending u with | none => true | some r => lookup w.starting u == some r) = true) :
    w.startDone u = w.startDoneFixed u := by
  unfold RW.startDone RW.startDoneFixed
  cases hp : lookup w.pending u with
  | none => rfl
  | some r =>
    rw [hp] at h
    dsimp only at h ⊢
    rw [if_pos (by simpa using h)]

theorem run_eq_fixed : ∀ (ops : List RWOp) (w : RW), completesInStarting w ops = true → w.run ops = w.runFixed ops := by
  intro ops
  induction ops with
  | nil => intro w _; rfl
  | cons op rest ih =>
    intro w h
    unfold completesInStarting at h
    rw [Bool.and_eq_true] at h
    unfold RW.run RW.runFixed
    cases op with
    | accept u =>
      simp only [RW.step, RW.stepFixed] at h ⊢
      exact ih _ h.2
    | probe alive =>
      simp only [RW.step, RW.stepFixed] at h ⊢
      cases hp : w.probe alive with
      | none => rfl
      | some w1 =>
        rw [hp] at h
        exact ih _ h.2
    | startDone u =>
      simp only [RW.step, RW.stepFixed] at h ⊢
      rw [← startDone_eq_fixed w u h.1]
      exact ih _ h.2

/-- **Partial**: as long as every start command returns before a probe has adopted its process —
the runner is still in `starting` when the closure runs — no interleaving panics. -/
theorem C15_no_self_crash_partial (ops : List RWOp) (h : completesInStarting RW.fresh ops = true) :
    (RW.fresh.run ops).isSome = true := by
  rw [run_eq_fixed ops RW.fresh h]
  exact runFixed_total ops RW.fresh good_fresh

/-- **With the guard of fixes/F15a.patch** (`if wkr.starting[uuid] != rr { return }`) the full
statement holds: no interleaving whatsoever panics. -/
theorem C15_no_self_crash_fixed (ops : List RWOp) : (RW.fresh.runFixed ops).isSome = true :=
  runFixed_total ops RW.fresh good_fresh

/-- the hypothesis of the partial theorem is satisfiable by a run that starts, completes, adopts
and closes a runner -/
example : completesInStarting RW.fresh [.accept 7, .startDone 7, .probe [7], .probe []] = true := by decide

example : (RW.fresh.run [.accept 7, .startDone 7, .probe [7], .probe []]).isSome = true := by decide

end ArvVerif.C15
