/-
C15, finding F15a (fixed in /repo 18910db): the dispatcher could kill itself. Runner objects of one
worker (Model/C15_O1.lean): `accept` (StartContainer), `probe` (a fresh successful probe),
`startDone` (the completion closure of `startContainer`). `none` = `rr.Close()` on a closed runner =
process panic ("close of closed channel").
-/
import ArvVerif.Proofs.C15_O1
namespace ArvVerif.C15
open ArvVerif.C14

/-- **No self-inflicted crash.** No interleaving of starts, probes and start completions on a worker
makes `closeRunner` close a runner twice: the runner objects in `starting`/`running` stay pairwise
distinct and open (`Good`), because the completion closure only moves a runner that is still the
one in `starting`. For every script of any length over any containers. -/
theorem C15_no_self_crash (ops : List RWOp) : (RW.fresh.run ops).isSome = true :=
  run_total ops RW.fresh good_fresh

/-- … from any state that satisfies the invariant, which every step preserves. -/
theorem C15_no_self_crash_from (w : RW) (hg : Good w) (ops : List RWOp) : (w.run ops).isSome = true :=
  run_total ops w hg

/-- **Before the fix** the statement was false: start a container; a probe adopts its process while
`crunch-run --detach` is still outstanding; the next probe finds it gone and closes the runner; the
start command returns and the old closure puts the closed runner back; the next probe closes it
again. (Witness kept in corpus/C15/f15a.txt; the check fails on it if the guard disappears.) -/
theorem C15_no_self_crash_before_fix_fails :
    ¬ ∀ ops : List RWOp, (RW.fresh.runOld ops).isSome = true := by
  intro h
  have := h [.accept 7, .probe [7], .probe [], .startDone 7, .probe []]
  revert this
  decide

/-- the same script on the fixed code: the late completion finds its runner gone and does nothing -/
example : RW.fresh.run [.accept 7, .probe [7], .probe [], .startDone 7, .probe []] =
    some ⟨.idle, [], [], [0], [], [7], 1⟩ := by decide

/-- a completion that comes in time still moves the runner -/
example : (RW.fresh.run [.accept 7, .startDone 7]).map (·.running) = some [(7, 0)] := by decide

/-! ### finding F15b (fixed in /repo 847719d): `reportSSHConnected` on a dropped worker -/

/-- **A verified SSH connection never crashes the dispatcher**, whatever the pool holds: for an
instance whose worker has been dropped the call returns without touching anything. -/
theorem C15_ssh_report (workers : List Nat) (id : Nat) :
    (reportSSHConnected workers id).isSome = true ∧
    (id ∉ workers → reportSSHConnected workers id = some false) := by
  unfold reportSSHConnected
  constructor
  · split <;> rfl
  · intro h
    have : workers.contains id = false := by simpa using h
    rw [this]; rfl

/-- **Before the fix** it did: the worker of the instance had been dropped meanwhile. (Witness kept in
corpus/C15/f15b.txt.) -/
theorem C15_ssh_report_before_fix_fails :
    ¬ ∀ (workers : List Nat) (id : Nat), (reportSSHConnectedOld workers id).isSome = true := by
  intro h
  have := h [] 1
  revert this
  decide

example : reportSSHConnected [1, 2] 2 = some true := by decide
example : reportSSHConnected [] 1 = some false := by decide

end ArvVerif.C15
