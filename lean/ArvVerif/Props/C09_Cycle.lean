/-
C09 — property theorem `C09_load_save_load`: load a valid text, save it unchanged, load the saved text:
the same files with the same bytes, the same directories — through the real loader on both ends, without
any hypothesis about the directory list.
-/
import ArvVerif.Props.C09_Load
import ArvVerif.Props.C09_Reload
namespace ArvVerif.C09

open ArvVerif.C08 (Seg FileNode Store)
open ArvVerif.C10 (bSlash)

variable {max : Nat} {hash : Bytes → C08.Loc}

/-- **Load, save unchanged, load again.** For every text inside the published grammar whose sizes the
loader can represent, in which no path is both file and directory and whose blocks Keep holds: the first
load succeeds; saving the loaded tree (canonical directory list `groupTree`) succeeds without any Keep
write; and — if no name holds 0x7f (F9a) and the loader can represent the sizes of the saved text —
`loadManifest` accepts the saved text and builds a tree with exactly the same file keys, each file reading
exactly the bytes the ORIGINAL manifest assigns to its path, and exactly the same directories (empty ones
included). -/
theorem C09_load_save_load (hh : HashOK hash) (txt : Bytes) (M : C10.Manifest)
    (hvalid : C10.parseSpec txt = some M) (hfit : ∀ s ∈ M, C10.FitsFs s) (htree : C10.TreeConsistent M)
    (k : Keep) (hk : KeepOK hash k)
    (hblocks : ∀ s ∈ M, ∀ b ∈ s.blocks, ∃ x, k.store b.text = some x ∧ x.length = b.size) :
    ∃ tr txt', C10.fsLoad txt = some tr ∧ marshal9 hash max k (groupTree tr) = (k, groupTree tr, MRes.ok txt') ∧
      (NoDel (groupTree tr) → (∀ L, parse9 txt' = some L → ∀ s ∈ streamsOf L, C10.FitsFs s) →
        ∃ tr2, C10.fsLoad txt' = some tr2 ∧
          (∀ e ∈ tr.files, ∃ e2 ∈ tr2.files, e2.1 = e.1 ∧
            C10.segBytes (blkOf k.store) e2.2 = C10.fileContent (blkOf k.store) M (C10.pathOfKey e.1)) ∧
          (∀ e2 ∈ tr2.files, ∃ e ∈ tr.files, e2.1 = e.1) ∧
          (∀ p, p ∈ tr2.dirs ↔ p ∈ tr.dirs)) := by
  obtain ⟨tr, txt', L', hload, hrun, _, hcont, _, _, hokS⟩ :=
    C09_load_marshal_total (max := max) (hash := hash) txt M hvalid hfit htree k hk hblocks
  refine ⟨tr, txt', hload, hrun, ?_⟩
  intro hnd hfit'
  have hw := fsLoad_wf txt tr hload
  obtain ⟨hrep, _, _, _⟩ := groupTree_ok tr hw (fsLoad_cover txt tr hload)
  obtain ⟨hclosed, hclash⟩ := groupTree_closed tr hw
  have hres : (marshal9 hash max k (groupTree tr)).2.2 = MRes.ok txt' := by rw [hrun]
  obtain ⟨tr2, hload2, c1, c2, c3, c4⟩ := C09_marshal_fsLoad hh hokS hnd hclosed hclash hres hfit'
  rw [hrun] at c1 c2
  simp only [] at c1 c2
  refine ⟨tr2, hload2, ?_, ?_, ?_⟩
  · intro e he
    obtain ⟨d, hd, f, hf, hkey⟩ := hrep.all e he
    obtain ⟨e2, he2, hk2, hb2⟩ := c1 d hd f hf
    refine ⟨e2, he2, by rw [hk2, hkey], ?_⟩
    rw [hb2, (hcont d hd f hf).2.1]
    have : C10.pathOfKey e.1 = C10.pathOf (prefixOf d.path) f.1 := by rw [hkey, pathOf_prefixOf]; rfl
    rw [this]
  · intro e2 he2
    obtain ⟨d, hd, f, hf, hk2⟩ := c2 e2 he2
    obtain ⟨e, he, hke, _⟩ := hrep.files d hd f hf
    exact ⟨e, he, by rw [hk2, hke]⟩
  · intro p
    constructor
    · intro hp
      have := c3 p hp
      rw [dirPaths_groupTree] at this
      rcases List.mem_cons.mp this with h' | h'
      · exact absurd h' ((fsLoad_wf txt' tr2 hload2).dirComps p hp).1
      · exact h'
    · intro hp
      apply c4 p
      · rw [dirPaths_groupTree]; exact List.mem_cons_of_mem _ hp
      · exact (hw.dirComps p hp).1

/-- non-vacuity: the example text of Props/C09_Load.lean — first load, saved text, second load -/
example : (match C10.fsLoad exTxt with
    | some tr =>
      (match (marshal9 (fun _ => exLoc) 4 exKeepL (groupTree tr)).2.2 with
       | MRes.ok txt' => (C10.fsLoad txt').map (fun t2 => (t2.dirs, t2.files.map (·.1)))
       | _ => none)
    | none => none) = some ([], [[[97]], [[98]]]) := by decide +kernel

end ArvVerif.C09
