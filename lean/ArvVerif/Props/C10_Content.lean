/-
C10 — property theorems about *bytes*: the reference interpreter against the document's wording,
the codecs' recovered bytes, and the byte-preservation kernel of normalization.
-/
import ArvVerif.Props.C10
import ArvVerif.Proofs.C10_Normalize
import ArvVerif.Proofs.C10_Termination
import ArvVerif.Proofs.C10_SizedDigests
import ArvVerif.Proofs.C10_Reparse5
namespace ArvVerif.C10

/-- **C10_resolve_bytes.** `resolve` is the document's semantics: for block contents `blk` of the
declared sizes, the bytes of a path's segments are, token by token in manifest order, bytes
`position … position+size` of the logical concatenation of the token's stream. -/
theorem C10_resolve_bytes (blk : Bytes → Bytes) (M : Manifest) (p : Bytes)
    (hsz : ∀ s ∈ M, ∀ b ∈ s.blocks, (blk b.text).length = b.size) :
    segBytes blk (resolve M p) = fileContent blk M p :=
  resolve_bytes blk M p hsz

/-- hence the Go manifest package recovers exactly the document's bytes for every path … -/
theorem C10_pkg_bytes (blk : Bytes → Bytes) (txt : Bytes) (M : Manifest) (hvalid : parseSpec txt = some M)
    (hfit : ∀ s ∈ M, FitsGo s) (hsz : ∀ s ∈ M, ∀ b ∈ s.blocks, (blk b.text).length = b.size) :
    ∃ m, pkgSegment txt = .ok m ∧
      ∀ sn fn : Bytes, segBytes blk (segLookup m (splitPath (pathOf sn fn))) = fileContent blk M (pathOf sn fn) := by
  obtain ⟨m, h1, h2⟩ := C10_pkg_agrees txt M hvalid hfit
  exact ⟨m, h1, fun sn fn => by rw [(h2 sn fn).1, resolve_bytes blk M _ hsz]⟩

/-- … and so does the collection filesystem loader (as far as its stored segments go; reading them
is C03/C08's subject and is checked on the real `filenode.Read` by the correspondence oracle). -/
theorem C10_fs_bytes (blk : Bytes → Bytes) (txt : Bytes) (M : Manifest) (hvalid : parseSpec txt = some M)
    (hfit : ∀ s ∈ M, FitsFs s) (htree : TreeConsistent M)
    (hsz : ∀ s ∈ M, ∀ b ∈ s.blocks, (blk b.text).length = b.size) :
    ∃ t, fsLoad txt = some t ∧
      ∀ p ∈ pathsOf M, (fsSegsOf t p).map (segBytes blk) = some (fileContent blk M p) := by
  obtain ⟨t, h1, h2, _⟩ := C10_fs_agrees txt M hvalid hfit htree
  exact ⟨t, h1, fun p hp => by rw [(h2 p hp).1, Option.map_some, resolve_bytes blk M _ hsz]⟩

example : fileContent (fun l => if l.head? = some 97 then [1, 2, 3] else if l.head? = some 98 then [4, 5, 6, 7, 8] else [])
    wF3M [46, 47, 102] = [3, 4, 5, 6] := by decide +kernel

/-- **C10_normalize_preserves_partial.** The kernel shared by `segmentedStream.normalizedText`
(Go) and `normalize_stream` (Python): list every digest once (first pass), collapse each file's
segments into stream spans (second pass). For contents and sizes that are a function of the digest
and segments inside their blocks, the spans of every file, cut out of the concatenation of the
listed blocks, are exactly the bytes of that file's segments.

*Partial*: this is the byte-preservation core at the level of segment lists. Not proved in Lean:
rendering the result as text and re-parsing it (decimal formatting; name escaping is
`C10_escape_roundtrip`), `sort.Strings`, and `manifestTextForPath`'s selection/relocation of
streams and files — these are exercised for every (srcpath, relocate) pair by the correspondence
check, whose oracle re-interprets the output with the reference interpreter. -/
theorem C10_normalize_preserves_partial (blk : Bytes → Bytes) (files : List (List Seg))
    (hc : DigestConsistent blk files.flatten) :
    let r := normBlocks files.flatten [] [] 0
    let S := streamBytes blk (r.2.1.map fun t => ⟨t, locSize t⟩)
    ∀ segs ∈ files, (normSpansS r.1 segs none).flatMap (spanSlice S) = segBytes blk segs :=
  normalize_preserves_bytes blk files hc

/-- the text tokens `normalizedText` emits for a file are the rendering of these spans -/
theorem C10_normalize_tokens (tbl : List (Bytes × Nat)) (fout : Bytes) (segs : List Seg) :
    normSpans tbl fout segs none = (normSpansS tbl segs none).map (spanTok fout) :=
  normSpans_eq tbl fout segs none (by intro a b h; cases h)

/-- **C10_total, hang clause for the searches**: on *every* offsets array (sorted or not, wrapped or
not) and for either version of the comparison, the loop of `manifest.firstBlock` / Python
`first_block` exits. (All other loops of the three codecs are bounded `for` loops over tokens or
blocks; their models are structurally recursive.) -/
theorem C10_firstBlock_terminates (g : Nat → Nat → Nat → Bool) (offs : List Nat) (rs : List PyRange) (start : Nat) :
    firstBlockWith g offs start ≠ .outOfFuel ∧ pyFirstBlockWith g rs start ≠ .outOfFuel :=
  ⟨firstBlockWith_terminates g offs start, pyFirstBlockWith_terminates g rs start⟩

/-- **C10_sized_digests.** For every text inside the grammar `Collection.SizedDigests` returns no
error and, in manifest order, the hash+size part of every block locator (all hints dropped). -/
theorem C10_sized_digests (txt : Bytes) (M : Manifest) (hvalid : parseSpec txt = some M) :
    sizedDigests txt = some (M.flatMap fun s => s.blocks.map fun b => stripLoc b.text) :=
  sizedDigests_valid txt M hvalid

example : sizedDigests wF3 = some (wF3M.flatMap fun s => s.blocks.map fun b => stripLoc b.text) :=
  C10_sized_digests wF3 wF3M wF3_valid

/-! ## Extract: selection, relocation, rendering -/

/-- **C10_extract_text.** `Manifest.Extract(srcpath, relocate)` is `segment()` followed by
`normalizedText` of every selected stream (`extractS`), in sorted order; an error (and no text) if
`segment()` fails; never a panic (`C10_pkg_no_panic`). -/
theorem C10_extract_text (txt srcpath relocate : Bytes) :
    (∃ m, pkgSegment txt = .ok m ∧
      pkgExtract txt srcpath relocate = .ok ((extractS m srcpath relocate).flatMap fun x => normalizedText x.1 x.2)) ∨
    (pkgSegment txt = .err ∧ pkgExtract txt srcpath relocate = .err) := by
  have hnp := C10_pkg_no_panic txt
  unfold pkgExtract pkgExtractWith
  have e : pkgSegmentWith firstBlock txt = pkgSegment txt := rfl
  rw [e]
  cases h : pkgSegment txt with
  | ok m => exact Or.inl ⟨m, rfl, by simp only [Res.bind]; rw [manifestTextForPath_eq]⟩
  | err => exact Or.inr ⟨rfl, rfl⟩
  | panic => exact absurd h hnp

/-- **C10_extract_stream_test.** The stream test of `manifestTextForPath`
(`k == srcpath || HasPrefix(k, srcpath+"/")`) holds exactly when the path components of `srcpath`
are a prefix of those of `k`: the stream *is* `srcpath` or lies *below* it — `./ab` is not below
`./a`. (Seeded change C10-c dropped the `/`; this theorem is what it violates.) -/
theorem C10_extract_stream_test (src k : Bytes) :
    (k = src ∨ (src ++ [bSlash]).isPrefixOf k = true) ↔ splitOn bSlash src <+: splitOn bSlash k :=
  selected_iff_components src k

example : ¬ (splitOn bSlash [46, 47, 97] <+: splitOn bSlash [46, 47, 97, 98]) := by decide

/-- **C10_extract_selects_dir.** When `srcpath` is not a file of the manifest, the streams handed to
`normalizedText` are exactly the streams at or below `srcpath`, each renamed to
`relocate ++ (name minus srcpath)`, with all its files and their segment lists unchanged. -/
theorem C10_extract_selects_dir (m : SegMap) (srcpath relocate : Bytes)
    (hnofile : m.find? (·.1 = ((splitPath (fixStreamName srcpath)).1, (splitPath (fixStreamName srcpath)).2)) = none)
    (out : Bytes × List (Bytes × List Seg)) :
    out ∈ extractS m srcpath relocate ↔
      ∃ k ∈ streamNames m, splitOn bSlash (fixStreamName srcpath) <+: splitOn bSlash k ∧
        out = ((let rel := fixStreamName relocate ++ (if relocate.getLast? = some bSlash then [bSlash] else [])
                if rel.getLast? = some bSlash then rel.dropLast else rel) ++ k.drop (fixStreamName srcpath).length,
               streamFiles m k) :=
  extractS_dir m srcpath relocate hnofile out

/-- **C10_extract_selects_file.** When `srcpath` names a file, the result is that file alone, with its
segment list, in the stream `relocate` denotes, renamed to `relocate`'s last component unless that
is empty (`relocate` is `.` or ends in `/`). -/
theorem C10_extract_selects_file (m : SegMap) (srcpath relocate : Bytes) (e : (Bytes × Bytes) × List Seg)
    (hfile : m.find? (·.1 = ((splitPath (fixStreamName srcpath)).1, (splitPath (fixStreamName srcpath)).2)) = some e) :
    extractS m srcpath relocate =
      (let rel := fixStreamName relocate ++ (if relocate.getLast? = some bSlash then [bSlash] else [])
       [((splitPath rel).1,
         [(if (splitPath rel).2 = [] then (splitPath (fixStreamName srcpath)).2 else (splitPath rel).2, e.2)])]) :=
  extractS_file m srcpath relocate e hfile

/-- **C10_normalize_preserves (stream level).** What `normalizedText` renders for a stream: escaped
name, each digest once (or the empty-block locator), for every file in sorted order the rendering of
its spans (or `0:0:name`); and those spans, cut out of the concatenation of the listed blocks, are
exactly the bytes of the file's segments, for every file of the stream.

Still not proved in Lean: that the rendered text, parsed again, yields these very tokens (decimal
formatting of the spans; the names are `C10_escape_roundtrip`). The correspondence oracle re-parses
every `Extract` output with the reference interpreter. -/
theorem C10_normalize_preserves (blk : Bytes → Bytes) (name : Bytes) (files : List (Bytes × List Seg))
    (hc : DigestConsistent blk ((sortBytes (files.map (·.1))).flatMap fun fn =>
      match files.find? (·.1 = fn) with | some e => e.2 | none => [])) :
    let sorted := sortBytes (files.map (·.1))
    let segsOf := fun fn => match files.find? (·.1 = fn) with | some e => e.2 | none => []
    let r := normBlocks (sorted.flatMap segsOf) [] [] 0
    let btoks := if r.2.1 = [] then [emptyBlockLocator] else r.2.1
    let S := streamBytes blk (r.2.1.map fun t => ⟨t, locSize t⟩)
    normalizedText name files =
      joinWith bSpace (pkgEscape name :: btoks ++ sorted.flatMap fun fn => normFileToks r.1 fn (segsOf fn)) ++ [bNL] ∧
    (∀ fn, fn ∈ sorted ↔ fn ∈ files.map (·.1)) ∧
    ∀ fn ∈ sorted, (normSpansS r.1 (segsOf fn) none).flatMap (spanSlice S) = segBytes blk (segsOf fn) := by
  intro sorted segsOf r btoks S
  exact ⟨normalizedText_eq name files, fun fn => mem_sortBytes fn _, normalizedText_bytes blk files hc⟩

/-- **C10_rendered_token_parses.** Text rendering and re-parsing of one file token are inverse: what
`normalizedText` writes with `fmt.Sprintf("%d:%d:%s", pos, len, EscapeName(name))` is read back by
`parseFileStreamSegment` (`SplitN`, `ParseUint`, `UnescapeName`) as exactly (pos, len, name), for
every name (any bytes, colons included) and every pos, len below 2^64; hence all tokens of a file
in `normalizedText`'s output parse back to its spans and its name. -/
theorem C10_rendered_token_parses (a l : Nat) (fn : Bytes) (ha : a < two64) (hl : l < two64) :
    pkgFileTok (fileTokText (a : Int) (l : Int) (pkgEscape fn)) = some ⟨a, l, fn⟩ :=
  pkgFileTok_rendered a l fn ha hl

theorem C10_rendered_file_parses (tbl : List (Bytes × Nat)) (fn : Bytes) (segs : List Seg)
    (hb : ∀ p ∈ normSpansS tbl segs none, p.1 < two64 ∧ p.2 < two64) :
    (normFileToks tbl fn segs).map pkgFileTok =
      ((normSpansS tbl segs none).map fun p => some (⟨p.1, p.2, fn⟩ : FTok)) ++
        (if segs.isEmpty then [some ⟨0, 0, fn⟩] else []) :=
  normFileToks_parse tbl fn segs hb

example : pkgFileTok (fileTokText 12 345 (pkgEscape [97, 32, 58, 92])) = some ⟨12, 345, [97, 32, 58, 92]⟩ :=
  C10_rendered_token_parses 12 345 _ (by decide) (by decide)

/-! ## Extract end to end: the output text parses back -/

/-- **C10_extract_reparses.** Text level, end to end: if `segment()` of the input succeeds and every
stream `Extract(srcpath, relocate)` selects satisfies `RenderOk` — its relocated name is `.` or starts
with `./`, every relocated path is canonical (this is the explicit hypothesis on `relocate`), its
segments are what `segment()` produces (`SegOk`), contents/sizes are a function of the digest, and the
normalized stream is shorter than 2^64 bytes — then `Extract` returns a text that the package parses
again without error, stream by stream into exactly the streams it rendered (`normStream`: blocks of
pass 1, spans of pass 2), and `segment()` of that text resolves every path over these streams. -/
theorem C10_extract_reparses (blk : Bytes → Bytes) (txt srcpath relocate : Bytes) (m : SegMap)
    (hm : pkgSegment txt = .ok m) (hok : ∀ o ∈ extractS m srcpath relocate, RenderOk blk o.1 o.2) :
    ∃ out m', pkgExtract txt srcpath relocate = .ok out ∧
      pkgStreams out = (extractS m srcpath relocate).map (fun o => toPStream (normStream o.1 o.2)) ∧
      pkgSegment out = .ok m' ∧
      ∀ a b : Bytes, segLookup m' (splitPath (pathOf a b)) =
        resolve ((extractS m srcpath relocate).map fun o => normStream o.1 o.2) (pathOf a b) := by
  rcases C10_extract_text txt srcpath relocate with ⟨m0, h0, hext⟩ | ⟨h0, _⟩
  · rw [hm] at h0; cases h0
    have hstreams := pkgStreams_rendered blk (extractS m srcpath relocate) hok
    have hparsed : pkgParsed (renderOuts (extractS m srcpath relocate)) =
        (extractS m srcpath relocate).map fun o => normStream o.1 o.2 := by
      unfold pkgParsed; rw [hstreams, List.map_map]; rfl
    rcases (C10_pkg_total (renderOuts (extractS m srcpath relocate))).2 with ⟨_, ps, hps, herr⟩ | ⟨m', h1, _, h3⟩
    · rw [hstreams] at hps
      obtain ⟨o, _, rfl⟩ := List.mem_map.mp hps
      cases herr
    · exact ⟨_, m', hext, hstreams, h1, fun a b => by rw [h3 a b, hparsed]⟩
  · rw [hm] at h0; cases h0

/-- **C10_extract_preserves — text level, end to end.** Under the hypotheses of `C10_extract_reparses`
(in particular: every relocated path canonical), parse `Extract(srcpath, relocate)`'s output text
again with the package: for *every* combined path `p`, the bytes of the segments `segment()` gives
for `p` in the output are the concatenation, over the selected streams and their files in sorted
order, of the bytes of the *source* segment lists of exactly those files whose relocated path is
`p`. With `C10_extract_selects_dir/_file` (which streams/files are selected and how they are
renamed) and `C10_pkg_bytes` (source segment lists = the document's bytes) this is: extracting
preserves every file's byte sequence under its relocated, unescaped name, and nothing else appears. -/
theorem C10_extract_preserves (blk : Bytes → Bytes) (txt srcpath relocate : Bytes) (m : SegMap)
    (hm : pkgSegment txt = .ok m) (hok : ∀ o ∈ extractS m srcpath relocate, RenderOk blk o.1 o.2) :
    ∃ out m', pkgExtract txt srcpath relocate = .ok out ∧ pkgSegment out = .ok m' ∧
      ∀ a b : Bytes, segBytes blk (segLookup m' (splitPath (pathOf a b))) =
        (extractS m srcpath relocate).flatMap fun o => (sortBytes (o.2.map (·.1))).flatMap fun fn =>
          if pathOf o.1 fn = pathOf a b then segBytes blk (segsOfFiles o.2 fn) else [] := by
  obtain ⟨out, m', h1, _, h3, h4⟩ := C10_extract_reparses blk txt srcpath relocate m hm hok
  refine ⟨out, m', h1, h3, fun a b => ?_⟩
  rw [h4 a b, outs_bytes blk _ (fun o ho => (hok o ho).consistent)]

/-- the hypotheses of `C10_extract_reparses` / `C10_extract_preserves` are satisfiable: stream `.` with
one file `f` of three bytes -/
def wLoc : Bytes := [97, 97, 97, 97, 97, 97, 97, 97, 97, 97, 97, 97, 97, 97, 97, 97, 97, 97, 97, 97, 97, 97, 97, 97, 97, 97, 97, 97, 97, 97, 97, 97, 43, 51]
def wFiles : List (Bytes × List Seg) := [([102], [⟨wLoc, 0, 3⟩])]

set_option maxRecDepth 100000 in
example : RenderOk (fun _ => [1, 2, 3]) [46] wFiles := by
  have hall : allSegs wFiles = [⟨wLoc, 0, 3⟩] := by decide +kernel
  have hsz : locSize wLoc = 3 := by decide +kernel
  refine ⟨Or.inl rfl, by decide, ?_, ?_, by decide +kernel, ?_⟩
  · intro s hs
    rw [hall] at hs
    simp only [List.mem_singleton] at hs
    subst hs
    exact ⟨by decide +kernel, by rw [hsz]; decide, by rw [hsz]; decide, by decide⟩
  · rw [hall]
    refine ⟨?_, ?_, ?_⟩
    · intro s hs; simp only [List.mem_singleton] at hs; subst hs; rw [hsz]; rfl
    · intro s _ s' _ _; rfl
    · intro s hs; simp only [List.mem_singleton] at hs; subst hs; rw [hsz]; decide
  · intro fn hfn
    have : fn = [102] := by simpa [wFiles] using hfn
    subst this
    decide +kernel

end ArvVerif.C10
