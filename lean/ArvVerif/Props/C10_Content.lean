/-
C10 — property theorems about *bytes*: the reference interpreter against the document's wording,
the codecs' recovered bytes, and the byte-preservation kernel of normalization.
-/
import ArvVerif.Props.C10
import ArvVerif.Proofs.C10_Normalize
import ArvVerif.Proofs.C10_Termination
import ArvVerif.Proofs.C10_SizedDigests
namespace ArvVerif.C10

/-- **C10_resolve_bytes.** `resolve` is the document's semantics: for block contents `blk` of the
declared sizes, the bytes of a path's segments are, token by token in manifest order, bytes
`position … position+size` of the logical concatenation of the token's stream. -/
theorem C10_resolve_bytes (blk : Bytes → Bytes) (M : Manifest) (p : Bytes)
    (hsz : ∀ s ∈ M, ∀ b ∈ s.blocks, (blk b.text).length = b.size) :
    segBytes blk (resolve M p) = fileContent blk M p :=
  resolve_bytes blk M p hsz

/-- hence the Go manifest package recovers exactly the document's bytes for every path … -/
theorem C10_pkg_bytes (blk : Bytes → Bytes) (txt : Bytes) (M : Manifest) (hvalid : parseSpec txt = some M)
    (hfit : ∀ s ∈ M, FitsGo s) (hsz : ∀ s ∈ M, ∀ b ∈ s.blocks, (blk b.text).length = b.size) :
    ∃ m, pkgSegment txt = .ok m ∧
      ∀ sn fn : Bytes, segBytes blk (segLookup m (splitPath (pathOf sn fn))) = fileContent blk M (pathOf sn fn) := by
  obtain ⟨m, h1, h2⟩ := C10_pkg_agrees txt M hvalid hfit
  exact ⟨m, h1, fun sn fn => by rw [(h2 sn fn).1, resolve_bytes blk M _ hsz]⟩

/-- … and so does the collection filesystem loader (as far as its stored segments go; reading them
is C03/C08's subject and is checked on the real `filenode.Read` by the correspondence oracle). -/
theorem C10_fs_bytes (blk : Bytes → Bytes) (txt : Bytes) (M : Manifest) (hvalid : parseSpec txt = some M)
    (hfit : ∀ s ∈ M, FitsFs s) (htree : TreeConsistent M)
    (hsz : ∀ s ∈ M, ∀ b ∈ s.blocks, (blk b.text).length = b.size) :
    ∃ t, fsLoad txt = some t ∧
      ∀ p ∈ pathsOf M, (fsSegsOf t p).map (segBytes blk) = some (fileContent blk M p) := by
  obtain ⟨t, h1, h2, _⟩ := C10_fs_agrees txt M hvalid hfit htree
  exact ⟨t, h1, fun p hp => by rw [(h2 p hp).1, Option.map_some, resolve_bytes blk M _ hsz]⟩

example : fileContent (fun l => if l.head? = some 97 then [1, 2, 3] else if l.head? = some 98 then [4, 5, 6, 7, 8] else [])
    wF3M [46, 47, 102] = [3, 4, 5, 6] := by decide +kernel

/-- **C10_normalize_preserves_partial.** The kernel shared by `segmentedStream.normalizedText`
(Go) and `normalize_stream` (Python): list every digest once (first pass), collapse each file's
segments into stream spans (second pass). For contents and sizes that are a function of the digest
and segments inside their blocks, the spans of every file, cut out of the concatenation of the
listed blocks, are exactly the bytes of that file's segments.

*Partial*: this is the byte-preservation core at the level of segment lists. Not proved in Lean:
rendering the result as text and re-parsing it (decimal formatting; name escaping is
`C10_escape_roundtrip`), `sort.Strings`, and `manifestTextForPath`'s selection/relocation of
streams and files — these are exercised for every (srcpath, relocate) pair by the correspondence
check, whose oracle re-interprets the output with the reference interpreter. -/
theorem C10_normalize_preserves_partial (blk : Bytes → Bytes) (files : List (List Seg))
    (hc : DigestConsistent blk files.flatten) :
    let r := normBlocks files.flatten [] [] 0
    let S := streamBytes blk (r.2.1.map fun t => ⟨t, locSize t⟩)
    ∀ segs ∈ files, (normSpansS r.1 segs none).flatMap (spanSlice S) = segBytes blk segs :=
  normalize_preserves_bytes blk files hc

/-- the text tokens `normalizedText` emits for a file are the rendering of these spans -/
theorem C10_normalize_tokens (tbl : List (Bytes × Nat)) (fout : Bytes) (segs : List Seg) :
    normSpans tbl fout segs none = (normSpansS tbl segs none).map (spanTok fout) :=
  normSpans_eq tbl fout segs none (by intro a b h; cases h)

/-- **C10_total, hang clause for the searches**: on *every* offsets array (sorted or not, wrapped or
not) and for either version of the comparison, the loop of `manifest.firstBlock` / Python
`first_block` exits. (All other loops of the three codecs are bounded `for` loops over tokens or
blocks; their models are structurally recursive.) -/
theorem C10_firstBlock_terminates (g : Nat → Nat → Nat → Bool) (offs : List Nat) (rs : List PyRange) (start : Nat) :
    firstBlockWith g offs start ≠ .outOfFuel ∧ pyFirstBlockWith g rs start ≠ .outOfFuel :=
  ⟨firstBlockWith_terminates g offs start, pyFirstBlockWith_terminates g rs start⟩

/-- **C10_sized_digests.** For every text inside the grammar `Collection.SizedDigests` returns no
error and, in manifest order, the hash+size part of every block locator (all hints dropped). -/
theorem C10_sized_digests (txt : Bytes) (M : Manifest) (hvalid : parseSpec txt = some M) :
    sizedDigests txt = some (M.flatMap fun s => s.blocks.map fun b => stripLoc b.text) :=
  sizedDigests_valid txt M hvalid

example : sizedDigests wF3 = some (wF3M.flatMap fun s => s.blocks.map fun b => stripLoc b.text) :=
  C10_sized_digests wF3 wF3M wF3_valid

end ArvVerif.C10
