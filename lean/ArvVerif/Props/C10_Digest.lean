/-
C10 — property theorems for sdk/go/blockdigest/blockdigest.go (third extension pass): locator parsing
(`LocatorPattern`, `FromString`, `ParseBlockLocator` — the same code is `manifest.ParseBlockLocator`) and the
`BlockDigest` the manifest package keys its block table by. Until this pass these were covered only by the
abstraction `digestKey`/`locSize` of Model/C10_Go.lean and by the differential run.
-/
import ArvVerif.Proofs.C10_Digest
namespace ArvVerif.C10

/-- **C10_digest_roundtrip.** On the 32 digest characters of any locator (either case) `FromString` succeeds
and `BlockDigest.String()` gives them back lower-cased; any other string (wrong length, a character outside
`[0-9a-fA-F]`) is an error. -/
theorem C10_digest_roundtrip (s : Bytes) :
    (s.length = 32 → s.all isAnyHex = true →
      ∃ d, digestFromString s = some d ∧ digestString d = s.map lowerHexB) ∧
    ((s.length ≠ 32 ∨ s.all isAnyHex = false) → digestFromString s = none) := by
  refine ⟨fun hl ha => ?_, digestFromString_none s⟩
  obtain ⟨d, h1, h2, _⟩ := digestFromString_spec s hl ha
  exact ⟨d, h1, h2⟩

/-- **C10_digest_key.** Two locators that `LocatorPattern` accepts carry the same `blockdigest.BlockDigest`
(the key of `normalizedText`'s block table) exactly when their `digestKey`s — the key of the codec model's
table — are equal: the model's abstraction of the Go map key is exact. -/
theorem C10_digest_key (t u dt du : Bytes) (ht : goLocatorDigits t = some dt) (hu : goLocatorDigits u = some du) :
    digestFromString (t.take 32) = digestFromString (u.take 32) ↔ digestKey t = digestKey u := by
  obtain ⟨_, _, h1, h2, _⟩ := locator_split t dt ht
  obtain ⟨_, _, h3, h4, _⟩ := locator_split u du hu
  rw [digestKey_eq, digestKey_eq]
  exact digestFromString_eq_iff _ _ h1 h3 h2 h4

/-- **C10_parse_block_locator — for every string.** `ParseBlockLocator` (blockdigest and manifest package)
never hits the index-out-of-range on `tokens[1]`; it rejects exactly the strings `LocatorPattern` rejects
and the accepted ones whose size does not fit an `int`; on every other accepted string it returns the digest
that prints back as the lower-cased 32 digest characters, the decimal value of the size field, and hints such
that digest text, size text and hints joined by `+` are the token. -/
theorem C10_parse_block_locator (t : Bytes) :
    parseBlockLocator t ≠ .panic ∧
    (isBlockLocator t = false → parseBlockLocator t = .err) ∧
    (∀ ds, goLocatorDigits t = some ds →
      (natOfDigits ds < two63 →
        ∃ d hints, parseBlockLocator t = .ok ⟨d, (natOfDigits ds : Nat), hints⟩ ∧ digestString d = digestKey t ∧
          t = joinWith bPlus (t.take 32 :: ds :: hints)) ∧
      (two63 ≤ natOfDigits ds → parseBlockLocator t = .err)) :=
  ⟨parseBlockLocator_no_panic t, parseBlockLocator_rejects t, fun ds h => parseBlockLocator_spec t ds h⟩

/-- **C10_spec_locator_parses.** A locator of the published grammar (lower-case digest) whose size fits an
`int` is parsed by `ParseBlockLocator` into exactly the grammar's reading: digest = its 32 characters, size =
`Loc.size` (the size `resolve` uses), and hash+size (`stripLoc`, what the portable data hash keeps) is the
digest's `String()` + `+` + the size digits. -/
theorem C10_spec_locator_parses (t : Bytes) (l : Loc) (h : specLocator t = some l) (hsz : l.size < two63) :
    ∃ d hints ds, parseBlockLocator t = .ok ⟨d, (l.size : Nat), hints⟩ ∧ digestString d = t.take 32 ∧
      stripLoc t = digestString d ++ bPlus :: ds ∧ natOfDigits ds = l.size := by
  obtain ⟨ds, hgo, rfl⟩ := specLocator_go t l h
  obtain ⟨d, hints, h1, h2, _⟩ := (parseBlockLocator_spec t ds hgo).1 hsz
  have hlow : locatorSizeDigits isLowerHex t = some ds := by
    unfold specLocator at h
    cases hd : locatorSizeDigits isLowerHex t with
    | none => rw [hd] at h; cases h
    | some ds' =>
      have := locatorSizeDigits_mono _ _ isLowerHex_isAnyHex t ds' hd
      unfold goLocatorDigits at hgo
      rw [this] at hgo
      cases hgo; rfl
  obtain ⟨hs, tl, ht, hlen, hall, _, _, _⟩ := locatorSizeDigits_shape isLowerHex t ds hlow
  have htake : t.take 32 = hs := by rw [ht, List.take_left' hlen]
  -- lower-case digits are fixed by lower-casing
  have hfix : (t.take 32).map lowerHexB = t.take 32 := by
    rw [htake]
    have : ∀ x ∈ hs, lowerHexB x = x := by
      intro x hx
      have hx' := List.all_eq_true.mp hall x hx
      unfold lowerHexB
      have : ¬ ((65 : UInt8) ≤ x ∧ x ≤ 70) := by
        simp only [isLowerHex, isDigit, Bool.or_eq_true, Bool.and_eq_true, decide_eq_true_eq] at hx'
        rintro ⟨a, b⟩
        rcases hx' with ⟨_, c⟩ | ⟨c, _⟩
        · have := UInt8.le_trans a c; revert this; decide
        · have := UInt8.le_trans c b; revert this; decide
      simp [this]
    calc hs.map lowerHexB = hs.map id := List.map_congr_left this
      _ = hs := List.map_id hs
  have hd : digestString d = t.take 32 := by rw [h2, digestKey_eq, hfix]
  refine ⟨d, hints, ds, h1, hd, ?_, rfl⟩
  unfold stripLoc
  rw [hlow, hd]
  have : t.take 33 = t.take 32 ++ [bPlus] := by
    rw [ht]
    have e1 : hs.take 33 = hs := List.take_of_length_le (by omega)
    simp [List.take_append, hlen, e1]
  simp [this]

/-- non-vacuity: a lower-case locator with a hint, and an upper-case spelling of the same digest -/
example : parseBlockLocator (str "d41d8cd98f00b204e9800998ecf8427e+0+Afoo@bar") =
    .ok ⟨⟨0xd41d8cd98f00b204, 0xe9800998ecf8427e⟩, 0, [str "Afoo@bar"]⟩ := by decide +kernel
example : digestFromString (str "D41D8CD98F00B204E9800998ECF8427E") =
    digestFromString (str "d41d8cd98f00b204e9800998ecf8427e") := by decide +kernel
example : digestString ⟨0xd41d8cd98f00b204, 0xe9800998ecf8427e⟩ = str "d41d8cd98f00b204e9800998ecf8427e" := by
  decide +kernel
example : parseBlockLocator (str "d41d8cd98f00b204e9800998ecf8427e+9223372036854775808") = .err := by decide +kernel
example : parseBlockLocator (str "d41d8cd98f00b204e9800998ecf8427+0") = .err := by decide +kernel

end ArvVerif.C10
