/-
C15 — every runnable container reaches a final state; idle instances are released.
Parts (ii) convergence and (iii) restart, on the transition system of Model/C15_Live.lean.

Premises, all explicit in the statements:
* **P1** the cloud eventually creates a working instance of each requested type and eventually
  honours Destroy; **P2** every continuously enabled dispatcher action eventually happens — together:
  the hypothesis `hfair` (weak fairness of every `Kind`; it is assumed per *kind* of action, which is
  weaker than per container/instance);
* **P3** finitely many faults: `LState.faults`, every fault step needs and consumes one unit;
* **P4** (guard of `Step.idleTimeout`) no idle timeout while a Locked container of that type waits;
* **A1** of C14 (guard of `Step.recoveryDone`);
* "satisfiable instance type": `TypesOK` of the initial state.
An execution is a stream `run : Nat → LState` with `act n` the action taken at step `n`.
-/
import ArvVerif.Proofs.C15_Live4
import ArvVerif.Props.C15
namespace ArvVerif.C15
open ArvVerif.C14 (Uuid IType)

/-- **The variant never increases**: whatever happens (dispatcher action, cloud, crunch-run, fault,
restart, nothing), the lexicographic variant (fault budget, quota back-off, recovery, work left in
containers, workers to request, life left in instances) stays or goes down. -/
theorem C15_variant_monotone {s t : LState} {a : Act} (h : Step s a t) : (mu t).le (mu s) := step_le h

/-- **Every fair action decreases it** strictly — scheduler pass actions, probes, timeouts, pool sync,
queue-driven actions, the cloud's and crunch-run's progress — and so does every fault (budget). -/
theorem C15_variant_decreases {s t : LState} (k : Kind) (h : Step s (.fair k) t) : (mu t).lt (mu s) := step_fair h

theorem C15_variant_fault {s t : LState} (h : Step s .fault t) : (mu t).lt (mu s) := step_fault h

/-- The order of the variant is well founded. -/
theorem C15_variant_wf : WellFounded Mu.lt := Mu.lt_wf

/-- **Progress**: as long as some container is not final or some instance still exists, a fair
action is enabled (in any state whatsoever whose types are satisfiable — in particular in whatever
state faults and restarts leave behind). -/
theorem C15_progress (s : LState) (hT : TypesOK s) (hg : ¬ (AllFinal s ∧ NoInstances s)) : ∃ k, Enabled k s := by
  obtain ⟨k, hk, _⟩ := progress s hT hg
  exact ⟨k, hk⟩

/-- "Every container is Complete or Cancelled" is stable: no step, fault or restart undoes it. -/
theorem C15_final_stable {s t : LState} {a : Act} (h : Step s a t) (hA : AllFinal s) : AllFinal t :=
  allFinal_step h hA

/-- **Convergence.** Every weakly fair execution reaches a state in which every container is
Complete or Cancelled — and stays so — and then a state with no instances. -/
theorem C15_converges (run : Nat → LState) (act : Nat → Act)
    (hstep : ∀ n, Step (run n) (act n) (run (n + 1)))
    (htypes : TypesOK (run 0))
    (hfair : ∀ k n, (∀ m, n ≤ m → Enabled k (run m)) → ∃ m, n ≤ m ∧ act m = .fair k) :
    ∃ n, AllFinal (run n) ∧ (∀ m, n ≤ m → AllFinal (run m)) ∧ ∃ m, n ≤ m ∧ NoInstances (run m) := by
  have hT : ∀ n, TypesOK (run n) := by
    intro n
    induction n with
    | zero => exact htypes
    | succ n ih => exact typesOK_step (hstep n) ih
  have key := converge_fair mu (fun s => AllFinal s ∧ NoInstances s) Stable run
    (fun n => match act n with | .fair k => some k | _ => none)
    (fun n => step_le (hstep n))
    (by
      intro n k hl
      have hs := hstep n
      cases ha : act n with
      | fair k' =>
        rw [ha] at hl hs
        exact step_fair hs
      | lockQ => rw [ha] at hl; cases hl
      | unlockQ => rw [ha] at hl; cases hl
      | quotaShutdown => rw [ha] at hl; cases hl
      | fault => rw [ha] at hl; cases hl
      | idle => rw [ha] at hl; cases hl)
    (fun n hg => progress (run n) (hT n) hg)
    (fun n k hs he => stable_keep (hstep n) he hs)
    (by
      intro k n hall
      obtain ⟨m, hm, ha⟩ := hfair k n (fun m hm => (hall m hm).1)
      exact ⟨m, hm, by rw [ha]⟩)
  obtain ⟨n, _, hA, hN⟩ := key 0
  refine ⟨n, hA, ?_, n, Nat.le_refl _, hN⟩
  intro m hm
  obtain ⟨d, rfl⟩ := Nat.exists_eq_add_of_le hm
  induction d with
  | zero => exact hA
  | succ d ih => exact allFinal_step (hstep (n + d)) (ih (by omega))

/-- **Restart safe.** A dispatcher restart consumes one fault and therefore lowers the variant,
whatever it does to the rest of it; afterwards every surviving instance is Unknown (to be probed:
adopted with its processes, or shut down after the boot timeout), no free container is in a state
that needs the lost pool bookkeeping (Locked ones carry inherited locks, to be unlocked or used
once fixStaleLocks returns), nothing that was final is lost, types stay satisfiable — so progress
and convergence apply to the restarted system as they are. -/
theorem C15_restart_safe (s : LState) (h0 : 0 < s.faults) :
    let t : LState := { s with faults := s.faults - 1, recovering := true,
                               ctrs := s.ctrs.map restartCtr, insts := s.insts.map restartInst }
    Step s .fault t ∧ (mu t).lt (mu s) ∧
    (∀ i ∈ t.insts, i.ph = .gone ∨ ∃ j, i.ph = .unknown j) ∧
    (∀ c ∈ t.ctrs, c.ph = .queued ∨ c.ph = .lockedStale ∨ c.ph = .lostR ∨ c.ph = .fin) ∧
    (∀ i ∈ s.insts, ∃ i' ∈ t.insts, i'.ph.job = i.ph.job ∧ i'.ty = i.ty ∧ i'.health = i.health) ∧
    (AllFinal s → AllFinal t) ∧ (TypesOK s → TypesOK t) := by
  intro t
  have hst : Step s .fault t := Step.restart s h0
  refine ⟨hst, step_fault hst, ?_, ?_, ?_, allFinal_step hst, typesOK_step hst⟩
  · intro i hi
    obtain ⟨i0, _, rfl⟩ := List.mem_map.mp hi
    unfold restartInst
    cases hp : i0.ph <;> simp [hp]
  · intro c hc
    obtain ⟨c0, _, rfl⟩ := List.mem_map.mp hc
    unfold restartCtr
    cases hp : c0.ph <;> simp [hp]
  · intro i hi
    refine ⟨restartInst i, List.mem_map.mpr ⟨i, hi, rfl⟩, restartInst_job i, restartInst_ty i, ?_⟩
    unfold restartInst
    split <;> rfl

/-! ### the pool steps of the liveness system are the L2 responses

`IPh.wstate`/`Health.idleB` say which `worker.State` / `IdleBehavior` a phase of the liveness system
stands for (a broken instance looks like any other to the dispatcher until its probes time out).
Each dispatcher-side pool step of `Step` maps, under this reading, to the response proved for the
L2 worker model in Props/C15.lean. -/

def IPh.wstate : IPh → Option C14.WState
  | .creating | .gone => none
  | .booting => some .booting
  | .unknown _ => some .unknown
  | .up none => some .idle
  | .up (some _) => some .running
  | .shutP _ | .shutF _ => some .shutdown

def Health.idleB : Health → C14.IdleB
  | .ok | .broken => .run
  | .drain => .drain

/-- `idleTimeout`, `drainShutdown`, `brokenTimeout` (boot and probe variants), `destroyRetry` and the
absence of `start` on anything but `up none`/`ok`, read as statements about a C14 `Worker` in the
corresponding state. -/
theorem C15_live_pool_steps_match_responses (w : C14.Worker) (T : Timeouts) (gu : List Uuid) (now : Nat) :
    -- idleTimeout: up none / ok  →  shutP
    (some w.state = (IPh.up none).wstate → w.idleB = Health.ok.idleB → ∀ d, T.idle ≤ d →
      some (probeTick w T gu d now).1.state = (IPh.shutP none).wstate) ∧
    -- drainShutdown: booting or up none / drain  →  shutP
    ((some w.state = IPh.booting.wstate ∨ some w.state = (IPh.up none).wstate) → w.idleB = Health.drain.idleB →
      ∀ d, some (probeTick w T gu d now).1.state = (IPh.shutP none).wstate) ∧
    -- brokenTimeout: booting / broken (boot probe keeps failing)  →  shutP
    (some w.state = IPh.booting.wstate → w.idleB = Health.broken.idleB → ∀ pi : ProbeIn, pi.bootOk = false →
      T.booting ≤ pi.dur → some (probeAndUpdate w T gu pi now).1.state = (IPh.shutP none).wstate) ∧
    -- brokenTimeout: up j / broken (run probe keeps failing)  →  shutP j
    (∀ j, some w.state = (IPh.up j).wstate → w.idleB = Health.broken.idleB → ∀ pi : ProbeIn, pi.listOk = false →
      T.probe ≤ pi.dur → some (probeAndUpdate w T gu pi now).1.state = (IPh.shutP j).wstate) := by
  refine ⟨?_, ?_, ?_, ?_⟩
  · intro hs hb d hd
    have hs' : w.state = .idle := by simpa [IPh.wstate] using hs
    rw [(C15_resp_idle_timeout w T gu d now hs' hb hd).1]; rfl
  · intro hs hb d
    have hs' : w.state = .booting ∨ w.state = .idle := by
      rcases hs with h | h
      · exact Or.inl (by simpa [IPh.wstate] using h)
      · exact Or.inr (by simpa [IPh.wstate] using h)
    rw [(C15_resp_drain_shutdown w T gu d now hb (hs'.elim Or.inl (fun h => Or.inr (Or.inl h)))).1]; rfl
  · intro hs hb pi hboot hd
    have hs' : w.state = .booting := by simpa [IPh.wstate] using hs
    rw [C15_resp_boot_timeout w T gu pi now hs' (by rw [hb]; decide) hboot hd]; rfl
  · intro j hs hb pi hl hd
    have hs' : w.state = .idle ∨ w.state = .running := by
      cases j with
      | none => exact Or.inl (by simpa [IPh.wstate] using hs)
      | some j => exact Or.inr (by simpa [IPh.wstate] using hs)
    rw [C15_resp_unreachable_timeout w T gu pi now hs' (by rw [hb]; decide) hl hd]; rfl

/-! ### non-vacuity: a fair execution in which a container is locked, gets an instance created,
runs, completes, and the instance is shut down for idleness and destroyed -/

namespace Example

def st (cs : List Ctr) (is : List Inst) : LState := ⟨0, false, false, [1], cs, is⟩
def up (j : JPh) : Inst := ⟨1, .ok, .up (some ⟨7, j⟩)⟩

def run : Nat → LState
  | 0 => st [⟨7, 1, .queued⟩] []
  | 1 => st [⟨7, 1, .locked⟩] []
  | 2 => st [⟨7, 1, .locked⟩] [⟨1, .ok, .creating⟩]
  | 3 => st [⟨7, 1, .locked⟩] [⟨1, .ok, .booting⟩]
  | 4 => st [⟨7, 1, .locked⟩] [⟨1, .ok, .up none⟩]
  | 5 => st [] [up .starting]
  | 6 => st [] [up .runL]
  | 7 => st [] [up .runR]
  | 8 => st [⟨7, 1, .fin⟩] [up .done]
  | 9 => st [⟨7, 1, .fin⟩] [⟨1, .ok, .up none⟩]
  | 10 => st [⟨7, 1, .fin⟩] [⟨1, .ok, .shutP none⟩]
  | _ => st [⟨7, 1, .fin⟩] [⟨1, .ok, .gone⟩]

def act : Nat → Act
  | 0 => .fair .lock | 1 => .fair .create | 2 => .fair .createDone | 3 => .fair .boot | 4 => .fair .start
  | 5 => .fair .exec | 6 => .fair .apiRun | 7 => .fair .complete | 8 => .fair .jobGone
  | 9 => .fair .idleTimeout | 10 => .fair .destroyOk | _ => .idle

theorem steps : ∀ n, Step (run n) (act n) (run (n + 1))
  | 0 => Step.lock (run 0) [] [] ⟨7, 1, .queued⟩ rfl rfl rfl rfl
  | 1 => Step.create (run 1) 1 rfl rfl (by decide) (by decide)
  | 2 => Step.createDone (run 2) [] [] ⟨1, .ok, .creating⟩ rfl rfl
  | 3 => Step.boot (run 3) [] [] ⟨1, .ok, .booting⟩ rfl rfl (by decide)
  | 4 => Step.start (run 4) [] [] ⟨7, 1, .locked⟩ [] [] ⟨1, .ok, .up none⟩ rfl rfl rfl rfl rfl rfl rfl
  | 5 => Step.exec (run 5) [] [] (up .starting) ⟨7, .starting⟩ rfl (Or.inr rfl) (by decide) rfl
  | 6 => Step.apiRun (run 6) [] [] (up .runL) ⟨7, .runL⟩ rfl rfl rfl
  | 7 => Step.complete (run 7) [] [] (up .runR) ⟨7, .runR⟩ rfl rfl rfl
  | 8 => Step.jobGone (run 8) [] [] (up .done) ⟨7, .done⟩ false rfl rfl (by decide) rfl
  | 9 => Step.idleTimeout (run 9) [] [] ⟨1, .ok, .up none⟩ rfl rfl rfl (Or.inr (by decide))
  | 10 => Step.destroyOk (run 10) [] [] ⟨1, .ok, .shutP none⟩ none rfl rfl
  | (n + 11) => Step.idle _

theorem quiescent (k : Kind) : ¬ Enabled k (run 11) := by
  cases k <;> simp [Enabled, run, st, noOrphans, noUnknown, waiting, unallocReal, Inst.unallocReal, IPh.job]

theorem run_ge (m : Nat) (h : 11 ≤ m) : run m = run 11 := by
  obtain ⟨d, rfl⟩ := Nat.exists_eq_add_of_le h
  rw [Nat.add_comm]
  rfl

theorem fair (k : Kind) (n : Nat) (h : ∀ m, n ≤ m → Enabled k (run m)) : ∃ m, n ≤ m ∧ act m = .fair k := by
  have := h (n + 11) (by omega)
  rw [run_ge (n + 11) (by omega)] at this
  exact absurd this (quiescent k)

theorem types0 : TypesOK (run 0) := by
  constructor <;> simp [run, st]

end Example

/-- The premises of `C15_converges` are satisfied by an execution that actually runs a container. -/
example : ∃ n, AllFinal (Example.run n) ∧ (∀ m, n ≤ m → AllFinal (Example.run m)) ∧
    ∃ m, n ≤ m ∧ NoInstances (Example.run m) :=
  C15_converges Example.run Example.act Example.steps Example.types0 Example.fair

/-- … and a restart step with faults left exists. -/
example : (mu { (⟨1, false, false, [1], [⟨7, 1, .locked⟩], [⟨1, .ok, .up (some ⟨8, .runR⟩)⟩]⟩ : LState) with
    faults := 0, recovering := true, ctrs := [⟨7, 1, .lockedStale⟩], insts := [⟨1, .ok, .unknown (some ⟨8, .runR⟩)⟩] }).lt
    (mu ⟨1, false, false, [1], [⟨7, 1, .locked⟩], [⟨1, .ok, .up (some ⟨8, .runR⟩)⟩]⟩) :=
  (C15_restart_safe ⟨1, false, false, [1], [⟨7, 1, .locked⟩], [⟨1, .ok, .up (some ⟨8, .runR⟩)⟩]⟩ (by decide)).2.1

end ArvVerif.C15
