/-
C18 — non-vacuity: concrete, non-trivial instances satisfying the hypotheses of the theorems in
Props/C18.lean (kept in a file of its own so that both files check quickly). No `theorem` here.
-/
import ArvVerif.Props.C18
namespace ArvVerif.C18

/-! ## Non-vacuity: the hypotheses of the theorems above are satisfiable by non-trivial instances -/

section examples

def exGood : Str :=
  ". 0123456789abcdef0123456789abcdef+3+Kzzz+A0123456789abcdef0123456789abcdef01234567@5e000000 0:3:f\n".toList
def exBad : Str := ". 0123456789abcdef0123456789abcdef+4 0:3:f\n".toList
def exReq : Str := pdh toyMd5 ". 0123456789abcdef0123456789abcdef+3 0:3:f\n".toList

def exScript : Script :=
  { clusterID := "aaaaa".toList, req := exReq, fwd := [], loc := .err 404,
    remotes := [("bbbbb".toList, .coll ⟨"u1".toList, exBad⟩), ("ccccc".toList, .coll ⟨"u2".toList, exGood⟩),
                ("ddddd".toList, .hang)],
    order := [("bbbbb".toList, .coll ⟨"u1".toList, exBad⟩), ("ccccc".toList, .coll ⟨"u2".toList, exGood⟩)] }

/-- a mismatching answer first, an honest one second, a third remote hanging: the honest one is
returned with its signature rewritten (hypotheses of C18_only_valid_returned,
C18_mismatch_first_never_wins, C18_honest_remote_succeeds, C18_returned_hashes_to_requested) -/
example : collectionGet toyMd5 exScript = .ok ⟨"u2".toList,
    ". 0123456789abcdef0123456789abcdef+3+Kzzz+Rccccc-0123456789abcdef0123456789abcdef01234567@5e000000 0:3:f\n".toList⟩ := by
  decide
example : exScript.req.length ≠ 27 := by decide
example : pdhOK toyMd5 exReq exBad = false ∧ pdhOK toyMd5 exReq exGood = true := by decide
set_option linter.defProp false in
def exGood_tail_eq : (splitOn ' ' exGood).tail =
    ["0123456789abcdef0123456789abcdef+3+Kzzz+A0123456789abcdef0123456789abcdef01234567@5e000000".toList,
      "0:3:f\n".toList] := by decide
example : SizedLocs exGood := by
  intro t ht hl
  rw [exGood_tail_eq] at ht
  simp only [List.mem_cons, List.mem_nil_iff, or_false] at ht
  rcases ht with rfl | rfl <;> revert hl <;> decide
/-- a request with trailing hints is accepted as well -/
example : pdhOK toyMd5 (exReq ++ "+Afoo@bar".toList) exGood = true := by decide

/-- every remote mismatches / errs / hangs (hypothesis of C18_mismatch_is_error): 502; all 404: 404 -/
example : collectionGet toyMd5 { exScript with order := [("bbbbb".toList, .coll ⟨"u1".toList, exBad⟩)] } = .error 502 := by
  decide
example : collectionGet toyMd5 { exScript with remotes := [("bbbbb".toList, .err 404)], order := [("bbbbb".toList, .err 404)] }
    = .error 404 := by decide

/-- two honest remotes answering together, each with its own signature: exactly two results are
possible, each remote's manifest labelled with that remote's own id (hypotheses of
C18_any_order_only_valid / C18_any_order_honest_succeeds) -/
def exGood2 : Str :=
  ". 0123456789abcdef0123456789abcdef+3+Afedcba9876543210fedcba9876543210fedcba98@5e000000 0:3:f\n".toList
def exRace : Script :=
  { exScript with
    remotes := [("bbbbb".toList, .coll ⟨"u1".toList, exGood2⟩), ("ccccc".toList, .coll ⟨"u2".toList, exGood⟩)],
    order := [("bbbbb".toList, .coll ⟨"u1".toList, exGood2⟩), ("ccccc".toList, .coll ⟨"u2".toList, exGood⟩)] }
example : collectionGetAnyOrder toyMd5 exRace =
    [.ok ⟨"u1".toList, ". 0123456789abcdef0123456789abcdef+3+Rbbbbb-fedcba9876543210fedcba9876543210fedcba98@5e000000 0:3:f\n".toList⟩,
     .ok ⟨"u2".toList, ". 0123456789abcdef0123456789abcdef+3+Kzzz+Rccccc-0123456789abcdef0123456789abcdef01234567@5e000000 0:3:f\n".toList⟩] := by
  decide

/-- a digest with fixed length and no collision at one given text (hypotheses of
C18_accepted_equals_genuine_modulo_hints and C18_legacy_mismatch_is_error) -/
def pointMd5 (g x : Str) : Str := if x = g then List.replicate 32 'a' else List.replicate 32 'b'
example (g : Str) : (∀ x, (pointMd5 g x).length = 32) ∧ (∀ x, pointMd5 g x = pointMd5 g g → x = g) := by
  constructor
  · intro x; unfold pointMd5; split <;> simp
  · intro x h
    unfold pointMd5 at h
    by_cases hx : x = g
    · exact hx
    · rw [if_neg hx, if_pos rfl] at h
      exact absurd h (by decide)

/-- by-UUID: unknown prefix ⇒ served by the local backend and still rewritten with that prefix -/
def exUUIDScript : Script :=
  { exScript with
    req := "xxxxx-4zz18-000000000000000".toList
    loc := .coll ⟨"u0".toList, ". 0123456789abcdef0123456789abcdef+3+Afoo 0:3:f\n".toList⟩ }
example : collectionGet toyMd5 exUUIDScript
    = .ok ⟨"u0".toList, ". 0123456789abcdef0123456789abcdef+3+Rxxxxx-foo 0:3:f\n".toList⟩ := by decide

/-- a valid manifest: no block token contains a newline; hypothesis of C18_pdh_is_spec_partial -/
example : ∀ t ∈ (splitOn ' ' exGood).tail, locPrefix t = true → '\n' ∉ t := by decide
example : ∀ t ∈ (splitOn ' ' exGood).tail, ∀ n, sizedLen t = some n → wfHints (t.drop n) = true := by
  intro t ht n hn
  rw [exGood_tail_eq] at ht
  simp only [List.mem_cons, List.mem_nil_iff, or_false] at ht
  rcases ht with rfl | rfl
  · have h34 : sizedLen "0123456789abcdef0123456789abcdef+3+Kzzz+A0123456789abcdef0123456789abcdef01234567@5e000000".toList
        = some 34 := by decide
    rw [h34] at hn
    simp only [Option.some.injEq] at hn
    subst hn; decide
  · have hnone : sizedLen "0:3:f\n".toList = none := by decide
    rw [hnone] at hn; cases hn

/-- legacy: a normal, signed record is accepted and its signature rewritten (hypotheses of
C18_legacy_checks_hash, C18_legacy_bytes_partial); SignedLocatorRe accepts the token -/
def exLegacyHashed : Str := ". 0123456789abcdef0123456789abcdef+3 0:3:f\n".toList
example : rewriteSignatures toyMd5 "zzzzz".toList (toyMd5 exLegacyHashed ++ "+43".toList) exGood
      (toyMd5 exLegacyHashed ++ "+43".toList)
    = .ok ". 0123456789abcdef0123456789abcdef+3+Kzzz+Rzzzzz-0123456789abcdef0123456789abcdef01234567@5e000000 0:3:f\n".toList := by
  decide
example : LegacyNormal exGood := by unfold LegacyNormal; decide
set_option maxRecDepth 8192 in
example : (parseSigned "0123456789abcdef0123456789abcdef+3+Kzzz+A0123456789abcdef0123456789abcdef01234567@5e000000".toList).isSome
    ∧ parseSigned "0123456789abcdef0123456789abcdef+3+Kzzz".toList = none := by decide
-- an unsigned locator with a hint is hashed verbatim by the legacy path: the honest record is refused
set_option maxRecDepth 8192 in
example : rewriteSignatures toyMd5 "zzzzz".toList (toyMd5 exLegacyHashed ++ "+43".toList)
      ". 0123456789abcdef0123456789abcdef+3+Kzzz 0:3:f\n".toList (toyMd5 exLegacyHashed ++ "+43".toList)
    = .error .hash := by decide
/-- legacy fan-out: first a 404, then an accepted record -/
example : legacyFanOut toyMd5 (toyMd5 exLegacyHashed ++ "+43".toList)
      [("bbbbb".toList, .status 404), ("zzzzz".toList, .record exGood (toyMd5 exLegacyHashed ++ "+43".toList))]
    = .ok ". 0123456789abcdef0123456789abcdef+3+Kzzz+Rzzzzz-0123456789abcdef0123456789abcdef01234567@5e000000 0:3:f\n".toList := by
  decide

/-- legacy by-UUID delegate: a GET of another cluster's UUID relays that cluster's self-consistent
record with `+A` → `+R<prefix>-` (hypothesis of C18_legacy_by_uuid_checked); the own cluster's UUID
and a POST are declined -/
example : legacyFetchByUUID toyMd5 "aaaaa".toList "zzzzz-4zz18-000000000000001".toList true
      (some (.reply (.record exGood (toyMd5 exLegacyHashed ++ "+43".toList))))
    = .ok ". 0123456789abcdef0123456789abcdef+3+Kzzz+Rzzzzz-0123456789abcdef0123456789abcdef01234567@5e000000 0:3:f\n".toList := by
  decide
example : legacyFetchByUUID toyMd5 "zzzzz".toList "zzzzz-4zz18-000000000000001".toList true none = .unhandled
    ∧ legacyFetchByUUID toyMd5 "aaaaa".toList "zzzzz-4zz18-000000000000001".toList false none = .unhandled
    ∧ legacyFetchByUUID toyMd5 "aaaaa".toList "zzzzz-4zz18-000000000000001".toList true none = .error 404 := by
  decide

end examples

end ArvVerif.C18
