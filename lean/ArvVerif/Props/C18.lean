/-
C18 — federated collection fetches are verified and only signatures are rewritten.
Property theorems only (helpers: Proofs/C18*.lean). Every theorem is for an arbitrary `md5`, any
manifest text, any number of remotes and any completion order.
-/
import ArvVerif.Proofs.C18
import ArvVerif.Proofs.C18_Legacy
import ArvVerif.Proofs.C18_Lines
import ArvVerif.Proofs.C18_Race
namespace ArvVerif.C18

/-! ## Conn.CollectionGet by portable data hash -/

/-- A by-PDH `CollectionGet` hands a collection to the client only if it is (a) the local
cluster's answer and its manifest passed the hash test, or (b) the local cluster said 404, the
request was not forwarded, and the collection is the answer of a remote whose manifest *as
received* passed the hash test, with nothing but `rewriteManifest` applied — for every script of
answers and every completion order. -/
theorem C18_only_valid_returned (md5 : Str → Str) (s : Script) (c : Coll)
    (hlen : s.req.length ≠ 27) (h : collectionGet md5 s = .ok c) :
    (∃ lc, s.loc = .coll lc ∧ pdhOK md5 s.req lc.manifest = true ∧ c = lc) ∨
    (s.loc = .err 404 ∧ s.fwd = [] ∧
      ∃ rid rc, (rid, Answer.coll rc) ∈ s.order ∧ pdhOK md5 s.req rc.manifest = true ∧
        c = (if rid = [] then rc else { rc with manifest := rewriteManifest rc.manifest rid })) := by
  simp only [collectionGet, if_neg hlen, getByPDH] at h
  cases hloc : fnOutcome md5 s.req [] s.loc with
  | none => rw [hloc] at h; simp at h
  | some o =>
    rw [hloc] at h
    cases o with
    | accept lc =>
      simp only [Result.ok.injEq] at h
      obtain ⟨rc, h1, h2, h3⟩ := fnOutcome_accept md5 s.req [] s.loc lc hloc
      left
      refine ⟨rc, h1, h2, ?_⟩
      rw [← h, h3]; simp
    | fail st =>
      simp only at h
      split at h
      · simp at h
      · rename_i hcond
        simp only [not_or, Decidable.not_not] at hcond
        obtain ⟨hst, hfwd⟩ := hcond
        right
        have hl : s.loc = .err 404 := by
          cases hs : s.loc with
          | coll lc =>
            rw [hs] at hloc; simp only [fnOutcome] at hloc
            split at hloc
            · simp at hloc
            · simp only [Option.some.injEq, Outcome.fail.injEq] at hloc; omega
          | err e =>
            rw [hs] at hloc
            simp only [fnOutcome, Option.some.injEq, Outcome.fail.injEq] at hloc
            rw [hloc, hst]
          | hang => rw [hs] at hloc; simp [fnOutcome] at hloc
        refine ⟨hl, hfwd, ?_⟩
        simp only [recvLoop] at h
        split at h
        · rename_i c' hfa
          simp only [Result.ok.injEq] at h
          subst h
          obtain ⟨p, hp, hf⟩ := mem_delivered md5 s.req s.order _ (firstAccept_mem _ _ hfa)
          obtain ⟨rc, h1, h2, h3⟩ := fnOutcome_accept md5 s.req p.1 p.2 c' hf
          refine ⟨p.1, rc, ?_, h2, h3⟩
          rw [← h1]; exact hp
        · split at h <;> simp at h

/-- Under the sized-locator hypothesis the manifest handed to the client itself hashes to the
requested value (the rewrite does not disturb the portable data hash). -/
theorem C18_returned_hashes_to_requested (md5 : Str → Str) (s : Script) (c : Coll)
    (hlen : s.req.length ≠ 27) (h : collectionGet md5 s = .ok c)
    (hsz : ∀ p ∈ s.order, ∀ rc, p.2 = .coll rc → SizedLocs rc.manifest)
    (hid : ∀ p ∈ s.order, ' ' ∉ p.1) :
    pdhOK md5 s.req c.manifest = true := by
  rcases C18_only_valid_returned md5 s c hlen h with ⟨lc, _, h2, rfl⟩ | ⟨_, _, rid, rc, hm, h2, h3⟩
  · exact h2
  · subst h3
    split
    · exact h2
    · simp only [pdhOK]
      rw [pdh_rewrite md5 rc.manifest rid (hid _ hm) (hsz _ hm rc rfl)]
      exact h2

/-- A mismatching answer that arrives first never wins: the call returns exactly what it would
return had that answer not arrived first (any `rest`, any position by repetition). -/
theorem C18_mismatch_first_never_wins (md5 : Str → Str) (s : Script) (rid : Str) (bad c : Coll)
    (rest : List (Str × Answer)) (hlen : s.req.length ≠ 27) (hloc : s.loc = .err 404) (hfwd : s.fwd = [])
    (hord : s.order = (rid, .coll bad) :: rest) (hbad : pdhOK md5 s.req bad.manifest = false) :
    collectionGet md5 s = .ok c ↔ firstAccept (delivered md5 s.req rest) = some c := by
  have hdel : delivered md5 s.req s.order = Outcome.fail 502 :: delivered md5 s.req rest := by
    rw [hord]; simp [delivered, fnOutcome, hbad]
  have hfa : firstAccept (delivered md5 s.req s.order) = firstAccept (delivered md5 s.req rest) := by
    rw [hdel]; rfl
  have hget : collectionGet md5 s =
      recvLoop (delivered md5 s.req s.order) (s.remotes.length - (delivered md5 s.req s.order).length) := by
    simp [collectionGet, if_neg hlen, getByPDH, hloc, fnOutcome, hfwd]
  rw [hget]
  simp only [recvLoop, hfa]
  cases hr : firstAccept (delivered md5 s.req rest) with
  | some c' => simp
  | none =>
    simp only
    constructor
    · intro h; split at h <;> simp at h
    · intro h; simp at h

/-- With the local cluster answering 404, an unforwarded request and at least one remote whose
answer passes the hash test — wherever it sits in the completion order, whatever the others do
(mismatch, 404, 5xx, hang) — the call succeeds. -/
theorem C18_honest_remote_succeeds (md5 : Str → Str) (s : Script) (rid : Str) (rc : Coll)
    (hlen : s.req.length ≠ 27) (hloc : s.loc = .err 404) (hfwd : s.fwd = [])
    (hm : (rid, Answer.coll rc) ∈ s.order) (hok : pdhOK md5 s.req rc.manifest = true) :
    ∃ c, collectionGet md5 s = .ok c := by
  have hacc : Outcome.accept (if rid = [] then rc else { rc with manifest := rewriteManifest rc.manifest rid })
      ∈ delivered md5 s.req s.order := by
    simp only [delivered, List.mem_filterMap]
    exact ⟨(rid, .coll rc), hm, by simp [fnOutcome, hok]⟩
  obtain ⟨c', hc'⟩ := firstAccept_isSome_of_mem _ _ hacc
  refine ⟨c', ?_⟩
  simp [collectionGet, if_neg hlen, getByPDH, hloc, fnOutcome, hfwd, recvLoop, hc']

/-- If every remote answer mismatches or errs (or hangs), the call is an error: 404 exactly when
all configured remotes delivered an answer and every one was a 404, otherwise 502. -/
theorem C18_mismatch_is_error (md5 : Str → Str) (s : Script)
    (hlen : s.req.length ≠ 27) (hloc : s.loc = .err 404) (hfwd : s.fwd = [])
    (hall : ∀ p ∈ s.order, ∀ rc, p.2 = .coll rc → pdhOK md5 s.req rc.manifest = false) :
    ∃ st, collectionGet md5 s = .error st ∧ (st = 404 ∨ st = 502) ∧
      (st = 404 ↔ (s.remotes.length ≤ (delivered md5 s.req s.order).length ∧
                   ∀ o ∈ delivered md5 s.req s.order, o = Outcome.fail 404)) := by
  have hnone : firstAccept (delivered md5 s.req s.order) = none := by
    apply firstAccept_none
    intro o ho
    obtain ⟨p, hp, hf⟩ := mem_delivered md5 s.req s.order o ho
    cases o with
    | fail st => exact ⟨st, rfl⟩
    | accept c =>
      obtain ⟨rc, h1, h2, _⟩ := fnOutcome_accept md5 s.req p.1 p.2 c hf
      rw [hall p hp rc h1] at h2; cases h2
  simp only [collectionGet, if_neg hlen, getByPDH, hloc, fnOutcome, hfwd, recvLoop, hnone]
  simp only [ne_eq, not_true_eq_false, or_self, if_false]
  have hall404 : ((delivered md5 s.req s.order).all isFail404 = true) ↔
      ∀ o ∈ delivered md5 s.req s.order, o = Outcome.fail 404 := by
    rw [List.all_eq_true]
    constructor
    · intro h o ho
      have := h o ho
      cases o with
      | accept c => simp [isFail404] at this
      | fail st => simp only [isFail404, beq_iff_eq] at this; rw [this]
    · intro h o ho; rw [h o ho]; rfl
  split
  · rename_i hc
    exact ⟨404, rfl, Or.inl rfl, by simp only [true_iff]; exact ⟨by omega, hall404.mp hc.2⟩⟩
  · rename_i hc
    refine ⟨502, rfl, Or.inr rfl, ?_⟩
    constructor
    · intro h; omega
    · intro h; exact absurd ⟨by omega, hall404.mpr h.2⟩ hc

/-- A local answer that fails the hash test is a 502; the remotes are not consulted. -/
theorem C18_local_mismatch_is_error (md5 : Str → Str) (s : Script) (lc : Coll)
    (hlen : s.req.length ≠ 27) (hloc : s.loc = .coll lc) (hbad : pdhOK md5 s.req lc.manifest = false) :
    collectionGet md5 s = .error 502 := by
  simp [collectionGet, if_neg hlen, getByPDH, hloc, fnOutcome, hbad]

/-- A forwarded request (ForwardedFor set) never fans out: only the local answer counts. -/
theorem C18_forwarded_local_only (md5 : Str → Str) (s : Script) (st : Nat)
    (hlen : s.req.length ≠ 27) (hloc : s.loc = .err st) (hfwd : s.fwd ≠ []) :
    collectionGet md5 s = .error st := by
  simp [collectionGet, if_neg hlen, getByPDH, hloc, fnOutcome, hfwd]


/-- Acceptance pins the manifest down to its hints: if `md5` digests have a fixed length and no
other text collides with the genuine hashed text, every manifest accepted for `pdh g` has the
same hashed text (hash+size of every block token, every other byte) as `g`. -/
theorem C18_accepted_equals_genuine_modulo_hints (md5 : Str → Str) (g m : Str)
    (hl : ∀ x, (md5 x).length = 32)
    (hnc : ∀ x, md5 x = md5 (pdhText g) → x = pdhText g)
    (h : pdhOK md5 (pdh md5 g) m = true) : pdhText m = pdhText g := by
  apply hnc
  simp only [pdhOK, Bool.or_eq_true, beq_iff_eq] at h
  have key : ∀ a b : Str, (md5 (pdhText m) ++ a) <+: (md5 (pdhText g) ++ b) → md5 (pdhText m) = md5 (pdhText g) := by
    intro a b hp
    obtain ⟨z, hz⟩ := hp
    rw [List.append_assoc] at hz
    exact (List.append_inj hz (by rw [hl, hl])).1
  rcases h with h | h
  · exact key _ _ ⟨[], by rw [List.append_nil]; exact h⟩
  · rw [List.isPrefixOf_iff_prefix] at h
    simp only [pdh, List.append_assoc] at h
    exact key _ _ h

/-! ## sequences of requests through one Conn -/

/-- The answer to a request does not depend on what the same `Conn` served before: in every
history, the k-th result is `collectionGet` of the k-th script alone. In particular
`C18_only_valid_returned` holds for every request of every history — an answer is hash-tested
however often the same backend has answered the same request correctly before. -/
theorem C18_history_independent (md5 : Str → Str) (history : List Script) (k : Nat) (s : Script)
    (hk : history[k]? = some s) :
    (collectionGetSeq md5 history)[k]? = some (collectionGet md5 s) := by
  simp [collectionGetSeq, List.getElem?_map, hk]

theorem C18_only_valid_returned_in_history (md5 : Str → Str) (history : List Script) (k : Nat)
    (s : Script) (c : Coll) (hk : history[k]? = some s) (hlen : s.req.length ≠ 27)
    (h : (collectionGetSeq md5 history)[k]? = some (.ok c)) :
    (∃ lc, s.loc = .coll lc ∧ pdhOK md5 s.req lc.manifest = true ∧ c = lc) ∨
    (s.loc = .err 404 ∧ s.fwd = [] ∧
      ∃ rid rc, (rid, Answer.coll rc) ∈ s.order ∧ pdhOK md5 s.req rc.manifest = true ∧
        c = (if rid = [] then rc else { rc with manifest := rewriteManifest rc.manifest rid })) := by
  rw [C18_history_independent md5 history k s hk] at h
  exact C18_only_valid_returned md5 s c hlen (Option.some.inj h)

/-! ## answers that arrive together -/

/-- `collectionGetAnyOrder` is exactly the set of results over all completion orders: `r` is in it
iff `r` is the result for some permutation of the answering remotes. -/
theorem C18_any_order_is_all_orders (md5 : Str → Str) (s : Script) (r : Result) :
    r ∈ collectionGetAnyOrder md5 s ↔
      ∃ o : List (Str × Answer), o.Perm s.order ∧ collectionGet md5 { s with order := o } = r := by
  simp only [collectionGetAnyOrder, List.mem_map, mem_perms_iff]

/-- Whatever the interleaving of answers that arrive together, a collection handed to the client
is one remote's answer that passed the hash test **as received**, rewritten with the id of the
very remote that sent it (never with another remote's id), or the local cluster's verified answer. -/
theorem C18_any_order_only_valid (md5 : Str → Str) (s : Script) (c : Coll)
    (hlen : s.req.length ≠ 27) (h : Result.ok c ∈ collectionGetAnyOrder md5 s) :
    (∃ lc, s.loc = .coll lc ∧ pdhOK md5 s.req lc.manifest = true ∧ c = lc) ∨
    (s.loc = .err 404 ∧ s.fwd = [] ∧
      ∃ rid rc, (rid, Answer.coll rc) ∈ s.order ∧ pdhOK md5 s.req rc.manifest = true ∧
        c = (if rid = [] then rc else { rc with manifest := rewriteManifest rc.manifest rid })) := by
  obtain ⟨o, hperm, hget⟩ := (C18_any_order_is_all_orders md5 s _).mp h
  rcases C18_only_valid_returned md5 { s with order := o } c hlen hget with hl | ⟨h1, h2, rid, rc, hm, h3, h4⟩
  · exact Or.inl hl
  · exact Or.inr ⟨h1, h2, rid, rc, hperm.subset hm, h3, h4⟩

/-- With the local cluster answering 404, an unforwarded request and an honest remote among those
answering together, every interleaving ends in success. -/
theorem C18_any_order_honest_succeeds (md5 : Str → Str) (s : Script) (rid : Str) (rc : Coll)
    (hlen : s.req.length ≠ 27) (hloc : s.loc = .err 404) (hfwd : s.fwd = [])
    (hm : (rid, Answer.coll rc) ∈ s.order) (hok : pdhOK md5 s.req rc.manifest = true) :
    ∀ r ∈ collectionGetAnyOrder md5 s, ∃ c, r = .ok c := by
  intro r hr
  obtain ⟨o, hperm, hget⟩ := (C18_any_order_is_all_orders md5 s _).mp hr
  obtain ⟨c, hc⟩ := C18_honest_remote_succeeds md5 { s with order := o } rid rc hlen hloc hfwd
    (hperm.symm.subset hm) hok
  exact ⟨c, by rw [← hget, hc]⟩

/-! ## by-UUID requests (conn.go:248-255): relayed without a hash test -/

/-- A by-UUID request returns the chosen backend's collection; its manifest is rewritten with the
UUID's cluster prefix exactly when that prefix is not the local cluster id. -/
theorem C18_by_uuid_relay (md5 : Str → Str) (s : Script) (c : Coll)
    (hlen : s.req.length = 27) (h : collectionGet md5 s = .ok c) :
    ∃ rc, chooseBackend s.clusterID s.loc s.remotes s.req = .coll rc ∧
      c = (if s.req.take 5 ≠ s.clusterID then { rc with manifest := rewriteManifest rc.manifest (s.req.take 5) } else rc) := by
  simp only [collectionGet, if_pos hlen, getByUUID] at h
  split at h
  · rename_i rc hc
    simp only [Result.ok.injEq] at h
    exact ⟨rc, hc, h.symm⟩
  · simp at h
  · simp at h

/-! ## rewriteManifest -/

/-- what `rewriteManifest` may do to a token: in a block token, the part before the first newline
is rewritten hint by hint; everything from the first newline on is kept -/
def specTok (id t : Str) : Str :=
  if locPrefix t then joinWith '+' (mapTail (specHint id) (splitOn '+' (linePart t))) ++ restPart t else t

/-- For every manifest text and cluster id: the relayed text consists of the same number of
space-delimited tokens joined by the same single spaces; the first token (the first stream name)
and every token that does not begin with 32 hex digits and `+` (file tokens, and with them the
newline and stream name that follow a file token) are byte-identical; in a block token
everything from its first newline on is byte-identical, and before it the part before the first
`+` (the hash) and every `+`-separated field that does not begin with `A` (size, other hints) are
byte-identical and in place, and each field `A…` has become `R<id>-…`. If every block token
carries a size the portable data hash is unchanged. -/
theorem C18_rewrite_only_signatures (mt id : Str) (hid : ' ' ∉ id) :
    rewriteManifest mt id = joinWith ' ' (splitOn ' ' (rewriteManifest mt id)) ∧
    splitOn ' ' (rewriteManifest mt id) = mapTail (specTok id) (splitOn ' ' mt) ∧
    (splitOn ' ' (rewriteManifest mt id)).length = (splitOn ' ' mt).length ∧
    (∀ md5 : Str → Str, SizedLocs mt → pdh md5 (rewriteManifest mt id) = pdh md5 mt) := by
  refine ⟨(joinWith_splitOn _ _).symm, ?_, ?_, fun md5 h => pdh_rewrite md5 mt id hid h⟩
  · rw [rewriteManifest_tokens mt id hid]
    congr 1
    funext t
    simp only [rewriteTok, specTok, replaceSig_eq_hints]
  · rw [rewriteManifest_tokens mt id hid, mapTail_length]

/-- A token without `+A` before its first newline is relayed unchanged, whatever it is. -/
theorem C18_rewrite_fixes_tokens_without_sig (id t : Str)
    (h : ∀ f ∈ (splitOn '+' (linePart t)).tail, f.head? ≠ some 'A') : specTok id t = t := by
  unfold specTok
  split
  · have : mapTail (specHint id) (splitOn '+' (linePart t)) = splitOn '+' (linePart t) := by
      cases hs : splitOn '+' (linePart t) with
      | nil => rfl
      | cons a as =>
        rw [hs] at h
        simp only [mapTail, List.cons.injEq, true_and]
        exact map_specHint_id id as h
    rw [this, joinWith_splitOn, linePart_append_restPart]
  · rfl

/-- "Stream names are unchanged", at full strength: whatever a space-delimited token carries from
its first newline on — the stream name of the next line (a stream name never follows a space) — is
byte-identical in the relayed text, for every manifest text. Together with the first token being
identical this covers every stream name. (False before fix d80c6cd: F18a.) -/
def C18_rewrite_only_signatures_Full : Prop :=
  ∀ mt id : Str, ' ' ∉ id → '\n' ∉ id → ∀ (i : Nat) (t : Str), (splitOn ' ' mt)[i]? = some t →
    ∃ t', (splitOn ' ' (rewriteManifest mt id))[i]? = some t' ∧ restPart t' = restPart t

theorem C18_rewrite_only_signatures_full : C18_rewrite_only_signatures_Full := by
  intro mt id hid hnl i t ht
  rw [rewriteManifest_tokens mt id hid, mapTail_getElem?]
  split
  · exact ⟨t, ht, rfl⟩
  · rw [ht]
    refine ⟨rewriteTok id t, rfl, ?_⟩
    unfold rewriteTok
    split
    · -- the rewritten line part contains no newline, so the rest part starts where it did
      have hno : ∀ c ∈ replaceSig id (linePart t), notNL c = true := by
        intro c hc
        rcases replaceSig_mem id _ c hc with h | h | h | h
        · exact List.all_eq_true.mp List.all_takeWhile c h
        · have : c ≠ '\n' := fun e => hnl (e ▸ h)
          simp [notNL, this]
        · subst h; decide
        · subst h; decide
      unfold restPart
      rw [dropWhile_append_of_all _ _ hno]
      exact dropWhile_dropWhile _ _
    · rfl

def f18aManifest : Str :=
  ". 0123456789abcdef0123456789abcdef+3\n./x+Ay 0123456789abcdef0123456789abcdef+3 0:3:f\n".toList

/-- the former F18a witness: the stream name `./x+Ay` after a line-final block locator survives,
while a signature on that locator is still rewritten -/
example : rewriteManifest f18aManifest "zzzzz".toList = f18aManifest := by decide
example : rewriteManifest ". 0123456789abcdef0123456789abcdef+3+Afoo\n./x+Ay 0:3:f\n".toList "zzzzz".toList
    = ". 0123456789abcdef0123456789abcdef+3+Rzzzzz-foo\n./x+Ay 0:3:f\n".toList := by decide

/-- what happens to one token of one line (no newline inside): a block token is rewritten hint
by hint, anything else is kept -/
def specTok1 (id t : Str) : Str :=
  if locPrefix t then joinWith '+' (mapTail (specHint id) (splitOn '+' t)) else t

/-- **Only signatures are rewritten, in the manifest format's own terms, for every text.**
The relayed text has the same lines (split on `\n`) in the same order; every line has the same
tokens (split on single spaces) in the same order; the first token of every line — the stream
name — is byte-identical; every later token that does not begin with 32 hex digits and `+` (file
tokens) is byte-identical; in a block token the hash, the size and every hint that does not begin
with `A` are byte-identical and in place, and each hint `A…` has become `R<id>-…`. No hypothesis
on the text (lines may end in a block locator: since fix d80c6cd that changes nothing). -/
theorem C18_rewrite_only_signatures_lines (mt id : Str) (hsp : ' ' ∉ id) (hnl : '\n' ∉ id) :
    rewriteManifest mt id = joinWith '\n' (splitOn '\n' (rewriteManifest mt id)) ∧
    (splitOn '\n' (rewriteManifest mt id)).length = (splitOn '\n' mt).length ∧
    (∀ (k : Nat) (l : Str), (splitOn '\n' mt)[k]? = some l →
      ∃ l', (splitOn '\n' (rewriteManifest mt id))[k]? = some l' ∧
        l' = joinWith ' ' (splitOn ' ' l') ∧
        splitOn ' ' l' = mapTail (specTok1 id) (splitOn ' ' l) ∧
        (splitOn ' ' l').head? = (splitOn ' ' l).head?) := by
  refine ⟨(joinWith_splitOn _ _).symm, ?_, ?_⟩
  · rw [lines_rewriteManifest mt id hnl, List.length_map]
  · intro k l hk
    refine ⟨rwLine id l, ?_, (joinWith_splitOn _ _).symm, ?_, ?_⟩
    · rw [lines_rewriteManifest mt id hnl, List.getElem?_map, hk]; rfl
    · rw [tokens_rwLine id l hsp]
      congr 1
      funext t
      simp only [rwTok1, specTok1, replaceSig_eq_hints]
    · rw [tokens_rwLine id l hsp]
      cases splitOn ' ' l <;> simp [mapTail]

/-- The text-level form of the same statement, without any hypothesis at all (not even on the id):
`rewriteManifest` *is* the line-by-line, token-by-token rewrite. -/
theorem C18_rewrite_is_line_by_line (mt id : Str) :
    rewriteManifest mt id =
      joinWith '\n' ((splitOn '\n' mt).map (fun l => joinWith ' ' (mapTail (rwTok1 id) (splitOn ' ' l)))) :=
  rewriteManifest_eq_byLines mt id

/-- By-UUID fetches relay with the same guarantee as by-PDH fetches: the collection handed to the
client is the chosen backend's, byte-identical for the own cluster, and otherwise its manifest is
the line-by-line, token-by-token signature rewrite of what that backend sent (nothing else
changes); the difference to by-PDH is only that no hash test is applied. -/
theorem C18_by_uuid_only_signatures (md5 : Str → Str) (s : Script) (c : Coll)
    (hlen : s.req.length = 27) (h : collectionGet md5 s = .ok c) :
    ∃ rc, chooseBackend s.clusterID s.loc s.remotes s.req = .coll rc ∧ c.uuid = rc.uuid ∧
      ((s.req.take 5 = s.clusterID ∧ c.manifest = rc.manifest) ∨
       (s.req.take 5 ≠ s.clusterID ∧ c.manifest = rewriteByLines rc.manifest (s.req.take 5))) := by
  obtain ⟨rc, h1, h2⟩ := C18_by_uuid_relay md5 s c hlen h
  refine ⟨rc, h1, ?_, ?_⟩
  · rw [h2]; split <;> rfl
  · by_cases hp : s.req.take 5 = s.clusterID
    · left; refine ⟨hp, ?_⟩; rw [h2]; simp [hp]
    · right; refine ⟨hp, ?_⟩; rw [h2]; simp only [ne_eq, hp, not_false_eq_true, if_true]
      exact rewriteManifest_eq_byLines _ _

/-! ## PortableDataHash against the published definition -/

def isWS (c : Char) : Bool := c == '\n' || c == '\r' || c == '\t' || c.toNat == 11 || c.toNat == 12

/-- `(\+[^+\s]*)*` on what follows hash+size: nothing, or `+…` without whitespace -/
def wfHints (r : Str) : Bool := r.isEmpty || (r.head? == some '+' && r.all (fun c => !isWS c))

/-- the published definition: a block locator `<hash>+<size>(+<hint>)*` is reduced to hash+size -/
def specStripTok (t : Str) : Str :=
  match sizedLen t with
  | some n => if wfHints (t.drop n) then t.take n else t
  | none => t

def specText (mt : Str) : Str := joinWith ' ' (mapTail specStripTok (splitOn ' ' mt))

/-- Full strength: the text that is hashed is the manifest with every *well-formed* block locator
reduced to hash+size and nothing else removed. -/
def C18_pdh_is_spec_Full : Prop := ∀ mt : Str, pdhText mt = specText mt

/-- F18b: bytes glued to hash+size that are not hints are dropped from the hash as well. -/
theorem C18_pdh_is_spec_full_fails : ¬ C18_pdh_is_spec_Full := by
  intro h
  have := h ". 0123456789abcdef0123456789abcdef+3x 0:3:f\n".toList
  revert this
  decide

/-- the same for a newline and the following stream name -/
example : pdhText ". 0123456789abcdef0123456789abcdef+3\n./evil 0:3:f\n".toList
    = pdhText ". 0123456789abcdef0123456789abcdef+3 0:3:f\n".toList := by decide

/-- …and it holds whenever every sized block token continues with well-formed hints only. -/
theorem C18_pdh_is_spec_partial (mt : Str)
    (hwf : ∀ t ∈ (splitOn ' ' mt).tail, ∀ n, sizedLen t = some n → wfHints (t.drop n) = true) :
    pdhText mt = specText mt := by
  unfold pdhText specText
  congr 1
  cases hs : splitOn ' ' mt with
  | nil => rfl
  | cons a as =>
    rw [hs] at hwf
    simp only [mapTail, List.cons.injEq, true_and]
    apply List.map_congr_left
    intro t ht
    unfold stripTok specStripTok
    cases hn : sizedLen t with
    | none => rfl
    | some n => simp [hwf t ht n hn]

/-- no token has anything but well-formed hints glued to its hash+size — the exact complement of
the F18b witness shape (`_glued` in the plugin) -/
def NoGlued (mt : Str) : Prop :=
  ∀ t ∈ (splitOn ' ' mt).tail, ∀ n, sizedLen t = some n → wfHints (t.drop n) = true

theorem stripTok_no_space (t : Str) (h : ' ' ∉ t) : ' ' ∉ stripTok t := by
  unfold stripTok
  split
  · intro hm; exact h ((List.take_sublist _ _).subset hm)
  · exact h

theorem specStripTok_no_space (t : Str) (h : ' ' ∉ t) : ' ' ∉ specStripTok t := by
  unfold specStripTok
  split
  · split
    · intro hm; exact h ((List.take_sublist _ _).subset hm)
    · exact h
  · exact h

theorem mapTail_no_space (f : Str → Str) (hf : ∀ t, ' ' ∉ t → ' ' ∉ f t) (mt : Str) :
    ∀ t ∈ mapTail f (splitOn ' ' mt), ' ' ∉ t := by
  intro t ht
  rcases mem_mapTail _ _ _ ht with h | ⟨y, hy, rfl⟩
  · exact not_mem_of_mem_splitOn ' ' mt t (List.mem_of_mem_head? h)
  · exact hf y (not_mem_of_mem_splitOn ' ' mt y (List.mem_of_mem_tail hy))

/-- F18b characterised exactly: the text PortableDataHash hashes is the published one **iff** no
token has non-hint bytes glued to its hash+size. So the finding's witness shape is precisely the
set of texts on which the code deviates, and `C18_pdh_is_spec_partial`'s hypothesis cannot be
weakened. -/
theorem C18_pdh_is_spec_exact (mt : Str) : pdhText mt = specText mt ↔ NoGlued mt := by
  constructor
  · intro heq t ht n hn
    unfold pdhText specText at heq
    have h1 := splitOn_joinWith ' ' (mapTail stripTok (splitOn ' ' mt))
      (mapTail_ne_nil _ _ (splitOn_ne_nil _ _)) (mapTail_no_space _ stripTok_no_space mt)
    have h2 := splitOn_joinWith ' ' (mapTail specStripTok (splitOn ' ' mt))
      (mapTail_ne_nil _ _ (splitOn_ne_nil _ _)) (mapTail_no_space _ specStripTok_no_space mt)
    rw [heq, h2] at h1
    cases hs : splitOn ' ' mt with
    | nil => rw [hs] at ht; simp at ht
    | cons a as =>
      rw [hs] at ht h1
      simp only [mapTail, List.cons.injEq, true_and] at h1
      have hpt := (List.map_inj_left.mp h1) t ht
      simp only [stripTok, specStripTok, hn] at hpt
      cases hw : wfHints (t.drop n) with
      | true => rfl
      | false =>
        rw [hw] at hpt
        simp only [Bool.false_eq_true, if_false] at hpt
        -- t = t.take n, so nothing follows the prefix, so wfHints holds after all
        have hdrop : t.drop n = [] := by
          have := List.take_append_drop n t
          rw [← hpt] at this
          exact List.append_cancel_left (by rw [List.append_nil]; exact this)
        rw [hdrop] at hw
        simp [wfHints] at hw
  · intro h
    unfold pdhText specText
    congr 1
    cases hs : splitOn ' ' mt with
    | nil => rfl
    | cons a as =>
      unfold NoGlued at h
      rw [hs] at h
      simp only [mapTail, List.cons.injEq, true_and]
      apply List.map_congr_left
      intro t ht
      unfold stripTok specStripTok
      cases hn : sizedLen t with
      | none => rfl
      | some n => simp [h t ht n hn]

/-! ## legacy path: rewriteSignatures and the fan-out of fetchRemoteCollectionByPDH -/

/-- `rewriteSignatures` returns a response only if the expected hash (when given) equals the
record's own `portable_data_hash`, every line has at least three tokens, and the MD5 and length
it accumulated over the scanned lines — hash(+size) of every token matching SignedLocatorRe, all
other tokens verbatim, single spaces, a newline per line — equal the expected hash; the manifest
it relays is the same lines with the signed locators rewritten. -/
theorem C18_legacy_checks_hash (md5 : Str → Str) (id expect mt field out : Str)
    (h : rewriteSignatures md5 id expect mt field = .ok out) :
    (expect = [] ∨ expect = field) ∧
    (∀ l ∈ scanLines mt, 3 ≤ (splitOn ' ' l).length) ∧
    out = (scanLines mt).flatMap (fun l => lineOf (legacyOutTok id) (splitOn ' ' l)) ∧
    (let hashed := (scanLines mt).flatMap (fun l => lineOf legacyHashTok (splitOn ' ' l))
     md5 hashed ++ '+' :: natToDec hashed.length = (if expect = [] then field else expect)) := by
  unfold rewriteSignatures at h
  cases hsc : legacyScan id (scanLines mt) with
  | none => rw [hsc] at h; simp at h
  | some oh =>
    obtain ⟨o, hh⟩ := oh
    rw [hsc] at h
    simp only at h
    obtain ⟨h1, h2, h3⟩ := legacyScan_some id _ o hh hsc
    by_cases hexp : expect ≠ [] ∧ expect ≠ field
    · rw [if_pos hexp] at h; cases h
    · rw [if_neg hexp] at h
      by_cases hcmp : md5 hh ++ '+' :: natToDec hh.length ≠ (if expect = [] then field else expect)
      · rw [if_pos hcmp] at h; cases h
      · rw [if_neg hcmp] at h
        simp only [Except.ok.injEq] at h
        refine ⟨?_, h1, by rw [← h, h2], ?_⟩
        · by_cases he : expect = []
          · left; exact he
          · right
            exact Classical.byContradiction (fun hne => hexp ⟨he, hne⟩)
        · simp only [ne_eq, Decidable.not_not] at hcmp
          rw [← h3]; exact hcmp

/-- In the relayed legacy manifest a token is changed only if SignedLocatorRe accepts it, and then
exactly as `rewriteManifest` would change it (`+A` → `+R<id>-`); what is hashed for such a token
is its hash(+size). -/
theorem C18_legacy_only_signatures (id t : Str) :
    (parseSigned t = none → legacyOutTok id t = t ∧ legacyHashTok t = t) ∧
    (∀ p, parseSigned t = some p →
      legacyOutTok id t = replaceSig id t ∧ legacyHashTok t = p.hashSize ∧ splitOn '+' t = p.parts) := by
  constructor
  · intro h; simp [legacyOutTok, legacyHashTok, h]
  · intro p h
    exact ⟨legacyOutTok_signed id t p h, by simp [legacyHashTok, h], (parseSigned_some t p h).1⟩

/-- Tampering is an error on the legacy path: with fixed-length digests and no collision with the
genuine hashed text `g`, whatever is accepted for `md5 g + "+" + |g|` hashed to exactly `g`. -/
theorem C18_legacy_mismatch_is_error (md5 : Str → Str) (id mt field out g : Str)
    (hl : ∀ x, (md5 x).length = 32) (hnc : ∀ x, md5 x = md5 g → x = g)
    (h : rewriteSignatures md5 id (md5 g ++ '+' :: natToDec g.length) mt field = .ok out) :
    (scanLines mt).flatMap (fun l => lineOf legacyHashTok (splitOn ' ' l)) = g := by
  obtain ⟨_, _, _, h4⟩ := C18_legacy_checks_hash md5 id _ mt field out h
  simp only at h4
  have hne : md5 g ++ '+' :: natToDec g.length ≠ [] := by
    intro e
    have := congrArg List.length e
    simp [hl] at this
  rw [if_neg hne] at h4
  apply hnc
  exact (List.append_inj h4 (by rw [hl, hl])).1

/-- The legacy fan-out forwards a remote's response only if `rewriteSignatures` accepted it for
the requested hash; if no remote's response is accepted the result is an error (404 exactly when
every collected error is an HTTP 404) — for every completion order. -/
theorem C18_legacy_fanout_checked (md5 : Str → Str) (pdhReq : Str) (order : List (Str × LegacyReply)) :
    (∀ m, legacyFanOut md5 pdhReq order = .ok m →
      ∃ rid mt f, (rid, LegacyReply.record mt f) ∈ order ∧ rewriteSignatures md5 rid pdhReq mt f = .ok m) ∧
    ((∀ p ∈ order, ∀ mt f, p.2 = .record mt f → ∀ m, rewriteSignatures md5 p.1 pdhReq mt f ≠ .ok m) →
      legacyFanOut md5 pdhReq order = .error 404 ∨ legacyFanOut md5 pdhReq order = .error 502) := by
  constructor
  · intro m h
    simp only [legacyFanOut] at h
    split at h
    · rename_i m' hf
      simp only [Except.ok.injEq] at h
      subst h
      have := legacyFirst_mem _ _ hf
      simp only [List.mem_map] at this
      obtain ⟨p, hp, hpo⟩ := this
      cases hr : p.2 with
      | record mt f =>
        simp only [legacyOutcome, hr] at hpo
        split at hpo
        · rename_i o ho
          simp only [LegacyOutcome.success.injEq] at hpo
          subst hpo
          exact ⟨p.1, mt, f, by rw [← hr]; exact hp, ho⟩
        · cases hpo
      | status c => simp only [legacyOutcome, hr] at hpo; split at hpo <;> cases hpo
      | reqErr => simp only [legacyOutcome, hr] at hpo; cases hpo
    · split at h <;> cases h
  · intro hall
    simp only [legacyFanOut]
    split
    · rename_i m' hf
      exfalso
      have := legacyFirst_mem _ _ hf
      simp only [List.mem_map] at this
      obtain ⟨p, hp, hpo⟩ := this
      cases hr : p.2 with
      | record mt f =>
        simp only [legacyOutcome, hr] at hpo
        split at hpo
        · rename_i o ho
          exact hall p hp mt f hr o ho
        · cases hpo
      | status c => simp only [legacyOutcome, hr] at hpo; split at hpo <;> cases hpo
      | reqErr => simp only [legacyOutcome, hr] at hpo; cases hpo
    · split
      · left; rfl
      · right; rfl

/-- The whole legacy delegate `fetchRemoteCollectionByPDH`: a response that did not come from the
local cluster is forwarded only after a local 404 and only if it is some remote's 200 response that
`rewriteSignatures` accepted for exactly the requested hash (so `C18_legacy_checks_hash` applies
to it); a local 200 is forwarded as it is, without a hash test (old behaviour, stated here, outside
the property's "fetched from a remote cluster"); everything else is an error or a verbatim local
status. For every completion order. -/
theorem C18_legacy_fetch_checked (md5 : Str → Str) (req : Str) (loc : LegacyLocal)
    (order : List (Str × LegacyReply)) :
    (∀ m, legacyFetchByPDH md5 req loc order = .ok m →
      loc = .reply (.status 404) ∧
      ∃ rid mt f, (rid, LegacyReply.record mt f) ∈ order ∧ rewriteSignatures md5 rid req mt f = .ok m) ∧
    (∀ mt f, legacyFetchByPDH md5 req loc order = .localRecord mt f → loc = .reply (.record mt f)) := by
  constructor
  · intro m h
    unfold legacyFetchByPDH at h
    split at h
    · cases h
    · cases loc with
      | hang => cases h
      | reply r =>
        cases r with
        | reqErr => cases h
        | record mt f => cases h
        | status c =>
          simp only at h
          split at h
          · rename_i hc
            subst hc
            refine ⟨rfl, ?_⟩
            cases hf : legacyFanOut md5 req order with
            | ok m' =>
              rw [hf] at h
              simp only [LegacyFetch.ok.injEq] at h
              subst h
              exact (C18_legacy_fanout_checked md5 req order).1 m' hf
            | error e => rw [hf] at h; cases h
          · cases h
  · intro mt f h
    unfold legacyFetchByPDH at h
    split at h
    · cases h
    · cases loc with
      | hang => cases h
      | reply r =>
        cases r with
        | reqErr => cases h
        | record mt' f' => simp only [LegacyFetch.localRecord.injEq] at h; rw [h.1, h.2]
        | status c =>
          simp only at h
          split at h
          · split at h <;> cases h
          · cases h

/-- The legacy by-UUID delegate hands a collection to the client only for a GET of another
cluster's UUID, only the record that cluster's configured peer sent, and only after
`rewriteSignatures` accepted it with the UUID's prefix as cluster id and no expected hash: the
relayed text is the received lines re-emitted with `legacyOutTok <prefix>` (only
`SignedLocatorRe` tokens change, `+A` → `+R<prefix>-`), and the record is self-consistent (the
hashed text hashes to its own `portable_data_hash` field) — there is no requested hash to compare
with, as on the new by-UUID path (`C18_by_uuid_relay`). -/
theorem C18_legacy_by_uuid_checked (md5 : Str → Str) (cid uuid : Str) (isGet : Bool)
    (peer : Option LegacyLocal) (out : Str)
    (h : legacyFetchByUUID md5 cid uuid isGet peer = .ok out) :
    isGet = true ∧ uuid ≠ [] ∧ uuid.take 5 ≠ cid ∧
    ∃ mt f, peer = some (.reply (.record mt f)) ∧
      rewriteSignatures md5 (uuid.take 5) [] mt f = .ok out ∧
      out = (scanLines mt).flatMap (fun l => lineOf (legacyOutTok (uuid.take 5)) (splitOn ' ' l)) ∧
      (let hashed := (scanLines mt).flatMap (fun l => lineOf legacyHashTok (splitOn ' ' l))
       md5 hashed ++ '+' :: natToDec hashed.length = f) := by
  unfold legacyFetchByUUID at h
  split at h
  · cases h
  · rename_i h1
    split at h
    · cases h
    · rename_i h2
      simp only [Bool.or_eq_true, Bool.not_eq_true', List.isEmpty_iff, not_or] at h1
      refine ⟨by cases isGet <;> simp_all, h1.2, h2, ?_⟩
      split at h
      · cases h
      · cases h
      · cases h
      · split at h <;> cases h
      · rename_i mt f
        cases hr : rewriteSignatures md5 (uuid.take 5) [] mt f with
        | error e => rw [hr] at h; cases h
        | ok o =>
          rw [hr] at h
          simp only [LegacyUFetch.ok.injEq] at h
          subst h
          obtain ⟨_, _, h3, h4⟩ := C18_legacy_checks_hash md5 (uuid.take 5) [] mt f o hr
          exact ⟨mt, f, rfl, hr, h3, by simpa using h4⟩

/-- Everything else the by-UUID delegate can answer: it declines exactly for non-GET requests,
requests without a UUID and UUIDs of the own cluster (never touching a remote), and a remote's
non-200 status is passed on unchanged. -/
theorem C18_legacy_by_uuid_declines (md5 : Str → Str) (cid uuid : Str) (isGet : Bool)
    (peer : Option LegacyLocal) :
    legacyFetchByUUID md5 cid uuid isGet peer = .unhandled ↔
      (isGet = false ∨ uuid = [] ∨ uuid.take 5 = cid) := by
  unfold legacyFetchByUUID
  cases isGet
  · simp
  · cases uuid with
    | nil => simp
    | cons a as =>
      simp only [Bool.not_true, List.isEmpty_cons, Bool.or_false, Bool.false_eq_true, if_false]
      by_cases hc : (a :: as).take 5 = cid
      · simp [hc]
      · simp only [hc, if_false]
        constructor
        · intro h
          exfalso
          revert h
          split
          · simp
          · simp
          · simp
          · split <;> simp
          · split <;> simp
        · intro h
          simp at h

/-- the remote's bytes are already in the form the scanner re-emits: LF-terminated lines, no CR
before LF -/
def LegacyNormal (mt : Str) : Prop := (scanLines mt).flatMap (fun l => l ++ ['\n']) = mt

/-- Full strength: what the legacy path accepts was received in exactly the line structure it
relays (so whitespace is unchanged and the bytes received are the bytes hashed). -/
def C18_legacy_bytes_Full : Prop :=
  ∀ (md5 : Str → Str) (id expect mt field out : Str),
    rewriteSignatures md5 id expect mt field = .ok out → LegacyNormal mt

instance {ε α : Type} [DecidableEq ε] [DecidableEq α] : DecidableEq (Except ε α) := fun a b =>
  match a, b with
  | .ok x, .ok y => if h : x = y then isTrue (by rw [h]) else isFalse (by intro e; cases e; exact h rfl)
  | .error x, .error y => if h : x = y then isTrue (by rw [h]) else isFalse (by intro e; cases e; exact h rfl)
  | .ok _, .error _ => isFalse (by intro e; cases e)
  | .error _, .ok _ => isFalse (by intro e; cases e)

def toyMd5 (s : Str) : Str :=
  let n := s.foldl (fun a c => (a * 31 + c.toNat) % 4294967291) 7
  let ds := Nat.toDigits 16 n
  List.replicate (32 - ds.length) '0' ++ ds

/-- F18c: bufio.ScanLines makes the final newline optional (and drops CR before LF); the
normalised text is what is hashed and relayed. Witness with a toy digest; the same input is
replayed against the real code with real MD5 by the correspondence check. -/
theorem C18_legacy_bytes_full_fails : ¬ C18_legacy_bytes_Full := by
  intro h
  have := h toyMd5 "zzzzz".toList
    (toyMd5 ". 0123456789abcdef0123456789abcdef+3 0:3:f\n".toList ++ "+43".toList)
    ". 0123456789abcdef0123456789abcdef+3 0:3:f".toList
    (toyMd5 ". 0123456789abcdef0123456789abcdef+3 0:3:f\n".toList ++ "+43".toList)
    ". 0123456789abcdef0123456789abcdef+3 0:3:f\n".toList (by decide)
  unfold LegacyNormal at this
  revert this
  decide

/-- …and for input that is already normal, the relayed text is the received text line by line,
token by token, with only the signed locators changed. -/
theorem C18_legacy_bytes_partial (md5 : Str → Str) (id expect mt field out : Str)
    (hn : LegacyNormal mt) (h : rewriteSignatures md5 id expect mt field = .ok out) :
    mt = (scanLines mt).flatMap (fun l => joinWith ' ' (splitOn ' ' l) ++ ['\n']) ∧
    out = (scanLines mt).flatMap (fun l => joinWith ' ' (mapTail (legacyOutTok id) (splitOn ' ' l)) ++ ['\n']) := by
  obtain ⟨_, _, h3, _⟩ := C18_legacy_checks_hash md5 id expect mt field out h
  refine ⟨?_, by rw [h3]; rfl⟩
  conv => lhs; rw [← hn]
  congr 1
  funext l
  rw [joinWith_splitOn]


end ArvVerif.C18
