/-
C12 — readers, writers and the balancer share one rendezvous probe order.
Property theorems only (helpers are in Proofs/C12.lean). Every theorem is for an arbitrary
weight function / arbitrary `md5`, any number of services.
-/
import ArvVerif.Proofs.C12
import ArvVerif.Proofs.C12_Hex
import ArvVerif.Proofs.C12_Sweep
import ArvVerif.Proofs.C12_Py
namespace ArvVerif.C12
variable {α : Type}

/-- The order any of the three call sites obtains is a permutation of the service set. -/
theorem C12_perm (w : α → Nat) (svcs out : List α) (h : IsProbeOrder w svcs out) :
    out.Perm svcs ∧ out.length = svcs.length :=
  ⟨h.perm, h.perm.length_eq⟩

/-- The executable order is one of the allowed outcomes. -/
theorem C12_exec_allowed (w : α → Nat) (svcs : List α) :
    IsProbeOrder w svcs (probeOrder w svcs) := probeOrder_is w svcs

/-- With pairwise distinct weights *every* outcome of the (unstable, map-order-fed) sort is the
same list: the order depends on nothing but the service set and the weights. -/
theorem C12_determined (w : α → Nat) (svcs out : List α)
    (hinj : ∀ a ∈ svcs, ∀ b ∈ svcs, w a = w b → a = b)
    (h : IsProbeOrder w svcs out) : out = probeOrder w svcs :=
  isProbeOrder_unique w svcs _ _ hinj h (probeOrder_is w svcs)

/-- The write path (sorter over the writable subset) yields the read order filtered to the
writable services; keep-balance (sorter over all service uuids) yields the read order. -/
theorem C12_same_everywhere (w : α → Nat) (svcs readOrder writeOrder balOrder : List α)
    (p : α → Bool)
    (hinj : ∀ a ∈ svcs, ∀ b ∈ svcs, w a = w b → a = b)
    (hr : IsProbeOrder w svcs readOrder)
    (hw : IsProbeOrder w (svcs.filter p) writeOrder)
    (hb : IsProbeOrder w svcs balOrder) :
    writeOrder = readOrder.filter p ∧ balOrder = readOrder := by
  constructor
  · apply isProbeOrder_unique w (svcs.filter p) _ _ _ hw (isProbeOrder_filter w svcs _ p hr)
    intro a ha b hb'; exact hinj a (List.mem_filter.mp ha).1 b (List.mem_filter.mp hb').1
  · exact isProbeOrder_unique w svcs _ _ hinj hb hr

/-- Removing a service deletes it from the order and changes nothing else (so the relative order
of the remaining services is unchanged). -/
theorem C12_stable_under_removal [DecidableEq α] (w : α → Nat) (svcs before after : List α) (s : α)
    (hinj : ∀ a ∈ svcs, ∀ b ∈ svcs, w a = w b → a = b)
    (hb : IsProbeOrder w svcs before)
    (ha : IsProbeOrder w (svcs.erase s) after) : after = before.erase s := by
  apply isProbeOrder_unique w (svcs.erase s) _ _ _ ha (isProbeOrder_erase w svcs _ s hb)
  intro a ha' b hb'; exact hinj a (List.mem_of_mem_erase ha') b (List.mem_of_mem_erase hb')

/-- Adding a service: the old order is the new order with the new service deleted. -/
theorem C12_stable_under_addition [DecidableEq α] (w : α → Nat) (svcs before after : List α) (s : α)
    (hinj : ∀ a ∈ s :: svcs, ∀ b ∈ s :: svcs, w a = w b → a = b)
    (hb : IsProbeOrder w svcs before)
    (ha : IsProbeOrder w (s :: svcs) after) : before = after.erase s := by
  have h := isProbeOrder_erase w (s :: svcs) after s ha
  rw [List.erase_cons_head] at h
  apply isProbeOrder_unique w svcs _ _ _ hb h
  intro a ha' b hb'
  exact hinj a (List.mem_cons_of_mem _ ha') b (List.mem_cons_of_mem _ hb')

/-- The first service the writer uses is the first *writable* service in the reader's order:
every service the reader tries before it is non-writable. With no read-only services the
reader's first probe is the writer's first target. -/
theorem C12_written_found_first (w : α → Nat) (svcs readOrder writeOrder : List α) (p : α → Bool)
    (hinj : ∀ a ∈ svcs, ∀ b ∈ svcs, w a = w b → a = b)
    (hr : IsProbeOrder w svcs readOrder)
    (hw : IsProbeOrder w (svcs.filter p) writeOrder) :
    writeOrder.head? = readOrder.find? p ∧
    ((∀ a ∈ svcs, p a = true) → writeOrder = readOrder) := by
  have hf := (C12_same_everywhere w svcs readOrder writeOrder readOrder p hinj hr hw hr).1
  refine ⟨by rw [hf, List.head?_filter], ?_⟩
  intro hall
  rw [hf]
  apply List.filter_eq_self.mpr
  intro a ha; exact hall a (hr.perm.mem_iff.mp ha)

/-- Usable hints come first, the rendezvous order of the local roots follows; every root
contributed by a hint is the fixed proxy URL of a 5-character `K@` hint or the gateway-map
entry of a known 27-character `K@` hint. -/
theorem C12_hints_first (gw : List Char → Option (List Char)) (fs order : List (List Char)) :
    (∃ pre, sortedRoots gw fs order = pre ++ order ∧
      ∀ r ∈ pre,
        (∃ f ∈ fs, f.length = 7 ∧ f.take 2 = ['K', '@'] ∧ r = proxyURL (f.drop 2)) ∨
        (∃ f ∈ fs, f.length = 29 ∧ f.take 2 = ['K', '@'] ∧ gw (f.drop 2) = some r)) :=
  ⟨hintRoots gw fs, rfl, fun r hr => mem_hintRoots gw fs r hr⟩

/-- Unusable hints (not `K@`, wrong length, or unknown gateway uuid) contribute nothing. -/
theorem C12_unusable_hints_ignored (gw : List Char → Option (List Char)) (fs order : List (List Char))
    (h : ∀ f ∈ fs, classifyHint f = .other ∨ ∃ u, classifyHint f = .gateway u ∧ gw u = none) :
    sortedRoots gw fs order = order := by
  simp [sortedRoots, hintRoots_nil_of_unusable gw fs h]

/-- The weight is the documented one: MD5 of the hash followed by the last 15 characters of a
27-character service uuid. -/
theorem C12_doc (md5 : List Char → Nat) (hash uuid : List Char) (h : uuid.length = 27) :
    weight md5 hash uuid = md5 (hash ++ uuid.drop 12) ∧ (uuid.drop 12).length = 15 := by
  simp [weight, uuidSuffix, h]

/-- Go compares the weights as equal-length (32-character) lowercase hex strings; the model compares
the numbers they denote. For equal-length digit strings the two orders are the same order, in any
base, so reading root_sorter.go's `rs.weight[j] < rs.weight[i]` as a comparison of numbers is exact. -/
theorem C12_string_order_is_numeric_order (xs ys : List Nat) (hlen : xs.length = ys.length)
    (hx : ∀ d ∈ xs, d < 16) (hy : ∀ d ∈ ys, d < 16) :
    lexLt xs ys = true ↔ digitsVal 16 xs < digitsVal 16 ys :=
  lexLt_iff_val_lt 16 xs ys hlen hx hy

example : lexLt [0, 10, 15] [1, 0, 0] = true ∧ digitsVal 16 [0, 10, 15] = 175 ∧ digitsVal 16 [1, 0, 0] = 256 := by
  decide

/-- keep-balance balances many blocks at the same time (`ComputeChangeSets`' worker pool). Under
ANY interleaving of the workers' steps, for any number of blocks and workers, every block that has
been placed is wanted on the first `d` servers of the ranking of *that* block — nothing leaks from
the blocks balanced alongside it — and the tasks still belong to the blocks they were created for. -/
theorem C12_sweep_any_schedule {β : Type} (w : β → α → Nat) (svcs : List α) (d : Nat) (blks : List β)
    (sched : List SweepStep) :
    (sweepRun w svcs d blks sched).map (·.blk) = blks ∧
    ∀ t ∈ sweepRun w svcs d blks sched, ∀ x, t.wanted = some x →
      x = wantedServers d (probeOrder (w t.blk) svcs) := by
  have h := foldl_sweep_ok w svcs d sched _ (init_ok w svcs d blks)
  refine ⟨by simpa [sweepRun, Function.comp_def] using h.2, ?_⟩
  intro t ht x hx
  rcases (h.1 t ht).2 with h2 | h2
  · rw [h2] at hx; cases hx
  · rw [h2] at hx; cases hx; rfl

/-- … and those are the first `d` positions a reader of that block tries (weights of the block
pairwise distinct), whatever the schedule. -/
theorem C12_sweep_places_where_readers_look {β : Type} (w : β → α → Nat) (svcs : List α) (d : Nat)
    (blks : List β) (sched : List SweepStep) (t : Task β α) (x readOrder : List α)
    (ht : t ∈ sweepRun w svcs d blks sched) (hx : t.wanted = some x)
    (hinj : ∀ a ∈ svcs, ∀ b ∈ svcs, w t.blk a = w t.blk b → a = b)
    (hr : IsProbeOrder (w t.blk) svcs readOrder) : x = readOrder.take d := by
  rw [(C12_sweep_any_schedule w svcs d blks sched).2 t ht x hx,
      C12_determined (w t.blk) svcs readOrder hinj hr]
  rfl

/-- two blocks that rank the services [1, 2, 3] in opposite orders -/
def exW : Nat → Nat → Nat
  | 0, a => a
  | _, a => 10 - a

theorem exW_order0 : probeOrder (exW 0) [1, 2, 3] = [3, 2, 1] :=
  (C12_determined (exW 0) [1, 2, 3] [3, 2, 1] (by decide) ⟨by decide, by decide⟩).symm

theorem exW_order1 : probeOrder (exW 1) [1, 2, 3] = [1, 2, 3] :=
  (C12_determined (exW 1) [1, 2, 3] [1, 2, 3] (by decide) ⟨by decide, by decide⟩).symm

/-- A worker that ranks and then places its block does place it (the conclusion above is not
vacuous): after `rank 0; rank 1; place 0; place 1` both tasks have their own result. -/
example : (sweepRun exW [1, 2, 3] 1 [0, 1] [.rank 0, .rank 1, .place 0, .place 1]).map (·.wanted)
    = [some [3], some [1]] := by
  simp [sweepRun, sweepStep, updAt, rankTask, placeTask, wantedServers, exW_order0, exW_order1]

/-- Why the ranking must be local to the call: if it is kept in state shared by all calls (the
`sharedRun` variant), the same schedule places block 0 by block 1's ranking, i.e. NOT on the first
server of its own ranking. -/
theorem C12_shared_rank_breaks :
    (sharedRun exW [1, 2, 3] 1 [0, 1] [.rank 0, .rank 1, .place 0, .place 1]).map (·.wanted)
      = [some [1], some [1]] ∧
    wantedServers 1 (probeOrder (exW 0) [1, 2, 3]) = [3] := by
  simp [sharedRun, sharedStep, updAt, wantedServers, exW_order0, exW_order1]

/-- The Python SDK (keep.py `_service_weight`, `weighted_service_roots` after `build_services_list`)
probes in the same order as the Go client: for a discovery answer whose uuids have 27 (or at most
15) characters and pairwise distinct weights, the uuids in Python's read order are any outcome of
Go's sorter over the same (non-gateway) services, and Python's write order is that order restricted
to the services that are not read-only. -/
theorem C12_python_same_order (md5 : List Char → Nat) (hash : List Char) (items : List PySvc)
    (goOut : List (List Char))
    (hlen : ∀ s ∈ items, s.uuid.length = 27 ∨ s.uuid.length ≤ 15)
    (hinj : ∀ a ∈ (pyKeepServices items).map (·.uuid), ∀ b ∈ (pyKeepServices items).map (·.uuid),
      weight md5 hash a = weight md5 hash b → a = b)
    (hrec : ∀ a ∈ pyKeepServices items, ∀ b ∈ pyKeepServices items,
      weight md5 hash a.uuid = weight md5 hash b.uuid → a = b)
    (hgo : IsProbeOrder (weight md5 hash) ((pyKeepServices items).map (·.uuid)) goOut) :
    (pyOrder (pyWeight md5 hash) (pyKeepServices items)).map (·.uuid) = goOut ∧
    pyOrder (pyWeight md5 hash) (pyWritableServices items) =
      (pyOrder (pyWeight md5 hash) (pyKeepServices items)).filter (fun s => !s.readOnly) := by
  have hk : ∀ s ∈ pyKeepServices items, pyWeight md5 hash s.uuid = weight md5 hash s.uuid := by
    intro s hs
    exact pyWeight_eq_weight md5 hash s.uuid (hlen s (List.mem_filter.mp hs).1)
  have hread : IsProbeOrder (fun s : PySvc => weight md5 hash s.uuid) (pyKeepServices items)
      (pyOrder (pyWeight md5 hash) (pyKeepServices items)) :=
    isProbeOrder_congr _ _ _ _ hk (probeOrder_is _ _)
  constructor
  · exact isProbeOrder_unique (weight md5 hash) _ _ _ hinj
      (isProbeOrder_map (fun s : PySvc => s.uuid) (weight md5 hash) _ _ hread) hgo
  · have hw : IsProbeOrder (fun s : PySvc => weight md5 hash s.uuid) (pyWritableServices items)
        (pyOrder (pyWeight md5 hash) (pyWritableServices items)) := by
      apply isProbeOrder_congr _ _ _ _ _ (probeOrder_is _ _)
      intro s hs; exact hk s (List.mem_filter.mp hs).1
    apply isProbeOrder_unique _ (pyWritableServices items) _ _ _ hw
      (isProbeOrder_filter _ _ _ _ hread)
    intro a ha b hb; exact hrec a (List.mem_filter.mp ha).1 b (List.mem_filter.mp hb).1

/-- For uuids of 27 or at most 15 characters the two weights are the same number; for other
lengths they are different functions (Go: whole uuid, Python: last 15 characters). -/
theorem C12_python_weight (md5 : List Char → Nat) (hash uuid : List Char)
    (h : uuid.length = 27 ∨ uuid.length ≤ 15) : pyWeight md5 hash uuid = weight md5 hash uuid :=
  pyWeight_eq_weight md5 hash uuid h

theorem C12_python_weight_differs_other_lengths :
    ∃ (md5 : List Char → Nat) (hash uuid : List Char), uuid.length = 16 ∧
      pyWeight md5 hash uuid ≠ weight md5 hash uuid :=
  ⟨List.length, [], List.replicate 16 'a', by simp, by
    simp [pyWeight, weight, pyUuidSuffix, uuidSuffix]⟩

/-- Both clients turn the same hint fields into the same targets in the same order (only the
rendering of a cluster target differs: `proxyURL` vs `pyProxyURL`, the latter with a trailing "/"). -/
theorem C12_python_same_hints (gw : List Char → Option (List Char)) (fs : List (List Char)) :
    hintRoots gw fs = (hintTargets gw fs).map renderGo ∧
    pyHintRoots gw fs = (hintTargets gw fs).map renderPy :=
  ⟨hintRoots_eq_targets gw fs, pyHintRoots_eq_targets gw fs⟩

example : pyWeight List.length [] (List.replicate 27 'a') = weight List.length [] (List.replicate 27 'a') :=
  C12_python_weight _ _ _ (Or.inl (by simp))

/-! Non-vacuity: concrete instances of the hypotheses. -/
example : IsProbeOrder (fun n : Nat => n) [3, 1, 2] [3, 2, 1] := by
  refine ⟨by decide, by decide⟩
example : ∀ a ∈ [3, 1, 2], ∀ b ∈ [3, 1, 2], (fun n : Nat => n) a = (fun n : Nat => n) b → a = b := by
  intro a _ b _ h; exact h
example : classifyHint "K@abcde".toList = .proxy "abcde".toList := by decide
example : classifyHint "K@zzzzz-bi6l4-0123456789abcde".toList = .gateway "zzzzz-bi6l4-0123456789abcde".toList := by decide
example : classifyHint "A1234@5678".toList = .other := by decide

end ArvVerif.C12
