/-
C20 — federated list-by-UUID returns each requested object once from its home cluster.
Property theorems only (helpers are in Proofs/C20*.lean). Every theorem is for any number of
clusters, any uuid sets, any option values and arbitrary backend functions (hence any page size,
any order, any Go map iteration order); hypotheses on backends are stated explicitly.
-/
import ArvVerif.Proofs.C20_Run
namespace ArvVerif.C20

/-- The uuids a request asks for: the duplicate-free intersection of all its `uuid =` / `uuid in`
filters; `cannotSplit` is set exactly when some filter is of another form. -/
theorem C20_filter_intersection (fs : List Filter) (cs : Bool) (m : List Uuid)
    (h : scanFilters fs ⟨false, none⟩ = some ⟨cs, some m⟩) :
    m.Nodup ∧ (∀ u, u ∈ m ↔ InAll fs u) ∧ HasSet fs ∧
    (cs = true ↔ ∃ f ∈ fs, classifyFilter f = .notSplittable) := by
  rcases scan_start fs false _ h with ⟨h1, _⟩ | ⟨m', h1, hnd, hset, hmem⟩
  · simp at h1
  · simp only [Option.some.injEq] at h1
    subst h1
    refine ⟨hnd, hmem, hset, ?_⟩
    have := scan_cannotSplit fs _ _ h
    simpa using this

/-- a successful split request: every cluster loop ended normally and the result is the merge of
all delivered pages -/
theorem ok_split (cfg : Cfg) (o : Opts) (gs : List (ClusterId × List Uuid))
    (hplan : plan cfg.localId cfg.maxItems o = .split gs) (items : List Obj)
    (hok : (run cfg o).out = .ok items) :
    (∀ g ∈ gs, (runCluster cfg o g.1 g.2).stop = .done) ∧
    items = mergePages ((splitResults cfg o gs).flatMap (fun r => r.2.pages)) := by
  rw [run_of_split cfg o _ hplan] at hok
  split at hok
  · rename_i herr
    cases hok
    exact ⟨done_of_results cfg o gs ((errs_nil_iff _).mp herr), rfl⟩
  · cases hok

/-- **Safety for arbitrary backends (after fix d542fa4).** Whatever the backends answer — any page
size, order, repeated, duplicated, unrequested or foreign items, errors — if a split request
succeeds then the result contains no uuid twice, contains only requested well-formed uuids, and
every returned object was handed over by the backend selected by its uuid prefix, in answer to a
batch made of uuids of that prefix. -/
theorem C20_safe (cfg : Cfg) (o : Opts) (gs : List (ClusterId × List Uuid))
    (hplan : plan cfg.localId cfg.maxItems o = .split gs) (items : List Obj)
    (hok : (run cfg o).out = .ok items) :
    (pageUuids items).Nodup ∧
    (∀ u ∈ pageUuids items, InAll o.filters u ∧ wellFormed u = true) ∧
    (∀ x ∈ items, ∃ B batch i page, backendFor cfg (home x.uuid) = some B ∧
      (∀ u ∈ batch, home u = home x.uuid) ∧
      B (batchReq (remoteOpts cfg.localId o) batch) i = .page page ∧ x ∈ page) := by
  obtain ⟨m, hscan, hgs, -, -, -, -, -, -, -, -, -⟩ := plan_split _ _ _ _ hplan
  obtain ⟨hnd, hmem, -, -⟩ := C20_filter_intersection _ _ _ hscan
  obtain ⟨hk, hwf⟩ := groups_wf _ (hnd.filter wellFormed)
  subst hgs
  obtain ⟨hdone, rfl⟩ := ok_split cfg o _ hplan items hok
  have hhome : ∀ g ∈ groups (m.filter wellFormed), ∀ u ∈ g.2, home u = g.1 := fun g hg => (hwf g hg).2
  obtain ⟨a2, a3⟩ := split_safe_all cfg o _ hk hhome hdone
  have hperm := mergePages_perm ((splitResults cfg o (groups (m.filter wellFormed))).flatMap (fun r => r.2.pages))
  refine ⟨(hperm.map _).nodup_iff.mpr a2, ?_, ?_⟩
  · intro u hu
    obtain ⟨g, hg, hug⟩ := a3 u ((hperm.map _).mem_iff.mp hu)
    obtain ⟨_, h2⟩ := (mem_groups _ g).mp hg
    rw [h2] at hug
    have := List.mem_filter.mp (List.mem_filter.mp hug).1
    exact ⟨(hmem u).mp this.1, this.2⟩
  · intro x hx
    have hx' := hperm.mem_iff.mp hx
    obtain ⟨ps, hps, hxp⟩ := List.mem_flatten.mp hx'
    obtain ⟨r, hr, hpr⟩ := List.mem_flatMap.mp hps
    obtain ⟨g, hg, rfl⟩ := List.mem_map.mp hr
    have hxf : x ∈ (runCluster cfg o g.1 g.2).pages.flatten := List.mem_flatten.mpr ⟨ps, hpr, hxp⟩
    obtain ⟨⟨B, hbf⟩, _, hsub⟩ := runCluster_safe cfg o g.1 g.2 (hdone g hg)
    have hhx : home x.uuid = g.1 := hhome g hg _ (hsub _ (List.mem_map.mpr ⟨x, hxf, rfl⟩))
    unfold runCluster at hxf
    rw [hbf] at hxf
    obtain ⟨batch, i, page, hb, hcall, hxin⟩ := loop_provenance B _ _ _ _ x hxf
    refine ⟨B, batch, i, page, by rw [hhx]; exact hbf, ?_, hcall, hxin⟩
    intro u hu
    rw [hhx]; exact hhome g hg _ (hb _ hu)

/-- "Exactly once" over backends that may repeat items (the quantifier's "repeated items"): whenever
the request succeeds, the result contains each requested well-formed uuid that exists on its home
cluster exactly once and nothing else. (Before fix d542fa4 this was false: the request succeeded
with duplicates. Now a repeated item makes the request fail with 502, see the example below.) -/
def C20_exactly_once_Full : Prop :=
  ∀ (cfg : Cfg) (o : Opts) (gs : List (ClusterId × List Uuid)) (ex : ClusterId → Uuid → Bool),
    plan cfg.localId cfg.maxItems o = .split gs →
    (∀ g ∈ gs, ∃ B, backendFor cfg g.1 = some B ∧ RepeatingHonest (ex g.1) B) →
    ∀ items, (run cfg o).out = .ok items →
      (pageUuids items).Nodup ∧
      ∀ u, u ∈ pageUuids items ↔ (InAll o.filters u ∧ wellFormed u = true ∧ ex (home u) u = true)

theorem C20_exactly_once_full : C20_exactly_once_Full := by
  intro cfg o gs ex hplan hB items hok
  obtain ⟨m, hscan, hgs, -, -, -, -, -, -, -, -, -⟩ := plan_split _ _ _ _ hplan
  obtain ⟨hnd, hmem, -, -⟩ := C20_filter_intersection _ _ _ hscan
  obtain ⟨hk, hwf⟩ := groups_wf _ (hnd.filter wellFormed)
  subst hgs
  obtain ⟨hdone, rfl⟩ := ok_split cfg o _ hplan items hok
  obtain ⟨a2, a3⟩ := split_repeating_all cfg o ex _ hk (fun g hg => (hwf g hg).2) hB hdone
  have hperm := mergePages_perm ((splitResults cfg o (groups (m.filter wellFormed))).flatMap (fun r => r.2.pages))
  refine ⟨(hperm.map _).nodup_iff.mpr a2, fun u => ?_⟩
  unfold pageUuids at a3 ⊢
  rw [(hperm.map _).mem_iff, a3, mem_some_group, List.mem_filter, hmem]
  constructor
  · rintro ⟨⟨h1, h2⟩, h3⟩; exact ⟨h1, h2, h3⟩
  · rintro ⟨h1, h2, h3⟩; exact ⟨⟨h1, h2⟩, h3⟩

/-- **Exactly once, from the home cluster.** If the request is split and every involved cluster has
a backend that answers honestly (each page: duplicate-free, existing objects of the batch, non-empty
while any remain — any page size, any order, any call), the request succeeds, the result contains
each uuid at most once, it contains exactly the requested well-formed uuids that exist on their
home cluster, and every returned object was handed over by the backend selected by its uuid prefix,
in answer to a batch made of uuids of that prefix. -/
theorem C20_exactly_once (cfg : Cfg) (o : Opts) (gs : List (ClusterId × List Uuid))
    (ex : ClusterId → Uuid → Bool)
    (hplan : plan cfg.localId cfg.maxItems o = .split gs)
    (hB : ∀ g ∈ gs, ∃ B, backendFor cfg g.1 = some B ∧ Honest (ex g.1) B) :
    ∃ items, (run cfg o).out = .ok items ∧
      (pageUuids items).Nodup ∧
      (∀ u, u ∈ pageUuids items ↔ (InAll o.filters u ∧ wellFormed u = true ∧ ex (home u) u = true)) ∧
      (∀ x ∈ items, ∃ B batch i page, backendFor cfg (home x.uuid) = some B ∧
        (∀ u ∈ batch, home u = home x.uuid) ∧
        B (batchReq (remoteOpts cfg.localId o) batch) i = .page page ∧ x ∈ page) := by
  obtain ⟨m, hscan, hgs, -, -, -, -, -, -, -, -, -⟩ := plan_split _ _ _ _ hplan
  obtain ⟨hnd, -, -, -⟩ := C20_filter_intersection _ _ _ hscan
  obtain ⟨_, hwf⟩ := groups_wf _ (hnd.filter wellFormed)
  have hdone := split_honest_done cfg o ex gs (by subst hgs; exact fun g hg => (hwf g hg).1) hB
  have hok : (run cfg o).out = .ok (mergePages ((splitResults cfg o gs).flatMap (fun r => r.2.pages))) := by
    rw [run_of_split cfg o _ hplan, if_pos ((errs_nil_iff _).mpr (results_of_done cfg o gs hdone))]
  obtain ⟨f1, f2⟩ := C20_exactly_once_full cfg o gs ex hplan
    (fun g hg => by obtain ⟨B, h1, h2⟩ := hB g hg; exact ⟨B, h1, honest_repeating _ _ h2⟩) _ hok
  exact ⟨_, hok, f1, f2, (C20_safe cfg o gs hplan _ hok).2.2⟩

/-- **Termination.** For any backend whatsoever the per-cluster loop started with fuel `|todo|`
never runs out of fuel, gives the same result for every larger fuel (so the fuel is not a
restriction), and makes at most `|todo|` (a fortiori `|todo| + 1`) backend calls. -/
theorem C20_terminates (B : Backend) (ropts : Opts) (todo : List Uuid) (idx : Nat) :
    (clusterLoop B ropts todo.length todo idx).stop ≠ .starved ∧
    (clusterLoop B ropts todo.length todo idx).log.length ≤ todo.length ∧
    (clusterLoop B ropts todo.length todo idx).log.length ≤ todo.length + 1 ∧
    ∀ fuel, todo.length ≤ fuel →
      clusterLoop B ropts fuel todo idx = clusterLoop B ropts todo.length todo idx := by
  obtain ⟨h1, h2, _⟩ := loop_terminates B ropts todo.length todo idx (Nat.le_refl _)
  exact ⟨h1, h2, by omega, fun fuel hf => loop_fuel_indep B ropts fuel todo idx hf⟩

/-- Termination of the whole request: the log of a split request consists of one entry per involved
cluster, with at most as many calls as uuids requested from that cluster; never a starved loop. -/
theorem C20_terminates_run (cfg : Cfg) (o : Opts) (gs : List (ClusterId × List Uuid))
    (hplan : plan cfg.localId cfg.maxItems o = .split gs) :
    (run cfg o).log = gs.map (fun g => (g.1, (runCluster cfg o g.1 g.2).log)) ∧
    ∀ g ∈ gs, (runCluster cfg o g.1 g.2).stop ≠ .starved ∧
      (runCluster cfg o g.1 g.2).log.length ≤ g.2.length := by
  refine ⟨?_, fun g _ => runCluster_not_starved cfg o g.1 g.2⟩
  rw [run_of_split cfg o _ hplan]
  split <;> simp [splitResults, List.map_map, Function.comp_def]

/-- **Fail whole.** For a split request and arbitrary backends: the outcome is either a success, and
then every involved cluster had a backend and every call made returned a page that was empty or
consisted of pairwise distinct, still-wanted uuids of its batch (no error, no unknown cluster, no
no-progress answer, no repeated or unrequested item anywhere); or an error whose possible statuses
are a non-empty list of 404 (no backend for the cluster) and 502 (backend error / no progress /
item outside the batch). A partial list is never presented as success. -/
theorem C20_fail_whole (cfg : Cfg) (o : Opts) (gs : List (ClusterId × List Uuid))
    (hplan : plan cfg.localId cfg.maxItems o = .split gs) :
    (∀ items, (run cfg o).out = .ok items →
      ∀ g ∈ gs, (∃ B, backendFor cfg g.1 = some B) ∧
        ∀ e ∈ (runCluster cfg o g.1 g.2).log, ∃ batch page,
          e.1 = batchReq (remoteOpts cfg.localId o) batch ∧ e.2 = .page page ∧
          (page = [] ∨ ((pageUuids page).Nodup ∧ (∀ u ∈ pageUuids page, u ∈ batch) ∧
            ∃ u ∈ pageUuids page, u ∈ batch))) ∧
    (∀ ss, (run cfg o).out = .err ss → ss ≠ [] ∧ ∀ s ∈ ss, s = 404 ∨ s = 502) ∧
    ((∃ g ∈ gs, (runCluster cfg o g.1 g.2).stop ≠ .done) → ∃ ss, (run cfg o).out = .err ss) := by
  rw [run_of_split cfg o _ hplan]
  refine ⟨?_, ?_, ?_⟩
  · intro items hok g hg
    split at hok
    · rename_i herr
      have hdone := (errs_nil_iff _).mp herr (g.1, runCluster cfg o g.1 g.2)
        (List.mem_map.mpr ⟨g, hg, rfl⟩)
      simp only at hdone
      unfold runCluster at hdone ⊢
      cases hb : backendFor cfg g.1 with
      | none => rw [hb] at hdone; simp at hdone
      | some B =>
        rw [hb] at hdone
        exact ⟨⟨B, rfl⟩, (loop_log B (remoteOpts cfg.localId o) g.2.length g.2 0).2.2.2 hdone⟩
    · cases hok
  · intro ss herr
    split at herr
    · cases herr
    · rename_i hne
      cases herr
      refine ⟨hne, ?_⟩
      intro s hs
      obtain ⟨r, hr, hst⟩ := mem_errs _ s hs
      obtain ⟨g, _, rfl⟩ := List.mem_map.mp hr
      rcases hst with hst | ⟨hst, _⟩
      · exact runCluster_failed cfg o g.1 g.2 s hst
      · exact absurd hst (runCluster_not_starved cfg o g.1 g.2).1
  · rintro ⟨g, hg, hnd⟩
    split
    · rename_i herr
      exact absurd ((errs_nil_iff _).mp herr (g.1, runCluster cfg o g.1 g.2)
        (List.mem_map.mpr ⟨g, hg, rfl⟩)) hnd
    · exact ⟨_, rfl⟩

/-- a group of `groups` is never empty, so its loop makes at least one call -/
theorem group_nonempty (us : List Uuid) (g : ClusterId × List Uuid) (hg : g ∈ groups us) : g.2 ≠ [] := by
  obtain ⟨h1, h2⟩ := (mem_groups us g).mp hg
  obtain ⟨u, hu, hh⟩ := (mem_clusterIds us g.1).mp h1
  intro he
  have : u ∈ g.2 := by rw [h2]; exact List.mem_filter.mpr ⟨hu, by simp [hh]⟩
  rw [he] at this; cases this

/-- Fail whole, the three causes spelled out for the first call of a cluster: an involved cluster
without backend, a backend error, or a page carrying a uuid that is not in the batch or the same
uuid twice (in particular a non-empty page with none of the requested uuids) make the whole request
an error (404 resp. 502 among the possible statuses). -/
theorem C20_fail_causes (cfg : Cfg) (o : Opts) (gs : List (ClusterId × List Uuid))
    (hplan : plan cfg.localId cfg.maxItems o = .split gs) (g : ClusterId × List Uuid) (hg : g ∈ gs) :
    (backendFor cfg g.1 = none → ∃ ss, (run cfg o).out = .err ss ∧ 404 ∈ ss) ∧
    (∀ B s, backendFor cfg g.1 = some B →
      B (batchReq (remoteOpts cfg.localId o) g.2) 0 = .error s →
      ∃ ss, (run cfg o).out = .err ss ∧ 502 ∈ ss) ∧
    (∀ B page, backendFor cfg g.1 = some B →
      B (batchReq (remoteOpts cfg.localId o) g.2) 0 = .page page →
      ¬ ((pageUuids page).Nodup ∧ ∀ u ∈ pageUuids page, u ∈ g.2) →
      ∃ ss, (run cfg o).out = .err ss ∧ 502 ∈ ss) := by
  obtain ⟨m, -, hgs, -⟩ := plan_split _ _ _ _ hplan
  have hne : g.2 ≠ [] := by subst hgs; exact group_nonempty _ g hg
  obtain ⟨n, hn⟩ : ∃ n, g.2.length = n + 1 := by
    cases h : g.2 with
    | nil => exact absurd h hne
    | cons a l => exact ⟨l.length, rfl⟩
  have key : ∀ s, (runCluster cfg o g.1 g.2).stop = .failed s → ∃ ss, (run cfg o).out = .err ss ∧ s ∈ ss := by
    intro s hs
    rw [run_of_split cfg o _ hplan]
    have hmem : s ∈ (splitResults cfg o gs).filterMap (fun r => r.2.stop.status?) := by
      refine List.mem_filterMap.mpr ⟨(g.1, runCluster cfg o g.1 g.2), List.mem_map.mpr ⟨g, hg, rfl⟩, ?_⟩
      simp [hs]
    split
    · rename_i herr; rw [herr] at hmem; cases hmem
    · exact ⟨_, rfl, hmem⟩
  refine ⟨?_, ?_, ?_⟩
  · intro hb
    apply key
    unfold runCluster; rw [hb]
  · intro B s hb hcall
    apply key
    unfold runCluster; rw [hb, hn]
    exact (loop_first_error B _ n g.2 0 s hne hcall).1
  · intro B page hb hcall hbad
    apply key
    unfold runCluster; rw [hb, hn]
    exact (loop_first_stray B _ n g.2 0 page hne hcall hbad).1

/-- **Rejected before any backend call.** A federated request (not bypassed; the well-formed
requested uuids name more than one cluster, or a single non-local one) with a filter that is not
`uuid =` / `uuid in`, `count ≠ "none"`, `limit ≥ 0`, an offset, an order, or more uuids than
`MaxItemsPerResponse` fails with 400 and an empty call log, whatever the backends are. -/
theorem C20_reject_unsplittable (cfg : Cfg) (o : Opts) (cs : Bool) (m : List Uuid)
    (hb : o.bypass = false) (hf : o.fwd = [])
    (hscan : scanFilters o.filters ⟨false, none⟩ = some ⟨cs, some m⟩)
    (hne : groups (m.filter wellFormed) ≠ [])
    (hfed : ¬ ((groups (m.filter wellFormed)).length = 1 ∧
      cfg.localId ∈ (groups (m.filter wellFormed)).map (·.1)))
    (hbad : cs = true ∨ o.count ≠ sNone ∨ o.limit ≥ 0 ∨ o.offset ≠ 0 ∨ o.order ≠ [] ∨
      ((m.filter wellFormed).length : Int) > cfg.maxItems) :
    run cfg o = ⟨.err [400], []⟩ :=
  run_of_reject cfg o 400 (plan_reject cfg.localId cfg.maxItems o cs m hb hf hscan hne hfed hbad)

/-- A `uuid =` / `uuid in` filter with an operand of the wrong type is rejected with 400 before
any backend call, wherever it stands in the filter list. -/
theorem C20_reject_bad_operand (cfg : Cfg) (o : Opts) (hb : o.bypass = false) (hf : o.fwd = [])
    (hbad : ∃ f ∈ o.filters, classifyFilter f = .bad) : run cfg o = ⟨.err [400], []⟩ := by
  apply run_of_reject
  unfold plan
  have h1 : ¬ (o.bypass = true ∨ o.fwd ≠ []) := by simp [hb, hf]
  simp only [h1, if_false, (scan_none_iff o.filters ⟨false, none⟩).mpr hbad]

/-- Only malformed uuids (or an empty intersection): empty result, no backend call. -/
theorem C20_nothing_wellformed (cfg : Cfg) (o : Opts) (cs : Bool) (m : List Uuid)
    (hb : o.bypass = false) (hf : o.fwd = [])
    (hscan : scanFilters o.filters ⟨false, none⟩ = some ⟨cs, some m⟩)
    (hnone : ∀ u ∈ m, wellFormed u = false) : run cfg o = ⟨.ok [], []⟩ := by
  have hm : m.filter wellFormed = [] := by
    apply List.filter_eq_nil_iff.mpr
    intro u hu; simp [hnone u hu]
  unfold run plan
  have h1 : ¬ (o.bypass = true ∨ o.fwd ≠ []) := by simp [hb, hf]
  simp only [h1, if_false, hscan, hm]
  rfl

/-- **What happens outside the honest-backend hypothesis.** For a split request and arbitrary
backends, a successful result is a permutation of *everything* the backends returned: the merge
itself filters nothing and de-duplicates nothing. Exactly-once therefore rests entirely on the
per-uuid test of the loop (fix d542fa4, `accepts`): a page with a repeated or unrequested item makes
the request fail (`C20_fail_causes`), and by `C20_safe` a success implies no such item was
returned. (Before the fix such an item appeared in the result once per occurrence: F10.) -/
theorem C20_dishonest_repeat (cfg : Cfg) (o : Opts) (gs : List (ClusterId × List Uuid))
    (hplan : plan cfg.localId cfg.maxItems o = .split gs) (items : List Obj)
    (hok : (run cfg o).out = .ok items) :
    items.Perm (runLogItems (run cfg o)) ∧ ∀ x, items.count x = (runLogItems (run cfg o)).count x := by
  have hp : items.Perm (runLogItems (run cfg o)) := by
    rw [run_of_split cfg o _ hplan] at hok ⊢
    split at hok
    · rename_i herr
      rw [if_pos herr]
      cases hok
      unfold runLogItems
      simp only
      rw [← split_pages_log]
      exact mergePages_perm _
    · cases hok
  exact ⟨hp, fun x => hp.count_eq x⟩

/-- When two or more non-empty pages were merged the result is in "modified_at desc" order. -/
theorem C20_merge_order (cfg : Cfg) (o : Opts) (gs : List (ClusterId × List Uuid))
    (hplan : plan cfg.localId cfg.maxItems o = .split gs) (items : List Obj)
    (hok : (run cfg o).out = .ok items)
    (h2 : 2 ≤ (((splitResults cfg o gs).flatMap (fun r => r.2.pages)).filter (fun p => decide (p ≠ []))).length) :
    items.Pairwise (fun a b => b.ts ≤ a.ts) := by
  rw [run_of_split cfg o _ hplan] at hok
  split at hok
  · cases hok; exact mergePages_sorted _ h2
  · cases hok

/-- Requests that are not federated are passed to the local backend unchanged (apart from the
forwarded-for mark), once. -/
theorem C20_passthrough (cfg : Cfg) (o : Opts)
    (hplan : plan cfg.localId cfg.maxItems o = .passLocal) :
    (∀ items, cfg.localB (forwarded cfg.localId o) 0 = .page items →
      run cfg o = ⟨.ok items, [(cfg.localId, [(forwarded cfg.localId o, .page items)])]⟩) ∧
    (∀ s, cfg.localB (forwarded cfg.localId o) 0 = .error s →
      run cfg o = ⟨.err [s], [(cfg.localId, [(forwarded cfg.localId o, .error s)])]⟩) := by
  constructor
  · intro items h; unfold run; rw [hplan]; simp only; rw [h]
  · intro s h; unfold run; rw [hplan]; simp only; rw [h]

/-- The list path and `chooseBackend` (single-object requests) pick the same backend for a
well-formed uuid whose home cluster is the local one or a configured remote. -/
theorem C20_backend_choice (cfg : Cfg) (u : Uuid) (B : Backend) (hw : wellFormed u = true)
    (hb : backendFor cfg (home u) = some B) : chooseBackend cfg u = B := by
  have hl : u.length = 27 := by simpa [wellFormed, uuidLen] using hw
  unfold chooseBackend backendFor at *
  simp only [hl, if_true]
  unfold home prefixLen at hb
  by_cases hc : u.take 5 = cfg.localId
  · simp only [hc, if_true] at hb ⊢
    exact Option.some.inj hb
  · simp only [hc, if_false] at hb ⊢
    rw [hb]

/-! ### The former F10 witness: a repeating backend now makes the request fail whole -/

def wB1 : Uuid := "bbbbb-4zz18-000000000000001".toList
def wB2 : Uuid := "bbbbb-4zz18-000000000000002".toList
def wHeld : List Obj := [⟨wB1, 1⟩, ⟨wB2, 2⟩]

/-- one existing object of the batch per page; from the second call on, object 1 is returned again -/
def wBackend : Backend := fun o idx =>
  match o.filters with
  | [f] =>
    match f.operand with
    | .slist batch =>
      .page ((wHeld.filter (fun h => decide (h.uuid ∈ batch))).take 1 ++ (if idx = 0 then [] else [⟨wB1, 1⟩]))
    | _ => .page []
  | _ => .page []

def wCfg : Cfg :=
  { localId := "aaaaa".toList, maxItems := 10, localB := fun _ _ => .page []
    remotes := fun c => if c = "bbbbb".toList then some wBackend else none }

def wOpts : Opts :=
  { filters := [⟨sUuid, sIn, .ilist [some wB1, some wB2]⟩], count := sNone, limit := -1, offset := 0,
    order := [], select := none, bypass := false, fwd := [] }

theorem wBackend_repeating : RepeatingHonest (fun u => decide (u ∈ pageUuids wHeld)) wBackend := by
  intro o batch idx hf
  unfold wBackend
  rw [hf]
  simp only [batchFilter]
  refine ⟨_, rfl, ?_, ?_⟩
  · intro u hu
    simp only [pageUuids, List.map_append, List.mem_append, List.mem_map] at hu
    rcases hu with ⟨x, hx, rfl⟩ | ⟨x, hx, rfl⟩
    · have := (List.mem_filter.mp (List.mem_of_mem_take hx)).1
      simp only [decide_eq_true_eq]
      exact List.mem_map.mpr ⟨x, this, rfl⟩
    · split at hx
      · cases hx
      · simp only [List.mem_singleton] at hx; subst hx; decide
  · rintro ⟨u, hub, hue⟩
    simp only [decide_eq_true_eq] at hue
    obtain ⟨h, hh, rfl⟩ := List.mem_map.mp hue
    have hne : wHeld.filter (fun h => decide (h.uuid ∈ batch)) ≠ [] := by
      intro he
      have : h ∈ wHeld.filter (fun h => decide (h.uuid ∈ batch)) := List.mem_filter.mpr ⟨hh, by simpa using hub⟩
      rw [he] at this; cases this
    cases hfl : wHeld.filter (fun h => decide (h.uuid ∈ batch)) with
    | nil => exact absurd hfl hne
    | cons y ys =>
      have hy : y ∈ wHeld.filter (fun h => decide (h.uuid ∈ batch)) := by rw [hfl]; exact List.mem_cons_self
      refine ⟨y.uuid, ?_, by simpa using (List.mem_filter.mp hy).2⟩
      simp [pageUuids]

theorem wPlan : plan wCfg.localId wCfg.maxItems wOpts = .split [("bbbbb".toList, [wB1, wB2])] := by decide

theorem wLog : runLogItems (run wCfg wOpts) = [⟨wB1, 1⟩, ⟨wB2, 2⟩, ⟨wB1, 1⟩] := by decide

/-- F10 witness on the fixed code: remote `bbbbb` answers the batch {1, 2} with [1] and the shrunk
batch {2} with [2, 1]; the request now fails with 502 after those two calls (it used to return
object 1 twice). So for repeating backends success is not guaranteed — what `C20_exactly_once_full`
guarantees is that a success is exactly-once. -/
theorem C20_repeat_fails_whole : (run wCfg wOpts).out = .err [502] ∧ runLogItems (run wCfg wOpts) =
    [⟨wB1, 1⟩, ⟨wB2, 2⟩, ⟨wB1, 1⟩] := ⟨by decide, wLog⟩

/-! ### Non-vacuity: the hypotheses are satisfiable by non-trivial instances -/

/-- A backend that returns at most `k` existing objects of the batch per call. -/
def pagingBackend (k : Nat) (held : List Obj) : Backend := fun o _ =>
  match o.filters with
  | [f] =>
    match f.operand with
    | .slist batch => .page ((held.filter (fun h => decide (h.uuid ∈ batch))).take k)
    | _ => .page []
  | _ => .page []

/-- … is honest for every page size `k ≥ 1` ("short pages, one item at a time"). -/
theorem pagingBackend_honest (k : Nat) (hk : 0 < k) (held : List Obj) (hnd : (pageUuids held).Nodup) :
    Honest (fun u => decide (u ∈ pageUuids held)) (pagingBackend k held) := by
  intro o batch idx hf
  unfold pagingBackend
  rw [hf]
  simp only [batchFilter]
  refine ⟨_, rfl, ?_, ?_, ?_⟩
  · exact hnd.sublist (((List.take_sublist _ _).trans List.filter_sublist).map _)
  · intro u hu
    obtain ⟨x, hx, rfl⟩ := List.mem_map.mp hu
    have := List.mem_filter.mp (List.mem_of_mem_take hx)
    have hm : x.uuid ∈ pageUuids held := List.mem_map.mpr ⟨x, this.1, rfl⟩
    exact ⟨by simpa using this.2, by simpa using hm⟩
  · rintro ⟨u, hub, hue⟩
    simp only [decide_eq_true_eq] at hue
    obtain ⟨h, hh, rfl⟩ := List.mem_map.mp hue
    have : h ∈ held.filter (fun h => decide (h.uuid ∈ batch)) := List.mem_filter.mpr ⟨hh, by simpa using hub⟩
    cases hfl : held.filter (fun h => decide (h.uuid ∈ batch)) with
    | nil => rw [hfl] at this; cases this
    | cons y ys =>
      cases k with
      | zero => omega
      | succ k => simp

def eA1 : Uuid := "aaaaa-4zz18-000000000000001".toList
def eC1 : Uuid := "ccccc-4zz18-000000000000001".toList

/-- local aaaaa, remotes bbbbb (pages of one) and ccccc (pages of two) -/
def eCfg : Cfg :=
  { localId := "aaaaa".toList, maxItems := 3, localB := pagingBackend 1 [⟨eA1, 7⟩]
    remotes := fun c =>
      if c = "bbbbb".toList then some (pagingBackend 1 wHeld)
      else if c = "ccccc".toList then some (pagingBackend 2 [])
      else none }

/-- two uuid filters whose intersection matters, a malformed id, a duplicate -/
def eOpts : Opts :=
  { wOpts with filters :=
      [⟨sUuid, sIn, .ilist [some wB1, some eA1, some wB2, none, some "short".toList, some wB1, some eC1]⟩,
       ⟨sUuid, sIn, .slist [eA1, wB1, "zzzzz-4zz18-000000000000009".toList]⟩] }

example : plan eCfg.localId eCfg.maxItems eOpts =
    .split [("aaaaa".toList, [eA1]), ("bbbbb".toList, [wB1])] := by decide
-- the hypotheses of C20_exactly_once hold for this instance
example : ∀ g ∈ [("aaaaa".toList, [eA1]), ("bbbbb".toList, [wB1])],
    ∃ B, backendFor eCfg g.1 = some B ∧
      Honest ((fun c u => decide (u ∈ pageUuids (if c = "aaaaa".toList then [⟨eA1, 7⟩] else wHeld))) g.1) B := by
  intro g hg
  simp only [List.mem_cons, List.not_mem_nil, or_false] at hg
  rcases hg with rfl | rfl
  · exact ⟨pagingBackend 1 [⟨eA1, 7⟩], rfl, pagingBackend_honest 1 (by omega) _ (by decide)⟩
  · exact ⟨pagingBackend 1 wHeld, rfl, pagingBackend_honest 1 (by omega) wHeld (by decide)⟩
-- a rejected request: the same filters with count = "exact" (hypotheses of C20_reject_unsplittable)
example : run eCfg { eOpts with count := "exact".toList } = ⟨.err [400], []⟩ := by decide
-- more uuids than MaxItemsPerResponse
example : run { eCfg with maxItems := 1 } eOpts = ⟨.err [400], []⟩ := by decide
-- an unknown cluster: 404, after the known cluster was asked
example : (run wCfg { wOpts with filters := [⟨sUuid, sIn, .slist [wB1, eC1]⟩] }).out = .err [404] := by decide
-- a failing backend: 502
example : (run { wCfg with remotes := fun _ => some (fun _ _ => .error 503) } wOpts).out = .err [502] := by decide
-- the hypotheses of C20_exactly_once_full are satisfiable by a backend that really repeats items
example : ∀ g ∈ [("bbbbb".toList, [wB1, wB2])],
    ∃ B, backendFor wCfg g.1 = some B ∧ RepeatingHonest ((fun _ u => decide (u ∈ pageUuids wHeld)) g.1) B := by
  intro g hg
  simp only [List.mem_singleton] at hg
  subst hg
  exact ⟨wBackend, rfl, wBackend_repeating⟩
-- a no-progress answer: 502 after one call
example : (run { wCfg with remotes := fun _ => some (fun _ _ => .page [⟨eC1, 1⟩]) } wOpts).out = .err [502] := by
  decide

end ArvVerif.C20
