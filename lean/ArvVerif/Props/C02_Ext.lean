/-
C02, extension round: property theorems over whole histories (durability of an acknowledged block
until it is trashed, inertness of leftover temp files) and the glue between the pipe model and the
volume model. Same model, same conventions as Props/C02.lean.
-/
import ArvVerif.Props.C02
import ArvVerif.Proofs.C02_Ext
namespace ArvVerif.C02

/-- **Acknowledged means durable until trashed, over whole histories.** If the initial volume is
intact and a fresh process can serve `h` (in particular: right after a PUT of `h` was answered 200,
`C02_ack_implies_renamed`), then after any history of PUT / WriteBlock / Touch / Trash of *other*
hashes / Untrash / EmptyTrash operations and environment steps that do not remove or overwrite the
block file — every operation possibly cut short by a crash after any micro-step — a fresh process
still serves `h`. Only `Trash h` itself (excluded by `Op.keeps`) takes the block away. -/
theorem C02_ack_durable (hash : Bytes → Name) (h : Name) (hb : isBlockName h = true) (fs0 fs : FS)
    (hi : Intact hash fs0) (hg : ∃ b, getBlock hash fs0 h = .ok b) (hr : ReachKeep hash h fs0 fs) :
    ∃ b, getBlock hash fs h = .ok b :=
  (good_iff_getBlock hash fs h).1 (good_reachKeep hash hb hi ((good_iff_getBlock hash fs0 h).2 hg) hr)

/-- **Leftover temp files are inert.** A file without an owner (any `tmp<hash><suffix>` left behind
by a killed PUT, `C02_tmp_never_visible`) is never read, modified, renamed or removed by any later
keepstore operation that creates its own temp files under other names (O_EXCL), crash anywhere:
it is never reused and never becomes part of a block. (Nothing ever removes it either.) -/
theorem C02_leftover_tmp_inert (hash : Bytes → Name) (fs : FS) (q : Path) (hq : owner q.name = none)
    (op : Op) (hv : op.valid hash) (hf : op.freshFor q) (k : Nat) :
    (run fs ((op.evs hash fs).take k)).get q = fs.get q :=
  get_prefix_of_avoids (op_avoids_unowned hash fs op hv hq hf) fs k

/-- **The hypothesis of `C02_crash_atomic` discharged by the pipe model.** Whatever interleaving of
putWithPipe's goroutines led to the writer seeing its reader end (EOF or error), the bytes it got
and that end are a valid reader outcome for the request body; hence every crash prefix of the
`WriteBlock` run fed by that pipe leaves the block path with its old content or the complete body. -/
theorem C02_put_through_pipe (body : Bytes) (s : Pipe) (hr : PReach body s) (w : WBIn)
    (hc : w.chunks = s.got)
    (hend : (s.writer = .sawEOF ∧ w.rend = .eof) ∨ (s.writer = .sawErr ∧ w.rend = .err))
    (fs : FS) (k : Nat) :
    (run fs ((writeBlockEvs w).1.take k)).get (blockPath w.h) = fs.get (blockPath w.h) ∨
    ((run fs ((writeBlockEvs w).1.take k)).get (blockPath w.h) = some ⟨body, w.now⟩ ∧
      w.rend = .eof ∧ w.fail = .none ∧ (writeBlockEvs w).1.length ≤ k) := by
  have h := C02_cancel_is_error body s hr
  have hv : WBValid body w.chunks w.rend := by
    rcases hend with ⟨h1, h2⟩ | ⟨h1, h2⟩
    · rw [hc, h2]; exact h.2.2.2.1 h1
    · rw [hc, h2]; exact (h.2.2.2.2 h1).1
  exact C02_crash_atomic fs body w hv k

section Examples

-- C02_ack_durable: after an acknowledged PUT, a history "PUT of the same block killed mid-way, Trash of
-- another hash, Untrash, EmptyTrash" keeps the block; it is a ReachKeep history
def exOther : Name := toyHash [1]
example : isBlockName exH = true ∧ exOther ≠ exH := by decide
example : ∃ fs, ReachKeep toyHash exH (run FS.empty (handlePut toyHash FS.empty exPut).1) fs ∧
    ∃ b, getBlock toyHash fs exH = .ok b :=
  ⟨_, .step (.emptyTrash 10 ) 5 (.step (.untrash exH 9) 7 (.step (.trash ⟨100, 10, 50⟩ exOther) 3
        (.step (.put { exPut with attempts := [{ exW with sfx := ['7'] }] }) 5 .init
          (by intro w hw; simp [exPut] at hw; subst hw; exact ⟨rfl, fun _ => by decide⟩) trivial)
        trivial (by show exOther ≠ exH; decide)) trivial trivial) trivial trivial,
    ⟨exBody, by decide⟩⟩

-- C02_leftover_tmp_inert: a temp file left by a killed PUT survives a complete later PUT untouched
example : owner (tmpPath exH ['9']).name = none := by decide
example : (Op.put exPut).freshFor (tmpPath exH ['9']) := by
  intro w hw; simp [exPut] at hw; subst hw; decide

end Examples

end ArvVerif.C02
