/-
C09 — property theorem: the directories (including empty ones) can be read off the saved text.
-/
import ArvVerif.Proofs.C09_Dirs
import ArvVerif.Props.C09
namespace ArvVerif.C09

open ArvVerif.C08 (Seg FileNode Store)
open ArvVerif.C10 (bSlash)

variable {max : Nat} {hash : Bytes → C08.Loc}

/-- **Same directories, including empty ones.** Let the directory list be closed (every listed
directory's parent is listed; a directory that counts sub-directories has one listed — what the
walk over the inode tree produces). After a successful save, a non-root path `p` is a directory of the
tree **iff** it is a prefix of the directory some line of the text names (a stream name or an
empty-directory marker) — and those prefixes are exactly the directories `loadManifest` creates for
the text (`createFileAndParents` makes every ancestor of every stream/marker directory; the file
tokens of a saved text hold no '/'). In particular an empty directory is never lost: it has its own
marker line; and a directory holding only sub-directories is a prefix of theirs. -/
theorem C09_directories_recovered (hh : HashOK hash) {k : Keep} {t : Tree9} (hok : SaveOK max hash k t) (hnd : NoDel t)
    (hclosed : TreeClosed t) {txt : Bytes} (h : (marshal9 hash max k t).2.2 = MRes.ok txt) :
    ∃ L, parse9 txt = some L ∧ ∀ p : List Bytes, p ≠ [] → (∀ c ∈ p, bSlash ∉ c) →
      (p ∈ dirPaths t ↔ ∃ n ∈ lineNames L, ∃ q, (∀ c ∈ q, bSlash ∉ c) ∧ n = prefixOf (p ++ q)) := by
  obtain ⟨r1, r2, r3, _, _, _⟩ := marshal9_run (max := max) hh hok
  obtain ⟨_, L, h1, h2⟩ := C09_marshal_valid hh hok hnd h
  obtain ⟨_, a2, _, a4⟩ := TreeKept.abs_eq r3 r2.ext hok.wf
  have hshape := TreeKept.shape r3
  have hclosed' : TreeClosed (marshal9 hash max k t).2.1 := by
    constructor
    · intro d' hd' hne
      obtain ⟨d, hd, e1, _, _⟩ := hshape d' hd'
      rw [a2, e1]
      exact hclosed.parent d hd (by rw [← e1]; exact hne)
    · intro d' hd' hsub
      obtain ⟨d, hd, e1, e2, _⟩ := hshape d' hd'
      obtain ⟨c, hc, n, hcn⟩ := hclosed.child d hd (by rw [← e2]; exact hsub)
      have : c.path ∈ dirPaths (marshal9 hash max k t).2.1 := by
        rw [a2]; exact List.mem_map.mpr ⟨c, hc, rfl⟩
      obtain ⟨c', hc', hcp⟩ := List.mem_map.mp this
      exact ⟨c', hc', n, by rw [hcp, hcn, e1]⟩
  refine ⟨L, h2, ?_⟩
  intro p hp hps
  rw [← a2]
  exact dirs_recovered h1 hclosed' (fun d hd c hc => (r1.paths d hd c hc).2.2.2) p hp hps

/-- non-vacuity: the example tree of Props/C09.lean is closed -/
example : TreeClosed exTree := by
  constructor
  · intro d hd hne
    simp only [exTree, List.mem_cons, List.not_mem_nil, or_false] at hd
    rcases hd with rfl | rfl | rfl
    · exact absurd rfl hne
    · decide
    · decide
  · intro d hd hsub
    simp only [exTree, List.mem_cons, List.not_mem_nil, or_false] at hd
    rcases hd with rfl | rfl | rfl
    · exact ⟨_, List.mem_cons_of_mem _ List.mem_cons_self, [100], rfl⟩
    · simp at hsub
    · simp at hsub

end ArvVerif.C09
