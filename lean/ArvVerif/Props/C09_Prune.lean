/-
C09 — property theorem for the background path: `pruneMemSegments` with a Keep that can fail.
-/
import ArvVerif.Proofs.C09_Prune
namespace ArvVerif.C09

open ArvVerif.C08 (Seg FileNode Flush Store SegWF)

variable {max : Nat} {hash : Bytes → C08.Loc}

/-- **A failing background write loses nothing** (the `pruneMemSegments` step of `filenode.Write`,
for every script of Keep answers): no segment is replaced at this point (kinds unchanged), every
segment keeps its bytes and its length, the segment list stays well-formed over the new Keep, and
Keep grew by acknowledged blocks only. A full segment whose write was acknowledged is marked with its
position and length (its snapshot is in Keep, so the goroutine may later swap in the stored segment —
C08's `settle`, content-preserving by `C08_flush_invisible_settle`); one whose write failed is only
marked and stays in memory until the next flush writes it again.
`_partial`: this is the prune step on its own; that the whole `Write` loop around it (C08's, with
this step in place of the all-ok one) keeps files well-formed under failures has no theorem — the
differential check runs it on every case with a background failure script. -/
theorem C09_background_failure_keeps_data_partial (hinj : Function.Injective hash) (segs : List Seg) (idx : Nat)
    (k : Keep) (hk : KeepOK hash k) (hwf : ∀ s ∈ segs, SegWF max hash k.store s) :
    KeepOK hash (pruneSegsK hash max segs idx k).2 ∧ KeepStep hash k (pruneSegsK hash max segs idx k).2 ∧
    (∀ s ∈ (pruneSegsK hash max segs idx k).1, SegWF max hash (pruneSegsK hash max segs idx k).2.store s) ∧
    C08.absSegs (pruneSegsK hash max segs idx k).2.store (pruneSegsK hash max segs idx k).1 = C08.absSegs k.store segs ∧
    (pruneSegsK hash max segs idx k).1.map Seg.len = segs.map Seg.len ∧
    (pruneSegsK hash max segs idx k).1.map Seg.isMem = segs.map Seg.isMem := by
  obtain ⟨h1, h2, h3, h4, h5, h6⟩ := pruneSegsK_spec (max := max) hinj segs idx k hk hwf
  refine ⟨h1, h2, h3, ?_, h5, h6⟩
  unfold C08.absSegs
  rw [List.flatMap_def, List.flatMap_def, h4]

/-- non-vacuity: two full segments (max = 2), the first write fails, the second succeeds -/
example :
    ((pruneSegsK id 2 [Seg.mem [1, 2] Flush.none, Seg.mem [3, 4] Flush.none, Seg.mem [5] Flush.none] 0
        ⟨fun _ => none, [], [Outcome.fail], Outcome.ok, 0, 0⟩).1.map fun s => match s with
          | Seg.mem b Flush.stale => (b, 0)
          | Seg.mem b (Flush.pending _ _) => (b, 1)
          | Seg.mem b Flush.none => (b, 2)
          | Seg.stored .. => ([], 3)) = [([1, 2], 0), ([3, 4], 1), ([5], 2)] := by decide

end ArvVerif.C09
