/-
C09 — property theorem for the background path: `pruneMemSegments` with a Keep that can fail.
-/
import ArvVerif.Proofs.C09_Write
namespace ArvVerif.C09

open ArvVerif.C08 (Seg FileNode Ptr Flush Store SegWF WF)

variable {max : Nat} {hash : Bytes → C08.Loc}

/-- **A failing background write loses nothing** (the `pruneMemSegments` step of `filenode.Write`,
for every script of Keep answers): no segment is replaced at this point (kinds unchanged), every
segment keeps its bytes and its length, the segment list stays well-formed over the new Keep, and
Keep grew by acknowledged blocks only. A full segment whose write was acknowledged is marked with its
position and length (its snapshot is in Keep, so the goroutine may later swap in the stored segment —
C08's `settle`, content-preserving by `C08_flush_invisible_settle`); one whose write failed is only
marked and stays in memory until the next flush writes it again.
`_partial`: this is the prune step on its own; the whole `Write` is `C09_background_failure_keeps_data` below. -/
theorem C09_background_failure_keeps_data_partial (hinj : Function.Injective hash) (segs : List Seg) (idx : Nat)
    (k : Keep) (hk : KeepOK hash k) (hwf : ∀ s ∈ segs, SegWF max hash k.store s) :
    KeepOK hash (pruneSegsK hash max segs idx k).2 ∧ KeepStep hash k (pruneSegsK hash max segs idx k).2 ∧
    (∀ s ∈ (pruneSegsK hash max segs idx k).1, SegWF max hash (pruneSegsK hash max segs idx k).2.store s) ∧
    C08.absSegs (pruneSegsK hash max segs idx k).2.store (pruneSegsK hash max segs idx k).1 = C08.absSegs k.store segs ∧
    (pruneSegsK hash max segs idx k).1.map Seg.len = segs.map Seg.len ∧
    (pruneSegsK hash max segs idx k).1.map Seg.isMem = segs.map Seg.isMem := by
  obtain ⟨h1, h2, h3, h4, h5, h6⟩ := pruneSegsK_spec (max := max) hinj segs idx k hk hwf
  refine ⟨h1, h2, h3, ?_, h5, h6⟩
  unfold C08.absSegs
  rw [List.flatMap_def, List.flatMap_def, h4]

/-- **A handle write with a Keep that can fail** (`filehandle.Write` = `filenode.Write` followed, once
the file lock is free, by the background goroutines — the model's `implK.write`): for every script of
Keep answers, every well-formed file, every (stale) pointer and data of any length, the write never
panics or hangs, consumes all the data, and once the background writes have settled the file is
well-formed over the new Keep and holds exactly the plain `pwrite` result; every other handle's pointer
stays valid; Keep grew by acknowledged blocks only. A failing background write therefore costs
nothing but memory: its segment stays buffered until the next flush writes it again. -/
theorem C09_background_failure_keeps_data (hinj : Function.Injective hash) (hmax : 1 ≤ max) {k : Keep}
    (hk : KeepOK hash k) {fn : FileNode} {ptr : Ptr} (hwf : WF max hash k.store fn) (hrep : 0 ≤ fn.repacked)
    (hptr : C08.PtrOK fn ptr) (p : Bytes) :
    ∃ w, writeK hash max k fn ptr p = WriteResK.done w p.length ∧ KeepOK hash w.k ∧ KeepStep hash k w.k ∧
      WF max hash w.k.store (C08.settle hash w.fn) ∧
      C08.abs w.k.store (C08.settle hash w.fn) = C08.specWrite (C08.abs k.store fn) ptr.off p ∧
      w.ptr.off = ptr.off + p.length ∧ C08.PtrOK (C08.settle hash w.fn) w.ptr ∧
      (∀ q, C08.PtrOK fn q → C08.PtrOK (C08.settle hash w.fn) q) := by
  obtain ⟨w, h1, h2, h3, h4, _, h6, h7, h8, h9⟩ := writeK_spec hinj hmax hk hwf hrep hptr p
  obtain ⟨s1, s2, _, _, s5⟩ := C08.settle_spec h4
  exact ⟨w, h1, h2, h3, s1, by rw [s2, h8], h7, s5 _ h6, fun q hq => s5 q (h9 q hq)⟩

/-- non-vacuity of the hypotheses: a file of a stored and a mem segment (`max = 2`) over a
Keep holding its block, written through a stale pointer while the first background write fails -/
example : ∃ w n, writeK id 2 ⟨C08.Store.put id (fun _ => none) [1, 2, 3, 4], [], [Outcome.fail], Outcome.ok, 0, 0⟩
    ⟨[Seg.stored [1, 2, 3, 4] 4 1 2, Seg.mem [9, 8] Flush.none], 4, 3⟩ ⟨1, 17, 42, -1⟩ [7, 7, 7] =
    WriteResK.done w n ∧ n = 3 ∧ w.k.fails = 1 := by
  refine ⟨_, _, rfl, ?_, ?_⟩ <;> decide

/-- non-vacuity: two full segments (max = 2), the first write fails, the second succeeds -/
example :
    ((pruneSegsK id 2 [Seg.mem [1, 2] Flush.none, Seg.mem [3, 4] Flush.none, Seg.mem [5] Flush.none] 0
        ⟨fun _ => none, [], [Outcome.fail], Outcome.ok, 0, 0⟩).1.map fun s => match s with
          | Seg.mem b Flush.stale => (b, 0)
          | Seg.mem b (Flush.pending _ _) => (b, 1)
          | Seg.mem b Flush.none => (b, 2)
          | Seg.stored .. => ([], 3)) = [([1, 2], 0), ([3, 4], 1), ([5], 2)] := by decide

end ArvVerif.C09
