/-
C19 — a user's token secret never leaves the cluster unsalted.
Property theorems only (helpers are in Proofs/C19.lean, Proofs/C19_Flow.lean). Every theorem is for
an arbitrary `mac : secret → remote id → digest bytes`; where the length of the digest matters
(`never twice`, "what is sent never needs salting") the hypothesis `∀ k m, (mac k m).length = 20`
(SHA-1 output size) is explicit. All theorems quantify over arbitrary token strings, remote ids,
lookup tables and requests.

Reading of "already salted" (design note F9): `MustSalt t` — `t` splits on '/' into
`v2 :: uuid :: secret :: …` and `secret.length ≠ 40`. The code has no hex test, so ANY
40-character secret is taken for a salt; this is stated, not assumed away.

The legacy-path theorems describe `saltAuthToken` as repaired by the fix: commits 2f26f62 (F7),
a42002c (F19b), b690c13 + 699c6fa (F19c), f99a29f (F19a); before them `C19_legacy_request_clean`
was false for the form-body placement, for a form body next to another token, for a content type
with parameters and for the cookie placement (witnesses in corpus/C19/).
-/
import ArvVerif.Proofs.C19_Flow
namespace ArvVerif.C19

/-! ## SaltToken -/

/-- Shape: a token `v2/<uuid>/<secret>[/more]` whose secret is not 40 characters long is replaced by
`v2/<uuid>/<hex mac(secret, remote)>` — uuid kept, extra segments dropped, result a function of
(uuid, secret, remote) only. With a 40-character secret (F9: any 40 characters) the token is
returned as it is if its uuid starts with the remote id and reported as already salted otherwise. -/
theorem C19_salt_shape (mac : Str → Str → List UInt8) (u s rest R : Str)
    (hu : '/' ∉ u) (hs : '/' ∉ s) (hrest : rest = [] ∨ ∃ r, rest = '/' :: r) :
    (s.length ≠ 40 →
      saltToken mac (sV2Slash ++ u ++ sSlash ++ s ++ rest) R =
        .ok (sV2Slash ++ u ++ sSlash ++ hexStr (mac s R))) ∧
    (s.length = 40 → R.isPrefixOf u = true →
      saltToken mac (sV2Slash ++ u ++ sSlash ++ s ++ rest) R =
        .ok (sV2Slash ++ u ++ sSlash ++ s ++ rest)) ∧
    (s.length = 40 → R.isPrefixOf u = false →
      saltToken mac (sV2Slash ++ u ++ sSlash ++ s ++ rest) R = .error .salted) := by
  obtain ⟨more, hsp⟩ := splitSlash_v2 u s rest hu hs hrest
  have h := saltToken_of_split mac _ R u s more hsp
  refine ⟨fun hl => ?_, fun hl hp => ?_, fun hl hp => ?_⟩
  · rw [h]; simp [saltLen, hl, saltedForm]
  · rw [h]; simp [saltLen, hl, hp]
  · rw [h]; simp [saltLen, hl, hp]

/-- Every other string (fewer than three '/'-separated parts, or not starting with `v2`) is refused:
"obsolete token" exactly for `[0-9a-z]{41,}`, "badly formatted" otherwise. -/
theorem C19_salt_other (mac : Str → Str → List UInt8) (t R : Str)
    (h : ∀ u s more, splitSlash t ≠ sV2 :: u :: s :: more) :
    saltToken mac t R = (if isObsolete t then .error .obsolete else .error .format) ∧
    (isObsolete t = true ↔
      41 ≤ t.length ∧ ∀ c ∈ t, (('0' ≤ c ∧ c ≤ '9') ∨ ('a' ≤ c ∧ c ≤ 'z'))) :=
  ⟨saltToken_not_v2 mac t R h, isObsolete_iff t⟩

/-- Converse, for every token string whatsoever: a success of SaltToken is one of the two outcomes
above, and the token has the v2 shape `v2/<uuid>/<secret><tail>`. -/
theorem C19_salt_ok_only (mac : Str → Str → List UInt8) (t R x : Str)
    (h : saltToken mac t R = .ok x) :
    ∃ u s more, splitSlash t = sV2 :: u :: s :: more ∧
      t = sV2 ++ '/' :: (u ++ '/' :: (s ++ tailJoin more)) ∧ '/' ∉ u ∧ '/' ∉ s ∧
      ((s.length ≠ 40 ∧ x = saltedForm mac u s R) ∨
       (s.length = 40 ∧ R.isPrefixOf u = true ∧ x = t)) := by
  obtain ⟨u, s, more, hsp, hx⟩ := saltToken_ok_inv mac t R x h
  exact ⟨u, s, more, hsp, splitSlash_three t sV2 u s more hsp,
    mem_splitSlash_noslash t u (by rw [hsp]; simp), mem_splitSlash_noslash t s (by rw [hsp]; simp), hx⟩

/-- The salted token keeps the uuid and consists of exactly `v2`, the uuid and the hex digest. -/
theorem C19_salt_keeps_uuid (mac : Str → Str → List UInt8) (u s R : Str) (hu : '/' ∉ u) :
    splitSlash (saltedForm mac u s R) = [sV2, u, hexStr (mac s R)] ∧
    (hexStr (mac s R)).length = 2 * (mac s R).length :=
  ⟨splitSlash_saltedForm mac u s R hu, length_hexStr _⟩

/-- Salting is never applied twice: whatever SaltToken returned has a 40-character secret, so
salting it again — for any remote — returns it unchanged (if it belongs to that remote) or reports
"already salted"; the MAC is not applied again. -/
theorem C19_never_twice (mac : Str → Str → List UInt8) (hmac : ∀ k m, (mac k m).length = 20)
    (t R x : Str) (h : saltToken mac t R = .ok x) :
    ∃ u s more, splitSlash x = sV2 :: u :: s :: more ∧ s.length = 40 ∧
      ∀ R', saltToken mac x R' = if R'.isPrefixOf u then .ok x else .error .salted := by
  obtain ⟨u, s, more, hsp, hx⟩ := saltToken_ok_inv mac t R x h
  have hu : '/' ∉ u := mem_splitSlash_noslash t u (by rw [hsp]; simp)
  rcases hx with ⟨_, rfl⟩ | ⟨hl, _, rfl⟩
  · have hsp' := splitSlash_saltedForm mac u s R hu
    have hl' : (hexStr (mac s R)).length = 40 := by rw [length_hexStr, hmac]
    refine ⟨u, _, [], hsp', hl', fun R' => ?_⟩
    rw [saltToken_of_split mac _ R' u _ [] hsp']
    simp [saltLen, hl']
  · refine ⟨u, s, more, hsp, hl, fun R' => ?_⟩
    rw [saltToken_of_split mac _ R' u s more hsp]
    simp [hl]

/-- A '/'-free secret longer than the digest's 40 hex characters that does not occur in the uuid
does not occur anywhere in the salted token. (Real secrets: about 50 characters of `[0-9a-z]`.) -/
theorem C19_secret_not_in_salted (mac : Str → Str → List UInt8) (u s R : Str)
    (hs : '/' ∉ s) (hlen : 40 < s.length) (hmac : (mac s R).length = 20) (hu : ¬ s <:+: u) :
    ¬ s <:+: saltedForm mac u s R := by
  intro h
  rcases infix_saltedForm mac s u s R hs h with h | h | h
  · have := h.length_le; simp [sV2] at this; omega
  · exact hu h
  · have := h.length_le; rw [length_hexStr, hmac] at this; omega

/-! ## Federation token provider -/

/-- Every token the provider hands to the RPC layer is, position by position, one of: the salted
form of an unsalted v2 token; a v2 token with a 40-character secret, as it is; a string that is
neither v2 nor legacy format, unchanged; a legacy token that the local cluster does not know (401)
or that belongs to the remote, unchanged; the salted form of the v2 rendering of a locally resolved
legacy token. Hence (20-byte MAC) nothing that is sent still needs salting. -/
theorem C19_forwarded_secret (mac : Str → Str → List UInt8) (R : Str) (lookup : Str → Lookup)
    (ts out : List Str) (h : provider mac R lookup (some ts) = .ok out) :
    Zip (Forwarded mac R lookup) ts out ∧ out.length = ts.length ∧
    ((∀ k m, (mac k m).length = 20) → ∀ o ∈ out, ¬ MustSalt o) := by
  have hz := provAll_ok mac R lookup ts out h
  refine ⟨hz, hz.length_eq.symm, fun hmac o ho => ?_⟩
  obtain ⟨t, _, hf⟩ := hz.right o ho
  exact hf.not_mustSalt hmac

/-- In particular: at the position of an unsalted v2 token stands exactly its salted form. -/
theorem C19_forwarded_v2 (mac : Str → Str → List UInt8) (R : Str) (lookup : Str → Lookup)
    (ts out : List Str) (h : provider mac R lookup (some ts) = .ok out)
    (i : Nat) (h1 : i < ts.length) (h2 : i < out.length) (u s : Str) (more : List Str)
    (hsp : splitSlash ts[i] = sV2 :: u :: s :: more) (hl : s.length ≠ 40) :
    out[i] = saltedForm mac u s R := by
  have hf := (provAll_ok mac R lookup ts out h).get i h1 h2
  cases hf with
  | salted u' s' more' hsp' _ ho =>
    rw [hsp] at hsp'; simp only [List.cons.injEq] at hsp'
    obtain ⟨_, rfl, rfl, _⟩ := hsp'; exact ho
  | already u' s' more' hsp' hl' _ =>
    rw [hsp] at hsp'; simp only [List.cons.injEq] at hsp'
    obtain ⟨_, _, rfl, _⟩ := hsp'; exact absurd hl' hl
  | nonArvados hv _ _ => exact absurd hsp (hv u s more)
  | legacyUnknown hv _ _ _ => exact absurd hsp (hv u s more)
  | legacyRemote hv _ _ _ _ _ _ => exact absurd hsp (hv u s more)
  | legacyLocal hv _ _ _ _ _ _ => exact absurd hsp (hv u s more)

/-- A legacy-format token whose local lookup fails with anything but 401 — 403 for a token that is
valid here but scoped, 5xx, an error without a status (500) — is never passed on: if such a token
is anywhere in the list, the provider returns an error and nothing is sent. -/
theorem C19_provider_refuses_on_lookup_error (mac : Str → Str → List UInt8) (R : Str)
    (lookup : Str → Lookup) (ts : List Str) (t : Str) (st : Nat) (hmem : t ∈ ts)
    (hv : ∀ u s more, splitSlash t ≠ sV2 :: u :: s :: more) (hob : isObsolete t = true)
    (hlk : lookup t = .error st) (hst : st ≠ 401) :
    ∀ out, provider mac R lookup (some ts) ≠ .ok out := by
  intro out h
  obtain ⟨o, _, hf⟩ := (provAll_ok mac R lookup ts out h).left t hmem
  cases hf with
  | salted u s more hsp _ _ => exact hv u s more hsp
  | already u s more hsp _ _ => exact hv u s more hsp
  | nonArvados _ hob' _ => rw [hob] at hob'; cases hob'
  | legacyUnknown _ _ hlk' _ => rw [hlk] at hlk'; cases hlk'; exact hst rfl
  | legacyRemote _ _ _ _ hlk' _ _ => rw [hlk] at hlk'; cases hlk'
  | legacyLocal _ _ _ _ hlk' _ _ => rw [hlk] at hlk'; cases hlk'

/-- One incoming request forwarded to several remote clusters (in any order, with repetitions): the
provider of the i-th remote answers from the caller's ORIGINAL credentials — what an earlier remote
was sent has no influence. In particular an unsalted v2 token at position j goes to the i-th remote
salted for THAT remote. -/
theorem C19_provider_history_free (mac : Str → Str → List UInt8) (lookup : Str → Lookup)
    (ts : List Str) (remotes : List Str) (i : Nat) (hi : i < remotes.length) :
    (provSeq mac lookup (some ts) remotes)[i]'(by simpa [provSeq] using hi) =
      provider mac remotes[i] lookup (some ts) ∧
    (∀ out j (h1 : j < ts.length) (h2 : j < out.length) u s more,
      provider mac remotes[i] lookup (some ts) = .ok out →
      splitSlash ts[j] = sV2 :: u :: s :: more → s.length ≠ 40 →
      out[j] = saltedForm mac u s remotes[i]) := by
  refine ⟨by simp [provSeq], ?_⟩
  intro out j h1 h2 u s more hp hsp hl
  exact C19_forwarded_v2 mac remotes[i] lookup ts out hp j h1 h2 u s more hsp hl

/-- Without credentials in the request context the provider fails; an error means no token (and
no request) goes out. -/
theorem C19_provider_no_credentials (mac : Str → Str → List UInt8) (R : Str) (lookup : Str → Lookup) :
    provider mac R lookup none = .error .noCreds := rfl

/-- Where `rpc.Conn` puts the provider's tokens on the outgoing request: the first one in
`Authorization: Bearer …`, the others in the `reader_tokens` parameter, nothing else; with no token
at all the placeholder `Bearer -`. So the credentials a receiver finds are exactly the provider's
list, and (20-byte MAC) none of them still needs salting. -/
theorem C19_rpc_placement (mac : Str → Str → List UInt8) (R : Str) (lookup : Str → Lookup)
    (ts out : List Str) (h : provider mac R lookup (some ts) = .ok out) :
    headerTokens (.plain (rpcAuthorization out)) ++ rpcReaderTokens out =
      (if out = [] then [['-']] else out) ∧
    ((∀ k m, (mac k m).length = 20) →
      ∀ t ∈ headerTokens (.plain (rpcAuthorization out)) ++ rpcReaderTokens out, ¬ MustSalt t) := by
  have hplace : headerTokens (.plain (rpcAuthorization out)) ++ rpcReaderTokens out =
      (if out = [] then [['-']] else out) := by
    cases out with
    | nil => simp [rpcAuthorization, rpcReaderTokens, headerTokens_bearer]
    | cons t rest => simp [rpcAuthorization, rpcReaderTokens, headerTokens_bearer]
  refine ⟨hplace, fun hmac t ht => ?_⟩
  rw [hplace] at ht
  by_cases ho : out = []
  · simp only [ho, if_true, List.mem_singleton] at ht
    subst ht
    rintro ⟨u, s, more, hsp, _⟩
    simp [splitSlash] at hsp
  · simp only [ho, if_false] at ht
    exact (C19_forwarded_secret mac R lookup ts out h).2.2 hmac t ht

/-- Tokens that are not in Arvados format (`Opaque`: neither `v2/<uuid>/<secret>…` nor
`[0-9a-z]{41,}` — OIDC access tokens, JWTs, anything else) are passed through unchanged by the
provider, at their position; keepstore refuses them (500, no request); the legacy path puts them
unchanged into the Authorization header unless the local database knows them (a `v2/x` one-slash
string is the panic case below). -/
theorem C19_opaque_passthrough (mac : Str → Str → List UInt8) (R : Str) (lookup : Str → Lookup)
    (db : Str → Option (Str × Str)) (t : Str) (h : Opaque t) :
    provOne mac R lookup t = .ok t ∧
    (∀ ts out i (h1 : i < ts.length) (h2 : i < out.length),
      provider mac R lookup (some ts) = .ok out → ts[i] = t → out[i] = t) ∧
    keepGet mac t R = .refused 500 ∧
    (sV2Slash.isPrefixOf t = false → db t = none → legacyToken mac R db t = .ok t) := by
  have hs := saltToken_opaque mac t R h
  refine ⟨by simp [provOne, hs], ?_, by simp [keepGet, keepRemoteToken, hs], ?_⟩
  · intro ts out i h1 h2 hp hti
    have hf := (provAll_ok mac R lookup ts out hp).get i h1 h2
    rw [hti] at hf
    cases hf with
    | salted u s more hsp _ _ => exact absurd hsp (h.1 u s more)
    | already u s more hsp _ _ => exact absurd hsp (h.1 u s more)
    | nonArvados _ _ ho => exact ho
    | legacyUnknown _ hob _ _ => rw [h.2] at hob; cases hob
    | legacyRemote _ hob _ _ _ _ _ => rw [h.2] at hob; cases hob
    | legacyLocal _ hob _ _ _ _ _ => rw [h.2] at hob; cases hob
  · intro hp hdb
    simp [legacyToken, hs, hp, resolveLocal, hdb]

/-! ## Legacy proxy path (saltAuthToken) -/

/-- Full strength, every request (any placement of any number of tokens in Authorization
OAuth2/Bearer/Basic, query string, cookie, form body; any other parameters; any content type): in the
request that is forwarded, none of the places from which the receiving cluster reads credentials —
Authorization header, `api_token` in the query string, the token cookie, `api_token` in a body
declared as a form — holds an unsalted v2 token. -/
theorem C19_legacy_request_clean (mac : Str → Str → List UInt8) (hmac : ∀ k m, (mac k m).length = 20)
    (R : Str) (db : Str → Option (Str × Str)) (r : Req) (f : Fwd)
    (h : saltAuthToken mac R db r = .fwd f) : ∀ t ∈ forwardedTokens r f, ¬ MustSalt t := by
  obtain ⟨toks, b, hfin, hstage⟩ := saltAuthToken_fwd mac R db r f h
  -- the body part of what is forwarded carries no api_token at all
  have hbody : bodyOutTokens r b = [] := by
    rcases hstage with ⟨hs, _, rfl⟩ | ⟨ts, nb, hs, _, rfl⟩
    · simp [bodyOutTokens, bodyTokens, bodyStage_skipped r hs]
    · obtain ⟨_, items, _, _, _, rfl⟩ := bodyStage_parsed r ts nb hs
      exact valuesOf_encodeOrder_dropKey _
  rcases finish_fwd mac R db r toks b f hfin with ⟨rfl, rfl⟩ | ⟨t0, rest, t', rfl, hl, _, rfl⟩
  · -- no credential found: everything is forwarded as it is, and holds no token
    have hreq : requestTokens r = [] := by
      rcases hstage with ⟨_, h2, _⟩ | ⟨ts, nb, _, h2, _⟩
      · exact h2.symm
      · exact (List.append_eq_nil_iff.mp h2.symm).1
    have hreq' : headerTokens r.auth ++ queryTokens r.query ++ cookieTokens r.cookie = [] := hreq
    intro t ht
    simp only [forwardedTokens, authOutTokens, queryOutTokens, cookieOutTokens, hbody, hreq',
      List.append_nil] at ht
    cases ht
  · intro t ht
    simp only [forwardedTokens, authOutTokens, cookieOutTokens, hbody, List.append_nil,
      headerTokens_bearer, queryOut_tokens r, List.mem_singleton] at ht
    subst ht
    exact legacyToken_ok_not_mustSalt mac hmac R db t0 _ hl

/-- What the rebuilt request looks like. `discovered r` is the credential list in the order of
discovery (header, query string, cookie, then the form body's first non-empty `api_token`). If it is
empty the headers and the URL are forwarded as they are. Otherwise, with an unsalted v2 token in
front: the Authorization header is exactly `Bearer v2/<uuid>/<hex mac(secret, remote)>` — whatever
the local database says —, the query string is re-encoded without `api_token` and the token cookie
is removed. -/
theorem C19_legacy_header (mac : Str → Str → List UInt8) (R : Str) (db : Str → Option (Str × Str))
    (r : Req) (f : Fwd) (h : saltAuthToken mac R db r = .fwd f) :
    (discovered r = [] → f.auth = .same ∧ f.query = .same ∧ f.cookie = .same) ∧
    (∀ t rest u s more, discovered r = t :: rest → splitSlash t = sV2 :: u :: s :: more →
      s.length ≠ 40 →
      f.auth = .set (sBearer ++ saltedForm mac u s R) ∧ f.query = queryOut r ∧ f.cookie = .stripped) := by
  obtain ⟨toks, b, hfin, hstage⟩ := saltAuthToken_fwd mac R db r f h
  have htoks : toks = discovered r := by
    rcases hstage with ⟨hs, h2, _⟩ | ⟨ts, nb, hs, h2, _⟩
    · simp [discovered, hs, h2]
    · simp [discovered, hs, h2]
  rcases finish_fwd mac R db r toks b f hfin with ⟨h0, rfl⟩ | ⟨t0, rest0, t', h0, hl, _, rfl⟩
  · refine ⟨fun _ => ⟨rfl, rfl, rfl⟩, fun t rest u s more hd => ?_⟩
    rw [← htoks, h0] at hd; cases hd
  · refine ⟨fun hd => ?_, fun t rest u s more hd hsp hlen => ?_⟩
    · rw [← htoks, h0] at hd; cases hd
    · rw [← htoks, h0] at hd
      simp only [List.cons.injEq] at hd
      obtain ⟨rfl, _⟩ := hd
      rw [legacyToken_mustSalt mac R db t0 u s more hsp hlen] at hl
      simp only [TokOut.ok.injEq] at hl
      subst hl
      exact ⟨rfl, rfl, rfl⟩

/-- A well-formed request whose first credential is an unsalted v2 token is always forwarded (no
error, no crash), in the shape of `C19_legacy_header`; this also shows that the hypotheses of the
two theorems above are satisfiable for every such request. -/
theorem C19_legacy_user_token_forwarded (mac : Str → Str → List UInt8) (R : Str)
    (db : Str → Option (Str × Str)) (r : Req) (t : Str) (rest : List Str) (u s : Str) (more : List Str)
    (hd : discovered r = t :: rest) (hsp : splitSlash t = sV2 :: u :: s :: more) (hlen : s.length ≠ 40)
    (hq : hasBad r.query = false)
    (hb : isFormType r.ctype = true → ∃ items, r.body = .form items ∧ hasBad items = false) :
    ∃ b, saltAuthToken mac R db r = .fwd ⟨.set (sBearer ++ saltedForm mac u s R), queryOut r, b, .stripped⟩ := by
  have hfin : ∀ b, finish mac R db r (t :: rest) b =
      .fwd ⟨.set (sBearer ++ saltedForm mac u s R), queryOut r, b, .stripped⟩ := by
    intro b
    simp [finish, legacyToken_mustSalt mac R db t u s more hsp hlen, hq]
  unfold saltAuthToken
  by_cases hc : isFormType r.ctype = true
  · obtain ⟨items, hbody, hbad⟩ := hb hc
    have hs : bodyStage r = .parsed (firstToken (goods items))
        (encodeOrder (dropKey apiTokenKey (goods items))) := by
      simp [bodyStage, hc, hbody, hbad]
    simp only [discovered, hs] at hd
    simp only [hs, hd]
    exact ⟨_, hfin _⟩
  · have hs : bodyStage r = .skipped := by simp [bodyStage, hc]
    simp only [discovered, hs, List.append_nil] at hd
    simp only [hs, hd]
    exact ⟨_, hfin _⟩

/-- Everything else is kept: the re-encoded query string / form body holds exactly the original
parameters other than `api_token`. -/
theorem C19_legacy_other_params_kept (kvs : List (Str × Str)) (kv : Str × Str) :
    kv ∈ encodeOrder (dropKey apiTokenKey kvs) ↔ kv ∈ kvs ∧ kv.1 ≠ apiTokenKey :=
  mem_encodeOrder_dropKey kv kvs

/-- Every placement named in the property is discovered: `Authorization: OAuth2 t`, `Bearer t`,
Basic with password `t`, `api_token=t` in the query string, the token cookie, and `api_token=t` as
the first `api_token` of a body declared as a form (with or without media-type parameters, any
method). -/
theorem C19_legacy_placements (t : Str) :
    headerTokens (.plain (sOAuth2 ++ ' ' :: t)) = [t] ∧
    headerTokens (.plain (sBearer ++ t)) = [t] ∧
    (∀ user, headerTokens (.basic user t) = [t]) ∧
    (∀ q, (apiTokenKey, t) ∈ goods q → t ∈ queryTokens q) ∧
    (t ≠ [] → cookieTokens (.token t) = [t]) ∧
    (∀ r items rest, isFormType r.ctype = true → r.body = .form items → hasBad items = false →
      valuesOf apiTokenKey (goods items) = t :: rest → t ≠ [] →
      ∃ nb, bodyStage r = .parsed [t] nb) := by
  refine ⟨headerTokens_oauth2 t, headerTokens_bearer t, fun _ => rfl, fun q hq => ?_, fun ht => ?_, ?_⟩
  · exact (mem_valuesOf apiTokenKey t (goods q)).mpr hq
  · simp [cookieTokens, ht]
  · intro r items rest hc hb hbad hv ht
    exact ⟨encodeOrder (dropKey apiTokenKey (goods items)),
      by simp [bodyStage, hc, hb, hbad, firstToken, hv, ht]⟩

/-- The index-out-of-range crash of `validateAPItoken` (`sp[2]`): it happens for exactly the
credentials of the form `v2/<x>` with no further '/', and only when such a credential is the first
one discovered; a crashed or failed call forwards nothing (`.panic`/`.err` carry no request). -/
theorem C19_legacy_panic (mac : Str → Str → List UInt8) (R : Str) (db : Str → Option (Str × Str)) :
    (∀ t, legacyToken mac R db t = .panic ↔ ∃ x, t = sV2Slash ++ x ∧ '/' ∉ x) ∧
    (∀ r, saltAuthToken mac R db r = .panic →
      ∃ t rest x, discovered r = t :: rest ∧ t = sV2Slash ++ x ∧ '/' ∉ x) := by
  refine ⟨legacyToken_panic_iff mac R db, fun r h => ?_⟩
  have hfin : ∀ toks b, finish mac R db r toks b = .panic →
      ∃ t rest x, toks = t :: rest ∧ t = sV2Slash ++ x ∧ '/' ∉ x := by
    intro toks b hf
    unfold finish at hf
    cases toks with
    | nil => cases hf
    | cons t rest =>
      simp only at hf
      cases hl : legacyToken mac R db t with
      | panic =>
        obtain ⟨x, hx⟩ := (legacyToken_panic_iff mac R db t).mp hl
        exact ⟨t, rest, x, rfl, hx⟩
      | err e => rw [hl] at hf; cases hf
      | ok t' => rw [hl] at hf; simp only at hf; split at hf <;> cases hf
  unfold saltAuthToken at h
  cases hs : bodyStage r with
  | failed => rw [hs] at h; cases h
  | unmodelled => rw [hs] at h; cases h
  | skipped =>
    rw [hs] at h
    obtain ⟨t, rest, x, h1, h2⟩ := hfin _ _ h
    exact ⟨t, rest, x, by simp [discovered, hs, h1], h2⟩
  | parsed ts nb =>
    rw [hs] at h
    obtain ⟨t, rest, x, h1, h2⟩ := hfin _ _ h
    exact ⟨t, rest, x, by simp [discovered, hs, h1], h2⟩

/-- The forwarding layers `remoteClusterRequest` and `proxy.Do`: a request is sent only for a
configured remote and only if `saltAuthToken` produced one; its credential-bearing parts
(Authorization, Cookie, query string, body) are exactly those of the rebuilt request — none of
these header names is among the hop-by-hop headers `proxy.Do` drops —, so (20-byte MAC) nothing the
receiver can read a credential from holds an unsalted v2 token; every other forwarded header is an
incoming non-credential header with its value, and the proxy headers are built from the incoming
X-Forwarded-For / X-Forwarded-Proto / Via values, the URL scheme and a literal. -/
theorem C19_legacy_wire (mac : Str → Str → List UInt8) (configured : Bool) (R : Str)
    (db : Str → Option (Str × Str)) (scheme : Str) (r : Req) (others : List (Str × Str)) (w : Wire)
    (h : remoteClusterRequest mac configured R db scheme r others = .sent w) :
    configured = true ∧ saltAuthToken mac R db r = .fwd w.fwd ∧
    (hAuthorization ∉ dropHeaders ∧ hCookie ∉ dropHeaders ∧ hContentType ∉ dropHeaders) ∧
    (∀ kv ∈ w.others, kv ∈ others ∧ kv.1 ∉ dropHeaders) ∧
    (w.xff = [] ∨ ∃ v, hdrGet hXFF others = some v ∧ w.xff = v ++ [',']) ∧
    (w.xfp = scheme ∨ hdrGet hXFP others = some w.xfp) ∧
    (w.via = [viaSuffix] ∨ ∃ v, hdrGet hVia others = some v ∧ w.via = [v, viaSuffix]) ∧
    ((∀ k m, (mac k m).length = 20) → ∀ t ∈ forwardedTokens r w.fwd, ¬ MustSalt t) := by
  obtain ⟨hc, hs, hw⟩ := remoteClusterRequest_sent mac configured R db scheme r others w h
  refine ⟨hc, hs, by decide, ?_, ?_, ?_, ?_, fun hmac => C19_legacy_request_clean mac hmac R db r w.fwd hs⟩
  · intro kv hkv
    rw [hw] at hkv
    simp only [proxyDo, List.mem_filter, Bool.and_eq_true, Bool.not_eq_true'] at hkv
    refine ⟨hkv.1, fun hm => ?_⟩
    have : dropHeaders.contains kv.1 = true := List.contains_iff_mem.mpr hm
    rw [this] at hkv
    exact absurd hkv.2.1.1.1 (by simp)
  · rw [hw]
    simp only [proxyDo]
    cases hg : hdrGet hXFF others with
    | none => exact Or.inl rfl
    | some v =>
      by_cases hv : v = []
      · simp [hv]
      · exact Or.inr ⟨v, rfl, by simp [hv]⟩
  · rw [hw]
    simp only [proxyDo]
    cases hg : hdrGet hXFP others with
    | none => exact Or.inl rfl
    | some v =>
      by_cases hv : v = []
      · simp [hv]
      · exact Or.inr (by simp [hv])
  · rw [hw]
    simp only [proxyDo]
    cases hg : hdrGet hVia others with
    | none => exact Or.inl rfl
    | some v => exact Or.inr ⟨v, rfl, rfl⟩

/-- An unconfigured remote is refused (404) before anything is looked at; an error or a crash of
`saltAuthToken` sends nothing. -/
theorem C19_legacy_wire_refusals (mac : Str → Str → List UInt8) (R : Str)
    (db : Str → Option (Str × Str)) (scheme : Str) (r : Req) (others : List (Str × Str)) :
    remoteClusterRequest mac false R db scheme r others = .notFound ∧
    (∀ e, saltAuthToken mac R db r = .err e →
      remoteClusterRequest mac true R db scheme r others = .err e) ∧
    (saltAuthToken mac R db r = .panic →
      remoteClusterRequest mac true R db scheme r others = .panic) := by
  refine ⟨by simp [remoteClusterRequest], fun e he => by simp [remoteClusterRequest, he],
    fun hp => by simp [remoteClusterRequest, hp]⟩

/-! ## keepstore -/

/-- The token keepstore uses towards cluster R is `SaltToken tok R`; if salting fails no request is
made (HTTP 400 for a legacy-format token, 500 otherwise); what is sent never needs salting. -/
theorem C19_keepstore_remote (mac : Str → Str → List UInt8) (t R : Str) :
    keepRemoteToken mac t R = saltToken mac t R ∧
    (∀ x, saltToken mac t R = .ok x →
      keepGet mac t R = .requests (sOAuth2sp ++ x) ∧ ((∀ k m, (mac k m).length = 20) → ¬ MustSalt x)) ∧
    (∀ e, saltToken mac t R = .error e →
      keepGet mac t R = .refused (if e = .obsolete then 400 else 500)) := by
  refine ⟨rfl, fun x hx => ⟨?_, fun hmac => not_mustSalt_of_saltToken_ok mac hmac t R x hx⟩, fun e he => ?_⟩
  · simp [keepGet, keepRemoteToken, hx]
  · cases e <;> simp [keepGet, keepRemoteToken, he]

/-- keepstore keeps no memory of tokens: in any sequence of `remoteClient` calls on one process
(any remotes, any tokens, any order, repetitions) the i-th answer is `SaltToken` of the i-th token
for the i-th remote — in particular a token already used with remote R1 is salted afresh, for R2,
when it is used with R2. -/
theorem C19_keepstore_history_free (mac : Str → Str → List UInt8) (steps : List (Str × Str))
    (i : Nat) (h : i < steps.length) :
    (keepSeq mac steps)[i]'(by simpa [keepSeq] using h) = saltToken mac steps[i].2 steps[i].1 := by
  simp [keepSeq, keepRemoteToken]

/-- A `Get` whose locator names several remote clusters sends the request through the client of
the last hint, and that client carries the token salted for THAT remote: for an unsalted v2 token
and hints `rs ++ [R]` the Authorization header is `OAuth2 v2/<uuid>/<hex mac(secret, R)>`; the same
holds for every request of a sequence (`keepGetSeq` is a plain `map`). -/
theorem C19_keepstore_hints (mac : Str → Str → List UInt8) (t u s : Str) (more : List Str)
    (hsp : splitSlash t = sV2 :: u :: s :: more) (hl : s.length ≠ 40) (rs : List Str) (R : Str) :
    keepGetHints mac t (rs ++ [R]) = .requests (sOAuth2sp ++ saltedForm mac u s R) := by
  have hsalt : ∀ r, keepRemoteToken mac t r = .ok (saltedForm mac u s r) := by
    intro r
    rw [keepRemoteToken, saltToken_of_split mac t r u s more hsp]
    simp [saltLen, hl]
  have aux : ∀ (l : List Str) (acc : Option Str),
      keepGetHintsAux mac t (l ++ [R]) acc = .requests (sOAuth2sp ++ saltedForm mac u s R) := by
    intro l
    induction l with
    | nil => intro acc; simp [keepGetHintsAux, hsalt]
    | cons r l ih => intro acc; simp [keepGetHintsAux, hsalt, ih]
  exact aux rs none

/-! ## Non-vacuity: the hypotheses are satisfiable by non-trivial instances -/

/-- a MAC with 20-byte output -/
def mac20 : Str → Str → List UInt8 := fun k m => List.replicate 20 (UInt8.ofNat (k.length + m.length))

example : ∀ k m, (mac20 k m).length = 20 := fun _ _ => by simp [mac20]

-- C19_salt_shape: a uuid and a secret without '/', with and without a tail
example : '/' ∉ "zhome-gj3su-000000000000000".toList ∧ '/' ∉ "3kg6k6lzmp9kj5cpkcoxie963cmvjahbt2fod9zru30k1jqdmi".toList ∧
    ("3kg6k6lzmp9kj5cpkcoxie963cmvjahbt2fod9zru30k1jqdmi".toList).length ≠ 40 := by decide
example : ∃ r, "/extra/segments".toList = '/' :: r := ⟨_, rfl⟩

-- C19_salt_other: strings that are not of the v2 shape, one legacy, one opaque
example : ∀ u s more, splitSlash "v2/abc".toList ≠ sV2 :: u :: s :: more := by
  intro u s more h; simp [splitSlash, sV2] at h
example : isObsolete ("0123456789abcdefghijklmnopqrstuvwxyz01234").toList = true := by decide
example : isObsolete "eyJhbGciOi".toList = false := by decide

-- C19_never_twice / C19_forwarded_secret: a token that salts
example : saltToken mac20 "v2/zhome-gj3su-000000000000000/secret".toList "zrmte".toList =
    .ok (saltedForm mac20 "zhome-gj3su-000000000000000".toList "secret".toList "zrmte".toList) := by
  rw [saltToken_of_split mac20 _ _ "zhome-gj3su-000000000000000".toList "secret".toList []
    (by simp [splitSlash, sV2])]
  simp [saltLen]

-- C19_forwarded_secret: a provider run with one v2 token, one opaque token, one legacy token (401)
example : provider mac20 "zrmte".toList (fun _ => .error 401)
    (some ["v2/u/s".toList, "opaque".toList, "0123456789abcdefghijklmnopqrstuvwxyz01234".toList]) =
    .ok [saltedForm mac20 "u".toList "s".toList "zrmte".toList, "opaque".toList,
         "0123456789abcdefghijklmnopqrstuvwxyz01234".toList] := by
  simp only [provider, provAll, provOne]
  rw [saltToken_of_split mac20 "v2/u/s".toList _ "u".toList "s".toList [] (by simp [splitSlash, sV2])]
  rw [saltToken_not_v2 mac20 "opaque".toList _ (by intro u s more h; simp [splitSlash] at h)]
  rw [saltToken_not_v2 mac20 "0123456789abcdefghijklmnopqrstuvwxyz01234".toList _
    (by intro u s more h; simp [splitSlash] at h)]
  have h1 : isObsolete "opaque".toList = false := by decide
  have h2 : isObsolete "0123456789abcdefghijklmnopqrstuvwxyz01234".toList = true := by decide
  have h3 : "s".toList.length ≠ saltLen := by decide
  simp only [h1, h2, if_pos h3, if_true, Bool.false_eq_true, if_false]

-- C19_provider_refuses_on_lookup_error: a legacy token, a 403 lookup
example : (∀ u s more, splitSlash "0123456789abcdefghijklmnopqrstuvwxyz01234".toList ≠ sV2 :: u :: s :: more) ∧
    isObsolete "0123456789abcdefghijklmnopqrstuvwxyz01234".toList = true ∧ (403 : Nat) ≠ 401 :=
  ⟨by intro u s more h; simp [splitSlash] at h, by decide, by decide⟩

-- C19_keepstore_history_free / C19_keepstore_hints: the same token with two remotes in sequence
example : keepSeq mac20 [("z1111".toList, "v2/u/s".toList), ("z2222".toList, "v2/u/s".toList)] =
    [.ok (saltedForm mac20 "u".toList "s".toList "z1111".toList),
     .ok (saltedForm mac20 "u".toList "s".toList "z2222".toList)] := by
  have h := fun R => saltToken_of_split mac20 "v2/u/s".toList R "u".toList "s".toList []
    (by simp [splitSlash, sV2])
  have h3 : "s".toList.length ≠ saltLen := by decide
  simp only [keepSeq, List.map, keepRemoteToken, h, if_pos h3]

-- C19_opaque_passthrough / C19_legacy_panic: an OIDC-like token is Opaque; `v2/abc` is the panic shape
example : Opaque "eyJhbGciOiJSUzI1NiJ9.payload.sig".toList :=
  ⟨by intro u s more h; simp [splitSlash] at h, by decide⟩
example : ∃ x, "v2/abc".toList = sV2Slash ++ x ∧ '/' ∉ x := ⟨"abc".toList, by decide, by decide⟩

-- C19_secret_not_in_salted: a 50-character secret that does not occur in the uuid
example : '/' ∉ "3kg6k6lzmp9kj5cpkcoxie963cmvjahbt2fod9zru30k1jqdmi".toList ∧
    40 < "3kg6k6lzmp9kj5cpkcoxie963cmvjahbt2fod9zru30k1jqdmi".toList.length := by decide

-- C19_legacy_*: the F7 witness (token only in a form body) satisfies the hypotheses of
-- C19_legacy_user_token_forwarded, so it is forwarded with a salted header and a stripped body
def witnessF7 : Req :=
  { postLike := true, auth := .absent, query := [], cookie := .absent, ctype := some formCT,
    body := .form [.good "b".toList "2".toList, .good apiTokenKey "v2/u/secret".toList, .good "a".toList "1".toList] }

example : isFormType witnessF7.ctype = true := by decide
example : discovered witnessF7 = ["v2/u/secret".toList] := by decide
example : ∃ b, saltAuthToken mac20 "zrmte".toList (fun _ => none) witnessF7 =
    .fwd ⟨.set (sBearer ++ saltedForm mac20 "u".toList "secret".toList "zrmte".toList),
      queryOut witnessF7, b, .stripped⟩ :=
  C19_legacy_user_token_forwarded mac20 _ _ witnessF7 "v2/u/secret".toList [] "u".toList
    "secret".toList [] (by decide) (by decide) (by decide) (by decide) (fun _ => ⟨_, rfl, by decide⟩)

-- C19_legacy_wire: the F7 witness goes out on the wire with one dropped and one kept header
example : ∃ w, remoteClusterRequest mac20 true "zrmte".toList (fun _ => none) "https".toList witnessF7
    [("Connection".toList, "close".toList), ("Accept".toList, "*/*".toList)] = .sent w ∧
    w.others = [("Accept".toList, "*/*".toList)] := by
  obtain ⟨b, hb⟩ := C19_legacy_user_token_forwarded mac20 "zrmte".toList (fun _ => none) witnessF7
    "v2/u/secret".toList [] "u".toList "secret".toList [] (by decide) (by decide) (by decide) (by decide)
    (fun _ => ⟨_, rfl, by decide⟩)
  refine ⟨_, by simp only [remoteClusterRequest, hb]; rfl, ?_⟩
  show List.filter _ _ = _
  decide

-- the media types of the F19c witnesses are recognised, the misspelt one of F7 is not a form
example : isFormType (some "application/x-www-form-urlencoded; charset=utf-8".toList) = true := by decide
example : isFormType (some " Application/X-WWW-Form-URLencoded ;x".toList) = true := by decide
example : isFormType (some "application/x-www-form-urlencoded; a=1; a=2".toList) = true := by decide
example : isFormType (some "application/x-www-form-encoded".toList) = false := by decide
example : isFormType (some "text/plain; application/x-www-form-urlencoded".toList) = false := by decide
example : isFormType none = false := by decide

end ArvVerif.C19
