/-
C09 — property theorems about the goroutine protocol of a synchronous flush
(contextgroup.go, throttle.go, the channel/throttle protocol of `dirnode.commitBlock`;
Model/C09_Conc.lean). They connect the scheduler-level behaviour of the code to the outcome scripts
all other C09 theorems quantify over:

* `C09_throttle_balanced` — every slot taken is given back, on every path, under every schedule;
* `C09_flush_no_deadlock` — no schedule blocks or runs for ever; quiescence is always reachable;
* `C09_flush_quiescent` — when nothing can move any more: no segment is left with an open `flushing`
  channel (the next save's `waitPrune` returns), every slot is free, `Wait` is enabled;
* `C09_wait_first_error` — `Wait` is a barrier and returns the FIRST recorded error, nil exactly when
  every block write was acknowledged;
* `C09_schedule_outcomes` — every complete run amounts to an outcome script (`ok`/`fail`/`skip` per
  group) of the kind `commitGroups`/`flushFilesK` consume, with "skip only after a failure", and the
  flush's error flag under that script is `Wait`'s result.

For every capacity ≥ 1, every number of groups, every number of background writers ≤ capacity, every
Keep answer script, every schedule (any interleaving of the micro-steps, parent cancellation at any
time).
-/
import ArvVerif.Proofs.C09_Conc2
import ArvVerif.Proofs.C09_Flush
namespace ArvVerif.C09

open Conc
open ArvVerif.C08 (FileNode AllWF)

/-- **Acquire/Release balance.** In every reachable state the throttle holds exactly the background
writers plus the tasks between `Acquire` and `Release`, never more than its capacity; once the
WaitGroup is at zero (what `Wait` waits for) the flush holds no slot at all — also after failed and
skipped writes. -/
theorem C09_throttle_balanced (cap n bg : Nat) (script : List Bool) (dflt : Bool) (hbg : bg ≤ cap) (s : CS)
    (h : Reach cap (init n bg script dflt) s) :
    s.inUse = s.bg + nHold s.pcs ∧ s.inUse ≤ cap ∧ (s.pcs.all PC.done = true → s.inUse = s.bg) := by
  have hi := reach_tinv (TInv.init n bg script dflt hbg) h
  refine ⟨hi.use, hi.le, fun hd => ?_⟩
  have := nHold_of_done s.pcs hd
  have := hi.use
  omega

/-- **No deadlock, no livelock.** From every reachable state: (1) while some task is not quiet, a
goroutine of the flush or a background writer can move (never only the environment); (2) every run
from here has at most `mu s` steps, and `mu` of the initial state is `9·n + bg + 1`; (3) hence
quiescence is reachable. -/
theorem C09_flush_no_deadlock (cap n bg : Nat) (script : List Bool) (dflt : Bool) (hcap : 1 ≤ cap) (hbg : bg ≤ cap)
    (s : CS) (h : Reach cap (init n bg script dflt) s) :
    (s.pcs.all PC.quiet = false → ∃ a, a.own = true ∧ (step cap s a).isSome = true) ∧
    (∀ acts u, runAll cap s acts = some u → acts.length + mu u ≤ mu s) ∧
    mu (init n bg script dflt) = 9 * n + bg + 1 ∧
    (∃ u, Reach cap s u ∧ u.pcs.all PC.quiet = true) := by
  have hi := reach_tinv (TInv.init n bg script dflt hbg) h
  refine ⟨progress hcap hi, fun acts u => runAll_mu acts s u, ?_, reach_quiet hcap (mu s) s (Nat.le_refl _) hi⟩
  have : ∀ n, sumF PC.rank (List.replicate n PC.idle) = 9 * n := by
    intro n; induction n with
    | zero => rfl
    | succ n ih =>
      simp only [sumF, List.replicate_succ, List.map_cons, List.sum_cons] at ih ⊢
      rw [ih]; simp only [PC.rank]; omega
  simp [mu, Conc.init, this]

/-- **Quiescence.** A reachable state in which no goroutine of the flush and no background writer
can move (the end of every maximal run): every task was dropped by `Go` or has finished AND closed
its `done` channel — so no segment keeps an open `flushing` channel and `waitPrune` of the next save
returns —, every slot of the throttle is free, and `Wait` is enabled. -/
theorem C09_flush_quiescent (cap n bg : Nat) (script : List Bool) (dflt : Bool) (hcap : 1 ≤ cap) (hbg : bg ≤ cap)
    (s : CS) (h : Reach cap (init n bg script dflt) s) (hmax : ∀ a, a.own = true → step cap s a = none) :
    s.pcs.all PC.quiet = true ∧ (∀ p ∈ s.pcs, p.chanOpen = false) ∧ s.inUse = 0 ∧ (wait s).isSome = true := by
  have hi := reach_tinv (TInv.init n bg script dflt hbg) h
  have hq : s.pcs.all PC.quiet = true := by
    cases hq : s.pcs.all PC.quiet with
    | true => rfl
    | false =>
      obtain ⟨a, ha, hs⟩ := progress hcap hi hq
      rw [hmax a ha] at hs; cases hs
  have hd := done_of_quiet s.pcs hq
  refine ⟨hq, chanClosed_of_quiet hq, ?_, by simp [wait, hd]⟩
  have hb : s.bg = 0 := by
    have := hmax Act.bgRelease rfl
    simp only [step] at this
    split at this
    · cases this
    · omega
  have := nHold_of_done s.pcs hd
  have := hi.use
  omega

/-- **`Wait`: barrier, first error.** In every reachable state: (1) `Wait` returns only when every
func started by `Go` has returned and been accounted (none holds a slot or is inside PutB); (2) a
recorded error is the error of a task that has finished, and while none is recorded every finished
task returned nil; (3) once recorded the error never changes (the first one wins); (4) `Wait`
returns nil exactly when every group's write was acknowledged and the parent did not cancel. -/
theorem C09_wait_first_error (cap n bg : Nat) (script : List Bool) (dflt : Bool) (s : CS)
    (h : Reach cap (init n bg script dflt) s) :
    (∀ r, wait s = some r → ∀ p ∈ s.pcs, p.done = true ∧ p.holding = false) ∧
    (∀ i, s.cgErr = some i → ∃ o c, s.pcs[i]? = some (PC.finished o c) ∧ o ≠ Outcome.ok) ∧
    (s.cgErr = none → ∀ (j : Nat) (o : Outcome) (c : Bool), s.pcs[j]? = some (PC.finished o c) → o = Outcome.ok) ∧
    (∀ i u, s.cgErr = some i → Reach cap s u → u.cgErr = some i) ∧
    (∀ r, wait s = some r → (r = WaitRes.nil ↔ (∀ o ∈ outs s, o = Outcome.ok) ∧ s.ext = false)) := by
  have he := reach_einv (EInv.init n bg script dflt) h
  refine ⟨?_, fun i hi => (he.errSome i hi).2, he.errNone, fun i u hi hu => reach_cgErr hu hi, ?_⟩
  · intro r hr p hp
    simp only [wait] at hr
    split at hr
    · next hd =>
      have := List.all_eq_true.mp hd p hp
      refine ⟨this, ?_⟩
      cases p <;> simp [PC.done] at this <;> rfl
    · cases hr
  · intro r hr
    simp only [wait] at hr
    split at hr
    · next hd =>
      simp only [Option.some.injEq] at hr
      rw [outs, allOutsOk_iff s.pcs hd]
      constructor
      · intro hnil
        subst hnil
        cases hce : s.cgErr with
        | some i => rw [hce] at hr; cases hr
        | none =>
          rw [hce] at hr
          have hc : s.cancelled = false := by
            cases hcc : s.cancelled with
            | false => rfl
            | true => simp [hcc] at hr
          refine ⟨?_, ?_⟩
          · intro j p hj
            have hdn := all_done_get hd hj
            cases p <;> simp [PC.done] at hdn
            · have := he.dropC j hj; rw [hce] at this; cases this
            · next o c => have := he.errNone hce j o c hj; subst this; exact ⟨c, rfl⟩
          · cases hx : s.ext with
            | false => rfl
            | true => have := he.extC hx; rw [hc] at this; cases this
      · intro ⟨hall, hx⟩
        cases hce : s.cgErr with
        | some i =>
          obtain ⟨_, o, c, hi, ho⟩ := he.errSome i hce
          obtain ⟨c', hp⟩ := hall i _ hi
          cases hp; exact absurd rfl ho
        | none =>
          rw [hce] at hr
          cases hcc : s.cancelled with
          | false => simp [hcc] at hr; exact hr.symm
          | true =>
            rcases he.why hcc with hx' | ⟨j, c, hj⟩
            · rw [hx] at hx'; cases hx'
            · obtain ⟨c', hp⟩ := hall j _ hj; cases hp
    · cases hr

theorem allOk_of_script : ∀ (l : List Outcome) (k : Keep), k.script = l → allOk l.length k = l.all (· == Outcome.ok)
  | [], k, _ => rfl
  | o :: l, k, h => by
    have hn : k.next = (o, { k with script := l }) := by simp only [Keep.next, h]
    simp only [List.length_cons, allOk, hn, List.all_cons]
    rw [allOk_of_script l { k with script := l } rfl]

/-- **Every schedule amounts to an outcome script.** When `Wait` returns `r` after any run, the
per-group outcomes `outs s` (`ok` = written and acknowledged, segments replaced; `fail` = PutB
failed; `skip` = the write was never attempted) satisfy: one entry per group; a `skip` occurs only
when the parent cancelled or some write of this flush failed; and for a Keep whose script is that
list, the model's `flushFilesK` (which every other C09 theorem is about, for EVERY script) reports
"no error" exactly when `Wait` returned nil. -/
theorem C09_schedule_outcomes (cap n bg : Nat) (script : List Bool) (dflt : Bool) (s : CS)
    (h : Reach cap (init n bg script dflt) s) (r : WaitRes) (hw : wait s = some r) :
    (outs s).length = n ∧
    (∀ o ∈ outs s, o = Outcome.skip → s.ext = true ∨ Outcome.fail ∈ outs s) ∧
    (s.ext = false → ∀ {hash : Bytes → C08.Loc} {max : Nat} (k : Keep) (files : List FileNode) (short : Bool),
      Function.Injective hash → KeepOK hash k → AllWF max hash k.store files →
      (C08.flushGroups max short files).length = n → k.script = outs s →
      ((flushFilesK hash max k files short).2.2 = true ↔ r = WaitRes.nil)) := by
  have he := reach_einv (EInv.init n bg script dflt) h
  have hlen : s.pcs.length = n := by rw [reach_len h]; simp [Conc.init]
  have hd : s.pcs.all PC.done = true := by
    simp only [wait] at hw
    split at hw
    · assumption
    · cases hw
  refine ⟨by simp [outs, hlen], ?_, ?_⟩
  · intro o ho hskip
    subst hskip
    obtain ⟨p, hp, hpo⟩ := List.mem_map.mp ho
    obtain ⟨j, hj⟩ := List.getElem?_of_mem hp
    have hdn := all_done_get hd hj
    have hcan : s.cancelled = true := by
      cases p <;> simp [PC.done] at hdn
      · obtain ⟨i, hi⟩ := Option.isSome_iff_exists.mp (he.dropC j hj)
        exact (he.errSome i hi).1
      · next o c =>
        simp only [PC.out] at hpo; subst hpo
        exact (he.skipC j c (Or.inr hj)).2
    rcases he.why hcan with hx | ⟨i, c, hi⟩
    · exact Or.inl hx
    · exact Or.inr (List.mem_map.mpr ⟨_, List.mem_of_getElem? hi, rfl⟩)
  · intro hx hash max k files short hinj hk hwf hg hs
    have hflag := (flushFilesK_spec (max := max) hinj hk files hwf short).2.2.2
    rw [hflag, hg]
    have hn : n = (outs s).length := by simp [outs, hlen]
    rw [hn, allOk_of_script (outs s) k hs]
    have h5 := (C09_wait_first_error cap n bg script dflt s h).2.2.2.2 r hw
    rw [h5]
    simp only [List.all_eq_true, beq_iff_eq, hx, and_true]

/-! ## Non-vacuity -/

/-- three groups, one writer slot, the first write fails while the other two wait in `Acquire`:
they still write (no second context check), `Wait` returns the first task's error, all slots are
free and no channel stays open -/
def exSched : List Act :=
  [.spawn 0, .spawn 1, .spawn 2, .check 0, .check 1, .check 2, .acquire 0, .acquire 1, .putb 0, .release 0, .ret 0,
   .finish 0, .acquire 1, .putb 1, .release 1, .acquire 2, .ret 1, .finish 1, .closeDone 0, .closeDone 1,
   .putb 2, .release 2, .ret 2, .closeDone 2, .finish 2]

def exRun1 : CS := runSched 1 (init 3 0 [false] true) exSched

example : wait exRun1 = some (WaitRes.taskErr 0) ∧ outs exRun1 = [Outcome.fail, Outcome.ok, Outcome.ok] ∧
    exRun1.inUse = 0 ∧ exRun1.pcs.all PC.quiet = true ∧ exRun1.log.reverse = [(0, false), (1, true), (2, true)] := by
  decide

/-- a group spawned after the error was recorded is dropped by `Go`; one that checks the context
after the cancellation skips its write without making a channel; a background writer keeps its slot -/
def exRun2 : CS := runSched 2 (init 3 1 [false] true)
  [.spawn 0, .spawn 1, .check 0, .acquire 0, .putb 0, .release 0, .ret 0, .finish 0, .spawn 2, .check 1, .finish 1,
   .closeDone 0]

example : wait exRun2 = some (WaitRes.taskErr 0) ∧ outs exRun2 = [Outcome.fail, Outcome.skip, Outcome.skip] ∧
    exRun2.inUse = 1 ∧ exRun2.bg = 1 ∧ exRun2.pcs.all PC.quiet = true ∧ exRun2.log = [(0, false)] := by decide

/-- all writes acknowledged, parent cancels late: `Wait` returns the context's error although every outcome is ok -/
def exRun3 : CS := runSched 4 (init 1 0 [] true)
  [.spawn 0, .check 0, .extCancel, .acquire 0, .putb 0, .release 0, .ret 0, .finish 0]

example : wait exRun3 = some WaitRes.ctxErr ∧ outs exRun3 = [Outcome.ok] := by decide

/-- `Wait` is not enabled while a write is in flight -/
example : wait (runSched 4 (init 2 0 [] true) [.spawn 0, .spawn 1, .check 0, .check 1, .acquire 0, .acquire 1, .putb 0,
    .release 0, .ret 0, .finish 0]) = none := by decide

/-- the hypotheses of the theorems are met by these runs (they are reachable); the first `acquire 1` of
`exSched` is the blocked `Acquire` (slot taken), which `runSched` skips -/
example : Reach 1 (init 3 0 [false] true) exRun1 := by
  have : runAll 1 (init 3 0 [false] true) (exSched.erase (.acquire 1)) = some exRun1 := by decide
  exact runAll_reach _ _ _ this

end ArvVerif.C09
