/-
C07 — block signatures verify only for the exact hash, token, expiry and key.
Property theorems only (helpers are in Proofs/C07*.lean). Every theorem is for an arbitrary MAC
`mac : key → message → digest`; the last section instantiates the theorems that need a 20-byte
digest with the executable HMAC-SHA1 (`hmacSha1`), for which that hypothesis is proved.
Time: `nowNs` is the clock (ns since the epoch) read by `VerifySignature`; an expiry of `t` whole
seconds has passed iff `t·10⁹ < nowNs` (`time.Unix(t,0).Before(now)`), so a signature is still good
*during* the whole-second instant `t·10⁹` itself and expired from the next nanosecond on.
-/
import ArvVerif.Proofs.C07_Perturb
import ArvVerif.Proofs.C07_Manifest
import ArvVerif.Proofs.C07_Serve
import ArvVerif.Proofs.C07_Hmac
import ArvVerif.Proofs.C07_Ruby
namespace ArvVerif.C07
variable (mac : Str → Str → List UInt8)

/-! ### what is signed -/

/-- `SignLocator` appends `+A<sig>@<expiry>` where `<expiry>` is `%08x` of the Unix time and
`<sig>` is the lowercase hex of the MAC, under the key, of exactly
`hash@token@expiry-hex@ttl-hex` (hash = text before the first `+`; ttl = whole seconds, base 16).
Without key or token the locator is returned untouched. -/
theorem C07_message_format (loc tok key : Str) (exp ttlNs : Int) :
    signLocator mac loc tok exp ttlNs key =
      if key = [] ∨ tok = [] then loc
      else loc ++ ['+', 'A'] ++
        hexOfDigest (mac key (hashPart loc ++ ['@'] ++ tok ++ ['@'] ++ fmt08x exp ++ ['@'] ++
          intHex (ttlSeconds ttlNs))) ++ ['@'] ++ fmt08x exp := by
  cases key <;> cases tok <;>
    simp [signLocator, sigHint, makePermSignature, sigMessage, ttlHex, List.append_assoc]

/-- The signature text is 40 lowercase hex digits whenever the MAC yields 20 bytes. -/
theorem C07_signature_is_lowercase_hex (hmac : ∀ k m, (mac k m).length = 20)
    (hash tok e l key : Str) :
    (makePermSignature mac hash tok e l key).length = 40 ∧
      (makePermSignature mac hash tok e l key).all isLowerHex = true :=
  makePermSignature_shape mac hmac hash tok e l key

/-- Go and the API server (blob.rb `sign_locator`, transcribed as `Ref.signLocator`) produce the
same signed locator for every expiry from 2²⁸ (1978) on — below that Go zero-pads the expiry and
Ruby does not — and every non-negative TTL (`ttlSecs` whole seconds plus a sub-second rest). -/
theorem C07_same_as_api_server (loc tok key : Str) (exp ttlSecs frac : Nat)
    (hk : key ≠ []) (ht : tok ≠ []) (hexp : 2 ^ 28 ≤ exp) (hfrac : frac < 1000000000) :
    signLocator mac loc tok (exp : Int) ((ttlSecs : Int) * 1000000000 + frac) key =
      Ref.signLocator mac loc tok exp ttlSecs key := by
  have httl : ttlSeconds ((ttlSecs : Int) * 1000000000 + frac) = (ttlSecs : Int) := by
    unfold ttlSeconds
    rw [Int.tdiv_eq_ediv_of_nonneg (by omega)]
    omega
  have hi : intHex (ttlSecs : Int) = natHex ttlSecs := by simp [intHex]
  have hke : key.isEmpty = false := by cases key <;> simp_all
  have hte : tok.isEmpty = false := by cases tok <;> simp_all
  simp [signLocator, hke, hte, sigHint, makePermSignature, sigMessage, ttlHex, httl, hi,
    fmt08x_eq_natHex hexp, Ref.signLocator, Ref.signLocatorTs, Ref.generateSignature, Ref.message,
    hashPart, List.append_assoc]

example : (2 : Nat) ^ 28 ≤ 0x6ab35692 ∧ (1209600 : Int) * 1000000000 + 0 = 1209600000000000 := by decide

/-- The MAC input can be taken apart again: for 32-character hashes and 8-character expiries two
inputs are equal only if hash, token, expiry and the TTL's whole seconds are all equal (also for
tokens that contain `@` or `+`). So "changing the token, the TTL, the hash or the expiry" always
changes what is fed to the MAC. -/
theorem C07_message_injective {h h' t t' e e' : Str} {ttl ttl' : Int}
    (hh : h.length = 32) (hh' : h'.length = 32) (he : e.length = 8) (he' : e'.length = 8)
    (hm : sigMessage h t e (ttlHex ttl) = sigMessage h' t' e' (ttlHex ttl')) :
    h = h' ∧ t = t' ∧ e = e' ∧ ttlSeconds ttl = ttlSeconds ttl' := by
  obtain ⟨a, b, c, d⟩ := sigMessage_injective (hh.trans hh'.symm) (he.trans he'.symm)
    (ttlHex_free_at ttl) (ttlHex_free_at ttl') hm
  exact ⟨a, b, c, ttlHex_eq_iff.mp d⟩

example : sigMessage ['a'] ['x', '@', 'y'] ['1'] ['f'] = ['a', '@', 'x', '@', 'y', '@', '1', '@', 'f'] := by
  decide

/-! ### verification -/

/-- `VerifySignature` returns nil exactly when the string is a locator of the grammar
(hash, optional size, hints, one `+A<40 hex>@<8 hex>`, hints), its expiry has not passed, and its
signature text equals the MAC text for (hash, presented token, expiry as written, TTL, key). -/
theorem C07_verify_iff_mac (s tok key : Str) (ttlNs nowNs : Int) :
    verifySignature mac s tok ttlNs key nowNs = .ok ↔
      ∃ hash sig e, ∃ t : Nat, IsSignedLocator s hash sig e ∧ hexNat? e 0 = some t ∧
        nowNs ≤ (t : Int) * 1000000000 ∧
        sig = makePermSignature mac hash tok e (ttlHex ttlNs) key := by
  constructor
  · intro hok
    cases hm : matchSigned s with
    | none => rw [verify_of_no_match mac hm] at hok; simp at hok
    | some p =>
      obtain ⟨hash, sig, e⟩ := p
      obtain ⟨t, _, ht, hv⟩ := verify_of_matchSigned mac hm tok ttlNs key nowNs
      rw [hok] at hv
      refine ⟨hash, sig, e, t, isSignedLocator_of_matchSigned hm, ht, ?_, ?_⟩
      · apply Int.not_lt.mp; intro h; simp [verdictOf, h] at hv
      · apply Classical.byContradiction; intro h
        unfold verdictOf at hv
        split at hv
        · simp at hv
        · simp at hv
  · rintro ⟨hash, sig, e, t, hs, ht, hnow, hsig⟩
    obtain ⟨t', _, ht', hv⟩ := verify_of_isSignedLocator mac hs tok ttlNs key nowNs
    have : t' = t := by rw [ht] at ht'; exact (Option.some.inj ht').symm
    subst this
    rw [hv, verdictOf, if_neg (Int.not_lt.mpr hnow), if_neg (by simpa using hsig)]

/-- The three error classes. `missing` iff the grammar does not match; a well-formed locator
whose expiry has passed is `expired` whatever its signature, token or key; `invalid` iff
well-formed, unexpired and the signature text is not the MAC text. -/
theorem C07_verdict_classes (s tok key : Str) (ttlNs nowNs : Int) :
    (verifySignature mac s tok ttlNs key nowNs = .missing ↔
      ¬ ∃ hash sig e, IsSignedLocator s hash sig e) ∧
    (verifySignature mac s tok ttlNs key nowNs = .expired ↔
      ∃ hash sig e, ∃ t : Nat, IsSignedLocator s hash sig e ∧ hexNat? e 0 = some t ∧
        (t : Int) * 1000000000 < nowNs) ∧
    (verifySignature mac s tok ttlNs key nowNs = .invalid ↔
      ∃ hash sig e, ∃ t : Nat, IsSignedLocator s hash sig e ∧ hexNat? e 0 = some t ∧
        nowNs ≤ (t : Int) * 1000000000 ∧
        sig ≠ makePermSignature mac hash tok e (ttlHex ttlNs) key) := by
  cases hm : matchSigned s with
  | none =>
    have hno : ¬ ∃ hash sig e, IsSignedLocator s hash sig e := by
      rintro ⟨hash, sig, e, h⟩
      rw [matchSigned_of_isSignedLocator h] at hm; simp at hm
    rw [verify_of_no_match mac hm]
    refine ⟨by simp [hno], ?_, ?_⟩
    · constructor
      · intro h; simp at h
      · rintro ⟨hash, sig, e, _, h, _⟩; exact absurd ⟨hash, sig, e, h⟩ hno
    · constructor
      · intro h; simp at h
      · rintro ⟨hash, sig, e, _, h, _⟩; exact absurd ⟨hash, sig, e, h⟩ hno
  | some p =>
    obtain ⟨hash, sig, e⟩ := p
    have hs := isSignedLocator_of_matchSigned hm
    obtain ⟨t, _, ht, hv⟩ := verify_of_matchSigned mac hm tok ttlNs key nowNs
    have huniq : ∀ {hash' sig' e' : Str} {t' : Nat}, IsSignedLocator s hash' sig' e' →
        hexNat? e' 0 = some t' → hash' = hash ∧ sig' = sig ∧ e' = e ∧ t' = t := by
      intro hash' sig' e' t' h' ht'
      have := matchSigned_of_isSignedLocator h'
      rw [hm] at this
      simp only [Option.some.injEq, Prod.mk.injEq] at this
      obtain ⟨rfl, rfl, rfl⟩ := this
      rw [ht] at ht'
      exact ⟨rfl, rfl, rfl, (Option.some.inj ht').symm⟩
    rw [hv]
    refine ⟨?_, ?_, ?_⟩
    · constructor
      · intro h; exact absurd h (verdictOf_ne_missing _ _ _ _)
      · intro h; exact absurd ⟨hash, sig, e, hs⟩ h
    · constructor
      · intro h
        refine ⟨hash, sig, e, t, hs, ht, ?_⟩
        apply Classical.byContradiction; intro hn
        unfold verdictOf at h; rw [if_neg hn] at h
        split at h <;> simp at h
      · rintro ⟨hash', sig', e', t', h', ht', hlt⟩
        obtain ⟨rfl, rfl, rfl, rfl⟩ := huniq h' ht'
        simp [verdictOf, hlt]
    · constructor
      · intro h
        unfold verdictOf at h
        split at h
        · simp at h
        · rename_i hn
          split at h
          · rename_i hne; exact ⟨hash, sig, e, t, hs, ht, Int.not_lt.mp hn, hne⟩
          · simp at h
      · rintro ⟨hash', sig', e', t', h', ht', hle, hne⟩
        obtain ⟨rfl, rfl, rfl, rfl⟩ := huniq h' ht'
        simp [verdictOf, Int.not_lt.mpr hle, hne]

/-- Sign, then verify. For a well-formed unsigned locator (hash, optional size, hints), non-empty
key and token, an expiry in [0, 2³²) and a 20-byte MAC: the signed locator — also with further
hints appended after the signature — verifies with the same token, key and TTL (same whole
seconds) iff the expiry has not passed, and is reported as expired otherwise. -/
theorem C07_verify_sign {loc hash tok key : Str} {exp ttlNs ttlNs' nowNs : Int} {hs2 : List Str}
    (hloc : IsUnsignedLocator loc hash) (hk : key ≠ []) (ht : tok ≠ [])
    (h0 : 0 ≤ exp) (h32 : exp < 2 ^ 32) (hmac : ∀ k m, (mac k m).length = 20)
    (hh2 : ∀ f ∈ hs2, isOtherHint f = true) (httl : ttlSeconds ttlNs' = ttlSeconds ttlNs) :
    verifySignature mac (signLocator mac loc tok exp ttlNs key ++ hints hs2) tok ttlNs' key nowNs =
      if exp * 1000000000 < nowNs then .expired else .ok := by
  have hs := signed_isSignedLocator mac (ttlNs := ttlNs) hloc hk ht h0 h32 hmac hh2
  obtain ⟨t, _, hv, hver⟩ := verify_of_isSignedLocator mac hs tok ttlNs' key nowNs
  have ht' : t = exp.toNat := by
    have := (fmt08x_nonneg h0 h32).2.2
    rw [hv] at this; exact Option.some.inj this
  have hte : (t : Int) = exp := by rw [ht']; exact Int.toNat_of_nonneg h0
  rw [hver, verdictOf, hte, ttlHex_eq_iff.mpr httl]
  simp

/-- "At now": within the very second named by the expiry field — any instant after `exp.000000000`,
however small the sub-second part — the signature is already reported as expired; it is accepted
only up to and including the instant `exp·10⁹` itself. (`time.Unix(exp,0).Before(now)` compares
nanoseconds; comparing whole seconds instead would keep the locator valid for one more second.) -/
theorem C07_expired_within_expiry_second {loc hash tok key : Str} {exp ttlNs : Int} {hs2 : List Str}
    (hloc : IsUnsignedLocator loc hash) (hk : key ≠ []) (ht : tok ≠ [])
    (h0 : 0 ≤ exp) (h32 : exp < 2 ^ 32) (hmac : ∀ k m, (mac k m).length = 20)
    (hh2 : ∀ f ∈ hs2, isOtherHint f = true) (frac : Int) (hfrac : 0 < frac) :
    verifySignature mac (signLocator mac loc tok exp ttlNs key ++ hints hs2) tok ttlNs key
        (exp * 1000000000 + frac) = .expired ∧
    verifySignature mac (signLocator mac loc tok exp ttlNs key ++ hints hs2) tok ttlNs key
        (exp * 1000000000) = .ok := by
  constructor
  · rw [C07_verify_sign mac hloc hk ht h0 h32 hmac hh2 rfl, if_pos (by omega)]
  · rw [C07_verify_sign mac hloc hk ht h0 h32 hmac hh2 rfl, if_neg (by omega)]

example : (0 : Int) < 1 ∧ (1790138044 : Int) * 1000000000 + 1 < (1790138044 + 1) * 1000000000 := by decide

/-- non-vacuity: a concrete unsigned locator with size and a hint, a 20-byte MAC -/
example : IsUnsignedLocator ("0123456789abcdef0123456789ABCDEF".toList ++ hints [['1','2'], ['K','@','x']])
    "0123456789abcdef0123456789ABCDEF".toList :=
  ⟨[['1','2']], [['K','@','x']], rfl, by decide, by decide, Or.inr ⟨_, rfl, by decide⟩, by decide⟩
example : ∀ k m : Str, ((fun _ _ => List.replicate 20 (7 : UInt8)) k m).length = 20 := by simp

/-- An expiry of 2³² or more makes `SignLocator` write nine hex digits, which the verifier's
grammar does not accept (reported as missing): the round trip needs `exp < 2³²` (year 2106). -/
theorem C07_expiry_range_needed :
    verifySignature (fun _ _ => List.replicate 20 (0 : UInt8))
      (signLocator (fun _ _ => List.replicate 20 0) "0123456789abcdef0123456789abcdef".toList
        ['t'] (2 ^ 32) 0 ['k']) ['t'] 0 ['k'] 0 = .missing := by decide

/-- Presenting another token, TTL or key: the verdict can only stay `ok` if the MAC text for the
new parameters collides with the old one (`C07_message_injective` shows the MAC *inputs* differ
whenever token or TTL seconds differ). -/
theorem C07_other_token_ttl_key_rejected {s hash sig e tok tok' key key' : Str}
    {ttlNs ttlNs' nowNs : Int} (hs : IsSignedLocator s hash sig e)
    (hok : verifySignature mac s tok ttlNs key nowNs = .ok)
    (hdiff : makePermSignature mac hash tok' e (ttlHex ttlNs') key' ≠
      makePermSignature mac hash tok e (ttlHex ttlNs) key) :
    verifySignature mac s tok' ttlNs' key' nowNs = .invalid := by
  obtain ⟨t, _, _, hv⟩ := verify_of_isSignedLocator mac hs tok ttlNs key nowNs
  obtain ⟨t', _, _, hv'⟩ := verify_of_isSignedLocator mac hs tok' ttlNs' key' nowNs
  have : t' = t := by simp_all
  subst this
  rw [hok] at hv
  rw [hv']
  unfold verdictOf at hv ⊢
  split at hv
  · simp at hv
  · rename_i hn
    rw [if_neg hn]
    split at hv
    · simp at hv
    · rename_i he
      have he' : sig = makePermSignature mac hash tok e (ttlHex ttlNs) key := by simpa using he
      rw [if_pos]
      rw [he']; exact Ne.symm hdiff

/-- A locator that verifies stops verifying when its hash is replaced by another 32-hex-digit
hash, unless the MAC text for the other hash collides. -/
theorem C07_other_hash_rejected {hash hash' sig e tok key : Str} {size hs1 hs2 : List Str}
    {ttlNs nowNs : Int} (p : Parts hash sig e size hs1 hs2)
    (hl : hash'.length = 32) (hx : hash'.all isXDigit = true)
    (hok : verifySignature mac (assemble hash sig e size hs1 hs2) tok ttlNs key nowNs = .ok)
    (hdiff : makePermSignature mac hash' tok e (ttlHex ttlNs) key ≠
      makePermSignature mac hash tok e (ttlHex ttlNs) key) :
    verifySignature mac (assemble hash' sig e size hs1 hs2) tok ttlNs key nowNs = .invalid := by
  have p' : Parts hash' sig e size hs1 hs2 := { p with hl := hl, hx := hx }
  obtain ⟨t, _, ht, hv⟩ := verify_of_isSignedLocator mac p.isSigned tok ttlNs key nowNs
  obtain ⟨t', _, ht', hv'⟩ := verify_of_isSignedLocator mac p'.isSigned tok ttlNs key nowNs
  have : t' = t := by rw [ht] at ht'; exact (Option.some.inj ht').symm
  subst this
  rw [hok] at hv
  rw [hv']
  unfold verdictOf at hv ⊢
  split at hv
  · simp at hv
  · rename_i hn
    rw [if_neg hn]
    split at hv
    · simp at hv
    · rename_i he
      have he' : sig = makePermSignature mac hash tok e (ttlHex ttlNs) key := by simpa using he
      rw [if_pos]
      rw [he']; exact Ne.symm hdiff

/-- Any single character of the signature replaced by a different character (no MAC hypothesis
needed): `invalid` if the new character is a hex digit (this includes changing the case of a
letter), `missing` otherwise (including `+`, which cuts the hint in two). -/
theorem C07_signature_char_changed {hash sig e tok key : Str} {size hs1 hs2 : List Str}
    {ttlNs nowNs : Int} (p : Parts hash sig e size hs1 hs2)
    (hok : verifySignature mac (assemble hash sig e size hs1 hs2) tok ttlNs key nowNs = .ok)
    (i : Nat) (c : Char) (hi : i < 40) (hc : c ≠ sig[i]'(by rw [p.sl]; exact hi)) :
    verifySignature mac (assemble hash (sig.set i c) e size hs1 hs2) tok ttlNs key nowNs =
      if isXDigit c then .invalid else .missing :=
  verify_sig_char mac p hok i c hi hc

/-- Any single character of the expiry field replaced: never `ok`, provided the MAC text for the
message with the new expiry is not the old signature (the message does change, by
`C07_message_injective`, also when only the case of a hex letter changes). -/
theorem C07_expiry_char_changed {hash sig e tok key : Str} {size hs1 hs2 : List Str}
    {ttlNs nowNs : Int} (p : Parts hash sig e size hs1 hs2) (i : Nat) (c : Char) (hi : i < 8)
    (hmacne : makePermSignature mac hash tok (e.set i c) (ttlHex ttlNs) key ≠ sig) :
    verifySignature mac (assemble hash sig (e.set i c) size hs1 hs2) tok ttlNs key nowNs ≠ .ok :=
  verify_exp_char mac p i c hi hmacne

/-- Removing the signature hint (keeping hash, size and the other hints): `missing`. -/
theorem C07_signature_removed {hash sig e tok key : Str} {size hs1 hs2 : List Str}
    {ttlNs nowNs : Int} (p : Parts hash sig e size hs1 hs2) :
    verifySignature mac (hash ++ hints (size ++ (hs1 ++ hs2))) tok ttlNs key nowNs = .missing := by
  apply verify_of_no_match
  apply matchSigned_no_sigField p.hl p.hx p.hsize
  intro g hg
  rcases List.mem_append.mp hg with hg | hg
  · exact p.hh1 g hg
  · exact p.hh2 g hg

/-- non-vacuity of `Parts`: hash, size, one hint before and one after the signature -/
example : Parts "0123456789abcdef0123456789abcdef".toList (List.replicate 40 'a')
    (List.replicate 8 '9') [['3']] [['K', 'x']] [['B']] :=
  ⟨by decide, by decide, Or.inr ⟨_, rfl, by decide⟩, by decide, by decide, by decide, by decide,
    by decide, by decide⟩

/-- The expiry group always parses: `parseHexTimestamp` cannot fail on 8 hex digits, so the
"badly formatted timestamp" branch of `VerifySignature` is dead; the value is below 2³². -/
theorem C07_timestamp_always_parses {s hash sig e : Str} (h : IsSignedLocator s hash sig e) :
    ∃ t : Nat, t < 2 ^ 32 ∧ parseHexTimestamp e = some (t : Int) := by
  obtain ⟨_, _, _, _, _, _, _, _, _, _, el, ex, _⟩ := h
  obtain ⟨t, hlt, _, hp⟩ := parseHexTimestamp_xdigits el ex
  exact ⟨t, hlt, hp⟩

/-! ### keepstore -/

/-- keepstore's error mapping: nil iff the SDK verdict is ok; ExpiredError (401) iff expired;
PermissionError (403) for missing and invalid. -/
theorem C07_error_classes (cfg : KSConfig) (loc tok : Str) (nowNs : Int) :
    (ksVerify mac cfg loc tok nowNs = none ↔
      verifySignature mac loc tok cfg.ttlNs cfg.key nowNs = .ok) ∧
    (ksVerify mac cfg loc tok nowNs = some 401 ↔
      verifySignature mac loc tok cfg.ttlNs cfg.key nowNs = .expired) ∧
    (ksVerify mac cfg loc tok nowNs = some 403 ↔
      (verifySignature mac loc tok cfg.ttlNs cfg.key nowNs = .missing ∨
       verifySignature mac loc tok cfg.ttlNs cfg.key nowNs = .invalid)) := by
  unfold ksVerify
  cases verifySignature mac loc tok cfg.ttlNs cfg.key nowNs <;> simp

/-- With blob signing on, `handleGET` reaches a volume only after the full request locator
verified for the requesting token under the configured key and TTL at that moment; the hash it
reads is the signed hash. The only other non-error exit, the remote proxy, is taken only for
locators with `+R` and without `+A`. -/
theorem C07_get_requires_signature (cfg : KSConfig) (loc tok h : Str) (nowNs : Int)
    (hsign : cfg.blobSigning = true) :
    (handleGET mac cfg loc tok nowNs = .readVolume h →
      verifySignature mac loc tok cfg.ttlNs cfg.key nowNs = .ok ∧
      ∃ sig e, IsSignedLocator loc h sig e) ∧
    (handleGET mac cfg loc tok nowNs = .remoteProxy →
      containsSub ['+', 'R'] loc = true ∧ containsSub ['+', 'A'] loc = false) := by
  unfold handleGET
  cases hr : routeHash loc with
  | none => simp
  | some h0 =>
    simp only [hsign, if_true]
    split
    · rename_i hc
      simp only [Bool.and_eq_true, Bool.not_eq_true'] at hc
      simp [hc]
    · cases hk : ksVerify mac cfg loc tok nowNs with
      | some code => simp
      | none =>
        simp only [GetOutcome.readVolume.injEq, reduceCtorEq, false_implies, and_true]
        rintro rfl
        have hok := ((C07_error_classes mac cfg loc tok nowNs).1).mp hk
        refine ⟨hok, ?_⟩
        obtain ⟨hash, sig, e, _, hs, _⟩ := (C07_verify_iff_mac mac loc tok cfg.key cfg.ttlNs nowNs).mp hok
        -- the route variable is the first 32 characters, which is the signed hash
        have : h0 = hash := by
          obtain ⟨size, hs1, hs2, rfl, hl, _⟩ := hs
          unfold routeHash at hr
          simp only [List.take_left' hl] at hr
          split at hr
          · split at hr <;> simp_all
          · simp at hr
        subst this
        exact ⟨sig, e, hs⟩

/-- The gate is per token: a locator that keepstore serves to one token is refused with 403 for
any other token string — another uuid part of a `v2/uuid/secret` token, the bare secret, any
string at all — unless the MAC texts for the two tokens collide (`C07_message_injective`: the MAC
inputs differ as soon as the token strings differ). -/
theorem C07_get_other_token_denied (cfg : KSConfig) (loc tok tok' h : Str) (nowNs : Int)
    (hsign : cfg.blobSigning = true)
    (hget : handleGET mac cfg loc tok nowNs = .readVolume h)
    (hdiff : ∀ hash sig e, IsSignedLocator loc hash sig e →
      makePermSignature mac hash tok' e (ttlHex cfg.ttlNs) cfg.key ≠
      makePermSignature mac hash tok e (ttlHex cfg.ttlNs) cfg.key) :
    handleGET mac cfg loc tok' nowNs = .denied 403 := by
  obtain ⟨hok, sig, e, hs⟩ := (C07_get_requires_signature mac cfg loc tok h nowNs hsign).1 hget
  have hinv := C07_other_token_ttl_key_rejected mac (tok' := tok') (key' := cfg.key)
    (ttlNs' := cfg.ttlNs) hs hok (hdiff h sig e hs)
  unfold handleGET at hget ⊢
  cases hr : routeHash loc with
  | none => rw [hr] at hget; simp at hget
  | some h0 =>
    rw [hr] at hget
    simp only [hsign, if_true] at hget ⊢
    split
    · rename_i hc; rw [if_pos hc] at hget; simp at hget
    · simp [ksVerify, hinv]

/-- With blob signing on, anything that does not verify is answered before any volume access:
401 for an expired well-formed signature, 403 otherwise (400 if no route matches). -/
theorem C07_get_denied (cfg : KSConfig) (loc tok : Str) (nowNs : Int)
    (hsign : cfg.blobSigning = true)
    (hbad : verifySignature mac loc tok cfg.ttlNs cfg.key nowNs ≠ .ok) :
    handleGET mac cfg loc tok nowNs = .noRoute ∨ handleGET mac cfg loc tok nowNs = .remoteProxy ∨
    handleGET mac cfg loc tok nowNs =
      .denied (if verifySignature mac loc tok cfg.ttlNs cfg.key nowNs = .expired then 401 else 403) := by
  unfold handleGET
  cases routeHash loc with
  | none => simp
  | some h0 =>
    simp only [hsign, if_true]
    split
    · simp
    · right; right
      unfold ksVerify
      cases hv : verifySignature mac loc tok cfg.ttlNs cfg.key nowNs <;> simp_all

/-- The locator `handlePUT` returns (key configured, token presented, hash of 32 lowercase hex
digits, TTL ≥ 1 s, 20-byte MAC, now+TTL before 2³²) passes `handleGET`'s gate for the same token
at that moment. -/
theorem C07_put_reply_verifies (cfg : KSConfig) (hash tok : Str) (size : Nat) (nowNs : Int)
    (hl : hash.length = 32) (hx : hash.all isLowerHex = true)
    (hk : cfg.key ≠ []) (ht : tok ≠ []) (hmac : ∀ k m, (mac k m).length = 20)
    (hnow : 0 ≤ nowNs) (httl : 1000000000 ≤ cfg.ttlNs)
    (h32 : (nowNs + cfg.ttlNs) / 1000000000 < 2 ^ 32) :
    verifySignature mac (putReply mac cfg hash size tok nowNs) tok cfg.ttlNs cfg.key nowNs = .ok := by
  have hke : cfg.key.isEmpty = false := by cases h : cfg.key <;> simp_all
  have hte : tok.isEmpty = false := by cases tok <;> simp_all
  have hloc : IsUnsignedLocator (hash ++ '+' :: natDec size) hash := by
    refine ⟨[natDec size], [], by simp, hl, all_isXDigit_of_all_isLowerHex hx, Or.inr ⟨_, rfl, ?_⟩, by simp⟩
    have hne : natDec size ≠ [] := Nat.toDigits_ne_nil
    have hd : (natDec size).all isDigit = true := by
      rw [List.all_eq_true]
      intro c hc
      have := Nat.isDigit_of_mem_toDigits (b := 10) (by decide) (by decide) hc
      simpa [isDigit, Char.isDigit, Char.le_def, UInt32.le_iff_toNat_le] using this
    cases h : natDec size with
    | nil => exact absurd h hne
    | cons c cs => rw [h] at hd; simp [isSizeField, hd]
  have h0 : 0 ≤ (nowNs + cfg.ttlNs) / 1000000000 := by omega
  have := C07_verify_sign mac (ttlNs := cfg.ttlNs) (ttlNs' := cfg.ttlNs) (nowNs := nowNs) (hs2 := [])
    hloc hk ht h0 h32 hmac (by simp) rfl
  simp only [hints_nil, List.append_nil] at this
  simp only [putReply, hke, hte, Bool.not_false, Bool.and_self, if_true]
  rw [this, if_neg]
  omega

example : ∃ cfg : KSConfig, cfg.key ≠ [] ∧ 1000000000 ≤ cfg.ttlNs ∧
    ((1790138044 : Int) * 1000000000 + cfg.ttlNs) / 1000000000 < 2 ^ 32 :=
  ⟨⟨true, 1209600 * 1000000000, ['k']⟩, by decide, by decide, by decide⟩


/-! ### keepstore: from the HTTP request to `handleGET` -/

/-- `GetAPIToken`: for `OAuth2`/`Bearer`, one or more whitespace characters, then a token that
does not itself start with whitespace and contains no newline, the token is returned exactly
(whatever else it contains: `@`, `+`, `/`, non-ASCII bytes); no header, or a header that does not
start with one of the two scheme words (case-sensitive), gives the empty token. -/
theorem C07_token_from_header :
    (∀ (scheme tok ws : Str),
      (scheme = ['O', 'A', 'u', 't', 'h', '2'] ∨ scheme = ['B', 'e', 'a', 'r', 'e', 'r']) →
      ws ≠ [] → (∀ c ∈ ws, isSpace c = true) →
      (∀ c r, tok = c :: r → isSpace c = false) → (∀ c ∈ tok, c ≠ '\n') →
      getAPIToken (some (scheme ++ ws ++ tok)) = tok) ∧
    getAPIToken none = [] ∧
    (∀ v, ['O', 'A', 'u', 't', 'h', '2'].isPrefixOf v = false →
      ['B', 'e', 'a', 'r', 'e', 'r'].isPrefixOf v = false → getAPIToken (some v) = []) :=
  ⟨fun scheme tok ws hs hws hall h1 h2 => getAPIToken_scheme scheme tok hs ws hws hall h1 h2, rfl,
    getAPIToken_no_scheme⟩

example : getAPIToken (some "Bearer  v2/zzzzz-gj3su-000000000000000/a@b+c".toList) =
    "v2/zzzzz-gj3su-000000000000000/a@b+c".toList ∧
    getAPIToken (some "bearer tok".toList) = [] ∧ getAPIToken (some "Bearertok".toList) = [] := by decide

/-- The route variable is the first 32 characters of the path (lowercase hex), and a routed
locator contains no `/`. -/
theorem C07_route_hash {loc h : Str} (e : routeHash loc = some h) :
    h = loc.take 32 ∧ h.length = 32 ∧ h.all isLowerHex = true ∧ ∀ c ∈ loc, c ≠ '/' :=
  routeHash_some e

/-- From the request: with blob signing on, a GET reaches a volume only if the decoded URL path
is in canonical form (otherwise mux answers 301 before any route), contains no further `/`, and
its locator verifies for the token taken from the Authorization header. Dot segments, doubled or
trailing slashes and percent-escapes therefore cannot lead around the signature gate. -/
theorem C07_serve_requires_signature (cfg : KSConfig) (path : Str) (hdr : Option Str) (h : Str)
    (nowNs : Int) (hsign : cfg.blobSigning = true)
    (hserve : serveGET mac cfg path hdr nowNs = .handled (.readVolume h)) :
    cleanPath path = path ∧ (∀ c ∈ path.drop 1, c ≠ '/') ∧
    verifySignature mac (path.drop 1) (getAPIToken hdr) cfg.ttlNs cfg.key nowNs = .ok ∧
    ∃ sig e, IsSignedLocator (path.drop 1) h sig e := by
  unfold serveGET at hserve
  split at hserve
  · simp at hserve
  · rename_i hc
    simp only [ServeOutcome.handled.injEq] at hserve
    have hclean : cleanPath path = path := by simpa using hc
    obtain ⟨hok, hs⟩ := (C07_get_requires_signature mac cfg (path.drop 1) (getAPIToken hdr) h nowNs hsign).1 hserve
    refine ⟨hclean, ?_, hok, hs⟩
    unfold handleGET at hserve
    cases hr : routeHash (path.drop 1) with
    | none => rw [hr] at hserve; simp at hserve
    | some h0 => exact (routeHash_some hr).2.2.2

example : cleanPath "//a/./b/../c/".toList = "/a/c/".toList ∧ cleanPath "/..".toList = ['/'] ∧
    cleanPath "/x+y".toList = "/x+y".toList ∧ pctDecode "/a%2Fb%41".toList = some "/a/bA".toList ∧
    pctDecode "/a%zz".toList = none := by decide

/-- PUT then GET: the locator `handlePUT` writes back is routed, is not taken for a remote
request, passes the signature gate for the same token at that moment, and `handleGET` reads the
volume for exactly the hash that was PUT (hypotheses as in `C07_put_reply_verifies`; with blob
signing off the read happens without the gate). -/
theorem C07_put_then_get (cfg : KSConfig) (hash tok : Str) (size : Nat) (nowNs : Int)
    (hl : hash.length = 32) (hx : hash.all isLowerHex = true)
    (hk : cfg.key ≠ []) (ht : tok ≠ []) (hmac : ∀ k m, (mac k m).length = 20)
    (hnow : 0 ≤ nowNs) (httl : 1000000000 ≤ cfg.ttlNs)
    (h32 : (nowNs + cfg.ttlNs) / 1000000000 < 2 ^ 32) :
    handleGET mac cfg (putReply mac cfg hash size tok nowNs) tok nowNs = .readVolume hash := by
  have hok := C07_put_reply_verifies mac cfg hash tok size nowNs hl hx hk ht hmac hnow httl h32
  have hke : cfg.key.isEmpty = false := by cases h : cfg.key <;> simp_all
  have hte : tok.isEmpty = false := by cases tok <;> simp_all
  have hlh : ∀ c, isLowerHex c = true → c ≠ '/' := by
    intro c hc e; subst e; revert hc; decide
  -- shape of the reply: hash ++ "+" ++ (size ++ "+A…")
  have hrep : putReply mac cfg hash size tok nowNs =
      hash ++ '+' :: (natDec size ++ sigHint mac hash tok ((nowNs + cfg.ttlNs) / 1000000000) cfg.ttlNs cfg.key) := by
    have hp : hashPart (hash ++ '+' :: natDec size) = hash := by
      have := hashPart_hints (hash := hash) [natDec size] (free_of_all (fun _ h => ne_plus_of_isXDigit (isXDigit_of_isLowerHex h)) hx)
      simpa using this
    simp [putReply, hke, hte, signLocator, hp, List.append_assoc]
  have hnoslash : ∀ c ∈ natDec size ++ sigHint mac hash tok ((nowNs + cfg.ttlNs) / 1000000000) cfg.ttlNs cfg.key, c ≠ '/' := by
    intro c hc
    rcases List.mem_append.mp hc with hc | hc
    · have := Nat.isDigit_of_mem_toDigits (b := 10) (by decide) (by decide) hc
      intro e; subst e; revert this; decide
    · simp only [sigHint, List.mem_cons, List.mem_append] at hc
      rcases hc with (rfl | rfl | hc) | rfl | hc
      · decide
      · decide
      · exact hlh c (List.all_eq_true.mp (hexOfDigest_lowerHex _) c hc)
      · decide
      · rcases fmt08x_chars _ c hc with h1 | rfl
        · exact hlh c h1
        · decide
  have hroute : routeHash (putReply mac cfg hash size tok nowNs) = some hash := by
    rw [hrep]
    unfold routeHash
    simp only [List.take_left' hl, List.drop_left' hl, hl, hx, decide_true, Bool.and_self, if_true]
    have hne : (natDec size ++ sigHint mac hash tok ((nowNs + cfg.ttlNs) / 1000000000) cfg.ttlNs cfg.key).isEmpty = false := by
      simp [sigHint]
    have hall : (natDec size ++ sigHint mac hash tok ((nowNs + cfg.ttlNs) / 1000000000) cfg.ttlNs cfg.key).all (· != '/') = true := by
      rw [List.all_eq_true]; intro c hc; simpa using hnoslash c hc
    simp [hne, hall]
  have hA : containsSub ['+', 'A'] (putReply mac cfg hash size tok nowNs) = true := by
    rw [hrep]
    have := containsSub_append ['+', 'A'] (hash ++ '+' :: natDec size)
      (makePermSignature mac hash tok (fmt08x ((nowNs + cfg.ttlNs) / 1000000000)) (ttlHex cfg.ttlNs) cfg.key
        ++ '@' :: fmt08x ((nowNs + cfg.ttlNs) / 1000000000))
    simpa [sigHint, List.append_assoc] using this
  unfold handleGET
  rw [hroute]
  simp only [hA, Bool.not_true, Bool.and_false, Bool.false_eq_true, if_false]
  split
  · have := ((C07_error_classes mac cfg _ tok nowNs).1).mpr hok
    rw [this]
  · rfl

/-- The remote-proxy exit (`+R` without `+A`). Its outcomes are: 401 without a token; 400/500
decided locally; or one forwarded request to a *configured* remote cluster. None of them is a
local volume read (`GetOutcome.readVolume` is a different constructor of `handleGET`'s result, and
`Tie.C07.tie_remoteGetSkeleton` records that `remoteProxy.Get` contains no GetBlock call), so with
blob signing on the only way to local block data is `C07_get_requires_signature`. -/
theorem C07_remote_exit (configured : Str → Bool) (loc tok : Str) :
    (tok = [] → remoteProxyGet mac configured loc tok = .status 401) ∧
    (∀ c, remoteProxyGet mac configured loc tok = .status c → c = 401 ∨ c = 400 ∨ c = 500) ∧
    (∀ r l t, remoteProxyGet mac configured loc tok = .forward r l t → configured r = true ∧ tok ≠ []) := by
  unfold remoteProxyGet
  cases tok with
  | nil => simp
  | cons a as =>
    simp only [List.isEmpty_cons, Bool.false_eq_true, if_false, reduceCtorEq, false_implies, true_and]
    cases hs : splitOn '+' loc with
    | nil => simp
    | cons h parts =>
      obtain ⟨h1, h2⟩ := remoteParts_outcome mac configured (a :: as) parts [h] none (by simp)
      constructor
      · intro c hc
        rcases h1 c hc with h | h
        · exact Or.inr (Or.inl h)
        · exact Or.inr (Or.inr h)
      · intro r l t hf
        exact ⟨h2 r l t hf, by simp⟩

example : remoteProxyGet (fun _ _ => []) (fun r => r == "zremo".toList)
    "0123456789abcdef0123456789abcdef+3+Rzremo-abc@def+Kx".toList "v2/u/s".toList =
    .forward "zremo".toList "0123456789abcdef0123456789abcdef+3+Aabc@def+Kx".toList "v2/u/".toList := by decide

/-- The `+R` exit as a whole, whatever the remote cluster does (data, refusal, temporary failure
on every retry, any other error): the answer does not depend on what the local volumes hold; block
data reaches the client only as the body a Keep service of a *configured* remote cluster delivered
for the forwarded locator and the caller's salted token; every failure of the remote cluster ends
in 404 or 502 without data. With `C07_get_requires_signature` this closes the GET handler: with
blob signing on, local block data is returned only behind the signature gate. -/
theorem C07_remote_never_local (configured : Str → Bool) (loc tok : Str)
    (remote : Str → Str → Str → RemoteReply) (ls ls' : Str → Option Str) :
    remoteProxyServe mac configured loc tok remote ls = remoteProxyServe mac configured loc tok remote ls' ∧
    (∀ b, (remoteProxyServe mac configured loc tok remote ls).body = some b →
      (remoteProxyServe mac configured loc tok remote ls).status = 200 ∧
      ∃ r l t, remoteProxyGet mac configured loc tok = .forward r l t ∧ configured r = true ∧ tok ≠ [] ∧
        remote r l t = .data b) ∧
    (∀ r l t, remoteProxyGet mac configured loc tok = .forward r l t → (∀ b, remote r l t ≠ .data b) →
      (remoteProxyServe mac configured loc tok remote ls).body = none ∧
      ((remoteProxyServe mac configured loc tok remote ls).status = 404 ∨
       (remoteProxyServe mac configured loc tok remote ls).status = 502)) := by
  refine ⟨rfl, ?_, ?_⟩
  · intro b hb
    unfold remoteProxyServe at hb ⊢
    cases hg : remoteProxyGet mac configured loc tok with
    | status c => rw [hg] at hb; simp at hb
    | forward r l t =>
      rw [hg] at hb
      simp only at hb ⊢
      have hc := (C07_remote_exit mac configured loc tok).2.2 r l t hg
      cases hr : remote r l t with
      | data b' =>
        rw [hr] at hb
        simp only [remoteFinish, Option.some.injEq] at hb
        subst hb
        exact ⟨rfl, r, l, t, rfl, hc.1, hc.2, hr⟩
      | notFound => rw [hr] at hb; simp [remoteFinish] at hb
      | temporary => rw [hr] at hb; simp [remoteFinish] at hb
      | otherError => rw [hr] at hb; simp [remoteFinish] at hb
  · intro r l t hg hnd
    unfold remoteProxyServe
    rw [hg]
    simp only
    cases hr : remote r l t with
    | data b' => exact absurd hr (hnd b')
    | notFound => simp [remoteFinish]
    | temporary => simp [remoteFinish]
    | otherError => simp [remoteFinish]

example : remoteProxyServe (fun _ _ => []) (fun r => r == "zremo".toList)
    "0123456789abcdef0123456789abcdef+3+Rzremo-abc@def".toList "v2/u/s".toList (fun _ _ _ => .temporary)
    (fun _ => some "foo".toList) = ⟨404, none⟩ ∧ remoteRequests 2 .temporary = 3 ∧ remoteRequests 2 .notFound = 1 := by
  decide

/-! ### Go and the API server outside the common range -/

/-- For every expiry (also before 2²⁸) Go's signed locator is the API server's algorithm applied
to the *zero-padded* timestamp text: the two implementations differ in nothing but the padding
of the expiry field — which is also part of the MAC input. -/
theorem C07_api_server_padding (loc tok key : Str) (exp ttlSecs frac : Nat)
    (hk : key ≠ []) (ht : tok ≠ []) (hfrac : frac < 1000000000) :
    signLocator mac loc tok (exp : Int) ((ttlSecs : Int) * 1000000000 + frac) key =
      Ref.signLocatorTs mac loc tok (padLeft 8 (natHex exp)) ttlSecs key ∧
    (exp < 2 ^ 28 → padLeft 8 (natHex exp) ≠ natHex exp) := by
  have httl : ttlSeconds ((ttlSecs : Int) * 1000000000 + frac) = (ttlSecs : Int) := by
    unfold ttlSeconds
    rw [Int.tdiv_eq_ediv_of_nonneg (by omega)]
    omega
  have hi : intHex (ttlSecs : Int) = natHex ttlSecs := by simp [intHex]
  have hke : key.isEmpty = false := by cases key <;> simp_all
  have hte : tok.isEmpty = false := by cases tok <;> simp_all
  have hf : fmt08x (exp : Int) = padLeft 8 (natHex exp) := by simp [fmt08x]
  constructor
  · simp [signLocator, hke, hte, sigHint, makePermSignature, sigMessage, ttlHex, httl, hi, hf,
      Ref.signLocatorTs, Ref.generateSignature, Ref.message, hashPart, List.append_assoc]
  · intro hlt h
    have h7 : (natHex exp).length ≤ 7 := by
      rw [natHex_length_le_iff exp 7 (by decide)]
      have : (16 : Nat) ^ 7 = 2 ^ 28 := by decide
      omega
    have := congrArg List.length h
    simp [padLeft] at this
    omega

/-- Consequently a locator signed by the API server with an expiry before 2²⁸ (7 or fewer hex
digits) is not even recognised by Go's verifier: `missing`. (Irrelevant in practice — 1978 — but
it is the exact boundary of `C07_same_as_api_server`.) -/
theorem C07_go_rejects_short_expiry {loc hash sig ts tok key : Str} {ttlNs nowNs : Int}
    (hloc : IsUnsignedLocator loc hash) (hs : sig.all isXDigit = true) (hts : ts.all isXDigit = true)
    (hlen : sig.length + ts.length ≠ 48) :
    verifySignature mac (loc ++ ['+', 'A'] ++ sig ++ ['@'] ++ ts) tok ttlNs key nowNs = .missing := by
  obtain ⟨size, hs1, rfl, hl, hx, hsize, hh⟩ := hloc
  apply verify_of_no_match
  have hstr : hash ++ hints (size ++ hs1) ++ ['+', 'A'] ++ sig ++ ['@'] ++ ts =
      hash ++ hints (size ++ hs1 ++ ('A' :: (sig ++ '@' :: ts)) :: []) := by
    rw [hints_append (size ++ hs1)]
    simp [List.append_assoc]
  rw [hstr]
  have hf : Free '+' ('A' :: (sig ++ '@' :: ts)) := free_sigField hs hts
  obtain ⟨n1, n2⟩ := not_size_not_hint_of_A (sig ++ '@' :: ts)
  rw [matchSigned_at_field hl hx hsize hh hf n1 n2 (by simp)]
  have : parseSigField ('A' :: (sig ++ '@' :: ts)) = none := by
    have hne : (sig ++ '@' :: ts).length ≠ 49 := by simp; omega
    have gen : ∀ r : Str, r.length ≠ 49 → parseSigField ('A' :: r) = none := by
      intro r h; simp [parseSigField, h]
    exact gen _ hne
  rw [this]

example : (List.replicate 40 'a').length + (natHex 0xfffffff).length ≠ 48 := by decide

/-! ### SignManifest -/

/-- `SignManifest` rewrites whitespace-free fields and nothing else. Every manifest text (any
bytes) is, in exactly the way `render` spells out, a first field followed by (whitespace
character, field) pairs; the signed manifest is the same layout with `signToken` applied to every
field: the same whitespace characters in the same places (in particular
`filter isSpace` of the text is unchanged), and the new fields are again whitespace-free. -/
theorem C07_sign_manifest_preserves (m tok key : Str) (exp ttlNs : Int) :
    ∃ f0 rest, IsLayout f0 rest ∧ m = render f0 rest ∧
      signManifest mac m tok exp ttlNs key =
        render (signToken mac tok exp ttlNs key f0)
          (rest.map (fun p => (p.1, signToken mac tok exp ttlNs key p.2))) ∧
      IsLayout (signToken mac tok exp ttlNs key f0)
        (rest.map (fun p => (p.1, signToken mac tok exp ttlNs key p.2))) ∧
      (signManifest mac m tok exp ttlNs key).filter isSpace = m.filter isSpace := by
  obtain ⟨f0, rest, hl, rfl⟩ := exists_layout m
  have hsm : signManifest mac (render f0 rest) tok exp ttlNs key =
      render (signToken mac tok exp ttlNs key f0)
        (rest.map (fun p => (p.1, signToken mac tok exp ttlNs key p.2))) := by
    unfold signManifest
    rw [mapFields_render _ [] f0 rest hl]
    simp
  have hl' : IsLayout (signToken mac tok exp ttlNs key f0)
      (rest.map (fun p => (p.1, signToken mac tok exp ttlNs key p.2))) := by
    refine ⟨signToken_noSpace mac tok exp ttlNs key hl.first, ?_, ?_⟩
    · intro p hp
      obtain ⟨q, hq, rfl⟩ := List.mem_map.mp hp
      exact hl.seps q hq
    · intro p hp
      obtain ⟨q, hq, rfl⟩ := List.mem_map.mp hp
      exact signToken_noSpace mac tok exp ttlNs key (hl.fields q hq)
  refine ⟨f0, rest, hl, rfl, hsm, hl', ?_⟩
  rw [hsm, filter_isSpace_render _ _ hl', filter_isSpace_render _ _ hl]
  simp [List.map_map, Function.comp_def]

/-- The layout used in `C07_sign_manifest_preserves` is the only one a text has, so "the fields"
and "the whitespace" of a manifest are well defined. -/
theorem C07_layout_unique {f0 g0 : Str} {rest rest' : List (Char × Str)}
    (h1 : IsLayout f0 rest) (h2 : IsLayout g0 rest') (h : render f0 rest = render g0 rest') :
    f0 = g0 ∧ rest = rest' := layout_unique h1 h2 h

example : IsLayout ['.'] [(' ', ['a']), ('\n', [])] ∧ render ['.'] [(' ', ['a']), ('\n', [])] = ". a\n".toList := by
  refine ⟨⟨by simp [NoSpace, isSpace], by decide, by simp [NoSpace, isSpace]⟩, by decide⟩

/-- the empty field (between two adjacent whitespace characters, or at either end) stays empty, so
applying the callback to it — which `ReplaceAllStringFunc(`\S+`)` never does — changes nothing -/
theorem C07_sign_token_empty (tok key : Str) (exp ttlNs : Int) :
    signToken mac tok exp ttlNs key [] = [] := signToken_nil mac tok exp ttlNs key

/-- A field that does not begin with 32 lowercase hex digits (stream names, file tokens, anything
else) is returned byte for byte. -/
theorem C07_sign_token_other (tok key t : Str) (exp ttlNs : Int) (h : isBlockToken t = false) :
    signToken mac tok exp ttlNs key t = t := by
  simp [signToken, h]

/-- A block token `h+f₁+…+fₙ` becomes `h`, then the fields not starting with `A` unchanged and in
order (size and all other hints), then exactly one fresh signature hint for `h` — computed as in
`C07_message_format`. Without key or token the old signatures are dropped and none is added. -/
theorem C07_sign_token_block {tok key t h : Str} {fs : List Str} {exp ttlNs : Int}
    (hb : isBlockToken t = true) (e : splitOn '+' t = h :: fs) :
    (key ≠ [] → tok ≠ [] →
      signToken mac tok exp ttlNs key t =
        h ++ hints (fs.filter notPermHint ++
          [sigField (makePermSignature mac h tok (fmt08x exp) (ttlHex ttlNs) key) (fmt08x exp)])) ∧
    ((key = [] ∨ tok = []) →
      signToken mac tok exp ttlNs key t = h ++ hints (fs.filter notPermHint)) := by
  refine ⟨fun hk ht => signToken_block mac hb hk ht e, ?_⟩
  intro h0
  have : (key.isEmpty || tok.isEmpty) = true := by
    rcases h0 with rfl | rfl <;> simp
  simp [signToken, hb, signLocator, this, stripPermHints_fields e]

/-- Dropping all signature hints from the signed token gives the same text as dropping them from
the original token: hash, size and other hints are untouched. -/
theorem C07_sign_token_strip {tok key t : Str} {exp ttlNs : Int} (hb : isBlockToken t = true) :
    stripPermHints (signToken mac tok exp ttlNs key t) = stripPermHints t := by
  obtain ⟨h, fs, e⟩ : ∃ h fs, splitOn '+' t = h :: fs := by
    cases hs : splitOn '+' t with
    | nil => exact absurd hs (splitOn_ne_nil _ _)
    | cons h fs => exact ⟨h, fs, rfl⟩
  obtain ⟨_, hh, hfs⟩ := splitOn_eq_cons e
  have hidem : (fs.filter notPermHint).filter notPermHint = fs.filter notPermHint := by
    rw [List.filter_filter]; simp
  have hff : ∀ g ∈ fs.filter notPermHint, Free '+' g := fun g hg => hfs g (List.mem_filter.mp hg).1
  by_cases h0 : key = [] ∨ tok = []
  · rw [(C07_sign_token_block mac hb e).2 h0, stripPermHints_fields e,
      stripPermHints_fields (splitOn_hints hh hff), hidem]
  · have hk : key ≠ [] := fun h => h0 (Or.inl h)
    have ht : tok ≠ [] := fun h => h0 (Or.inr h)
    rw [(C07_sign_token_block mac hb e).1 hk ht, stripPermHints_fields e]
    have hsf : Free '+' (sigField (makePermSignature mac h tok (fmt08x exp) (ttlHex ttlNs) key) (fmt08x exp)) := by
      intro c hc
      simp only [sigField, List.mem_cons, List.mem_append] at hc
      rcases hc with rfl | hc | rfl | hc
      · decide
      · exact ne_plus_of_isXDigit (isXDigit_of_isLowerHex
          (List.all_eq_true.mp (hexOfDigest_lowerHex _) c hc))
      · decide
      · rcases fmt08x_chars exp c hc with h1 | rfl
        · exact ne_plus_of_isXDigit (isXDigit_of_isLowerHex h1)
        · decide
    have hff' : ∀ g ∈ fs.filter notPermHint ++
        [sigField (makePermSignature mac h tok (fmt08x exp) (ttlHex ttlNs) key) (fmt08x exp)], Free '+' g := by
      intro g hg
      rcases List.mem_append.mp hg with hg | hg
      · exact hff g hg
      · simp at hg; subst hg; exact hsf
    rw [stripPermHints_fields (splitOn_hints hh hff'), List.filter_append, hidem]
    simp [notPermHint, sigField]

/-- Every locator of a manifest that is well-formed once its old signatures are dropped (32-digit
hash, optional size, ordinary hints) verifies after `SignManifest` for the signing token, key and
TTL until the expiry passes — whatever signatures (valid, stale or junk) it carried before. -/
theorem C07_signed_manifest_locator_verifies {tok key t h : Str} {fs size hs : List Str}
    {exp ttlNs nowNs : Int}
    (e : splitOn '+' t = h :: fs) (hl : h.length = 32) (hx : h.all isLowerHex = true)
    (hkeep : fs.filter notPermHint = size ++ hs)
    (hsize : size = [] ∨ ∃ d, size = [d] ∧ isSizeField d = true)
    (hh : ∀ f ∈ hs, isOtherHint f = true)
    (hk : key ≠ []) (ht : tok ≠ []) (h0 : 0 ≤ exp) (h32 : exp < 2 ^ 32)
    (hmac : ∀ k m, (mac k m).length = 20) :
    verifySignature mac (signToken mac tok exp ttlNs key t) tok ttlNs key nowNs =
      if exp * 1000000000 < nowNs then .expired else .ok := by
  have hb : isBlockToken t = true := by
    rw [(splitOn_eq_cons e).1]
    simp [isBlockToken, List.take_append_of_le_length (Nat.le_of_eq hl.symm), List.take_of_length_le (Nat.le_of_eq hl), hl, hx]
  have hloc : IsUnsignedLocator (stripPermHints t) h :=
    ⟨size, hs, by rw [stripPermHints_fields e, hkeep], hl, all_isXDigit_of_all_isLowerHex hx, hsize, hh⟩
  have := C07_verify_sign mac (ttlNs := ttlNs) (ttlNs' := ttlNs) (nowNs := nowNs) (hs2 := [])
    hloc hk ht h0 h32 hmac (by simp) rfl
  simp only [hints_nil, List.append_nil] at this
  simpa [signToken, hb] using this

example : splitOn '+' "0123456789abcdef0123456789abcdef+3+Afoo+Kx".toList =
    ["0123456789abcdef0123456789abcdef".toList, ['3'], ['A', 'f', 'o', 'o'], ['K', 'x']] ∧
    (["3".toList, "Afoo".toList, "Kx".toList].filter notPermHint = [['3']] ++ [['K', 'x']]) := by decide

/-! ### the implementation's MAC: HMAC-SHA1

The theorems above that parse a signature need `∀ k m, (mac k m).length = 20`. For the MAC the
code uses — HMAC-SHA1, here the executable `hmacSha1` the Lean driver runs and the correspondence
check compares with Go's `crypto/hmac` on every case — this is a theorem, so the round-trip
statements hold for it without any MAC hypothesis. -/

/-- HMAC-SHA1 yields 20 bytes for every key and message (any lengths, any bytes). -/
theorem C07_hmac_sha1_is_20_bytes (key msg : Str) : (hmacSha1 key msg).length = 20 :=
  hmacSha1_length key msg

/-- The signature text under HMAC-SHA1 is always 40 lowercase hex digits. -/
theorem C07_hmac_signature_shape (hash tok e l key : Str) :
    (makePermSignature hmacSha1 hash tok e l key).length = 40 ∧
      (makePermSignature hmacSha1 hash tok e l key).all isLowerHex = true :=
  C07_signature_is_lowercase_hex hmacSha1 hmacSha1_length hash tok e l key

/-- `C07_verify_sign` for HMAC-SHA1, no MAC hypothesis left. -/
theorem C07_hmac_verify_sign {loc hash tok key : Str} {exp ttlNs ttlNs' nowNs : Int} {hs2 : List Str}
    (hloc : IsUnsignedLocator loc hash) (hk : key ≠ []) (ht : tok ≠ [])
    (h0 : 0 ≤ exp) (h32 : exp < 2 ^ 32)
    (hh2 : ∀ f ∈ hs2, isOtherHint f = true) (httl : ttlSeconds ttlNs' = ttlSeconds ttlNs) :
    verifySignature hmacSha1 (signLocator hmacSha1 loc tok exp ttlNs key ++ hints hs2) tok ttlNs' key nowNs =
      if exp * 1000000000 < nowNs then .expired else .ok :=
  C07_verify_sign hmacSha1 hloc hk ht h0 h32 hmacSha1_length hh2 httl

/-- `C07_put_then_get` for HMAC-SHA1: what keepstore's `handlePUT` returns is served by
`handleGET` to the same token. -/
theorem C07_hmac_put_then_get (cfg : KSConfig) (hash tok : Str) (size : Nat) (nowNs : Int)
    (hl : hash.length = 32) (hx : hash.all isLowerHex = true)
    (hk : cfg.key ≠ []) (ht : tok ≠ [])
    (hnow : 0 ≤ nowNs) (httl : 1000000000 ≤ cfg.ttlNs)
    (h32 : (nowNs + cfg.ttlNs) / 1000000000 < 2 ^ 32) :
    handleGET hmacSha1 cfg (putReply hmacSha1 cfg hash size tok nowNs) tok nowNs = .readVolume hash :=
  C07_put_then_get hmacSha1 cfg hash tok size nowNs hl hx hk ht hmacSha1_length hnow httl h32

/-- `C07_signed_manifest_locator_verifies` for HMAC-SHA1. -/
theorem C07_hmac_signed_manifest_locator_verifies {tok key t h : Str} {fs size hs : List Str}
    {exp ttlNs nowNs : Int}
    (e : splitOn '+' t = h :: fs) (hl : h.length = 32) (hx : h.all isLowerHex = true)
    (hkeep : fs.filter notPermHint = size ++ hs)
    (hsize : size = [] ∨ ∃ d, size = [d] ∧ isSizeField d = true)
    (hh : ∀ f ∈ hs, isOtherHint f = true)
    (hk : key ≠ []) (ht : tok ≠ []) (h0 : 0 ≤ exp) (h32 : exp < 2 ^ 32) :
    verifySignature hmacSha1 (signToken hmacSha1 tok exp ttlNs key t) tok ttlNs key nowNs =
      if exp * 1000000000 < nowNs then .expired else .ok :=
  C07_signed_manifest_locator_verifies hmacSha1 e hl hx hkeep hsize hh hk ht h0 h32 hmacSha1_length

/-! ### the API server's verifier (blob.rb `verify_signature!`, transcription `Ref.verifySignature`)

Ruby is not available in the sandbox: the transcription (Model/C07_Ruby.lean, Ruby's `split`,
`=~`, `to_i(16)` semantics spelled out there) is tied to the source lines but not run. -/

/-- On every string of the shape blob.rb relies on (`RbShape`: non-empty first field, exactly one
field starting with `A`, of the form `A<sig>@<ts>`; nothing required of the hash or the field
lengths) with a hex timestamp field, `verify_signature!` recovers hash, signature and timestamp,
and answers: not base 16 if the timestamp has an uppercase digit; expired if its value is below
`now` (whole seconds); invalid unless the signature text equals the HMAC hex text of
`hash@token@timestamp@ttl-hex`; otherwise true. It never raises `NoMethodError` there. -/
theorem C07_api_server_verify {s hash sig e : Str} (h : RbShape s hash sig e) (ex : e.all isXDigit = true)
    (tok key : Str) (ttlSecs : Nat) (nowSec : Int) :
    ∃ t : Nat, hexNat? e 0 = some t ∧
      Ref.verifySignature mac s tok key ttlSecs nowSec =
        if e.all isLowerHex = false then .notBase16
        else if (t : Int) < nowSec then .expired
        else if sig ≠ Ref.generateSignature mac key hash tok e (natHex ttlSecs) then .invalid
        else .ok :=
  rb_verify_of_shape mac h ex tok key ttlSecs nowSec

/-- Every string of Go's `SignedLocatorRe` grammar has that shape, with the same hash, signature
and expiry groups: the two verifiers parse it identically. -/
theorem C07_go_grammar_within_api_server_shape {s hash sig e : Str} (h : IsSignedLocator s hash sig e) :
    RbShape s hash sig e ∧ e.all isXDigit = true :=
  ⟨rbShape_of_isSignedLocator h, h.choose_spec.choose_spec.choose_spec.2.2.2.2.2.2.2.2.1⟩

/-- Whatever Go's `VerifySignature` accepts (for a TTL of `ttlSecs` whole seconds plus a sub-second
rest, and an expiry field in lowercase — the only form either signer produces), the API server
accepts at the same moment (`now` = the clock truncated to whole seconds). The converse fails only
in two documented ways: blob.rb compares whole seconds, so it still accepts during the second that
starts at the expiry instant (`C07_expired_within_expiry_second`), and it accepts strings outside
Go's grammar (`C07_api_server_verify` needs no 32-digit hash, no 40/8-digit fields). -/
theorem C07_api_server_accepts_what_go_accepts {s tok key : Str} {ttlSecs frac : Nat} {nowNs : Int}
    (hfrac : frac < 1000000000)
    (hlow : ∀ hash sig e, IsSignedLocator s hash sig e → e.all isLowerHex = true)
    (hok : verifySignature mac s tok ((ttlSecs : Int) * 1000000000 + frac) key nowNs = .ok) :
    Ref.verifySignature mac s tok key ttlSecs (nowNs / 1000000000) = .ok := by
  obtain ⟨hash, sig, e, t, hs, hv, hnow, hsig⟩ := (C07_verify_iff_mac mac s tok key _ nowNs).mp hok
  obtain ⟨hshape, hx⟩ := C07_go_grammar_within_api_server_shape hs
  obtain ⟨t', hv', hrb⟩ := rb_verify_of_shape mac hshape hx tok key ttlSecs (nowNs / 1000000000)
  have htt : t' = t := by rw [hv] at hv'; exact (Option.some.inj hv').symm
  subst htt
  have httl : ttlSeconds ((ttlSecs : Int) * 1000000000 + frac) = (ttlSecs : Int) := by
    unfold ttlSeconds
    rw [Int.tdiv_eq_ediv_of_nonneg (by omega)]
    omega
  have hi : intHex (ttlSecs : Int) = natHex ttlSecs := by simp [intHex]
  have hmacs : makePermSignature mac hash tok e (ttlHex ((ttlSecs : Int) * 1000000000 + frac)) key =
      Ref.generateSignature mac key hash tok e (natHex ttlSecs) := by
    simp [makePermSignature, sigMessage, Ref.generateSignature, Ref.message, ttlHex, httl, hi,
      List.append_assoc]
  have hnot : ¬ ((t' : Int) < nowNs / 1000000000) := by omega
  rw [hrb, hlow hash sig e hs]
  simp [hnot, hsig, hmacs]

example : RbShape "ab+3+Asig@ff+Kx".toList ['a', 'b'] "sig".toList ['f', 'f'] :=
  ⟨[['3']], [['K', 'x']], by decide, by decide, by simp [Free], by simp [Free], by simp [Free],
    by simp [Free], by simp [Free], by simp [Free], by simp [Free], by decide⟩

end ArvVerif.C07
