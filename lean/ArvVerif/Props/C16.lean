/-
C16 — containers get the cheapest adequate instance type and start in priority order.
Property theorems only (helpers: Proofs/C16.lean, Proofs/C16_RunQueue.lean).

Part A (ChooseInstanceType): for every table, every iteration order of the Go map (`order.Perm table`),
every outcome of the error-path sort (`IsAvail table avail`), every container and reserve.
Part B (runQueue): for every queue snapshot, every outcome of the unstable priority sort
(`IsSorted entries sorted`), every worker pool (arbitrary state machine `Pool σ`), every
iteration order `keys` of the unalloc map.
-/
import ArvVerif.Proofs.C16
import ArvVerif.Proofs.C16_Complete
import ArvVerif.Proofs.C16_RunQueue
import ArvVerif.Proofs.C16_RunQueue2
import ArvVerif.Proofs.C16_Queue
import ArvVerif.Proofs.C16_Compose
import ArvVerif.Proofs.C16_Pool
import ArvVerif.Proofs.C16_Bounds
namespace ArvVerif.C16

/-! ## Part A -/

/-- the stated arithmetic range: the mathematical values of the formulas fit in int64 -/
structure InRange (reserve : Int) (c : Ctr) : Prop where
  ram : inInt64 ((c.ram + c.keepCacheRAM + reserve) * 100)
  img : inInt64 (imageSizeSpec c.image)
  tmp : inInt64 ((tmpCaps c.mounts).foldl (· + ·) 0)
  scratch : inInt64 (scratchSpec (tmpCaps c.mounts) (imageSizeSpec c.image))

/-- The int64 code computes the formulas of the property text: needRAM = (ram + keepCache + reserve)·100/95
truncated (= floor for non-negative sums), image estimate = ((n − 80)/42)·64 MiB for a well-formed PDH
with 122 ≤ n < 2⁶³ and 0 otherwise, scratch = max(Σ tmp, image) + image — whenever these values fit
in int64. The tmp sum does not depend on the order in which the mounts map is iterated. -/
theorem C16_arith (reserve : Int) (c : Ctr) (hr : InRange reserve c) :
    needOf reserve c = needSpec reserve c ∧
    (0 ≤ c.ram + c.keepCacheRAM + reserve →
      (needSpec reserve c).ram = (c.ram + c.keepCacheRAM + reserve) * 100 / 95) ∧
    (∀ n, pdhSize? c.image = some n → 122 ≤ n → (n : Int) < two63 →
      imageSizeSpec c.image = ((n : Int) - 80) / 42 * 67108864) ∧
    (∀ n, pdhSize? c.image = some n → n < 122 → imageSizeSpec c.image = 0) ∧
    (pdhSize? c.image = none → imageSizeSpec c.image = 0) ∧
    (needSpec reserve c).scratch =
      max ((tmpCaps c.mounts).foldl (· + ·) 0) (imageSizeSpec c.image) + imageSizeSpec c.image := by
  refine ⟨?_, ?_, ?_, ?_, ?_, ?_⟩
  · unfold needOf needSpec
    rw [needRAM64_eq _ _ _ hr.ram, imageSize64_eq _ hr.img, scratch64_eq _ _ hr.tmp hr.scratch]
  · intro h
    unfold needSpec needRAMSpec discountConfiguredRAMPercent
    rw [Int.tdiv_eq_ediv_of_nonneg (by omega)]
    rfl
  · intro n hn h1 h2
    unfold imageSizeSpec imageSizeOfLen mib64
    simp only [hn]
    rw [if_neg (by omega), if_neg (by omega)]
    rfl
  · intro n hn h1
    unfold imageSizeSpec imageSizeOfLen
    simp only [hn]
    by_cases hb : two63 ≤ (n : Int)
    · rw [if_pos hb]
    · rw [if_neg hb, if_pos h1]
  · intro hn; unfold imageSizeSpec; simp only [hn]
  · unfold needSpec scratchSpec
    simp only
    by_cases hlt : (tmpCaps c.mounts).foldl (· + ·) 0 < imageSizeSpec c.image
    · rw [if_pos hlt]; omega
    · rw [if_neg hlt]; omega

/-- **Explicit bounds.** `InRange` holds for every container with
|ram + keep_cache + reserve| ≤ 92 233 720 368 547 758 (≈ 81.9 PiB; one byte more and `· 100` wraps:
`ramProduct_tight`), a PDH manifest length ≤ 42·2³⁶ + 79 (image estimate < 4 EiB) and a tmp capacity
sum within ±2⁶² — so below these bounds all of Part A holds without any arithmetic side condition. -/
theorem C16_inrange_of_bounds (reserve : Int) (c : Ctr)
    (hram : -ramSumBound ≤ c.ram + c.keepCacheRAM + reserve ∧ c.ram + c.keepCacheRAM + reserve ≤ ramSumBound)
    (himg : ∀ n, pdhSize? c.image = some n → n ≤ imageLenBound)
    (htmp : -tmpSumBound ≤ (tmpCaps c.mounts).foldl (· + ·) 0 ∧ (tmpCaps c.mounts).foldl (· + ·) 0 ≤ tmpSumBound) :
    InRange reserve c := by
  obtain ⟨hi0, hi1⟩ := imageSizeSpec_bounds c.image himg
  refine ⟨ramProduct_inRange _ hram.1 hram.2, ?_, ?_, scratchSpec_inRange _ _ htmp.1 htmp.2 hi0 hi1⟩
  · unfold inInt64 two63; omega
  · unfold inInt64 two63; unfold tmpSumBound at htmp; omega

/-- the estimate is independent of the iteration order of the mounts map -/
theorem C16_mount_order_irrelevant (ms1 ms2 : List Mount) (img : Int) (h : ms1.Perm ms2) :
    scratch64 (tmpCaps ms1) img = scratch64 (tmpCaps ms2) img := by
  have hp : (tmpCaps ms1).Perm (tmpCaps ms2) := (h.filter _).map _
  unfold scratch64
  simp only [sum64_eq, foldl_add_perm hp]

/-- **Adequate.** Whatever the map iteration order, a returned type is a configured type and satisfies
every constraint: VCPUs, RAM ≥ (ram + keepCache + reserve)·100/95, scratch ≥ max(Σ tmp, image) + image,
and the preemptible flag. -/
theorem C16_adequate (table order avail : List IType) (reserve : Int) (c : Ctr) (it : IType)
    (hperm : order.Perm table) (hr : InRange reserve c)
    (h : chooseWith order avail reserve c = .ok it) :
    it ∈ table ∧ Adequate (needSpec reserve c) it := by
  obtain ⟨hok, hbest⟩ := chooseWith_ok h
  rw [← (C16_arith reserve c hr).1]
  have := chooseLoop_ok_sound (needOf reserve c) order hok
  rw [hbest] at this
  exact ⟨hperm.mem_iff.mp this.1, this.2⟩

/-- **Cheapest.** No configured type that satisfies every constraint is strictly cheaper than the
returned one — for every iteration order of the table. -/
theorem C16_cheapest (table order avail : List IType) (reserve : Int) (c : Ctr) (it : IType)
    (hperm : order.Perm table) (hr : InRange reserve c)
    (hnn : ∀ x ∈ table, 0 ≤ x.ram ∧ 0 ≤ x.vcpus)
    (h : chooseWith order avail reserve c = .ok it) :
    ∀ other ∈ table, Adequate (needSpec reserve c) other → it.price ≤ other.price := by
  obtain ⟨hok, hbest⟩ := chooseWith_ok h
  have hinv := inv_chooseLoop (needOf reserve c) order (fun x hx => hnn x (hperm.mem_iff.mp hx))
  obtain ⟨_, _, hmin, _⟩ := hinv.2 hok
  intro other ho ha
  rw [← (C16_arith reserve c hr).1] at ha
  rw [← hbest]
  exact hmin other (hperm.mem_iff.mpr ho) ha

/-- **Tie-break.** Among equally cheap adequate types the result is one that no other is strictly
better than in RAM/VCPUs; i.e. it lies in the set `allowed` that the model driver prints. -/
theorem C16_allowed (table order avail : List IType) (reserve : Int) (c : Ctr) (it : IType)
    (hperm : order.Perm table) (hnn : ∀ x ∈ table, 0 ≤ x.ram ∧ 0 ≤ x.vcpus)
    (h : chooseWith order avail reserve c = .ok it) :
    it ∈ allowed (needOf reserve c) table := by
  obtain ⟨hok, hbest⟩ := chooseWith_ok h
  have hinv := inv_chooseLoop (needOf reserve c) order (fun x hx => hnn x (hperm.mem_iff.mp hx))
  obtain ⟨hmem, had, hmin, hdom⟩ := hinv.2 hok
  rw [hbest] at hmem had hmin hdom
  unfold allowed
  simp only [List.mem_filter, List.all_eq_true, decide_eq_true_eq, Bool.not_eq_true', decide_eq_false_iff_not,
    and_imp]
  refine ⟨⟨⟨hperm.mem_iff.mp hmem, had⟩, ?_⟩, ?_⟩
  · intro y hy hay; exact hmin y (hperm.mem_iff.mpr hy) hay
  · intro y hy hay hle
    have h1 := hmin y (hperm.mem_iff.mpr hy) hay
    have h2 := hle it (hperm.mem_iff.mp hmem) had
    exact hdom y (hperm.mem_iff.mpr hy) hay (by omega)

/-- The set `allowed` is exact: each of its members is what the loop returns for some iteration
order of the table (so the comparison "implementation result ∈ allowed" is as tight as the map
order permits). -/
theorem C16_allowed_exact (table : List IType) (reserve : Int) (c : Ctr) (x : IType)
    (hnn : ∀ y ∈ table, 0 ≤ y.ram ∧ 0 ≤ y.vcpus) (hx : x ∈ allowed (needOf reserve c) table) :
    ∃ order, order.Perm table ∧ ∀ avail, chooseWith order avail reserve c = .ok x := by
  obtain ⟨order, hp, hl⟩ := allowed_complete (needOf reserve c) table x hnn hx
  refine ⟨order, hp, fun avail => ?_⟩
  unfold chooseWith
  have hlen : ¬ order.length = 0 := by
    intro h0
    have : order = [] := List.eq_nil_of_length_eq_zero h0
    subst this
    cases hl
  rw [if_neg hlen, hl]
  rfl

/-- **Unsatisfiable / not configured.** An empty table gives ErrInstanceTypesNotConfigured. If no
configured type satisfies the constraints the result is the error carrying *all* configured types in
ascending price order — never a type. -/
theorem C16_unsatisfiable (table order avail : List IType) (reserve : Int) (c : Ctr)
    (hperm : order.Perm table) (hav : IsAvail table avail) (hr : InRange reserve c) :
    (table = [] → chooseWith order avail reserve c = .notConfigured) ∧
    (table ≠ [] → (∀ x ∈ table, ¬ Adequate (needSpec reserve c) x) →
      chooseWith order avail reserve c = .unsat avail ∧ avail.Perm table ∧
        avail.Pairwise (fun a b => a.price ≤ b.price)) := by
  constructor
  · intro h
    subst h
    have : order = [] := List.Perm.eq_nil hperm
    subst this
    rfl
  · intro hne hnone
    refine ⟨?_, hav.perm, hav.sorted⟩
    unfold chooseWith
    have hlen : ¬ order.length = 0 := by
      intro h0
      apply hne
      have : order = [] := List.eq_nil_of_length_eq_zero h0
      subst this
      exact List.Perm.eq_nil hperm.symm
    rw [if_neg hlen]
    cases hok : (chooseLoop (needOf reserve c) order).1 with
    | false => rw [if_pos hok]
    | true =>
      exfalso
      have := chooseLoop_ok_sound (needOf reserve c) order hok
      rw [(C16_arith reserve c hr).1] at this
      exact hnone _ (hperm.mem_iff.mp this.1) this.2

/-- **Satisfiable.** Conversely, if some configured type satisfies the constraints, the result is a
type (by `C16_adequate`/`C16_cheapest` a cheapest adequate one), not an error. -/
theorem C16_satisfiable (table order avail : List IType) (reserve : Int) (c : Ctr) (x : IType)
    (hperm : order.Perm table) (hr : InRange reserve c)
    (hnn : ∀ x ∈ table, 0 ≤ x.ram ∧ 0 ≤ x.vcpus)
    (hx : x ∈ table) (hax : Adequate (needSpec reserve c) x) :
    ∃ it, chooseWith order avail reserve c = .ok it := by
  have hinv := inv_chooseLoop (needOf reserve c) order (fun x hx => hnn x (hperm.mem_iff.mp hx))
  unfold chooseWith
  have hlen : ¬ order.length = 0 := by
    intro h0
    have : order = [] := List.eq_nil_of_length_eq_zero h0
    subst this
    have := hperm.mem_iff.mpr hx
    cases this
  rw [if_neg hlen]
  cases hok : (chooseLoop (needOf reserve c) order).1 with
  | true => exact ⟨_, by rw [if_neg (by rw [hok]; simp)]⟩
  | false =>
    exfalso
    rw [← (C16_arith reserve c hr).1] at hax
    exact (hinv.1 hok).2 x (hperm.mem_iff.mpr hx) hax

/-- the executable error list is one of the allowed outcomes -/
theorem C16_avail_exec (table : List IType) : IsAvail table (availSorted table) := availSorted_is table

/-! ## Part B: one runQueue pass -/
open RQ

/-- **Priority order.** In any pass, for any pool and any outcome of the unstable priority sort: if
`StartContainer(t, b)` succeeds, then every Locked, not-running container `a` that needs the same
instance type `t` and has strictly higher priority
 * was started successfully earlier in the same pass, or
 * is blocked by its own lingering crunch-run process (`KillContainer(a, "about to start")` returned
   true earlier in the pass) — the case the code lets through (DESIGN section 8, F8), or
 * no worker could be created for it (`Create(t)` on its behalf returned false earlier in the pass
   although the pool was not at quota — the `continue` branch with the upstream TODO). -/
theorem C16_priority_order {σ : Type} (P : Pool σ) (p0 : σ) (unalloc : Nat → Int) (keys : List Nat)
    (entries sorted : List Ent) (hs : IsSorted entries sorted)
    (hnd : entries.Pairwise (fun a b => a.uuid ≠ b.uuid))
    (pre post : List Ev) (t : Nat) (a b : Ent)
    (htr : runQueue P p0 unalloc keys sorted = pre ++ Ev.start t b.uuid true :: post)
    (ha : a ∈ entries) (hb : b ∈ entries)
    (hal : a.st = .locked) (har : a.running = false) (hty : a.ty = t) (hpr : b.prio < a.prio) :
    Ev.start a.ty a.uuid true ∈ pre ∨ Ev.kill true a.uuid true ∈ pre ∨
      Ev.create a.uuid a.ty false ∈ pre := by
  unfold runQueue at htr
  have hnd' : sorted.Pairwise (fun a b => a.uuid ≠ b.uuid) :=
    (List.Perm.pairwise_iff (fun h => uuid_ne_symm h) hs.perm).mpr hnd
  rcases append_split htr with ⟨post', h1, _⟩ | ⟨pre', _, h2⟩
  · exact loop_priority P sorted _ hs.desc hnd' pre post' t b.uuid h1 a b
      (hs.perm.mem_iff.mpr ha) (hs.perm.mem_iff.mpr hb) rfl hal har hty hpr
  · exfalso
    exact finish_noStart _ _ _ (Ev.start t b.uuid true) (by rw [h2]; simp) t b.uuid true rfl

/-- With no lingering processes and no failed Create in the pass, the order is strict: every Locked
higher-priority container of the same type was started before. -/
theorem C16_priority_order_strict {σ : Type} (P : Pool σ) (p0 : σ) (unalloc : Nat → Int) (keys : List Nat)
    (entries sorted : List Ent) (hs : IsSorted entries sorted)
    (hnd : entries.Pairwise (fun a b => a.uuid ≠ b.uuid))
    (hnolinger : ∀ u, Ev.kill true u true ∉ runQueue P p0 unalloc keys sorted)
    (hcreate : ∀ u t, Ev.create u t false ∉ runQueue P p0 unalloc keys sorted)
    (pre post : List Ev) (t : Nat) (a b : Ent)
    (htr : runQueue P p0 unalloc keys sorted = pre ++ Ev.start t b.uuid true :: post)
    (ha : a ∈ entries) (hb : b ∈ entries)
    (hal : a.st = .locked) (har : a.running = false) (hty : a.ty = t) (hpr : b.prio < a.prio) :
    Ev.start a.ty a.uuid true ∈ pre := by
  rcases C16_priority_order P p0 unalloc keys entries sorted hs hnd pre post t a b htr ha hb hal har hty hpr
    with h | h | h
  · exact h
  · exact (hnolinger a.uuid (by rw [htr]; exact List.mem_append_left _ h)).elim
  · exact (hcreate a.uuid a.ty (by rw [htr]; exact List.mem_append_left _ h)).elim

/-- **A failed Create acts as a latch too, for pools with monotone Create.** If Create failures are
monotone within the pass (`CreateMonotone`: the real `worker.Pool` between timer expiries / cloud
responses, and the stub pool — `C16_stub_monotone`), then after `Create(t)` has failed no
StartContainer on `t` is made in the rest of the pass: the local count of unallocated workers of
`t` was exhausted when Create was tried, and every later Create fails. -/
theorem C16_create_fail_latch {σ : Type} (P : Pool σ) (Dead : σ → Prop) (hm : CreateMonotone P Dead)
    (p0 : σ) (unalloc : Nat → Int) (keys : List Nat) (sorted : List Ent)
    (pre post : List Ev) (t u ub : Nat) (r : Bool)
    (htr : runQueue P p0 unalloc keys sorted = pre ++ Ev.start t ub r :: post) :
    Ev.create u t false ∉ pre := by
  intro hc
  unfold runQueue at htr
  rcases append_split htr with ⟨post', h1, _⟩ | ⟨pre', _, h2⟩
  · exact loop_createFail hm sorted _ pre post' t u ub r h1 hc
  · exact finish_noStart _ _ _ (Ev.start t ub r) (by rw [h2]; simp) t ub r rfl

/-- **Priority order for pools with monotone Create** — the Create exception of
`C16_priority_order` is discharged: a successful StartContainer of `b` implies that every Locked,
not-running, strictly higher-priority container of the same type was started earlier in the pass
or is blocked by its own lingering crunch-run process. -/
theorem C16_priority_order_monotone {σ : Type} (P : Pool σ) (Dead : σ → Prop) (hm : CreateMonotone P Dead)
    (p0 : σ) (unalloc : Nat → Int) (keys : List Nat)
    (entries sorted : List Ent) (hs : IsSorted entries sorted)
    (hnd : entries.Pairwise (fun a b => a.uuid ≠ b.uuid))
    (pre post : List Ev) (t : Nat) (a b : Ent)
    (htr : runQueue P p0 unalloc keys sorted = pre ++ Ev.start t b.uuid true :: post)
    (ha : a ∈ entries) (hb : b ∈ entries)
    (hal : a.st = .locked) (har : a.running = false) (hty : a.ty = t) (hpr : b.prio < a.prio) :
    Ev.start a.ty a.uuid true ∈ pre ∨ Ev.kill true a.uuid true ∈ pre := by
  rcases C16_priority_order P p0 unalloc keys entries sorted hs hnd pre post t a b htr ha hb hal har hty hpr
    with h | h | h
  · exact Or.inl h
  · exact Or.inr h
  · rw [hty] at h
    exact (C16_create_fail_latch P Dead hm p0 unalloc keys sorted pre post t a.uuid b.uuid true htr h).elim

/-- the stub pool of the correspondence check — and, through the `rqp` cases, the real
`worker.Pool`'s AtQuota / Create / StartContainer bookkeeping it is compared with — has monotone
Create failures -/
theorem C16_stub_monotone : CreateMonotone stubPool (fun p => p.canCreate ≤ p.created) :=
  stubPool_createMonotone

/-- **The real pool's Create is monotone — derived from a model of `Pool.Create` and `throttle`**
(`realPool`, Model/C16_Pool.lean: `time.Now()` against `atQuotaUntil`, `throttleCreate.Error()` with
its expiry, `len(creating)` against `maxConcurrentInstanceCreateOps` and the 5 s hold-off it sets), at a
frozen clock and with no cloud response arriving during the pass: Create fails exactly in the states
`createBlocked`, every failed Create leaves the pool in such a state, and no call of a pass leaves it. -/
theorem C16_realpool_monotone : CreateMonotone realPool createBlocked := realPool_createMonotone

/-- Create of the real pool fails exactly when: at quota, throttled, or the create-ops limit is reached -/
theorem C16_realpool_create_fails_iff (t : Nat) (p : RPool) :
    (realPool.create t p).1 = false ↔
      (p.now < p.atQuotaUntil ∨ p.throttled = true ∨ (0 < p.maxOps ∧ p.maxOps ≤ p.creating)) :=
  realPool_create_fails_iff t p

/-- **Priority order against the real pool**: `C16_priority_order_monotone` instantiated with the model
of `worker.Pool` — no Create exception, for every pool state (any clock value, quota / throttle
hold-offs, creates in flight, idle workers, lingering processes). -/
theorem C16_priority_order_realpool (p0 : RPool) (unalloc : Nat → Int) (keys : List Nat)
    (entries sorted : List Ent) (hs : IsSorted entries sorted)
    (hnd : entries.Pairwise (fun a b => a.uuid ≠ b.uuid))
    (pre post : List Ev) (t : Nat) (a b : Ent)
    (htr : runQueue realPool p0 unalloc keys sorted = pre ++ Ev.start t b.uuid true :: post)
    (ha : a ∈ entries) (hb : b ∈ entries)
    (hal : a.st = .locked) (har : a.running = false) (hty : a.ty = t) (hpr : b.prio < a.prio) :
    Ev.start a.ty a.uuid true ∈ pre ∨ Ev.kill true a.uuid true ∈ pre :=
  C16_priority_order_monotone realPool createBlocked C16_realpool_monotone p0 unalloc keys entries sorted hs hnd
    pre post t a b htr ha hb hal har hty hpr

/-- **lockContainer.** `queue.Lock(u)` is called by a pass's goroutines only for a container that
was Queued in the snapshot, is not running, has priority ≥ 1, whose `KillContainer(u, "about to
lock")` returned false in the pass, that has no other operation in progress (`uuidLock`) and whose
cached state is still Queued when the goroutine runs. -/
theorem C16_lock_only_queued {σ : Type} (P : Pool σ) (p0 : σ) (unalloc : Nat → Int) (keys : List Nat)
    (sorted : List Ent) (op : Nat → Bool) (cur : Nat → Option CState) (u : Nat)
    (h : u ∈ lockCalls op cur (runQueue P p0 unalloc keys sorted)) :
    (∃ e ∈ sorted, e.uuid = u ∧ e.st = .queued ∧ e.running = false ∧ 1 ≤ e.prio) ∧
    Ev.kill false u false ∈ runQueue P p0 unalloc keys sorted ∧
    op u = false ∧ cur u = some .queued := by
  unfold lockCalls at h
  obtain ⟨h1, h2⟩ := List.mem_filter.mp h
  obtain ⟨ev, hev, hm⟩ := List.mem_filterMap.mp h1
  have hlg : ev = Ev.lockgo u := by
    cases ev <;> simp at hm
    subst hm; rfl
  subst hlg
  unfold runQueue at hev ⊢
  have hloop : Ev.lockgo u ∈ (loop P sorted (initRQ p0 unalloc)).2.1 := by
    rcases List.mem_append.mp hev with hh | hh
    · exact hh
    · rcases (mem_finish _ _ _ _).mp hh with ⟨_, ⟨e, _, _, h'⟩ | ⟨t, _, _, h'⟩⟩ <;> cases h'
  obtain ⟨e, he, h3, h4, h5, h6, h7⟩ := loop_lockgo P sorted _ u hloop
  unfold lockContainerCalls at h2
  simp only [Bool.and_eq_true, Bool.not_eq_true', decide_eq_true_eq] at h2
  exact ⟨⟨e, he, h3, h4, h5, h6⟩, List.mem_append_left _ h7, h2.1, h2.2⟩

/-- **The `dontstart` latch.** Once a StartContainer on instance type `t` has failed, no further
StartContainer on `t` is attempted in the pass (so no lower-priority container of that type can
sneak in ahead). -/
theorem C16_dontstart_latch {σ : Type} (P : Pool σ) (p0 : σ) (unalloc : Nat → Int) (keys : List Nat)
    (sorted : List Ent) (pre post : List Ev) (t u : Nat)
    (htr : runQueue P p0 unalloc keys sorted = pre ++ Ev.start t u false :: post) :
    ∀ ev ∈ post, ∀ u' r, ev ≠ Ev.start t u' r := by
  unfold runQueue at htr
  rcases append_split htr with ⟨post', h1, h2⟩ | ⟨pre', _, h2⟩
  · intro ev hev u' r he
    rw [h2] at hev
    rcases List.mem_append.mp hev with h | h
    · exact loop_failLatch P sorted _ pre post' t u h1 ev h ⟨u', r, he⟩
    · exact finish_noStart _ _ _ ev h t u' r he
  · exfalso
    exact finish_noStart _ _ _ (Ev.start t u false) (by rw [h2]; simp) t u false rfl

/-- **Over-quota unlock of the tail.** When the pass stops at position i of the priority order
(`overquota = sorted[i:]`):
 1. `overquota` is a suffix of the priority order;
 2. the containers unlocked in the pass are exactly the Locked ones in `overquota`;
 3. hence no Locked container is unlocked while a strictly lower-priority Locked one keeps its lock;
 4. the pass stops early only after the pool has answered `AtQuota() = true`. -/
theorem C16_overquota_unlock_tail {σ : Type} (P : Pool σ) (p0 : σ) (unalloc : Nat → Int) (keys : List Nat)
    (entries sorted : List Ent) (hs : IsSorted entries sorted) :
    (∃ kept, sorted = kept ++ (loop P sorted (initRQ p0 unalloc)).2.2) ∧
    (∀ u, Ev.unlock u ∈ runQueue P p0 unalloc keys sorted ↔
        ∃ e ∈ (loop P sorted (initRQ p0 unalloc)).2.2, e.st = .locked ∧ e.uuid = u) ∧
    (entries.Pairwise (fun a b => a.uuid ≠ b.uuid) →
      ∀ a b, a ∈ entries → b ∈ entries → a.st = .locked → b.st = .locked → b.prio < a.prio →
        Ev.unlock a.uuid ∈ runQueue P p0 unalloc keys sorted →
        Ev.unlock b.uuid ∈ runQueue P p0 unalloc keys sorted) ∧
    ((loop P sorted (initRQ p0 unalloc)).2.2 ≠ [] → ∃ p, (P.atQuota p).1 = true) := by
  obtain ⟨_, _, ⟨kept, hk⟩, hul, hq⟩ := loop_basic P sorted (initRQ p0 unalloc)
  have hiff : ∀ u, Ev.unlock u ∈ runQueue P p0 unalloc keys sorted ↔
      ∃ e ∈ (loop P sorted (initRQ p0 unalloc)).2.2, e.st = .locked ∧ e.uuid = u := by
    intro u
    unfold runQueue
    rw [List.mem_append, mem_finish]
    constructor
    · rintro (h | ⟨_, ⟨e, he, h1, h2⟩ | ⟨t, _, _, h2⟩⟩)
      · obtain ⟨e, rest', ht, h1, h2⟩ := hul u h
        exact ⟨e, by rw [ht]; exact List.mem_cons_self, h1, h2⟩
      · injection h2 with h2; exact ⟨e, he, h1, h2.symm⟩
      · cases h2
    · rintro ⟨e, he, h1, h2⟩
      right
      refine ⟨List.ne_nil_of_mem he, Or.inl ⟨e, he, h1, by rw [h2]⟩⟩
  refine ⟨⟨kept, hk⟩, hiff, ?_, hq⟩
  intro hnd a b ha hb hal hbl hpr hua
  have hnd' : sorted.Pairwise (fun a b => a.uuid ≠ b.uuid) :=
    (List.Perm.pairwise_iff (fun h => uuid_ne_symm h) hs.perm).mpr hnd
  obtain ⟨e, he, _, heu⟩ := (hiff a.uuid).mp hua
  have hes : e ∈ sorted := by rw [hk]; exact List.mem_append_right _ he
  have hea : e = a := eq_of_uuid_eq hnd' hes (hs.perm.mem_iff.mpr ha) heu
  subst hea
  have hbs : b ∈ sorted := hs.perm.mem_iff.mpr hb
  rw [hk] at hbs
  rcases List.mem_append.mp hbs with h | h
  · -- b before the break position: then its priority is at least e's
    have hdesc := hs.desc
    rw [hk] at hdesc
    have := (List.pairwise_append.mp hdesc).2.2 b h e he
    omega
  · exact (hiff b.uuid).mpr ⟨b, h, hbl, rfl⟩

/-- **Idle-worker shutdown.** Shutdown is requested only when the pass stopped at quota, once per
instance type that still has unallocated workers after the containers ahead of the stop position
were mapped onto them. -/
theorem C16_idle_shutdown {σ : Type} (P : Pool σ) (p0 : σ) (unalloc : Nat → Int) (keys : List Nat)
    (sorted : List Ent) (t : Nat) :
    Ev.shutdown t ∈ runQueue P p0 unalloc keys sorted ↔
      (loop P sorted (initRQ p0 unalloc)).2.2 ≠ [] ∧ t ∈ keys ∧
        1 ≤ (loop P sorted (initRQ p0 unalloc)).1.unalloc t := by
  unfold runQueue
  rw [List.mem_append, mem_finish]
  constructor
  · rintro (h | ⟨hne, ⟨e, _, _, h2⟩ | ⟨t', ht', h1, h2⟩⟩)
    · obtain ⟨e, _, hown, _⟩ := (loop_basic P sorted (initRQ p0 unalloc)).1 _ h
      exact hown.elim
    · cases h2
    · injection h2 with h2; subst h2; exact ⟨hne, ht', h1⟩
  · rintro ⟨hne, ht, h1⟩
    exact Or.inr ⟨hne, Or.inr ⟨t, ht, h1, rfl⟩⟩

/-- the executable sort is one of the allowed outcomes of `sort.Slice` -/
theorem C16_sort_exec (entries : List Ent) : IsSorted entries (sortEnts entries) := by
  refine ⟨List.mergeSort_perm _ _, ?_⟩
  have := List.pairwise_mergeSort (le := geP)
    (by intro a b c; simp only [geP, decide_eq_true_eq]; omega)
    (by intro a b; simp only [geP, Bool.or_eq_true, decide_eq_true_eq]; omega) entries
  exact this.imp (by intro a b h; simpa [geP] using h)

/-! ## Part C: container.Queue, the cache between ChooseInstanceType / the controller and runQueue -/
open Q

/-- **No arbitrary type reaches the scheduler.** After any history of Update / Lock / Unlock / Cancel
calls, for any type chooser: every cache entry's instance type is what the chooser returned for that
container when it was added; the zero-valued type (`none`) occurs only for a container that was
neither Queued nor Locked when it was added (runQueue never acts on those). With
`C16_adequate`/`C16_cheapest` for the chooser this is: a schedulable entry carries a cheapest adequate
configured type. -/
theorem C16_queue_no_arbitrary_type (choose : Nat → Option Nat) (ops : List QOp) (u : Nat) (e : CEnt)
    (h : (u, e) ∈ (runOps choose ops emptyCache).current) :
    choose e.addedNeed = e.ty ∧ (e.ty = none → e.addedSt ≠ .queued ∧ e.addedSt ≠ .locked) :=
  typesOK_runOps choose ops emptyCache (fun _ hp => by cases hp) (u, e) h

/-- **An unsatisfiable Queued or Locked container is not added**; a cancel task is started instead
(lock if Queued, set runtime_status.error, cancel). -/
theorem C16_queue_unsat_not_added (choose : Nat → Option Nat) (cur : List (Nat × CEnt)) (r : Rec)
    (hc : choose r.need = none) (hs : r.st = .queued ∨ r.st = .locked) :
    addEnt choose cur r = (cur, true) := by
  unfold addEnt
  rw [hc]
  dsimp only
  rw [if_pos hs]

/-- **A poll does not clobber local updates.** An entry whose Lock / Unlock / Cancel response arrived
while the poll was in flight (its uuid is in `dontupdate`) is neither overwritten with the older
polled record, nor expunged, nor (if absent) added by the poll: runQueue's next snapshot shows the
state the controller confirmed last. -/
theorem C16_queue_local_update_survives_poll (choose : Nat → Option Nat) (c : Cache) (next : List Rec) (v : Nat)
    (hv : inDont c.dontupdate v = true) :
    lookup (applyPoll choose c next).1.current v = lookup c.current v := by
  unfold applyPoll expunge
  dsimp only
  rw [lookup_filter, lookup_applyRecs_dont choose c.dontupdate next c.current [] v hv]
  intro p _ hp
  rw [hp, hv]; rfl

/-- a Lock / Unlock / Cancel response that arrives while an Update is in progress is remembered -/
theorem C16_queue_resp_recorded (c : Cache) (l : List Nat) (u : Nat) (st : QState) (prio : Int)
    (h : c.dontupdate = some l) : inDont (localResp c u st prio).dontupdate u = true := by
  unfold localResp
  cases hl : lookup c.current u <;>
  · simp only [h, Option.map_some, inDont]
    by_cases hc : l.contains u = true
    · simp only [hc, if_true]
    · simp only [hc, Bool.false_eq_true, if_false, List.contains_cons, BEq.rfl, Bool.true_or]

/-! ## Parts A and C composed: what runQueue sees for a container is a cheapest adequate type -/

/-- **`Select:` decides what the chooser is given.** Every record of a poll stems from a record of
the controller's snapshot with the same uuid. It carries that container's constraint vector — unless
one of the three list requests does not select the sizing attributes, in which case it may carry the
all-zero vector instead (what `addEnt` would then size the container from). With `poll()` as it is
(`pollResult`: all three select `selectParam`, tie `tie_queuePollSelect`) every record carries the
controller's vector. -/
theorem C16_queue_poll_select (s1 s2 s3 : Bool) (snap : Ctl) (cur : List (Nat × CEnt)) (needOfU : Nat → Nat)
    (hsnap : ∀ c ∈ snap, c.need = needOfU c.uuid) :
    (∀ r ∈ pollResultSel s1 s2 s3 snap cur,
        r.need = needOfU r.uuid ∨ ((s1 && s2 && s3) = false ∧ r.need = 0)) ∧
    (∀ r ∈ pollResult snap cur, r.need = needOfU r.uuid) := by
  refine ⟨?_, pollResult_need snap cur needOfU hsnap⟩
  intro r hr
  obtain ⟨c, hc, hu, hn⟩ := pollResultSel_need s1 s2 s3 snap cur r hr
  rcases hn with hn | hn
  · left; rw [hn, hsnap c hc, hu]
  · exact Or.inr hn

/-- **A queue entry carries a cheapest adequate configured type for its own container** (parts A and C
composed). The chooser is the dispatcher's: ChooseInstanceType over the cluster's table, in whatever
order the Go map is iterated for that container (`chooserOf`; tie `tie_typeChooser`,
`tie_typeChooserPure`). For every history of Update / Lock / Unlock / Cancel calls from an empty queue
(a dispatcher that has just started) in which every poll response carries each container's own
constraint vector (`FullPolls`; by `C16_queue_poll_select` that is what `poll()` delivers), an entry
for container `u`
 * with a type: the type is configured, satisfies every constraint of container `u` (VCPUs, RAM after
   the discount, scratch, preemptible — the unbounded formulas) and no adequate configured type is
   strictly cheaper;
 * with the zero-valued type: no configured type satisfies the constraints, and the container was
   neither Queued nor Locked when it was added (so runQueue never acts on it). -/
theorem C16_queue_entry_cheapest_adequate (table : List IType) (orderOf : Nat → List IType) (reserve : Int)
    (decode : Nat → Ctr) (needOfU : Nat → Nat)
    (hperm : ∀ n, (orderOf n).Perm table) (hr : ∀ n, InRange reserve (decode n))
    (hnn : ∀ x ∈ table, 0 ≤ x.ram ∧ 0 ≤ x.vcpus)
    (ops : List QOp) (hfull : FullPolls needOfU ops) (u : Nat) (e : CEnt)
    (h : (u, e) ∈ (runOps (chooserOf orderOf reserve decode) ops emptyCache).current) :
    (∀ t, e.ty = some t → ∃ it ∈ table, it.name = t ∧
        Adequate (needSpec reserve (decode (needOfU u))) it ∧
        ∀ other ∈ table, Adequate (needSpec reserve (decode (needOfU u))) other → it.price ≤ other.price) ∧
    (e.ty = none → (∀ x ∈ table, ¬ Adequate (needSpec reserve (decode (needOfU u))) x) ∧
        e.addedSt ≠ .queued ∧ e.addedSt ≠ .locked) := by
  obtain ⟨hty, hz⟩ := C16_queue_no_arbitrary_type (chooserOf orderOf reserve decode) ops u e h
  have hneed : e.addedNeed = needOfU u :=
    needsOK_runOps (chooserOf orderOf reserve decode) needOfU ops emptyCache hfull (fun _ hp => by cases hp) (u, e) h
  rw [hneed] at hty
  constructor
  · intro t ht
    rw [ht] at hty
    obtain ⟨it, hit, hname⟩ := chooserOf_some hty
    obtain ⟨hmem, had⟩ := C16_adequate table (orderOf (needOfU u)) [] reserve (decode (needOfU u)) it
      (hperm _) (hr _) hit
    exact ⟨it, hmem, hname, had,
      C16_cheapest table (orderOf (needOfU u)) [] reserve (decode (needOfU u)) it (hperm _) (hr _) hnn hit⟩
  · intro hn
    rw [hn] at hty
    refine ⟨?_, hz hn⟩
    intro x hx hax
    obtain ⟨it, hit⟩ := C16_satisfiable table (orderOf (needOfU u)) [] reserve (decode (needOfU u)) x
      (hperm _) (hr _) hnn hx hax
    exact chooserOf_none hty it hit

/-! ## Non-vacuity: concrete instances of the hypotheses, and witnesses of the stated exceptions -/

def exA : IType := { name := 1, vcpus := 1, ram := 2000, scratch := 10, price := 64, preemptible := false }
def exB : IType := { name := 2, vcpus := 2, ram := 1000, scratch := 10, price := 64, preemptible := false }
def exC : IType := { name := 3, vcpus := 4, ram := 4000, scratch := 10, price := 128, preemptible := false }
def exCtr : Ctr :=
  { vcpus := 1, ram := 900, keepCacheRAM := 40, preemptible := false, image := [],
    mounts := [⟨tmpKind, 7⟩, ⟨[120], 99⟩] }

example : InRange 10 exCtr := ⟨by decide, by decide, by decide, by decide⟩
example : ∀ x ∈ [exA, exB, exC], 0 ≤ x.ram ∧ 0 ≤ x.vcpus := by decide
/-- (900 + 40 + 10)·100/95 = 1000: exB is an exact fit; only the `tmp` mount counts -/
example : needOf 10 exCtr = { vcpus := 1, ram := 1000, scratch := 7, preemptible := false } := by decide
/-- equal price, incomparable specs: the map order decides (both results are in `allowed`) -/
example : chooseWith [exA, exB, exC] [] 10 exCtr = .ok exA := by decide
example : chooseWith [exC, exB, exA] [] 10 exCtr = .ok exB := by decide
example : allowed (needOf 10 exCtr) [exA, exB, exC] = [exA, exB] := by decide
/-- one byte more RAM and exB no longer fits -/
example : chooseWith [exC, exB, exA] [] 10 { exCtr with ram := 901 } = .ok exA := by decide
example : chooseWith [exA, exB, exC] [exA, exB, exC] 10 { exCtr with vcpus := 5 } = .unsat [exA, exB, exC] := by
  decide
example : IsAvail [exC, exA, exB] [exA, exB, exC] := ⟨by decide, by decide⟩
example : chooseWith [] [] 10 exCtr = .notConfigured := by decide
/-- a well-formed PDH of a 3-block image manifest: 3 · 64 MiB, needed twice -/
example : imageSize64 ((List.replicate 32 97) ++ [43, 50, 48, 54]) = 201326592 := by decide
example : scratch64 [7] 201326592 = 402653184 := by decide
/-- the quirk behind the non-negativity hypothesis: a free type with negative RAM is compared with the
zero-valued `best` and skipped although it is adequate for a (nonsensical) negative request -/
example : chooseWith [{ exA with price := 0, ram := -1 }] [] 0 { exCtr with ram := -100, keepCacheRAM := 0 } =
    .unsat [] := by decide

def exEnts : List Ent :=
  [ { uuid := 1, prio := 5, st := .locked, ty := 0, running := false },
    { uuid := 2, prio := 4, st := .locked, ty := 0, running := false },
    { uuid := 3, prio := 3, st := .queued, ty := 0, running := false } ]
def exStub : Stub :=
  { quota := 1, canCreate := 9, created := 0, idle := fun _ => 1, starts := fun _ => 0, mode := fun _ => .byIdle,
    lingering := fun _ => false }

example : IsSorted exEnts.reverse exEnts := ⟨by decide, by decide⟩
example : exEnts.Pairwise (fun a b => a.uuid ≠ b.uuid) := by decide
/-- 1 starts on the idle worker; a worker is created for 2 but its start fails (latch); the pool is
now at quota, so the pass stops at the Queued container 3 -/
example : runQueue stubPool exStub (fun _ => 1) [0] exEnts =
    [.kill true 1 false, .start 0 1 true, .create 2 0 true, .kill true 2 false, .start 0 2 false] := by decide
/-- at quota from the start: the head is unlocked in the loop and again with the rest of the tail -/
example : runQueue stubPool { exStub with quota := 0 } (fun _ => 0) [0] exEnts =
    [.unlock 1, .unlock 1, .unlock 2] := by decide
/-- witness of the lingering-process exception (F8): 2 starts although 1 (higher priority, same
type, Locked) has not been started — 1 waits for its previous crunch-run to exit -/
example : runQueue stubPool { exStub with lingering := fun u => u == 1, quota := 9 } (fun _ => 2) [0] exEnts =
    [.kill true 1 true, .kill true 2 false, .start 0 2 true, .kill false 3 false, .lockgo 3] := by decide
/-- witness of the Create exception: a pool whose Create fails once and then succeeds lets 2 start
while 1 has no worker (the `continue` branch does not set the latch) -/
def flakyPool : Pool Nat where
  atQuota := fun n => (false, n)
  create := fun _ n => (decide (1 ≤ n), n + 1)
  kill := fun _ _ n => (false, n)
  start := fun _ _ n => (true, n)
example : runQueue flakyPool 0 (fun _ => 0) [0] exEnts =
    [.create 1 0 false, .create 2 0 true, .kill true 2 false, .start 0 2 true, .kill false 3 false, .lockgo 3] := by
  decide

/-- the seeded-change scenario C16-f on the model: container 1 is Queued when the controller answers
the poll, its lock is granted while the poll is in flight; the cache ends with 1 Locked -/
example :
    let c0 : Cache := { current := [(1, { st := .queued, prio := 5, ty := some 0, addedSt := .queued, addedNeed := 1 })],
                        dontupdate := none }
    lookup (runOps (fun _ => some 0) [.begin, .resp 1 .locked 5, .poll [{ uuid := 1, st := .queued, prio := 5, need := 1 }]] c0).current 1 =
      some { st := .locked, prio := 5, ty := some 0, addedSt := .queued, addedNeed := 1 } := by decide
/-- the scenario C16-e on the model: an unsatisfiable Locked container is not added -/
example : (applyPoll (fun _ => none) emptyCache [{ uuid := 1, st := .locked, prio := 5, need := 9 }]).1.current = [] ∧
    (applyPoll (fun _ => none) emptyCache [{ uuid := 1, st := .locked, prio := 5, need := 9 }]).2 = [1] := by decide

/-- the explicit bounds are satisfiable at their edge: the largest RAM sum, a PDH of the largest
admitted manifest length, a tmp mount of 2⁶² bytes -/
def exBigCtr : Ctr :=
  { vcpus := 1, ram := 92233720368547758, keepCacheRAM := 0, preemptible := false,
    image := (List.replicate 32 97) ++ [43, 50, 56, 56, 54, 50, 49, 56, 48, 50, 50, 57, 57, 49],
    mounts := [⟨tmpKind, 4611686018427387904⟩] }
example : pdhSize? exBigCtr.image = some imageLenBound := by decide
example : InRange 0 exBigCtr :=
  C16_inrange_of_bounds 0 exBigCtr ⟨by decide, by decide⟩
    (fun n hn => by
      have h : pdhSize? exBigCtr.image = some imageLenBound := by decide
      rw [h] at hn; injection hn with hn; omega)
    ⟨by decide, by decide⟩
/-- one byte more RAM and the int64 product wraps to a negative needRAM: any type is then "big enough"
(the range hypothesis of Part A is needed; see notes, "int64 range") -/
example : (needOf 0 { exBigCtr with ram := 92233720368547759 }).ram = -97088126703734481 := by decide

/-- the real pool at a concrete state: one create op allowed at a time. The first Create succeeds, the
second fails and sets the 5 s hold-off, the third fails because of the hold-off -/
def exRPool : RPool :=
  { now := 1000, atQuotaUntil := 0, thrErr := false, thrUntil := 0, creating := 0, maxOps := 1,
    idle := fun _ => 0, runningProc := fun _ => false }
example : (realPool.create 0 exRPool).1 = true := by decide
example : (realPool.create 0 (realPool.create 0 exRPool).2).1 = false := by decide
example : createBlocked (realPool.create 0 (realPool.create 0 exRPool).2).2 := by decide
/-- what the frozen clock excludes: once `time.Now()` has passed the hold-off (and the cloud call has
returned) Create succeeds again — the "Create failed, then succeeded" exception of
`C16_priority_order` needs such an event to fall inside the pass -/
example : (realPool.create 0 { (realPool.create 0 (realPool.create 0 exRPool).2).2 with now := 6001, creating := 0 }).1 = true := by
  decide

/-- the seeded-change scenario C16-h on the model: a dispatcher that has just started finds container 1
Locked by its own token; if the "locked by me" request does not select the sizing attributes the polled
record carries the all-zero constraint vector instead of the container's (here: code 4) -/
example : pollResultSel false true true
      [{ uuid := 1, st := .locked, prio := 5, need := 4, mine := true, err := false }] [] =
    [{ uuid := 1, st := .locked, prio := 5, need := 0 }] := by decide
example : pollResult [{ uuid := 1, st := .locked, prio := 5, need := 4, mine := true, err := false }] [] =
    [{ uuid := 1, st := .locked, prio := 5, need := 4 }] := by decide

/-- a concrete instance of the hypotheses of `C16_queue_entry_cheapest_adequate`: table exA/exB/exC, the
constraint-vector code is the number of VCPUs, one poll that shows container 1 (1 VCPU) and container 2
(5 VCPUs, Complete): 1 gets exA, 2 is kept with the zero-valued type -/
def exDecode (n : Nat) : Ctr := { exCtr with vcpus := (n : Int) }
example : ∀ n, InRange 10 (exDecode n) := fun _ =>
  have h : InRange 10 exCtr := ⟨by decide, by decide, by decide, by decide⟩
  ⟨h.ram, h.img, h.tmp, h.scratch⟩
example : FullPolls (fun u => if u = 1 then 1 else 5)
    [.begin, .poll [{ uuid := 1, st := .queued, prio := 5, need := 1 }, { uuid := 2, st := .complete, prio := 0, need := 5 }]] := by
  intro next hn r hr
  simp only [List.mem_cons, List.not_mem_nil, or_false, reduceCtorEq, false_or, QOp.poll.injEq] at hn
  subst hn
  simp only [List.mem_cons, List.not_mem_nil, or_false] at hr
  rcases hr with rfl | rfl <;> rfl
example : ((runOps (chooserOf (fun _ => [exA, exB, exC]) 10 exDecode)
      [.begin, .poll [{ uuid := 1, st := .queued, prio := 5, need := 1 }, { uuid := 2, st := .complete, prio := 0, need := 5 }]]
      emptyCache).current.map (fun p => (p.1, p.2.ty))) = [(1, some 1), (2, none)] := by decide

end ArvVerif.C16
