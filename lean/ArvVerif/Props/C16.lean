import ArvVerif.Model.C16
import ArvVerif.Model.C16_RunQueue
namespace ArvVerif.C16
end ArvVerif.C16
