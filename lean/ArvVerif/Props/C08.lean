/-
C08 — a collection filesystem behaves like an ordinary in-memory filesystem.
Property theorems, FILE LAYER (byte-level refinement of filenode.seek/Read/Write/truncate and of the
background flush). The directory/handle layer and the history theorem are in Props/C08_History.lean.

Every theorem holds for every block size limit `max ≥ 1`, every locator function `hash` without
collisions (`Function.Injective hash`, the explicit collision-freeness hypothesis), every Keep
store in which blocks are filed under their own locator (`StoreOK`), every well-formed file (`WF`:
size = Σ segment lengths, no zero-length segment, stored segments inside their block and the block
present in Keep, mem segments ≤ max, pending-flush snapshots in Keep) and every pointer satisfying
`PtrOK` — in particular every *stale* pointer (any segment coordinates when the `repacked` stamp
differs, which is what `filehandle.Seek` produces).
-/
import ArvVerif.Proofs.C08_Write5
namespace ArvVerif.C08

variable {max : Nat} {hash : Bytes → Loc} {st : Store}

/-- **Well-formedness is an invariant.** The empty file is well-formed; `truncate` and `Write`
(followed by the background flushes settling) keep it, keep the `repacked` counter non-negative and
keep the Keep store consistent. All four structural clauses are really maintained by the code:
size = Σ lengths, no zero-length segment, stored segments inside their (present) block, mem segments
≤ maxBlockSize. -/
theorem C08_wf_invariant (hinj : Function.Injective hash) (hmax : 1 ≤ max) :
    WF max hash st FileNode.empty ∧
    (∀ fn n, WF max hash st fn → 0 ≤ fn.repacked →
      ∃ fn', truncate max fn n = some fn' ∧ WF max hash st fn' ∧ 0 ≤ fn'.repacked) ∧
    (∀ fn ptr p, StoreOK hash st → WF max hash st fn → 0 ≤ fn.repacked → PtrOK fn ptr →
      ∃ w, write hash max st fn ptr p = WriteRes.done w p.length ∧ StoreOK hash w.st ∧ StoreExt st w.st ∧
        WF max hash w.st w.fn ∧ WF max hash w.st (settle hash w.fn) ∧ 0 ≤ (settle hash w.fn).repacked) := by
  refine ⟨⟨rfl, fun s hs => by cases hs⟩, ?_, ?_⟩
  · intro fn n hwf hrep
    obtain ⟨fn', h1, h2⟩ := truncate_spec (hash := hash) (st := st) hmax hwf hrep n
    refine ⟨fn', h1, h2.wf, ?_⟩
    by_cases hn : n = fn.size
    · rw [h2.same hn]; exact hrep
    · rw [h2.bump hn]; omega
  · intro fn ptr p hok hwf hrep hptr
    obtain ⟨w, h1, h2⟩ := write_spec hinj hmax hok hwf hrep hptr p
    obtain ⟨s1, _, _, s4, _⟩ := settle_spec h2.wf
    exact ⟨w, h1, h2.ok, h2.ext, h2.wf, s1, by rw [s4]; exact h2.rep⟩

/-- **seek** puts any `PtrOK` pointer (in particular any stale one) into normal form without
panicking: same offset, current stamp, and coordinates that are exactly EOF `(len, 0)` when the
offset is at/after the end, else strictly inside the segment that holds the offset. -/
theorem C08_seek_refines {fn : FileNode} {p : Ptr} (hwf : WF max hash st fn) (hp : PtrOK fn p) :
    ∃ q, seek fn p = some q ∧ q.off = p.off ∧ q.repacked = fn.repacked ∧
      ((p.off ≥ fn.size ∧ q.segIdx = fn.segs.length ∧ q.segOff = 0) ∨
       (p.off < fn.size ∧ ∃ s, fn.segs[q.segIdx]? = some s ∧ q.segOff < s.len ∧
          sumLen (fn.segs.take q.segIdx) + q.segOff = p.off)) :=
  seek_spec hwf hp

/-- **Read** (one `filenode.Read` call with a buffer of `want` bytes) never panics or fails with an
I/O error, returns exactly the file's bytes at the pointer's offset — a prefix of what the plain
model's `pread` returns, non-empty unless `want = 0` or the offset is at/after EOF —, advances the
offset by the number of bytes returned, leaves a valid pointer, and reports EOF exactly when the
offset is at/after the end or the data ran out before `want` bytes. -/
theorem C08_read_refines {fn : FileNode} {p : Ptr} (hwf : WF max hash st fn) (hp : PtrOK fn p) (want : Nat) :
    ∃ r, readAt st fn p want = some r ∧
      r.data = specRead (abs st fn) p.off r.data.length ∧ r.data.length ≤ want ∧
      r.ptr.off = p.off + r.data.length ∧ PtrOK fn r.ptr ∧ r.err ≠ IOErr.io ∧
      (r.err = IOErr.eof ↔ (p.off ≥ fn.size ∨ (p.off + r.data.length = fn.size ∧ r.data.length < want))) ∧
      (r.err = IOErr.ok → 0 < want → 0 < r.data.length) := by
  obtain ⟨r, h1, h2⟩ := readAt_spec hwf hp want
  exact ⟨r, h1, h2.data_eq, h2.len_le, h2.off_eq, h2.ptr_ok, h2.not_io, h2.eof_iff, h2.progress⟩

/-- **Read, exactly which prefix**: a `Read` call before EOF delivers the plain model's `pread` cut
at the end of the segment that holds the offset — `min want (bytes left in that segment)` bytes, no
more, no fewer. (So the short-read freedom is fully determined by the segment list.) -/
theorem C08_read_exact {fn : FileNode} {p : Ptr} (hwf : WF max hash st fn) (hp : PtrOK fn p) (want : Nat)
    (hlt : p.off < fn.size) :
    ∃ r i s o, readAt st fn p want = some r ∧ fn.segs[i]? = some s ∧ o < s.len ∧
      sumLen (fn.segs.take i) + o = p.off ∧
      r.data = specRead (abs st fn) p.off (min want (s.len - o)) := by
  obtain ⟨r, h1, h2⟩ := readAt_spec hwf hp want
  obtain ⟨i, s, o, e1, e2, e3, e4⟩ := h2.exact hlt
  exact ⟨r, i, s, o, h1, e1, e2, e3, by rw [← e4]; exact h2.data_eq⟩

/-- **truncate** equals the plain model's truncate (cut, or zero-fill when growing), for any
target size, and bumps `repacked` whenever it changes anything (so every other pointer is
revalidated). -/
theorem C08_truncate_refines {fn : FileNode} (hmax : 1 ≤ max) (hwf : WF max hash st fn)
    (hrep : 0 ≤ fn.repacked) (n : Nat) :
    ∃ fn', truncate max fn n = some fn' ∧ WF max hash st fn' ∧
      abs st fn' = specTruncate (abs st fn) n ∧ fn'.size = n ∧
      (∀ q, PtrOK fn q → PtrOK fn' q) := by
  obtain ⟨fn', h1, h2⟩ := truncate_spec (hash := hash) (st := st) hmax hwf hrep n
  refine ⟨fn', h1, h2.wf, h2.abs_eq, h2.size_eq, ?_⟩
  intro q hq
  by_cases hn : n = fn.size
  · rw [h2.same hn]; exact hq
  · have := h2.bump hn
    exact ⟨by have := hq.1; omega, fun h => by have := hq.1; omega⟩

/-- **Write** (`filenode.Write` from any `PtrOK` start pointer, data of any length, straddling any
number of segment and block boundaries, including the implicit zero-extension when the pointer is
beyond EOF) never panics or hangs, consumes all the data, produces exactly the plain model's
`pwrite` result, advances the offset by `p.length`, and keeps every other handle's pointer valid. -/
theorem C08_write_refines (hinj : Function.Injective hash) (hmax : 1 ≤ max) {fn : FileNode} {ptr : Ptr}
    (hok : StoreOK hash st) (hwf : WF max hash st fn) (hrep : 0 ≤ fn.repacked) (hptr : PtrOK fn ptr) (p : Bytes) :
    ∃ w, write hash max st fn ptr p = WriteRes.done w p.length ∧
      abs w.st w.fn = specWrite (abs st fn) ptr.off p ∧
      w.ptr.off = ptr.off + p.length ∧ PtrOK w.fn w.ptr ∧
      WF max hash w.st w.fn ∧ StoreExt st w.st ∧ StoreOK hash w.st ∧
      (∀ q, PtrOK fn q → PtrOK w.fn q) := by
  obtain ⟨w, h1, h2⟩ := write_spec hinj hmax hok hwf hrep hptr p
  exact ⟨w, h1, h2.abs_eq, h2.off, h2.ptr_ok, h2.wf, h2.ext, h2.ok, h2.others⟩

/-- O_APPEND: the repositioned pointer is valid, so an append-mode write is `pwrite` at EOF. -/
theorem C08_append_refines (hinj : Function.Injective hash) (hmax : 1 ≤ max) {fn : FileNode}
    (hok : StoreOK hash st) (hwf : WF max hash st fn) (hrep : 0 ≤ fn.repacked) (p : Bytes) :
    ∃ w, write hash max st fn (appendPtr fn) p = WriteRes.done w p.length ∧
      abs w.st w.fn = abs st fn ++ p := by
  obtain ⟨w, h1, h2⟩ := write_spec hinj hmax hok hwf hrep (appendPtr_ok fn) p
  refine ⟨w, h1, ?_⟩
  rw [h2.abs_eq]
  have hlen := hwf.abs_length
  show specWrite (abs st fn) fn.size p = _
  unfold specWrite
  rw [show fn.size - (abs st fn).length = 0 by omega]
  simp only [zeros_zero, List.append_nil]
  rw [List.take_of_length_le (by omega), List.drop_of_length_le (by omega)]
  simp

/-- **Termination of the Write loop**: from a well-formed state every iteration consumes at least
one byte (`0 < k`), so `p.length` iterations always suffice — with any larger fuel the loop ends in
`done` with the same byte count, never in `hang` or `panic`. (A zero-length segment or a pointer
sitting at the end of a segment is where the real loop would spin; `WF` and `seek` exclude both.) -/
theorem C08_write_terminates (hinj : Function.Injective hash) (hmax : 1 ≤ max) {w : WState}
    (hok : StoreOK hash w.st) (hwf : WF max hash w.st w.fn) (hpos : WPos w.fn w.ptr) :
    (∀ p, p ≠ [] → ∃ w' k, writeStep hash max w p = some (w', k) ∧ 0 < k ∧ k ≤ p.length) ∧
    (∀ p fuel, p.length ≤ fuel → ∃ w', writeLoop hash max fuel w p 0 = WriteRes.done w' p.length) := by
  constructor
  · intro p hp
    obtain ⟨w', k, h1, h2⟩ := step_spec hinj hmax hp hok hwf hpos
    exact ⟨w', k, h1, h2.k_pos, h2.k_le⟩
  · intro p fuel hf
    obtain ⟨w', h1, _⟩ := loop_spec hinj hmax fuel w p 0 hf hok hwf hpos
    exact ⟨w', by rw [h1, Nat.zero_add]⟩

/-- **Flushes are invisible (1)**: replacing a mem segment by a stored segment whose block holds the
same bytes — at any index, at any time — leaves the content unchanged. -/
theorem C08_flush_invisible {segs : List Seg} {i : Nat} {buf : Bytes} {fl : Flush} {loc : Loc}
    {size off : Nat} {b : Bytes} (hseg : segs[i]? = some (Seg.mem buf fl)) (hb : st loc = some b)
    (hsame : (b.drop off).take buf.length = buf) :
    absSegs st (segs.set i (Seg.stored loc size off buf.length)) = absSegs st segs := by
  have h1 := segs_split hseg
  have hlen : (segs.take i).length = i := by
    rw [List.length_take]
    have : i < segs.length := by
      apply Classical.byContradiction; intro hn
      rw [List.getElem?_eq_none (by omega)] at hseg; cases hseg
    omega
  conv => lhs; arg 2; arg 1; rw [h1]
  conv => lhs; arg 2; arg 2; rw [← hlen]
  rw [set_mid]
  conv => rhs; rw [h1]
  simp only [absSegs_append, absSegs_cons, Seg.bytes_mem, Seg.bytes_stored hb, hsame]

/-- **Flushes are invisible (2)**: pruneMemSegments' background goroutines (`settle`, running at
any quiescent point after the writer released the lock) and the PutB calls of `pruneSegs` change
neither the content nor the size nor any pointer's validity, and keep the file well-formed. -/
theorem C08_flush_invisible_settle {fn : FileNode} (hwf : WF max hash st fn) :
    WF max hash st (settle hash fn) ∧ abs st (settle hash fn) = abs st fn ∧
    (settle hash fn).size = fn.size ∧ ∀ q, PtrOK fn q → PtrOK (settle hash fn) q := by
  obtain ⟨h1, h2, h3, _, h5⟩ := settle_spec hwf
  exact ⟨h1, h2, h3, h5⟩

/-! ### Non-vacuity: the hypotheses are satisfiable by a non-trivial instance -/

/-- `id` is a collision-free locator function. -/
example : Function.Injective (id : Bytes → Loc) := fun _ _ h => h

/-- Keep holding one block, filed under its own locator. -/
def exStore : Store := Store.put id (fun _ => none) [1, 2, 3, 4]

example : StoreOK id exStore := Store.put_ok (fun _ _ h => by cases h) _

/-- a file of 4 bytes: two bytes of the stored block followed by a two-byte mem segment -/
def exFile : FileNode := ⟨[Seg.stored [1, 2, 3, 4] 4 1 2, Seg.mem [9, 8] Flush.none], 4, 3⟩

theorem exFile_wf : WF 2 id exStore exFile := by
  refine ⟨rfl, ?_⟩
  intro s hs
  simp only [exFile, List.mem_cons, List.not_mem_nil, or_false] at hs
  rcases hs with h | h
  · rw [h]; exact ⟨by decide, by decide, [1, 2, 3, 4], by simp [exStore, Store.put], rfl⟩
  · rw [h]; exact ⟨by decide, by decide, fun i l h => by cases h⟩

example : abs exStore exFile = [2, 3, 9, 8] := by simp [abs, absSegs, exFile, Seg.bytes, exStore, Store.put]

/-- a stale pointer (wrong stamp, nonsense coordinates) satisfies `PtrOK` -/
example : PtrOK exFile ⟨1, 17, 42, -1⟩ := ⟨by decide, fun h => by cases h⟩

/-- a current pointer into the middle of the stored segment -/
example : PtrOK exFile ⟨1, 0, 1, 3⟩ :=
  ⟨by decide, fun _ => Or.inr ⟨_, rfl, by decide, rfl⟩⟩

/-- `WPos` holds for it as well (hypothesis of `C08_write_terminates`) -/
example : WPos exFile ⟨1, 0, 1, 3⟩ := ⟨rfl, Or.inr ⟨_, rfl, by decide, rfl⟩⟩

/-- Running the model on that instance: a write of 2 bytes at offset 1 through a stale pointer with
maxBlockSize 2 splits the stored segment, fills a fresh mem segment, then overwrites the first byte
of the next mem segment; content and segment shape as expected. -/
example :
    (match write id 2 exStore exFile ⟨1, 17, 42, -1⟩ [7, 7] with
     | WriteRes.done w n => some (abs w.st w.fn, n, w.fn.segs.map Seg.len)
     | _ => none) = some ([2, 7, 7, 8], 2, [1, 1, 2]) := by decide

end ArvVerif.C08
